/-
  `-r E` versus `BEGINFILE { $ = E }` (C14), builtins: a program that mentions the names
  `printf`, `json`, `num` only as the callee of a call — no assignment target, parameter,
  pattern binding, loop variable or function of that name (`okProg`) — never changes what these
  names denote in the root frame, nor the cells they are bound to.

  The invariant (`InvB`) is the region invariant of Lemmas/NoPanic*.lean for the region "every
  cell but the builtin cells" (`P.N` = 3 for the main evaluator), with two changes: a frame may
  bind a *builtin name* to a cell outside the region, and the cells outside the region keep the
  value they had (`HeapB.keep`).  Every write goes to a cell of the region: every cell an
  expression hands out lies in the region, except for the identifier in callee position, which is
  only read.  The program logic `BP` and the induction over the evaluator follow
  Lemmas/NoPanicLogic.lean, NoPanicEval.lean and NoPanicAll.lean line by line.
-/
import Jqawk.Lemmas.SelectorPlain
import Jqawk.Lemmas.Heap

set_option linter.unusedVariables false
set_option linter.unusedSimpArgs false
set_option linter.unusedSectionVars false

namespace Jqawk
namespace Sel

/-! ### the syntactic condition -/

/-- the names the root frame of every evaluator binds to natives -/
def isB (k : Bytes) : Bool := k == b!"printf" || k == b!"json" || k == b!"num"

mutual
/-- a builtin name occurs only as the callee of a call (and never as a pattern binding) -/
def okE : Expr → Bool
  | .lit _ => true
  | .ident t => !isB t.text
  | .arr _ items => okEs items
  | .obj _ items => okKVs items
  | .unary e _ _ => okE e
  | .binary l r op => okE l && (op.tag == .is || okE r)
  | .call f args => (f.isIdent || okE f) && okEs args
  | .match_ _ v cases => okE v && okCases cases
def okEs : List Expr → Bool
  | [] => true
  | e :: es => okE e && okEs es
def okKVs : List (Bytes × Expr) → Bool
  | [] => true
  | (_, e) :: es => okE e && okKVs es
def okCases : List MatchCase → Bool
  | [] => true
  | (.mk pats body) :: cs => okEs pats && okS body && okCases cs
def okS : Stmt → Bool
  | .block _ body => okSs body
  | .print _ args => okEs args
  | .expr e => okE e
  | .ret none => true
  | .ret (some e) => okE e
  | .brk _ => true
  | .cont _ => true
  | .next _ => true
  | .exit _ => true
  | .if_ c b none => okE c && okS b
  | .if_ c b (some e) => okE c && okS b && okS e
  | .while_ c b => okE c && okS b
  | .for_ pre c post b => okE pre && okE c && okE post && okS b
  | .forIn id idx iter b =>
    !isB id.text && (match idx with | none => true | some it => !isB it.text) && okE iter && okS b
def okSs : List Stmt → Bool
  | [] => true
  | s :: ss => okS s && okSs ss
end

def okRule (r : Rule) : Bool :=
  okS r.body && (match r.pattern with | none => true | some e => okE e)

def okFn (f : FuncDef) : Bool :=
  !isB f.ident.text && f.args.all (fun p => !isB p) && okS f.body

/-- the program never rebinds a builtin name: it mentions `printf`, `json`, `num` only as callees,
    and has no function, parameter, pattern binding or loop variable of such a name -/
def okProg (p : Program) : Bool := p.rules.all okRule && p.functions.all okFn

/-! ### the invariant -/

/-- the heap part: the region invariant, and the cells below the region are those of `h0` -/
structure HeapB (P : Region) (h0 : Heap) (h : Heap) : Prop extends HeapOK P h where
  keep : ∀ i, i < P.N → h.get i = h0.get i
  low : ∀ i, i < P.N → GoodV P (h0.get i)

/-- the locals of a frame: cells of the region, except for builtin names -/
def FrM (P : Region) (m : List (Bytes × CellId)) : Prop := ∀ kc ∈ m, P.N ≤ kc.2 ∨ isB kc.1 = true

/-- bindings that may be added to a frame -/
def RegMB (P : Region) (m : List (Bytes × CellId)) : Prop := ∀ kc ∈ m, P.N ≤ kc.2 ∧ isB kc.1 = false

def OptRegMB (P : Region) : Option (List (Bytes × CellId)) → Prop
  | some m => RegMB P m
  | none => True

/-- what the root frame binds a name to -/
def botLookup (fr : List Frame) (k : Bytes) : Option CellId :=
  match fr.getLast? with
  | some f => objLookup f.locals k
  | none => none

structure FramesB (P : Region) (b0 : Bytes → Option CellId) (fr : List Frame) : Prop where
  ne : fr ≠ []
  loc : ∀ f ∈ fr, FrM P f.locals
  bot : ∀ k, isB k = true → botLookup fr k = b0 k
  some : ∀ k, isB k = true → (b0 k).isSome = true

structure InvB (P : Region) (h0 : Heap) (b0 : Bytes → Option CellId) (K : Option CellId → Prop) (s : St) :
    Prop where
  heap : HeapB P h0 s.heap
  frames : FramesB P b0 s.frames
  ret : OptReg P s.returnVal
  root : OptReg P s.root
  rr : K s.ruleRoot

variable {P : Region} {h0 : Heap} {b0 : Bytes → Option CellId} {K : Option CellId → Prop}

/-! ### heap algebra -/

theorem get_set_of_ne (h : Heap) (d : CellId) (v : Val) (c : CellId) (hne : c ≠ d) :
    (h.set d v).get c = h.get c := by
  rw [get_set]
  have : ¬ (c = d ∧ d < h.cells.size) := fun e => hne e.1
  simp only [this, ↓reduceIte]

namespace HeapB

theorem cellsAll {h : Heap} (ok : HeapB P h0 h) (c : CellId) : GoodV P (h.get c) := by
  by_cases hc : c < P.N
  · rw [ok.keep c hc]; exact ok.low c hc
  · exact ok.cells c (Nat.le_of_not_lt hc)

theorem set {h : Heap} (ok : HeapB P h0 h) {c : CellId} (hc : P.N ≤ c) {v : Val} (hv : GoodV P v) :
    HeapB P h0 (h.set c v) := by
  refine ⟨ok.toHeapOK.set c hv, ?_, ok.low⟩
  intro i hi
  rw [get_set]
  have : ¬ (i = c ∧ c < h.cells.size) := fun e => by
    have := e.1; subst this; exact absurd hi (Nat.not_lt.mpr hc)
  simp only [this, ↓reduceIte]
  exact ok.keep i hi

theorem alloc {h : Heap} (ok : HeapB P h0 h) {v : Val} (hv : GoodV P v) :
    HeapB P h0 (h.alloc v).2 ∧ P.N ≤ (h.alloc v).1 := by
  have ha := ok.toHeapOK.alloc hv
  refine ⟨⟨ha.1, ?_, ok.low⟩, ha.2⟩
  intro i hi
  rw [get_alloc]
  have : i ≠ h.cells.size := Nat.ne_of_lt (Nat.lt_of_lt_of_le hi ok.nle)
  simp only [this, ↓reduceIte]
  exact ok.keep i hi

theorem setArr {h : Heap} (ok : HeapB P h0 h) (a : ArrId) {items : Array CellId}
    (hi : P.A ≤ a → RegL P items.toList) : HeapB P h0 (h.setArr a items) :=
  ⟨ok.toHeapOK.setArr a hi, fun i hi' => by rw [Heap.get_setArr]; exact ok.keep i hi', ok.low⟩

theorem allocArr {h : Heap} (ok : HeapB P h0 h) {items : Array CellId} (hi : RegL P items.toList) :
    HeapB P h0 (h.allocArr items).2 ∧ P.A ≤ (h.allocArr items).1 :=
  ⟨⟨(ok.toHeapOK.allocArr hi).1, fun i hi' => ok.keep i hi', ok.low⟩, (ok.toHeapOK.allocArr hi).2⟩

theorem setObj {h : Heap} (ok : HeapB P h0 h) (o : ObjId) {m : List (Bytes × CellId)}
    (hm : P.O ≤ o → RegM P m) : HeapB P h0 (h.setObj o m) :=
  ⟨ok.toHeapOK.setObj o hm, fun i hi' => ok.keep i hi', ok.low⟩

theorem allocObj {h : Heap} (ok : HeapB P h0 h) {m : List (Bytes × CellId)} (hm : RegM P m) :
    HeapB P h0 (h.allocObj m).2 ∧ P.O ≤ (h.allocObj m).1 :=
  ⟨⟨(ok.toHeapOK.allocObj hm).1, fun i hi' => ok.keep i hi', ok.low⟩, (ok.toHeapOK.allocObj hm).2⟩

end HeapB

theorem fillNulls_keep : ∀ (n : Nat) (h : Heap) (items : Array CellId), HeapB P h0 h →
    ∀ i, i < P.N → (fillNulls n h items).1.get i = h0.get i
  | 0, h, items, ok, i, hi => ok.keep i hi
  | n + 1, h, items, ok, i, hi => by
    unfold fillNulls
    exact fillNulls_keep n _ _ (ok.alloc (v := .nil none) trivial).1 i hi

theorem setMember_okB {h : Heap} (ok : HeapB P h0 h) {v m : Val} (hv : GoodV P v) {cell : CellId}
    (hcell : P.N ≤ cell) {c : CellId} {h' : Heap} (hs : setMember h v m cell = .ok (c, h')) :
    HeapB P h0 h' ∧ P.N ≤ c := by
  have h1 := setMember_ok ok.toHeapOK hv hcell hs
  refine ⟨⟨h1.1, ?_, ok.low⟩, h1.2⟩
  intro j hj
  unfold setMember at hs
  cases v with
  | arr a =>
    dsimp only at hs
    cases m with
    | num x =>
      dsimp only at hs
      split at hs
      · cases hs
      · rename_i i _
        split at hs
        · rename_i hlt
          cases hs
          exact (ok.set ((ok.arrs a hv).getInternal hlt) (ok.cells cell hcell)).keep j hj
        · split at hs
          · cases hs
          · rename_i hnlt _
            simp only [Except.ok.injEq, Prod.mk.injEq] at hs
            obtain ⟨rfl, rfl⟩ := hs
            have hf := fillNulls_ok (i + 1 - (h.arr a).size) h (h.arr a) ok.toHeapOK (ok.arrs a hv)
            have hsz : i < (fillNulls (i + 1 - (h.arr a).size) h (h.arr a)).2.size := by
              rw [hf.2.2]; omega
            have hreg : P.N ≤ (fillNulls (i + 1 - (h.arr a).size) h (h.arr a)).2.getD i 0 := hf.2.1.getD hsz
            rw [get_set_of_ne _ _ _ _ (fun e => by subst e; exact absurd hj (Nat.not_lt.mpr hreg))]
            rw [Heap.get_setArr]
            exact fillNulls_keep _ _ _ ok j hj
    | _ => cases hs
  | obj o =>
    simp only [Except.ok.injEq, Prod.mk.injEq] at hs
    obtain ⟨rfl, rfl⟩ := hs
    exact ok.keep j hj
  | _ => cases hs

/-! ### frames -/

theorem objLookup_mem {m : List (Bytes × CellId)} {k : Bytes} {c : CellId} (h : objLookup m k = some c) :
    ∃ k', (k', c) ∈ m ∧ isB k' = isB k := by
  induction m with
  | nil => cases h
  | cons x rest ih =>
    obtain ⟨k0, c0⟩ := x
    unfold objLookup at h
    split at h
    · rename_i hk
      cases h
      have : k0 = k := by simpa using hk
      exact ⟨k0, List.mem_cons_self .., by rw [this]⟩
    · obtain ⟨k', h1, h2⟩ := ih h
      exact ⟨k', List.mem_cons_of_mem _ h1, h2⟩

theorem FrM.lookup {m : List (Bytes × CellId)} (hm : FrM P m) {k : Bytes} (hk : isB k = false) {c : CellId}
    (h : objLookup m k = some c) : P.N ≤ c := by
  obtain ⟨k', h1, h2⟩ := objLookup_mem h
  rcases hm _ h1 with h3 | h3
  · exact h3
  · rw [h2, hk] at h3; cases h3

theorem lookupFrames_regB {fr : List Frame} (h : ∀ f ∈ fr, FrM P f.locals) {k : Bytes} (hk : isB k = false)
    {c : CellId} (hl : lookupFrames fr k = some c) : P.N ≤ c := by
  induction fr with
  | nil => cases hl
  | cons f fs ih =>
    unfold lookupFrames at hl
    split at hl
    · rename_i c' hc'
      cases hl
      exact (h f (List.mem_cons_self ..)).lookup hk hc'
    · exact ih (fun g hg => h g (List.mem_cons_of_mem _ hg)) hl

theorem FrM.nil : FrM P [] := by intro kc h; cases h

theorem FrM.objInsert {m : List (Bytes × CellId)} (hm : FrM P m) (k : Bytes) {c : CellId}
    (hc : P.N ≤ c) : FrM P (objInsert m k c) := by
  induction m with
  | nil => intro kc h; simp [Jqawk.objInsert] at h; subst h; exact .inl hc
  | cons x rest ih =>
    obtain ⟨k0, c0⟩ := x
    unfold Jqawk.objInsert
    split
    · intro kc h
      rcases List.mem_cons.mp h with h | h
      · subst h; exact .inl hc
      · exact hm kc (List.mem_cons_of_mem _ h)
    · intro kc h
      rcases List.mem_cons.mp h with h | h
      · subst h; exact hm _ (List.mem_cons_self ..)
      · exact ih (fun x hx => hm x (List.mem_cons_of_mem _ hx)) kc h

/-- a builtin name is always found -/
theorem lookupFrames_bot {fr : List Frame} {k : Bytes} {c : CellId} (h : botLookup fr k = some c) :
    (lookupFrames fr k).isSome = true := by
  induction fr with
  | nil => simp [botLookup] at h
  | cons f fs ih =>
    unfold lookupFrames
    split
    · rfl
    · rename_i hnone
      cases fs with
      | nil =>
        simp only [botLookup, List.getLast?_singleton] at h
        rw [h] at hnone; cases hnone
      | cons g gs =>
        apply ih
        simpa [botLookup, List.getLast?_cons_cons] using h

theorem botLookup_cons (f g : Frame) (fs : List Frame) (k : Bytes) :
    botLookup (f :: g :: fs) k = botLookup (g :: fs) k := by
  simp [botLookup, List.getLast?_cons_cons]

theorem botLookup_push (f : Frame) {fs : List Frame} (hne : fs ≠ []) (k : Bytes) :
    botLookup (f :: fs) k = botLookup fs k := by
  cases fs with
  | nil => exact absurd rfl hne
  | cons g gs => exact botLookup_cons f g gs k

/-- binding a name that is not a builtin name in the innermost frame -/
theorem FramesB.setLocal {f : Frame} {fs : List Frame} (h : FramesB P b0 (f :: fs)) {name : Bytes}
    (hn : isB name = false) {c : CellId} (hc : P.N ≤ c) :
    FramesB P b0 ({ f with locals := objInsert f.locals name c } :: fs) := by
  refine ⟨by simp, ?_, ?_, h.some⟩
  · intro g hg
    rcases List.mem_cons.mp hg with hg | hg
    · subst hg
      exact (h.loc f (List.mem_cons_self ..)).objInsert _ hc
    · exact h.loc g (List.mem_cons_of_mem _ hg)
  · intro k hk
    rw [← h.bot k hk]
    cases fs with
    | nil =>
      simp only [botLookup, List.getLast?_singleton]
      rw [objLookup_objInsert]
      have : ¬ name = k := fun e => by rw [e, hk] at hn; cases hn
      simp only [this, ↓reduceIte]
    | cons g gs => rw [botLookup_cons, botLookup_cons]

theorem FramesB.push (h : FramesB P b0 fr) (name : Bytes) : FramesB P b0 (⟨name, []⟩ :: fr) := by
  refine ⟨by simp, ?_, ?_, h.some⟩
  · intro g hg
    rcases List.mem_cons.mp hg with hg | hg
    · subst hg; exact FrM.nil
    · exact h.loc g hg
  · intro k hk
    rw [botLookup_push _ h.ne]; exact h.bot k hk

/-! ### the program logic -/

def BPres (P : Region) (h0 : Heap) (b0 : Bytes → Option CellId) (K : Option CellId → Prop) {α : Type}
    (R : α → Prop) : Res α → Prop
  | .ok a s' => InvB P h0 b0 K s' ∧ R a
  | .err (.runtime _ _) s' => InvB P h0 b0 K s'
  | .err (.sig _) s' => InvB P h0 b0 K s'
  | .err (.panic _) s' => InvB P h0 b0 K s'
  | .err (.unmodelled _) s' => InvB P h0 b0 K s'
  | .oof => True

def BPat (P : Region) (h0 : Heap) (b0 : Bytes → Option CellId) (K : Option CellId → Prop) {α : Type}
    (m : EM α) (R : α → Prop) (s : St) : Prop :=
  BPres P h0 b0 K R (m s)

def BP (P : Region) (h0 : Heap) (b0 : Bytes → Option CellId) (K : Option CellId → Prop) {α : Type}
    (m : EM α) (R : α → Prop) : Prop :=
  ∀ s, InvB P h0 b0 K s → BPat P h0 b0 K m R s

theorem BPres.conseq {α : Type} {R R' : α → Prop} {r : Res α} (h : BPres P h0 b0 K R r)
    (hr : ∀ a, R a → R' a) : BPres P h0 b0 K R' r := by
  cases r with
  | ok a s' => exact ⟨h.1, hr a h.2⟩
  | err e s' => cases e <;> exact h
  | oof => trivial

theorem BPres.err_cast {α β : Type} {R : α → Prop} {R' : β → Prop} {e : Err} {s' : St}
    (h : BPres P h0 b0 K R (.err e s' : Res α)) : BPres P h0 b0 K R' (.err e s' : Res β) := by
  cases e <;> exact h

theorem BPres.err_inv {α : Type} {R : α → Prop} {e : Err} {s' : St}
    (h : BPres P h0 b0 K R (.err e s' : Res α)) : InvB P h0 b0 K s' := by
  cases e <;> exact h

theorem BPres.of_err {α : Type} {R : α → Prop} {e : Err} {s' : St}
    (h : InvB P h0 b0 K s') : BPres P h0 b0 K R (.err e s' : Res α) := by
  cases e <;> exact h

namespace BP

theorem conseq {α : Type} {m : EM α} {R R' : α → Prop} (hm : BP P h0 b0 K m R) (hr : ∀ a, R a → R' a) :
    BP P h0 b0 K m R' := fun s hs => (hm s hs).conseq hr

theorem pure {α : Type} {R : α → Prop} {a : α} (h : R a) : BP P h0 b0 K (Pure.pure a : EM α) R :=
  fun s hs => ⟨hs, h⟩

theorem bindAt {α β : Type} {m : EM α} {f : α → EM β} {R1 : α → Prop} {R : β → Prop} {s : St}
    (hm : BPat P h0 b0 K m R1 s) (hf : ∀ a, R1 a → BP P h0 b0 K (f a) R) : BPat P h0 b0 K (m >>= f) R s := by
  show BPres P h0 b0 K R (EM.bind m f s)
  unfold EM.bind
  unfold BPat at hm
  cases hr : m s with
  | ok a s1 => rw [hr] at hm; exact hf a hm.2 s1 hm.1
  | err e s1 => rw [hr] at hm; exact hm.err_cast
  | oof => trivial

theorem bind {α β : Type} {m : EM α} {f : α → EM β} {R1 : α → Prop} {R : β → Prop}
    (hm : BP P h0 b0 K m R1) (hf : ∀ a, R1 a → BP P h0 b0 K (f a) R) : BP P h0 b0 K (m >>= f) R :=
  fun s hs => bindAt (hm s hs) hf

theorem oof {α : Type} {R : α → Prop} : BP P h0 b0 K (Jqawk.oof : EM α) R := fun _ _ => trivial

theorem getSt : BP P h0 b0 K Jqawk.getSt (InvB P h0 b0 K) := fun s hs => ⟨hs, hs⟩
theorem getHeap : BP P h0 b0 K Jqawk.getHeap (HeapB P h0) := fun s hs => ⟨hs, hs.heap⟩
theorem readCell {c : CellId} (hc : P.N ≤ c) : BP P h0 b0 K (Jqawk.readCell c) (GoodV P) :=
  fun s hs => ⟨hs, hs.heap.cells c hc⟩
/-- every cell holds a good value: those outside the region hold what they held at the start -/
theorem readCellG (c : CellId) : BP P h0 b0 K (Jqawk.readCell c) (GoodV P) :=
  fun s hs => ⟨hs, hs.heap.cellsAll c⟩
theorem readCellAny (c : CellId) : BP P h0 b0 K (Jqawk.readCell c) Tr := fun s hs => ⟨hs, trivial⟩
theorem throwSig {α : Type} {R : α → Prop} (g : Sig) : BP P h0 b0 K (Jqawk.throwSig g : EM α) R :=
  fun s hs => hs
theorem throwUnmodelled {α : Type} {R : α → Prop} (w : String) :
    BP P h0 b0 K (Jqawk.throwUnmodelled w : EM α) R := fun s hs => hs
theorem throwPanic {α : Type} {R : α → Prop} (w : String) :
    BP P h0 b0 K (Jqawk.throwPanic w : EM α) R := fun s hs => hs
theorem throwRt {α : Type} {R : α → Prop} (p : Nat) (m : String) :
    BP P h0 b0 K (Jqawk.throwRt p m : EM α) R :=
  fun s hs => ⟨hs.heap, hs.frames, hs.ret, hs.root, hs.rr⟩

theorem newCell {v : Val} (hv : GoodV P v) : BP P h0 b0 K (Jqawk.newCell v) (InR P) := by
  intro s hs
  have h := hs.heap.alloc hv
  exact ⟨⟨h.1, hs.frames, hs.ret, hs.root, hs.rr⟩, h.2⟩

/-- a write goes to a cell of the region -/
theorem writeCell {c : CellId} (hc : P.N ≤ c) {v : Val} (hv : GoodV P v) :
    BP P h0 b0 K (Jqawk.writeCell c v) Tr :=
  fun s hs => ⟨⟨hs.heap.set hc hv, hs.frames, hs.ret, hs.root, hs.rr⟩, trivial⟩

theorem setHeap {h : Heap} (ok : HeapB P h0 h) : BP P h0 b0 K (Jqawk.setHeap h) Tr :=
  fun s hs => ⟨⟨ok, hs.frames, hs.ret, hs.root, hs.rr⟩, trivial⟩

theorem allocArrM {items : Array CellId} (hi : RegL P items.toList) :
    BP P h0 b0 K (Jqawk.allocArrM items) (InA P) := by
  intro s hs
  have h := hs.heap.allocArr hi
  exact ⟨⟨h.1, hs.frames, hs.ret, hs.root, hs.rr⟩, h.2⟩

theorem allocObjM {m : List (Bytes × CellId)} (hm : RegM P m) :
    BP P h0 b0 K (Jqawk.allocObjM m) (InO P) := by
  intro s hs
  have h := hs.heap.allocObj hm
  exact ⟨⟨h.1, hs.frames, hs.ret, hs.root, hs.rr⟩, h.2⟩

theorem emit (b : Bytes) : BP P h0 b0 K (Jqawk.emit b) Tr :=
  fun s hs => ⟨⟨hs.heap, hs.frames, hs.ret, hs.root, hs.rr⟩, trivial⟩

theorem setReturnVal {c : Option CellId} (hc : OptReg P c) :
    BP P h0 b0 K (Jqawk.modifySt fun s => { s with returnVal := c }) Tr :=
  fun s hs => ⟨⟨hs.heap, hs.frames, hc, hs.root, hs.rr⟩, trivial⟩

theorem setLocal {name : Bytes} (hn : isB name = false) {c : CellId} (hc : P.N ≤ c) :
    BP P h0 b0 K (Jqawk.setLocal name c) Tr := by
  intro s hs
  unfold BPat Jqawk.setLocal
  have hf := hs.frames
  cases hfr : s.frames with
  | nil => exact absurd hfr hf.ne
  | cons f fs =>
    rw [hfr] at hf
    exact ⟨⟨hs.heap, hf.setLocal hn hc, hs.ret, hs.root, hs.rr⟩, trivial⟩

theorem getVariable {name : Bytes} (hn : isB name = false) :
    BP P h0 b0 K (Jqawk.getVariable name) (ExReg P) := by
  unfold Jqawk.getVariable
  refine bind getSt (fun s hs => ?_)
  split
  · rename_i c hc
    exact pure (lookupFrames_regB hs.frames.loc hn hc)
  · split
    · exact pure trivial
    · exact bind (newCell trivial) (fun c hc => bind (setLocal hn hc) (fun _ _ => pure hc))

/-- looking up a builtin name: it is always found (the cell may lie outside the region) -/
theorem getVariableB {name : Bytes} (hn : isB name = true) :
    BP P h0 b0 K (Jqawk.getVariable name) Tr := by
  unfold Jqawk.getVariable
  refine bind getSt (fun s hs => ?_)
  split
  · exact pure trivial
  · rename_i hnone
    have hsome := hs.frames.some name hn
    rw [← hs.frames.bot name hn] at hsome
    obtain ⟨c, hc⟩ := Option.isSome_iff_exists.mp hsome
    have := lookupFrames_bot hc
    rw [hnone] at this; cases this

theorem copyValue {a : CellId} (ha : P.N ≤ a) {b : CellId} (hb : P.N ≤ b) :
    BP P h0 b0 K (Jqawk.copyValue a b) (ExReg P) := by
  unfold Jqawk.copyValue
  refine bind (readCell ha) (fun v hv => ?_)
  split
  · rename_i w hw
    exact bind (writeCell hb (copyVal_good hw hv)) (fun _ _ => pure hb)
  · exact pure trivial

theorem bindAll {l : List (Bytes × CellId)} (hl : RegMB P l) : BP P h0 b0 K (Jqawk.bindAll l) Tr := by
  induction l with
  | nil => exact pure trivial
  | cons kv rest ih =>
    obtain ⟨k, c⟩ := kv
    have h1 := hl (k, c) (List.mem_cons_self ..)
    exact bind (setLocal h1.2 h1.1)
      (fun _ _ => ih (fun x hx => hl x (List.mem_cons_of_mem _ hx)))

theorem bindParams {ps : List Bytes} (hps : ∀ p ∈ ps, isB p = false) {as : List Val} (has : GoodVs P as) :
    BP P h0 b0 K (Jqawk.bindParams ps as) Tr := by
  induction ps generalizing as with
  | nil => exact pure trivial
  | cons p ps ih =>
    have hp := hps p (List.mem_cons_self ..)
    have hps' : ∀ q ∈ ps, isB q = false := fun q hq => hps q (List.mem_cons_of_mem _ hq)
    cases as with
    | nil =>
      exact bind (newCell trivial) (fun c hc => bind (setLocal hp hc) (fun _ _ => ih hps' has))
    | cons a as =>
      exact bind (newCell (has a (List.mem_cons_self ..))) (fun c hc => bind (setLocal hp hc)
        (fun _ _ => ih hps' (fun x hx => has x (List.mem_cons_of_mem _ hx))))

theorem allocCells {vs : List Val} (hvs : GoodVs P vs) : BP P h0 b0 K (Jqawk.allocCells vs) (RegL P) := by
  induction vs with
  | nil => exact pure (by intro c hc; cases hc)
  | cons v vs ih =>
    refine bind (newCell (hvs v (List.mem_cons_self ..))) (fun c hc =>
      bind (ih (fun x hx => hvs x (List.mem_cons_of_mem _ hx))) (fun cs hcs => pure ?_))
    intro d hd
    rcases List.mem_cons.mp hd with hd | hd
    · subst hd; exact hc
    · exact hcs d hd

theorem newArrayOf {vs : List Val} (hvs : GoodVs P vs) : BP P h0 b0 K (Jqawk.newArrayOf vs) (GoodV P) := by
  unfold Jqawk.newArrayOf
  refine bind (allocCells hvs) (fun cells hcells => bind getHeap (fun h hh => ?_))
  have ha := hh.allocArr (items := cells.toArray) (by simpa using hcells)
  exact bind (setHeap ha.1) (fun _ _ => pure ha.2)

/-! ### control combinators (any `K`) -/

theorem loopIter {body k : EM Unit} {R : Unit → Prop} (hb : BP P h0 b0 K body Tr) (hk : BP P h0 b0 K k R)
    (hR : R ()) : BP P h0 b0 K (Jqawk.loopIter body k) R := by
  intro s hs
  unfold BPat Jqawk.loopIter
  have h := hb s hs
  unfold BPat at h
  cases hr : body s with
  | ok a s1 => rw [hr] at h; exact hk s1 h.1
  | err e s1 =>
    rw [hr] at h
    cases e with
    | sig g =>
      cases g with
      | brk => exact ⟨h, hR⟩
      | cont => exact hk s1 h
      | ret => exact h
      | next => exact h
      | exit => exact h
    | runtime p m => exact h
    | panic m => exact h
    | unmodelled m => exact h
  | oof => trivial

theorem catchReturn {body : EM Unit} (hb : BP P h0 b0 K body Tr) :
    BP P h0 b0 K (Jqawk.catchReturn body) (GoodV P) := by
  intro s hs
  unfold BPat Jqawk.catchReturn
  have h := hb s hs
  unfold BPat at h
  cases hr : body s with
  | ok a s1 => rw [hr] at h; exact ⟨h.1, trivial⟩
  | err e s1 =>
    rw [hr] at h
    cases e with
    | sig g =>
      cases g with
      | ret =>
        refine ⟨h, ?_⟩
        have hret := h.ret
        cases hrv : s1.returnVal with
        | none => trivial
        | some c => rw [hrv] at hret; exact h.heap.cells c hret
      | brk => exact h
      | cont => exact h
      | next => exact h
      | exit => exact h
    | runtime p m => exact h
    | panic m => exact h
    | unmodelled m => exact h
  | oof => trivial

theorem catchSig {α : Type} {m : EM α} {R : α → Prop} (g : Sig) {d : α} (hd : R d)
    (hm : BP P h0 b0 K m R) : BP P h0 b0 K (Jqawk.catchSig g d m) R := by
  intro s hs
  unfold BPat Jqawk.catchSig
  have h := hm s hs
  unfold BPat at h
  cases hr : m s with
  | ok a s1 => rw [hr] at h; exact h
  | err e s1 =>
    rw [hr] at h
    cases e with
    | sig g' =>
      dsimp only
      split
      · exact ⟨h, hd⟩
      · exact h
    | runtime p m => exact h
    | panic m => exact h
    | unmodelled m => exact h
  | oof => trivial

/-- a frame pushed for a call or a match body, the body run in it, the saved stack restored -/
theorem framed {α : Type} {R : α → Prop} (name : Bytes) (pos : Nat) (body : EM α)
    (hb : BP P h0 b0 K body R) :
    BP P h0 b0 K (do
      let saved := (← Jqawk.getSt).frames
      match (← Jqawk.pushFrame name) with
      | .error m => Jqawk.throwRt pos m
      | .ok () => Jqawk.withFrames saved body) R := by
  intro s hs
  unfold BPat
  by_cases hd : s.frames.length > callDepthLimit
  · simp only [Bind.bind, EM.bind, Jqawk.getSt, Jqawk.pushFrame, hd, ↓reduceIte]
    exact throwRt pos _ s hs
  · simp only [Bind.bind, EM.bind, Jqawk.getSt, Jqawk.pushFrame, hd, ↓reduceIte, Jqawk.withFrames]
    have hs1 : InvB P h0 b0 K ({ s with frames := ⟨name, []⟩ :: s.frames,
                                        maxDepth := max s.maxDepth (s.frames.length + 1) } : St) :=
      ⟨hs.heap, hs.frames.push name, hs.ret, hs.root, hs.rr⟩
    have h := hb _ hs1
    unfold BPat at h
    have fix : ∀ s1 : St, InvB P h0 b0 K s1 → InvB P h0 b0 K { s1 with frames := s.frames } :=
      fun s1 h1 => ⟨h1.heap, hs.frames, h1.ret, h1.root, h1.rr⟩
    cases hr : body { s with frames := ⟨name, []⟩ :: s.frames,
                             maxDepth := max s.maxDepth (s.frames.length + 1) } with
    | ok a s1 => rw [hr] at h; exact ⟨fix s1 h.1, h.2⟩
    | err e s1 =>
      rw [hr] at h
      cases e with
      | runtime p m => exact fix s1 h
      | sig g => exact fix s1 h
      | panic m => exact fix s1 h
      | unmodelled m => exact fix s1 h
    | oof => trivial

end BP

end Sel
end Jqawk
