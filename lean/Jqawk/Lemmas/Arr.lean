/-
  Lemmas for C15: `contains` as a scan with `==`, `sort` as a stable merge sort into a fresh array,
  index resolution.
-/
import Jqawk.Lemmas.Heap
import Jqawk.Lemmas.SortOrder
set_option linter.unusedSimpArgs false

namespace Jqawk
open Jqawk Spec

theorem containsLoop_eq (h : Heap) (v : Val) (cells : List CellId) :
    containsLoop h v cells =
      match ListArr.contains v (cells.map h.get) with
      | .ok b => .ok (some (.bool b))
      | .error m => .error m := by
  induction cells with
  | nil => rfl
  | cons c cs ih =>
    simp only [containsLoop, List.map_cons, ListArr.contains, binaryOp, isCompareOp, beq_self_eq_true,
      Bool.or_true, Bool.true_or, ↓reduceIte]
    by_cases hu : (v.kind == Kind.unknown || (h.get c).kind == Kind.unknown) = true
    · simp only [hu, ↓reduceIte]
      exact ih
    · simp only [hu, Bool.false_eq_true, ↓reduceIte]
      cases hc : v.compare (h.get c) with
      | error m => rfl
      | ok r =>
        by_cases hr : r = 0
        · simp [hr, cmpResult]
        · have hr' : (r == 0) = false := by simpa using hr
          simp only [cmpResult, hr', beq_iff_eq, hr, ↓reduceIte]
          exact ih

theorem sortLe_total (l : List Val) (x y : Val) : (ListArr.sortLe l x y || ListArr.sortLe l y x) = true := by
  unfold ListArr.sortLe
  split
  · exact f64Le_total _ _
  · exact Bytes.le_total_sortOrder _ _

theorem sortLe_trans (l : List Val) (x y z : Val) (h1 : ListArr.sortLe l x y = true)
    (h2 : ListArr.sortLe l y z = true) : ListArr.sortLe l x z = true := by
  unfold ListArr.sortLe at *
  split at h1
  · rename_i h; simp only [h, ↓reduceIte] at h2 ⊢; exact f64Le_trans _ _ _ h1 h2
  · rename_i h; simp only [h] at h2 ⊢; exact Bytes.le_trans _ _ _ h1 h2

theorem mergeSort_isStableSort (l0 l : List Val) :
    ListArr.IsStableSort (ListArr.sortLe l0) l (l.mergeSort (ListArr.sortLe l0)) where
  perm := List.mergeSort_perm _ _
  sorted := List.pairwise_mergeSort (sortLe_trans l0) (sortLe_total l0) l
  stable := fun _ hs hp => List.sublist_mergeSort (sortLe_trans l0) (sortLe_total l0) hp hs

/-- the heap after `sort`: fresh cells with the sorted values, a fresh array holding them -/
def sortHeap (h : Heap) (sorted : List Val) : Heap :=
  { cells := (h.allocMany sorted).cells,
    arrs := h.arrs.push (List.range' h.cells.size sorted.length).toArray,
    objs := h.objs }

theorem callNative_arrSort (a : ArrId) (args : List Val) (s : St) :
    callNative .arrSort args (some (.arr a)) s =
      .ok (.ok (some (.arr s.heap.arrs.size)))
        { s with heap := (sortHeap s.heap
            (((absArr s.heap a).map ListArr.sortCopy).mergeSort (ListArr.sortLe (absArr s.heap a)))) } := by
  by_cases hc : ((absArr s.heap a).all fun v => v.kind == Kind.num) = true
  · have hc' : ((List.map s.heap.get (s.heap.arr a).toList).all fun v => v.kind == Kind.num) = true := hc
    simp only [callNative, bind, EM.bind, getHeap, newArrayOf_eq, pure, EM.pure, sortHeap, hc',
      ListArr.sortLe, hc, ↓reduceIte]
    rfl
  · have hc' : ¬ ((List.map s.heap.get (s.heap.arr a).toList).all fun v => v.kind == Kind.num) = true := hc
    simp only [callNative, bind, EM.bind, getHeap, newArrayOf_eq, pure, EM.pure, sortHeap, hc',
      ListArr.sortLe, hc, ↓reduceIte]
    rfl

theorem absArr_sortHeap_new (h : Heap) (sorted : List Val) :
    absArr (sortHeap h sorted) h.arrs.size = sorted := by
  have : (sortHeap h sorted).arr h.arrs.size = (List.range' h.cells.size sorted.length).toArray := by
    simp [sortHeap, Heap.arr, Array.getD_eq_getD_getElem?]
  simp only [absArr, this]
  exact Heap.map_get_allocMany h sorted

theorem absArr_sortHeap_old (h : Heap) (wf : h.WF) (sorted : List Val) (b : ArrId) (hb : b < h.arrs.size) :
    absArr (sortHeap h sorted) b = absArr h b := by
  have : (sortHeap h sorted).arr b = h.arr b := by
    simp [sortHeap, Heap.arr, Array.getD_eq_getD_getElem?, Array.getElem?_push, Nat.ne_of_lt hb, Heap.allocMany]
  simp only [absArr, this]
  apply List.map_congr_left
  intro c hc
  exact Heap.get_allocMany_old h sorted c (wf.arrs b c hc)


theorem Heap.WF.sortHeap {h : Heap} (wf : h.WF) (sorted : List Val) : (sortHeap h sorted).WF := by
  have hsize : (Jqawk.sortHeap h sorted).cells.size = h.cells.size + sorted.length := by
    simp [Jqawk.sortHeap, Heap.allocMany]
  constructor
  · intro b c hc
    rw [hsize]
    by_cases hb : b < h.arrs.size
    · have : (Jqawk.sortHeap h sorted).arr b = h.arr b := by
        simp [Jqawk.sortHeap, Heap.arr, Array.getD_eq_getD_getElem?, Array.getElem?_push, Nat.ne_of_lt hb]
      rw [this] at hc
      exact Nat.lt_add_right _ (wf.arrs b c hc)
    · by_cases hb' : b = h.arrs.size
      · have : (Jqawk.sortHeap h sorted).arr b = (List.range' h.cells.size sorted.length).toArray := by
          simp [Jqawk.sortHeap, Heap.arr, Array.getD_eq_getD_getElem?, hb']
        rw [this] at hc
        simp only [List.mem_range'_1] at hc
        exact hc.2
      · have : (Jqawk.sortHeap h sorted).arr b = #[] := by
          simp only [Jqawk.sortHeap, Heap.arr, Array.getD_eq_getD_getElem?]
          rw [Array.getElem?_eq_none (by
            simp only [Array.size_push]
            exact Nat.succ_le_of_lt (Nat.lt_of_le_of_ne (Nat.le_of_not_lt hb) (Ne.symm hb')))]
          rfl
        rw [this] at hc; simp at hc
  · intro o k c hc
    rw [hsize]
    exact Nat.lt_add_right _ (wf.objs o k c hc)

/-! ### index read -/

theorem getMember_arr_num (h : Heap) (a : ArrId) (x : F64) :
    match ListArr.get (absArr h a) x.toGoInt with
    | none => getMember h (.arr a) (.num x) = .error "index out of range"
    | some none => getMember h (.arr a) (.num x) = .ok .missing
    | some (some v) => ∃ c, getMember h (.arr a) (.num x) = .ok (.cell c) ∧ h.get c = v := by
  have hlen : (absArr h a).length = (h.arr a).size := by simp [absArr]
  have hget : ∀ i, i < (h.arr a).size → (absArr h a)[i]? = some (h.get ((h.arr a).getD i 0)) := by
    intro i hi
    simp [absArr, Array.getD_eq_getD_getElem?, hi]
  have hnone : ∀ i, ¬ i < (h.arr a).size → (absArr h a)[i]? = none := by
    intro i hi
    simp only [List.getElem?_eq_none_iff, hlen]; omega
  simp only [getMember, ListArr.get, resolveIndex, hlen]
  generalize x.toGoInt = i
  by_cases h0 : 0 ≤ i
  · have hn : ¬ i < 0 := by omega
    simp only [h0, hn, ↓reduceIte]
    by_cases hi : i.toNat < (h.arr a).size
    · simp only [hget _ hi, hi, ↓reduceIte]; exact ⟨_, rfl, rfl⟩
    · simp only [hnone _ hi, hi, ↓reduceIte]
  · have hn : i < 0 := by omega
    simp only [h0, hn, ↓reduceIte]
    by_cases hr : (-i).toNat ≤ (h.arr a).size
    · have hj : ¬ ((h.arr a).size : Int) + i < 0 := by omega
      have hidx : (((h.arr a).size : Int) + i).toNat = (h.arr a).size - (-i).toNat := by omega
      simp only [hr, hj, ↓reduceIte, hidx]
      by_cases hi : (h.arr a).size - (-i).toNat < (h.arr a).size
      · simp only [hget _ hi, hi, ↓reduceIte]; exact ⟨_, rfl, rfl⟩
      · simp only [hnone _ hi, hi, ↓reduceIte]
    · have hj : ((h.arr a).size : Int) + i < 0 := by omega
      simp only [hr, hj, ↓reduceIte]

end Jqawk
