/-
  C13, `;` for a newline: the parser functions satisfy the specifications of Lemmas/NewlineSemiSim.lean.
  First the erasure facts (`Er`: entered with `t₀` as current token, the function requests a
  token or fails before looking at `prev`/`didEnd`), then `X` for the mutual block by induction
  on the fuel.
-/
import Jqawk.Lemmas.NewlineSemiSim

set_option linter.unusedVariables false

namespace Jqawk
namespace Semi
open Parser

variable {t₀ semi : Token} {tbl : RuleTable}

theorem Hyp.beq_eof (H : Hyp t₀ semi) : (t₀.tag == .eof) = false := beq_false_of_ne H.ne_eof
theorem Hyp.beq_rcurly (H : Hyp t₀ semi) : (t₀.tag == .rcurly) = false := beq_false_of_ne H.ne_rcurly
theorem Hyp.beq_rparen (H : Hyp t₀ semi) : (t₀.tag == .rparen) = false := beq_false_of_ne H.ne_rparen
theorem Hyp.beq_semi (H : Hyp t₀ semi) : (t₀.tag == .semiColon) = false := beq_false_of_ne H.ne_semi

section tactics
set_option hygiene false

/-- prove `Er t₀ m` by walking to the first request -/
macro "er_step" : tactic => `(tactic| first
  | with_reducible exact Er.fail
  | with_reducible exact Er.oof
  | with_reducible exact Er.advance
  | with_reducible exact Er.consume _
  | with_reducible exact Er.consumeOf _
  | with_reducible exact Er.regexPrefix
  | with_reducible exact er1 _
  | with_reducible exact er2 _ _
  | with_reducible exact er3 _ _ _
  | with_reducible exact er1' _
  | with_reducible exact er2' _ _
  | with_reducible exact er1''  _
  | ((with_reducible refine Er.bind_get ?_ (fun x hx => ?_)) <;> first | (intros; rfl) | skip)
  | with_reducible refine Er.bind_curTag ?_
  | with_reducible refine Er.bind_atEnd ?_
  | with_reducible refine Er.bind_setDidEnd _ ?_
  | with_reducible refine Er.bind_pure _ ?_
  | ((with_reducible refine Er.bind_modify ?_ ?_ ?_) <;> first | (intros; rfl) | skip)
  | with_reducible refine Er.bind ?_ _
  | simp only [H.beq_eof, H.beq_rcurly, H.beq_rparen, Bool.or_false, Bool.false_eq_true, ↓reduceIte]
  | contradiction
  | split)

macro "er" : tactic => `(tactic| repeat' er_step)

end tactics

theorem er_prefixFn (n : Nat) (pk : PrefixKind) : Er t₀ (prefixFn tbl n pk) := by
  cases n with
  | zero => unfold prefixFn; exact Er.oof
  | succ n => unfold prefixFn; er

theorem er_infixFn (n : Nat) (ik : InfixKind) (left : Expr) : Er t₀ (infixFn tbl n ik left) := by
  cases n with
  | zero => unfold infixFn; exact Er.oof
  | succ n => unfold infixFn; er

theorem er_expressionWithPrec (n prec : Nat) : Er t₀ (expressionWithPrec tbl n prec) := by
  have er2 := @er_prefixFn t₀ tbl
  cases n with
  | zero => unfold expressionWithPrec; exact Er.oof
  | succ n => unfold expressionWithPrec; er

theorem er_exprList (n : Nat) (endTag : Tag) (acc : List Expr) : Er t₀ (exprList tbl n endTag acc) := by
  have er2 := @er_expressionWithPrec t₀ tbl
  cases n with
  | zero => unfold exprList; exact Er.oof
  | succ n => unfold exprList; er

theorem er_printStatement (n : Nat) : Er t₀ (printStatement tbl n) := by
  cases n with
  | zero => unfold printStatement; exact Er.oof
  | succ n => unfold printStatement; er

theorem er_block (n : Nat) : Er t₀ (block tbl n) := by
  cases n with
  | zero => unfold block; exact Er.oof
  | succ n => unfold block; er

theorem er_statement (n : Nat) : Er t₀ (statement tbl n) := by
  have er1 := @er_printStatement t₀ tbl
  have er1' := @er_block t₀ tbl
  have er2 := @er_expressionWithPrec t₀ tbl
  cases n with
  | zero => unfold statement; exact Er.oof
  | succ n => unfold statement; er

theorem er_loopBody (n : Nat) : Er t₀ (loopBody tbl n) := by
  have er1 := @er_statement t₀ tbl
  cases n with
  | zero => unfold loopBody; exact Er.oof
  | succ n => unfold loopBody; er

theorem er_blockLoop (H : Hyp t₀ semi) (n : Nat) (acc : List Stmt) : Er t₀ (blockLoop tbl n acc) := by
  have er1 := @er_statement t₀ tbl
  cases n with
  | zero => unfold blockLoop; exact Er.oof
  | succ n => unfold blockLoop; er

theorem er_objectLoop (H : Hyp t₀ semi) (n : Nat) (acc : List (Bytes × Expr)) :
    Er t₀ (objectLoop tbl n acc) := by
  cases n with
  | zero => unfold objectLoop; exact Er.oof
  | succ n => unfold objectLoop; er

theorem er_matchPats (H : Hyp t₀ semi) (n : Nat) (acc : List Expr) : Er t₀ (matchPats tbl n acc) := by
  have er2 := @er_expressionWithPrec t₀ tbl
  cases n with
  | zero => unfold matchPats; exact Er.oof
  | succ n => unfold matchPats; er

theorem er_matchCases (H : Hyp t₀ semi) (n : Nat) (acc : List MatchCase) :
    Er t₀ (matchCases tbl n acc) := by
  have er2 := @er_matchPats t₀ semi tbl H
  cases n with
  | zero => unfold matchCases; exact Er.oof
  | succ n => unfold matchCases; er

theorem er_funcArgs (H : Hyp t₀ semi) (n : Nat) (acc : List Bytes) : Er t₀ (funcArgs n acc) := by
  cases n with
  | zero => unfold funcArgs; exact Er.oof
  | succ n => unfold funcArgs; er

theorem er_parseRule (n : Nat) : Er t₀ (parseRule tbl n) := by
  have er2 := @er_expressionWithPrec t₀ tbl
  have er1 := @er_block t₀ tbl
  unfold parseRule
  refine Er.bind_curTag ?_
  refine Er.bind_or ?_
  by_cases hl : t₀.tag = .lcurly
  · refine .inr ⟨(RuleKind.pattern, none), fun s hc => ?_, ?_⟩
    · rw [hl]; rfl
    · er
      rename_i h; exact absurd (by rw [hl]; rfl) h
  · left
    er

theorem er_parseFunction (n : Nat) : Er t₀ (parseFunction tbl n) := by
  unfold parseFunction
  er

theorem er_parseTop (H : Hyp t₀ semi) (n : Nat) (rules : List Rule) (fns : List FuncDef) :
    Er t₀ (parseTop tbl n rules fns) := by
  have er1 := @er_parseFunction t₀ tbl
  have er1' := @er_parseRule t₀ tbl
  cases n with
  | zero => unfold parseTop; exact Er.oof
  | succ n => unfold parseTop; er

section
set_option hygiene false
macro_rules
  | `(tactic| er_step) => `(tactic| first
      | with_reducible exact er_statement _
      | with_reducible exact er_loopBody _
      | with_reducible exact er_block _
      | with_reducible exact er_printStatement _
      | with_reducible exact er_expressionWithPrec _ _
      | with_reducible exact er_prefixFn _ _
      | with_reducible exact er_infixFn _ _ _
      | with_reducible exact er_exprList _ _ _
      | with_reducible exact er_blockLoop H _ _
      | with_reducible exact er_objectLoop H _ _
      | with_reducible exact er_matchCases H _ _
      | with_reducible exact er_matchPats H _ _
      | with_reducible exact er_funcArgs H _ _
      | with_reducible exact er_parseRule _
      | with_reducible exact er_parseFunction _
      | with_reducible exact er_parseTop H _ _ _)
end

/-! ### the specifications `X` for the mutual block -/

/-- postcondition of the `print` argument loop: if it ended because the statement ended, `didEnd`
    may differ between L and R (L used the flag, R consumed the `;`) -/
def QPL (t₀ : Token) (x : List Expr × Bool) (s s' : PS) : Prop :=
  s.cur = t₀ ∧ s' = { s with prev := s'.prev, didEnd := s'.didEnd } ∧
    (s'.didEnd = s.didEnd ∨ (x.2 = true ∧ s.didEnd = true))

structure AllX (t₀ semi : Token) (tbl : RuleTable) (n : Nat) : Prop where
  statement : X t₀ semi (statement tbl n)
  loopBody : X t₀ semi (loopBody tbl n)
  block : X t₀ semi (block tbl n)
  blockLoop : ∀ acc, X t₀ semi (blockLoop tbl n acc)
  printStatement : X t₀ semi (printStatement tbl n)
  printLoop : ∀ acc, X' t₀ semi (Eq0 t₀) (QPL t₀) (printLoop tbl n acc)
  expressionWithPrec : ∀ prec, X t₀ semi (expressionWithPrec tbl n prec)
  infixLoop : ∀ prec lhs, X t₀ semi (infixLoop tbl n prec lhs)
  prefixFn : ∀ pk, X t₀ semi (prefixFn tbl n pk)
  exprList : ∀ endTag acc, X t₀ semi (exprList tbl n endTag acc)
  objectLoop : ∀ acc, X t₀ semi (objectLoop tbl n acc)
  matchCases : ∀ acc, X t₀ semi (matchCases tbl n acc)
  matchPats : ∀ acc, X t₀ semi (matchPats tbl n acc)
  infixFn : ∀ ik left, X t₀ semi (infixFn tbl n ik left)

section tactics
set_option hygiene false

macro "pre_ok" : tactic => `(tactic| first | exact preOK_eq0 | exact preOK_F)

syntax "x_exact " term : tactic
macro_rules
  | `(tactic| x_exact $t) => `(tactic| first
      | with_reducible exact $t
      | with_reducible exact X'.toF $t)

macro "x_leaf" : tactic => `(tactic| first
  | ((with_reducible refine X.pure' _ ?_); pre_ok)
  | with_reducible exact X.fail
  | with_reducible exact X.oof
  | x_exact X.advance
  | x_exact (X.consume _)
  | x_exact (X.consumeOf _)
  | x_exact X.regexPrefix
  | ((with_reducible refine X.setDidEnd _ ?_); pre_ok)
  | ((with_reducible refine X.setInLoop _ ?_); pre_ok)
  | ((with_reducible refine X.setInFn _ ?_); pre_ok)
  | x_exact (X.consumeIgnore H _ (by decide))
  | x_exact ih.statement
  | x_exact ih.loopBody
  | x_exact ih.block
  | x_exact ih.printStatement
  | x_exact (ih.blockLoop _)
  | x_exact (ih.expressionWithPrec _)
  | x_exact (ih.infixLoop _ _)
  | x_exact (ih.prefixFn _)
  | x_exact (ih.exprList _ _)
  | x_exact (ih.objectLoop _)
  | x_exact (ih.matchCases _)
  | x_exact (ih.matchPats _)
  | x_exact (ih.infixFn _ _)
  | x_exact ih0
  | x_exact ih0'
  | x_exact (ih1 _)
  | x_exact (ih2 _ _))

macro "hfd_tac" : tactic => `(tactic| (intro _ _; rfl))
macro "hfc_tac" : tactic => `(tactic| (intro _ _ _; rfl))
macro "hfp_tac" : tactic => `(tactic| first | (intro _ _ h; exact h.elim) | (intro s s' h; rw [h.2]; done))
macro "t_pure_tac" : tactic => `(tactic| (intro s hd hc; exact X.t3_pure _ s hd hc))
macro "t_ite_tac" : tactic => `(tactic| (intro s hd hc; first | (refine X.t3_ite_pure _ ?_ ?_ s hd hc; (focus (er; done)); simp [H.semi]; done) | (refine X.t3_pure_ite _ ?_ ?_ s hd hc; (focus (er; done)); simp [H.semi]; done)))

macro "x_step" : tactic => `(tactic| first
  | x_leaf
  | ((with_reducible refine X.consume_bind ?_ _ ?_); first | pre_ok | skip)
  | ((with_reducible refine X.consumeOf_bind ?_ _ ?_); first | pre_ok | skip)
  | ((with_reducible refine X.advance_bind ?_ ?_); first | pre_ok | skip)
  | ((with_reducible refine X.bind_get_er ?_ ?_ (fun x => ?_) (fun x hx => ?_)); (focus hfd_tac); (focus hfp_tac); rotate_left; (focus (er; done)); try dsimp only)
  | ((with_reducible refine X.bind_get_c ?_ ?_ (fun x => ?_)); (focus hfc_tac); (focus hfp_tac); try dsimp only)
  | ((with_reducible refine X.bind_curTag_er ?_ (fun t => ?_) ?_); (focus pre_ok); rotate_left; (focus (er; done)))
  | ((with_reducible refine X.bind_curTag ?_ (fun t => ?_) ?_); (focus pre_ok); rotate_left; (focus t_ite_tac))
  | ((with_reducible refine X.bind_atEnd_er ?_ (fun t => ?_) ?_); (focus pre_ok); rotate_left; (focus (er; done)))
  | (with_reducible refine X.bind' ?_ (fun x => ?_))
  | split)

end tactics

variable {n : Nat}

theorem loopBody_x (H : Hyp t₀ semi) (ih : AllX t₀ semi tbl n) : X t₀ semi (loopBody tbl (n + 1)) := by
  unfold loopBody
  repeat' x_step

theorem block_x (H : Hyp t₀ semi) (ih : AllX t₀ semi tbl n) : X t₀ semi (block tbl (n + 1)) := by
  unfold block
  repeat' x_step

theorem exprList_x (H : Hyp t₀ semi) (ih : AllX t₀ semi tbl n) (endTag : Tag) (acc : List Expr) :
    X t₀ semi (exprList tbl (n + 1) endTag acc) := by
  unfold exprList
  repeat' x_step

theorem objectLoop_x (H : Hyp t₀ semi) (ih : AllX t₀ semi tbl n) (acc : List (Bytes × Expr)) :
    X t₀ semi (objectLoop tbl (n + 1) acc) := by
  unfold objectLoop
  repeat' x_step

theorem matchPats_x (H : Hyp t₀ semi) (ih : AllX t₀ semi tbl n) (acc : List Expr) :
    X t₀ semi (matchPats tbl (n + 1) acc) := by
  unfold matchPats
  repeat' x_step

theorem matchCases_x (H : Hyp t₀ semi) (ih : AllX t₀ semi tbl n) (acc : List MatchCase) :
    X t₀ semi (matchCases tbl (n + 1) acc) := by
  unfold matchCases
  repeat' x_step

theorem prefixFn_x (H : Hyp t₀ semi) (ih : AllX t₀ semi tbl n) (pk : PrefixKind) :
    X t₀ semi (prefixFn tbl (n + 1) pk) := by
  unfold prefixFn
  repeat' x_step

theorem infixFn_x (H : Hyp t₀ semi) (ih : AllX t₀ semi tbl n) (ik : InfixKind) (left : Expr) :
    X t₀ semi (infixFn tbl (n + 1) ik left) := by
  unfold infixFn
  repeat' x_step

theorem expressionWithPrec_x (H : Hyp t₀ semi) (ih : AllX t₀ semi tbl n) (prec : Nat) :
    X t₀ semi (expressionWithPrec tbl (n + 1) prec) := by
  unfold expressionWithPrec
  repeat' x_step

theorem infixLoop_x (H : Hyp t₀ semi) (hprec : (lookupRule tbl .semiColon).prec = 0)
    (ih : AllX t₀ semi tbl n) (prec : Nat) (lhs : Expr) :
    X t₀ semi (infixLoop tbl (n + 1) prec lhs) := by
  unfold infixLoop
  refine X.bind_get (fun _ _ => rfl) (fun s s' h => by rw [h.2]) (fun x => ?_) ?_
  · dsimp only
    repeat' x_step
  · intro s hd hc
    dsimp only
    have hs : ({ s with cur := semi, didEnd := false } : PS).cur.tag = .semiColon := H.semi
    rw [hs, hprec]
    subst hc
    by_cases h : prec ≤ (lookupRule tbl s.cur.tag).prec
    · rw [if_pos h]
      refine .inl ?_
      have hE : Er s.cur (match (lookupRule tbl s.cur.tag).inf with
          | none => fail s.cur.pos "unknown operator"
          | some ik => do
            let lhs' ← infixFn tbl n ik lhs
            infixLoop tbl n prec lhs' : P Expr) := by
        er
      exact (hE s rfl s.prev false).symm
    · rw [if_neg h, if_neg (by omega)]
      exact X.t3_pure lhs s hd rfl

theorem blockLoop_x (H : Hyp t₀ semi) (ih : AllX t₀ semi tbl n) (acc : List Stmt) :
    X t₀ semi (blockLoop tbl (n + 1) acc) := by
  unfold blockLoop
  x_step
  split
  · x_step
  · refine X.bind' ih.statement fun st => ?_
    refine X'.bind (ase_x H) fun b => ?_
    have hb : X' t₀ semi F (QE t₀) (if (!b) = true then (do fail (← get).cur.pos "unexpected end of input")
        else blockLoop tbl n (st :: acc) : P (List Stmt)) := by
      repeat' x_step
    refine X'.of_er hb.b ?_ (qase_shape b)
    er

theorem printLoop_x (H : Hyp t₀ semi) (ih : AllX t₀ semi tbl n) (acc : List Expr) :
    X' t₀ semi (Eq0 t₀) (QPL t₀) (printLoop tbl (n + 1) acc) := by
  unfold printLoop
  refine X'.bind (ase_x H) fun b => ?_
  cases b with
  | true =>
    exact X.pureQ _ fun s s' h => h
  | false =>
    have hb : X' t₀ semi F (QPL t₀) (do
        let e ← expressionWithPrec tbl n Prec.assign
        if (← curTag) == .comma then
          consume .comma
          printLoop tbl n (e :: acc)
        else return ((e :: acc).reverse, false) : P (List Expr × Bool)) := by
      refine X.bind' ((ih.expressionWithPrec _).toF) fun e => ?_
      refine X.bind_curTag preOK_eq0 (fun t => ?_) ?_
      · split
        · refine X.consume_bind preOK_eq0 _ ?_
          exact (ih.printLoop _).toF
        · exact X.pureQ _ fun s s' h => ⟨h.1, by rw [h.2], .inl (by rw [h.2])⟩
      · intro s hd hc
        refine X.t3_ite_pure _ ?_ ?_ s hd hc
        · er
        · simp [H.semi]
    refine X'.of_er hb.b ?_ (qase_shape false)
    show Er t₀ (if false = true then _ else _)
    er

/-- the end of `printStatement`, entered after the argument loop: `atStatementEnd` once more,
    then `didEnd` is set if it or the loop said that the statement ended -/
theorem printTail_x (H : Hyp t₀ semi) (start : Token) (args : List Expr) (ended : Bool) :
    X' t₀ semi (QPL t₀ (args, ended)) (QE t₀) (do
      let atEnd ← atStatementEnd
      if atEnd || ended then setDidEnd true
      return Stmt.print start args : P Stmt) := by
  have hG : ∀ atEnd : Bool, X' t₀ semi (Qase t₀ atEnd) (QE t₀) (do
      if atEnd || ended then setDidEnd true
      return Stmt.print start args : P Stmt) := by
    intro atEnd
    have h0 : X t₀ semi (do
        if atEnd || ended then setDidEnd true
        return Stmt.print start args : P Stmt) := by
      repeat' x_step
    refine ⟨h0.b, h0.t, ?_⟩
    intro s s' hq
    obtain ⟨hc, he, hd⟩ := hq
    rcases hd with hd | ⟨rfl, hd⟩
    · exact h0.a s s' ⟨hc, by rw [he, hd]⟩
    · refine .inr (.inr ⟨Stmt.print start args, { s with didEnd := true }, { s' with didEnd := true }, rfl, rfl, hc, ?_⟩)
      show ({ s' with didEnd := true } : PS) = _
      rw [he]
  have h1 : X t₀ semi (do
      let atEnd ← atStatementEnd
      if atEnd || ended then setDidEnd true
      return Stmt.print start args : P Stmt) := X'.bind (ase_x H) hG
  refine ⟨h1.b, h1.t, ?_⟩
  intro s s' hq
  obtain ⟨hc, he, hd⟩ := hq
  rcases hd with hd | ⟨hen, hd⟩
  · exact h1.a s s' ⟨hc, by rw [he, hd]⟩
  · dsimp only at hen
    subst hen
    -- L: `didEnd` is set: the answer is `true`
    show A2 _ (((atStatementEnd s).bind _)) (((atStatementEnd s').bind _))
    rw [Nl.ase_eval s, Nl.ase_eval s', if_pos hd]
    have hc' : s'.cur = t₀ := by rw [he]; exact hc
    have hfin : ∀ x x' : PS, x.cur = t₀ → x' = { x with prev := x'.prev, didEnd := x'.didEnd } →
        A2 (QE t₀) (PM.pure (Stmt.print start args, { x with didEnd := true }))
          (PM.pure (Stmt.print start args, { x' with didEnd := true })) := by
      intro x x' hx hx'
      refine .inr (.inr ⟨_, _, _, rfl, rfl, hx, ?_⟩)
      show ({ x' with didEnd := true } : PS) = _
      rw [hx']
    split
    · exact hfin s s' hc he
    · rw [if_neg (by rw [hc']; exact H.ne_rcurly), if_neg (by rw [hc']; exact H.ne_semi)]
      exact hfin s s' hc he

theorem printStatement_x (H : Hyp t₀ semi) (ih : AllX t₀ semi tbl n) :
    X t₀ semi (printStatement tbl (n + 1)) := by
  unfold printStatement
  refine X.consume_bind preOK_eq0 _ ?_
  refine X.bind_get_c (fun _ _ _ => rfl) (fun _ _ h => h.elim) fun x => ?_
  dsimp only
  refine X'.bind (ih.printLoop _).toF fun r => ?_
  obtain ⟨args, ended⟩ := r
  exact printTail_x H x.prev args ended

theorem er_consumeIgnore_in (hin : t₀.tag = .in_) {α : Type} (K : Unit → P α) :
    Er t₀ (consumeIgnore .in_ >>= K) := by
  refine Er.bind ?_ K
  unfold consumeIgnore
  refine Er.bind_get (fun _ _ _ => rfl) fun x hx => ?_
  rw [hx, hin]
  exact Er.advance

theorem statement_x (H : Hyp t₀ semi) (ih : AllX t₀ semi tbl n) :
    X t₀ semi (statement tbl (n + 1)) := by
  unfold statement
  refine X.bind' (X.setDidEnd _ preOK_eq0) fun _ => ?_
  refine X.bind_get_er (fun _ _ => rfl) (fun s s' h => by rw [h.2]) (fun x => ?_) (fun x hx => ?_)
  · split
    case h_2 =>
      split
      · x_leaf
      · refine X.consume_bind preOK_eq0 _ ?_
        refine X'.bind (ase_x H).toF fun b => ?_
        cases b with
        | true => exact setDidEnd_pure_qase true _
        | false =>
          have hb : X' t₀ semi F (QE t₀) (do
              let e ← expressionWithPrec tbl n Prec.assign
              return Stmt.ret (some e) : P Stmt) := by
            repeat' x_step
          refine X'.of_er hb.b ?_ (qase_shape false)
          show Er t₀ (if (!false) = true then _ else _)
          er
    case h_5 =>
      refine X.consume_bind preOK_eq0 _ ?_
      refine X.consume_bind preOK_F _ ?_
      refine X.bind' ((ih.expressionWithPrec _).toF) fun pre => ?_
      refine X.bind_curTag preOK_eq0 (fun t => ?_) ?_
      · split
        · repeat' x_step
        · repeat' x_step
      · intro s hd hc
        refine X.t3_of_er ?_ s hc
        split
        · rename_i id hflag
          refine Er.bind_or ?_
          by_cases hcm : (t₀.tag == .comma) = true
          · left
            rw [if_pos hcm]
            er
          · refine .inr ⟨none, fun s _ => ?_, ?_⟩
            · rw [if_neg hcm]; rfl
            · have hin : t₀.tag = .in_ := by
                simp only [Bool.or_eq_true, beq_iff_eq] at hflag hcm
                rcases hflag with h | h
                · exact h
                · exact absurd h hcm
              exact er_consumeIgnore_in hin _
        · er
    all_goals repeat' x_step
  · er

/-- all functions of the mutual block, any fuel -/
theorem allX (H : Hyp t₀ semi) (hprec : (lookupRule tbl .semiColon).prec = 0) :
    ∀ n, AllX t₀ semi tbl n := by
  intro n
  induction n with
  | zero =>
    constructor
    all_goals intros
    · unfold statement; exact X.oof
    · unfold loopBody; exact X.oof
    · unfold block; exact X.oof
    · unfold blockLoop; exact X.oof
    · unfold printStatement; exact X.oof
    · unfold printLoop; exact X.oof
    · unfold expressionWithPrec; exact X.oof
    · unfold infixLoop; exact X.oof
    · unfold prefixFn; exact X.oof
    · unfold exprList; exact X.oof
    · unfold objectLoop; exact X.oof
    · unfold matchCases; exact X.oof
    · unfold matchPats; exact X.oof
    · unfold infixFn; exact X.oof
  | succ n ih =>
    exact {
      statement := statement_x H ih
      loopBody := loopBody_x H ih
      block := block_x H ih
      blockLoop := blockLoop_x H ih
      printStatement := printStatement_x H ih
      printLoop := printLoop_x H ih
      expressionWithPrec := expressionWithPrec_x H ih
      infixLoop := infixLoop_x H hprec ih
      prefixFn := prefixFn_x H ih
      exprList := exprList_x H ih
      objectLoop := objectLoop_x H ih
      matchCases := matchCases_x H ih
      matchPats := matchPats_x H ih
      infixFn := infixFn_x H ih }

/-! ### the top level -/

theorem funcArgs_x (H : Hyp t₀ semi) : ∀ (n : Nat) (acc : List Bytes), X t₀ semi (funcArgs n acc) := by
  intro n
  induction n with
  | zero => intro acc; unfold funcArgs; exact X.oof
  | succ n ihn =>
    intro acc
    have ih1 := ihn
    unfold funcArgs
    repeat' x_step

theorem parseFunction_x (H : Hyp t₀ semi) (ih : AllX t₀ semi tbl n) :
    X t₀ semi (parseFunction tbl n) := by
  have ih2 := funcArgs_x (semi := semi) (t₀ := t₀) H
  unfold parseFunction
  repeat' x_step

theorem parseRule_x (H : Hyp t₀ semi) (ih : AllX t₀ semi tbl n) :
    X t₀ semi (parseRule tbl n) := by
  refine X'.of_er ?_ (er_parseRule n) eq0_shape
  unfold parseRule
  refine BP.bind_curTag fun t => ?_
  refine BP.bind (Q₁ := QE t₀) ?_ fun a => ?_
  · split
    · exact (X.bind' (X.consume _) fun _ => X.pure' _ preOK_eq0 : X t₀ semi _).b
    · exact (X.bind' (X.consume _) fun _ => X.pure' _ preOK_eq0 : X t₀ semi _).b
    · exact (X.bind' (X.consume _) fun _ => X.pure' _ preOK_eq0 : X t₀ semi _).b
    · exact (X.bind' (X.consume _) fun _ => X.pure' _ preOK_eq0 : X t₀ semi _).b
    · exact fun _ => trivial
    · exact (X.bind' (ih.expressionWithPrec _) fun _ => X.pure' _ preOK_eq0 : X t₀ semi _).b
  · obtain ⟨kind, pat⟩ := a
    show X t₀ semi _
    dsimp only
    repeat' x_step

theorem parseTop_x (H : Hyp t₀ semi) (hprec : (lookupRule tbl .semiColon).prec = 0) :
    ∀ (n : Nat) (rules : List Rule) (fns : List FuncDef), X t₀ semi (parseTop tbl n rules fns) := by
  intro n
  induction n with
  | zero => intros; unfold parseTop; exact X.oof
  | succ n ihn =>
    intro rules fns
    have ih := allX (tbl := tbl) H hprec n
    have ih0 := parseFunction_x H ih
    have ih0' := parseRule_x H ih
    have ih2 := ihn
    unfold parseTop
    repeat' x_step

/-- `parseProgram`: the tree from the initial state satisfies `BTree` -/
theorem parseProgram_btree (H : Hyp t₀ semi) (hprec : (lookupRule tbl .semiColon).prec = 0)
    (n : Nat) (s : PS) : BTree t₀ semi (QE t₀) (parseProgram tbl n s) := by
  unfold parseProgram
  exact (X.advance_bind preOK_eq0 (parseTop_x H hprec n [] []).toF : X t₀ semi _).b s

end Semi
end Jqawk
