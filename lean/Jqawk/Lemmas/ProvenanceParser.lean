/-
  Provenance of positions, parser side (C12).

  `PM.Prov G Rq P last m`: in the parser program `m`, started when the lexer's last answer was
  `last`, whatever tokens with offsets in `G` the lexer answers,
    * every `fail` carries an offset in `G`,
    * `Regex()` is only requested when the tag of the last answer satisfies `Rq`,
    * every result satisfies `P` (which also sees the last answer).
  `PProv` is the same for the state-passing layer, with the invariant "the parser's current
  token is the lexer's last answer".  The induction over the 14 mutually recursive parser
  functions (`allProv`) has the architecture of `Lemmas/ParserScope.lean`: every token stored
  in the AST and the current token carry offsets in `G`.
-/
import Jqawk.Lemmas.PM
import Jqawk.Lemmas.ProvenanceLex
import Jqawk.Lemmas.ProvenanceTokens

namespace Jqawk

namespace PM

section
variable {α β : Type} (G : Nat → Prop) (Rq : Tag → Prop)

/-- see the file header -/
def Prov (P : Token → α → Prop) : Token → PM α → Prop
  | last, .pure a => P last a
  | _, .fail e => G e.pos
  | _, .oof => True
  | _, .next k => ∀ t nl, G t.pos → Prov P t (k t nl)
  | last, .regex k => Rq last.tag ∧ ∀ t, G t.pos → Prov P t (k t)

variable {G Rq}

theorem Prov.mono {P Q : Token → α → Prop} {m : PM α} {last : Token} (h : Prov G Rq P last m)
    (hpq : ∀ l a, P l a → Q l a) : Prov G Rq Q last m := by
  induction m generalizing last with
  | pure a => exact hpq _ a h
  | fail e => exact h
  | oof => trivial
  | next k ih => exact fun t nl ht => ih t nl (h t nl ht)
  | regex k ih => exact ⟨h.1, fun t ht => ih t (h.2 t ht)⟩

theorem prov_bind_iff (P : Token → β → Prop) (m : PM α) (f : α → PM β) (last : Token) :
    Prov G Rq P last (m.bind f) ↔ Prov G Rq (fun l a => Prov G Rq P l (f a)) last m := by
  induction m generalizing last with
  | pure a => rfl
  | fail e => rfl
  | oof => rfl
  | next k ih => simp only [PM.bind, Prov, ih]
  | regex k ih => simp only [PM.bind, Prov, ih]

end

/-- **running a parser program against the real lexer**: started in a reachable lexer state,
    a program satisfying `Prov` ends with a result satisfying `P`, or with a syntax error whose
    offset is in `G` or which is a lexical error of the text. -/
theorem run_prov {α : Type} {G : Nat → Prop} {Rq : Tag → Prop} {src : Bytes}
    (hG : ∀ t, Prov.IsTokenOf Rq src t → G t.pos) {P : Token → α → Prop} {m : PM α}
    {last : Token} {s : LexState} (hl : Prov.Lexed Rq src last s) (h : PM.Prov G Rq P last m) :
    match m.run s with
    | .ok a => ∃ l, P l a
    | .syntaxErr e => G e.pos ∨ Prov.IsLexErrOf Rq src e
    | .oof => True := by
  induction m generalizing last s with
  | pure a => exact ⟨last, h⟩
  | fail e => exact .inl h
  | oof => trivial
  | next k ih =>
    simp only [PM.run]
    have hn := Prov.nextNN_lexed (s.rest.length + 1) hl false (Nat.lt_succ_self _)
    cases hr : Lexer.nextNN (s.rest.length + 1) s false with
    | error e => rw [hr] at hn; exact .inr hn
    | ok r =>
      obtain ⟨t, nl, s'⟩ := r
      rw [hr] at hn
      exact ih t nl hn.1 (h t nl (hG t hn.2))
  | regex k ih =>
    simp only [PM.run]
    cases hr : Lexer.regex s with
    | error e => exact .inr ⟨last, s, hl, .inr ⟨h.1, hr⟩⟩
    | ok r =>
      obtain ⟨t, s'⟩ := r
      exact ih t (hl.regex h.1 hr) (h.2 t (hG t ⟨last, s, s', hl, .inr ⟨h.1, hr⟩⟩))

end PM

/-! ### the state-passing layer: symbolic execution rules -/

/-- `PProv G Rq Q m ps`: the parser function `m`, started in parser state `ps` whose current
    token is the lexer's last answer, satisfies `PM.Prov`, ends in states whose current token is
    again the lexer's last answer, and `Q` holds of result and final state. -/
def PProv (G : Nat → Prop) (Rq : Tag → Prop) {α : Type} (Q : α × PS → Prop) (m : P α) (ps : PS) :
    Prop :=
  PM.Prov G Rq (fun last r => last = r.2.cur ∧ Q r) ps.cur (m ps)

namespace PProv
open Parser
variable {α β : Type} {G : Nat → Prop} {Rq : Tag → Prop}

theorem mono {Q Q' : α × PS → Prop} {m : P α} {ps : PS} (h : PProv G Rq Q m ps)
    (hq : ∀ r, Q r → Q' r) : PProv G Rq Q' m ps :=
  PM.Prov.mono h (fun _ r hr => ⟨hr.1, hq r hr.2⟩)

theorem bind {Q : β × PS → Prop} {m : P α} {f : α → P β} {ps : PS}
    (h : PProv G Rq (fun r => PProv G Rq Q (f r.1) r.2) m ps) : PProv G Rq Q (m >>= f) ps := by
  show PM.Prov G Rq _ ps.cur ((m ps).bind _)
  rw [PM.prov_bind_iff]
  refine PM.Prov.mono h ?_
  rintro l r ⟨rfl, hr⟩
  exact hr

theorem pure {Q : α × PS → Prop} {a : α} {ps : PS} (h : Q (a, ps)) :
    PProv G Rq Q (Pure.pure a : P α) ps := ⟨rfl, h⟩

theorem get {Q : PS × PS → Prop} {ps : PS} (h : ∀ s, s = ps → Q (s, ps)) :
    PProv G Rq Q (MonadState.get : P PS) ps := ⟨rfl, h ps rfl⟩

theorem modify {Q : Unit × PS → Prop} {g : PS → PS} {ps : PS} (hc : (g ps).cur = ps.cur)
    (h : Q ((), g ps)) : PProv G Rq Q (_root_.modify g : P Unit) ps := ⟨hc.symm, h⟩

theorem fail {Q : α × PS → Prop} {pos : Nat} {msg : String} {ps : PS} (h : G pos) :
    PProv G Rq Q (Parser.fail pos msg : P α) ps := h

theorem oof {Q : α × PS → Prop} {ps : PS} : PProv G Rq Q (Parser.oof : P α) ps := trivial

theorem advance {Q : Unit × PS → Prop} {ps : PS}
    (h : ∀ t nl, G t.pos → Q ((), { ps with prev := ps.cur, cur := t, didEnd := nl })) :
    PProv G Rq Q Parser.advance ps := fun t nl ht => ⟨rfl, h t nl ht⟩

theorem curTag {Q : Tag × PS → Prop} {ps : PS} (h : ∀ t, t = ps.cur.tag → Q (t, ps)) :
    PProv G Rq Q Parser.curTag ps := ⟨rfl, h _ rfl⟩

theorem atEnd {Q : Bool × PS → Prop} {ps : PS} (h : Q (ps.cur.tag == .eof, ps)) :
    PProv G Rq Q Parser.atEnd ps := ⟨rfl, h⟩

theorem setDidEnd {Q : Unit × PS → Prop} {b : Bool} {ps : PS} (h : Q ((), { ps with didEnd := b })) :
    PProv G Rq Q (Parser.setDidEnd b) ps := ⟨rfl, h⟩

theorem consume {Q : Unit × PS → Prop} {tag : Tag} {ps : PS} (hcur : G ps.cur.pos)
    (h : ps.cur.tag = tag → ∀ t nl, G t.pos →
      Q ((), { ps with prev := ps.cur, cur := t, didEnd := nl })) :
    PProv G Rq Q (Parser.consume tag) ps := by
  unfold Parser.consume
  refine bind (get ?_)
  rintro s rfl
  show PProv G Rq Q (if (s.cur.tag == tag) = true then Parser.advance
    else Parser.fail s.cur.pos "expected token") s
  by_cases hc : s.cur.tag = tag
  · rw [if_pos (by simpa using hc)]; exact advance (h hc)
  · rw [if_neg (by simpa using hc)]; exact fail hcur

theorem consumeOf {Q : Unit × PS → Prop} {tags : List Tag} {ps : PS} (hcur : G ps.cur.pos)
    (h : ps.cur.tag ∈ tags → ∀ t nl, G t.pos →
      Q ((), { ps with prev := ps.cur, cur := t, didEnd := nl })) :
    PProv G Rq Q (Parser.consumeOf tags) ps := by
  unfold Parser.consumeOf
  refine bind (get ?_)
  rintro s rfl
  show PProv G Rq Q (if tags.contains s.cur.tag = true then Parser.advance
    else Parser.fail s.cur.pos "expected one of") s
  by_cases hc : s.cur.tag ∈ tags
  · rw [if_pos (by simpa using hc)]; exact advance (h hc)
  · rw [if_neg (by simpa using hc)]; exact fail hcur

theorem consumeIgnore {Q : Unit × PS → Prop} {tag : Tag} {ps : PS}
    (h1 : ps.cur.tag = tag → ∀ t nl, G t.pos →
      Q ((), { ps with prev := ps.cur, cur := t, didEnd := nl }))
    (h2 : ps.cur.tag ≠ tag → Q ((), ps)) :
    PProv G Rq Q (Parser.consumeIgnore tag) ps := by
  unfold Parser.consumeIgnore
  refine bind (get ?_)
  rintro s rfl
  show PProv G Rq Q (if (s.cur.tag == tag) = true then Parser.advance else Pure.pure ()) s
  by_cases hc : s.cur.tag = tag
  · rw [if_pos (by simpa using hc)]; exact advance (h1 hc)
  · rw [if_neg (by simpa using hc)]; exact pure (h2 hc)

/-- `atStatementEnd` leaves the state alone or advances once -/
theorem atStatementEnd {Q : Bool × PS → Prop} {ps : PS}
    (h1 : ∀ b, Q (b, ps))
    (h2 : ∀ b t nl, G t.pos → Q (b, { ps with prev := ps.cur, cur := t, didEnd := nl })) :
    PProv G Rq Q Parser.atStatementEnd ps := by
  unfold Parser.atStatementEnd
  refine bind (get ?_)
  rintro s rfl
  show PProv G Rq Q (if s.didEnd = true then Pure.pure true else
    match s.cur.tag with
    | .rcurly => Pure.pure true
    | .semiColon => (do Parser.advance; Pure.pure true)
    | _ => Pure.pure false : P Bool) s
  by_cases hd : s.didEnd = true
  · rw [if_pos hd]; exact pure (h1 _)
  · rw [if_neg hd]
    split
    · exact pure (h1 _)
    · exact bind (advance fun t nl ht => pure (h2 _ t nl ht))
    · exact pure (h1 _)

theorem regexPrefix {Q : Expr × PS → Prop} {ps : PS} (hq : Rq ps.cur.tag)
    (h : ∀ tok, G tok.pos → ∀ t nl, G t.pos →
      Q (.lit tok, { ps with prev := tok, cur := t, didEnd := nl })) :
    PProv G Rq Q Parser.regexPrefix ps :=
  ⟨hq, fun tok htok t nl ht => ⟨rfl, h tok htok t nl ht⟩⟩

/-- marks a goal as a symbolic-execution goal (so that `split` is only tried on those) -/
theorem guard {Q : α × PS → Prop} {m : P α} {ps : PS} (h : PProv G Rq Q m ps) :
    PProv G Rq Q m ps := h

end PProv

section tactics
set_option hygiene false

/-- one symbolic-execution step on a goal `PProv G Rq Q prog ps` -/
macro "prov_step" : tactic => `(tactic| first
  | (with_reducible exact PProv.oof)
  | (with_reducible refine PProv.fail ?_)
  | (with_reducible refine PProv.pure ?_)
  | (with_reducible refine PProv.get ?_; intro s hs; try dsimp only)
  | (with_reducible refine PProv.modify rfl ?_; try dsimp only)
  | (with_reducible refine PProv.advance (fun _ _ hGt => ?_); try dsimp only)
  | (with_reducible refine PProv.curTag ?_; intro tg htg; try dsimp only)
  | (with_reducible refine PProv.atEnd ?_; try dsimp only)
  | (with_reducible refine PProv.setDidEnd ?_; try dsimp only)
  | ((with_reducible refine PProv.consume ?_ (fun hcons _ _ hGt => ?_)) <;> try dsimp only)
  | ((with_reducible refine PProv.consumeOf ?_ (fun hcons _ _ hGt => ?_)) <;> try dsimp only)
  | ((with_reducible refine PProv.consumeIgnore (fun _ _ _ hGt => ?_) (fun _ => ?_)) <;> try dsimp only)
  | ((with_reducible refine PProv.atStatementEnd (fun _ => ?_) (fun _ _ _ hGt => ?_)) <;> try dsimp only)
  | ((with_reducible refine PProv.regexPrefix ?_ (fun _ hGtok _ _ hGt => ?_)) <;> try dsimp only)
  | (with_reducible refine PProv.bind ?_)
  | (with_reducible refine PProv.guard ?_; split <;> try subst_vars))

end tactics

end Jqawk

namespace Jqawk
open Parser

/-! ### the invariant over the 14 parser functions -/

/-- postcondition of a parser function: the current token and every token of the result carry
    offsets in `G` -/
def PvPost (G : Nat → Prop) {α : Type} (tok : α → List Token) (r : α × PS) : Prop :=
  G r.2.cur.pos ∧ TokOK G (tok r.1)

/-- the rule table asks for `Regex()` only at tags satisfying `Rq` -/
def TblRq (Rq : Tag → Prop) (tbl : RuleTable) : Prop :=
  ∀ tag, (lookupRule tbl tag).pre = some .regex → Rq tag

variable (G : Nat → Prop) (Rq : Tag → Prop) (kw : Bool)

structure AllProv (tbl : RuleTable) (n : Nat) : Prop where
  statement : ∀ ps, G ps.cur.pos → PProv G Rq (PvPost G (Stmt.tokens kw)) (statement tbl n) ps
  loopBody : ∀ ps, G ps.cur.pos → PProv G Rq (PvPost G (Stmt.tokens kw)) (loopBody tbl n) ps
  block : ∀ ps, G ps.cur.pos → PProv G Rq (PvPost G (Stmt.tokens kw)) (block tbl n) ps
  blockLoop : ∀ acc ps, G ps.cur.pos → TokOK G (tokensSs kw acc) →
    PProv G Rq (PvPost G (tokensSs kw)) (blockLoop tbl n acc) ps
  printStatement : ∀ ps, G ps.cur.pos →
    PProv G Rq (PvPost G (Stmt.tokens kw)) (printStatement tbl n) ps
  printLoop : ∀ acc ps, G ps.cur.pos → TokOK G (tokensEs kw acc) →
    PProv G Rq (PvPost G (fun r : List Expr × Bool => tokensEs kw r.1)) (printLoop tbl n acc) ps
  expressionWithPrec : ∀ prec ps, G ps.cur.pos →
    PProv G Rq (PvPost G (Expr.tokens kw)) (expressionWithPrec tbl n prec) ps
  infixLoop : ∀ prec lhs ps, G ps.cur.pos → TokOK G (lhs.tokens kw) →
    PProv G Rq (PvPost G (Expr.tokens kw)) (infixLoop tbl n prec lhs) ps
  prefixFn : ∀ pk ps, G ps.cur.pos → (pk = .regex → Rq ps.cur.tag) →
    PProv G Rq (PvPost G (Expr.tokens kw)) (prefixFn tbl n pk) ps
  exprList : ∀ endTag acc ps, G ps.cur.pos → TokOK G (tokensEs kw acc) →
    PProv G Rq (PvPost G (tokensEs kw)) (exprList tbl n endTag acc) ps
  objectLoop : ∀ acc ps, G ps.cur.pos → TokOK G (tokensKVs kw acc) →
    PProv G Rq (PvPost G (tokensKVs kw)) (objectLoop tbl n acc) ps
  matchCases : ∀ acc ps, G ps.cur.pos → TokOK G (tokensCases kw acc) →
    PProv G Rq (PvPost G (tokensCases kw)) (matchCases tbl n acc) ps
  matchPats : ∀ acc ps, G ps.cur.pos → TokOK G (tokensEs kw acc) →
    PProv G Rq (PvPost G (tokensEs kw)) (matchPats tbl n acc) ps
  infixFn : ∀ ik lhs ps, G ps.cur.pos → TokOK G (lhs.tokens kw) →
    PProv G Rq (PvPost G (Expr.tokens kw)) (infixFn tbl n ik lhs) ps

section tactics
set_option hygiene false

/-- a call of one of the mutually recursive functions: use the induction hypothesis `ih` -/
macro "prov_ih" : tactic => `(tactic| (first
  | with_reducible refine PProv.mono (ih.statement _ ?_) (fun r hx => ?_)
  | with_reducible refine PProv.mono (ih.loopBody _ ?_) (fun r hx => ?_)
  | with_reducible refine PProv.mono (ih.block _ ?_) (fun r hx => ?_)
  | with_reducible refine PProv.mono (ih.printStatement _ ?_) (fun r hx => ?_)
  | with_reducible refine PProv.mono (ih.expressionWithPrec _ _ ?_) (fun r hx => ?_)
  | with_reducible refine PProv.mono (ih.prefixFn _ _ ?_ ?_) (fun r hx => ?_)
  | with_reducible refine PProv.mono (ih.blockLoop _ _ ?_ ?_) (fun r hx => ?_)
  | with_reducible refine PProv.mono (ih.printLoop _ _ ?_ ?_) (fun r hx => ?_)
  | with_reducible refine PProv.mono (ih.infixLoop _ _ _ ?_ ?_) (fun r hx => ?_)
  | with_reducible refine PProv.mono (ih.exprList _ _ _ ?_ ?_) (fun r hx => ?_)
  | with_reducible refine PProv.mono (ih.objectLoop _ _ ?_ ?_) (fun r hx => ?_)
  | with_reducible refine PProv.mono (ih.matchCases _ _ ?_ ?_) (fun r hx => ?_)
  | with_reducible refine PProv.mono (ih.matchPats _ _ ?_ ?_) (fun r hx => ?_)
  | with_reducible refine PProv.mono (ih.infixFn _ _ _ ?_ ?_) (fun r hx => ?_)))

/-- run the symbolic execution to the leaves -/
macro "prov_run" : tactic => `(tactic| repeat' (first
  | prov_step
  | (prov_ih <;> try (obtain ⟨x, ps'⟩ := r; dsimp only [PvPost] at hx ⊢))))

/-- leaves: combine the facts collected on the way -/
macro "prov_close" : tactic => `(tactic| (
  subst_vars
  first
  | assumption
  | (refine TokOK.token (kw := kw) ?_; simp_all [-List.reverse_cons, PvPost]; done)
  | (simp_all [-List.reverse_cons, PvPost, Expr.tokens, Stmt.tokens, tokensEs, tokensSs,
      tokensKVs, tokensCases, TokOK_kwTok, rewriteCompound]; done)))

end tactics

variable {G Rq kw} {tbl : RuleTable} {n : Nat}

theorem loopBody_prov (ih : AllProv G Rq kw tbl n) (ps : PS) (hcur : G ps.cur.pos) :
    PProv G Rq (PvPost G (Stmt.tokens kw)) (loopBody tbl (n + 1)) ps := by
  unfold loopBody
  prov_run
  all_goals prov_close

theorem block_prov (ih : AllProv G Rq kw tbl n) (ps : PS) (hcur : G ps.cur.pos) :
    PProv G Rq (PvPost G (Stmt.tokens kw)) (block tbl (n + 1)) ps := by
  unfold block
  prov_run
  all_goals prov_close

theorem blockLoop_prov (ih : AllProv G Rq kw tbl n) (acc : List Stmt) (ps : PS)
    (hcur : G ps.cur.pos) (hacc : TokOK G (tokensSs kw acc)) :
    PProv G Rq (PvPost G (tokensSs kw)) (blockLoop tbl (n + 1) acc) ps := by
  unfold blockLoop
  prov_run
  all_goals prov_close

theorem printStatement_prov (ih : AllProv G Rq kw tbl n) (ps : PS) (hcur : G ps.cur.pos) :
    PProv G Rq (PvPost G (Stmt.tokens kw)) (printStatement tbl (n + 1)) ps := by
  unfold printStatement
  prov_run
  all_goals prov_close

theorem printLoop_prov (ih : AllProv G Rq kw tbl n) (acc : List Expr) (ps : PS)
    (hcur : G ps.cur.pos) (hacc : TokOK G (tokensEs kw acc)) :
    PProv G Rq (PvPost G (fun r : List Expr × Bool => tokensEs kw r.1)) (printLoop tbl (n + 1) acc) ps := by
  unfold printLoop
  prov_run
  all_goals prov_close

theorem exprList_prov (ih : AllProv G Rq kw tbl n) (endTag : Tag) (acc : List Expr) (ps : PS)
    (hcur : G ps.cur.pos) (hacc : TokOK G (tokensEs kw acc)) :
    PProv G Rq (PvPost G (tokensEs kw)) (exprList tbl (n + 1) endTag acc) ps := by
  unfold exprList
  prov_run
  all_goals prov_close

theorem objectLoop_prov (ih : AllProv G Rq kw tbl n) (acc : List (Bytes × Expr)) (ps : PS)
    (hcur : G ps.cur.pos) (hacc : TokOK G (tokensKVs kw acc)) :
    PProv G Rq (PvPost G (tokensKVs kw)) (objectLoop tbl (n + 1) acc) ps := by
  unfold objectLoop
  prov_run
  all_goals prov_close

theorem matchCases_prov (ih : AllProv G Rq kw tbl n) (acc : List MatchCase) (ps : PS)
    (hcur : G ps.cur.pos) (hacc : TokOK G (tokensCases kw acc)) :
    PProv G Rq (PvPost G (tokensCases kw)) (matchCases tbl (n + 1) acc) ps := by
  unfold matchCases
  prov_run
  all_goals prov_close

theorem matchPats_prov (ih : AllProv G Rq kw tbl n) (acc : List Expr) (ps : PS)
    (hcur : G ps.cur.pos) (hacc : TokOK G (tokensEs kw acc)) :
    PProv G Rq (PvPost G (tokensEs kw)) (matchPats tbl (n + 1) acc) ps := by
  unfold matchPats
  prov_run
  all_goals prov_close

theorem prefixFn_prov (ih : AllProv G Rq kw tbl n) (pk : PrefixKind) (ps : PS)
    (hcur : G ps.cur.pos) (hrq : pk = .regex → Rq ps.cur.tag) :
    PProv G Rq (PvPost G (Expr.tokens kw)) (prefixFn tbl (n + 1) pk) ps := by
  unfold prefixFn
  prov_run
  all_goals prov_close

theorem infixFn_prov (ih : AllProv G Rq kw tbl n) (ik : InfixKind) (lhs : Expr) (ps : PS)
    (hcur : G ps.cur.pos) (hacc : TokOK G (lhs.tokens kw)) :
    PProv G Rq (PvPost G (Expr.tokens kw)) (infixFn tbl (n + 1) ik lhs) ps := by
  unfold infixFn
  prov_run
  all_goals prov_close

theorem expressionWithPrec_prov (hT : TblRq Rq tbl) (ih : AllProv G Rq kw tbl n) (prec : Nat)
    (ps : PS) (hcur : G ps.cur.pos) :
    PProv G Rq (PvPost G (Expr.tokens kw)) (expressionWithPrec tbl (n + 1) prec) ps := by
  unfold expressionWithPrec
  prov_step
  prov_step
  have hT' := hT s.cur.tag
  generalize (lookupRule tbl s.cur.tag).pre = pre at hT'
  prov_run
  all_goals prov_close

theorem infixLoop_prov (ih : AllProv G Rq kw tbl n) (prec : Nat) (lhs : Expr) (ps : PS)
    (hcur : G ps.cur.pos) (hacc : TokOK G (lhs.tokens kw)) :
    PProv G Rq (PvPost G (Expr.tokens kw)) (infixLoop tbl (n + 1) prec lhs) ps := by
  unfold infixLoop
  prov_step
  prov_step
  generalize (lookupRule tbl s.cur.tag) = r
  split
  · generalize r.inf = inf
    prov_run
    all_goals prov_close
  · prov_run
    all_goals prov_close

theorem statement_prov (ih : AllProv G Rq kw tbl n) (ps : PS) (hcur : G ps.cur.pos) :
    PProv G Rq (PvPost G (Stmt.tokens kw)) (statement tbl (n + 1)) ps := by
  unfold statement
  prov_step
  prov_step
  prov_step
  prov_step
  generalize s.cur.tag = tg0
  prov_run
  all_goals try (
    with_reducible refine PProv.guard ?_
    try generalize (ps'.cur.tag == Tag.in_ || ps'.cur.tag == Tag.comma) = fl
    cases x <;> (try cases fl) <;> dsimp only <;> prov_run)
  all_goals prov_close

/-- the provenance invariant holds for every function of the mutual block, at every fuel -/
theorem allProv (G : Nat → Prop) (Rq : Tag → Prop) (kw : Bool) (tbl : RuleTable)
    (hT : TblRq Rq tbl) : ∀ n, AllProv G Rq kw tbl n := by
  intro n
  induction n with
  | zero =>
    constructor
    all_goals intros
    · unfold statement; exact PProv.oof
    · unfold loopBody; exact PProv.oof
    · unfold block; exact PProv.oof
    · unfold blockLoop; exact PProv.oof
    · unfold printStatement; exact PProv.oof
    · unfold printLoop; exact PProv.oof
    · unfold expressionWithPrec; exact PProv.oof
    · unfold infixLoop; exact PProv.oof
    · unfold prefixFn; exact PProv.oof
    · unfold exprList; exact PProv.oof
    · unfold objectLoop; exact PProv.oof
    · unfold matchCases; exact PProv.oof
    · unfold matchPats; exact PProv.oof
    · unfold infixFn; exact PProv.oof
  | succ n ih =>
    exact {
      statement := statement_prov ih
      loopBody := loopBody_prov ih
      block := block_prov ih
      blockLoop := blockLoop_prov ih
      printStatement := printStatement_prov ih
      printLoop := printLoop_prov ih
      expressionWithPrec := expressionWithPrec_prov hT ih
      infixLoop := infixLoop_prov ih
      prefixFn := prefixFn_prov ih
      exprList := exprList_prov ih
      objectLoop := objectLoop_prov ih
      matchCases := matchCases_prov ih
      matchPats := matchPats_prov ih
      infixFn := infixFn_prov ih }

/-! ### the top level -/

/-- what the parser establishes for a rule: the tokens of the pattern and of the body carry
    offsets in `G` — or the body is the implicit `print` of a body-less rule, which carries the
    zero token -/
def RuleOK (G : Nat → Prop) (kw : Bool) (r : Rule) : Prop :=
  (∀ e, r.pattern = some e → TokOK G (e.tokens kw)) ∧
  (TokOK G (r.body.tokens kw) ∨ r.body = .print Token.zero [])

def FuncOK (G : Nat → Prop) (kw : Bool) (f : FuncDef) : Prop :=
  G f.ident.pos ∧ TokOK G (f.body.tokens kw)

def ProgOK (G : Nat → Prop) (kw : Bool) (p : Program) : Prop :=
  (∀ r ∈ p.rules, RuleOK G kw r) ∧ (∀ f ∈ p.functions, FuncOK G kw f)

theorem parseRule_prov (ih : AllProv G Rq kw tbl n) (ps : PS) (hcur : G ps.cur.pos) :
    PProv G Rq (fun r => G r.2.cur.pos ∧ RuleOK G kw r.1) (parseRule tbl n) ps := by
  unfold parseRule
  prov_run
  all_goals (subst_vars; simp_all [RuleOK])

theorem funcArgs_prov : ∀ (n : Nat) (acc : List Bytes) (ps : PS), G ps.cur.pos →
    PProv G Rq (fun r => G r.2.cur.pos) (funcArgs n acc) ps := by
  intro n
  induction n with
  | zero => intro acc ps _; unfold funcArgs; exact PProv.oof
  | succ n ihn =>
    intro acc ps hcur
    unfold funcArgs
    prov_run
    all_goals first
      | (refine PProv.mono (ihn _ _ ?_) (fun r hx => hx); subst_vars; simp_all; done)
      | prov_close

theorem parseFunction_prov (ih : AllProv G Rq kw tbl n) (ps : PS) (hcur : G ps.cur.pos) :
    PProv G Rq (fun r => G r.2.cur.pos ∧ FuncOK G kw r.1) (parseFunction tbl n) ps := by
  unfold parseFunction
  prov_run
  any_goals (
    refine PProv.mono (funcArgs_prov _ _ _ ?_) (fun r hx => ?_)
    rotate_left
    obtain ⟨x, ps'⟩ := r
    dsimp only at hx ⊢
    prov_run)
  all_goals (subst_vars; simp_all [FuncOK])

theorem parseTop_prov (hT : TblRq Rq tbl) : ∀ (n : Nat) (rules : List Rule) (fns : List FuncDef)
    (ps : PS), G ps.cur.pos → (∀ r ∈ rules, RuleOK G kw r) → (∀ f ∈ fns, FuncOK G kw f) →
    PProv G Rq (fun r => ProgOK G kw r.1) (parseTop tbl n rules fns) ps := by
  intro n
  induction n with
  | zero => intros; unfold parseTop; exact PProv.oof
  | succ n ihn =>
    intro rules fns ps hcur hrules hfns
    have ih := allProv G Rq kw tbl hT n
    unfold parseTop
    prov_run
    · exact ⟨by simpa using hrules, by simpa using hfns⟩
    · refine PProv.mono (parseFunction_prov ih _ hcur) (fun r hx => ?_)
      obtain ⟨f, ps'⟩ := r
      dsimp only at hx ⊢
      refine ihn _ _ _ hx.1 hrules ?_
      intro f' hf'
      rcases List.mem_cons.mp hf' with rfl | hf'
      · exact hx.2
      · exact hfns f' hf'
    · refine PProv.mono (parseRule_prov ih _ hcur) (fun r hx => ?_)
      obtain ⟨rule, ps'⟩ := r
      dsimp only at hx ⊢
      refine ihn _ _ _ hx.1 ?_ hfns
      intro r' hr'
      rcases List.mem_cons.mp hr' with rfl | hr'
      · exact hx.2
      · exact hrules r' hr'

theorem parseProgram_prov (hT : TblRq Rq tbl) (n : Nat) :
    PProv G Rq (fun r => ProgOK G kw r.1) (parseProgram tbl n) PS.init := by
  unfold parseProgram
  prov_run
  exact parseTop_prov hT n _ _ _ hGt (by simp) (by simp)

theorem parseExpression_prov (hT : TblRq Rq tbl) (n : Nat) :
    PProv G Rq (fun r => TokOK G (r.1.tokens kw)) (parseExpression tbl n) PS.init := by
  have ih := allProv G Rq kw tbl hT n
  unfold parseExpression
  prov_run
  all_goals prov_close

/-! ### against the real lexer -/

open Prov in
/-- **provenance for `Parse()`**: run on the text `src`, the parser ends with a program all of
    whose tokens carry token offsets of `src`, or with a syntax error at a token offset of
    `src`, or with a lexical error of `src`. -/
theorem parseProgramSrc_prov (Rq : Tag → Prop) (kw : Bool) (tbl : RuleTable) (hT : TblRq Rq tbl)
    (src : Bytes) :
    match parseProgramSrc tbl src with
    | .ok prog => ProgOK (TokenStart Rq src) kw prog
    | .syntaxErr e => TokenStart Rq src e.pos ∨ IsLexErrOf Rq src e
    | .oof => True := by
  unfold parseProgramSrc
  have h := PM.run_prov (G := TokenStart Rq src) (Rq := Rq) (src := src)
    (fun t ht => ⟨t, ht, rfl⟩) Lexed.init
    (parseProgram_prov (G := TokenStart Rq src) (kw := kw) hT (parserFuel src))
  revert h
  cases (parseProgram tbl (parserFuel src) PS.init).run (LexState.init src) with
  | ok r => rintro ⟨_, _, h⟩; exact h
  | syntaxErr e => exact id
  | oof => exact id

open Prov in
/-- **provenance for `ParseExpression()`** (selectors) -/
theorem parseExpressionSrc_prov (Rq : Tag → Prop) (kw : Bool) (tbl : RuleTable) (hT : TblRq Rq tbl)
    (src : Bytes) :
    match parseExpressionSrc tbl src with
    | .ok e => TokOK (TokenStart Rq src) (e.tokens kw)
    | .syntaxErr e => TokenStart Rq src e.pos ∨ IsLexErrOf Rq src e
    | .oof => True := by
  unfold parseExpressionSrc
  have h := PM.run_prov (G := TokenStart Rq src) (Rq := Rq) (src := src)
    (fun t ht => ⟨t, ht, rfl⟩) Lexed.init
    (parseExpression_prov (G := TokenStart Rq src) (kw := kw) hT (parserFuel src))
  revert h
  cases (parseExpression tbl (parserFuel src) PS.init).run (LexState.init src) with
  | ok r => rintro ⟨_, _, h⟩; exact h
  | syntaxErr e => exact id
  | oof => exact id

theorem tblRq_true (tbl : RuleTable) : TblRq (fun _ => True) tbl := fun _ _ => trivial

/-- the real rule table asks for `Regex()` only when the current token is `/` -/
theorem tblRq_expected : TblRq Prov.AfterSlash expectedRuleTable := by
  intro tag
  unfold Prov.AfterSlash
  cases tag <;> decide

/-! ### texts without any token -/

theorem nextNN_noToken {src : Bytes} {s1 : LexState}
    (h : Lexer.next (LexState.init src) = .ok (⟨.eof, 0, []⟩, s1)) (f : Nat) :
    Lexer.nextNN (f + 1) (LexState.init src) false = .ok (⟨.eof, 0, []⟩, false, s1) := by
  simp only [Lexer.nextNN, h]
  rfl

/-- a program text without any token parses to the empty program -/
theorem parseProgramSrc_noToken (tbl : RuleTable) (src : Bytes) (h : Prov.NoToken src) :
    parseProgramSrc tbl src = .ok ⟨[], []⟩ := by
  obtain ⟨s1, h1⟩ := h
  have hf : parserFuel src = (8 * src.length + 63) + 1 := rfl
  unfold parseProgramSrc parseProgram
  rw [hf]
  show (match PM.run (PM.next fun t nl =>
      parseTop tbl (8 * src.length + 63 + 1) [] []
        { PS.init with prev := PS.init.cur, cur := t, didEnd := nl }) (LexState.init src) with
    | .ok (p, _) => ParseRes.ok p
    | .syntaxErr e => .syntaxErr e
    | .oof => .oof) = _
  simp only [PM.run]
  have := nextNN_noToken h1 (LexState.init src).rest.length
  rw [this]
  rfl

theorem P.bind_pure' {α β : Type} (m : P α) (f : α → P β) (ps : PS) (a : α) (ps' : PS)
    (h : m ps = .pure (a, ps')) : (m >>= f) ps = f a ps' := by
  show (m ps).bind _ = _
  rw [h]; rfl

theorem P.bind_fail' {α β : Type} (m : P α) (f : α → P β) (ps : PS) (e : SynErr)
    (h : m ps = .fail e) : (m >>= f) ps = .fail e := by
  show (m ps).bind _ = _
  rw [h]; rfl

theorem expressionWithPrec_no_prefix (tbl : RuleTable) (n prec : Nat) (ps : PS)
    (h : (lookupRule tbl ps.cur.tag).pre = none) :
    expressionWithPrec tbl (n + 1) prec ps = .fail ⟨ps.cur.pos, "unexpected token"⟩ := by
  unfold expressionWithPrec
  rw [P.bind_pure' get _ ps ps ps rfl]
  simp only [h]
  rfl

/-- a selector text without any token is a syntax error, when the table has no prefix rule for
    the EOF token (as the real one) -/
theorem parseExpressionSrc_noToken (tbl : RuleTable) (hE : (lookupRule tbl .eof).pre = none)
    (src : Bytes) (h : Prov.NoToken src) : ∃ e, parseExpressionSrc tbl src = .syntaxErr e := by
  obtain ⟨s1, h1⟩ := h
  have hf : parserFuel src = (8 * src.length + 63) + 1 := rfl
  refine ⟨⟨0, "unexpected token"⟩, ?_⟩
  unfold parseExpressionSrc parseExpression
  rw [hf]
  show (match PM.run (PM.next fun t nl =>
      ((do
        let e ← expressionWithPrec tbl (8 * src.length + 63 + 1) Prec.assign
        consume .eof
        return e : P Expr)
        { PS.init with prev := PS.init.cur, cur := t, didEnd := nl })) (LexState.init src) with
    | .ok (p, _) => ParseRes.ok p
    | .syntaxErr e => .syntaxErr e
    | .oof => .oof) = _
  simp only [PM.run]
  have := nextNN_noToken h1 (LexState.init src).rest.length
  rw [this]
  dsimp only
  rw [P.bind_fail' _ _ _ _ (expressionWithPrec_no_prefix tbl _ _ _ hE)]
  rfl

end Jqawk
