/-
  C06 infrastructure: a token-LIST source for the parser monad, so that theorems about the Pratt
  parser speak about token sequences (not program text), and `parseToks`.
-/
import Jqawk.Lemmas.PM
import Jqawk.Model.Dump

namespace Jqawk

/-- The token a list source answers with once the list is exhausted (`Token{}` with tag EOF). -/
def eofTok : Token := ⟨.eof, 0, []⟩

/-- A token list as a token source: `next` answers with the head (the EOF token when the list is
    empty; the newline flag is always false); `regex` (re-lexing in regex mode) is never needed
    for the expressions considered here and fails. -/
def tokSrc : TokSrc (List Token) where
  next := fun ts => match ts with
    | [] => .ok (eofTok, false, [])
    | t :: ts => .ok (t, false, ts)
  regex := fun _ => .error ⟨0, "regex request against a token-list source"⟩

/-- fuel given to the parser for a token list (same shape as `parserFuel`) -/
def toksFuel (ts : List Token) : Nat := 8 * ts.length + 64

/-- `ParseExpression()` run on a token list. -/
def parseToks (ts : List Token) : ParseRes Expr :=
  match ((Parser.parseExpression expectedRuleTable (toksFuel ts)) PS.init).runWith tokSrc ts with
  | .ok (e, _) => .ok e
  | .syntaxErr e => .syntaxErr e
  | .oof => .oof

/-- S-expression dump of a parse result (for `decide`: `Expr` has no `DecidableEq`);
    `none` for an error or out-of-fuel result. -/
def ParseRes.dump : ParseRes Expr → Option Bytes
  | .ok e => some (dumpExpr e)
  | _ => none

def ParseRes.isSyntaxErr {α : Type} : ParseRes α → Bool
  | .syntaxErr _ => true
  | _ => false

end Jqawk
