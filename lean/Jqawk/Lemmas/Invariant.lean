/-
  The master invariant of the evaluator (DESIGN.md §1c, §6 C01/C08/C11/C20):
  whatever way an evaluation ends, (1) the frame stack has the shape it had before — same
  depth, every deeper frame untouched, the innermost frame keeps its name (it may have gained
  locals) —, (2) `root` and `ruleRoot` are unchanged, (3) output was only appended,
  (4) the ghost fault counter grew by exactly one iff the result is a runtime error, and then
  nothing was printed after the fault.
-/
import Jqawk.Model.Eval

set_option linter.unusedVariables false

namespace Jqawk

/-- same depth, deeper frames identical, innermost frame keeps its name -/
def FramesKeep : List Frame → List Frame → Prop
  | [], [] => True
  | a :: as, b :: bs => b.name = a.name ∧ bs = as
  | _, _ => False

theorem FramesKeep.refl (f : List Frame) : FramesKeep f f := by
  cases f <;> simp [FramesKeep]

theorem FramesKeep.trans {a b c : List Frame} (h1 : FramesKeep a b) (h2 : FramesKeep b c) :
    FramesKeep a c := by
  cases a <;> cases b <;> cases c <;> simp_all [FramesKeep]

theorem FramesKeep.length {a b : List Frame} (h : FramesKeep a b) : b.length = a.length := by
  cases a <;> cases b <;> simp_all [FramesKeep]

structure Keeps (s s' : St) : Prop where
  frames : FramesKeep s.frames s'.frames
  root : s'.root = s.root
  ruleRoot : s'.ruleRoot = s.ruleRoot
  out : ∃ c, s'.out = c ++ s.out
  depth : s.maxDepth ≤ s'.maxDepth ∧ s'.maxDepth ≤ max s.maxDepth (callDepthLimit + 1)

theorem depth_refl (s : St) : s.maxDepth ≤ s.maxDepth ∧ s.maxDepth ≤ max s.maxDepth (callDepthLimit + 1) :=
  ⟨Nat.le_refl _, Nat.le_max_left _ _⟩

theorem Keeps.refl (s : St) : Keeps s s := ⟨FramesKeep.refl _, rfl, rfl, ⟨[], rfl⟩, depth_refl s⟩

theorem Keeps.trans {a b c : St} (h1 : Keeps a b) (h2 : Keeps b c) : Keeps a c := by
  obtain ⟨f1, r1, rr1, ⟨c1, o1⟩, d1⟩ := h1
  obtain ⟨f2, r2, rr2, ⟨c2, o2⟩, d2⟩ := h2
  exact ⟨f1.trans f2, r2.trans r1, rr2.trans rr1, ⟨c2 ++ c1, by rw [o2, o1, List.append_assoc]⟩,
    ⟨by omega, by omega⟩⟩

/-- the invariant on a result, relative to the state the evaluation started from -/
def Q {α : Type} (s : St) : Res α → Prop
  | .ok _ s' => Keeps s s' ∧ s'.faults = s.faults
  | .err (.runtime _ _) s' => Keeps s s' ∧ s'.faults = s.faults + 1 ∧ s'.faultOut = s'.out.length
  | .err (.sig _) s' => Keeps s s' ∧ s'.faults = s.faults
  | .err (.panic _) s' => Keeps s s'
  | .err (.unmodelled _) s' => Keeps s s'
  | .oof => True

theorem Q.trans {α : Type} {s s1 : St} {r : Res α} (hk : Keeps s s1) (hf : s1.faults = s.faults)
    (h : Q s1 r) : Q s r := by
  cases r with
  | ok a s' => exact ⟨hk.trans h.1, h.2.trans hf⟩
  | err e s' =>
    cases e with
    | runtime p m => exact ⟨hk.trans h.1, by rw [h.2.1, hf], h.2.2⟩
    | sig g => exact ⟨hk.trans h.1, h.2.trans hf⟩
    | panic m => exact hk.trans h
    | unmodelled w => exact hk.trans h
  | oof => trivial

/-- a computation that satisfies the invariant from every start state -/
def Safe {α : Type} (m : EM α) : Prop := ∀ s, Q s (m s)

namespace Safe

theorem pure {α : Type} (a : α) : Safe (Pure.pure a : EM α) := fun s => ⟨Keeps.refl s, rfl⟩

theorem bind {α β : Type} {m : EM α} {f : α → EM β} (hm : Safe m) (hf : ∀ a, Safe (f a)) :
    Safe (m >>= f) := by
  intro s
  show Q s (EM.bind m f s)
  unfold EM.bind
  have h := hm s
  cases hr : m s with
  | ok a s1 => rw [hr] at h; exact Q.trans h.1 h.2 (hf a s1)
  | err e s1 =>
    rw [hr] at h
    cases e <;> exact h
  | oof => trivial

theorem map {α β : Type} {m : EM α} (g : α → β) (hm : Safe m) : Safe (g <$> m) := by
  have : (g <$> m) = (m >>= fun a => Pure.pure (g a)) := rfl
  rw [this]; exact bind hm (fun a => pure _)

theorem seq_unit {β : Type} {m : EM Unit} {k : EM β} (hm : Safe m) (hk : Safe k) :
    Safe (do m; k) := bind hm (fun _ => hk)

theorem oof {α : Type} : Safe (Jqawk.oof : EM α) := fun _ => trivial
theorem getSt : Safe Jqawk.getSt := fun s => ⟨Keeps.refl s, rfl⟩
theorem getHeap : Safe Jqawk.getHeap := fun s => ⟨Keeps.refl s, rfl⟩
theorem readCell (c : CellId) : Safe (Jqawk.readCell c) := fun s => ⟨Keeps.refl s, rfl⟩
theorem throwSig {α : Type} (g : Sig) : Safe (Jqawk.throwSig g : EM α) := fun s => ⟨Keeps.refl s, rfl⟩
theorem throwPanic {α : Type} (m : String) : Safe (Jqawk.throwPanic m : EM α) := fun s => Keeps.refl s
theorem throwUnmodelled {α : Type} (m : String) : Safe (Jqawk.throwUnmodelled m : EM α) :=
  fun s => Keeps.refl s

theorem throwRt {α : Type} (p : Nat) (m : String) : Safe (Jqawk.throwRt p m : EM α) := by
  intro s
  exact ⟨⟨FramesKeep.refl _, rfl, rfl, ⟨[], rfl⟩, depth_refl s⟩, rfl, rfl⟩

theorem liftExcept {α : Type} (p : Nat) (e : Except String α) : Safe (Jqawk.liftExcept p e) := by
  cases e with
  | ok a => exact pure a
  | error m => exact throwRt p m

/-- any update of the heap alone -/
theorem heapOnly {α : Type} (f : St → α × Heap) :
    Safe (fun s => let r := f s; Res.ok r.1 { s with heap := r.2 } : EM α) :=
  fun s => ⟨⟨FramesKeep.refl _, rfl, rfl, ⟨[], rfl⟩, depth_refl s⟩, rfl⟩

theorem newCell (v : Val) : Safe (Jqawk.newCell v) :=
  fun s => ⟨⟨FramesKeep.refl _, rfl, rfl, ⟨[], rfl⟩, depth_refl s⟩, rfl⟩
theorem writeCell (c : CellId) (v : Val) : Safe (Jqawk.writeCell c v) :=
  fun s => ⟨⟨FramesKeep.refl _, rfl, rfl, ⟨[], rfl⟩, depth_refl s⟩, rfl⟩
theorem setHeap (h : Heap) : Safe (Jqawk.setHeap h) :=
  fun s => ⟨⟨FramesKeep.refl _, rfl, rfl, ⟨[], rfl⟩, depth_refl s⟩, rfl⟩
theorem allocArrM (items : Array CellId) : Safe (Jqawk.allocArrM items) :=
  fun s => ⟨⟨FramesKeep.refl _, rfl, rfl, ⟨[], rfl⟩, depth_refl s⟩, rfl⟩
theorem allocObjM (m : List (Bytes × CellId)) : Safe (Jqawk.allocObjM m) :=
  fun s => ⟨⟨FramesKeep.refl _, rfl, rfl, ⟨[], rfl⟩, depth_refl s⟩, rfl⟩
theorem emit (b : Bytes) : Safe (Jqawk.emit b) :=
  fun s => ⟨⟨FramesKeep.refl _, rfl, rfl, ⟨[b], rfl⟩, depth_refl s⟩, rfl⟩
theorem setReturnVal (c : Option CellId) :
    Safe (Jqawk.modifySt fun s => { s with returnVal := c }) :=
  fun s => ⟨⟨FramesKeep.refl _, rfl, rfl, ⟨[], rfl⟩, depth_refl s⟩, rfl⟩

theorem setLocal (name : Bytes) (c : CellId) : Safe (Jqawk.setLocal name c) := by
  intro s
  unfold Jqawk.setLocal
  cases hf : s.frames with
  | nil => exact Keeps.refl s
  | cons f fs =>
    refine ⟨⟨?_, rfl, rfl, ⟨[], rfl⟩, depth_refl s⟩, rfl⟩
    simp [FramesKeep, hf]

theorem getVariable (name : Bytes) : Safe (Jqawk.getVariable name) := by
  unfold Jqawk.getVariable
  refine bind getSt (fun s => ?_)
  split
  · exact pure _
  · split
    · exact pure _
    · exact bind (newCell _) (fun c => bind (setLocal _ _) (fun _ => pure _))

theorem copyValue (a b : CellId) : Safe (Jqawk.copyValue a b) := by
  unfold Jqawk.copyValue
  refine bind (readCell _) (fun v => ?_)
  split
  · exact bind (writeCell _ _) (fun _ => pure _)
  · exact pure _

theorem bindAll (l : List (Bytes × CellId)) : Safe (Jqawk.bindAll l) := by
  induction l with
  | nil => exact pure ()
  | cons kv rest ih =>
    obtain ⟨k, c⟩ := kv
    exact bind (setLocal k c) (fun _ => ih)

theorem bindParams (ps : List Bytes) (as : List Val) : Safe (Jqawk.bindParams ps as) := by
  induction ps generalizing as with
  | nil => exact pure ()
  | cons p ps ih =>
    cases as with
    | nil => exact bind (newCell _) (fun c => bind (setLocal _ _) (fun _ => ih []))
    | cons a as => exact bind (newCell _) (fun c => bind (setLocal _ _) (fun _ => ih as))

theorem allocCells (vs : List Val) : Safe (Jqawk.allocCells vs) := by
  induction vs with
  | nil => exact pure []
  | cons v vs ih => exact bind (newCell v) (fun c => bind ih (fun cs => pure _))

theorem newArrayOf (vs : List Val) : Safe (Jqawk.newArrayOf vs) := by
  unfold Jqawk.newArrayOf
  exact bind (allocCells vs) (fun cells => bind getHeap (fun h => bind (setHeap _) (fun _ => pure _)))

end Safe

/-- one decomposition step for goals `Safe (…)` built from the primitives -/
macro "safe_step" : tactic => `(tactic| with_reducible_and_instances first
  | exact Safe.pure _
  | exact Safe.oof
  | exact Safe.getSt
  | exact Safe.getHeap
  | exact Safe.readCell _
  | exact Safe.throwSig _
  | exact Safe.throwPanic _
  | exact Safe.throwUnmodelled _
  | exact Safe.throwRt _ _
  | exact Safe.liftExcept _ _
  | exact Safe.newCell _
  | exact Safe.writeCell _ _
  | exact Safe.setHeap _
  | exact Safe.emit _
  | exact Safe.allocArrM _
  | exact Safe.allocObjM _
  | exact Safe.setReturnVal _
  | exact Safe.setLocal _ _
  | exact Safe.getVariable _
  | exact Safe.copyValue _ _
  | exact Safe.bindAll _
  | exact Safe.bindParams _ _
  | exact Safe.allocCells _
  | exact Safe.newArrayOf _
  | assumption
  | apply Safe.bind
  | intro _
  | split
  | dsimp only)

macro "safe_auto" : tactic => `(tactic| repeat' safe_step)

/-- `safe_auto` with one extra closing lemma (typically an induction hypothesis) -/
macro "safe_auto_with" t:term : tactic =>
  `(tactic| repeat' (first
      | safe_step
      | (with_reducible_and_instances first
          | exact $t | exact $t _ | exact $t _ _ | exact $t _ _ _ | exact $t _ _ _ _
          | exact $t _ _ _ _ _)))

theorem Safe.callNative (f : Native) (args : List Val) (this : Option Val) :
    Safe (Jqawk.callNative f args this) := by
  unfold Jqawk.callNative
  apply Safe.bind Safe.getHeap
  intro h
  cases f <;> dsimp only <;> safe_auto

theorem Safe.createSpeculative (n : Nat) (c : CellId) : Safe (Jqawk.createSpeculative n c) := by
  induction n generalizing c with
  | zero => exact Safe.oof
  | succ n ih =>
    unfold Jqawk.createSpeculative
    safe_auto_with ih

theorem Safe.memberStep (pos : Nat) (l r : CellId) : Safe (Jqawk.memberStep pos l r) := by
  unfold Jqawk.memberStep
  safe_auto

theorem Safe.evalAssignment (pos : Nat) (l r : CellId) : Safe (Jqawk.evalAssignment pos l r) := by
  unfold Jqawk.evalAssignment
  safe_auto_with Safe.createSpeculative

/-! ### the control combinators -/

theorem Safe.loopIter {body k : EM Unit} (hb : Safe body) (hk : Safe k) :
    Safe (Jqawk.loopIter body k) := by
  intro s
  unfold Jqawk.loopIter
  have h := hb s
  cases hr : body s with
  | ok a s1 => rw [hr] at h; exact Q.trans h.1 h.2 (hk s1)
  | err e s1 =>
    rw [hr] at h
    cases e with
    | sig g =>
      cases g with
      | brk => exact ⟨h.1, h.2⟩
      | cont => exact Q.trans h.1 h.2 (hk s1)
      | ret => exact h
      | next => exact h
      | exit => exact h
    | runtime p m => exact h
    | panic m => exact h
    | unmodelled m => exact h
  | oof => trivial

theorem Safe.catchReturn {body : EM Unit} (hb : Safe body) : Safe (Jqawk.catchReturn body) := by
  intro s
  unfold Jqawk.catchReturn
  have h := hb s
  cases hr : body s with
  | ok a s1 => rw [hr] at h; exact h
  | err e s1 =>
    rw [hr] at h
    cases e with
    | sig g => cases g <;> exact h
    | runtime p m => exact h
    | panic m => exact h
    | unmodelled m => exact h
  | oof => trivial

theorem Safe.catchSig {α : Type} {m : EM α} (g : Sig) (d : α) (hm : Safe m) :
    Safe (Jqawk.catchSig g d m) := by
  intro s
  unfold Jqawk.catchSig
  have h := hm s
  cases hr : m s with
  | ok a s1 => rw [hr] at h; exact h
  | err e s1 =>
    rw [hr] at h
    cases e with
    | sig g' =>
      dsimp only
      split
      · exact h
      · exact h
    | runtime p m => exact h
    | panic m => exact h
    | unmodelled m => exact h
  | oof => trivial

/-- a frame pushed for a call or a match body, the body run in it, the saved stack restored:
    the whole satisfies the invariant if the body does -/
theorem Safe.framed {α : Type} (name : Bytes) (pos : Nat) (body : EM α) (hb : Safe body) :
    Safe (do
      let saved := (← Jqawk.getSt).frames
      match (← Jqawk.pushFrame name) with
      | .error m => Jqawk.throwRt pos m
      | .ok () => Jqawk.withFrames saved body) := by
  intro s
  by_cases hd : s.frames.length > callDepthLimit
  · simp only [Bind.bind, EM.bind, Jqawk.getSt, Jqawk.pushFrame, hd, ↓reduceIte]
    exact Safe.throwRt pos _ s
  · simp only [Bind.bind, EM.bind, Jqawk.getSt, Jqawk.pushFrame, hd, ↓reduceIte, Jqawk.withFrames]
    have hd' : s.frames.length + 1 ≤ callDepthLimit + 1 := by omega
    have h := hb { s with frames := ⟨name, []⟩ :: s.frames,
                          maxDepth := max s.maxDepth (s.frames.length + 1) }
    have fix : ∀ s1 : St,
        Keeps { s with frames := ⟨name, []⟩ :: s.frames,
                       maxDepth := max s.maxDepth (s.frames.length + 1) } s1 →
        Keeps s { s1 with frames := s.frames } := by
      intro s1 hk
      obtain ⟨_, hroot, hrr, hout, hdep⟩ := hk
      refine ⟨FramesKeep.refl _, hroot, hrr, hout, ?_⟩
      simp only at hdep ⊢
      omega
    cases hr : body { s with frames := ⟨name, []⟩ :: s.frames,
                             maxDepth := max s.maxDepth (s.frames.length + 1) } with
    | ok a s1 =>
      rw [hr] at h
      exact ⟨fix s1 h.1, h.2⟩
    | err e s1 =>
      rw [hr] at h
      cases e with
      | runtime p m => exact ⟨fix s1 h.1, h.2.1, h.2.2⟩
      | sig g => exact ⟨fix s1 h.1, h.2⟩
      | panic m => exact fix s1 h
      | unmodelled m => exact fix s1 h
    | oof => trivial

/-! ### the mutual induction over the evaluator -/

structure AllSafe (prog : Program) (n : Nat) : Prop where
  expr : ∀ e, Safe (evalExpr prog n e)
  objItems : ∀ pos items acc, Safe (evalObjItems prog n pos items acc)
  exprList : ∀ es c, Safe (evalExprList prog n es c)
  matchCases : ∀ pos v cs, Safe (evalMatchCases prog n pos v cs)
  caseMatch : ∀ v ps, Safe (evalCaseMatch prog n v ps)
  arrayCaseMatch : ∀ v ps, Safe (evalArrayCaseMatch prog n v ps)
  matchElems : ∀ cs ps acc, Safe (Jqawk.matchElems prog n cs ps acc)
  call : ∀ pos f args, Safe (callFunction prog n pos f args)
  unary : ∀ e op p, Safe (evalUnary prog n e op p)
  binary : ∀ l r op, Safe (evalBinary prog n l r op)
  stmt : ∀ st, Safe (evalStmt prog n st)
  block : ∀ sts, Safe (evalBlock prog n sts)
  whileL : ∀ c b, Safe (whileLoop prog n c b)
  forL : ∀ c p b, Safe (forLoop prog n c p b)
  forInL : ∀ l il b items, Safe (forInLoop prog n l il b items)

theorem Safe.getIdentifier (prog : Program) (t : Token) : Safe (Jqawk.getIdentifier prog t) := by
  unfold Jqawk.getIdentifier
  safe_auto

/-- try every induction hypothesis -/
macro "safe_ih" ih:term : tactic => `(tactic| with_reducible_and_instances first
  | exact ($ih).expr _
  | exact ($ih).objItems _ _ _
  | exact ($ih).exprList _ _
  | exact ($ih).matchCases _ _ _
  | exact ($ih).caseMatch _ _
  | exact ($ih).arrayCaseMatch _ _
  | exact ($ih).matchElems _ _ _
  | exact ($ih).call _ _ _
  | exact ($ih).unary _ _ _
  | exact ($ih).binary _ _ _
  | exact ($ih).stmt _
  | exact ($ih).block _
  | exact ($ih).whileL _ _
  | exact ($ih).forL _ _ _
  | exact ($ih).forInL _ _ _ _)

macro "safe_ind" ih:term : tactic => `(tactic| repeat' (first
  | safe_ih $ih
  | (with_reducible_and_instances first
      | exact Safe.evalAssignment _ _ _
      | exact Safe.memberStep _ _ _
      | exact Safe.callNative _ _ _
      | exact Safe.getIdentifier _ _
      | apply Safe.loopIter
      | apply Safe.catchReturn
      | apply Safe.catchSig
      | apply Safe.framed)
  | safe_step))

theorem allSafe_zero (prog : Program) : AllSafe prog 0 := by
  constructor <;> intros <;>
    first
      | (unfold evalExpr; exact Safe.oof)
      | (unfold evalObjItems; exact Safe.oof)
      | (unfold evalExprList; exact Safe.oof)
      | (unfold evalMatchCases; exact Safe.oof)
      | (unfold evalCaseMatch; exact Safe.oof)
      | (unfold evalArrayCaseMatch; exact Safe.oof)
      | (unfold Jqawk.matchElems; exact Safe.oof)
      | (unfold callFunction; exact Safe.oof)
      | (unfold evalUnary; exact Safe.oof)
      | (unfold evalBinary; exact Safe.oof)
      | (unfold evalStmt; exact Safe.oof)
      | (unfold evalBlock; exact Safe.oof)
      | (unfold whileLoop; exact Safe.oof)
      | (unfold forLoop; exact Safe.oof)
      | (unfold forInLoop; exact Safe.oof)

theorem allSafe_succ (prog : Program) (n : Nat) (ih : AllSafe prog n) : AllSafe prog (n + 1) := by
  constructor
  · -- evalExpr
    intro e
    unfold evalExpr
    cases e <;> dsimp only <;> safe_ind ih
  · -- evalObjItems
    intro pos items acc
    cases items with
    | nil => unfold evalObjItems; exact Safe.pure _
    | cons kv rest => obtain ⟨k, e⟩ := kv; unfold evalObjItems; safe_ind ih
  · -- evalExprList
    intro es c
    cases es with
    | nil => unfold evalExprList; exact Safe.pure _
    | cons e rest => unfold evalExprList; safe_ind ih
  · -- evalMatchCases
    intro pos v cs
    cases cs with
    | nil => unfold evalMatchCases; exact Safe.newCell _
    | cons c rest => obtain ⟨pats, body⟩ := c; unfold evalMatchCases; safe_ind ih
  · -- evalCaseMatch
    intro v ps
    cases ps with
    | nil => unfold evalCaseMatch; exact Safe.pure _
    | cons p rest => unfold evalCaseMatch; safe_ind ih
  · -- evalArrayCaseMatch
    intro v ps
    unfold evalArrayCaseMatch
    safe_ind ih
  · -- matchElems
    intro cs ps acc
    cases cs with
    | nil => unfold Jqawk.matchElems; exact Safe.pure _
    | cons c cs =>
      cases ps with
      | nil => unfold Jqawk.matchElems; exact Safe.pure _
      | cons p ps => unfold Jqawk.matchElems; safe_ind ih
  · -- callFunction
    intro pos f args
    unfold callFunction
    safe_ind ih
  · -- evalUnary
    intro e op p
    unfold evalUnary
    safe_ind ih
  · -- evalBinary
    intro l r op
    unfold evalBinary
    safe_ind ih
  · -- evalStmt
    intro st
    unfold evalStmt
    cases st <;> dsimp only <;> safe_ind ih
  · -- evalBlock
    intro sts
    cases sts with
    | nil => unfold evalBlock; exact Safe.pure _
    | cons st rest => unfold evalBlock; safe_ind ih
  · -- whileLoop
    intro c b
    unfold whileLoop
    safe_ind ih
  · -- forLoop
    intro c p b
    unfold forLoop
    safe_ind ih
  · -- forInLoop
    intro l il b items
    cases items with
    | nil => unfold forInLoop; exact Safe.pure _
    | cons it rest => obtain ⟨iv, item⟩ := it; unfold forInLoop; safe_ind ih

/-- **The master invariant**: every evaluator function, at every fuel, from every state. -/
theorem allSafe (prog : Program) : ∀ n, AllSafe prog n
  | 0 => allSafe_zero prog
  | n + 1 => allSafe_succ prog n (allSafe prog n)

end Jqawk
