/-
  The heap invariant `Inv` (C15) through the rule driver and the whole run: the conversion of a
  decoded JSON value, the rule loops, the selectors, the input loop, `runProgram`/`evalProgram`.
  Mirrors `DriverInvariant.lean` with `Good` in place of `SafeD`.
-/
import Jqawk.Lemmas.HeapInvIface
import Jqawk.Lemmas.DriverInvariant

set_option linter.unusedVariables false
set_option linter.unusedSimpArgs false

namespace Jqawk.HeapInv
open Jqawk Jqawk.IndexWrite

/-! ### sequencing at the level of `Post` -/

/-- run `m` from `s1` (which is `Trans`-related to an earlier heap `h0`), then `f` -/
theorem Post.bindD {α β : Type} {m : EM α} {f : α → EM β} {s1 : St} {h0 : Heap}
    {R1 : α → Heap → Prop} {R : β → Heap → Prop}
    (hm : Post R1 s1.heap (m s1)) (t : Trans h0 s1.heap)
    (hf : ∀ a s2, Inv s2.heap → Trans s1.heap s2.heap → R1 a s2.heap → Post R h0 (f a s2)) :
    Post R h0 ((m >>= f) s1) := by
  show Post _ _ (EM.bind m f s1)
  unfold EM.bind
  cases hr : m s1 with
  | ok a s2 => rw [hr] at hm; exact hf a s2 hm.1 hm.2.1 hm.2.2
  | err e s2 =>
    rw [hr] at hm
    cases e with
    | sig g => exact ⟨hm.1, t.trans hm.2⟩
    | runtime p m => exact hm
    | panic m => exact hm
    | unmodelled w => exact hm
  | oof => trivial

/-! ### `newValueJson`: the cells of a decoded JSON value -/

/-- what `newValueItems` returns: distinct new cells, plain, nobody's elements -/
def ItemsR (h : Heap) (cs : List CellId) (h' : Heap) : Prop :=
  cs.Nodup ∧ ∀ c ∈ cs, h.cells.size ≤ c ∧ c < h'.cells.size ∧ Plain (h'.get c) ∧ NotElem h' c

/-- what `newValueMembers` returns: existing plain cells -/
def MembersR (h : Heap) (ms : List (Bytes × CellId)) (h' : Heap) : Prop :=
  ∀ kc ∈ ms, kc.2 < h'.cells.size ∧ Plain (h'.get kc.2)

theorem mem_foldl_objInsert (ms : List (Bytes × CellId)) :
    ∀ (acc : List (Bytes × CellId)) (kc : Bytes × CellId),
      kc ∈ ms.foldl (fun m kc => objInsert m kc.1 kc.2) acc → kc ∈ acc ∨ ∃ x ∈ ms, kc.2 = x.2 := by
  induction ms with
  | nil => intro acc kc h; exact Or.inl h
  | cons x rest ih =>
    intro acc kc h
    simp only [List.foldl_cons] at h
    rcases ih _ kc h with h | ⟨y, hy, e⟩
    · rcases mem_objInsert h with h | h
      · exact Or.inl h
      · exact Or.inr ⟨x, List.mem_cons_self, h⟩
    · exact Or.inr ⟨y, List.mem_cons_of_mem _ hy, e⟩

/-- the cell just allocated is nobody's element -/
theorem notElem_alloc_new {h : Heap} (wf : h.WF) (v : Val) : NotElem (h.alloc v).2 h.cells.size := by
  intro b hb
  have : h.cells.size < h.cells.size := wf.arrs b _ hb
  exact Nat.lt_irrefl _ this

theorem post_newCell {β : Type} {s1 : St} {h0 : Heap} {R : β → Heap → Prop} (v : Val)
    (f : CellId → EM β)
    (hf : Post R h0 (f s1.heap.cells.size { s1 with heap := (s1.heap.alloc v).2 })) :
    Post R h0 ((Jqawk.newCell v >>= f) s1) := hf

mutual
theorem ht_newValueJson : ∀ j, HT (fun _ => True) (Jqawk.newValueJson j) (fun _ v _ => Plain v)
  | .null => by
    unfold Jqawk.newValueJson
    exact fun s i _ => ⟨i, Trans.refl _, plain_nilNone⟩
  | .bool b => by
    unfold Jqawk.newValueJson
    exact fun s i _ => ⟨i, Trans.refl _, plain_bool b⟩
  | .num lit => by
    unfold Jqawk.newValueJson
    exact fun s i _ => ⟨i, Trans.refl _, plain_num _⟩
  | .str x => by
    unfold Jqawk.newValueJson
    exact fun s i _ => ⟨i, Trans.refl _, plain_strNone x⟩
  | .arr items => by
    unfold Jqawk.newValueJson
    refine HT.bind (ht_newValueItems items) (fun s cells s1 i _ i1 t r => ?_)
    exact ⟨inv_allocArr i1 cells r.1 (fun c hc => ⟨(r.2 c hc).2.1, (r.2 c hc).2.2.1, (r.2 c hc).2.2.2⟩),
      trans_allocArr t cells (fun c hc => (r.2 c hc).1), plain_arr _⟩
  | .obj members => by
    unfold Jqawk.newValueJson
    refine HT.bind (ht_newValueMembers members) (fun s cells s1 i _ i1 t r => ?_)
    refine ⟨inv_allocObj i1 _ (fun kc hkc => ?_), t.trans (trans_allocObj _ _), plain_obj _⟩
    rcases mem_foldl_objInsert cells [] kc hkc with h | ⟨x, hx, e⟩
    · cases h
    · rw [e]; exact r x hx
theorem ht_newValueItems : ∀ js, HT (fun _ => True) (Jqawk.newValueItems js) ItemsR
  | [] => by
    unfold Jqawk.newValueItems
    exact fun s i _ => ⟨i, Trans.refl _, List.nodup_nil, fun _ h => by cases h⟩
  | j :: js => by
    unfold Jqawk.newValueItems
    refine HT.bind (ht_newValueJson j) (fun s v s1 i _ i1 t pv => ?_)
    apply post_newCell
    have i2 : Inv (s1.heap.alloc v).2 := inv_alloc i1 v
    have t2 : Trans s.heap (s1.heap.alloc v).2 := t.trans (trans_alloc _ v)
    refine Post.bindD (s1 := { s1 with heap := (s1.heap.alloc v).2 })
      (ht_newValueItems js { s1 with heap := (s1.heap.alloc v).2 } i2 trivial) t2
      (fun cs s3 i3 t3 r => ?_)
    have hsz2 : (s1.heap.alloc v).2.cells.size = s1.heap.cells.size + 1 := size_alloc _ _
    have hlt : s1.heap.cells.size < (s1.heap.alloc v).2.cells.size := by rw [hsz2]; exact Nat.lt_succ_self _
    refine ⟨i3, t2.trans t3, ?_, ?_⟩
    · refine List.nodup_cons.mpr ⟨fun hmem => ?_, r.1⟩
      have := (r.2 _ hmem).1
      exact Nat.lt_irrefl _ (Nat.lt_of_lt_of_le hlt this)
    · intro c hc
      rcases List.mem_cons.mp hc with e | hc
      · subst e
        refine ⟨t.size, Nat.lt_of_lt_of_le hlt t3.size, ?_, ?_⟩
        · apply t3.plain _ hlt
          show Plain ((s1.heap.alloc v).2.get s1.heap.cells.size)
          rw [get_alloc_new]; exact pv
        · exact t3.notElem hlt (notElem_alloc_new i1.wf v)
      · have h := r.2 c hc
        exact ⟨Nat.le_trans t2.size h.1, h.2⟩
theorem ht_newValueMembers : ∀ ms, HT (fun _ => True) (Jqawk.newValueMembers ms) MembersR
  | [] => by
    unfold Jqawk.newValueMembers
    exact fun s i _ => ⟨i, Trans.refl _, fun _ h => by cases h⟩
  | (k, j) :: ms => by
    unfold Jqawk.newValueMembers
    refine HT.bind (ht_newValueJson j) (fun s v s1 i _ i1 t pv => ?_)
    apply post_newCell
    have i2 : Inv (s1.heap.alloc v).2 := inv_alloc i1 v
    have t2 : Trans s.heap (s1.heap.alloc v).2 := t.trans (trans_alloc _ v)
    refine Post.bindD (s1 := { s1 with heap := (s1.heap.alloc v).2 })
      (ht_newValueMembers ms { s1 with heap := (s1.heap.alloc v).2 } i2 trivial) t2
      (fun cs s3 i3 t3 r => ?_)
    have hsz2 : (s1.heap.alloc v).2.cells.size = s1.heap.cells.size + 1 := size_alloc _ _
    have hlt : s1.heap.cells.size < (s1.heap.alloc v).2.cells.size := by rw [hsz2]; exact Nat.lt_succ_self _
    refine ⟨i3, t2.trans t3, ?_⟩
    intro kc hkc
    rcases List.mem_cons.mp hkc with e | hkc
    · subst e
      refine ⟨Nat.lt_of_lt_of_le hlt t3.size, ?_⟩
      apply t3.plain _ hlt
      show Plain ((s1.heap.alloc v).2.get s1.heap.cells.size)
      rw [get_alloc_new]; exact pv
    · exact r kc hkc
end

theorem Good.newValueJson (j : JVal) : Good (Jqawk.newValueJson j) := Good.of_HT (ht_newValueJson j)
theorem Good.newValueItems (js : List JVal) : Good (Jqawk.newValueItems js) :=
  Good.of_HT (ht_newValueItems js)
theorem Good.newValueMembers (ms : List (Bytes × JVal)) : Good (Jqawk.newValueMembers ms) :=
  Good.of_HT (ht_newValueMembers ms)

/-! ### the catching combinators -/

theorem Good.modifyNoHeap (f : St → St) (hf : ∀ s, (f s).heap = s.heap) : Good (Jqawk.modifySt f) :=
  Good.of_heap_eq _ (fun s => hf s)

theorem Good.setGlobal (name : Bytes) (c : CellId) : Good (Jqawk.setGlobal name c) :=
  Good.of_heap_eq _ (fun _ => rfl)

theorem Good.ruleFlow {m : EM Unit} (hm : Good m) : Good (Jqawk.ruleFlow m) := by
  intro s i _
  unfold Jqawk.ruleFlow
  have h := hm s i trivial
  cases hr : m s with
  | ok a s1 => rw [hr] at h; exact h
  | err e s1 =>
    rw [hr] at h
    cases e with
    | sig g => cases g <;> first | exact ⟨h.1, h.2, trivial⟩ | exact h
    | runtime p m => exact h
    | panic m => exact h
    | unmodelled m => exact h
  | oof => trivial

theorem Good.catchExit {m : EM Unit} (hm : Good m) : Good (Jqawk.catchExit m) := by
  intro s i _
  unfold Jqawk.catchExit
  have h := hm s i trivial
  cases hr : m s with
  | ok a s1 => rw [hr] at h; exact h
  | err e s1 =>
    rw [hr] at h
    cases e with
    | sig g => cases g <;> first | exact ⟨h.1, h.2, trivial⟩ | exact h
    | runtime p m => exact h
    | panic m => exact h
    | unmodelled m => exact h
  | oof => trivial

/-! ### the rule loops -/

section
variable (prog : Program)

theorem Good.evalRules (rules : List Rule) : Good (Jqawk.evalRules prog rules) := by
  induction rules with
  | nil => exact Good.pure ()
  | cons rule rest ih =>
    unfold Jqawk.evalRules
    have hstmt : Good (evalStmt prog evalFuel rule.body) := good_stmt prog evalFuel _
    refine Good.bind ?_ (fun r => ?_)
    · split
      · exact Good.pure _
      · refine Good.catchSig _ _ (Good.bind (good_expr prog evalFuel _)
          (fun c => Good.bind (Good.readCell _) (fun v => Good.pure _)))
    · split
      · exact Good.pure _
      · split
        · exact ih
        · refine Good.bind (Good.catchSig _ _ (Good.bind hstmt (fun _ => Good.pure _))) (fun more => ?_)
          split
          · exact ih
          · exact Good.pure _

theorem Good.evalElems (rules : List Rule) (items : List CellId) (i : Nat) :
    Good (Jqawk.evalElems prog rules items i) := by
  induction items generalizing i with
  | nil => exact Good.pure ()
  | cons item rest ih =>
    unfold Jqawk.evalElems
    exact Good.bind (Good.modifyNoHeap _ (fun _ => rfl)) (fun _ =>
      Good.bind (Good.newCell _) (fun ic =>
        Good.bind (Good.setLocal _ _) (fun _ =>
          Good.bind (Good.evalRules prog rules) (fun _ => ih (i + 1)))))

theorem Good.evalPatternRules (rules : List Rule) : Good (Jqawk.evalPatternRules prog rules) := by
  unfold Jqawk.evalPatternRules
  refine Good.bind Good.getSt (fun s => ?_)
  split
  · exact Good.pure _
  · split
    · exact Good.evalElems prog rules _ _
    · exact Good.bind (Good.modifyNoHeap _ (fun _ => rfl)) (fun _ => Good.evalRules prog rules)

theorem Good.evalSpecialRules (mkRoot : EM CellId) (hmk : Good mkRoot) (rules : List Rule) :
    Good (Jqawk.evalSpecialRules prog mkRoot rules) := by
  induction rules with
  | nil => exact Good.pure _
  | cons rule rest ih =>
    unfold Jqawk.evalSpecialRules
    refine Good.bind hmk (fun c => Good.bind (Good.modifyNoHeap _ (fun _ => rfl)) (fun _ =>
      Good.bind (Good.ruleFlow (good_stmt prog evalFuel _)) (fun fl => ?_)))
    split
    · exact Good.pure _
    · exact ih

theorem Good.processRoot (c : CellId) : Good (Jqawk.processRoot prog c) := by
  unfold Jqawk.processRoot
  refine Good.bind (Good.readCell _) (fun rv =>
    Good.bind (Good.evalSpecialRules prog _ (Good.pure _) _) (fun fl => ?_))
  split
  · exact Good.pure _
  · refine Good.bind (Good.modifyNoHeap _ (fun _ => rfl)) (fun _ =>
      Good.bind (Good.catchExit (Good.evalPatternRules prog _)) (fun fl2 => ?_))
    split
    · exact Good.pure _
    · exact Good.evalSpecialRules prog _ (Good.newCell _) _

theorem Good.processRoots (cs : List CellId) : Good (Jqawk.processRoots prog cs) := by
  induction cs with
  | nil => exact Good.pure _
  | cons c rest ih =>
    unfold Jqawk.processRoots
    refine Good.bind (Good.processRoot prog c) (fun fl => ?_)
    split
    · exact Good.pure _
    · exact ih

end

theorem Good.selectorRun (rootValue : JVal) (expr : Expr) : Good (Jqawk.selectorRun rootValue expr) := by
  unfold Jqawk.selectorRun
  refine Good.bind (Good.newValueJson _) (fun v => Good.bind (Good.newCell _) (fun rc =>
    Good.bind (Good.modifyNoHeap _ (fun _ => rfl)) (fun _ => Good.bind
      (good_expr Program.empty evalFuel _)
      (fun cell => Good.bind (Good.newCell _) (fun root =>
        Good.bind (good_copyValue _ _) (fun r => ?_))))))
  split
  · exact Good.throwRt _ _
  · exact Good.pure _

/-! ### the start state -/

/-- `Inv` and `Trans` from a fixed earlier heap, as one property of heaps -/
def Step (h0 h : Heap) : Prop := Inv h ∧ Trans h0 h

theorem Step.alloc {h0 h : Heap} (st : Step h0 h) (v : Val) : Step h0 (h.alloc v).2 :=
  ⟨inv_alloc st.1 v, st.2.trans (trans_alloc h v)⟩

theorem foldl_step {σ β : Type} (proj : σ → Heap) (F : σ → β → σ) (h0 : Heap)
    (hF : ∀ st x, Step h0 (proj st) → Step h0 (proj (F st x))) :
    ∀ (l : List β) (st : σ), Step h0 (proj st) → Step h0 (proj (l.foldl F st)) := by
  intro l
  induction l with
  | nil => intro st h; exact h
  | cons x rest ih => intro st h; exact ih _ (hF st x h)

theorem initFrames_step (prog : Program) (h : Heap) (i : Inv h) : Step h (initFrames prog h).2 := by
  unfold initFrames
  dsimp only
  refine foldl_step (fun st : List (Bytes × CellId) × Heap => st.2) _ h ?_ _ _ ?_
  · intro st x hst
    obtain ⟨f, idx⟩ := x
    exact Step.alloc hst _
  · have h0 : Step h h := ⟨i, Trans.refl h⟩
    exact Step.alloc (Step.alloc (Step.alloc h0 _) _) _

theorem newEvaluator_step (prog : Program) (h : Heap) (out : List Bytes) (faults : Nat) (i : Inv h) :
    Inv (newEvaluator prog h out faults).heap ∧ Trans h (newEvaluator prog h out faults).heap :=
  initFrames_step prog h i

theorem newEvaluator_inv (prog : Program) (h : Heap) (out : List Bytes) (faults : Nat) (i : Inv h) :
    Inv (newEvaluator prog h out faults).heap := (newEvaluator_step prog h out faults i).1

theorem newEvaluator_empty_inv (prog : Program) : Inv (newEvaluator prog Heap.empty [] 0).heap :=
  newEvaluator_inv prog _ _ _ inv_empty

/-! ### selectors, the input loop, the whole run (only `Inv` is kept at this level) -/

/-- the `Inv` part of `Post` (the weak invariant after an error) -/
def PostI {α : Type} : Res α → Prop
  | .ok _ s' => Inv s'.heap
  | .err (.sig _) s' => Inv s'.heap
  | .err _ s' => Weak s'.heap
  | .oof => True

theorem Good.postI {α : Type} {m : EM α} (hm : Good m) (s : St) (i : Inv s.heap) : PostI (m s) := by
  have h := hm s i trivial
  cases hr : m s with
  | ok a s' => rw [hr] at h; exact h.1
  | err e s' =>
    rw [hr] at h
    cases e with
    | sig g => exact h.1
    | runtime p m => exact h
    | panic m => exact h
    | unmodelled w => exact h
  | oof => trivial

/-- the invariant holds in the state reported with a successful outcome, a surfaced signal, a JSON
    error, a syntax error or out of fuel (the last three are reported with an earlier good state);
    the weak invariant holds in the state reported with a runtime error, a panic or an unmodelled
    construct -/
def InvOut (o : Outcome) (s : St) : Prop :=
  match o with
  | .ok | .sentinel _ | .jsonErr _ | .syntaxErr _ _ | .oof => Inv s.heap
  | .runtimeErr _ _ _ | .panic _ | .unmodelled _ => Weak s.heap

theorem InvOut.weak {o : Outcome} {s : St} (h : InvOut o s) : Weak s.heap := by
  cases o <;> first | exact Inv.weak h | exact h

theorem invOut_errOutcome (src : Bytes) {s' : St} {e : Err} {α : Type}
    (h : PostI (.err e s' : Res α)) : InvOut (errOutcome src e) s' := by
  cases e with
  | runtime p m => exact h
  | sig g => exact h
  | panic m => exact h
  | unmodelled w => exact h

def InvStep : StepRes → Prop
  | .done s' => Inv s'.heap
  | .finished o s' => InvOut o s'

def InvRoots : Roots → Prop
  | .cells _ s' => Inv s'.heap
  | .exit s' => Inv s'.heap
  | .stop o s' => InvOut o s'

theorem evalSelector_inv (tbl : RuleTable) (sel : Bytes) (rootValue : JVal) (s : St) (i : Inv s.heap) :
    (∀ o s', evalSelector tbl sel rootValue s = .inl (o, s') → InvOut o s') ∧
    (∀ x s', evalSelector tbl sel rootValue s = .inr (x, s') → Inv s'.heap) := by
  unfold evalSelector
  split
  · constructor
    · intro o s' h; simp only [Sum.inl.injEq, Prod.mk.injEq] at h; obtain ⟨rfl, rfl⟩ := h
      exact i
    · intro x s' h; cases h
  · constructor
    · intro o s' h; simp only [Sum.inl.injEq, Prod.mk.injEq] at h; obtain ⟨rfl, rfl⟩ := h
      exact i
    · intro x s' h; cases h
  · rename_i expr hp
    dsimp only
    have h0 := (Good.selectorRun rootValue expr).postI (newEvaluator Program.empty s.heap s.out s.faults)
      (newEvaluator_inv Program.empty s.heap s.out s.faults i)
    split
    all_goals (rename_i hr; rw [hr] at h0)
    all_goals constructor
    all_goals intro a s' h
    all_goals (first
      | (cases h; done)
      | (simp only [Sum.inl.injEq, Sum.inr.injEq, Prod.mk.injEq] at h
         obtain ⟨rfl, rfl⟩ := h
         first
           | exact h0
           | exact i))

theorem evalSelectors_inv (tbl : RuleTable) (rootValue : JVal) (sels : List Bytes) (acc : List CellId)
    (s : St) (i : Inv s.heap) : InvRoots (evalSelectors tbl rootValue sels acc s) := by
  induction sels generalizing acc s with
  | nil => exact i
  | cons sel rest ih =>
    unfold evalSelectors
    have hg := evalSelector_inv tbl sel rootValue s i
    cases he : evalSelector tbl sel rootValue s with
    | inl p =>
      obtain ⟨o, s1⟩ := p
      exact hg.1 o s1 he
    | inr p =>
      obtain ⟨x, s1⟩ := p
      have h1 := hg.2 x s1 he
      cases x with
      | ok c => exact ih (c :: acc) s1 h1
      | error g =>
        cases g with
        | exit => exact h1
        | cont => exact ih acc s1 h1
        | brk => exact ih acc s1 h1
        | ret => exact ih acc s1 h1
        | next => exact ih acc s1 h1

section
variable (prog : Program)

theorem processFile_inv (src : Bytes) (tbl : RuleTable) (sels : List Bytes) (file : InputFile) :
    ∀ (fuel : Nat) (data : Bytes) (s : St), Inv s.heap →
      InvStep (processFile prog src tbl sels file fuel data s) := by
  intro fuel
  induction fuel with
  | zero => intro data s i; exact i
  | succ fuel ih =>
    intro data s i
    unfold processFile
    cases hd : Json.decodeOne numOk data file.tail with
    | eof => exact i
    | error => exact i
    | needMore => exact i
    | value v rest =>
      dsimp only
      have hset : Good (do
          let c ← newCell (.str file.name none)
          setGlobal b!"$file" c : EM Unit) :=
        Good.bind (Good.newCell _) (fun c => Good.setGlobal _ c)
      have hs := hset.postI s i
      cases hsf : (do
          let c ← newCell (.str file.name none)
          setGlobal b!"$file" c : EM Unit) s with
      | err e s1 => rw [hsf] at hs; exact invOut_errOutcome src hs
      | oof => exact i
      | ok u s1 =>
        rw [hsf] at hs
        have i1 : Inv s1.heap := hs
        dsimp only
        have hroots : InvRoots (if sels.isEmpty then
            match (do let val ← newValueJson v; newCell val : EM CellId) s1 with
            | .ok c s2 => Roots.cells [c] s2
            | .err e s2 => Roots.stop (errOutcome src e) s2
            | .oof => Roots.stop Outcome.oof s1
          else evalSelectors tbl v sels [] s1) := by
          split
          · have hnv : Good (do let val ← newValueJson v; newCell val : EM CellId) :=
              Good.bind (Good.newValueJson v) (fun val => Good.newCell val)
            have h := hnv.postI s1 i1
            cases hr : (do let val ← newValueJson v; newCell val : EM CellId) s1 with
            | ok c s2 => rw [hr] at h; exact h
            | err e s2 => rw [hr] at h; exact invOut_errOutcome src h
            | oof => exact i1
          · exact evalSelectors_inv tbl v sels [] s1 i1
        revert hroots
        generalize (if sels.isEmpty then
            match (do let val ← newValueJson v; newCell val : EM CellId) s1 with
            | .ok c s2 => Roots.cells [c] s2
            | .err e s2 => Roots.stop (errOutcome src e) s2
            | .oof => Roots.stop Outcome.oof s1
          else evalSelectors tbl v sels [] s1) = roots
        intro hroots
        cases roots with
        | stop o s2 => exact hroots
        | exit s2 => exact hroots
        | cells cs s2 =>
          dsimp only
          have i2 : Inv s2.heap := hroots
          have hp := (Good.processRoots prog cs).postI s2 i2
          cases hpr : processRoots prog cs s2 with
          | ok fl s3 =>
            rw [hpr] at hp
            cases fl with
            | exit => exact hp
            | continue_ => exact ih rest s3 hp
          | err e s3 => rw [hpr] at hp; exact invOut_errOutcome src hp
          | oof => exact i2

theorem processFiles_inv (src : Bytes) (tbl : RuleTable) (sels : List Bytes) :
    ∀ (files : List InputFile) (s : St), Inv s.heap → InvStep (processFiles prog src tbl sels files s) := by
  intro files
  induction files with
  | nil => intro s i; exact i
  | cons f rest ih =>
    intro s i
    unfold processFiles
    have h := processFile_inv prog src tbl sels f (f.data.length + 2) f.data s i
    cases hpf : processFile prog src tbl sels f (f.data.length + 2) f.data s with
    | done s1 => rw [hpf] at h; exact ih s1 h
    | finished o s1 => rw [hpf] at h; exact h

/-- what a whole run guarantees about the heap of the final state -/
def InvRun (r : RunResult) : Prop := ∀ st, r.st = some st → InvOut r.outcome st

theorem invRun_finish {s' : St} {o : Outcome} (h : InvOut o s') : InvRun (finishRun o s') := by
  intro st hst
  simp only [finishRun, Option.some.injEq] at hst
  subst hst; exact h

theorem invRun_oof : InvRun ⟨.oof, [], none⟩ := by
  intro st hst; cases hst

theorem runEnd_inv (src : Bytes) (s2 : St) (i : Inv s2.heap) : InvRun (runEnd prog src s2) := by
  unfold runEnd
  have he := (Good.evalSpecialRules prog (newCell (.nil none)) (Good.newCell _)
    (rulesOf prog .end_)).postI s2 i
  cases her : evalSpecialRules prog (newCell (.nil none)) (rulesOf prog .end_) s2 with
  | err e s3 => rw [her] at he; exact invRun_finish (invOut_errOutcome src he)
  | oof => exact invRun_oof
  | ok fl s3 => rw [her] at he; exact invRun_finish he

theorem runFiles_inv (src : Bytes) (tbl : RuleTable) (sels : List Bytes) (files : List InputFile)
    (s1 : St) (i : Inv s1.heap) : InvRun (runFiles prog src tbl sels files s1) := by
  unfold runFiles
  have hf := processFiles_inv prog src tbl sels files s1 i
  cases hpf : processFiles prog src tbl sels files s1 with
  | finished o s2 => rw [hpf] at hf; exact invRun_finish hf
  | done s2 => rw [hpf] at hf; exact runEnd_inv prog src s2 hf

theorem runProgram_invRun (src : Bytes) (tbl : RuleTable) (sels : List Bytes) (files : List InputFile) :
    InvRun (runProgram prog src tbl sels files) := by
  unfold runProgram
  have hb := (Good.evalSpecialRules prog (newCell (.nil none)) (Good.newCell _)
    (rulesOf prog .begin_)).postI (newEvaluator prog Heap.empty [] 0) (newEvaluator_empty_inv prog)
  cases hbr : evalSpecialRules prog (newCell (.nil none)) (rulesOf prog .begin_)
      (newEvaluator prog Heap.empty [] 0) with
  | err e s1 => rw [hbr] at hb; exact invRun_finish (invOut_errOutcome src hb)
  | oof => exact invRun_oof
  | ok fl s1 =>
    rw [hbr] at hb
    cases fl with
    | exit => exact invRun_finish hb
    | continue_ => exact runFiles_inv prog src tbl sels files s1 hb

/-- a run that ends successfully ends in a state whose heap satisfies the invariant -/
theorem runProgram_inv (src : Bytes) (tbl : RuleTable) (sels : List Bytes) (files : List InputFile)
    (st : St) :
    (runProgram prog src tbl sels files).st = some st →
    (runProgram prog src tbl sels files).outcome = .ok → Inv st.heap := by
  intro hst ho
  have h := runProgram_invRun prog src tbl sels files st hst
  rw [ho] at h
  exact h

end

theorem evalProgram_invRun (tbl : RuleTable) (src : Bytes) (sels : List Bytes) (files : List InputFile) :
    InvRun (evalProgram tbl src sels files) := by
  unfold evalProgram
  split
  · intro st hst; cases hst
  · intro st hst; cases hst
  · exact runProgram_invRun _ src tbl sels files

/-- `EvalProgram`: a successful run ends in a state whose heap satisfies the invariant -/
theorem evalProgram_inv (tbl : RuleTable) (src : Bytes) (sels : List Bytes) (files : List InputFile)
    (st : St) :
    (evalProgram tbl src sels files).st = some st →
    (evalProgram tbl src sels files).outcome = .ok → Inv st.heap := by
  intro hst ho
  have h := evalProgram_invRun tbl src sels files st hst
  rw [ho] at h
  exact h

/-- `EvalProgram`: whatever the outcome (also a runtime error, a panic, an unmodelled construct), the
    state a run reports satisfies the weak invariant: the heap is well-formed and no cell is an
    element of two arrays or twice of one -/
theorem evalProgram_weak (tbl : RuleTable) (src : Bytes) (sels : List Bytes) (files : List InputFile)
    (st : St) :
    (evalProgram tbl src sels files).st = some st → Weak st.heap :=
  fun hst => (evalProgram_invRun tbl src sels files st hst).weak

end Jqawk.HeapInv
