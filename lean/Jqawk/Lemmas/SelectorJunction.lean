/-
  `-r E` versus `BEGINFILE { $ = E }` (C14), part 9: the rule, its evaluation, and the expression
  evaluated by the nested evaluator of the selector and by the main evaluator.
-/
import Jqawk.Lemmas.SelectorDriver
import Jqawk.Lemmas.SelectorPath

set_option linter.unusedVariables false
set_option linter.unusedSimpArgs false

namespace Jqawk
namespace Sel

/-- the tokens of the rule `BEGINFILE { $ = E }` other than those of `E` -/
structure SelTok where
  bt : Token
  dtok : Token
  eqtok : Token
  hd : dtok.tag = .dollar
  he : eqtok.tag = .equal

def ruleBody (T : SelTok) (E : Expr) : Stmt := .block T.bt [.expr (.binary (.ident T.dtok) E T.eqtok)]
def selRule (T : SelTok) (E : Expr) : Rule := ⟨.beginFile, none, ruleBody T E⟩
/-- the program with the extra leading rule `BEGINFILE { $ = E }` -/
def withSel (prog : Program) (T : SelTok) (E : Expr) : Program :=
  { rules := selRule T E :: prog.rules, functions := prog.functions }

theorem rulesOf_withSel_bf (prog : Program) (T : SelTok) (E : Expr) :
    rulesOf (withSel prog T E) .beginFile = selRule T E :: rulesOf prog .beginFile := by
  simp [rulesOf, withSel, selRule, List.filter_cons]

theorem rulesOf_withSel_other (prog : Program) (T : SelTok) (E : Expr) (k : RuleKind) (hk : k ≠ .beginFile) :
    rulesOf (withSel prog T E) k = rulesOf prog k := by
  have : (RuleKind.beginFile == k) = false := by
    cases k <;> first | rfl | exact absurd rfl hk
  simp [rulesOf, withSel, selRule, List.filter_cons, this]

/-- what the rule body does: `$`, then `E`, then the assignment -/
theorem ruleBody_eval (prog : Program) (k : Nat) (T : SelTok) (E : Expr) :
    evalStmt prog (k + 6) (ruleBody T E) = (do
      let left ← getIdentifier prog T.dtok
      let right ← evalExpr prog (k + 1) E
      let _ ← evalAssignment T.dtok.pos left right
      pure ()) := by
  funext s
  simp only [ruleBody, evalStmt, evalBlock, evalExpr, evalBinary, T.he, Expr.token, bind, EM.bind, pure, EM.pure]
  cases getIdentifier prog T.dtok s with
  | oof => rfl
  | err e s1 => rfl
  | ok left s1 =>
    dsimp only
    cases evalExpr prog (k + 1) E s1 with
    | oof => rfl
    | err e s2 => rfl
    | ok right s2 =>
      dsimp only
      cases evalAssignment T.dtok.pos left right s2 <;> rfl


/-! ### moving related values to another context -/

/-- the context `K'` agrees with `K` on everything live in `K` at world `w` -/
structure Trans (K K' : Ctx) (w w' : Nat) : Prop where
  cell : ∀ c, LiveC K w c → K'.σ c = K.σ c ∧ LiveC K' w' c
  arr : ∀ a, K.a0 ≤ a → K'.a0 ≤ a
  obj : ∀ o, K.o0 ≤ o → K'.o0 ≤ o
  fn : ∀ i : Nat, K.progA.functions[i]? = K.progB.functions[i]? → K'.progA.functions[i]? = K'.progB.functions[i]?

variable {K K' : Ctx} {w w' : Nat}

theorem Trans.spec (t : Trans K K' w w') {sp : Option SpecRef} (h : SpecLive K w sp) :
    renSpec K'.σ sp = renSpec K.σ sp ∧ SpecLive K' w' sp := by
  cases sp with
  | none => exact ⟨rfl, trivial⟩
  | some r =>
    obtain ⟨e, l⟩ := t.cell r.parent h
    exact ⟨by simp only [renSpec_some, e], l⟩

theorem Trans.valR (t : Trans K K' w w') {a b : Val} (h : ValR K w a b) : ValR K' w' a b := by
  obtain ⟨rfl, hl⟩ := h
  cases b with
  | str s sp =>
    obtain ⟨e, l⟩ := t.spec (sp := sp) hl
    exact ⟨by simp only [renV_str, e], l⟩
  | nil sp =>
    obtain ⟨e, l⟩ := t.spec (sp := sp) hl
    exact ⟨by simp only [renV_nil, e], l⟩
  | native f b sp =>
    obtain ⟨e, l⟩ := t.spec (sp := sp) hl.2
    cases b with
    | none => exact ⟨by simp only [renV_native, e, Option.map_none], trivial, l⟩
    | some bc =>
      obtain ⟨e2, l2⟩ := t.cell bc hl.1
      exact ⟨by simp only [renV_native, e, Option.map_some, e2], l2, l⟩
  | arr a => exact ⟨rfl, t.arr a hl⟩
  | obj o => exact ⟨rfl, t.obj o hl⟩
  | fn i => exact ⟨rfl, t.fn i hl⟩
  | bool b => exact ⟨rfl, trivial⟩
  | num x => exact ⟨rfl, trivial⟩
  | regex x => exact ⟨rfl, trivial⟩
  | unknown => exact ⟨rfl, trivial⟩

theorem Trans.cellR (t : Trans K K' w w') {a b : CellId} (h : CellR K w a b) : CellR K' w' a b := by
  obtain ⟨rfl, hl⟩ := h
  obtain ⟨e, l⟩ := t.cell b hl
  exact ⟨e.symm, l⟩

theorem Trans.optCellR (t : Trans K K' w w') {a b : Option CellId} (h : OptCellR K w a b) :
    OptCellR K' w' a b := by
  cases a <;> cases b <;> first | exact h | exact t.cellR h

theorem Trans.memR (t : Trans K K' w w') {a b : List (Bytes × CellId)} (h : MemR K w a b) : MemR K' w' a b := by
  obtain ⟨rfl, hl⟩ := h
  refine ⟨?_, fun kc hkc => (t.cell kc.2 (hl kc hkc)).2⟩
  unfold renM
  apply List.map_congr_left
  intro kc hkc
  rw [(t.cell kc.2 (hl kc hkc)).1]

theorem Trans.arrR (t : Trans K K' w w') {a b : Array CellId} (h : ArrR K w a b) : ArrR K' w' a b := by
  obtain ⟨rfl, hl⟩ := h
  refine ⟨?_, fun c hc => (t.cell c (hl c hc)).2⟩
  apply Array.ext'
  simp only [Array.toList_map]
  apply List.map_congr_left
  intro c hc
  rw [(t.cell c (hl c hc)).1]

theorem Trans.frames (t : Trans K K' w w') {l1 l2 : List Frame} (h : F2 (FrameR K w) l1 l2) :
    F2 (FrameR K' w') l1 l2 := by
  induction h with
  | nil => exact .nil
  | cons h1 _ ih => exact .cons (t.memR h1) ih

/-! ### the conversion allocates plain values only -/

/-- what a run of the conversion leaves: the old heap is unchanged, the cells it allocated hold
    values without references -/
structure ConvOK (s s' : St) : Prop where
  pres : HeapPreserved s.heap s'.heap
  plain : ∀ i, s.heap.cells.size ≤ i → i < s'.heap.cells.size → Val.plain (s'.heap.get i)
  rest : s' = { s with heap := s'.heap }

theorem ConvOK.refl (s : St) : ConvOK s s :=
  ⟨HeapPreserved.refl _, fun i h1 h2 => absurd h2 (Nat.not_lt.mpr h1), rfl⟩

theorem ConvOK.trans {a b c : St} (h1 : ConvOK a b) (h2 : ConvOK b c) : ConvOK a c := by
  refine ⟨h1.pres.trans h2.pres, ?_, ?_⟩
  · intro i hi1 hi2
    by_cases hb : i < b.heap.cells.size
    · rw [h2.pres.get i hb]; exact h1.plain i hi1 hb
    · exact h2.plain i (Nat.le_of_not_lt hb) hi2
  · rw [h2.rest, h1.rest]

theorem ConvOK.newCell {s : St} {v : Val} (hv : Val.plain v) :
    ConvOK s { s with heap := (s.heap.alloc v).2 } := by
  refine ⟨HeapPreserved.alloc _ _, ?_, rfl⟩
  intro i h1 h2
  rw [size_alloc] at h2
  have : i = s.heap.cells.size := Nat.le_antisymm (Nat.le_of_lt_succ h2) h1
  rw [get_alloc, this]
  simp only [↓reduceIte]
  exact hv

theorem ConvOK.heapOnly {s : St} {h' : Heap} (hp : HeapPreserved s.heap h') (hc : h'.cells = s.heap.cells) :
    ConvOK s { s with heap := h' } := by
  refine ⟨hp, ?_, rfl⟩
  intro i h1 h2
  have : h'.cells.size = s.heap.cells.size := by rw [hc]
  rw [this] at h2
  exact absurd h2 (Nat.not_lt.mpr h1)

mutual
theorem conv_ok : ∀ (j : JVal) (s : St), ∃ v s', newValueJson j s = .ok v s' ∧ ConvOK s s' ∧ Val.plain v
  | .null, s => ⟨_, s, rfl, ConvOK.refl s, rfl⟩
  | .bool b, s => ⟨_, s, rfl, ConvOK.refl s, trivial⟩
  | .num lit, s => ⟨_, s, rfl, ConvOK.refl s, trivial⟩
  | .str x, s => ⟨_, s, rfl, ConvOK.refl s, rfl⟩
  | .arr items, s => by
    obtain ⟨cs, s1, e1, h1⟩ := conv_items items s
    refine ⟨.arr s1.heap.arrs.size, { s1 with heap := (s1.heap.allocArr cs.toArray).2 }, ?_, ?_, trivial⟩
    · unfold newValueJson
      simp only [bind, EM.bind, e1, allocArrM, pure, EM.pure]
      rfl
    · exact h1.trans (ConvOK.heapOnly (HeapPreserved.allocArr _ _) rfl)
  | .obj members, s => by
    obtain ⟨cs, s1, e1, h1⟩ := conv_members members s
    refine ⟨.obj s1.heap.objs.size,
      { s1 with heap := (s1.heap.allocObj (cs.foldl (fun m kc => objInsert m kc.1 kc.2) [])).2 }, ?_, ?_, trivial⟩
    · unfold newValueJson
      simp only [bind, EM.bind, e1, allocObjM, pure, EM.pure]
      rfl
    · exact h1.trans (ConvOK.heapOnly (HeapPreserved.allocObj _ _) rfl)
theorem conv_items : ∀ (js : List JVal) (s : St), ∃ cs s', newValueItems js s = .ok cs s' ∧ ConvOK s s'
  | [], s => ⟨[], s, rfl, ConvOK.refl s⟩
  | j :: js, s => by
    obtain ⟨v, s1, e1, h1, hv⟩ := conv_ok j s
    obtain ⟨cs, s2, e2, h2⟩ := conv_items js { s1 with heap := (s1.heap.alloc v).2 }
    refine ⟨s1.heap.cells.size :: cs, s2, ?_, h1.trans ((ConvOK.newCell hv).trans h2)⟩
    unfold newValueItems
    simp only [bind, EM.bind, e1, Jqawk.newCell, pure, EM.pure]
    rw [e2]
    rfl
theorem conv_members : ∀ (ms : List (Bytes × JVal)) (s : St),
    ∃ cs s', newValueMembers ms s = .ok cs s' ∧ ConvOK s s'
  | [], s => ⟨[], s, rfl, ConvOK.refl s⟩
  | (k, j) :: ms, s => by
    obtain ⟨v, s1, e1, h1, hv⟩ := conv_ok j s
    obtain ⟨cs, s2, e2, h2⟩ := conv_members ms { s1 with heap := (s1.heap.alloc v).2 }
    refine ⟨(k, s1.heap.cells.size) :: cs, s2, ?_, h1.trans ((ConvOK.newCell hv).trans h2)⟩
    unfold newValueMembers
    simp only [bind, EM.bind, e1, Jqawk.newCell, pure, EM.pure]
    rw [e2]
    rfl
end

/-! ### the contexts of the comparison -/

/-- the context of the main evaluators of the two runs: `$` is set before every rule, so the
    driver itself does not need it related -/
def mainX (K : Ctx) : XCtx :=
  { toCtx := K, allowD := false, allow := fun _ => true, baseA := [], baseB := [], inner := false,
    trackRoot := true }

theorem mainX_wf {K : Ctx} (wf : K.WF) : (mainX K).WF := ⟨wf, rfl, .inl ⟨rfl, rfl⟩⟩

theorem mainX_good {K : Ctx} (wf : K.WF) : GoodX (mainX K).withD :=
  ⟨WF_withD (mainX_wf wf), fun _ f _ _ => idsS_all f.body⟩

/-- the context while the selector expression is evaluated: the cells of the main program do not
    take part, everything allocated from `nB` on corresponds by the shift `d + 3` (the nested
    evaluator of the selector has allocated its three builtins first).  With `ub` the three
    builtin cells 0, 1, 2 of the main evaluator of run B take part too: they correspond to the
    builtin cells of the nested evaluator. -/
def K1 (K : Ctx) (hA hB : Heap) (progB : Program) (ub : Bool) : Ctx :=
  { σ := fun i => if i < hB.cells.size then (if ub = true ∧ i < 3 then hA.cells.size + i else K.σ i)
      else i + (K.d + 3),
    D := fun i => hB.cells.size ≤ i ∨ (ub = true ∧ i < 3),
    a0 := hB.arrs.size, o0 := hB.objs.size, m := hB.cells.size, d := K.d + 3, progA := Program.empty,
    progB := progB, fz := hB.cells.size, fzA := hA.cells.size, snapA := hA, snapB := hB }

def X1 (K1 : Ctx) (baseA baseB : List Frame) (allow : Bytes → Bool) : XCtx :=
  { toCtx := K1, allowD := false, allow := allow, baseA := baseA, baseB := baseB, inner := false,
    trackRoot := false }

theorem K1_σ_new {K : Ctx} {hA hB : Heap} {progB : Program} {ub : Bool} {i : Nat} (hi : hB.cells.size ≤ i) :
    (K1 K hA hB progB ub).σ i = i + (K.d + 3) := by
  have : ¬ i < hB.cells.size := Nat.not_lt.mpr hi
  simp only [K1, this, ↓reduceIte]

theorem K1_σ_bi {K : Ctx} {hA hB : Heap} {progB : Program} {i : Nat} (h3 : 3 ≤ hB.cells.size) (hi : i < 3) :
    (K1 K hA hB progB true).σ i = hA.cells.size + i := by
  have : i < hB.cells.size := Nat.lt_of_lt_of_le hi h3
  simp only [K1, this, hi, and_self, ↓reduceIte]

theorem K1_wf {K : Ctx} (wf : K.WF) (hA hB : Heap) (hm : K.m ≤ hB.cells.size) (progB : Program) (ub : Bool)
    (hsz : hA.cells.size = hB.cells.size + K.d) (h3 : ub = true → 3 ≤ hB.cells.size) :
    (K1 K hA hB progB ub).WF := by
  have key : ∀ i, (i < hB.cells.size ∧ ¬ (ub = true ∧ i < 3) ∧ (K1 K hA hB progB ub).σ i = K.σ i ∧
        K.σ i < hA.cells.size) ∨
      (i < hB.cells.size ∧ ub = true ∧ i < 3 ∧ (K1 K hA hB progB ub).σ i = hA.cells.size + i) ∨
      (hB.cells.size ≤ i ∧ (K1 K hA hB progB ub).σ i = i + (K.d + 3)) := by
    intro i
    by_cases hi : i < hB.cells.size
    · by_cases hb : ub = true ∧ i < 3
      · right; left
        refine ⟨hi, hb.1, hb.2, ?_⟩
        simp only [K1, hi, hb, and_self, ↓reduceIte]
      · left
        refine ⟨hi, hb, ?_, by rw [hsz]; exact wf.σ_lt hi hm⟩
        simp only [K1, hi, hb, ↓reduceIte]
    · right; right
      exact ⟨Nat.le_of_not_lt hi, K1_σ_new (Nat.le_of_not_lt hi)⟩
  refine ⟨?_, ?_, fun i h => .inl h, ?_⟩
  · intro i hi
    exact K1_σ_new hi
  · intro i j h
    rcases key i with ⟨a1, a2, e1, b1⟩ | ⟨a1, a2, a3, e1⟩ | ⟨a1, e1⟩ <;>
    rcases key j with ⟨c1, c2, f1, d1⟩ | ⟨c1, c2, c3, f1⟩ | ⟨c1, f1⟩ <;>
    rw [e1, f1] at h <;>
    first
      | exact wf.inj i j h
      | omega
  · intro i hi
    have hi' : i < hB.cells.size := hi
    show (K1 K hA hB progB ub).σ i < hB.cells.size + (K.d + 3)
    rcases key i with ⟨a1, a2, e1, b1⟩ | ⟨a1, a2, a3, e1⟩ | ⟨a1, e1⟩ <;> rw [e1] <;> omega

/-- the context after the selector: the cells the evaluation of the expression allocated (from
    `c + 1` up to `eB`) drop out; the `$` cell `c` of run B corresponds to the fresh root `rA` of
    run A -/
def K2 (K : Ctx) (nB c eB rA : Nat) (pl : Nat → Prop) (prog progB : Program) : Ctx :=
  { σ := fun i => if i < nB then K.σ i else if i = c then rA else if i < eB then i + (K.d + 3) else i + (K.d + 4),
    D := fun i => if i < nB then K.D i else (i < eB → pl i),
    a0 := 0, o0 := 0, m := eB, d := K.d + 4, progA := prog, progB := progB }

theorem K2_σ_cases {K : Ctx} (wf : K.WF) {nB c eB rA : Nat} {pl : Nat → Prop} (hm : K.m ≤ nB) (h1 : nB ≤ c)
    (h2 : c < eB) (prog progB : Program) (i : Nat) :
    (i < nB ∧ (K2 K nB c eB rA pl prog progB).σ i = K.σ i ∧ K.σ i < nB + K.d) ∨
    (i = c ∧ (K2 K nB c eB rA pl prog progB).σ i = rA) ∨
    (nB ≤ i ∧ i ≠ c ∧ i < eB ∧ (K2 K nB c eB rA pl prog progB).σ i = i + (K.d + 3)) ∨
    (eB ≤ i ∧ (K2 K nB c eB rA pl prog progB).σ i = i + (K.d + 4)) := by
  by_cases hi : i < nB
  · left
    refine ⟨hi, ?_, wf.σ_lt hi hm⟩
    simp only [K2, hi, ↓reduceIte]
  · by_cases hic : i = c
    · right; left
      refine ⟨hic, ?_⟩
      subst hic
      simp only [K2, hi, ↓reduceIte]
    · by_cases hie : i < eB
      · right; right; left
        refine ⟨Nat.le_of_not_lt hi, hic, hie, ?_⟩
        simp only [K2, hi, hic, hie, ↓reduceIte]
      · right; right; right
        refine ⟨Nat.le_of_not_lt hie, ?_⟩
        simp only [K2, hi, hic, hie, ↓reduceIte]

theorem K2_wf {K : Ctx} (wf : K.WF) {nB c eB rA : Nat} (pl : Nat → Prop) (hm : K.m ≤ nB) (h1 : nB ≤ c) (h2 : c < eB)
    (hr : rA = eB + (K.d + 3)) (prog progB : Program) : (K2 K nB c eB rA pl prog progB).WF := by
  have hc := K2_σ_cases wf (rA := rA) (pl := pl) hm h1 h2 prog progB
  refine ⟨?_, ?_, ?_, ?_⟩
  · intro i hi
    have hi' : eB ≤ i := hi
    rcases hc i with ⟨a, _⟩ | ⟨a, _⟩ | ⟨_, _, a, _⟩ | ⟨_, e⟩
    · omega
    · omega
    · omega
    · exact e
  · intro i j h
    rcases hc i with ⟨a1, e1, b1⟩ | ⟨a1, e1⟩ | ⟨a1, a2, a3, e1⟩ | ⟨a1, e1⟩ <;>
    rcases hc j with ⟨c1, f1, d1⟩ | ⟨c1, f1⟩ | ⟨c1, c2, c3, f1⟩ | ⟨c1, f1⟩ <;>
    rw [e1, f1] at h <;>
    first
      | exact wf.inj i j h
      | omega
  · intro i hi
    have hi' : eB ≤ i := hi
    have a1 : ¬ i < nB := by omega
    simp only [K2, a1, ↓reduceIte]
    intro h; exact absurd h (Nat.not_lt.mpr hi')
  · intro i hi
    have hi' : i < eB := hi
    show (K2 K nB c eB rA pl prog progB).σ i < eB + (K.d + 4)
    rcases hc i with ⟨a1, e1, b1⟩ | ⟨a1, e1⟩ | ⟨a1, a2, a3, e1⟩ | ⟨a1, e1⟩ <;> rw [e1] <;> omega


theorem set_arr (h : Heap) (c : CellId) (v : Val) (k : ArrId) : (h.set c v).arr k = h.arr k := rfl
theorem set_obj (h : Heap) (c : CellId) (v : Val) (k : ObjId) : (h.set c v).obj k = h.obj k := rfl
theorem alloc_arr (h : Heap) (v : Val) (k : ArrId) : (h.alloc v).2.arr k = h.arr k := rfl
theorem alloc_obj (h : Heap) (v : Val) (k : ObjId) : (h.alloc v).2.obj k = h.obj k := rfl

/-- a value without references is related to itself in the main context -/
theorem valR_plain_main {K : Ctx} (h0 : K.a0 = 0) (h0' : K.o0 = 0) (hp : K.progA.functions = K.progB.functions)
    {v : Val} (hv : Val.plain v) (w : Nat) : ValR K w v v :=
  ValR.of_plain hv (LiveV.plain hv (fun a _ => by rw [h0]; exact Nat.zero_le _)
    (fun o _ => by rw [h0']; exact Nat.zero_le _) (fun i _ => by rw [hp]))

theorem plain_of_renV {σ : Nat → Nat} {v : Val} (h : Val.plain (renV σ v)) : Val.plain v := by
  cases v with
  | str s sp => cases sp <;> simp_all [Val.plain, renV, renSpec]
  | nil sp => cases sp <;> simp_all [Val.plain, renV, renSpec]
  | native f b sp => cases b <;> cases sp <;> simp_all [Val.plain, renV, renSpec]
  | _ => trivial

/-- **the heaps after the selector / after the rule `$ = E`** are related in the context `K2`:
    what stays in the relation, beside the main program's cells, are the cells allocated since
    whose value mentions no cell — the converted document, the members of the containers the
    expression created — and the `$` cell itself, which corresponds to the fresh root of run A -/
theorem junction_heap {K : Ctx} (wf : K.WF) (h0 : K.a0 = 0) (h0' : K.o0 = 0) (prog progB : Program)
    (hKA : K.progA = prog) (hKB : K.progB = progB) (hfun : prog.functions = progB.functions)
    {hA hB hAe hBe : Heap} (hold : HR K hA hB) (ub : Bool)
    (hK1 : HR (K1 K hA hB progB ub) hAe hBe)
    (c : Nat) (hc1 : hB.cells.size ≤ c) (hc2 : c < hBe.cells.size)
    (hmemA : ∀ k, hB.arrs.size ≤ k → ∀ x ∈ (hBe.arr k).toList, x ≠ c ∧ Val.plain (hBe.get x))
    (hmemO : ∀ k, hB.objs.size ≤ k → ∀ kc ∈ hBe.obj k, kc.2 ≠ c ∧ Val.plain (hBe.get kc.2))
    (hbiB : ub = true → ∀ i, i < 3 → hBe.get i = hB.get i)
    (hbiA : ub = true → ∀ k, hB.arrs.size ≤ k → ∀ x ∈ (hBe.arr k).toList, 3 ≤ x)
    (hbiO : ub = true → ∀ k, hB.objs.size ≤ k → ∀ kc ∈ hBe.obj k, 3 ≤ kc.2)
    (w : Val) (hw : Val.plain w) :
    HR (K2 K hB.cells.size c hBe.cells.size hAe.cells.size (fun i => Val.plain (hBe.get i)) prog progB)
      ((hAe.alloc .unknown).2.set hAe.cells.size w) (hBe.set c w) := by
  have hm : K.m ≤ hB.cells.size := hold.mle
  have hszc : hAe.cells.size = hBe.cells.size + (K.d + 3) := hK1.szc
  have hszA : hA.cells.size = hB.cells.size + K.d := hold.szc
  have hcases := K2_σ_cases wf (rA := hAe.cells.size) (pl := fun i => Val.plain (hBe.get i)) hm hc1 hc2 prog progB
  have hp2 : (K2 K hB.cells.size c hBe.cells.size hAe.cells.size (fun i => Val.plain (hBe.get i)) prog progB).progA.functions =
      (K2 K hB.cells.size c hBe.cells.size hAe.cells.size (fun i => Val.plain (hBe.get i)) prog progB).progB.functions := hfun
  have hle : hB.cells.size ≤ hBe.cells.size := Nat.le_trans hc1 (Nat.le_of_lt hc2)
  -- what the evaluation did not touch
  have fr := hK1.froz
  have pB : ∀ i, i < hB.cells.size → hBe.get i = hB.get i := by
    intro i hi
    by_cases hb : ub = true ∧ i < 3
    · exact hbiB hb.1 i hb.2
    · refine fr.cellB i hi (fun (h : hB.cells.size ≤ i ∨ (ub = true ∧ i < 3)) => ?_)
      rcases h with h | h
      · exact absurd hi (Nat.not_lt.mpr h)
      · exact hb h
  have pA : ∀ j, j < hA.cells.size → hAe.get j = hA.get j := by
    intro j hj
    refine fr.cellA j hj (fun i (hi : hB.cells.size ≤ i ∨ (ub = true ∧ i < 3)) e => ?_)
    rcases hi with hi | hi
    · rw [K1_σ_new hi] at e
      omega
    · by_cases hlt : i < hB.cells.size
      · have : (K1 K hA hB progB ub).σ i = hA.cells.size + i := by
          simp only [K1, hlt, hi, and_self, ↓reduceIte]
        rw [this] at e
        omega
      · rw [K1_σ_new (Nat.le_of_not_lt hlt)] at e
        omega
  -- a live cell of the first phase that is a member of a new container is a new cell
  have newA : ∀ k, hB.arrs.size ≤ k → ∀ x ∈ (hBe.arr k).toList, (K1 K hA hB progB ub).D x → hB.cells.size ≤ x := by
    intro k hk x hx hd
    rcases hd with hd | hd
    · exact hd
    · exact absurd hd.2 (Nat.not_lt.mpr (hbiA hd.1 k hk x hx))
  have newO : ∀ k, hB.objs.size ≤ k → ∀ kc ∈ hBe.obj k, (K1 K hA hB progB ub).D kc.2 → hB.cells.size ≤ kc.2 := by
    intro k hk kc hkc hd
    rcases hd with hd | hd
    · exact hd
    · exact absurd hd.2 (Nat.not_lt.mpr (hbiO hd.1 k hk kc hkc))
  have pBa : ∀ k, k < hB.arrs.size → hBe.arr k = hB.arr k := fun k hk => fr.arrB k hk
  have pAa : ∀ k, k < hB.arrs.size → hAe.arr k = hA.arr k := fun k hk => fr.arrA k hk
  have pBo : ∀ k, k < hB.objs.size → hBe.obj k = hB.obj k := fun k hk => fr.objB k hk
  have pAo : ∀ k, k < hB.objs.size → hAe.obj k = hA.obj k := fun k hk => fr.objA k hk
  -- old live things keep their relation
  have tr : Trans K (K2 K hB.cells.size c hBe.cells.size hAe.cells.size (fun i => Val.plain (hBe.get i)) prog progB)
      hB.cells.size hBe.cells.size := by
    refine ⟨?_, fun _ _ => Nat.zero_le _, fun _ _ => Nat.zero_le _, fun i _ => by
      show prog.functions[i]? = progB.functions[i]?
      rw [hfun]⟩
    intro x hx
    have hx2 : x < hB.cells.size := hx.2
    refine ⟨by simp only [K2, hx2, ↓reduceIte], ?_, Nat.lt_of_lt_of_le hx2 hle⟩
    show (if x < hB.cells.size then K.D x else _)
    simp only [hx2, ↓reduceIte]
    exact hx.1
  have hsA : ((hAe.alloc .unknown).2.set hAe.cells.size w).cells.size = hAe.cells.size + 1 := by
    rw [Heap.size_set, size_alloc]
  have getA : ∀ x, x < hAe.cells.size → ((hAe.alloc .unknown).2.set hAe.cells.size w).get x = hAe.get x := by
    intro x hx
    rw [get_set, get_alloc]
    have : x ≠ hAe.cells.size := Nat.ne_of_lt hx
    simp only [this, false_and, ↓reduceIte]
  have getB : ∀ x, x ≠ c → (hBe.set c w).get x = hBe.get x := by
    intro x hx
    rw [get_set]
    simp only [hx, false_and, ↓reduceIte]
  have σmid : ∀ x, hB.cells.size ≤ x → x ≠ c → x < hBe.cells.size →
      (K2 K hB.cells.size c hBe.cells.size hAe.cells.size (fun i => Val.plain (hBe.get i)) prog progB).σ x =
        (K1 K hA hB progB ub).σ x := by
    intro x x1 x2 x3
    have hn : ¬ x < hB.cells.size := Nat.not_lt.mpr x1
    simp only [K1, K2, hn, x2, x3, ↓reduceIte]
  have dmid : ∀ x, hB.cells.size ≤ x → Val.plain (hBe.get x) →
      (K2 K hB.cells.size c hBe.cells.size hAe.cells.size (fun i => Val.plain (hBe.get i)) prog progB).D x := by
    intro x x1 hp
    have hn : ¬ x < hB.cells.size := Nat.not_lt.mpr x1
    show (if x < hB.cells.size then K.D x else _)
    simp only [hn, ↓reduceIte]
    exact fun _ => hp
  refine ⟨?_, ?_, hK1.sza, Nat.zero_le _, hK1.szo, Nat.zero_le _, ?_, ?_, ?_, Froz.trivial rfl rfl rfl rfl⟩
  · rw [hsA, Heap.size_set, hszc]; show _ = _ + (K.d + 4); omega
  · rw [Heap.size_set]; exact Nat.le_refl _
  · -- cells
    intro i hi
    rw [Heap.size_set] at hi ⊢
    have hi2 : i < hBe.cells.size := hi.2
    rcases hcases i with ⟨a1, e1, b1⟩ | ⟨a1, e1⟩ | ⟨a1, a2, a3, e1⟩ | ⟨a1, e1⟩
    · -- an old cell
      have hD : K.D i := by
        have := hi.1
        simp only [K2, a1, ↓reduceIte] at this
        exact this
      rw [e1]
      have hltA : K.σ i < hA.cells.size := by omega
      have hlt : K.σ i < hAe.cells.size := by
        have := fr.fzA
        have : hA.cells.size ≤ hAe.cells.size := this
        omega
      rw [getA _ hlt, pA _ hltA, getB i (by omega), pB i a1]
      exact tr.valR (hold.cells i ⟨hD, a1⟩)
    · -- the `$` cell
      subst a1
      rw [e1]
      have e3 : ((hAe.alloc .unknown).2.set hAe.cells.size w).get hAe.cells.size = w := by
        rw [get_set, size_alloc]
        simp only [Nat.lt_succ_self, and_self, ↓reduceIte]
      have e4 : (hBe.set i w).get i = w := by
        rw [get_set]; simp only [hc2, and_self, ↓reduceIte]
      rw [e3, e4]
      exact valR_plain_main rfl rfl hp2 hw _
    · -- a cell allocated since, holding a plain value
      have hpl : Val.plain (hBe.get i) := by
        have := hi.1
        have hn : ¬ i < hB.cells.size := Nat.not_lt.mpr a1
        simp only [K2, hn, ↓reduceIte] at this
        exact this a3
      rw [e1, getA _ (by omega), getB i a2]
      have hk := hK1.cells i ⟨.inl a1, a3⟩
      have hσ1 : (K1 K hA hB progB ub).σ i = i + (K.d + 3) := K1_σ_new a1
      rw [hσ1] at hk
      rw [hk.1, renV_plain hpl]
      exact valR_plain_main rfl rfl hp2 hpl _
    · exact absurd hi2 (Nat.not_lt.mpr a1)
  · -- arrays
    intro k _
    rw [Heap.size_set, set_arr, set_arr, alloc_arr]
    by_cases hk : k < hB.arrs.size
    · rw [pAa k hk, pBa k hk]
      exact tr.arrR (hold.arrs k (by rw [h0]; exact Nat.zero_le _))
    · have hk' : hB.arrs.size ≤ k := Nat.le_of_not_lt hk
      have har := hK1.arrs k hk'
      have hmem := hmemA k hk'
      refine ⟨?_, ?_⟩
      · rw [har.1]
        apply Array.ext'
        simp only [Array.toList_map]
        apply List.map_congr_left
        intro x hx
        have hl := har.2 x hx
        exact (σmid x (newA k hk' x hx hl.1) (hmem x hx).1 hl.2).symm
      · intro x hx
        have hl := har.2 x hx
        exact ⟨dmid x (newA k hk' x hx hl.1) (hmem x hx).2, hl.2⟩
  · -- objects
    intro k _
    rw [Heap.size_set, set_obj, set_obj, alloc_obj]
    by_cases hk : k < hB.objs.size
    · rw [pAo k hk, pBo k hk]
      exact tr.memR (hold.objs k (by rw [h0']; exact Nat.zero_le _))
    · have hk' : hB.objs.size ≤ k := Nat.le_of_not_lt hk
      have hob := hK1.objs k hk'
      have hmem := hmemO k hk'
      refine ⟨?_, ?_⟩
      · rw [hob.1]
        unfold renM
        apply List.map_congr_left
        intro kc hkc
        have hl := hob.2 kc hkc
        rw [σmid kc.2 (newO k hk' kc hkc hl.1) (hmem kc hkc).1 hl.2]
      · intro kc hkc
        have hl := hob.2 kc hkc
        exact ⟨dmid kc.2 (newO k hk' kc hkc hl.1) (hmem kc hkc).2, hl.2⟩

end Sel
end Jqawk
