/-
  Renaming of cell ids (C14), part 5: the member step, assignment with `createSpeculative`, and
  the native functions in the two runs.
-/
import Jqawk.Lemmas.SelectorSim

set_option linter.unusedVariables false
set_option linter.unusedSimpArgs false

namespace Jqawk
namespace Sel

variable {X : XCtx}

/-! ### the member step -/

def keyOf (rv : Val) : Key :=
  match rv with
  | .num x => .num x
  | _ => .str rv.str!

theorem keyOf_renV (σ : Nat → Nat) (v : Val) : keyOf (renV σ v) = keyOf v := by cases v <;> rfl

/-- what `memberStep` does with the result of `GetMember` -/
def memberFound (left : CellId) (rv : Val) (h : Heap) : Member → EM CellId
  | .missing => newCell (.nil (some ⟨left, keyOf rv⟩))
  | .method f => newCell (.native f (some left) (some ⟨left, .str rv.str!⟩))
  | .char none x => newCell (.nil (some ⟨left, .num x⟩))
  | .char (some ch) x => newCell (.str ch (some ⟨left, .num x⟩))
  | .cell c =>
    match h.get c with
    | .native f _ _ => newCell (.native f (some left) (some ⟨left, .str rv.str!⟩))
    | _ => pure c

theorem memberStep_eq (pos : Nat) (left right : CellId) :
    memberStep pos left right = (do
      let rv ← readCell right
      let lv ← readCell left
      if lv.kind == .unknown then newCell (.nil (some ⟨left, keyOf rv⟩))
      else
        let h ← getHeap
        match getMember h lv rv with
        | .error m => throwRt pos m
        | .ok mem => memberFound left rv h mem) := by
  unfold memberStep
  funext s
  simp only [bind, EM.bind, readCell, getHeap]
  split
  · rfl
  · show EM.bind getHeap _ s = EM.bind getHeap _ s
    simp only [EM.bind, getHeap]
    cases hg : getMember s.heap (s.heap.get left) (s.heap.get right) with
    | error m => rfl
    | ok mem =>
      cases mem with
      | cell c => simp only [memberFound]; cases s.heap.get c <;> rfl
      | char c x => cases c <;> rfl
      | method f => rfl
      | missing => rfl

theorem SimW.memberStep (wf : X.WF) {w w0 w1 : Nat} (pos : Nat) {la lb ra rb : CellId}
    (hl : CellR X.toCtx w0 la lb) (hw0 : w0 ≤ w) (hr : CellR X.toCtx w1 ra rb) (hw1 : w1 ≤ w) :
    SimW X w (CellR X.toCtx) (Jqawk.memberStep pos la ra) (Jqawk.memberStep pos lb rb) := by
  rw [memberStep_eq, memberStep_eq]
  refine SimW.readCell_bind hr hw1 (fun w2 rva rvb hw2 hrv => ?_)
  refine SimW.readCell_bind hl (Nat.le_trans hw0 hw2) (fun w3 lva lvb hw3 hlv => ?_)
  have hl3 : LiveC X.toCtx w3 lb := hl.2.mono (Nat.le_trans hw0 (Nat.le_trans hw2 hw3))
  obtain ⟨rfl, _⟩ := hl
  rw [hlv.kind]
  by_cases hk : (lvb.kind == Kind.unknown) = true
  · simp only [hk, ↓reduceIte]
    rw [hrv.1, keyOf_renV]
    exact SimW.newCell wf (va := .nil (some ⟨X.σ lb, keyOf rvb⟩)) (vb := .nil (some ⟨lb, keyOf rvb⟩))
      ⟨rfl, hl3⟩ (Nat.le_refl _)
  · simp only [hk, ↓reduceIte]
    apply SimW.getHeap_bind
    intro hA hB hh hw4
    obtain ⟨hgm, hgl⟩ := getMember_rel hh (hlv.2.mono hw4) rvb
    rw [hlv.1, hrv.1, hgm]
    have hl4 : LiveC X.toCtx hB.cells.size lb := hl3.mono hw4
    cases hg : getMember hB lvb rvb with
    | error m => exact SimW.throwRt _ _
    | ok mem =>
      simp only [Except.map]
      cases mem with
      | missing =>
        simp only [renMember, memberFound, keyOf_renV]
        exact SimW.newCell wf (va := .nil (some ⟨X.σ lb, keyOf rvb⟩)) (vb := .nil (some ⟨lb, keyOf rvb⟩))
          ⟨rfl, hl4⟩ (Nat.le_refl _)
      | method f =>
        simp only [renMember, memberFound, str_renV]
        exact SimW.newCell wf (va := .native f (some (X.σ lb)) (some ⟨X.σ lb, .str rvb.str!⟩))
          (vb := .native f (some lb) (some ⟨lb, .str rvb.str!⟩)) ⟨rfl, hl4, hl4⟩ (Nat.le_refl _)
      | char c x =>
        cases c with
        | none =>
          simp only [renMember, memberFound]
          exact SimW.newCell wf (va := .nil (some ⟨X.σ lb, .num x⟩)) (vb := .nil (some ⟨lb, .num x⟩))
            ⟨rfl, hl4⟩ (Nat.le_refl _)
        | some ch =>
          simp only [renMember, memberFound]
          exact SimW.newCell wf (va := .str ch (some ⟨X.σ lb, .num x⟩)) (vb := .str ch (some ⟨lb, .num x⟩))
            ⟨rfl, hl4⟩ (Nat.le_refl _)
      | cell c =>
        have hc : CellR X.toCtx hB.cells.size (X.σ c) c := ⟨rfl, hgl c hg⟩
        have hv := hh.get hc (Nat.le_refl _)
        simp only [renMember, memberFound]
        rw [hv.1]
        cases hcv : hB.get c with
        | native f b sp =>
          simp only [renV_native, str_renV]
          exact SimW.newCell wf (va := .native f (some (X.σ lb)) (some ⟨X.σ lb, .str rvb.str!⟩))
            (vb := .native f (some lb) (some ⟨lb, .str rvb.str!⟩)) ⟨rfl, hl4, hl4⟩ (Nat.le_refl _)
        | _ => exact SimW.pure hc (Nat.le_refl _)


/-! ### `createSpeculative` in a form built from primitives -/

def specOf : Val → Option SpecRef
  | .nil s => s
  | .native _ _ s => s
  | .str _ s => s
  | _ => none

def keyVal : Key → Val
  | .str s => .str s none
  | .num x => .num x

def keyIsNum : Key → Bool
  | .num _ => true
  | .str _ => false

/-- a fresh empty array (numeric key) or object -/
def newContainer (forNum : Bool) : EM Val :=
  if forNum then do let a ← allocArrM #[]; pure (Val.arr a)
  else do let o ← allocObjM []; pure (Val.obj o)

/-- `SetMember` on the current heap -/
def setMemberM (target m : Val) (cell : CellId) : EM (Except String CellId) := fun s =>
  match setMember s.heap target m cell with
  | .error e => .ok (.error e) s
  | .ok (c, h') => .ok (.ok c) { s with heap := h' }

theorem createSpeculative_eq (n : Nat) (c : CellId) :
    createSpeculative (n + 1) c = (do
      let sv ← readCell c
      match specOf sv with
      | none => throwPanic "speculative object has no parent"
      | some spec => do
        let pv ← readCell spec.parent
        match pv with
        | .nil none => pure (.error "could not create this object")
        | .unknown => do
          let newObj ← newContainer (keyIsNum spec.key)
          writeCell spec.parent newObj
          setMemberM newObj (keyVal spec.key) c
        | .nil (some _) => do
          let pc ← newCell pv
          match (← createSpeculative n pc) with
          | .error m => pure (.error m)
          | .ok newParent => do
            let newObj ← newContainer (keyIsNum spec.key)
            writeCell newParent newObj
            writeCell spec.parent newObj
            setMemberM newObj (keyVal spec.key) c
        | _ => setMemberM pv (keyVal spec.key) c) := by
  funext s
  rw [createSpeculative]
  simp only [bind, EM.bind, readCell]
  generalize s.heap.get c = sv
  cases sv <;> try rfl
  all_goals (rename_i sp; cases sp <;> try rfl)
  all_goals
    rename_i spec
    obtain ⟨par, key⟩ := spec
    simp only [specOf, EM.bind, readCell]
    generalize s.heap.get par = pv
    cases pv with
    | nil sp' =>
      cases sp' with
      | none => rfl
      | some sr =>
        cases key <;>
        simp only [bind, pure, EM.pure, EM.bind, getHeap, setHeap, setMemberM, keyVal, keyIsNum, newContainer,
          allocArrM, allocObjM, writeCell, newCell, Bool.false_eq_true, ↓reduceIte] <;>
        (generalize createSpeculative n _ _ = r
         cases r with
         | oof => rfl
         | err e s' => rfl
         | ok a s' =>
           cases a with
           | error m => rfl
           | ok np =>
             simp only [bind, pure, EM.pure, EM.bind, getHeap, setHeap, setMemberM, allocArrM, allocObjM,
               writeCell]
             generalize setMember _ _ _ _ = r
             cases r with
             | error e => rfl
             | ok p => cases p; rfl)
    | _ =>
      cases key <;>
      simp only [bind, pure, EM.pure, EM.bind, getHeap, setHeap, setMemberM, keyVal, keyIsNum, newContainer,
        allocArrM, allocObjM, writeCell, newCell, Bool.false_eq_true, ↓reduceIte] <;>
      (generalize setMember _ _ _ _ = r
       cases r with
       | error e => rfl
       | ok p => cases p; rfl)


theorem SimW.newContainer (wf : X.WF) {w : Nat} (b : Bool) :
    SimW X w (ValR X.toCtx) (Sel.newContainer b) (Sel.newContainer b) := by
  unfold Sel.newContainer
  cases b with
  | true =>
    simp only [↓reduceIte]
    refine SimW.bind (SimW.allocArrM wf (ArrR.empty _ 0) (Nat.zero_le _)) (fun w1 a a' hw1 ha => ?_)
    obtain ⟨rfl, hle⟩ := ha
    exact SimW.pure (VR := ValR X.toCtx) (a := .arr a) (b := .arr a) (w0 := w1) ⟨rfl, hle⟩ (Nat.le_refl _)
  | false =>
    simp only [Bool.false_eq_true, ↓reduceIte]
    refine SimW.bind (SimW.allocObjM wf (MemR.nil 0) (Nat.zero_le _)) (fun w1 a a' hw1 ha => ?_)
    obtain ⟨rfl, hle⟩ := ha
    exact SimW.pure (VR := ValR X.toCtx) (a := .obj a) (b := .obj a) (w0 := w1) ⟨rfl, hle⟩ (Nat.le_refl _)

theorem SimW.setMemberM (wf : X.WF) {w w0 w1 : Nat} {ta tb : Val} (ht : ValR X.toCtx w0 ta tb) (hw0 : w0 ≤ w)
    (m : Val) {ca cb : CellId} (hc : CellR X.toCtx w1 ca cb) (hw1 : w1 ≤ w) :
    SimW X w (ExR (CellR X.toCtx)) (Sel.setMemberM ta (renV X.σ m) ca) (Sel.setMemberM tb m cb) := by
  intro sA sB hs hw
  unfold Sel.setMemberM
  have h := setMember_rel wf.core hs.heap (ht.2.mono (Nat.le_trans hw0 hw)) m
    (hc.mono (Nat.le_trans hw1 hw)) (Nat.le_refl _)
  rw [ht.1]
  revert h
  generalize setMember sA.heap (renV X.σ tb) (renV X.σ m) ca = rA
  generalize setMember sB.heap tb m cb = rB
  intro h
  cases rA with
  | error e =>
    cases rB with
    | error e' => exact ⟨Nat.le_refl _, h, hs⟩
    | ok p => exact h.elim
  | ok p =>
    obtain ⟨c1, h1⟩ := p
    cases rB with
    | error e' => exact h.elim
    | ok q =>
      obtain ⟨c2, h2⟩ := q
      obtain ⟨hle, hcr, hr⟩ := h
      exact ⟨hle, hcr, hs.withHeap wf hr hle⟩

theorem keyVal_plain (k : Key) : renV X.σ (keyVal k) = keyVal k := by cases k <;> rfl

theorem specOf_renV (v : Val) : specOf (renV X.σ v) = renSpec X.σ (specOf v) := by cases v <;> rfl

theorem specOf_live {w : Nat} {v : Val} (h : LiveV X.toCtx w v) : SpecLive X.toCtx w (specOf v) := by
  cases v <;> first | exact h | exact h.2 | trivial

theorem SimW.createSpeculative (wf : X.WF) : ∀ (nA nB : Nat) {w w0 : Nat} {ca cb : CellId},
    CellR X.toCtx w0 ca cb → w0 ≤ w →
    SimW X w (ExR (CellR X.toCtx)) (Jqawk.createSpeculative nA ca) (Jqawk.createSpeculative nB cb)
  | 0, _, _, _, _, _, _, _ => by unfold Jqawk.createSpeculative; exact SimW.oof
  | _ + 1, 0, _, _, _, _, _, _ => by
    unfold Jqawk.createSpeculative
    exact SimW.oofR
  | nA + 1, nB + 1, w, w0, ca, cb, hc, hw0 => by
    rw [createSpeculative_eq, createSpeculative_eq]
    refine SimW.readCell_bind hc hw0 (fun w1 sva svb hw1 hsv => ?_)
    rw [hsv.1, specOf_renV]
    have hsl := specOf_live hsv.2
    cases hsp : specOf svb with
    | none => exact SimW.throwPanic _
    | some spec =>
      rw [hsp] at hsl
      simp only [renSpec_some]
      have hpar : CellR X.toCtx w1 (X.σ spec.parent) spec.parent := ⟨rfl, hsl⟩
      refine SimW.readCell_bind hpar (Nat.le_refl _) (fun w2 pva pvb hw2 hpv => ?_)
      have hc2 : CellR X.toCtx w2 ca cb := hc.mono (Nat.le_trans hw0 (Nat.le_trans hw1 hw2))
      have hpar2 : CellR X.toCtx w2 (X.σ spec.parent) spec.parent := hpar.mono hw2
      have hkv := SimW.setMemberM wf (w := w2) hpv (Nat.le_refl _) (keyVal spec.key) hc2 (Nat.le_refl _)
      rw [keyVal_plain] at hkv
      obtain ⟨rfl, hpl⟩ := hpv
      cases pvb with
      | nil sp =>
        cases sp with
        | none =>
          exact SimW.pure (VR := ExR (CellR X.toCtx)) (a := .error _) (b := .error _) (w0 := 0) rfl (Nat.zero_le _)
        | some sr =>
          simp only [renV_nil, renSpec_some]
          refine SimW.bind (SimW.newCell wf (va := .nil (some ⟨X.σ sr.parent, sr.key⟩)) (vb := .nil (some sr))
            ⟨rfl, hpl⟩ (Nat.le_refl _)) (fun w3 pca pcb hw3 hpc => ?_)
          refine SimW.bind (SimW.createSpeculative wf nA nB hpc (Nat.le_refl _)) (fun w4 ra rb hw4 hr => ?_)
          cases ra with
          | error ma =>
            cases rb with
            | error mb =>
              exact SimW.pure (VR := ExR (CellR X.toCtx)) (a := .error ma) (b := .error mb) hr (Nat.le_refl _)
            | ok _ => exact hr.elim
          | ok npa =>
            cases rb with
            | error _ => exact hr.elim
            | ok npb =>
              have hnp : CellR X.toCtx w4 npa npb := hr
              dsimp only
              refine SimW.bind (SimW.newContainer wf _) (fun w5 noa nob hw5 hno => ?_)
              refine SimW.bind (SimW.writeCell wf hnp hw5 hno (Nat.le_refl _)) (fun w6 _ _ hw6 _ => ?_)
              refine SimW.bind (SimW.writeCell wf hpar2 (Nat.le_trans hw3 (Nat.le_trans hw4 (Nat.le_trans hw5 hw6)))
                hno hw6) (fun w7 _ _ hw7 _ => ?_)
              have := SimW.setMemberM wf (w := w7) hno (Nat.le_trans hw6 hw7) (keyVal spec.key) hc2
                (Nat.le_trans hw3 (Nat.le_trans hw4 (Nat.le_trans hw5 (Nat.le_trans hw6 hw7))))
              rw [keyVal_plain] at this
              exact this
      | unknown =>
        simp only [renV_unknown]
        refine SimW.bind (SimW.newContainer wf _) (fun w5 noa nob hw5 hno => ?_)
        refine SimW.bind (SimW.writeCell wf hpar2 hw5 hno (Nat.le_refl _)) (fun w6 _ _ hw6 _ => ?_)
        have := SimW.setMemberM wf (w := w6) hno hw6 (keyVal spec.key) hc2 (Nat.le_trans hw5 hw6)
        rw [keyVal_plain] at this
        exact this
      | _ => exact hkv

/-! ### assignment -/

def needsCreate : Val → Bool
  | .nil (some _) => true
  | .native _ _ (some _) => true
  | .str _ (some _) => true
  | _ => false

theorem needsCreate_renV (v : Val) : needsCreate (renV X.σ v) = needsCreate v := by
  cases v <;> first | rfl | (rename_i sp; cases sp <;> rfl)

theorem evalAssignment_eq (pos : Nat) (left right : CellId) :
    evalAssignment pos left right = (do
      let lv ← readCell left
      let target ← (if needsCreate lv then do
          let h ← getHeap
          match (← createSpeculative (h.cells.size + 2) left) with
          | .error m => throwRt pos m
          | .ok c => pure c
        else pure left : EM CellId)
      match (← copyValue right target) with
      | .error m => throwRt pos m
      | .ok c => return c) := by
  unfold evalAssignment
  funext s
  simp only [bind, EM.bind, readCell]
  cases s.heap.get left <;> first | rfl | (rename_i sp; cases sp <;> rfl)

theorem SimW.evalAssignment (wf : X.WF) {w w0 w1 : Nat} (pos : Nat) {la lb ra rb : CellId}
    (hl : CellR X.toCtx w0 la lb) (hw0 : w0 ≤ w) (hr : CellR X.toCtx w1 ra rb) (hw1 : w1 ≤ w) :
    SimW X w (CellR X.toCtx) (Jqawk.evalAssignment pos la ra) (Jqawk.evalAssignment pos lb rb) := by
  rw [evalAssignment_eq, evalAssignment_eq]
  refine SimW.readCell_bind hl hw0 (fun w2 lva lvb hw2 hlv => ?_)
  rw [hlv.1, needsCreate_renV]
  refine SimW.bind (VR1 := CellR X.toCtx) ?_ (fun w3 ta tb hw3 ht => ?_)
  · cases needsCreate lvb with
    | false => exact SimW.pure hl (Nat.le_trans hw0 hw2)
    | true =>
      simp only [↓reduceIte]
      apply SimW.getHeap_bind
      intro hA hB hh hw4
      refine SimW.bind (SimW.createSpeculative wf _ _ hl (Nat.le_trans hw0 (Nat.le_trans hw2 hw4)))
        (fun w5 ra' rb' hw5 hr' => ?_)
      cases ra' with
      | error ma =>
        cases rb' with
        | error mb => cases hr'; exact SimW.throwRt _ _
        | ok _ => exact hr'.elim
      | ok ca =>
        cases rb' with
        | error _ => exact hr'.elim
        | ok cb => exact SimW.pure (VR := CellR X.toCtx) hr' (Nat.le_refl _)
  · refine SimW.bind (SimW.copyValue wf hr (Nat.le_trans hw1 (Nat.le_trans hw2 hw3)) ht (Nat.le_refl _))
      (fun w4 ra' rb' hw4 hr' => ?_)
    cases ra' with
    | error ma =>
      cases rb' with
      | error mb => cases hr'; exact SimW.throwRt _ _
      | ok _ => exact hr'.elim
    | ok ca =>
      cases rb' with
      | error _ => exact hr'.elim
      | ok cb => exact SimW.pure (VR := CellR X.toCtx) hr' (Nat.le_refl _)
end Sel
end Jqawk
