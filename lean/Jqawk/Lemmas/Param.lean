/-
  Parametricity of the parser in token positions: every parser function only copies token
  positions into the AST or into error positions and never branches on them.  Stated with
  `PSim` (Lemmas/Erase.lean): run from parser states equal up to positions, with possibly more
  fuel on the right, the two runs make the same requests and end alike up to positions.
-/
import Jqawk.Lemmas.Erase

namespace Jqawk
open Parser

variable {α β : Type} [Erase α] [Erase β]

theorem ps_cur_tag {s₁ s₂ : PS} (h : erase s₁ = erase s₂) : s₁.cur.tag = s₂.cur.tag :=
  ((erase_ps_eq_iff _ _).mp h).1
theorem ps_cur_text {s₁ s₂ : PS} (h : erase s₁ = erase s₂) : s₁.cur.text = s₂.cur.text :=
  ((erase_ps_eq_iff _ _).mp h).2.1
theorem ps_prev_tag {s₁ s₂ : PS} (h : erase s₁ = erase s₂) : s₁.prev.tag = s₂.prev.tag :=
  ((erase_ps_eq_iff _ _).mp h).2.2.1
theorem ps_prev_text {s₁ s₂ : PS} (h : erase s₁ = erase s₂) : s₁.prev.text = s₂.prev.text :=
  ((erase_ps_eq_iff _ _).mp h).2.2.2.1
theorem ps_didEnd {s₁ s₂ : PS} (h : erase s₁ = erase s₂) : s₁.didEnd = s₂.didEnd :=
  ((erase_ps_eq_iff _ _).mp h).2.2.2.2.1
theorem ps_inFn {s₁ s₂ : PS} (h : erase s₁ = erase s₂) : s₁.inFn = s₂.inFn :=
  ((erase_ps_eq_iff _ _).mp h).2.2.2.2.2.1
theorem ps_inLoop {s₁ s₂ : PS} (h : erase s₁ = erase s₂) : s₁.inLoop = s₂.inLoop :=
  ((erase_ps_eq_iff _ _).mp h).2.2.2.2.2.2
theorem ps_cur {s₁ s₂ : PS} (h : erase s₁ = erase s₂) : erase s₁.cur = erase s₂.cur := by
  rw [erase_token_eq_iff]; exact ⟨ps_cur_tag h, ps_cur_text h⟩
theorem ps_prev {s₁ s₂ : PS} (h : erase s₁ = erase s₂) : erase s₁.prev = erase s₂.prev := by
  rw [erase_token_eq_iff]; exact ⟨ps_prev_tag h, ps_prev_text h⟩

theorem erase_prod_eq_iff {α β : Type} [Erase α] [Erase β] (x y : α × β) :
    erase x = erase y ↔ erase x.1 = erase y.1 ∧ erase x.2 = erase y.2 := by
  obtain ⟨a, b⟩ := x; obtain ⟨c, d⟩ := y; simp

theorem erase_rule_mk (k : RuleKind) (p : Option Expr) (b : Stmt) :
    erase (Rule.mk k p b) = Rule.mk k (erase p) (erase b) := rfl
theorem erase_funcDef_mk (i : Token) (a : List Bytes) (b : Stmt) :
    erase (FuncDef.mk i a b) = FuncDef.mk (erase i) a (erase b) := rfl
theorem erase_program_mk (r : List Rule) (f : List FuncDef) :
    erase (Program.mk r f) = Program.mk (erase r) (erase f) := rfl
theorem erase_optToken_def (o : Option Token) : erase o = o.map Token.erase := rfl
theorem erase_expr_def (e : Expr) : erase e = e.erase := rfl
theorem erase_stmt_def (e : Stmt) : erase e = e.erase := rfl
theorem erase_token_def (e : Token) : erase e = e.erase := rfl
theorem erase_case_def (e : MatchCase) : erase e = e.erase := rfl

theorem token_erase_eq_iff (t u : Token) : t.erase = u.erase ↔ t.tag = u.tag ∧ t.text = u.text :=
  erase_token_eq_iff t u

theorem assignable_of_erase {e₁ e₂ : Expr} (h : erase e₁ = erase e₂) :
    assignable e₁ = assignable e₂ := by
  rw [erase_expr_def, erase_expr_def] at h
  cases e₁ <;> cases e₂ <;> simp [Expr.erase, assignable] at h ⊢
  rw [token_erase_eq_iff] at h
  simp [h.2.2.1]

theorem rewriteCompound_erase {l₁ l₂ e₁ e₂ : Expr} {o₁ o₂ : Token} (hl : l₁.erase = l₂.erase)
    (he : e₁.erase = e₂.erase) (ho : o₁.erase = o₂.erase) :
    (rewriteCompound l₁ e₁ o₁).erase = (rewriteCompound l₂ e₂ o₂).erase := by
  rw [token_erase_eq_iff] at ho
  simp only [rewriteCompound, Expr.erase, hl, he, Token.erase, ho.1, ho.2]

theorem ident_or_not {e₁ e₂ : Expr} (h : erase e₁ = erase e₂) :
    (∃ i₁ i₂, e₁ = .ident i₁ ∧ e₂ = .ident i₂ ∧ i₁.erase = i₂.erase) ∨
    ((∀ i, e₁ ≠ .ident i) ∧ (∀ i, e₂ ≠ .ident i)) := by
  rw [erase_expr_def, erase_expr_def] at h
  cases e₁ <;> cases e₂ <;> simp [Expr.erase] at h ⊢
  exact h

namespace PSim

theorem ite_same {c : Prop} [Decidable c] {a₁ a₂ b₁ b₂ : P α}
    (ht : c → PSim a₁ a₂) (he : ¬c → PSim b₁ b₂) :
    PSim (if c then a₁ else b₁) (if c then a₂ else b₂) := by
  split
  · exact ht ‹_›
  · exact he ‹_›

theorem consume (tag : Tag) : PSim (Parser.consume tag) (Parser.consume tag) := by
  unfold Parser.consume
  refine bind get fun s₁ s₂ hs => ?_
  simp only [ps_cur_tag hs]
  exact ite_same (fun _ => advance) (fun _ => fail)

theorem consumeOf (tags : List Tag) : PSim (Parser.consumeOf tags) (Parser.consumeOf tags) := by
  unfold Parser.consumeOf
  refine bind get fun s₁ s₂ hs => ?_
  simp only [ps_cur_tag hs]
  exact ite_same (fun _ => advance) (fun _ => fail)

theorem consumeIgnore (tag : Tag) : PSim (Parser.consumeIgnore tag) (Parser.consumeIgnore tag) := by
  unfold Parser.consumeIgnore
  refine bind get fun s₁ s₂ hs => ?_
  simp only [ps_cur_tag hs]
  exact ite_same (fun _ => advance) (fun _ => pure rfl)

theorem curTag : PSim Parser.curTag Parser.curTag := by
  unfold Parser.curTag
  refine bind get fun s₁ s₂ hs => ?_
  exact pure (ps_cur_tag hs)

theorem atEnd : PSim Parser.atEnd Parser.atEnd := by
  unfold Parser.atEnd
  refine bind get fun s₁ s₂ hs => ?_
  exact pure (by simp [ps_cur_tag hs])

theorem setDidEnd (b : Bool) : PSim (Parser.setDidEnd b) (Parser.setDidEnd b) := by
  unfold Parser.setDidEnd
  refine modify fun s₁ s₂ hs => ?_
  rw [erase_ps_eq_iff] at hs ⊢
  simp [hs]

theorem atStatementEnd : PSim Parser.atStatementEnd Parser.atStatementEnd := by
  unfold Parser.atStatementEnd
  refine bind get fun s₁ s₂ hs => ?_
  simp only [ps_cur_tag hs, ps_didEnd hs]
  refine ite_same (fun _ => pure rfl) (fun _ => ?_)
  split
  · exact pure rfl
  · exact bind advance fun _ _ _ => pure rfl
  · exact pure rfl

theorem regexPrefix : PSim Parser.regexPrefix Parser.regexPrefix := by
  intro s₁ s₂ hs
  unfold Parser.regexPrefix
  refine PM.Sim.regex fun t₁ t₂ ht => ?_
  have : PSim (do Parser.advance; return Expr.lit t₁ : P Expr) (do Parser.advance; return Expr.lit t₂) :=
    bind advance fun _ _ _ => pure (by
      show Expr.erase _ = Expr.erase _
      simp only [Expr.erase]; congr 1)
  apply this
  rw [erase_ps_eq_iff] at hs ⊢
  rw [erase_token_eq_iff] at ht
  simp [hs, ht]

end PSim

/-- the parametricity statement for all functions of the mutual block, at fuels `n₁`, `n₂` -/
structure AllSim (tbl : RuleTable) (n₁ n₂ : Nat) : Prop where
  statement : PSim (statement tbl n₁) (statement tbl n₂)
  loopBody : PSim (loopBody tbl n₁) (loopBody tbl n₂)
  block : PSim (block tbl n₁) (block tbl n₂)
  blockLoop : ∀ a₁ a₂ : List Stmt, erase a₁ = erase a₂ →
    PSim (blockLoop tbl n₁ a₁) (blockLoop tbl n₂ a₂)
  printStatement : PSim (printStatement tbl n₁) (printStatement tbl n₂)
  printLoop : ∀ a₁ a₂ : List Expr, erase a₁ = erase a₂ →
    PSim (printLoop tbl n₁ a₁) (printLoop tbl n₂ a₂)
  expressionWithPrec : ∀ prec, PSim (expressionWithPrec tbl n₁ prec) (expressionWithPrec tbl n₂ prec)
  infixLoop : ∀ prec (l₁ l₂ : Expr), erase l₁ = erase l₂ →
    PSim (infixLoop tbl n₁ prec l₁) (infixLoop tbl n₂ prec l₂)
  prefixFn : ∀ pk, PSim (prefixFn tbl n₁ pk) (prefixFn tbl n₂ pk)
  exprList : ∀ endTag (a₁ a₂ : List Expr), erase a₁ = erase a₂ →
    PSim (exprList tbl n₁ endTag a₁) (exprList tbl n₂ endTag a₂)
  objectLoop : ∀ a₁ a₂ : List (Bytes × Expr), erase a₁ = erase a₂ →
    PSim (objectLoop tbl n₁ a₁) (objectLoop tbl n₂ a₂)
  matchCases : ∀ a₁ a₂ : List MatchCase, erase a₁ = erase a₂ →
    PSim (matchCases tbl n₁ a₁) (matchCases tbl n₂ a₂)
  matchPats : ∀ a₁ a₂ : List Expr, erase a₁ = erase a₂ →
    PSim (matchPats tbl n₁ a₁) (matchPats tbl n₂ a₂)
  infixFn : ∀ ik (l₁ l₂ : Expr), erase l₁ = erase l₂ →
    PSim (infixFn tbl n₁ ik l₁) (infixFn tbl n₂ ik l₂)

section tactics
set_option hygiene false

/-- goals that are instances of a known `PSim` fact or of the induction hypothesis `ih` -/
macro "psim_leaf" : tactic => `(tactic| with_reducible first
  | exact PSim.oofL
  | exact PSim.fail
  | exact PSim.advance
  | exact PSim.get
  | exact PSim.consume _
  | exact PSim.consumeOf _
  | exact PSim.consumeIgnore _
  | exact PSim.curTag
  | exact PSim.atEnd
  | exact PSim.setDidEnd _
  | exact PSim.atStatementEnd
  | exact PSim.regexPrefix
  | exact ih.statement
  | exact ih.loopBody
  | exact ih.block
  | exact ih.printStatement
  | exact ih.expressionWithPrec _
  | exact ih.prefixFn _
  | refine ih.blockLoop _ _ ?_
  | refine ih.printLoop _ _ ?_
  | refine ih.infixLoop _ _ _ ?_
  | refine ih.exprList _ _ _ ?_
  | refine ih.objectLoop _ _ ?_
  | refine ih.matchCases _ _ ?_
  | refine ih.matchPats _ _ ?_
  | refine ih.infixFn _ _ _ ?_)

/-- one structural step -/
macro "psim_step" : tactic => `(tactic| first
  | psim_leaf
  | with_reducible refine PSim.pure ?_
  | ((with_reducible refine PSim.bind ?_ (fun x₁ x₂ hx => ?_)) <;>
       ((try (simp only [erase_bool, erase_tag] at hx; subst hx));
        (try simp only [assignable_of_erase hx]);
        (try (rw [erase_prod_eq_iff] at hx
              obtain ⟨xa₁, xb₁⟩ := x₁
              obtain ⟨xa₂, xb₂⟩ := x₂
              dsimp only at hx
              obtain ⟨hxa, hxb⟩ := hx
              try (simp only [erase_bool, erase_tag] at hxb; subst hxb)));
        (try (have hcur := ps_cur hx; have hprev := ps_prev hx));
        (try simp only [ps_cur_tag hx, ps_cur_text hx, ps_prev_tag hx, ps_prev_text hx, ps_didEnd hx,
         ps_inFn hx, ps_inLoop hx]);
        (try dsimp only)))
  | with_reducible refine PSim.ite_same (fun _ => ?_) (fun _ => ?_)
  | (refine PSim.modify (fun s₁ s₂ hs => ?_); rw [erase_ps_eq_iff] at hs ⊢; simp [hs])
  | split)

/-- side conditions: equalities up to positions between results built from related parts -/
macro "psim_side" : tactic => `(tactic| (
  (try simp only [erase_pair, erase_cons, erase_reverse, erase_nil, erase_bool, erase_unit, erase_tag,
    erase_bytes, erase_some, erase_none, Prod.mk.injEq, List.cons.injEq, List.reverse_inj,
    erase_rule_mk, erase_funcDef_mk, erase_program_mk, erase_ruleKind, erase_listBytes, Rule.mk.injEq,
    FuncDef.mk.injEq, Program.mk.injEq,
    erase_expr_def, erase_stmt_def, erase_token_def, erase_case_def, erase_optToken_def, Expr.erase, Stmt.erase,
    MatchCase.erase, eraseExprs_eq, eraseStmts_eq, eraseKVs_eq, eraseCases_eq,
    true_and, and_true] at *) <;>
  (try simp [*])))

end tactics

variable {tbl : RuleTable} {n₁ n₂ : Nat}

theorem printLoop_step_param (ih : AllSim tbl n₁ n₂) (a₁ a₂ : List Expr) (ha : erase a₁ = erase a₂) :
    PSim (printLoop tbl (n₁ + 1) a₁) (printLoop tbl (n₂ + 1) a₂) := by
  unfold printLoop
  repeat' psim_step
  all_goals psim_side

theorem printStatement_step_param (ih : AllSim tbl n₁ n₂) :
    PSim (printStatement tbl (n₁ + 1)) (printStatement tbl (n₂ + 1)) := by
  unfold printStatement
  repeat' psim_step
  all_goals psim_side

theorem loopBody_step_param (ih : AllSim tbl n₁ n₂) :
    PSim (loopBody tbl (n₁ + 1)) (loopBody tbl (n₂ + 1)) := by
  unfold loopBody
  repeat' psim_step
  all_goals psim_side

theorem block_step_param (ih : AllSim tbl n₁ n₂) :
    PSim (block tbl (n₁ + 1)) (block tbl (n₂ + 1)) := by
  unfold block
  repeat' psim_step
  all_goals psim_side

theorem blockLoop_step_param (ih : AllSim tbl n₁ n₂) (a₁ a₂ : List Stmt) (ha : erase a₁ = erase a₂) :
    PSim (blockLoop tbl (n₁ + 1) a₁) (blockLoop tbl (n₂ + 1) a₂) := by
  unfold blockLoop
  repeat' psim_step
  all_goals psim_side

theorem expressionWithPrec_step_param (ih : AllSim tbl n₁ n₂) (prec : Nat) :
    PSim (expressionWithPrec tbl (n₁ + 1) prec) (expressionWithPrec tbl (n₂ + 1) prec) := by
  unfold expressionWithPrec
  repeat' psim_step
  all_goals psim_side

theorem infixLoop_step_param (ih : AllSim tbl n₁ n₂) (prec : Nat) (l₁ l₂ : Expr) (hl : erase l₁ = erase l₂) :
    PSim (infixLoop tbl (n₁ + 1) prec l₁) (infixLoop tbl (n₂ + 1) prec l₂) := by
  unfold infixLoop
  repeat' psim_step
  all_goals psim_side

theorem exprList_step_param (ih : AllSim tbl n₁ n₂) (endTag : Tag) (a₁ a₂ : List Expr)
    (ha : erase a₁ = erase a₂) :
    PSim (exprList tbl (n₁ + 1) endTag a₁) (exprList tbl (n₂ + 1) endTag a₂) := by
  unfold exprList
  repeat' psim_step
  all_goals psim_side

theorem objectLoop_step_param (ih : AllSim tbl n₁ n₂) (a₁ a₂ : List (Bytes × Expr))
    (ha : erase a₁ = erase a₂) :
    PSim (objectLoop tbl (n₁ + 1) a₁) (objectLoop tbl (n₂ + 1) a₂) := by
  unfold objectLoop
  repeat' psim_step
  all_goals psim_side

theorem matchCases_step_param (ih : AllSim tbl n₁ n₂) (a₁ a₂ : List MatchCase)
    (ha : erase a₁ = erase a₂) :
    PSim (matchCases tbl (n₁ + 1) a₁) (matchCases tbl (n₂ + 1) a₂) := by
  unfold matchCases
  repeat' psim_step
  all_goals psim_side

theorem matchPats_step_param (ih : AllSim tbl n₁ n₂) (a₁ a₂ : List Expr)
    (ha : erase a₁ = erase a₂) :
    PSim (matchPats tbl (n₁ + 1) a₁) (matchPats tbl (n₂ + 1) a₂) := by
  unfold matchPats
  repeat' psim_step
  all_goals psim_side

theorem prefixFn_step_param (ih : AllSim tbl n₁ n₂) (pk : PrefixKind) :
    PSim (prefixFn tbl (n₁ + 1) pk) (prefixFn tbl (n₂ + 1) pk) := by
  unfold prefixFn
  repeat' psim_step
  all_goals psim_side

theorem infixFn_step_param (ih : AllSim tbl n₁ n₂) (ik : InfixKind) (l₁ l₂ : Expr)
    (hl : erase l₁ = erase l₂) :
    PSim (infixFn tbl (n₁ + 1) ik l₁) (infixFn tbl (n₂ + 1) ik l₂) := by
  unfold infixFn
  simp only [assignable_of_erase hl]
  repeat' psim_step
  all_goals psim_side
  exact rewriteCompound_erase hl ‹_› hprev

theorem statement_step_param (ih : AllSim tbl n₁ n₂) :
    PSim (statement tbl (n₁ + 1)) (statement tbl (n₂ + 1)) := by
  unfold statement
  psim_step
  · psim_step
  psim_step
  · psim_step
  split
  case h_5 =>
    psim_step
    · psim_step
    psim_step
    · psim_step
    psim_step
    · psim_step
    psim_step
    · psim_step
    rename_i pre₁
    rcases ident_or_not hx with ⟨i₁, i₂, rfl, rfl, hi⟩ | ⟨hn₁, hn₂⟩
    · cases hflag : (x₁ == Tag.in_ || x₁ == Tag.comma)
      · dsimp only
        repeat' psim_step
        all_goals psim_side
      · dsimp only
        repeat' psim_step
        all_goals psim_side
    · split
      · rename_i id _; exact absurd rfl (hn₁ id)
      · split
        · rename_i id _; exact absurd rfl (hn₂ id)
        · repeat' psim_step
          all_goals psim_side
  all_goals (repeat' psim_step)
  all_goals psim_side

/-- parametricity of the whole mutual block, for any two amounts of fuel `n₁ ≤ n₂` -/
theorem allSim (tbl : RuleTable) : ∀ n₁ n₂, n₁ ≤ n₂ → AllSim tbl n₁ n₂ := by
  intro n₁
  induction n₁ with
  | zero =>
    intro n₂ _
    constructor
    all_goals intros
    · unfold statement; exact PSim.oofL
    · unfold loopBody; exact PSim.oofL
    · unfold block; exact PSim.oofL
    · unfold blockLoop; exact PSim.oofL
    · unfold printStatement; exact PSim.oofL
    · unfold printLoop; exact PSim.oofL
    · unfold expressionWithPrec; exact PSim.oofL
    · unfold infixLoop; exact PSim.oofL
    · unfold prefixFn; exact PSim.oofL
    · unfold exprList; exact PSim.oofL
    · unfold objectLoop; exact PSim.oofL
    · unfold matchCases; exact PSim.oofL
    · unfold matchPats; exact PSim.oofL
    · unfold infixFn; exact PSim.oofL
  | succ n₁ ih =>
    intro n₂ h
    cases n₂ with
    | zero => omega
    | succ n₂ =>
      have ih := ih n₂ (by omega)
      exact {
        statement := statement_step_param ih
        loopBody := loopBody_step_param ih
        block := block_step_param ih
        blockLoop := blockLoop_step_param ih
        printStatement := printStatement_step_param ih
        printLoop := printLoop_step_param ih
        expressionWithPrec := expressionWithPrec_step_param ih
        infixLoop := infixLoop_step_param ih
        prefixFn := prefixFn_step_param ih
        exprList := exprList_step_param ih
        objectLoop := objectLoop_step_param ih
        matchCases := matchCases_step_param ih
        matchPats := matchPats_step_param ih
        infixFn := infixFn_step_param ih }

/-! ### the top level -/

theorem parseRule_sim (ih : AllSim tbl n₁ n₂) : PSim (parseRule tbl n₁) (parseRule tbl n₂) := by
  unfold parseRule
  repeat' psim_step
  all_goals psim_side

theorem funcArgs_sim : ∀ n₁ n₂, n₁ ≤ n₂ → ∀ a₁ a₂ : List Bytes, erase a₁ = erase a₂ →
    PSim (funcArgs n₁ a₁) (funcArgs n₂ a₂) := by
  intro n₁
  induction n₁ with
  | zero => intro n₂ _ a₁ a₂ _; unfold funcArgs; exact PSim.oofL
  | succ n₁ ih =>
    intro n₂ h a₁ a₂ ha
    cases n₂ with
    | zero => omega
    | succ n₂ =>
      have ih := ih n₂ (by omega)
      unfold funcArgs
      repeat' psim_step
      all_goals first
        | (refine ih _ _ ?_; psim_side)
        | psim_side

theorem parseFunction_sim (ih : AllSim tbl n₁ n₂) (h : n₁ ≤ n₂) :
    PSim (parseFunction tbl n₁) (parseFunction tbl n₂) := by
  unfold parseFunction
  repeat' psim_step
  all_goals first
    | (refine funcArgs_sim _ _ h _ _ ?_; psim_side)
    | psim_side

theorem parseTop_sim (tbl : RuleTable) : ∀ n₁ n₂, n₁ ≤ n₂ → ∀ (r₁ r₂ : List Rule) (f₁ f₂ : List FuncDef),
    erase r₁ = erase r₂ → erase f₁ = erase f₂ →
    PSim (parseTop tbl n₁ r₁ f₁) (parseTop tbl n₂ r₂ f₂) := by
  intro n₁
  induction n₁ with
  | zero => intros; unfold parseTop; exact PSim.oofL
  | succ n₁ ih =>
    intro n₂ h r₁ r₂ f₁ f₂ hr hf
    cases n₂ with
    | zero => omega
    | succ n₂ =>
      have ihT := ih n₂ (by omega)
      have ih := allSim tbl n₁ n₂ (by omega)
      unfold parseTop
      repeat' psim_step
      all_goals first
        | exact parseFunction_sim ih (by omega)
        | exact parseRule_sim ih
        | (refine ihT _ _ _ _ ?_ ?_ <;> psim_side)
        | psim_side

theorem parseProgram_sim (tbl : RuleTable) (n₁ n₂ : Nat) (h : n₁ ≤ n₂) :
    PSim (parseProgram tbl n₁) (parseProgram tbl n₂) := by
  unfold parseProgram
  exact PSim.bind PSim.advance fun _ _ _ => parseTop_sim tbl n₁ n₂ h _ _ _ _ rfl rfl

theorem parseExpression_sim (tbl : RuleTable) (n₁ n₂ : Nat) (h : n₁ ≤ n₂) :
    PSim (parseExpression tbl n₁) (parseExpression tbl n₂) := by
  have ih := allSim tbl n₁ n₂ h
  unfold parseExpression
  repeat' psim_step
  all_goals psim_side

end Jqawk
