/-
  C13, newline insertion at the level of bytes, part 2: following the parser's own run.
  `Nl.nextStates` records, for a run of a parser program against the lexer, the ghost state and
  the lexer state at every `next` request.  If one of the recorded lexer states has the unread
  text `v ++ b` (`v` vertical trivia), the text with `w` in place of `v` is lexed — under the same
  requests — to the same tokens up to positions, the token after the trivia possibly with the
  newline flag raised (`Nl.walk`).
-/
import Jqawk.Lemmas.NewlineBytes

namespace Jqawk
namespace Nl
open Lexer

/-- ghost state and lexer state at every `next` request of the run of `m` from `s`, up to and
    including the request that is answered by the end of the text -/
def nextStates {α : Type} : G → PM α → LexState → List (G × LexState)
  | g, .next k, s => (g, s) ::
    match Lexer.nextNN (s.rest.length + 1) s false with
    | .ok (t, nl, s') => if t.tag = .eof then [] else nextStates (g.step t) (k t nl) s'
    | .error _ => []
  | g, .regex k, s =>
    match Lexer.regex s with
    | .ok (t, s') => nextStates (g.step t) (k t) s'
    | .error _ => []
  | _, .pure _, _ => []
  | _, .fail _, _ => []
  | _, .oof, _ => []

/-- the recorded states have suffixes of the text as unread text -/
theorem nextStates_suffix {α : Type} (m : PM α) : ∀ (g : G) (s : LexState) (g' : G) (s' : LexState),
    (g', s') ∈ nextStates g m s → ∃ pre, s.rest = pre ++ s'.rest := by
  induction m with
  | pure a => intro g s g' s' h; simp [nextStates] at h
  | fail e => intro g s g' s' h; simp [nextStates] at h
  | oof => intro g s g' s' h; simp [nextStates] at h
  | next k ih =>
    intro g s g' s' h
    simp only [nextStates, List.mem_cons, Prod.mk.injEq] at h
    rcases h with ⟨_, rfl⟩ | h
    · exact ⟨[], rfl⟩
    · cases hn : nextNN (s.rest.length + 1) s false with
      | error e => rw [hn] at h; simp at h
      | ok r =>
        obtain ⟨t, nl, s₁⟩ := r
        rw [hn] at h
        dsimp only at h
        split at h
        · simp at h
        obtain ⟨pre₂, h2⟩ := ih t nl _ _ _ _ h
        obtain ⟨⟨pre₁, h1⟩, _⟩ := nextNN_suffix _ _ _ _ _ _ hn
        exact ⟨pre₁ ++ pre₂, by rw [h1, h2, List.append_assoc]⟩
  | regex k ih =>
    intro g s g' s' h
    simp only [nextStates] at h
    cases hn : regex s with
    | error e => rw [hn] at h; simp at h
    | ok r =>
      obtain ⟨t, s₁⟩ := r
      rw [hn] at h
      obtain ⟨pre₂, h2⟩ := ih t _ _ _ _ h
      obtain ⟨pre₁, h1⟩ := regex_suffix s t s₁ hn
      exact ⟨pre₁ ++ pre₂, by rw [h1, h2, List.append_assoc]⟩

theorem NSim.next_inv {α β : Type} {Q : G → α → β → Prop} {g : G} {k : Token → Bool → PM α}
    {k' : Token → Bool → PM β} (h : NSim Q g (.next k) (.next k')) :
    ∀ t nl nl', FlagOK g t nl nl' → NSim Q (g.step t) (k t nl) (k' t nl') := by
  cases h with
  | next h => exact h

theorem NSim.regex_inv {α β : Type} {Q : G → α → β → Prop} {g : G} {k : Token → PM α}
    {k' : Token → PM β} (h : NSim Q g (.regex k) (.regex k')) :
    ∀ t, t.tag = .regex → NSim Q (g.step t) (k t) (k' t) := by
  cases h with
  | regex h => exact h

/-- the initial flag is or-ed to the result -/
theorem nextNN_or_flag (f : Nat) (s : LexState) (c : Bool) :
    nextNN f s c = match nextNN f s false with
      | .ok (t, nl, s') => .ok (t, nl || c, s')
      | .error e => .error e := by
  cases c with
  | false => cases nextNN f s false with
    | error e => rfl
    | ok r => obtain ⟨t, nl, s'⟩ := r; simp
  | true =>
    rw [nextNN_flag_true]
    cases nextNN f s false with
    | error e => rfl
    | ok r => obtain ⟨t, nl, s'⟩ := r; simp

theorem vtrivia_sepStart {w b : Bytes} (hw : VTrivia w b) (hne : w ≠ []) : SepStart (w ++ b) := by
  cases hw with
  | nil => exact absurd rfl hne
  | blank c t rest hc _ =>
    intro d hd
    simp only [List.cons_append, List.head?_cons, Option.some.injEq] at hd
    subst hd
    simp only [isBlankB, Bool.or_eq_true, beq_iff_eq] at hc
    rcases hc with (rfl | rfl) | rfl <;> rfl
  | comment body t rest _ _ _ =>
    intro d hd
    simp only [List.cons_append, List.head?_cons, Option.some.injEq] at hd
    subst hd; rfl
  | newline t rest _ =>
    intro d hd
    simp only [List.cons_append, List.head?_cons, Option.some.injEq] at hd
    subst hd; rfl

/-- what the two sides receive at the boundary: tokens equal up to positions, successor states
    with the same unread text, flags `nl₀ || v has a newline` resp. `nl₀ || w has a newline` -/
theorem boundary_answers {v w b : Bytes} (hv : VTrivia v b) (hw : VTrivia w b) (p ts p' ts' : Nat)
    (t : Token) (nl : Bool) (s₁' : LexState)
    (h : nextNN ((v ++ b).length + 1) ⟨v ++ b, p, ts⟩ false = .ok (t, nl, s₁')) :
    ∃ t' nl₀ s₂', nextNN ((w ++ b).length + 1) ⟨w ++ b, p', ts'⟩ false
        = .ok (t', nl₀ || w.contains 10, s₂') ∧
      nl = (nl₀ || v.contains 10) ∧ erase t = erase t' ∧ SameRest s₁' s₂' := by
  have h1 := nextNN_vtrivia hv p ts 0 0 false
  have h2 := nextNN_vtrivia hw p' ts' 0 0 false
  rw [h] at h1
  simp only [Bool.false_or] at h1 h2
  rw [nextNN_or_flag (b.length + 1) ⟨b, 0, 0⟩ (v.contains 10)] at h1
  rw [nextNN_or_flag (b.length + 1) ⟨b, 0, 0⟩ (w.contains 10)] at h2
  cases hb : nextNN (b.length + 1) ⟨b, 0, 0⟩ false with
  | error e => rw [hb] at h1; exact h1.elim
  | ok r =>
    obtain ⟨tb, nl₀, sb'⟩ := r
    rw [hb] at h1 h2
    dsimp only at h1 h2
    obtain ⟨e1, rfl, hs1⟩ := h1
    cases hr : nextNN ((w ++ b).length + 1) ⟨w ++ b, p', ts'⟩ false with
    | error e => rw [hr] at h2; exact h2.elim
    | ok r₂ =>
      obtain ⟨t', nl', s₂'⟩ := r₂
      rw [hr] at h2
      obtain ⟨e2, rfl, hs2⟩ := h2
      exact ⟨t', nl₀, s₂', rfl, rfl, e1.trans e2.symm, hs1.trans hs2.symm⟩

theorem lexerSrc_next (s : LexState) : lexerSrc.next s = nextNN (s.rest.length + 1) s false := rfl
theorem lexerSrc_regex (s : LexState) : lexerSrc.regex s = regex s := rfl

/-- the data of an insertion point: trivia `v` replaced by `w` in front of `b`; `gb`, `sb` the
    ghost and lexer state of the recorded `next` request -/
structure Ins (v w b : Bytes) (gb : G) (sb : LexState) : Prop where
  hv : VTrivia v b
  hw : VTrivia w b
  wne : w ≠ []
  more : v.contains 10 = true → w.contains 10 = true
  rest : sb.rest = v ++ b
  allowed : v.contains 10 = false → w.contains 10 = true →
    ∀ t nl s', nextNN (sb.rest.length + 1) sb false = .ok (t, nl, s') → nl = false →
      Allowed gb t = true

/-- The walk: `m` (left, possibly less fuel) and `m'` related up to positions, `m'` related to
    itself for newline insertion; the left lexer state has `x ++ v ++ b` unread, the right one
    `x ++ w ++ b` at the same offsets; the left run passes the recorded state `sb`.  Then a
    successful left run is matched by a successful right run. -/
theorem walk {α : Type} [Erase α] {Q : G → α → α → Prop} {v w b : Bytes} {gb : G} {sb : LexState}
    (I : Ins v w b gb sb) : ∀ {m m' : PM α}, PM.Sim m m' → ∀ (g : G) (s₁ : LexState) (x : Bytes),
      NSim Q g m' m' → s₁.rest = x ++ (v ++ b) → (gb, sb) ∈ nextStates g m s₁ →
      ∀ a, m.runWith lexerSrc s₁ = .ok a →
      ∃ a₁ a₂ g', m'.runWith lexerSrc ⟨x ++ (w ++ b), s₁.pos, s₁.tokenStart⟩ = .ok a₂ ∧
        erase a = erase a₁ ∧ Q g' a₁ a₂ := by
  have hsep : SepStart (w ++ b) := vtrivia_sepStart I.hw I.wne
  intro m m' hsim
  induction hsim with
  | pure _ => intro g s₁ x _ _ hm; simp [nextStates] at hm
  | fail _ => intro g s₁ x _ _ hm; simp [nextStates] at hm
  | oofL => intro g s₁ x _ _ hm; simp [nextStates] at hm
  | @next k₁ k₂ hk ih =>
    intro g s₁ x hns hx hm a hr
    obtain ⟨r₁, p₁, ts₁⟩ := s₁
    dsimp only at hx
    subst hx
    simp only [nextStates, List.mem_cons, Prod.mk.injEq] at hm
    simp only [PM.runWith, lexerSrc_next] at hr ⊢
    rcases hm with ⟨hg, hs⟩ | hm
    · -- the boundary
      have hrest : x ++ (v ++ b) = v ++ b := by
        have := I.rest; rw [hs] at this; exact this
      have hx0 : x = [] := by
        have hlen := congrArg List.length hrest
        simp only [List.length_append] at hlen
        exact List.eq_nil_of_length_eq_zero (by omega)
      subst hx0
      simp only [List.nil_append] at hr ⊢
      cases hn : nextNN ((v ++ b).length + 1) ⟨v ++ b, p₁, ts₁⟩ false with
      | error e => rw [hn] at hr; cases hr
      | ok r =>
        obtain ⟨t, nl, s₁'⟩ := r
        rw [hn] at hr
        dsimp only at hr
        obtain ⟨t', nl₀, s₂', h2, hnl, het, hsr⟩ :=
          boundary_answers I.hv I.hw p₁ ts₁ p₁ ts₁ t nl s₁' hn
        rw [h2]
        dsimp only
        -- positions
        have hA := PM.run_sim sameRest_isSimE (hk t t' nl het) s₁' s₂' hsr
        rw [hr] at hA
        cases hm₂ : (k₂ t' nl).runWith lexerSrc s₂' with
        | syntaxErr e => rw [hm₂] at hA; cases hA
        | oof => rw [hm₂] at hA; cases hA
        | ok a₁ =>
          rw [hm₂] at hA
          cases hA with
          | ok hea =>
            -- the flag
            have hfl : FlagOK g t' nl (nl₀ || w.contains 10) := by
              rw [hnl]
              cases hcv : v.contains 10 with
              | true => rw [I.more hcv]; exact .inl rfl
              | false =>
                cases hcw : w.contains 10 with
                | false => exact .inl rfl
                | true =>
                  cases nl₀ with
                  | true => exact .inl rfl
                  | false =>
                    refine .inr ⟨rfl, rfl, ?_⟩
                    have hal := I.allowed hcv hcw t nl s₁'
                    rw [hs, hg] at hal
                    have := hal (by simpa using hn) (by rw [hnl, hcv]; rfl)
                    unfold Allowed at this ⊢
                    rw [← erase_tag_eq het]; exact this
            have hB := NSim.next_inv hns t' nl (nl₀ || w.contains 10) hfl
            obtain ⟨g', a₂, hb, hq⟩ := run_nlsim idSrc_isNlSim hB (s₁ := s₂') (s₂ := s₂') rfl hm₂
            exact ⟨a₁, a₂, g', hb, hea, hq⟩
    · -- before the boundary
      cases hn : nextNN ((x ++ (v ++ b)).length + 1) ⟨x ++ (v ++ b), p₁, ts₁⟩ false with
      | error e => rw [hn] at hm; simp at hm
      | ok r =>
        obtain ⟨t, nl, s₁'⟩ := r
        rw [hn] at hm hr
        dsimp only at hm hr
        have hteof : t.tag ≠ .eof := by
          intro he; rw [if_pos he] at hm; simp at hm
        rw [if_neg hteof] at hm
        obtain ⟨pre, hpre⟩ := nextStates_suffix _ _ _ _ _ hm
        have hl : (v ++ b).length ≤ s₁'.rest.length := by
          have := congrArg List.length hpre
          rw [I.rest] at this
          simp only [List.length_append] at this ⊢; omega
        let F := (x ++ (v ++ b)).length + (x ++ (w ++ b)).length + 1
        have hnF : nextNN F ⟨x ++ (v ++ b), p₁, ts₁⟩ false = .ok (t, nl, s₁') := by
          rw [nextNN_fuel F ((x ++ (v ++ b)).length + 1) _ _ (by simp [F]; omega) (by simp)]
          exact hn
        obtain ⟨x', e1, e2⟩ := nextNN_stable (v ++ b) (w ++ b) hsep F x _ _ false t nl s₁' (.inr hteof) hnF hl
        have hnR : nextNN ((x ++ (w ++ b)).length + 1) ⟨x ++ (w ++ b), p₁, ts₁⟩ false
            = .ok (t, nl, ⟨x' ++ (w ++ b), s₁'.pos, s₁'.tokenStart⟩) := by
          rw [nextNN_fuel _ F _ _ (by simp) (by simp [F]; omega)]
          exact e2
        rw [hnR]
        dsimp only
        exact ih t t nl rfl (g.step t) s₁' x' (NSim.next_inv hns t nl nl (.inl rfl)) e1 hm a hr
  | @regex k₁ k₂ hk ih =>
    intro g s₁ x hns hx hm a hr
    obtain ⟨r₁, p₁, ts₁⟩ := s₁
    dsimp only at hx
    subst hx
    simp only [nextStates] at hm
    simp only [PM.runWith, lexerSrc_regex] at hr ⊢
    cases hn : regex ⟨x ++ (v ++ b), p₁, ts₁⟩ with
    | error e => rw [hn] at hm; simp at hm
    | ok r =>
      obtain ⟨t, s₁'⟩ := r
      rw [hn] at hm hr
      dsimp only at hm hr
      obtain ⟨pre, hpre⟩ := nextStates_suffix _ _ _ _ _ hm
      have hl : (v ++ b).length ≤ s₁'.rest.length := by
        have := congrArg List.length hpre
        rw [I.rest] at this
        simp only [List.length_append] at this ⊢; omega
      obtain ⟨x', e1, e2⟩ := regex_stable (v ++ b) (w ++ b) x _ _ t s₁' hn hl
      rw [e2]
      dsimp only
      have htag := regex_tag _ _ _ hn
      exact ih t t rfl (g.step t) s₁' x' (NSim.regex_inv hns t htag) e1 hm a hr

/-- newline insertion at the level of bytes for the program parser, fuel `n₁ ≤ n₂` -/
theorem parseProgram_bytes {tbl : RuleTable} (hT : TableOK tbl = true) {a v w b : Bytes} {gb : G}
    {sb : LexState} (I : Ins v w b gb sb) (n₁ n₂ : Nat) (hn : n₁ ≤ n₂)
    (hreach : (gb, sb) ∈ nextStates G.init (Parser.parseProgram tbl n₁ PS.init)
      (LexState.init (a ++ (v ++ b))))
    {p : Program} {st : PS}
    (hr : (Parser.parseProgram tbl n₁ PS.init).run (LexState.init (a ++ (v ++ b))) = .ok (p, st)) :
    ∃ p' st', (Parser.parseProgram tbl n₂ PS.init).run (LexState.init (a ++ (w ++ b))) = .ok (p', st') ∧
      erase p = erase p' := by
  rw [PM.run_eq_runWith] at hr
  have hsim := parseProgram_sim tbl n₁ n₂ hn PS.init PS.init rfl
  have hns := parseProgram_nl hT n₂ G.init PS.init PS.init (R.same rfl) rfl
  obtain ⟨⟨p₁, st₁⟩, ⟨p₂, st₂⟩, g', h2, he, hq⟩ :=
    walk I hsim G.init (LexState.init (a ++ (v ++ b))) a hns rfl hreach (p, st) hr
  simp only [erase_pair, Prod.mk.injEq] at he
  have : p₁ = p₂ := hq.2.1
  subst this
  exact ⟨p₁, st₂, by rw [PM.run_eq_runWith]; exact h2, he.1⟩

theorem parseExpression_bytes {tbl : RuleTable} (hT : TableOK tbl = true) {a v w b : Bytes} {gb : G}
    {sb : LexState} (I : Ins v w b gb sb) (n₁ n₂ : Nat) (hn : n₁ ≤ n₂)
    (hreach : (gb, sb) ∈ nextStates G.init (Parser.parseExpression tbl n₁ PS.init)
      (LexState.init (a ++ (v ++ b))))
    {p : Expr} {st : PS}
    (hr : (Parser.parseExpression tbl n₁ PS.init).run (LexState.init (a ++ (v ++ b))) = .ok (p, st)) :
    ∃ p' st', (Parser.parseExpression tbl n₂ PS.init).run (LexState.init (a ++ (w ++ b))) = .ok (p', st') ∧
      erase p = erase p' := by
  rw [PM.run_eq_runWith] at hr
  have hsim := parseExpression_sim tbl n₁ n₂ hn PS.init PS.init rfl
  have hns := parseExpression_nl hT n₂ G.init PS.init PS.init (R.same rfl) rfl
  obtain ⟨⟨p₁, st₁⟩, ⟨p₂, st₂⟩, g', h2, he, hq⟩ :=
    walk I hsim G.init (LexState.init (a ++ (v ++ b))) a hns rfl hreach (p, st) hr
  simp only [erase_pair, Prod.mk.injEq] at he
  have : p₁ = p₂ := hq.2.1
  subst this
  exact ⟨p₁, st₂, by rw [PM.run_eq_runWith]; exact h2, he.1⟩

end Nl
end Jqawk
