/-
  Lemmas for C16: `splitOn` (strings.Split with a non-empty separator) and `explode`.
-/
import Jqawk.Model.Natives
namespace Jqawk
open Jqawk

theorem isPrefixOf_iff (a b : Bytes) : Bytes.isPrefixOf a b = true ↔ a <+: b := by
  induction a generalizing b with
  | nil => simp [Bytes.isPrefixOf]
  | cons x a ih =>
    cases b with
    | nil => simp [Bytes.isPrefixOf]
    | cons y b => simp [Bytes.isPrefixOf, ih, List.cons_prefix_cons]

theorem isPrefixOf_eq_append (a b : Bytes) (h : Bytes.isPrefixOf a b = true) :
    b = a ++ b.drop a.length := by
  obtain ⟨t, rfl⟩ := (isPrefixOf_iff a b).mp h
  simp

theorem joinSep_cons_of_ne_nil (sep x : Bytes) (xs : List Bytes) (h : xs ≠ []) :
    joinSep sep (x :: xs) = x ++ sep ++ joinSep sep xs := by
  cases xs with
  | nil => exact absurd rfl h
  | cons y ys => rfl

theorem splitOnAux_ne_nil (sep : Bytes) (fuel : Nat) (s cur : Bytes) : splitOnAux sep fuel s cur ≠ [] := by
  induction fuel generalizing s cur with
  | zero => simp [splitOnAux]
  | succ fuel ih =>
    cases s with
    | nil => simp [splitOnAux]
    | cons c cs =>
      simp only [splitOnAux]
      split
      · simp
      · exact ih _ _

theorem joinSep_splitOnAux (sep : Bytes) (hsep : sep ≠ []) (fuel : Nat) (s cur : Bytes)
    (hf : s.length < fuel) :
    joinSep sep (splitOnAux sep fuel s cur) = cur.reverse ++ s := by
  induction fuel generalizing s cur with
  | zero => omega
  | succ fuel ih =>
    cases s with
    | nil => simp [splitOnAux, joinSep]
    | cons c cs =>
      simp only [splitOnAux]
      split
      · rename_i hp
        have hlen : 0 < sep.length := List.length_pos_iff.mpr hsep
        rw [joinSep_cons_of_ne_nil _ _ _ (splitOnAux_ne_nil _ _ _ _), ih _ _ (by
          simp only [List.length_drop, List.length_cons] at hf ⊢; omega)]
        simp only [List.reverse_nil, List.nil_append, List.append_assoc]
        rw [← isPrefixOf_eq_append _ _ hp]
      · rw [ih _ _ (by simp only [List.length_cons] at hf; omega)]
        simp

/-- `sep` does not occur in `pre ++ s` at any position inside `pre` -/
def NoOcc (sep pre s : Bytes) : Prop := ∀ a b, pre = a ++ b → b ≠ [] → ¬ sep <+: (b ++ s)

theorem NoOcc.nil (sep s : Bytes) : NoOcc sep [] s := by
  intro a b h hb
  have : b = [] := by
    have := congrArg List.length h; simp at this; exact List.eq_nil_of_length_eq_zero (by omega)
  exact absurd this hb

theorem NoOcc.not_infix (sep pre s : Bytes) (hsep : sep ≠ []) (h : NoOcc sep pre s) : ¬ sep <:+: pre := by
  rintro ⟨a, b, hab⟩
  apply h a (sep ++ b) (by rw [← hab]; simp) (by simp [hsep])
  exact ⟨b ++ s, by simp⟩

theorem NoOcc.snoc (sep pre cs : Bytes) (c : UInt8) (h : NoOcc sep pre (c :: cs))
    (hc : ¬ sep <+: (c :: cs)) : NoOcc sep (pre ++ [c]) cs := by
  intro a b hab hb
  rcases List.eq_nil_or_concat b with rfl | ⟨b', x, rfl⟩
  · exact absurd rfl hb
  · rw [List.concat_eq_append, ← List.append_assoc] at hab
    have hx := List.append_inj' hab rfl
    obtain ⟨h1, h2⟩ := hx
    cases h2
    by_cases hb' : b' = []
    · subst hb'; simpa using hc
    · have := h a b' h1 hb'
      simpa using this

theorem splitOnAux_no_sep (sep : Bytes) (hsep : sep ≠ []) (fuel : Nat) (s cur : Bytes)
    (h : NoOcc sep cur.reverse s) : ∀ p ∈ splitOnAux sep fuel s cur, ¬ sep <:+: p := by
  induction fuel generalizing s cur with
  | zero =>
    intro p hp
    simp only [splitOnAux, List.mem_singleton] at hp
    subst hp; exact h.not_infix _ _ _ hsep
  | succ fuel ih =>
    cases s with
    | nil =>
      intro p hp
      simp only [splitOnAux, List.mem_singleton] at hp
      subst hp; exact h.not_infix _ _ _ hsep
    | cons c cs =>
      simp only [splitOnAux]
      split
      · intro p hp
        rcases List.mem_cons.mp hp with rfl | hp
        · exact h.not_infix _ _ _ hsep
        · exact ih _ _ (by simpa using NoOcc.nil sep _) p hp
      · rename_i hp
        apply ih
        rw [List.reverse_cons]
        exact h.snoc _ _ _ _ (fun hh => hp ((isPrefixOf_iff _ _).mpr hh))

/-! ### explode -/

theorem utf8DecodeHead_width (b0 : UInt8) (rest : Bytes) :
    1 ≤ (utf8DecodeHead (b0 :: rest)).2 ∧ (utf8DecodeHead (b0 :: rest)).2 ≤ 4 := by
  unfold utf8DecodeHead
  repeat' split
  all_goals (try simp only [apply_ite Prod.snd])
  all_goals (repeat' split)
  all_goals first | (constructor <;> simp; done) | simp_all

theorem explodeAux_flatten (fuel : Nat) (s : Bytes) (hf : s.length ≤ fuel) :
    (explodeAux fuel s).flatten = s := by
  induction fuel generalizing s with
  | zero =>
    have : s = [] := List.eq_nil_of_length_eq_zero (by omega)
    subst this; simp [explodeAux]
  | succ fuel ih =>
    cases s with
    | nil => simp [explodeAux]
    | cons c cs =>
      have hw := utf8DecodeHead_width c cs
      simp only [explodeAux, List.flatten_cons]
      rw [ih _ (by simp only [List.length_drop, List.length_cons] at hf ⊢; omega)]
      exact List.take_append_drop _ _

theorem explodeAux_pieces (fuel : Nat) (s : Bytes) :
    ∀ p ∈ explodeAux fuel s, 1 ≤ p.length ∧ p.length ≤ 4 := by
  induction fuel generalizing s with
  | zero => simp [explodeAux]
  | succ fuel ih =>
    cases s with
    | nil => simp [explodeAux]
    | cons c cs =>
      have hw := utf8DecodeHead_width c cs
      intro p hp
      simp only [explodeAux, List.mem_cons] at hp
      rcases hp with rfl | hp
      · simp only [List.length_take, List.length_cons]; omega
      · exact ih _ p hp

end Jqawk
