/-
  The rule driver of the model equals the schedule specification `Spec/Schedule.lean`, layer by
  layer (C02 infrastructure).  `lift` / `liftFlow` / `ofRoots` / `ofStep` read the results of the
  model's layers as ends of a piece of the schedule (`Ended`); each layer lemma is an exact
  equation for every state.
-/
import Jqawk.Spec.Schedule
import Jqawk.Lemmas.JsonPrefix
import Jqawk.Lemmas.DriverSignals

set_option linter.unusedSimpArgs false

namespace Jqawk.Sched
open Jqawk

/-! ### the scheduling monad -/

theorem bind_def {α β : Type} (m : Run α) (k : α → Run β) (s : St) :
    (m >>= k) s = (match m s with
      | .fine a s' => k a s'
      | .next s' => .next s'
      | .over o s' => .over o s'
      | .oof => .oof) := rfl

theorem pure_def {α : Type} (a : α) (s : St) : (pure a : Run α) s = .fine a s := rfl

theorem bind_fine {α β : Type} {m : Run α} {k : α → Run β} {s s' : St} {a : α}
    (h : m s = .fine a s') : (m >>= k) s = k a s' := by rw [bind_def, h]

theorem bind_next {α β : Type} {m : Run α} (k : α → Run β) {s s' : St}
    (h : m s = .next s') : (m >>= k) s = .next s' := by rw [bind_def, h]

/-- whatever follows a piece that ended the run does not run -/
theorem bind_over {α β : Type} {m : Run α} (k : α → Run β) {s s' : St} {o : Outcome}
    (h : m s = .over o s') : (m >>= k) s = .over o s' := by rw [bind_def, h]

theorem bind_oof {α β : Type} {m : Run α} (k : α → Run β) {s : St}
    (h : m s = .oof) : (m >>= k) s = .oof := by rw [bind_def, h]

theorem bind_assoc {α β γ : Type} (m : Run α) (k : α → Run β) (l : β → Run γ) :
    (m >>= k) >>= l = m >>= fun a => k a >>= l := by
  funext s
  simp only [bind_def]
  cases m s <;> rfl

theorem pure_bind {α β : Type} (a : α) (k : α → Run β) : (pure a : Run α) >>= k = k a := rfl

theorem bind_pure_unit (m : Run Unit) : (m >>= fun _ => (pure () : Run Unit)) = m := by
  funext s
  simp only [bind_def]
  cases m s <;> rfl

theorem uptoNext_fine {α : Type} {d : α} {m : Run α} {s s' : St} {a : α} (h : m s = .fine a s') :
    uptoNext d m s = .fine a s' := by simp [uptoNext, h]

/-- `next` is handled: the piece ends normally -/
theorem uptoNext_next {α : Type} {d : α} {m : Run α} {s s' : St} (h : m s = .next s') :
    uptoNext d m s = .fine d s' := by simp [uptoNext, h]

/-- the handler of `next` does not handle the end of the run -/
theorem uptoNext_over {α : Type} {d : α} {m : Run α} {s s' : St} {o : Outcome}
    (h : m s = .over o s') : uptoNext d m s = .over o s' := by simp [uptoNext, h]

theorem uptoNext_oof {α : Type} {d : α} {m : Run α} {s : St} (h : m s = .oof) :
    uptoNext d m s = .oof := by simp [uptoNext, h]

/-! ### `each`: list order, every item at most once, nothing after the first that does not end
    normally -/

theorem each_nil {α : Type} (f : α → Run Unit) : each [] f = pure () := rfl

theorem each_cons {α : Type} (x : α) (xs : List α) (f : α → Run Unit) :
    each (x :: xs) f = (do f x; each xs f) := rfl

theorem each_append {α : Type} (xs ys : List α) (f : α → Run Unit) :
    each (xs ++ ys) f = (do each xs f; each ys f) := by
  induction xs with
  | nil => rfl
  | cons x xs ih =>
    show (f x >>= fun _ => each (xs ++ ys) f) = ((f x >>= fun _ => each xs f) >>= fun _ => each ys f)
    rw [ih, bind_assoc]

/-- the items before position `k` ran normally, item `k` ended the run: the loop ended the run
    there — the later items (`post`, arbitrary) were not started -/
theorem each_over {α : Type} (pre post : List α) (x : α) (f : α → Run Unit) (s s1 s2 : St)
    (o : Outcome) (hpre : each pre f s = .fine () s1) (hx : f x s1 = .over o s2) :
    each (pre ++ x :: post) f s = .over o s2 := by
  rw [each_append, bind_fine hpre, each_cons, bind_over _ hx]

theorem each_next {α : Type} (pre post : List α) (x : α) (f : α → Run Unit) (s s1 s2 : St)
    (hpre : each pre f s = .fine () s1) (hx : f x s1 = .next s2) :
    each (pre ++ x :: post) f s = .next s2 := by
  rw [each_append, bind_fine hpre, each_cons, bind_next _ hx]

theorem each_fine_step {α : Type} (x : α) (xs : List α) (f : α → Run Unit) (s s1 : St)
    (hx : f x s = .fine () s1) : each (x :: xs) f s = each xs f s1 := by
  rw [each_cons, bind_fine hx]

/-- the started items are an initial segment of the list: list order, each at most once -/
theorem started_prefix {α : Type} (f : α → Run Unit) (xs : List α) (s : St) :
    started f xs s <+: xs := by
  induction xs generalizing s with
  | nil => exact List.prefix_refl _
  | cons x xs ih =>
    unfold started
    cases h : f x s with
    | fine u s' => simpa using ih s'
    | next s' => simp
    | over o s' => simp
    | oof => simp

/-- a loop that ended normally started every item (exactly once, in list order) -/
theorem started_all {α : Type} (f : α → Run Unit) (xs : List α) (s s' : St)
    (h : each xs f s = .fine () s') : started f xs s = xs := by
  induction xs generalizing s with
  | nil => rfl
  | cons x xs ih =>
    unfold started
    rw [each_cons, bind_def] at h
    cases hx : f x s with
    | fine u s1 => rw [hx] at h; simp [ih s1 h]
    | next s1 => rw [hx] at h; cases h
    | over o s1 => rw [hx] at h; cases h
    | oof => rw [hx] at h; cases h

/-- a loop that was ended by item `x` (the run is over, or `next`) started nothing after `x` -/
theorem started_stops {α : Type} (f : α → Run Unit) (pre post : List α) (x : α) (s s1 : St)
    (hpre : each pre f s = .fine () s1) (hx : ∀ s2, f x s1 ≠ .fine () s2) :
    started f (pre ++ x :: post) s = pre ++ [x] := by
  induction pre generalizing s with
  | nil =>
    cases hpre
    show started f (x :: post) s1 = [x]
    unfold started
    cases h : f x s1 with
    | fine u s2 => exact absurd h (hx s2)
    | next s2 => rfl
    | over o s2 => rfl
    | oof => rfl
  | cons y pre ih =>
    show started f (y :: (pre ++ x :: post)) s = y :: (pre ++ [x])
    unfold started
    rw [each_cons, bind_def] at hpre
    cases hy : f y s with
    | fine u s' => rw [hy] at hpre; simp [ih s' hpre]
    | next s' => rw [hy] at hpre; cases hpre
    | over o s' => rw [hy] at hpre; cases hpre
    | oof => rw [hy] at hpre; cases hpre

/-! ### evaluator actions as pieces of the schedule -/

theorem lift_def {α : Type} (src : Bytes) (m : EM α) (s : St) :
    lift src m s = (match m s with
      | .ok a s' => .fine a s'
      | .err (.sig .next) s' => .next s'
      | .err (.sig .exit) s' => .over .ok s'
      | .err e s' => .over (errOutcome src e) s'
      | .oof => .oof) := rfl

theorem lift_pure {α : Type} (src : Bytes) (a : α) : lift src (pure a : EM α) = pure a := rfl

theorem lift_bind {α β : Type} (src : Bytes) (m : EM α) (k : α → EM β) :
    lift src (m >>= k) = lift src m >>= fun a => lift src (k a) := by
  funext s
  show lift src (EM.bind m k) s = _
  simp only [bind_def, lift_def, EM.bind]
  cases m s with
  | ok a s' => rfl
  | err e s' =>
    cases e with
    | sig g => cases g <;> rfl
    | _ => rfl
  | oof => rfl

theorem lift_ok {α : Type} (src : Bytes) {m : EM α} {s s' : St} {a : α} (h : m s = .ok a s') :
    lift src m s = .fine a s' := by rw [lift_def, h]

/-- the results of the model's `Flow`-valued layers: `exit` = the run is over, successfully -/
def liftFlow (src : Bytes) (m : EM Flow) : Run Unit := fun s =>
  match lift src m s with
  | .fine .continue_ s' => .fine () s'
  | .fine .exit s' => .over .ok s'
  | .next s' => .next s'
  | .over o s' => .over o s'
  | .oof => .oof

theorem liftFlow_def (src : Bytes) (m : EM Flow) (s : St) :
    liftFlow src m s = (match lift src m s with
      | .fine .continue_ s' => .fine () s'
      | .fine .exit s' => .over .ok s'
      | .next s' => .next s'
      | .over o s' => .over o s'
      | .oof => .oof) := rfl

theorem liftFlow_pure (src : Bytes) : liftFlow src (pure .continue_) = pure () := rfl

theorem liftFlow_bind {α : Type} (src : Bytes) (m : EM α) (k : α → EM Flow) :
    liftFlow src (m >>= k) = lift src m >>= fun a => liftFlow src (k a) := by
  funext s
  rw [liftFlow_def, lift_bind]
  simp only [bind_def]
  cases lift src m s <;> rfl

/-! ### one element: `evalRules` -/

variable (prog : Program) (src : Bytes) (tbl : RuleTable)

theorem uptoNext_each_cons {α : Type} (x : α) (xs : List α) (f : α → Run Unit) (s : St) :
    uptoNext () (each (x :: xs) f) s = (match f x s with
      | .fine () s' => uptoNext () (each xs f) s'
      | .next s' => .fine () s'
      | .over o s' => .over o s'
      | .oof => .oof) := by
  simp only [uptoNext, each_cons, bind_def]
  cases f x s <;> rfl

theorem ruleSpec_model (r : Rule) (s : St) :
    ruleSpec (modelPrims prog src tbl) r s =
      (match r.pattern with
       | none => lift src (evalStmt prog evalFuel r.body) s
       | some p =>
         match lift src (do let c ← evalExpr prog evalFuel p; return (← readCell c).truthy : EM Bool) s with
         | .fine true s' => lift src (evalStmt prog evalFuel r.body) s'
         | .fine false s' => .fine () s'
         | .next s' => .next s'
         | .over o s' => .over o s'
         | .oof => .oof) := by
  unfold ruleSpec
  cases hp : r.pattern with
  | none => rfl
  | some p =>
    simp only [bind_def, modelPrims]
    cases lift src _ s with
    | fine b s' => cases b <;> rfl
    | _ => rfl

theorem evalRules_eq_spec (rules : List Rule) :
    lift src (evalRules prog rules) = runRulesSpec (modelPrims prog src tbl) rules := by
  induction rules with
  | nil => rfl
  | cons r rest ih =>
    funext s
    unfold runRulesSpec at ih ⊢
    rw [uptoNext_each_cons, ruleSpec_model, ← ih]
    conv => lhs; unfold evalRules
    cases hp : r.pattern with
    | none =>
      simp only [lift_def, bind, pure]
      cases hb : evalStmt prog evalFuel r.body s with
      | ok u s' => simp [EM.bind, EM.pure, catchSig, readCell, *]
      | err e s' =>
        cases e with
        | sig g => cases g <;> simp [EM.bind, EM.pure, catchSig, readCell, *]
        | _ => simp [EM.bind, EM.pure, catchSig, readCell, *]
      | oof => simp [EM.bind, EM.pure, catchSig, readCell, *]
    | some p =>
      simp only [lift_def, bind, pure]
      cases hc : evalExpr prog evalFuel p s with
      | ok c s1 =>
        cases ht : (s1.heap.get c).truthy with
        | false => simp [EM.bind, EM.pure, catchSig, readCell, *]
        | true =>
          simp only [EM.bind, EM.pure, catchSig, readCell, hc, ht]
          cases hb : evalStmt prog evalFuel r.body s1 with
          | ok u s' => simp [EM.bind, EM.pure, catchSig, readCell, *]
          | err e s' =>
            cases e with
            | sig g => cases g <;> simp [EM.bind, EM.pure, catchSig, readCell, *]
            | _ => simp [EM.bind, EM.pure, catchSig, readCell, *]
          | oof => simp [EM.bind, EM.pure, catchSig, readCell, *]
      | err e s' =>
        cases e with
        | sig g => cases g <;> simp [EM.bind, EM.pure, catchSig, readCell, *]
        | _ => simp [EM.bind, EM.pure, catchSig, readCell, *]
      | oof => simp [EM.bind, EM.pure, catchSig, readCell, *]
/-! ### the elements of a root: `evalElems`, `evalPatternRules` -/

theorem evalElems_eq_spec (rules : List Rule) (cells : List CellId) (i : Nat) :
    lift src (evalElems prog rules cells i) =
      each (cells.zipIdx i) (elementSpec (modelPrims prog src tbl) rules) := by
  induction cells generalizing i with
  | nil => rfl
  | cons c rest ih =>
    rw [List.zipIdx_cons, each_cons, ← ih]
    conv => lhs; unfold evalElems
    simp only [lift_bind, elementSpec, modelPrims, bind_assoc, evalRules_eq_spec prog src tbl]

theorem elements_model (root : CellId) (s : St) :
    (modelPrims prog src tbl).elements root s =
      .fine (match s.heap.get root with
             | .arr a => some (s.heap.arr a).toList
             | _ => none) s := by
  simp only [modelPrims, lift_def, bind, EM.bind, getHeap]
  cases s.heap.get root <;> rfl

theorem evalPatternRules_eq_spec (rules : List Rule) (root : CellId) (s : St) (hr : s.root = some root) :
    lift src (evalPatternRules prog rules) s =
      elementsSpec (modelPrims prog src tbl) rules root s := by
  unfold evalPatternRules elementsSpec
  rw [lift_bind, bind_def, bind_fine (elements_model prog src tbl root s)]
  simp only [lift_def, getSt, hr]
  simp only [← lift_def]
  cases hg : s.heap.get root with
  | arr a => simp only [evalElems_eq_spec prog src tbl]
  | _ => simp only [lift_bind, modelPrims, evalRules_eq_spec prog src tbl]
/-! ### one root: `evalSpecialRules`, `processRoot`, `processRoots` -/

/-- a `Flow`-valued layer followed by a match on the flow: `exit` skips the continuation -/
theorem liftFlow_thenFlow (m : EM Flow) (k : Flow → EM Flow) (hk : k .exit = pure .exit) :
    (lift src m >>= fun fl => liftFlow src (k fl)) =
      liftFlow src m >>= fun _ => liftFlow src (k .continue_) := by
  funext s
  simp only [bind_def, liftFlow_def]
  cases h : lift src m s with
  | fine fl s' => cases fl <;> simp [hk, lift_def, pure, EM.pure]
  | next s' => rfl
  | over o s' => rfl
  | oof => rfl

theorem liftFlow_ruleFlow (m : EM Unit) (k : Flow → EM Flow) (hk : k .exit = pure .exit) :
    (lift src (ruleFlow m) >>= fun fl => liftFlow src (k fl)) =
      uptoNext () (lift src m) >>= fun _ => liftFlow src (k .continue_) := by
  funext s
  simp only [bind_def, ruleFlow, uptoNext, lift_def]
  cases hm : m s with
  | ok u s' => simp
  | err e s' =>
    cases e with
    | sig g => cases g <;> simp [liftFlow_def, lift_def, pure, EM.pure, hk]
    | _ => simp
  | oof => simp

theorem liftFlow_catchExit (m : EM Unit) : liftFlow src (catchExit m) = lift src m := by
  funext s
  simp only [liftFlow_def, catchExit, lift_def]
  cases hm : m s with
  | ok u s' => simp
  | err e s' =>
    cases e with
    | sig g => cases g <;> simp
    | _ => simp
  | oof => simp

theorem evalSpecialRules_eq_spec (mk : EM CellId) (rules : List Rule) :
    liftFlow src (evalSpecialRules prog mk rules) =
      specialSpec (modelPrims prog src tbl) (lift src mk) rules := by
  induction rules with
  | nil => rfl
  | cons r rest ih =>
    unfold specialSpec at ih ⊢
    rw [each_cons, ← ih]
    conv => lhs; unfold evalSpecialRules
    simp only [liftFlow_bind]
    simp only [liftFlow_ruleFlow, specialRuleSpec, modelPrims, bind_assoc]

theorem setRoot_then_patterns {β : Type} (rules : List Rule) (root : CellId) (K : Unit → Run β) :
    (lift src (modifySt fun s => { s with root := some root }) >>= fun _ =>
      lift src (evalPatternRules prog rules) >>= K) =
    ((modelPrims prog src tbl).setRoot root >>= fun _ =>
      elementsSpec (modelPrims prog src tbl) rules root >>= K) := by
  funext s
  have h : lift src (modifySt fun s => { s with root := some root }) s
      = .fine () { s with root := some root } := rfl
  show _ = (lift src (modifySt fun s => { s with root := some root }) >>= fun _ =>
      elementsSpec (modelPrims prog src tbl) rules root >>= K) s
  rw [bind_fine h, bind_fine h, bind_def, bind_def,
    evalPatternRules_eq_spec prog src tbl rules root _ rfl]

/-- one root: `processRoot` -/
theorem processRoot_eq_spec (root : CellId) :
    liftFlow src (processRoot prog root) =
      rootSpec (modelPrims prog src tbl) (rulesByKind prog) root := by
  unfold processRoot rootSpec
  simp only [liftFlow_bind, liftFlow_thenFlow, liftFlow_catchExit, setRoot_then_patterns prog src tbl,
    evalSpecialRules_eq_spec prog src tbl]
  rfl

theorem processRoots_eq_spec (roots : List CellId) :
    liftFlow src (processRoots prog roots) =
      each roots (rootSpec (modelPrims prog src tbl) (rulesByKind prog)) := by
  induction roots with
  | nil => rfl
  | cons c rest ih =>
    rw [each_cons, ← ih, ← processRoot_eq_spec]
    conv => lhs; unfold processRoots
    simp only [liftFlow_bind, liftFlow_thenFlow]

/-! ### the roots of a value: `evalSelectors` -/

/-- the result of evaluating the selectors of one value, as the end of a piece of the schedule -/
def ofRoots : Roots → Ended (List CellId)
  | .cells cs s => .fine cs s
  | .exit s => .over .ok s
  | .stop .oof _ => .oof
  | .stop o s => .over o s

theorem select_model (sel : Bytes) (v : JVal) (s : St) :
    (modelPrims prog src tbl).select sel v s =
      (match evalSelector tbl sel v s with
       | .inl (.oof, _) => .oof
       | .inl (o, s') => .over o s'
       | .inr (.ok c, s') => .fine c s'
       | .inr (.error .exit, s') => .over .ok s'
       | .inr (.error _, s') => .next s') := rfl

theorem selectStep_model (sel : Bytes) (v : JVal) (s : St) :
    uptoNext none (do let c ← (modelPrims prog src tbl).select sel v; pure (some c)) s =
      (match evalSelector tbl sel v s with
       | .inl (.oof, _) => .oof
       | .inl (o, s') => .over o s'
       | .inr (.ok c, s') => .fine (some c) s'
       | .inr (.error .exit, s') => .over .ok s'
       | .inr (.error _, s') => .fine none s') := by
  simp only [uptoNext, bind_def, select_model]
  cases h : evalSelector tbl sel v s with
  | inl os =>
    obtain ⟨o, s'⟩ := os
    cases o <;> rfl
  | inr cs =>
    obtain ⟨r, s'⟩ := cs
    cases r with
    | ok c => rfl
    | error g => cases g <;> rfl

theorem evalSelectors_eq_spec (v : JVal) (sels : List Bytes) (acc : List CellId) (s : St) :
    ofRoots (evalSelectors tbl v sels acc s) =
      (selectAll (modelPrims prog src tbl) v sels >>= fun cs => pure (acc.reverse ++ cs)) s := by
  induction sels generalizing acc s with
  | nil => simp [evalSelectors, selectAll, ofRoots, bind_def, pure_def]
  | cons sel rest ih =>
    unfold evalSelectors selectAll
    rw [bind_assoc, bind_def, selectStep_model]
    cases h : evalSelector tbl sel v s with
    | inl os =>
      obtain ⟨o, s'⟩ := os
      cases o <;> simp [ofRoots]
    | inr cs =>
      obtain ⟨r, s'⟩ := cs
      cases r with
      | ok c =>
        simp only [ih, bind_def, pure_def]
        cases selectAll (modelPrims prog src tbl) v rest s' <;> simp
      | error g =>
        cases g <;>
          first
          | (simp only [ofRoots]; done)
          | (simp only [ih, bind_def, pure_def]
             cases selectAll (modelPrims prog src tbl) v rest s' <;> simp)
/-! ### `next` and `exit` do not come out of the processing of a root (any program) -/

theorem evalRules_no_next (rules : List Rule) : NoSig .next (evalRules prog rules) := by
  induction rules with
  | nil => exact NoSig.pure _ ()
  | cons rule rest ih =>
    unfold evalRules
    refine NoSig.bind ?_ (fun r => ?_)
    · split
      · exact NoSig.pure _ _
      · exact NoSig.catchSig_same _ _ _
    · split
      · exact NoSig.pure _ _
      · split
        · exact ih
        · refine NoSig.bind (NoSig.catchSig_same _ _ _) (fun more => ?_)
          split
          · exact ih
          · exact NoSig.pure _ _

theorem evalElems_no_next (rules : List Rule) (items : List CellId) (i : Nat) :
    NoSig .next (evalElems prog rules items i) := by
  induction items generalizing i with
  | nil => exact NoSig.pure _ ()
  | cons item rest ih =>
    unfold evalElems
    exact NoSig.bind (NoSig.modifySt _ _) (fun _ => NoSig.bind (NoSig.newCell _ _) (fun ic =>
      NoSig.bind (NoSig.setLocal _ _ _) (fun _ =>
        NoSig.bind (evalRules_no_next prog rules) (fun _ => ih (i + 1)))))

theorem evalPatternRules_no_next (rules : List Rule) : NoSig .next (evalPatternRules prog rules) := by
  unfold evalPatternRules
  refine NoSig.bind (NoSig.getSt _) (fun s => ?_)
  split
  · exact NoSig.pure _ _
  · split
    · exact evalElems_no_next prog rules _ _
    · exact NoSig.bind (NoSig.modifySt _ _) (fun _ => evalRules_no_next prog rules)

theorem evalSpecialRules_no_sig (g : Sig) (hg : g = .next ∨ g = .exit) (mk : EM CellId)
    (hmk : NoSig g mk) (rules : List Rule) : NoSig g (evalSpecialRules prog mk rules) := by
  induction rules with
  | nil => exact NoSig.pure _ _
  | cons rule rest ih =>
    unfold evalSpecialRules
    refine NoSig.bind hmk (fun c => NoSig.bind (NoSig.modifySt _ _) (fun _ => NoSig.bind ?_ (fun fl => ?_)))
    · apply NoSig.ruleFlow
      rcases hg with hg | hg
      · exact Or.inl hg
      · exact Or.inr (Or.inl hg)
    · split
      · exact NoSig.pure _ _
      · exact ih

theorem processRoot_no_sig (g : Sig) (hg : g = .next ∨ g = .exit) (c : CellId) :
    NoSig g (processRoot prog c) := by
  unfold processRoot
  refine NoSig.bind (NoSig.readCell _ _) (fun rv => NoSig.bind
    (evalSpecialRules_no_sig prog g hg _ (NoSig.pure _ _) _) (fun fl => ?_))
  split
  · exact NoSig.pure _ _
  · refine NoSig.bind (NoSig.modifySt _ _) (fun _ => NoSig.bind ?_ (fun fl2 => ?_))
    · apply NoSig.catchExit
      rcases hg with hg | hg
      · subst hg; exact Or.inr (evalPatternRules_no_next prog _)
      · exact Or.inl hg
    · split
      · exact NoSig.pure _ _
      · exact evalSpecialRules_no_sig prog g hg _ (NoSig.newCell _ _) _

theorem processRoots_no_sig (g : Sig) (hg : g = .next ∨ g = .exit) (cs : List CellId) :
    NoSig g (processRoots prog cs) := by
  induction cs with
  | nil => exact NoSig.pure _ _
  | cons c rest ih =>
    unfold processRoots
    refine NoSig.bind (processRoot_no_sig prog g hg c) (fun fl => ?_)
    split
    · exact NoSig.pure _ _
    · exact ih

/-! ### every decoded value consumes input -/

section progress
open Jqawk.Json

theorem run_rest_le {f : Bytes → Bool} {v : JVal} {rest : Bytes} (t : Tail) :
    ∀ (inp : Bytes) (s : Json.St), run f s inp t = .value v rest → rest.length ≤ inp.length
  | [], s, h => by
    cases t <;> simp only [run] at h
    · cases h
    · split at h
      · cases h; simp
      · cases h
    · cases h
  | c :: cs, s, h => by
    simp only [run] at h
    cases hs : step f s c with
    | cont s' =>
      rw [hs] at h
      have := run_rest_le t cs s' h
      simp only [List.length_cons]; omega
    | err => rw [hs] at h; cases h
    | done w bad consumed =>
      rw [hs] at h
      cases bad <;> cases consumed <;> simp at h <;> obtain ⟨rfl, rfl⟩ := h <;> simp

theorem beginValue_not_done (s : Json.St) (c : UInt8) (w : JVal) (bad consumed : Bool) :
    beginValue s c ≠ .done w bad consumed := by
  unfold beginValue push
  repeat' split
  all_goals (intro h; cases h)

/-- every decoded value consumes at least one byte of the stream -/
theorem decodeOne_progress {f : Bytes → Bool} {data rest : Bytes} {t : Tail} {v : JVal}
    (h : decodeOne f data t = .value v rest) : rest.length < data.length := by
  by_cases hne : data.dropWhile isSpace = []
  · unfold decodeOne at h
    rw [hne] at h
    cases t <;> simp at h
  · rw [decodeOne_eq_run hne] at h
    have hle : (data.dropWhile isSpace).length ≤ data.length := (List.dropWhile_suffix _).length_le
    cases hd : data.dropWhile isSpace with
    | nil => exact absurd hd hne
    | cons c cs =>
      rw [hd] at h hle
      simp only [run] at h
      have hst : step f St.init c = beginValue St.init c := rfl
      cases hs : beginValue St.init c with
      | cont s' =>
        rw [hst, hs] at h
        have := run_rest_le t cs s' h
        simp only [List.length_cons] at hle; omega
      | err => rw [hst, hs] at h; cases h
      | done w bad consumed => exact absurd hs (beginValue_not_done _ _ _ _ _)

end progress

/-! ### one value, one file: `processFile` -/

theorem bind_pure {α : Type} (m : Run α) : (m >>= fun a => (pure a : Run α)) = m := by
  funext s
  simp only [bind_def]
  cases m s <;> rfl

/-- the result of processing (part of) a file, as the end of a piece of the schedule -/
def ofStep : StepRes → Ended Unit
  | .done s => .fine () s
  | .finished .oof _ => .oof
  | .finished o s => .over o s

theorem ofStep_errOutcome (e : Err) (s : St) :
    ofStep (.finished (errOutcome src e) s) = .over (errOutcome src e) s := by
  cases e <;> rfl

/-- `fileSpec` after the decoding of the stream -/
def fileFrom (P : Prims) (R : RuleSets) (sels : List Bytes) (file : InputFile)
    (vc : List JVal × Bool) : Run Unit := do
  each vc.1 (valueSpec P R sels file)
  if vc.2 then pure () else endRun (.jsonErr file.name)

theorem fileSpec_eq (P : Prims) (R : RuleSets) (sels : List Bytes) (file : InputFile) :
    fileSpec P R sels file = fileFrom P R sels file (P.values file) := by
  unfold fileSpec fileFrom
  cases P.values file
  rfl

theorem valueSpec_def (P : Prims) (R : RuleSets) (sels : List Bytes) (file : InputFile) (v : JVal) :
    valueSpec P R sels file v = (P.setFile file.name >>= fun _ => rootsSpec P sels v >>= fun roots =>
      each roots (rootSpec P R)) := rfl

theorem setFile_model (name : Bytes) (s : St) :
    (do let c ← newCell (.str name none); setGlobal b!"$file" c : EM Unit) s =
      .ok () { s with heap := (s.heap.alloc (.str name none)).2,
                      frames := setLastFrame s.frames b!"$file" (s.heap.alloc (.str name none)).1 } := rfl

/-- (no selectors) the value itself is the root -/
theorem load_eq_spec (v : JVal) (s1 : St) :
    ofRoots (match (do let val ← newValueJson v; newCell val : EM CellId) s1 with
      | .ok c s2 => .cells [c] s2
      | .err e s2 => .stop (errOutcome src e) s2
      | .oof => .stop .oof s1) =
    ((modelPrims prog src tbl).load v >>= fun c => pure [c]) s1 := by
  have hn : ∀ g, NoSig g (do let val ← newValueJson v; newCell val : EM CellId) :=
    fun g => NoSig.bind (NoSig.newValueJson g v) (fun _ => NoSig.newCell g _)
  simp only [bind_def, modelPrims, lift_def]
  cases h : (do let val ← newValueJson v; newCell val : EM CellId) s1 with
  | ok c s2 => rfl
  | err e s2 =>
    cases e with
    | sig g => exact absurd h (hn g _ _)
    | _ => rfl
  | oof => rfl

theorem roots_eq_spec (sels : List Bytes) (v : JVal) (s1 : St) :
    ofRoots (if sels.isEmpty then
        match (do let val ← newValueJson v; newCell val : EM CellId) s1 with
        | .ok c s2 => .cells [c] s2
        | .err e s2 => .stop (errOutcome src e) s2
        | .oof => .stop .oof s1
      else evalSelectors tbl v sels [] s1) =
    rootsSpec (modelPrims prog src tbl) sels v s1 := by
  unfold rootsSpec
  split
  · exact load_eq_spec prog src tbl v s1
  · rw [evalSelectors_eq_spec prog src tbl]
    simp only [List.reverse_nil, List.nil_append, bind_pure]

/-- the roots of a value, then root by root, then the rest of the file -/
theorem ofStep_roots (roots : Roots) (K : St → StepRes) :
    ofStep (match roots with
      | .stop o s2 => .finished o s2
      | .exit s2 => .finished .ok s2
      | .cells cs s2 =>
        match processRoots prog cs s2 with
        | .ok .exit s3 => .finished .ok s3
        | .ok .continue_ s3 => K s3
        | .err e s3 => .finished (errOutcome src e) s3
        | .oof => .finished .oof s2) =
    (match ofRoots roots with
      | .fine cs s2 =>
        (match liftFlow src (processRoots prog cs) s2 with
         | .fine () s3 => ofStep (K s3)
         | .next s3 => .next s3
         | .over o s3 => .over o s3
         | .oof => .oof)
      | .next s2 => .next s2
      | .over o s2 => .over o s2
      | .oof => .oof) := by
  cases roots with
  | stop o s2 => cases o <;> rfl
  | exit s2 => rfl
  | cells cs s2 =>
    simp only [ofRoots, liftFlow_def, lift_def]
    cases h : processRoots prog cs s2 with
    | ok fl s3 => cases fl <;> rfl
    | err e s3 =>
      cases e with
      | sig g =>
        cases g with
        | next => exact absurd h (processRoots_no_sig prog .next (Or.inl rfl) cs _ _)
        | exit => exact absurd h (processRoots_no_sig prog .exit (Or.inr rfl) cs _ _)
        | _ => rfl
      | _ => rfl
    | oof => rfl

/-- **one file**: the decode loop of the model processes the values of the stream in order
    (`decodeStream` at the same fuel), value by value as `valueSpec` says, and reports a fault
    in the stream as a JSON error after them; with fuel beyond the length of the data the loop
    never runs out of fuel -/
theorem processFile_eq_from (sels : List Bytes) (file : InputFile) :
    ∀ (fuel : Nat) (data : Bytes) (s : St), data.length < fuel →
      ofStep (processFile prog src tbl sels file fuel data s) =
        fileFrom (modelPrims prog src tbl) (rulesByKind prog) sels file
          (decodeStream file.tail fuel data) s := by
  intro fuel
  induction fuel with
  | zero => intro data s h; omega
  | succ fuel ih =>
    intro data s hlen
    unfold processFile decodeStream fileFrom
    cases hd : Json.decodeOne numOk data file.tail with
    | eof => rfl
    | error => rfl
    | needMore => rfl
    | value v rest =>
      have hrest : rest.length < fuel := by
        have := decodeOne_progress hd
        omega
      obtain ⟨s1, hs1⟩ : ∃ s1, (do let c ← newCell (.str file.name none); setGlobal b!"$file" c : EM Unit) s
          = .ok () s1 := ⟨_, setFile_model file.name s⟩
      simp only [each_cons, bind_assoc]
      simp only [hs1]
      refine (ofStep_roots prog src _ _).trans ?_
      have hR := roots_eq_spec prog src tbl sels v s1
      erw [hR]
      simp only [processRoots_eq_spec prog src tbl]
      rw [valueSpec_def, bind_assoc, bind_def]
      have hsf : (modelPrims prog src tbl).setFile file.name s = .fine () s1 := lift_ok src hs1
      rw [hsf]
      simp only [bind_def]
      cases rootsSpec (modelPrims prog src tbl) sels v s1 with
      | fine cs s2 =>
        simp only []
        cases each cs (rootSpec (modelPrims prog src tbl) (rulesByKind prog)) s2 with
        | fine u s3 =>
          simp only []
          rw [ih rest s3 hrest]
          unfold fileFrom
          simp only [bind_def]
        | _ => rfl
      | _ => rfl

/-! ### all files, the END rules, the whole run -/

/-- beyond the length of the data the fuel of `decodeStream` is irrelevant -/
theorem decodeStream_fuel (t : Json.Tail) : ∀ (n m : Nat) (data : Bytes),
    data.length < n → data.length < m → decodeStream t n data = decodeStream t m data := by
  intro n
  induction n with
  | zero => intro m data h; omega
  | succ n ih =>
    intro m data hn hm
    obtain ⟨m', rfl⟩ : ∃ m', m = m' + 1 := ⟨m - 1, by omega⟩
    unfold decodeStream
    cases hd : Json.decodeOne numOk data t with
    | value v rest =>
      have := decodeOne_progress hd
      simp only [ih m' rest (by omega) (by omega)]
    | _ => rfl

/-- **the values of a stream**, fuel-free: decode one value; the rest of the stream follows -/
theorem valuesOf_unfold (name data : Bytes) (t : Json.Tail) :
    valuesOf ⟨name, data, t⟩ =
      (match Json.decodeOne numOk data t with
       | .eof => ([], true)
       | .error | .needMore => ([], false)
       | .value v rest => (v :: (valuesOf ⟨name, rest, t⟩).1, (valuesOf ⟨name, rest, t⟩).2)) := by
  unfold valuesOf
  simp only
  conv => lhs; unfold decodeStream
  cases hd : Json.decodeOne numOk data t with
  | value v rest =>
    have := decodeOne_progress hd
    simp only [decodeStream_fuel t data.length (rest.length + 1) rest (by omega) (by omega)]
  | _ => rfl

theorem processFile_eq_spec (sels : List Bytes) (file : InputFile) (s : St) :
    ofStep (processFile prog src tbl sels file (file.data.length + 2) file.data s) =
      fileSpec (modelPrims prog src tbl) (rulesByKind prog) sels file s := by
  rw [processFile_eq_from prog src tbl sels file _ _ s (by omega), fileSpec_eq]
  show _ = fileFrom _ _ _ _ (valuesOf file) s
  unfold valuesOf
  rw [decodeStream_fuel file.tail _ (file.data.length + 1) _ (by omega) (by omega)]

theorem processFiles_eq_spec (sels : List Bytes) (files : List InputFile) (s : St) :
    ofStep (processFiles prog src tbl sels files s) =
      each files (fileSpec (modelPrims prog src tbl) (rulesByKind prog) sels) s := by
  induction files generalizing s with
  | nil => rfl
  | cons f rest ih =>
    unfold processFiles
    rw [each_cons, bind_def, ← processFile_eq_spec]
    cases h : processFile prog src tbl sels f (f.data.length + 2) f.data s with
    | done s' => exact ih s'
    | finished o s' => cases o <;> rfl

/-- equal, or both out of fuel -/
def Agree (a b : RunResult) : Prop := a = b ∨ (a.outcome = .oof ∧ b.outcome = .oof)

theorem Agree.rfl' (a : RunResult) : Agree a a := .inl rfl

theorem runEnd_eq_spec (s : St) :
    runEnd prog src s =
      report (specialSpec (modelPrims prog src tbl) ((modelPrims prog src tbl).fresh (.nil none))
        (rulesByKind prog).end_ s) := by
  have hfresh : (modelPrims prog src tbl).fresh (.nil none) = lift src (newCell (.nil none)) := rfl
  rw [hfresh, ← evalSpecialRules_eq_spec]
  unfold runEnd
  simp only [liftFlow_def, lift_def, rulesByKind]
  cases h : evalSpecialRules prog (newCell (.nil none)) (rulesOf prog .end_) s with
  | ok fl s' => cases fl <;> rfl
  | err e s' =>
    cases e with
    | sig g =>
      cases g with
      | exit => exact absurd h (evalSpecialRules_no_sig prog .exit (Or.inr rfl) _ (NoSig.newCell _ _) _ _ _)
      | _ => rfl
    | _ => rfl
  | oof => rfl

theorem runFiles_eq_spec (sels : List Bytes) (files : List InputFile) (s : St) :
    Agree (runFiles prog src tbl sels files s)
      (report ((do
        each files (fileSpec (modelPrims prog src tbl) (rulesByKind prog) sels)
        specialSpec (modelPrims prog src tbl) ((modelPrims prog src tbl).fresh (.nil none))
          (rulesByKind prog).end_ : Run Unit) s)) := by
  unfold runFiles
  rw [bind_def, ← processFiles_eq_spec]
  cases h : processFiles prog src tbl sels files s with
  | done s2 => exact .inl (runEnd_eq_spec prog src tbl s2)
  | finished o s2 =>
    cases o with
    | oof => exact .inr ⟨rfl, rfl⟩
    | _ => exact .inl rfl

/-- **the whole run**: `runProgram` is the schedule specification with the model's primitive
    steps — the same outcome, the same output, the same final state — unless the evaluator runs
    out of fuel (then both sides say so; the model records WHERE in different ways, which is
    why the two results are not compared further) -/
theorem runProgram_agrees (sels : List Bytes) (files : List InputFile) :
    Agree (runProgram prog src tbl sels files)
      (runSpec (modelPrims prog src tbl) (rulesByKind prog) sels files
        (newEvaluator prog Heap.empty [] 0)) := by
  unfold runProgram runSpec scheduleSpec
  have hfresh : (modelPrims prog src tbl).fresh (.nil none) = lift src (newCell (.nil none)) := rfl
  rw [bind_def]
  conv => rhs; rw [hfresh, ← evalSpecialRules_eq_spec]
  simp only [liftFlow_def, lift_def, rulesByKind]
  cases h : evalSpecialRules prog (newCell (.nil none)) (rulesOf prog .begin_)
      (newEvaluator prog Heap.empty [] 0) with
  | ok fl s' =>
    cases fl with
    | exit => exact .inl rfl
    | continue_ => exact runFiles_eq_spec prog src tbl sels files s'
  | err e s' =>
    cases e with
    | sig g =>
      cases g with
      | exit => exact absurd h (evalSpecialRules_no_sig prog .exit (Or.inr rfl) _ (NoSig.newCell _ _) _ _ _)
      | _ => exact .inl rfl
    | _ => exact .inl rfl
  | oof => exact .inl rfl

end Jqawk.Sched
