/-
  One-step equations of the evaluator at the places where it raises a runtime error
  (`throwRt <pos> <msg>`), and the step "the evaluator applies the operator table to the
  operand values".  Used by Props/C05.lean (operators) and Props/C12.lean (blamed tokens).
  Every lemma is a plain unfolding of one function of Jqawk/Model/Eval.lean under hypotheses
  that say how the sub-evaluations ended.
-/
import Jqawk.Model.Eval
import Jqawk.Model.Driver
import Jqawk.Lemmas.Heap

namespace Jqawk.BlameSites
open Jqawk

variable (prog : Program)

/-! ### the node dispatch of `evalExpr` -/

theorem evalExpr_binary (n : Nat) (l r : Expr) (op : Token) :
    evalExpr prog (n + 1) (.binary l r op) = evalBinary prog n l r op := by
  simp [evalExpr]

theorem evalExpr_unary (n : Nat) (e : Expr) (op : Token) (p : Bool) :
    evalExpr prog (n + 1) (.unary e op p) = evalUnary prog n e op p := by
  simp [evalExpr]

theorem evalExpr_ident (n : Nat) (t : Token) :
    evalExpr prog (n + 1) (.ident t) = getIdentifier prog t := by
  simp [evalExpr]

/-! ### binary operators -/

/-- the position `evalBinary` gives to an error of `binaryOp` -/
def binErrPos (l r : Expr) (op : Token) (atRight : Bool) : Nat :=
  if atRight then r.token.pos else if isCompareOp op.tag then l.token.pos else op.pos

/-- the tags `evalBinary` hands to `binaryOp` -/
def isTableOp (t : Tag) : Bool :=
  isCompareOp t || isArithOp t || t == .tilde || t == .bangTilde

theorem evalBinary_table (n : Nat) (l r : Expr) (op : Token) (hop : isTableOp op.tag = true)
    (s s1 s2 : St) (cl cr : CellId)
    (hl : evalExpr prog n l s = .ok cl s1) (hr : evalExpr prog n r s1 = .ok cr s2) :
    evalBinary prog (n + 1) l r op s =
      (match binaryOp op.tag (s2.heap.get cl) (s2.heap.get cr) with
       | .val v => newCell v s2
       | .err atRight m => throwRt (binErrPos l r op atRight) m s2
       | .unmodelled why => throwUnmodelled why s2) := by
  obtain ⟨tag, pos, text⟩ := op
  cases tag <;> simp only [isTableOp, isCompareOp, isArithOp] at hop <;> first
    | (exfalso; revert hop; decide)
    | (clear hop
       unfold evalBinary
       simp only [bind, EM.bind, hl, hr, binErrPos]
       rw [if_pos (by decide)]
       simp only [EM.bind, readCell]
       cases binaryOp _ (s2.heap.get cl) (s2.heap.get cr) <;> rfl)


/-- every tag for which `evalBinary` has a case of its own -/
def isBinaryTag (t : Tag) : Bool :=
  t == .ampAmp || t == .pipePipe || t == .is || t == .lsquare || t == .dot || t == .equal ||
    isTableOp t

theorem evalBinary_unknown (n : Nat) (l r : Expr) (op : Token) (hop : isBinaryTag op.tag = false)
    (s s1 s2 : St) (cl cr : CellId)
    (hl : evalExpr prog n l s = .ok cl s1) (hr : evalExpr prog n r s1 = .ok cr s2) :
    evalBinary prog (n + 1) l r op s = throwRt op.pos "unknown operator" s2 := by
  obtain ⟨tag, pos, text⟩ := op
  cases tag <;> simp only [isBinaryTag, isTableOp, isCompareOp, isArithOp] at hop <;> first
    | (exfalso; revert hop; decide)
    | (clear hop
       unfold evalBinary
       simp only [bind, EM.bind, hl, hr]
       try rw [if_neg (by decide)])

theorem evalBinary_is_other (n : Nat) (l r : Expr) (op : Token) (hop : op.tag = .is)
    (hr : ∀ t, r ≠ .ident t) (s s1 : St) (cl : CellId)
    (hl : evalExpr prog n l s = .ok cl s1) :
    evalBinary prog (n + 1) l r op s = throwRt r.token.pos "expected a type name" s1 := by
  unfold evalBinary
  simp only [bind, EM.bind, hl, hop]

theorem evalBinary_member (n : Nat) (l r : Expr) (op : Token)
    (hop : op.tag = .dot ∨ op.tag = .lsquare) (s s1 s2 : St) (cl cr : CellId)
    (hl : evalExpr prog n l s = .ok cl s1) (hr : evalExpr prog n r s1 = .ok cr s2) :
    evalBinary prog (n + 1) l r op s = memberStep l.token.pos cl cr s2 := by
  unfold evalBinary
  rcases hop with h | h <;> simp only [bind, EM.bind, hl, h, hr]

theorem evalBinary_assign (n : Nat) (l r : Expr) (op : Token) (hop : op.tag = .equal)
    (s s1 s2 : St) (cl cr : CellId)
    (hl : evalExpr prog n l s = .ok cl s1) (hr : evalExpr prog n r s1 = .ok cr s2) :
    evalBinary prog (n + 1) l r op s = evalAssignment l.token.pos cl cr s2 := by
  unfold evalBinary
  simp only [bind, EM.bind, hl, hop, hr]

theorem evalBinary_and_rhs (n : Nat) (l r : Expr) (op : Token) (hop : op.tag = .ampAmp)
    (s s1 s2 : St) (cl cr : CellId)
    (hl : evalExpr prog n l s = .ok cl s1) (ht : (s1.heap.get cl).truthy = true)
    (hr : evalExpr prog n r s1 = .ok cr s2) :
    evalBinary prog (n + 1) l r op s = newCell (.bool (s2.heap.get cr).truthy) s2 := by
  unfold evalBinary
  simp only [bind, EM.bind, hl, hop, readCell, ht, ↓reduceIte, hr]

theorem evalBinary_or_rhs (n : Nat) (l r : Expr) (op : Token) (hop : op.tag = .pipePipe)
    (s s1 s2 : St) (cl cr : CellId)
    (hl : evalExpr prog n l s = .ok cl s1) (ht : (s1.heap.get cl).truthy = false)
    (hr : evalExpr prog n r s1 = .ok cr s2) :
    evalBinary prog (n + 1) l r op s = newCell (.bool (s2.heap.get cr).truthy) s2 := by
  unfold evalBinary
  simp only [bind, EM.bind, hl, hop, readCell, ht, Bool.false_eq_true, ↓reduceIte, hr]

/-- an error of the left operand is the error of the whole node, whatever the operator -/
theorem evalBinary_left_err (n : Nat) (l r : Expr) (op : Token) (s s1 : St) (e : Err)
    (hl : evalExpr prog n l s = .err e s1) :
    evalBinary prog (n + 1) l r op s = .err e s1 := by
  unfold evalBinary
  simp only [bind, EM.bind, hl]

/-- an error of the right operand is the error of the whole node, for every operator that
    evaluates it unconditionally (all but `&&`, `||`, `is`) -/
theorem evalBinary_right_err (n : Nat) (l r : Expr) (op : Token)
    (hop : op.tag ≠ .ampAmp ∧ op.tag ≠ .pipePipe ∧ op.tag ≠ .is) (s s1 s2 : St) (cl : CellId)
    (e : Err) (hl : evalExpr prog n l s = .ok cl s1) (hr : evalExpr prog n r s1 = .err e s2) :
    evalBinary prog (n + 1) l r op s = .err e s2 := by
  obtain ⟨tag, pos, text⟩ := op
  obtain ⟨h1, h2, h3⟩ := hop
  cases tag <;> first
    | (exact absurd rfl h1)
    | (exact absurd rfl h2)
    | (exact absurd rfl h3)
    | (unfold evalBinary
       simp only [bind, EM.bind, hl, hr])

/-! ### member access, assignment -/

/-- the value kinds with a speculative reference: what `evalAssignment` creates first -/
def needsCreate : Val → Bool
  | .nil (some _) => true
  | .native _ _ (some _) => true
  | .str _ (some _) => true
  | _ => false

theorem memberStep_err (pos : Nat) (left right : CellId) (s : St) (m : String)
    (hk : (s.heap.get left).kind ≠ .unknown)
    (hg : getMember s.heap (s.heap.get left) (s.heap.get right) = .error m) :
    memberStep pos left right s = throwRt pos m s := by
  unfold memberStep
  have : ((s.heap.get left).kind == Kind.unknown) = false := by simpa using hk
  simp only [bind, EM.bind, readCell, this, Bool.false_eq_true, ↓reduceIte, getHeap, hg]

theorem evalAssignment_create_err (pos : Nat) (left right : CellId) (s s' : St) (m : String)
    (hn : needsCreate (s.heap.get left) = true)
    (hc : createSpeculative (s.heap.cells.size + 2) left s = .ok (.error m) s') :
    evalAssignment pos left right s = throwRt pos m s' := by
  unfold evalAssignment
  simp only [bind, EM.bind, readCell]
  generalize s.heap.get left = lv at hn
  rcases lv with ⟨_, _ | _⟩ | _ | _ | _ | _ | (_ | _) | ⟨_, _, _ | _⟩ | _ | _ | _ <;>
    first
    | (simp [needsCreate] at hn; done)
    | (simp only [↓reduceIte, getHeap, EM.bind, hc]; rfl)

theorem evalAssignment_copy_err (pos : Nat) (left right : CellId) (s : St) (m : String)
    (hn : needsCreate (s.heap.get left) = false)
    (hc : copyVal (s.heap.get right) = .error m) :
    evalAssignment pos left right s = throwRt pos m s := by
  unfold evalAssignment
  simp only [bind, EM.bind, readCell]
  generalize s.heap.get left = lv at hn
  rcases lv with ⟨_, _ | _⟩ | _ | _ | _ | _ | (_ | _) | ⟨_, _, _ | _⟩ | _ | _ | _ <;>
    first
    | (simp [needsCreate] at hn; done)
    | simp only [Bool.false_eq_true, ↓reduceIte, pure, EM.pure, copyValue, bind, EM.bind, readCell, hc]

/-! ### unary operators -/

/-- the value `evalUnary` computes for `!`, unary `+`, unary `-` -/
def unaryOp (op : Tag) (v : Val) : Val :=
  match op with
  | .bang => .bool (!v.truthy)
  | .plus => .num v.asNum
  | _ => .num (F64.neg v.asNum)

theorem evalUnary_pure (n : Nat) (e : Expr) (op : Token) (p : Bool)
    (hop : op.tag = .bang ∨ op.tag = .plus ∨ op.tag = .minus) (s s1 : St) (c : CellId)
    (he : evalExpr prog n e s = .ok c s1) :
    evalUnary prog (n + 1) e op p s = newCell (unaryOp op.tag (s1.heap.get c)) s1 := by
  unfold evalUnary
  rcases hop with h | h | h <;> simp only [bind, EM.bind, he, readCell, h, unaryOp]

/-- the new value of the operand of `++` / `--` -/
def stepOp (op : Tag) (v : Val) : F64 :=
  if op == .plusPlus then F64.add v.asNum F64.one else F64.sub v.asNum F64.one

theorem evalUnary_step (n : Nat) (e : Expr) (op : Token) (p : Bool)
    (hop : op.tag = .plusPlus ∨ op.tag = .minusMinus) (s s1 : St) (c : CellId)
    (he : evalExpr prog n e s = .ok c s1) :
    evalUnary prog (n + 1) e op p s =
      (do let nc ← newCell (.num (stepOp op.tag (s1.heap.get c)))
          let assigned ← evalAssignment op.pos c nc
          if p then newCell (.num (s1.heap.get c).asNum)
          else newCell (← readCell assigned) : EM CellId) s1 := by
  unfold evalUnary
  rcases hop with h | h <;> simp only [bind, EM.bind, he, readCell, h, stepOp] <;> rfl

/-- `++` / `--` on an operand that is an existing location (a variable or a member that exists,
    `needsCreate = false`): three heap changes — a cell for the new number, the store into the
    operand's cell, a cell for the result — and nothing else -/
theorem evalUnary_step_plain (n : Nat) (e : Expr) (op : Token) (p : Bool)
    (hop : op.tag = .plusPlus ∨ op.tag = .minusMinus) (s s1 : St) (c : CellId)
    (he : evalExpr prog n e s = .ok c s1) (hlt : c < s1.heap.cells.size)
    (hn : needsCreate (s1.heap.get c) = false) :
    evalUnary prog (n + 1) e op p s =
      .ok (s1.heap.cells.size + 1)
        { s1 with heap :=
            ((((s1.heap.alloc (.num (stepOp op.tag (s1.heap.get c)))).2).set c
                (.num (stepOp op.tag (s1.heap.get c)))).alloc
              (.num (if p then (s1.heap.get c).asNum else stepOp op.tag (s1.heap.get c)))).2 } := by
  rw [evalUnary_step prog n e op p hop s s1 c he]
  have hget : (s1.heap.alloc (.num (stepOp op.tag (s1.heap.get c)))).2.get c = s1.heap.get c :=
    Heap.get_push_old _ _ _ hlt
  have hnew : (s1.heap.alloc (.num (stepOp op.tag (s1.heap.get c)))).2.get s1.heap.cells.size =
      .num (stepOp op.tag (s1.heap.get c)) := Heap.get_push_new _ _
  have hsz : c < (s1.heap.alloc (.num (stepOp op.tag (s1.heap.get c)))).2.cells.size := by
    simp only [Heap.alloc, Array.size_push]; exact Nat.lt_succ_of_lt hlt
  have hsize : (s1.heap.alloc (.num (stepOp op.tag (s1.heap.get c)))).2.cells.size =
      s1.heap.cells.size + 1 := by
    simp only [Heap.alloc, Array.size_push]
  generalize hh : (s1.heap.alloc (.num (stepOp op.tag (s1.heap.get c)))).2 = h1 at hget hnew hsz hsize
  have hset : (h1.set c (.num (stepOp op.tag (s1.heap.get c)))).get c =
      .num (stepOp op.tag (s1.heap.get c)) := by
    simp [Heap.set, Heap.get, Array.getD_eq_getD_getElem?, hsz]
  simp only [bind, EM.bind, newCell, hh]
  unfold evalAssignment
  simp only [bind, EM.bind, readCell, hget]
  generalize hlv : s1.heap.get c = lv at hn hget hnew hset ⊢
  rcases lv with ⟨_, _ | _⟩ | _ | _ | _ | _ | (_ | _) | ⟨_, _, _ | _⟩ | _ | _ | _ <;>
    first
    | (simp [needsCreate] at hn; done)
    | (simp only [Bool.false_eq_true, ↓reduceIte, pure, EM.pure, copyValue, bind, EM.bind, readCell,
         Heap.alloc, hnew, copyVal, writeCell]
       have hsz2 : ∀ w, (h1.set c w).cells.size = s1.heap.cells.size + 1 := by
         intro w; simp only [Heap.set, Array.size_setIfInBounds, hsize]
       cases p <;> simp only [Bool.false_eq_true, ↓reduceIte, EM.bind, readCell, newCell, Heap.alloc, hset, hsz2])

def isUnaryTag (t : Tag) : Bool :=
  t == .bang || t == .plus || t == .minus || t == .plusPlus || t == .minusMinus

theorem evalUnary_unknown (n : Nat) (e : Expr) (op : Token) (p : Bool)
    (hop : isUnaryTag op.tag = false) (s s1 : St) (c : CellId)
    (he : evalExpr prog n e s = .ok c s1) :
    evalUnary prog (n + 1) e op p s = throwRt op.pos "unknown operator" s1 := by
  obtain ⟨tag, pos, text⟩ := op
  cases tag <;> simp only [isUnaryTag] at hop <;> first
    | (exfalso; revert hop; decide)
    | (clear hop
       unfold evalUnary
       simp only [bind, EM.bind, he, readCell])

/-! ### literals and identifiers -/

theorem evalExpr_lit_str_err (n : Nat) (t : Token) (ht : t.tag = .str ∨ t.tag = .ident)
    (m : String) (hm : evalStringLit t.text = .error m) (s : St) :
    evalExpr prog (n + 1) (.lit t) s = throwRt t.pos m s := by
  unfold evalExpr
  rcases ht with h | h <;> simp only [h, hm]

theorem evalExpr_lit_num_err (n : Nat) (t : Token) (ht : t.tag = .num)
    (hm : F64.parse t.text = none) (s : St) :
    evalExpr prog (n + 1) (.lit t) s = throwRt t.pos "could not parse number" s := by
  unfold evalExpr
  simp only [ht, hm]

theorem getIdentifier_dollar_err (t : Token) (ht : t.tag = .dollar) (s : St)
    (hr : s.ruleRoot = none) :
    getIdentifier prog t s = throwRt t.pos "unknown variable $" s := by
  unfold getIdentifier
  simp only [ht, beq_self_eq_true, ↓reduceIte, bind, EM.bind, getSt, hr]

theorem getVariable_err (name : Bytes) (s : St) (hl : lookupFrames s.frames name = none)
    (hd : name.head? = some 36) : getVariable name s = .ok (.error "unknown variable") s := by
  unfold getVariable
  simp only [bind, EM.bind, getSt, hl, hd, beq_self_eq_true, ↓reduceIte, pure, EM.pure]

theorem getIdentifier_var_err (t : Token) (ht : t.tag ≠ .dollar) (s : St)
    (hl : lookupFrames s.frames t.text = none) (hd : t.text.head? = some 36) :
    getIdentifier prog t s = throwRt t.pos "unknown variable" s := by
  unfold getIdentifier
  have : (t.tag == Tag.dollar) = false := by simpa using ht
  simp only [this, Bool.false_eq_true, ↓reduceIte, bind, EM.bind, getVariable_err _ _ hl hd]

/-! ### object and array literals, argument lists -/

theorem evalExpr_obj (n : Nat) (t : Token) (items : List (Bytes × Expr)) :
    evalExpr prog (n + 1) (.obj t items) =
      (do let members ← evalObjItems prog n t.pos items []
          let o ← allocObjM members
          newCell (.obj o) : EM CellId) := by
  unfold evalExpr; rfl

theorem evalObjItems_copy_err (n : Nat) (pos : Nat) (k : Bytes) (e : Expr)
    (rest : List (Bytes × Expr)) (acc : List (Bytes × CellId)) (s s1 : St) (c : CellId)
    (m : String) (he : evalExpr prog n e s = .ok c s1)
    (hc : copyVal (s1.heap.get c) = .error m) :
    evalObjItems prog (n + 1) pos ((k, e) :: rest) acc s =
      throwRt pos m { s1 with heap := (s1.heap.alloc .unknown).2 } := by
  unfold evalObjItems
  have hget : (s1.heap.alloc Val.unknown).2.get c = s1.heap.get c ∨ s1.heap.cells.size ≤ c := by
    by_cases h : c < s1.heap.cells.size
    · left; simp [Heap.alloc, Heap.get, Array.getD, h, Array.getElem_push_lt, Nat.lt_succ_of_lt h]
    · right; exact Nat.le_of_not_lt h
  simp only [bind, EM.bind, he, newCell, copyValue, readCell]
  rcases hget with h | h
  · rw [h, hc]; rfl
  · exfalso
    have : s1.heap.get c = .unknown := by simp [Heap.get, Array.getD, Nat.not_lt.mpr h]
    rw [this] at hc; cases hc

/-- an item that evaluates and copies: the loop goes on behind it -/
theorem evalObjItems_step (n : Nat) (pos : Nat) (k : Bytes) (e : Expr)
    (rest : List (Bytes × Expr)) (acc : List (Bytes × CellId)) (s s1 : St) (c : CellId) (w : Val)
    (he : evalExpr prog n e s = .ok c s1) (hlt : c < s1.heap.cells.size)
    (hc : copyVal (s1.heap.get c) = .ok w) :
    evalObjItems prog (n + 1) pos ((k, e) :: rest) acc s =
      evalObjItems prog n pos rest (objInsert acc k s1.heap.cells.size)
        { s1 with heap := ((s1.heap.alloc .unknown).2).set s1.heap.cells.size w } := by
  conv => lhs; unfold evalObjItems
  have hget : (s1.heap.alloc Val.unknown).2.get c = s1.heap.get c := by
    simp [Heap.alloc, Heap.get, Array.getD, hlt, Array.getElem_push_lt, Nat.lt_succ_of_lt hlt]
  simp only [bind, EM.bind, he, newCell, copyValue, readCell, hget, hc, writeCell, pure, EM.pure]
  rfl

theorem evalExprList_copy_err (n : Nat) (e : Expr) (rest : List Expr) (s s1 : St) (c : CellId)
    (m : String) (he : evalExpr prog n e s = .ok c s1)
    (hc : copyVal (s1.heap.get c) = .error m) :
    evalExprList prog (n + 1) (e :: rest) true s =
      throwRt e.token.pos m { s1 with heap := (s1.heap.alloc (.str [] none)).2 } := by
  unfold evalExprList
  have hget : (s1.heap.alloc (Val.str [] none)).2.get c = s1.heap.get c ∨ s1.heap.cells.size ≤ c := by
    by_cases h : c < s1.heap.cells.size
    · left; simp [Heap.alloc, Heap.get, Array.getD, h, Array.getElem_push_lt, Nat.lt_succ_of_lt h]
    · right; exact Nat.le_of_not_lt h
  simp only [bind, EM.bind, he, ↓reduceIte, newCell, copyValue, readCell]
  rcases hget with h | h
  · rw [h, hc]; rfl
  · exfalso
    have : s1.heap.get c = .unknown := by simp [Heap.get, Array.getD, Nat.not_lt.mpr h]
    rw [this] at hc; cases hc

theorem evalExprList_step (n : Nat) (e : Expr) (rest : List Expr) (s s1 : St) (c : CellId) (w : Val)
    (he : evalExpr prog n e s = .ok c s1) (hlt : c < s1.heap.cells.size)
    (hc : copyVal (s1.heap.get c) = .ok w) :
    evalExprList prog (n + 1) (e :: rest) true s =
      (do let cs ← evalExprList prog n rest true
          pure (s1.heap.cells.size :: cs) : EM (List CellId))
        { s1 with heap := ((s1.heap.alloc (.str [] none)).2).set s1.heap.cells.size w } := by
  conv => lhs; unfold evalExprList
  have hget : (s1.heap.alloc (Val.str [] none)).2.get c = s1.heap.get c := by
    simp [Heap.alloc, Heap.get, Array.getD, hlt, Array.getElem_push_lt, Nat.lt_succ_of_lt hlt]
  simp only [bind, EM.bind, he, ↓reduceIte, newCell, copyValue, readCell, hget, hc, writeCell, pure,
    EM.pure]
  rfl

theorem evalExpr_arr (n : Nat) (t : Token) (items : List Expr) :
    evalExpr prog (n + 1) (.arr t items) =
      (do let cells ← evalExprList prog n items true
          let a ← allocArrM cells.toArray
          newCell (.arr a) : EM CellId) := by
  unfold evalExpr; rfl

theorem evalExpr_call (n : Nat) (f : Expr) (args : List Expr) :
    evalExpr prog (n + 1) (.call f args) =
      (do let fnCell ← evalExpr prog n f
          let argCells ← evalExprList prog n args true
          callFunction prog n f.token.pos fnCell argCells : EM CellId) := by
  conv => lhs; unfold evalExpr

/-! ### calls -/

theorem callFunction_not_fn (n : Nat) (pos : Nat) (fnCell : CellId) (args : List CellId) (s : St)
    (hk : ∀ f b sp, s.heap.get fnCell ≠ .native f b sp) (hf : ∀ i, s.heap.get fnCell ≠ .fn i) :
    callFunction prog (n + 1) pos fnCell args s = throwRt pos "attempted to call a non-function" s := by
  unfold callFunction
  simp only [bind, EM.bind, readCell, getHeap]

theorem callFunction_native_err (n : Nat) (pos : Nat) (fnCell : CellId) (args : List CellId)
    (s s' : St) (f : Native) (b : Option CellId) (sp : Option SpecRef) (m : String)
    (hv : s.heap.get fnCell = .native f b sp)
    (hc : callNative f (args.map s.heap.get) (b.map s.heap.get) s = .ok (.error m) s') :
    callFunction prog (n + 1) pos fnCell args s = throwRt pos m s' := by
  unfold callFunction
  simp only [bind, EM.bind, readCell, getHeap, hv, hc]

theorem callFunction_depth_err (n : Nat) (pos : Nat) (fnCell : CellId) (args : List CellId)
    (s : St) (i : Nat) (fd : FuncDef)
    (hv : s.heap.get fnCell = .fn i) (hf : prog.functions[i]? = some fd)
    (hd : s.frames.length > callDepthLimit) :
    callFunction prog (n + 1) pos fnCell args s = throwRt pos "call depth limit exceeded" s := by
  unfold callFunction
  simp only [bind, EM.bind, readCell, getHeap, hv, hf, getSt, pushFrame, hd, ↓reduceIte]

/-! ### match -/

theorem evalExpr_match (n : Nat) (t : Token) (v : Expr) (cases : List MatchCase) :
    evalExpr prog (n + 1) (.match_ t v cases) =
      (do let value ← evalExpr prog n v
          evalMatchCases prog n t.pos value cases : EM CellId) := by
  conv => lhs; unfold evalExpr

theorem evalMatchCases_depth_err (n : Nat) (pos : Nat) (value : CellId) (pats : List Expr)
    (body : Stmt) (rest : List MatchCase) (s s1 : St) (b : List (Bytes × CellId))
    (hm : evalCaseMatch prog n value pats s = .ok (some b) s1)
    (hd : s1.frames.length > callDepthLimit) :
    evalMatchCases prog (n + 1) pos value (.mk pats body :: rest) s =
      throwRt pos "call depth limit exceeded" s1 := by
  unfold evalMatchCases
  simp only [bind, EM.bind, hm, getSt, pushFrame, hd, ↓reduceIte]

theorem evalMatchCases_skip (n : Nat) (pos : Nat) (value : CellId) (pats : List Expr)
    (body : Stmt) (rest : List MatchCase) (s s1 : St)
    (hm : evalCaseMatch prog n value pats s = .ok none s1) :
    evalMatchCases prog (n + 1) pos value (.mk pats body :: rest) s =
      evalMatchCases prog n pos value rest s1 := by
  conv => lhs; unfold evalMatchCases
  simp only [bind, EM.bind, hm]

/-- a pattern that is neither a literal, an array nor an identifier -/
def patSupported : Expr → Bool
  | .lit _ | .arr .. | .ident _ => true
  | _ => false

theorem evalCaseMatch_unsupported (n : Nat) (value : CellId) (p : Expr) (rest : List Expr) (s : St)
    (hp : patSupported p = false) :
    evalCaseMatch prog (n + 1) value (p :: rest) s =
      throwRt p.token.pos "not supported in match expressions" s := by
  unfold evalCaseMatch
  cases p <;> first | (simp [patSupported] at hp; done) | rfl

theorem evalCaseMatch_lit_err (n : Nat) (value : CellId) (t : Token) (rest : List Expr)
    (s s1 : St) (c : CellId) (m : String)
    (he : evalExpr prog n (.lit t) s = .ok c s1)
    (hk : (s1.heap.get value).kind ≠ .unknown)
    (hc : (s1.heap.get value).compare (s1.heap.get c) = .error m) :
    evalCaseMatch prog (n + 1) value (.lit t :: rest) s = throwRt t.pos m s1 := by
  unfold evalCaseMatch
  have : ((s1.heap.get value).kind == Kind.unknown) = false := by simpa using hk
  simp only [bind, EM.bind, he, readCell, this, Bool.false_eq_true, ↓reduceIte, hc, Expr.token]

/-- a pattern that does not match: the next alternative is tried -/
theorem evalCaseMatch_lit_skip (n : Nat) (value : CellId) (t : Token) (rest : List Expr)
    (s s1 : St) (c : CellId) (r : Int)
    (he : evalExpr prog n (.lit t) s = .ok c s1)
    (hk : (s1.heap.get value).kind ≠ .unknown)
    (hc : (s1.heap.get value).compare (s1.heap.get c) = .ok r) (hr : r ≠ 0) :
    evalCaseMatch prog (n + 1) value (.lit t :: rest) s = evalCaseMatch prog n value rest s1 := by
  conv => lhs; unfold evalCaseMatch
  have : ((s1.heap.get value).kind == Kind.unknown) = false := by simpa using hk
  have hr' : (r == 0) = false := by simpa using hr
  simp only [bind, EM.bind, he, readCell, this, Bool.false_eq_true, ↓reduceIte, hc, hr']

/-! ### `for (x in e)` -/

theorem forIn_ident_err (n : Nat) (id : Token) (idx : Option Token) (iter : Expr) (body : Stmt)
    (s : St) (hl : lookupFrames s.frames id.text = none) (hd : id.text.head? = some 36) :
    evalStmt prog (n + 1) (.forIn id idx iter body) s = throwRt id.pos "unknown variable" s := by
  unfold evalStmt
  simp only [bind, EM.bind, getVariable_err _ _ hl hd]
  rfl

theorem forIn_index_err (n : Nat) (id it : Token) (iter : Expr) (body : Stmt)
    (s s1 : St) (c : CellId) (hv : getVariable id.text s = .ok (.ok c) s1)
    (hl : lookupFrames s1.frames it.text = none) (hd : it.text.head? = some 36) :
    evalStmt prog (n + 1) (.forIn id (some it) iter body) s =
      throwRt id.pos "unknown variable" s1 := by
  unfold evalStmt
  simp only [bind, EM.bind, hv, pure, EM.pure, getVariable_err _ _ hl hd]
  rfl

/-- the values `for … in` iterates over -/
def iterable : Val → Bool
  | .arr _ | .obj _ | .str .. => true
  | _ => false

theorem forIn_not_iterable (n : Nat) (id : Token) (iter : Expr) (body : Stmt)
    (s s1 s2 : St) (c ci : CellId) (hv : getVariable id.text s = .ok (.ok c) s1)
    (he : evalExpr prog n iter s1 = .ok ci s2) (hk : iterable (s2.heap.get ci) = false) :
    evalStmt prog (n + 1) (.forIn id none iter body) s = throwRt iter.token.pos "not iterable" s2 := by
  unfold evalStmt
  simp only [bind, EM.bind, hv, pure, EM.pure, he, getHeap]
  cases hg : s2.heap.get ci <;> first
    | rfl
    | (rw [hg] at hk; simp [iterable] at hk; done)

theorem forIn_not_iterable_idx (n : Nat) (id it : Token) (iter : Expr) (body : Stmt)
    (s s1 s1' s2 : St) (c c' ci : CellId) (hv : getVariable id.text s = .ok (.ok c) s1)
    (hv' : getVariable it.text s1 = .ok (.ok c') s1')
    (he : evalExpr prog n iter s1' = .ok ci s2) (hk : iterable (s2.heap.get ci) = false) :
    evalStmt prog (n + 1) (.forIn id (some it) iter body) s =
      throwRt iter.token.pos "not iterable" s2 := by
  unfold evalStmt
  simp only [bind, EM.bind, hv, hv', pure, EM.pure, he, getHeap]
  cases hg : s2.heap.get ci <;> first
    | rfl
    | (rw [hg] at hk; simp [iterable] at hk; done)

/-! ### faults behind elements / members / cases that succeed -/

/-- the state after an element's value `w` has been stored in a fresh cell (what `evalExprList`
    does for arguments and array elements) -/
def afterCopy (s1 : St) (init w : Val) : St :=
  { s1 with heap := ((s1.heap.alloc init).2).set s1.heap.cells.size w }

/-- `Copied prog K es s k s'`: starting with fuel `K` in state `s`, the expressions `es` are
    evaluated and copied one after the other without error, leaving fuel `k` and state `s'` -/
inductive Copied : Nat → List Expr → St → Nat → St → Prop
  | nil (k : Nat) (s : St) : Copied k [] s k s
  | cons {k k' : Nat} {e : Expr} {es : List Expr} {s s1 s2 : St} {c : CellId} {w : Val}
      (he : evalExpr prog k e s = .ok c s1) (hlt : c < s1.heap.cells.size)
      (hc : copyVal (s1.heap.get c) = .ok w)
      (hrest : Copied k es (afterCopy s1 (.str [] none) w) k' s2) : Copied (k + 1) (e :: es) s k' s2

theorem evalExprList_copy_err_at {K n : Nat} {pre : List Expr} {s s' : St}
    (hpre : Copied prog K pre s (n + 1) s') (e : Expr) (rest : List Expr) (s1 : St) (c : CellId)
    (m : String) (he : evalExpr prog n e s' = .ok c s1) (hc : copyVal (s1.heap.get c) = .error m) :
    evalExprList prog K (pre ++ e :: rest) true s =
      throwRt e.token.pos m { s1 with heap := (s1.heap.alloc (.str [] none)).2 } := by
  generalize hk : n + 1 = k at hpre
  induction hpre with
  | nil k s => subst hk; exact evalExprList_copy_err prog n e rest s s1 c m he hc
  | cons he' hlt hc' _ ih =>
    rw [List.cons_append, evalExprList_step prog _ _ _ _ _ _ _ he' hlt hc']
    simp only [bind, EM.bind, afterCopy] at ih ⊢
    rw [ih he hk]; rfl

/-- the same for the members of an object literal (`acc`: the members collected so far) -/
inductive CopiedKV : Nat → List (Bytes × Expr) → List (Bytes × CellId) → St → Nat →
    List (Bytes × CellId) → St → Prop
  | nil (k : Nat) (acc : List (Bytes × CellId)) (s : St) : CopiedKV k [] acc s k acc s
  | cons {k k' : Nat} {key : Bytes} {e : Expr} {es : List (Bytes × Expr)}
      {acc acc' : List (Bytes × CellId)} {s s1 s2 : St} {c : CellId} {w : Val}
      (he : evalExpr prog k e s = .ok c s1) (hlt : c < s1.heap.cells.size)
      (hc : copyVal (s1.heap.get c) = .ok w)
      (hrest : CopiedKV k es (objInsert acc key s1.heap.cells.size) (afterCopy s1 .unknown w) k' acc' s2) :
      CopiedKV (k + 1) ((key, e) :: es) acc s k' acc' s2

theorem evalObjItems_copy_err_at {K n : Nat} {pre : List (Bytes × Expr)}
    {acc acc' : List (Bytes × CellId)} {s s' : St}
    (hpre : CopiedKV prog K pre acc s (n + 1) acc' s') (pos : Nat) (key : Bytes) (e : Expr)
    (rest : List (Bytes × Expr)) (s1 : St) (c : CellId)
    (m : String) (he : evalExpr prog n e s' = .ok c s1) (hc : copyVal (s1.heap.get c) = .error m) :
    evalObjItems prog K pos (pre ++ (key, e) :: rest) acc s =
      throwRt pos m { s1 with heap := (s1.heap.alloc .unknown).2 } := by
  generalize hk : n + 1 = k at hpre
  induction hpre with
  | nil k acc s => subst hk; exact evalObjItems_copy_err prog n pos key e rest acc s s1 c m he hc
  | cons he' hlt hc' _ ih =>
    rw [List.cons_append, evalObjItems_step prog _ _ _ _ _ _ _ _ _ _ he' hlt hc']
    exact ih he hk

/-- `Skipped prog K cases value s k s'`: none of the `cases` matches `value` (and testing them
    raises no error); fuel goes from `K` to `k`, the state from `s` to `s'` -/
inductive Skipped : Nat → List MatchCase → CellId → St → Nat → St → Prop
  | nil (k : Nat) (value : CellId) (s : St) : Skipped k [] value s k s
  | cons {k k' : Nat} {pats : List Expr} {body : Stmt} {cs : List MatchCase} {value : CellId}
      {s s1 s2 : St}
      (hm : evalCaseMatch prog k value pats s = .ok none s1)
      (hrest : Skipped k cs value s1 k' s2) : Skipped (k + 1) (.mk pats body :: cs) value s k' s2

theorem evalMatchCases_skipped {K k : Nat} {pre : List MatchCase} {value : CellId} {s s' : St}
    (hpre : Skipped prog K pre value s k s') (pos : Nat) (rest : List MatchCase) :
    evalMatchCases prog K pos value (pre ++ rest) s = evalMatchCases prog k pos value rest s' := by
  induction hpre with
  | nil k value s => rfl
  | cons hm _ ih =>
    rw [List.cons_append, evalMatchCases_skip prog _ pos _ _ _ _ _ _ hm]
    exact ih

/-- an alternative that on its own does not match is passed over: the remaining alternatives
    are tried from the state it leaves -/
theorem evalCaseMatch_alt_skip (n : Nat) (value : CellId) (p : Expr) (rest : List Expr)
    (s s1 : St) (h : evalCaseMatch prog (n + 1) value [p] s = .ok none s1) :
    evalCaseMatch prog (n + 1) value (p :: rest) s = evalCaseMatch prog n value rest s1 := by
  have hnil : ∀ st, evalCaseMatch prog n value [] st = .ok none s1 →
      st = s1 ∧ ∃ k, n = k + 1 := by
    intro st hst
    cases n with
    | zero => unfold evalCaseMatch at hst; cases hst
    | succ k =>
      unfold evalCaseMatch at hst
      simp only [pure, EM.pure] at hst
      cases hst; exact ⟨rfl, k, rfl⟩
  conv => lhs; unfold evalCaseMatch
  unfold evalCaseMatch at h
  cases p with
  | lit t =>
    simp only [bind, EM.bind, readCell] at h ⊢
    cases he : evalExpr prog n (Expr.lit t) s with
    | oof => rw [he] at h; cases h
    | err e st => rw [he] at h; cases h
    | ok c st =>
      rw [he] at h; simp only at h ⊢
      by_cases hk : ((st.heap.get value).kind == Kind.unknown) = true
      · simp only [hk, ↓reduceIte] at h ⊢
        rw [(hnil st h).1]
      · simp only [hk, Bool.false_eq_true, ↓reduceIte] at h ⊢
        cases hcmp : (st.heap.get value).compare (st.heap.get c) with
        | error m => rw [hcmp] at h; cases h
        | ok r =>
          rw [hcmp] at h; simp only at h ⊢
          by_cases hr : (r == 0) = true
          · simp only [hr, ↓reduceIte, pure, EM.pure] at h; cases h
          · simp only [hr, Bool.false_eq_true, ↓reduceIte] at h ⊢
            rw [(hnil st h).1]
  | arr t items =>
    simp only [bind, EM.bind] at h ⊢
    cases he : evalArrayCaseMatch prog n value items s with
    | oof => rw [he] at h; cases h
    | err e st => rw [he] at h; cases h
    | ok b st =>
      rw [he] at h; simp only at h ⊢
      cases b with
      | some b => simp only [pure, EM.pure] at h; cases h
      | none => simp only at h ⊢; rw [(hnil st h).1]
  | ident t => simp only [pure, EM.pure] at h; cases h
  | obj t items => cases h
  | unary e op q => cases h
  | binary l r op => cases h
  | call f args => cases h
  | match_ t v cs => cases h

/-- `AltsSkipped prog K pats value s k s'`: none of the alternatives `pats` matches -/
inductive AltsSkipped : Nat → List Expr → CellId → St → Nat → St → Prop
  | nil (k : Nat) (value : CellId) (s : St) : AltsSkipped k [] value s k s
  | cons {k k' : Nat} {p : Expr} {ps : List Expr} {value : CellId} {s s1 s2 : St}
      (hm : evalCaseMatch prog (k + 1) value [p] s = .ok none s1)
      (hrest : AltsSkipped k ps value s1 k' s2) : AltsSkipped (k + 1) (p :: ps) value s k' s2

theorem evalCaseMatch_skipped {K k : Nat} {pre : List Expr} {value : CellId} {s s' : St}
    (hpre : AltsSkipped prog K pre value s k s') (rest : List Expr) :
    evalCaseMatch prog K value (pre ++ rest) s = evalCaseMatch prog k value rest s' := by
  induction hpre with
  | nil k value s => rfl
  | cons hm _ ih =>
    rw [List.cons_append, evalCaseMatch_alt_skip prog _ _ _ _ _ _ hm]
    exact ih

/-! ### the `-r` selector -/

/-- the state in which a selector expression is evaluated: the converted value in a new cell,
    which is `$` -/
def selectorStart (v : Val) (s0 : St) : St :=
  { s0 with heap := (s0.heap.alloc v).2, root := some s0.heap.cells.size,
            ruleRoot := some s0.heap.cells.size }

theorem selectorRun_copy_err (rootValue : JVal) (expr : Expr) (s s0 s1 : St) (v : Val) (c : CellId)
    (m : String) (hv : newValueJson rootValue s = .ok v s0)
    (he : evalExpr Program.empty evalFuel expr (selectorStart v s0) = .ok c s1)
    (hc : copyVal (s1.heap.get c) = .error m) :
    selectorRun rootValue expr s =
      throwRt expr.token.pos m { s1 with heap := (s1.heap.alloc .unknown).2 } := by
  unfold selectorRun
  have hget : (s1.heap.alloc Val.unknown).2.get c = s1.heap.get c ∨ s1.heap.cells.size ≤ c := by
    by_cases h : c < s1.heap.cells.size
    · left; simp [Heap.alloc, Heap.get, Array.getD, h, Array.getElem_push_lt, Nat.lt_succ_of_lt h]
    · right; exact Nat.le_of_not_lt h
  have he' : evalExpr Program.empty evalFuel expr
      { root := some (s0.heap.alloc v).1, ruleRoot := some (s0.heap.alloc v).1,
        heap := (s0.heap.alloc v).2, frames := s0.frames, out := s0.out, returnVal := s0.returnVal,
        faults := s0.faults, faultOut := s0.faultOut, maxDepth := s0.maxDepth } = .ok c s1 := he
  simp only [bind, EM.bind, hv, newCell, modifySt, he', copyValue, readCell]
  rcases hget with h | h
  · rw [h, hc]; rfl
  · exfalso
    have : s1.heap.get c = .unknown := by simp [Heap.get, Array.getD, Nat.not_lt.mpr h]
    rw [this] at hc; cases hc

end Jqawk.BlameSites
