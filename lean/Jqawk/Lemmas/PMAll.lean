/-
  A unary predicate on parser programs: "every successful leaf satisfies `P`", with the
  weakest-precondition style rules for the state-passing layer `P = StateT PS PM`.
  `PM.All P m` quantifies over all lexer answers; `PM.AllR R P m` only over the `regex` answers
  that satisfy `R` (the real lexer only answers `regex` requests with tokens of tag `regex`).
-/
import Jqawk.Lemmas.PM

namespace Jqawk

namespace PM

/-- every `pure a` leaf of the program satisfies `P`, whatever the lexer answers -/
def All {α : Type} (P : α → Prop) : PM α → Prop
  | .pure a => P a
  | .fail _ => True
  | .oof => True
  | .next k => ∀ t nl, All P (k t nl)
  | .regex k => ∀ t, All P (k t)

/-- the same, when `regex` requests are only answered by tokens satisfying `R` -/
def AllR {α : Type} (R : Token → Prop) (P : α → Prop) : PM α → Prop
  | .pure a => P a
  | .fail _ => True
  | .oof => True
  | .next k => ∀ t nl, AllR R P (k t nl)
  | .regex k => ∀ t, R t → AllR R P (k t)

variable {α β : Type} {R : Token → Prop}

theorem all_iff_allR (P : α → Prop) (m : PM α) : All P m ↔ AllR (fun _ => True) P m := by
  induction m with
  | pure a => rfl
  | fail e => rfl
  | oof => rfl
  | next k ih => simp only [All, AllR, ih]
  | regex k ih => simp only [All, AllR, ih, true_imp_iff]

theorem AllR.weaken {R' : Token → Prop} (hR : ∀ t, R' t → R t) {P : α → Prop} {m : PM α}
    (h : AllR R P m) : AllR R' P m := by
  induction m with
  | pure a => exact h
  | fail e => trivial
  | oof => trivial
  | next k ih => exact fun t nl => ih t nl (h t nl)
  | regex k ih => exact fun t ht => ih t (h t (hR t ht))

theorem All.toR {P : α → Prop} {m : PM α} (h : All P m) : AllR R P m :=
  AllR.weaken (fun _ _ => trivial) ((all_iff_allR P m).mp h)

theorem AllR.mono {P Q : α → Prop} {m : PM α} (h : AllR R P m) (hpq : ∀ a, P a → Q a) :
    AllR R Q m := by
  induction m with
  | pure a => exact hpq a h
  | fail e => trivial
  | oof => trivial
  | next k ih => exact fun t nl => ih t nl (h t nl)
  | regex k ih => exact fun t ht => ih t (h t ht)

theorem All.mono {P Q : α → Prop} {m : PM α} (h : All P m) (hpq : ∀ a, P a → Q a) : All Q m := by
  rw [all_iff_allR] at h ⊢; exact h.mono hpq

/-- the leaves of `m.bind f` are the leaves of the `f a` for the leaves `a` of `m` -/
theorem allR_bind_iff (P : β → Prop) (m : PM α) (f : α → PM β) :
    AllR R P (m.bind f) ↔ AllR R (fun a => AllR R P (f a)) m := by
  induction m with
  | pure a => rfl
  | fail e => rfl
  | oof => rfl
  | next k ih => simp only [PM.bind, AllR, ih]
  | regex k ih => simp only [PM.bind, AllR, ih]

theorem all_bind_iff (P : β → Prop) (m : PM α) (f : α → PM β) :
    All P (m.bind f) ↔ All (fun a => All P (f a)) m := by
  induction m with
  | pure a => rfl
  | fail e => rfl
  | oof => rfl
  | next k ih => simp only [PM.bind, All, ih]
  | regex k ih => simp only [PM.bind, All, ih]

theorem All.bind {Q : α → Prop} {P : β → Prop} {m : PM α} {f : α → PM β}
    (hm : All Q m) (hf : ∀ a, Q a → All P (f a)) : All P (m.bind f) :=
  (all_bind_iff P m f).mpr (hm.mono hf)

theorem AllR.bind {Q : α → Prop} {P : β → Prop} {m : PM α} {f : α → PM β}
    (hm : AllR R Q m) (hf : ∀ a, Q a → AllR R P (f a)) : AllR R P (m.bind f) :=
  (allR_bind_iff P m f).mpr (hm.mono hf)

/-- a successful run against any token source ends in a leaf -/
theorem runWith_all {σ : Type} (src : TokSrc σ) {P : α → Prop} {m : PM α} (h : All P m)
    {s : σ} {a : α} (hr : m.runWith src s = .ok a) : P a := by
  induction m generalizing s with
  | pure b => simp only [runWith, ParseRes.ok.injEq] at hr; subst hr; exact h
  | fail e => cases hr
  | oof => cases hr
  | next k ih =>
    simp only [runWith] at hr
    split at hr
    · cases hr
    · exact ih _ _ (h _ _) hr
  | regex k ih =>
    simp only [runWith] at hr
    split at hr
    · cases hr
    · exact ih _ (h _) hr

theorem run_all {P : α → Prop} {m : PM α} (h : All P m) {s : LexState} {a : α}
    (hr : m.run s = .ok a) : P a := by
  rw [run_eq_runWith] at hr; exact runWith_all _ h hr

/-- … and with a token source whose `regex` answers satisfy `R` -/
theorem runWith_allR {σ : Type} (src : TokSrc σ)
    (hsrc : ∀ s t s', src.regex s = .ok (t, s') → R t) {P : α → Prop} {m : PM α}
    (h : AllR R P m) {s : σ} {a : α} (hr : m.runWith src s = .ok a) : P a := by
  induction m generalizing s with
  | pure b => simp only [runWith, ParseRes.ok.injEq] at hr; subst hr; exact h
  | fail e => cases hr
  | oof => cases hr
  | next k ih =>
    simp only [runWith] at hr
    split at hr
    · cases hr
    · exact ih _ _ (h _ _) hr
  | regex k ih =>
    simp only [runWith] at hr
    split at hr
    · cases hr
    · rename_i t s' heq
      exact ih _ (h _ (hsrc _ _ _ heq)) hr

theorem lexer_regex_tag (s : LexState) (t : Token) (s' : LexState)
    (h : lexerSrc.regex s = .ok (t, s')) : t.tag = .regex := by
  simp only [lexerSrc, Lexer.regex] at h
  split at h
  · cases h
  · simp only [Except.ok.injEq, Prod.mk.injEq] at h
    rw [← h.1]

/-- the real lexer answers `regex` requests with `regex` tokens -/
theorem run_allR {P : α → Prop} {m : PM α} (h : AllR (fun t => t.tag = .regex) P m)
    {s : LexState} {a : α} (hr : m.run s = .ok a) : P a := by
  rw [run_eq_runWith] at hr; exact runWith_allR _ lexer_regex_tag h hr

end PM

/-! ### the state-passing layer: symbolic execution rules -/

namespace PAll
open Parser
variable {α β : Type} {R : Token → Prop}

theorem bind_iff (Q : β × PS → Prop) (m : P α) (f : α → P β) (ps : PS) :
    PM.AllR R Q ((m >>= f) ps) ↔ PM.AllR R (fun r => PM.AllR R Q (f r.1 r.2)) (m ps) := by
  show PM.AllR R Q ((m ps).bind _) ↔ _
  rw [PM.allR_bind_iff]

theorem pure_iff (Q : α × PS → Prop) (a : α) (ps : PS) :
    PM.AllR R Q ((pure a : P α) ps) ↔ Q (a, ps) := Iff.rfl

theorem get_iff (Q : PS × PS → Prop) (ps : PS) :
    PM.AllR R Q ((get : P PS) ps) ↔ Q (ps, ps) := Iff.rfl

/-- `get`, keeping the result as a variable (so that `split` can generalise matches on it) -/
theorem get_iff' (Q : PS × PS → Prop) (ps : PS) :
    PM.AllR R Q ((get : P PS) ps) ↔ ∀ s, s = ps → Q (s, ps) :=
  ⟨fun h _ hs => hs ▸ h, fun h => h ps rfl⟩

theorem modify_iff (Q : Unit × PS → Prop) (g : PS → PS) (ps : PS) :
    PM.AllR R Q ((modify g : P Unit) ps) ↔ Q ((), g ps) := Iff.rfl

theorem fail_triv (Q : α × PS → Prop) (pos : Nat) (msg : String) (ps : PS) :
    PM.AllR R Q ((Parser.fail pos msg : P α) ps) := trivial

theorem oof_triv (Q : α × PS → Prop) (ps : PS) : PM.AllR R Q ((Parser.oof : P α) ps) := trivial

theorem advance_iff (Q : Unit × PS → Prop) (ps : PS) :
    PM.AllR R Q (advance ps) ↔
      ∀ t nl, Q ((), { ps with prev := ps.cur, cur := t, didEnd := nl }) := Iff.rfl

theorem curTag_iff (Q : Tag × PS → Prop) (ps : PS) :
    PM.AllR R Q (curTag ps) ↔ Q (ps.cur.tag, ps) := Iff.rfl

theorem curTag_iff' (Q : Tag × PS → Prop) (ps : PS) :
    PM.AllR R Q (curTag ps) ↔ ∀ t, t = ps.cur.tag → Q (t, ps) :=
  ⟨fun h _ ht => ht ▸ h, fun h => h _ rfl⟩

theorem atEnd_iff (Q : Bool × PS → Prop) (ps : PS) :
    PM.AllR R Q (atEnd ps) ↔ Q (ps.cur.tag == .eof, ps) := Iff.rfl

theorem setDidEnd_iff (Q : Unit × PS → Prop) (b : Bool) (ps : PS) :
    PM.AllR R Q (setDidEnd b ps) ↔ Q ((), { ps with didEnd := b }) := Iff.rfl

theorem consume_iff (Q : Unit × PS → Prop) (tag : Tag) (ps : PS) :
    PM.AllR R Q (consume tag ps) ↔
      (ps.cur.tag = tag → ∀ t nl, Q ((), { ps with prev := ps.cur, cur := t, didEnd := nl })) := by
  unfold consume
  rw [bind_iff]
  show PM.AllR R Q ((if (ps.cur.tag == tag) = true then advance else Parser.fail ps.cur.pos "expected token") ps) ↔ _
  by_cases h : ps.cur.tag = tag
  · simp only [h, beq_self_eq_true, if_true, true_imp_iff]; rfl
  · have : (ps.cur.tag == tag) = false := by simpa using h
    simp only [this, h, false_imp_iff, iff_true]; trivial

theorem consumeOf_iff (Q : Unit × PS → Prop) (tags : List Tag) (ps : PS) :
    PM.AllR R Q (consumeOf tags ps) ↔
      (ps.cur.tag ∈ tags → ∀ t nl, Q ((), { ps with prev := ps.cur, cur := t, didEnd := nl })) := by
  unfold consumeOf
  rw [bind_iff]
  show PM.AllR R Q ((if tags.contains ps.cur.tag = true then advance else Parser.fail ps.cur.pos "expected one of") ps) ↔ _
  by_cases h : ps.cur.tag ∈ tags
  · have : tags.contains ps.cur.tag = true := by simpa using h
    simp only [this, h, if_true, true_imp_iff]; rfl
  · have : tags.contains ps.cur.tag = false := by simpa using h
    simp only [this, h, false_imp_iff, iff_true]; trivial

theorem consumeIgnore_iff (Q : Unit × PS → Prop) (tag : Tag) (ps : PS) :
    PM.AllR R Q (consumeIgnore tag ps) ↔
      ((ps.cur.tag = tag → ∀ t nl, Q ((), { ps with prev := ps.cur, cur := t, didEnd := nl })) ∧
       (ps.cur.tag ≠ tag → Q ((), ps))) := by
  unfold consumeIgnore
  rw [bind_iff]
  show PM.AllR R Q ((if (ps.cur.tag == tag) = true then advance else pure ()) ps) ↔ _
  by_cases h : ps.cur.tag = tag
  · simp only [h, beq_self_eq_true, if_true, true_imp_iff, ne_eq, not_true_eq_false, false_imp_iff,
      and_true]; rfl
  · have : (ps.cur.tag == tag) = false := by simpa using h
    simp only [this, h, false_imp_iff, true_and, ne_eq, not_false_eq_true, true_imp_iff]; rfl

/-- `atStatementEnd` only ever changes `prev`/`cur`/`didEnd` -/
theorem atStatementEnd_of (Q : Bool × PS → Prop) (ps : PS)
    (h : ∀ b c p d, Q (b, { ps with prev := p, cur := c, didEnd := d })) :
    PM.AllR R Q (atStatementEnd ps) := by
  unfold atStatementEnd
  rw [bind_iff]
  show PM.AllR R Q ((if ps.didEnd = true then pure true else
    match ps.cur.tag with
    | .rcurly => pure true
    | .semiColon => (do advance; pure true)
    | _ => pure false : P Bool) ps)
  have hq : ∀ b, Q (b, ps) := fun b => h b ps.cur ps.prev ps.didEnd
  by_cases h1 : ps.didEnd = true
  · rw [if_pos h1]; exact hq _
  · rw [if_neg h1]
    by_cases h2 : ps.cur.tag = .rcurly
    · rw [h2]; exact hq _
    · by_cases h3 : ps.cur.tag = .semiColon
      · rw [h3]
        show PM.AllR R Q ((advance >>= fun _ => (pure true : P Bool)) ps)
        rw [bind_iff, advance_iff]; intro t nl; exact h ..
      · have : (match ps.cur.tag with
          | .rcurly => pure true
          | .semiColon => (do advance; pure true)
          | _ => pure false : P Bool) = pure false := by
          split
          · exact absurd ‹_› h2
          · exact absurd ‹_› h3
          · rfl
        rw [this]; exact hq _

theorem regexPrefix_iff (Q : Expr × PS → Prop) (ps : PS) :
    PM.AllR R Q (regexPrefix ps) ↔
      ∀ tok, R tok → ∀ t nl, Q (.lit tok, { ps with prev := tok, cur := t, didEnd := nl }) := Iff.rfl

end PAll

section tactics
set_option hygiene false

/-- one symbolic-execution step on a goal `PM.AllR R Q (prog ps)` -/
macro "pall_step" : tactic => `(tactic| first
  | (with_reducible exact PAll.oof_triv _ _)
  | (with_reducible exact PAll.fail_triv _ _ _ _)
  | (with_reducible refine (PAll.pure_iff _ _ _).mpr ?_)
  | (with_reducible refine (PAll.get_iff' _ _).mpr ?_; intro s hs; try dsimp only)
  | (with_reducible refine (PAll.modify_iff _ _ _).mpr ?_; try dsimp only)
  | (with_reducible refine (PAll.advance_iff _ _).mpr ?_; intro _ _; try dsimp only)
  | (with_reducible refine (PAll.curTag_iff' _ _).mpr ?_; intro tg htg; try dsimp only)
  | (with_reducible refine (PAll.atEnd_iff _ _).mpr ?_; try dsimp only)
  | (with_reducible refine (PAll.setDidEnd_iff _ _ _).mpr ?_; try dsimp only)
  | (with_reducible refine (PAll.consume_iff _ _ _).mpr ?_; intro hcons _ _; try dsimp only)
  | (with_reducible refine (PAll.consumeOf_iff _ _ _).mpr ?_; intro hcons _ _; try dsimp only)
  | ((with_reducible refine (PAll.consumeIgnore_iff _ _ _).mpr ⟨fun _ _ _ => ?_, fun _ => ?_⟩) <;> try dsimp only)
  | (with_reducible refine PAll.atStatementEnd_of _ _ ?_; intro _ _ _ _; try dsimp only)
  | (with_reducible refine (PAll.regexPrefix_iff _ _).mpr ?_; intro _ hregex _ _; try dsimp only)
  | (with_reducible refine (PAll.bind_iff _ _ _ _).mpr ?_)
  | (split <;> try subst_vars))

end tactics

end Jqawk
