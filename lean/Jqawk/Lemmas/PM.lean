/-
  The parser monad `PM` run against an abstract token source, and the bisimulation principle:
  two token sources that answer alike give the same parse.
-/
import Jqawk.Model.Parser

namespace Jqawk

/-- An abstract token source: what the parser can ask of a lexer.  `next` is `Lexer.Next()` with
    newline tokens already skipped (the flag tells whether one was), `regex` is `Lexer.Regex()`. -/
structure TokSrc (σ : Type) where
  next : σ → Except SynErr (Token × Bool × σ)
  regex : σ → Except SynErr (Token × σ)

namespace PM

/-- `PM.run`, generalised over the token source. -/
def runWith {σ α : Type} (src : TokSrc σ) : PM α → σ → ParseRes α
  | .pure a, _ => .ok a
  | .fail e, _ => .syntaxErr e
  | .oof, _ => .oof
  | .next k, s =>
    match src.next s with
    | .error e => .syntaxErr e
    | .ok (t, nl, s') => (k t nl).runWith src s'
  | .regex k, s =>
    match src.regex s with
    | .error e => .syntaxErr e
    | .ok (t, s') => (k t).runWith src s'

end PM

/-- The real lexer as a token source. -/
def lexerSrc : TokSrc LexState where
  next := fun s => Lexer.nextNN (s.rest.length + 1) s false
  regex := Lexer.regex

namespace PM

theorem run_eq_runWith {α : Type} (m : PM α) (s : LexState) : m.run s = m.runWith lexerSrc s := by
  induction m generalizing s with
  | pure a => rfl
  | fail e => rfl
  | oof => rfl
  | next k ih =>
    simp only [run, runWith, lexerSrc]
    cases Lexer.nextNN (s.rest.length + 1) s false with
    | error e => rfl
    | ok r => exact ih _ _ _
  | regex k ih =>
    simp only [run, runWith, lexerSrc]
    cases Lexer.regex s with
    | error e => rfl
    | ok r => exact ih _ _

/-- Two answers of token sources agree: same error, or same token (and flag) and related
    successor states. -/
def AnsNext {σ₁ σ₂ : Type} (R : σ₁ → σ₂ → Prop) :
    Except SynErr (Token × Bool × σ₁) → Except SynErr (Token × Bool × σ₂) → Prop
  | .error e₁, .error e₂ => e₁ = e₂
  | .ok (t₁, nl₁, s₁), .ok (t₂, nl₂, s₂) => t₁ = t₂ ∧ nl₁ = nl₂ ∧ R s₁ s₂
  | _, _ => False

def AnsRegex {σ₁ σ₂ : Type} (R : σ₁ → σ₂ → Prop) :
    Except SynErr (Token × σ₁) → Except SynErr (Token × σ₂) → Prop
  | .error e₁, .error e₂ => e₁ = e₂
  | .ok (t₁, s₁), .ok (t₂, s₂) => t₁ = t₂ ∧ R s₁ s₂
  | _, _ => False

/-- `R` is a simulation between two token sources: related states answer both requests alike
    and move to related states. -/
structure IsSim {σ₁ σ₂ : Type} (src₁ : TokSrc σ₁) (src₂ : TokSrc σ₂) (R : σ₁ → σ₂ → Prop) :
    Prop where
  next : ∀ s₁ s₂, R s₁ s₂ → AnsNext R (src₁.next s₁) (src₂.next s₂)
  regex : ∀ s₁ s₂, R s₁ s₂ → AnsRegex R (src₁.regex s₁) (src₂.regex s₂)

/-- C13 (lifting step): a parser program cannot tell two similar token sources apart. -/
theorem run_bisim {σ₁ σ₂ α : Type} {src₁ : TokSrc σ₁} {src₂ : TokSrc σ₂} {R : σ₁ → σ₂ → Prop}
    (hR : IsSim src₁ src₂ R) (m : PM α) (s₁ : σ₁) (s₂ : σ₂) (h : R s₁ s₂) :
    m.runWith src₁ s₁ = m.runWith src₂ s₂ := by
  induction m generalizing s₁ s₂ with
  | pure a => rfl
  | fail e => rfl
  | oof => rfl
  | next k ih =>
    have hn := hR.next s₁ s₂ h
    simp only [runWith]
    cases h₁ : src₁.next s₁ with
    | error e₁ =>
      cases h₂ : src₂.next s₂ with
      | error e₂ => rw [h₁, h₂] at hn; simp only [AnsNext] at hn; rw [hn]
      | ok r₂ => rw [h₁, h₂] at hn; simp [AnsNext] at hn
    | ok r₁ =>
      obtain ⟨t₁, nl₁, s₁'⟩ := r₁
      cases h₂ : src₂.next s₂ with
      | error e₂ => rw [h₁, h₂] at hn; simp [AnsNext] at hn
      | ok r₂ =>
        obtain ⟨t₂, nl₂, s₂'⟩ := r₂
        rw [h₁, h₂] at hn
        obtain ⟨rfl, rfl, hs⟩ := hn
        exact ih _ _ _ _ hs
  | regex k ih =>
    have hn := hR.regex s₁ s₂ h
    simp only [runWith]
    cases h₁ : src₁.regex s₁ with
    | error e₁ =>
      cases h₂ : src₂.regex s₂ with
      | error e₂ => rw [h₁, h₂] at hn; simp only [AnsRegex] at hn; rw [hn]
      | ok r₂ => rw [h₁, h₂] at hn; simp [AnsRegex] at hn
    | ok r₁ =>
      obtain ⟨t₁, s₁'⟩ := r₁
      cases h₂ : src₂.regex s₂ with
      | error e₂ => rw [h₁, h₂] at hn; simp [AnsRegex] at hn
      | ok r₂ =>
        obtain ⟨t₂, s₂'⟩ := r₂
        rw [h₁, h₂] at hn
        obtain ⟨rfl, hs⟩ := hn
        exact ih _ _ _ hs

end PM

end Jqawk
