/-
  `Unshared` / `ElemsPlain` (as part of `HeapInv.Inv`) are invariants of the whole evaluator (C15):
  the mutual induction over the 15 evaluator functions, organised like `Lemmas/Invariant.lean`.
-/
import Jqawk.Lemmas.HeapInvAssign
import Jqawk.Lemmas.HeapInvNatives
import Jqawk.Lemmas.NewValue
import Jqawk.Lemmas.LoopsEval

set_option linter.unusedVariables false
set_option linter.unusedSimpArgs false

namespace Jqawk.HeapInv
open Jqawk Jqawk.IndexWrite

/-! ### state-level sequencing -/

/-- sequencing at a given state: `m` is run from `s1` (whose heap `h1` is `Trans`-related to the
    base heap `h0`), the continuation from a state related to `h1` -/
theorem Post.bind' {α β : Type} {m : EM α} {f : α → EM β} {s1 : St} {h0 : Heap}
    {R1 : α → Heap → Prop} {R : β → Heap → Prop} (t : Trans h0 s1.heap)
    (hm : Post R1 s1.heap (m s1))
    (hf : ∀ a s2, Inv s2.heap → Trans s1.heap s2.heap → R1 a s2.heap → Post R h0 (f a s2)) :
    Post R h0 ((m >>= f) s1) := by
  show Post R h0 (EM.bind m f s1)
  unfold EM.bind
  cases hr : m s1 with
  | ok a s2 => rw [hr] at hm; exact hf a s2 hm.1 hm.2.1 hm.2.2
  | err e s2 =>
    rw [hr] at hm
    cases e with
    | sig g => exact ⟨hm.1, t.trans hm.2⟩
    | runtime p m => trivial
    | panic m => trivial
    | unmodelled w => trivial
  | oof => trivial

/-- sequencing at a given state, the first computation's claim stated relative to the base heap -/
theorem Post.bind0 {α β : Type} {m : EM α} {f : α → EM β} {s1 : St} {h0 : Heap}
    {R1 : α → Heap → Prop} {R : β → Heap → Prop}
    (hm : Post R1 h0 (m s1))
    (hf : ∀ a s2, Inv s2.heap → Trans h0 s2.heap → R1 a s2.heap → Post R h0 (f a s2)) :
    Post R h0 ((m >>= f) s1) := by
  show Post R h0 (EM.bind m f s1)
  unfold EM.bind
  cases hr : m s1 with
  | ok a s2 => rw [hr] at hm; exact hf a s2 hm.1 hm.2.1 hm.2.2
  | err e s2 => rw [hr] at hm; cases e <;> exact hm
  | oof => trivial

/-- a `Good` computation run from a later state -/
theorem Post.of_good {α : Type} {m : EM α} (g : Good m) {h0 : Heap} {s2 : St} (i2 : Inv s2.heap)
    (t : Trans h0 s2.heap) {R : α → Heap → Prop} (hR : ∀ a h, R a h) : Post R h0 (m s2) :=
  Post.mono (Post.trans t (g s2 i2 trivial)) (fun a h _ _ _ => hR a h)

theorem readCell_ht (c : CellId) :
    HT (fun _ => True) (Jqawk.readCell c) (fun h v h' => h' = h ∧ v = h.get c) :=
  fun s i _ => ⟨i, Trans.refl _, rfl, rfl⟩

theorem getHeap_ht : HT (fun _ => True) Jqawk.getHeap (fun h v h' => h' = h ∧ v = h) :=
  fun s i _ => ⟨i, Trans.refl _, rfl, rfl⟩

theorem newCell_ht (v : Val) : HT (fun _ => True) (Jqawk.newCell v)
    (fun h c h' => c = h.cells.size ∧ h'.cells.size = h.cells.size + 1 ∧ h'.get c = v ∧
      h'.arrs = h.arrs) :=
  fun s i _ => ⟨inv_alloc i v, trans_alloc _ v, rfl, size_alloc _ v, get_alloc_new _ v, rfl⟩

/-! ### `copyValue` -/

theorem copyValue_ht (src dst : CellId) :
    HT (fun _ => True) (Jqawk.copyValue src dst)
      (fun h r h' => h'.arrs = h.arrs ∧ h'.cells.size = h.cells.size ∧
        ∀ c, r = .ok c → c = dst ∧ Plain (h'.get dst)) := by
  intro s i _
  unfold Jqawk.copyValue
  simp only [bind, EM.bind, Jqawk.readCell]
  cases hv : copyVal (s.heap.get src) with
  | error m => exact ⟨i, Trans.refl _, rfl, rfl, fun c hc => by cases hc⟩
  | ok w =>
    have hw := plain_of_copyVal hv
    refine ⟨inv_set i dst hw, trans_set _ dst hw, rfl, Heap.size_set _ _ _, fun c hc => ?_⟩
    simp only [pure, EM.pure, Except.ok.injEq] at hc
    refine ⟨hc.symm, ?_⟩
    show Plain ((s.heap.set dst w).get dst)
    rw [get_set]
    split
    · exact hw
    · rename_i hn
      have : ¬ dst < s.heap.cells.size := fun h => hn ⟨rfl, h⟩
      rw [get_oob _ _ (Nat.le_of_not_lt this)]; exact plain_unknown

theorem Good.copyValue (src dst : CellId) : Good (Jqawk.copyValue src dst) :=
  Good.of_HT (copyValue_ht src dst)

/-! ### the remaining primitives -/

theorem Good.getVariable (name : Bytes) : Good (Jqawk.getVariable name) := by
  unfold Jqawk.getVariable
  refine Good.bind Good.getSt (fun s => ?_)
  split
  · exact Good.pure _
  · split
    · exact Good.pure _
    · exact Good.bind (Good.newCell _) (fun c => Good.bind (Good.setLocal _ _) (fun _ => Good.pure _))

theorem Good.bindAll (l : List (Bytes × CellId)) : Good (Jqawk.bindAll l) := by
  induction l with
  | nil => exact Good.pure ()
  | cons kv rest ih =>
    obtain ⟨k, c⟩ := kv
    exact Good.bind (Good.setLocal k c) (fun _ => ih)

theorem Good.bindParams (ps : List Bytes) (as : List Val) : Good (Jqawk.bindParams ps as) := by
  induction ps generalizing as with
  | nil => exact Good.pure ()
  | cons p ps ih =>
    cases as with
    | nil => exact Good.bind (Good.newCell _) (fun c => Good.bind (Good.setLocal _ _) (fun _ => ih []))
    | cons a as => exact Good.bind (Good.newCell _) (fun c => Good.bind (Good.setLocal _ _) (fun _ => ih as))

/-- one decomposition step for goals `Good (…)` built from the primitives -/
macro "hg_step" : tactic => `(tactic| with_reducible_and_instances first
  | exact Good.pure _
  | exact Good.oof
  | exact Good.getSt
  | exact Good.getHeap
  | exact Good.readCell _
  | exact Good.throwSig _
  | exact Good.throwPanic _
  | exact Good.throwUnmodelled _
  | exact Good.throwRt _ _
  | exact Good.liftExcept _ _
  | exact Good.newCell _
  | exact Good.emit _
  | exact Good.setReturnVal _
  | exact Good.setLocal _ _
  | exact Good.getVariable _
  | exact Good.copyValue _ _
  | exact Good.bindAll _
  | exact Good.bindParams _ _
  | assumption
  | apply Good.bind
  | intro _
  | split
  | dsimp only)

macro "hg_auto" : tactic => `(tactic| repeat' hg_step)

theorem Good.memberStep (pos : Nat) (l r : CellId) : Good (Jqawk.memberStep pos l r) := by
  unfold Jqawk.memberStep
  hg_auto

theorem Good.getIdentifier (prog : Program) (t : Token) : Good (Jqawk.getIdentifier prog t) := by
  unfold Jqawk.getIdentifier
  hg_auto

/-! ### the control combinators -/

/-- a loop iteration whose continuation needs a `Trans`-stable fact about the heap -/
theorem loopIter_ht {body k : EM Unit} {P : Heap → Prop} (hP : ∀ h h', Trans h h' → P h → P h')
    (hb : Good body) (hk : HT P k (fun _ _ _ => True)) :
    HT P (Jqawk.loopIter body k) (fun _ _ _ => True) := by
  intro s i p
  unfold Jqawk.loopIter
  have h := hb s i trivial
  cases hr : body s with
  | ok a s1 => rw [hr] at h; exact Post.trans h.2.1 (hk s1 h.1 (hP _ _ h.2.1 p))
  | err e s1 =>
    rw [hr] at h
    cases e with
    | sig g =>
      cases g with
      | brk => exact ⟨h.1, h.2, trivial⟩
      | cont => exact Post.trans h.2 (hk s1 h.1 (hP _ _ h.2 p))
      | ret => exact h
      | next => exact h
      | exit => exact h
    | runtime p m => trivial
    | panic m => trivial
    | unmodelled m => trivial
  | oof => trivial

theorem Good.loopIter {body k : EM Unit} (hb : Good body) (hk : Good k) :
    Good (Jqawk.loopIter body k) :=
  loopIter_ht (fun _ _ _ p => p) hb hk

theorem Good.catchReturn {body : EM Unit} (hb : Good body) : Good (Jqawk.catchReturn body) := by
  intro s i _
  unfold Jqawk.catchReturn
  have h := hb s i trivial
  cases hr : body s with
  | ok a s1 => rw [hr] at h; exact h
  | err e s1 =>
    rw [hr] at h
    cases e with
    | sig g => cases g <;> first | exact h | exact ⟨h.1, h.2, trivial⟩
    | runtime p m => trivial
    | panic m => trivial
    | unmodelled m => trivial
  | oof => trivial

theorem Good.catchSig {α : Type} {m : EM α} (g : Sig) (d : α) (hm : Good m) :
    Good (Jqawk.catchSig g d m) := by
  intro s i _
  unfold Jqawk.catchSig
  have h := hm s i trivial
  cases hr : m s with
  | ok a s1 => rw [hr] at h; exact h
  | err e s1 =>
    rw [hr] at h
    cases e with
    | sig g' =>
      dsimp only
      split
      · exact ⟨h.1, h.2, trivial⟩
      · exact h
    | runtime p m => trivial
    | panic m => trivial
    | unmodelled m => trivial
  | oof => trivial

/-- a frame pushed for a call or a match body, the body run in it, the saved stack restored -/
theorem Good.framed {α : Type} (name : Bytes) (pos : Nat) (body : EM α) (hb : Good body) :
    Good (do
      let saved := (← Jqawk.getSt).frames
      match (← Jqawk.pushFrame name) with
      | .error m => Jqawk.throwRt pos m
      | .ok () => Jqawk.withFrames saved body) := by
  intro s i _
  by_cases hd : s.frames.length > callDepthLimit
  · simp only [Bind.bind, EM.bind, Jqawk.getSt, Jqawk.pushFrame, hd, ↓reduceIte]
    exact i.weak
  · simp only [Bind.bind, EM.bind, Jqawk.getSt, Jqawk.pushFrame, hd, ↓reduceIte, Jqawk.withFrames]
    have h := hb { s with frames := ⟨name, []⟩ :: s.frames,
                          maxDepth := max s.maxDepth (s.frames.length + 1) } i trivial
    cases hr : body { s with frames := ⟨name, []⟩ :: s.frames,
                             maxDepth := max s.maxDepth (s.frames.length + 1) } with
    | ok a s1 => rw [hr] at h; exact h
    | err e s1 =>
      rw [hr] at h
      cases e with
      | runtime p m => trivial
      | sig g => exact h
      | panic m => trivial
      | unmodelled m => trivial
    | oof => trivial

/-! ### what the list-valued evaluator functions say about the cells they return -/

/-- the cells `evalExprList … true` returns: pairwise different, allocated during the evaluation,
    holding plain values, and nobody's elements -/
def FreshCells (h : Heap) (cells : List CellId) (h' : Heap) : Prop :=
  cells.Nodup ∧ ∀ c ∈ cells, h.cells.size ≤ c ∧ c < h'.cells.size ∧ Plain (h'.get c) ∧ NotElem h' c

/-- member cells that are allocated and hold plain values -/
def MembersOK (m : List (Bytes × CellId)) (h : Heap) : Prop :=
  ∀ kc ∈ m, kc.2 < h.cells.size ∧ Plain (h.get kc.2)

theorem MembersOK.trans {m : List (Bytes × CellId)} {h h' : Heap} (t : Trans h h') (p : MembersOK m h) :
    MembersOK m h' :=
  fun kc hkc => ⟨Nat.lt_of_lt_of_le (p kc hkc).1 t.size, t.plain _ (p kc hkc).1 (p kc hkc).2⟩

/-- what `forInLoop` needs of its item list: the values written to the loop variables are plain,
    the cells read are allocated and hold plain values -/
def ItemOK (h : Heap) (it : Option Val × (CellId ⊕ (Val × Option CellId))) : Prop :=
  (∀ iv, it.1 = some iv → Plain iv) ∧
  match it.2 with
  | .inl c => c < h.cells.size ∧ Plain (h.get c)
  | .inr (v, mc?) => Plain v ∧ ∀ mc, mc? = some mc → mc < h.cells.size ∧ Plain (h.get mc)

def ItemsOK (items : List (Option Val × (CellId ⊕ (Val × Option CellId)))) (h : Heap) : Prop :=
  ∀ it ∈ items, ItemOK h it

theorem ItemOK.trans {h h' : Heap} (t : Trans h h') {it} (p : ItemOK h it) : ItemOK h' it := by
  obtain ⟨iv, item⟩ := it
  refine ⟨p.1, ?_⟩
  have p2 := p.2
  cases item with
  | inl c => exact ⟨Nat.lt_of_lt_of_le p2.1 t.size, t.plain _ p2.1 p2.2⟩
  | inr vm =>
    obtain ⟨v, mc?⟩ := vm
    exact ⟨p2.1, fun mc hmc => ⟨Nat.lt_of_lt_of_le (p2.2 mc hmc).1 t.size,
      t.plain _ (p2.2 mc hmc).1 (p2.2 mc hmc).2⟩⟩

theorem ItemsOK.trans {items} {h h' : Heap} (t : Trans h h') (p : ItemsOK items h) : ItemsOK items h' :=
  fun it hit => (p it hit).trans t

/-! ### the mutual induction over the evaluator -/

structure AllGood (prog : Program) (n : Nat) : Prop where
  expr : ∀ e, Good (evalExpr prog n e)
  objItems : ∀ pos items acc, HT (MembersOK acc) (evalObjItems prog n pos items acc)
    (fun _ r h' => MembersOK r h')
  exprList : ∀ es c, HT (fun _ => True) (evalExprList prog n es c)
    (fun h r h' => c = true → FreshCells h r h')
  matchCases : ∀ pos v cs, Good (evalMatchCases prog n pos v cs)
  caseMatch : ∀ v ps, Good (evalCaseMatch prog n v ps)
  arrayCaseMatch : ∀ v ps, Good (evalArrayCaseMatch prog n v ps)
  matchElems : ∀ cs ps acc, Good (Jqawk.matchElems prog n cs ps acc)
  call : ∀ pos f args, HT (fun h => ∀ c ∈ args, Plain (h.get c)) (callFunction prog n pos f args)
    (fun _ _ _ => True)
  unary : ∀ e op p, Good (evalUnary prog n e op p)
  binary : ∀ l r op, Good (evalBinary prog n l r op)
  stmt : ∀ st, Good (evalStmt prog n st)
  block : ∀ sts, Good (evalBlock prog n sts)
  whileL : ∀ c b, Good (whileLoop prog n c b)
  forL : ∀ c p b, Good (forLoop prog n c p b)
  forInL : ∀ l il b items, HT (ItemsOK items) (forInLoop prog n l il b items) (fun _ _ _ => True)

theorem AllGood.exprListG {prog : Program} {n : Nat} (a : AllGood prog n) (es : List Expr) (c : Bool) :
    Good (evalExprList prog n es c) := Good.of_HT (a.exprList es c)

/-- try every induction hypothesis that needs no side condition -/
macro "good_ih" ih:term : tactic => `(tactic| with_reducible_and_instances first
  | exact ($ih).expr _
  | exact ($ih).exprListG _ _
  | exact ($ih).matchCases _ _ _
  | exact ($ih).caseMatch _ _
  | exact ($ih).arrayCaseMatch _ _
  | exact ($ih).matchElems _ _ _
  | exact ($ih).unary _ _ _
  | exact ($ih).binary _ _ _
  | exact ($ih).stmt _
  | exact ($ih).block _
  | exact ($ih).whileL _ _
  | exact ($ih).forL _ _ _)

macro "good_ind" ih:term : tactic => `(tactic| repeat' (first
  | good_ih $ih
  | (with_reducible_and_instances first
      | exact Good.evalAssignment _ _ _
      | exact Good.memberStep _ _ _
      | exact Good.getIdentifier _ _
      | apply Good.loopIter
      | apply Good.catchReturn
      | apply Good.catchSig
      | apply Good.framed)
  | hg_step))

theorem allGood_zero (prog : Program) : AllGood prog 0 := by
  constructor <;> intros <;>
    first
      | (unfold evalExpr; exact Good.oof)
      | (unfold evalObjItems; exact fun _ _ _ => trivial)
      | (unfold evalExprList; exact fun _ _ _ => trivial)
      | (unfold evalMatchCases; exact Good.oof)
      | (unfold evalCaseMatch; exact Good.oof)
      | (unfold evalArrayCaseMatch; exact Good.oof)
      | (unfold Jqawk.matchElems; exact Good.oof)
      | (unfold callFunction; exact fun _ _ _ => trivial)
      | (unfold evalUnary; exact Good.oof)
      | (unfold evalBinary; exact Good.oof)
      | (unfold evalStmt; exact Good.oof)
      | (unfold evalBlock; exact Good.oof)
      | (unfold whileLoop; exact Good.oof)
      | (unfold forLoop; exact Good.oof)
      | (unfold forInLoop; exact fun _ _ _ => trivial)

/-- a fresh cell receiving a copy: allocated after `h`, plain, nobody's element -/
theorem freshCopy_post (v : CellId) (pos : Nat) (s : St) (i : Inv s.heap) :
    Post (fun c h' => s.heap.cells.size ≤ c ∧ c < h'.cells.size ∧ Plain (h'.get c) ∧ NotElem h' c)
      s.heap ((do
        let fresh ← Jqawk.newCell (.str [] none)
        match (← Jqawk.copyValue v fresh) with
        | .error m => Jqawk.throwRt pos m
        | .ok c => pure c : EM CellId) s) := by
  refine Post.bind' (Trans.refl _) (newCell_ht _ s i trivial) (fun fresh s1 i1 t1 hf => ?_)
  refine Post.bind' t1 (copyValue_ht v fresh s1 i1 trivial) (fun r s2 i2 t2 hr => ?_)
  cases r with
  | error m => exact i2.weak
  | ok c =>
    obtain ⟨hc, hpl⟩ := hr.2.2 c rfl
    subst hc
    refine ⟨i2, t1.trans t2, ?_, ?_, hpl, ?_⟩
    · rw [hf.1]; exact Nat.le_refl _
    · rw [hr.2.1, hf.2.1, hf.1]; exact Nat.lt_succ_self _
    · intro b hb
      have e : s2.heap.arr b = s.heap.arr b := by
        simp only [Heap.arr, hr.1, hf.2.2.2]
      rw [e] at hb
      have := i.wf.arrs b c hb
      rw [hf.1] at this
      exact absurd this (Nat.lt_irrefl _)

/-- binding the loop variables of one `for … in` round -/
theorem bindRaw_post (loc : CellId) (il : Option CellId) (it : Jqawk.Spec.RawItem) (s : St)
    (i : Inv s.heap) (p : ItemOK s.heap it) :
    Post (fun _ _ => True) s.heap (Jqawk.Spec.bindRaw loc il it s) := by
  obtain ⟨iv, item⟩ := it
  unfold Jqawk.Spec.bindRaw
  have two : ∀ (ic : CellId) (v : Val), Plain v → ∀ item', ItemOK s.heap (iv, item') →
      Post (fun _ _ => True) s.heap
        ((match item' with
          | .inl c => do Jqawk.writeCell loc (← Jqawk.readCell c)
          | .inr (v, _) => Jqawk.writeCell loc v : EM Unit) { s with heap := s.heap.set ic v }) := by
    intro ic v hv item' p'
    have i1 := inv_set i ic hv
    have t1 := trans_set s.heap ic hv
    have p1 := p'.trans t1
    cases item' with
    | inl c => exact ⟨inv_set i1 _ p1.2.2, t1.trans (trans_set _ _ p1.2.2), trivial⟩
    | inr q => obtain ⟨w, mc⟩ := q; exact ⟨inv_set i1 _ p1.2.1, t1.trans (trans_set _ _ p1.2.1), trivial⟩
  have one : ∀ item', ItemOK s.heap (iv, item') →
      Post (fun _ _ => True) s.heap
        ((match item' with
          | .inl c => do Jqawk.writeCell loc (← Jqawk.readCell c)
          | .inr (v, _) => Jqawk.writeCell loc v : EM Unit) s) := by
    intro item' p'
    cases item' with
    | inl c => exact ⟨inv_set i _ p'.2.2, trans_set _ _ p'.2.2, trivial⟩
    | inr q => obtain ⟨w, mc⟩ := q; exact ⟨inv_set i _ p'.2.1, trans_set _ _ p'.2.1, trivial⟩
  cases il with
  | none => exact one item p
  | some ic =>
    cases iv with
    | some v => exact two ic v (p.1 v rfl) item p
    | none =>
      cases item with
      | inl c => exact one _ p
      | inr q =>
        obtain ⟨w, mc⟩ := q
        cases mc with
        | none => exact one _ p
        | some mc => exact two ic _ (p.2.2 mc rfl).2 _ p

theorem mem_sortByKey {l : List (Bytes × CellId)} {x : Bytes × CellId} (h : x ∈ sortByKey l) : x ∈ l := by
  rw [sortByKey_eq_sortK] at h
  exact (sortK_perm l).mem_iff.mp h

theorem allGood_succ (prog : Program) (n : Nat) (ih : AllGood prog n) : AllGood prog (n + 1) := by
  constructor
  · -- evalExpr
    intro e
    unfold evalExpr
    cases e with
    | call f args =>
      dsimp only
      intro s i _
      refine Post.bind' (Trans.refl _) (ih.expr f s i trivial) (fun fc s1 i1 t1 _ => ?_)
      refine Post.bind' t1 (ih.exprList args true s1 i1 trivial) (fun cells s2 i2 t2 r => ?_)
      exact Post.trans (t1.trans t2) (ih.call _ fc cells s2 i2 (fun c hc => ((r rfl).2 c hc).2.2.1))
    | arr t items =>
      dsimp only
      intro s i _
      refine Post.bind' (Trans.refl _) (ih.exprList items true s i trivial) (fun cells s1 i1 t1 r => ?_)
      obtain ⟨nd, hc⟩ := r rfl
      refine Post.bind0 (R1 := fun _ _ => True) ?_
        (fun a s2 i2 t2 _ => Post.of_good (Good.newCell _) i2 t2 (fun _ _ => trivial))
      have hinv := inv_allocArr i1 cells nd (fun c hcc => ⟨(hc c hcc).2.1, (hc c hcc).2.2.1, (hc c hcc).2.2.2⟩)
      have htr := trans_allocArr t1 cells (fun c hcc => (hc c hcc).1)
      exact ⟨hinv, htr, trivial⟩
    | obj t items =>
      dsimp only
      intro s i _
      refine Post.bind' (Trans.refl _) (ih.objItems t.pos items [] s i (fun _ h => by cases h))
        (fun members s1 i1 t1 r => ?_)
      refine Post.bind' (R1 := fun _ _ => True) t1 ?_
        (fun a s2 i2 t2 _ => Post.of_good (Good.newCell _) i2 (t1.trans t2) (fun _ _ => trivial))
      exact ⟨inv_allocObj i1 members r, trans_allocObj _ _, trivial⟩
    | _ => dsimp only; good_ind ih
  · -- evalObjItems
    intro pos items acc
    cases items with
    | nil =>
      unfold evalObjItems
      exact fun s i p => ⟨i, Trans.refl _, p⟩
    | cons kv rest =>
      obtain ⟨k, e⟩ := kv
      unfold evalObjItems
      intro s i p
      refine Post.bind' (Trans.refl _) (ih.expr e s i trivial) (fun value s1 i1 t1 _ => ?_)
      refine Post.bind' t1 (newCell_ht .unknown s1 i1 trivial) (fun cell s2 i2 t2 hf => ?_)
      refine Post.bind' (t1.trans t2) (copyValue_ht value cell s2 i2 trivial) (fun r s3 i3 t3 hr => ?_)
      cases r with
      | error m => exact i3.weak
      | ok c =>
        obtain ⟨hc, hpl⟩ := hr.2.2 c rfl
        subst hc
        have t03 := (t1.trans t2).trans t3
        refine Post.trans t03 (ih.objItems pos rest _ s3 i3 ?_)
        intro kc hkc
        rcases mem_objInsert hkc with h | h
        · exact (MembersOK.trans t03 p) kc h
        · rw [h]
          refine ⟨?_, hpl⟩
          rw [hr.2.1, hf.2.1, hf.1]; exact Nat.lt_succ_self _
  · -- evalExprList
    intro es c
    cases es with
    | nil =>
      unfold evalExprList
      exact fun s i _ => ⟨i, Trans.refl _, fun _ => ⟨List.nodup_nil, fun _ h => by cases h⟩⟩
    | cons e rest =>
      unfold evalExprList
      cases c with
      | false =>
        apply HT.bind (R1 := fun _ _ _ => True) (ih.expr e)
        intro s v s1 i _ i1 t1 _
        refine Post.mono (R := fun _ _ => True) ?_ (fun _ _ _ _ _ h => by cases h)
        refine Post.of_good ?_ i1 t1 (fun _ _ => trivial)
        simp only [Bool.false_eq_true, ↓reduceIte]
        good_ind ih
      | true =>
        simp only [↓reduceIte]
        intro s i _
        refine Post.bind' (Trans.refl _) (ih.expr e s i trivial) (fun v s1 i1 t1 _ => ?_)
        refine Post.bind' t1 (freshCopy_post v e.token.pos s1 i1) (fun c s2 i2 t2 hc => ?_)
        refine Post.bind' (t1.trans t2) (ih.exprList rest true s2 i2 trivial) (fun cs s3 i3 t3 hcs => ?_)
        obtain ⟨nd, hall⟩ := hcs rfl
        refine ⟨i3, (t1.trans t2).trans t3, fun _ => ⟨?_, ?_⟩⟩
        · refine List.nodup_cons.mpr ⟨fun hmem => ?_, nd⟩
          have := (hall c hmem).1
          exact absurd hc.2.1 (Nat.not_lt.mpr this)
        · intro c' hc'
          rcases List.mem_cons.mp hc' with rfl | hc'
          · exact ⟨Nat.le_trans t1.size hc.1, Nat.lt_of_lt_of_le hc.2.1 t3.size,
              t3.plain _ hc.2.1 hc.2.2.1, t3.notElem hc.2.1 hc.2.2.2⟩
          · have := hall c' hc'
            exact ⟨Nat.le_trans (t1.trans t2).size this.1, this.2⟩
  · -- evalMatchCases
    intro pos v cs
    cases cs with
    | nil => unfold evalMatchCases; exact Good.newCell _
    | cons c rest => obtain ⟨pats, body⟩ := c; unfold evalMatchCases; good_ind ih
  · -- evalCaseMatch
    intro v ps
    cases ps with
    | nil => unfold evalCaseMatch; exact Good.pure _
    | cons p rest => unfold evalCaseMatch; good_ind ih
  · -- evalArrayCaseMatch
    intro v ps
    unfold evalArrayCaseMatch
    good_ind ih
  · -- matchElems
    intro cs ps acc
    cases cs with
    | nil => unfold Jqawk.matchElems; exact Good.pure _
    | cons c cs =>
      cases ps with
      | nil => unfold Jqawk.matchElems; exact Good.pure _
      | cons p ps => unfold Jqawk.matchElems; good_ind ih
  · -- callFunction
    intro pos f args
    unfold callFunction
    intro s i p
    refine Post.bind' (Trans.refl _) (readCell_ht f s i trivial) (fun fv s1 i1 t1 h1 => ?_)
    refine Post.bind' t1 (getHeap_ht s1 i1 trivial) (fun h s2 i2 t2 h2 => ?_)
    obtain ⟨e2, rfl⟩ := h2
    have e1 : s1.heap = s.heap := h1.1
    have hargs : ∀ v ∈ args.map s1.heap.get, Plain v := by
      intro v hv
      obtain ⟨c, hc, rfl⟩ := List.mem_map.mp hv
      rw [e1]; exact p c hc
    dsimp only
    split
    · refine Post.of_good (Good.bind (Good.callNative _ _ _ hargs) (fun r => ?_)) i2 (t1.trans t2)
        (fun _ _ => trivial)
      hg_auto
    · refine Post.of_good ?_ i2 (t1.trans t2) (fun _ _ => trivial)
      good_ind ih
    · exact i2.weak
  · -- evalUnary
    intro e op p
    unfold evalUnary
    good_ind ih
  · -- evalBinary
    intro l r op
    unfold evalBinary
    good_ind ih
  · -- evalStmt
    intro st
    unfold evalStmt
    cases st with
    | forIn id idx iter body =>
      dsimp only
      intro s i _
      refine Post.bind' (Trans.refl _) ((?g1 : Good _) s i trivial) (fun loc s1 i1 t1 _ => ?_)
      case g1 => hg_auto
      refine Post.bind' t1 ((?g2 : Good _) s1 i1 trivial) (fun il s2 i2 t2 _ => ?_)
      case g2 => hg_auto
      refine Post.bind' (t1.trans t2) (ih.expr iter s2 i2 trivial) (fun it s3 i3 t3 _ => ?_)
      refine Post.bind' ((t1.trans t2).trans t3) (getHeap_ht s3 i3 trivial) (fun h s4 i4 t4 h4 => ?_)
      obtain ⟨e4, rfl⟩ := h4
      have t04 := ((t1.trans t2).trans t3).trans t4
      generalize hv : s3.heap.get it = val
      cases val with
      | arr a =>
        dsimp only
        refine Post.trans t04 (ih.forInL _ _ _ _ s4 i4 ?_)
        rw [e4]
        intro it hit
        obtain ⟨⟨c, k⟩, hck, rfl⟩ := List.mem_map.mp hit
        have hc : c ∈ (s3.heap.arr a).toList :=
          List.mem_of_getElem? (List.mem_zipIdx_iff_getElem?.mp hck)
        exact ⟨fun iv hiv => (by cases hiv; exact plain_num _), i3.wf.arrs a c hc, i3.ep a c hc⟩
      | obj o =>
        dsimp only
        refine Post.trans t04 (ih.forInL _ _ _ _ s4 i4 ?_)
        rw [e4]
        intro it hit
        obtain ⟨⟨k, c⟩, hkc, rfl⟩ := List.mem_map.mp hit
        have hm := mem_sortByKey hkc
        exact ⟨fun iv hiv => (by cases hiv), plain_strNone _, fun mc hmc => (by
          cases hmc; exact ⟨i3.wf.objs o k c hm, i3.mp o k c hm⟩)⟩
      | str sb sp =>
        dsimp only
        refine Post.trans t04 (ih.forInL _ _ _ _ s4 i4 ?_)
        intro it hit
        obtain ⟨⟨off, r⟩, hkc, rfl⟩ := List.mem_map.mp hit
        exact ⟨fun iv hiv => (by cases hiv; exact plain_num _), plain_strNone _, fun mc hmc => (by cases hmc)⟩
      | _ => exact i4.weak
    | ret e => cases e <;> dsimp only <;> good_ind ih
    | _ => dsimp only; good_ind ih
  · -- evalBlock
    intro sts
    cases sts with
    | nil => unfold evalBlock; exact Good.pure _
    | cons st rest => unfold evalBlock; good_ind ih
  · -- whileLoop
    intro c b
    unfold whileLoop
    good_ind ih
  · -- forLoop
    intro c p b
    unfold forLoop
    good_ind ih
  · -- forInLoop
    intro l il b items
    cases items with
    | nil => unfold forInLoop; exact fun s i _ => ⟨i, Trans.refl _, trivial⟩
    | cons it rest =>
      rw [Jqawk.Spec.forInLoop_succ_cons]
      intro s i p
      have p0 : ItemOK s.heap it := p _ List.mem_cons_self
      have prest : ItemsOK rest s.heap := fun x hx => p x (List.mem_cons_of_mem _ hx)
      refine Post.bind' (Trans.refl _) (bindRaw_post l il it s i p0) (fun _ s1 i1 t1 _ => ?_)
      exact Post.trans t1
        (loopIter_ht (fun _ _ t p => ItemsOK.trans t p) (ih.stmt b) (ih.forInL l il b rest) s1 i1
          (prest.trans t1))

/-- **`Inv` is an invariant of the whole evaluator**: every evaluator function, at every fuel. -/
theorem allGood (prog : Program) : ∀ n, AllGood prog n
  | 0 => allGood_zero prog
  | n + 1 => allGood_succ prog n (allGood prog n)

end Jqawk.HeapInv
