/-
  C06 infrastructure: run-level unfolding lemmas for `expressionWithPrec`, `infixLoop`,
  `prefixFn`, `infixFn` driven by `expectedRuleTable`, against a token list.
-/
import Jqawk.Lemmas.PrattRun

namespace Jqawk
namespace Parser

abbrev T : RuleTable := expectedRuleTable

/-- precedence of a tag in the table -/
def precT (t : Tag) : Nat := (lookupRule T t).prec

theorem expr_succ (n p : Nat) (s : PS) (ts : List Token) (pk : PrefixKind)
    (h : (lookupRule T s.cur.tag).pre = some pk) :
    run (expressionWithPrec T (n + 1) p) s ts
      = (run (prefixFn T n pk) s ts).bind fun r => run (infixLoop T n p r.1.1) r.1.2 r.2 := by
  unfold expressionWithPrec
  simp [h]

/-- an identifier in prefix position -/
theorem expr_ident (n p : Nat) (s : PS) (t : Token) (ts : List Token)
    (h : s.cur.tag = .ident ∨ s.cur.tag = .dollar) :
    run (expressionWithPrec T (n + 2) p) s (t :: ts)
      = run (infixLoop T (n + 1) p (.ident s.cur)) (adv s t) ts := by
  rw [expr_succ (pk := .identifier) (h := by rcases h with h | h <;> (rw [h]; rfl))]
  unfold prefixFn
  rcases h with h | h <;> simp [h]

/-- a literal in prefix position -/
theorem expr_lit (n p : Nat) (s : PS) (t : Token) (ts : List Token)
    (h : s.cur.tag = .num ∨ s.cur.tag = .str ∨ s.cur.tag = .true_ ∨ s.cur.tag = .false_ ∨
      s.cur.tag = .null) :
    run (expressionWithPrec T (n + 2) p) s (t :: ts)
      = run (infixLoop T (n + 1) p (.lit s.cur)) (adv s t) ts := by
  rw [expr_succ (pk := .literal) (h := by rcases h with h | h | h | h | h <;> (rw [h]; rfl))]
  unfold prefixFn
  simp

/-- `(` in prefix position -/
theorem expr_group (n p : Nat) (s : PS) (t : Token) (ts : List Token) (h : s.cur.tag = .lparen) :
    run (expressionWithPrec T (n + 2) p) s (t :: ts)
      = (run (expressionWithPrec T n Prec.assign) (adv s t) ts).bind fun r =>
          (run (consume .rparen) r.1.2 r.2).bind fun r' =>
            run (infixLoop T (n + 1) p r.1.1) r'.1.2 r'.2 := by
  rw [expr_succ (pk := .group) (h := by rw [h]; rfl)]
  unfold prefixFn
  simp only [run_bind, run_consume_cons _ _ _ _ h, ParseRes.bind_ok, run_pure]
  cases run (expressionWithPrec T n Prec.assign) (adv s t) ts with
  | ok r =>
    simp only [ParseRes.bind_ok]
    cases run (consume .rparen) r.1.2 r.2 <;> rfl
  | syntaxErr e => rfl
  | oof => rfl

/-- `[` in prefix position: an array literal -/
theorem expr_array (n p : Nat) (s : PS) (t : Token) (ts : List Token) (h : s.cur.tag = .lsquare) :
    run (expressionWithPrec T (n + 2) p) s (t :: ts)
      = (run (exprList T n .rsquare []) (adv s t) ts).bind fun r =>
          run (infixLoop T (n + 1) p (.arr s.cur r.1.1)) r.1.2 r.2 := by
  rw [expr_succ (pk := .array) (h := by rw [h]; rfl)]
  unfold prefixFn
  simp only [run_bind, run_consume_cons _ _ _ _ h, ParseRes.bind_ok, run_get, adv_prev, run_pure]
  cases run (exprList T n .rsquare []) (adv s t) ts <;> rfl

/-- `{` in prefix position: an object literal -/
theorem expr_object (n p : Nat) (s : PS) (t : Token) (ts : List Token) (h : s.cur.tag = .lcurly) :
    run (expressionWithPrec T (n + 2) p) s (t :: ts)
      = (run (objectLoop T n []) (adv s t) ts).bind fun r =>
          (run (consume .rcurly) r.1.2 r.2).bind fun r' =>
            run (infixLoop T (n + 1) p (.obj s.cur r.1.1)) r'.1.2 r'.2 := by
  rw [expr_succ (pk := .object) (h := by rw [h]; rfl)]
  unfold prefixFn
  simp only [run_bind, run_consume_cons _ _ _ _ h, ParseRes.bind_ok, run_get, adv_prev, run_pure]
  cases run (objectLoop T n []) (adv s t) ts with
  | ok r =>
    simp only [ParseRes.bind_ok]
    cases run (consume .rcurly) r.1.2 r.2 <;> rfl
  | syntaxErr e => rfl
  | oof => rfl

/-- the entry loop of an object literal at the closing brace (which it does not consume) -/
theorem objectLoop_end (n : Nat) (acc : List (Bytes × Expr)) (s : PS) (ts : List Token)
    (h : s.cur.tag = .rcurly) :
    run (objectLoop T (n + 1) acc) s ts = .ok ((acc.reverse, s), ts) := by
  unfold objectLoop
  simp [h]

/-- the entry loop of an object literal at a `key : value` entry -/
theorem objectLoop_item (n : Nat) (acc : List (Bytes × Expr)) (s : PS) (t1 t2 : Token)
    (ts : List Token) (hk : s.cur.tag = .str ∨ s.cur.tag = .ident) (h1 : t1.tag = .colon) :
    run (objectLoop T (n + 1) acc) s (t1 :: t2 :: ts)
      = (run (expressionWithPrec T n Prec.assign) (adv (adv s t1) t2) ts).bind fun r =>
          (if r.1.2.cur.tag = .comma then run (consume .comma) r.1.2 r.2
           else .ok (((), r.1.2), r.2)).bind fun r' =>
            run (objectLoop T n ((s.cur.text, r.1.1) :: acc)) r'.1.2 r'.2 := by
  conv => lhs; unfold objectLoop
  have hne : (s.cur.tag == Tag.rcurly || s.cur.tag == Tag.eof) = false := by
    rcases hk with h | h <;> rw [h] <;> rfl
  have hin : [Tag.str, Tag.ident].contains s.cur.tag = true := by
    rcases hk with h | h <;> rw [h] <;> rfl
  simp only [run_bind, run_curTag, ParseRes.bind_ok, hne, Bool.false_eq_true, if_false, consumeOf,
    run_get, hin, if_true, run_advance_cons, adv_prev, run_consume_cons _ _ _ _ (show (adv s t1).cur.tag = .colon from h1)]
  cases run (expressionWithPrec T n Prec.assign) (adv (adv s t1) t2) ts with
  | ok r =>
    simp only [ParseRes.bind_ok, beq_iff_eq]
    split <;> simp only [run_bind, ParseRes.bind_ok]
  | syntaxErr e => rfl
  | oof => rfl

/-- a prefix operator (`! - + ++ --`) -/
theorem expr_unary (n p : Nat) (s : PS) (t : Token) (ts : List Token)
    (h : (lookupRule T s.cur.tag).pre = some .unary) :
    run (expressionWithPrec T (n + 2) p) s (t :: ts)
      = (run (expressionWithPrec T n Prec.unary) (adv s t) ts).bind fun r =>
          if (s.cur.tag == .plusPlus || s.cur.tag == .minusMinus) && !assignable r.1.1 then
            .syntaxErr ⟨r.1.1.token.pos, "invalid increment target"⟩
          else run (infixLoop T (n + 1) p (.unary r.1.1 s.cur false)) r.1.2 r.2 := by
  rw [expr_succ (pk := .unary) (h := h)]
  unfold prefixFn
  simp only [run_bind, run_advance_cons, ParseRes.bind_ok, run_get, adv_prev]
  cases run (expressionWithPrec T n Prec.unary) (adv s t) ts with
  | ok r =>
    simp only [ParseRes.bind_ok]
    split <;> simp [*]
  | syntaxErr e => rfl
  | oof => rfl

/-- the loop ends at a token of lower precedence -/
theorem loop_stop (n p : Nat) (lhs : Expr) (s : PS) (ts : List Token) (h : ¬ p ≤ precT s.cur.tag) :
    run (infixLoop T (n + 1) p lhs) s ts = .ok ((lhs, s), ts) := by
  unfold infixLoop
  simp only [run_bind, run_get, ParseRes.bind_ok]
  have h' : ¬ p ≤ (lookupRule T s.cur.tag).prec := h
  rw [if_neg h']; rfl

theorem loop_succ (n p : Nat) (lhs : Expr) (s : PS) (ts : List Token) (ik : InfixKind)
    (hp : p ≤ precT s.cur.tag) (h : (lookupRule T s.cur.tag).inf = some ik) :
    run (infixLoop T (n + 1) p lhs) s ts
      = (run (infixFn T n ik lhs) s ts).bind fun r => run (infixLoop T n p r.1.1) r.1.2 r.2 := by
  conv => lhs; unfold infixLoop
  simp only [run_bind, run_get, ParseRes.bind_ok]
  have hp' : p ≤ (lookupRule T s.cur.tag).prec := hp
  rw [if_pos hp']
  simp [h]

/-- a binary operator in infix position: the right operand is parsed one level up -/
theorem loop_binary (n p : Nat) (lhs : Expr) (s : PS) (t : Token) (ts : List Token)
    (hp : p ≤ precT s.cur.tag) (h : (lookupRule T s.cur.tag).inf = some .binary) :
    run (infixLoop T (n + 2) p lhs) s (t :: ts)
      = (run (expressionWithPrec T n (precT s.cur.tag + 1)) (adv s t) ts).bind fun r =>
          run (infixLoop T (n + 1) p (.binary lhs r.1.1 s.cur)) r.1.2 r.2 := by
  rw [loop_succ (ik := .binary) (hp := hp) (h := h)]
  unfold infixFn precT
  simp only [run_bind, run_advance_cons, ParseRes.bind_ok, run_get, adv_prev]
  cases run (expressionWithPrec T n ((lookupRule T s.cur.tag).prec + 1)) (adv s t) ts <;> rfl

/-- an assignment operator in infix position: the right side is parsed at the same level -/
theorem loop_assign (n p : Nat) (lhs : Expr) (s : PS) (t : Token) (ts : List Token)
    (hp : p ≤ precT s.cur.tag) (h : (lookupRule T s.cur.tag).inf = some .assign)
    (ha : assignable lhs = true) :
    run (infixLoop T (n + 2) p lhs) s (t :: ts)
      = (run (expressionWithPrec T n (precT s.cur.tag)) (adv s t) ts).bind fun r =>
          run (infixLoop T (n + 1) p
            (if isCompound s.cur.tag then rewriteCompound lhs r.1.1 s.cur
             else .binary lhs r.1.1 s.cur)) r.1.2 r.2 := by
  rw [loop_succ (ik := .assign) (hp := hp) (h := h)]
  unfold infixFn precT
  simp only [ha, Bool.not_true, Bool.false_eq_true, if_false, run_bind, run_advance_cons,
    ParseRes.bind_ok, run_get, adv_prev]
  cases run (expressionWithPrec T n ((lookupRule T s.cur.tag).prec)) (adv s t) ts with
  | ok r =>
    simp only [ParseRes.bind_ok]
    split <;> simp [*]
  | syntaxErr e => rfl
  | oof => rfl

/-- an assignment to something that is not a target is a syntax error -/
theorem loop_assign_bad (n p : Nat) (lhs : Expr) (s : PS) (ts : List Token)
    (hp : p ≤ precT s.cur.tag) (h : (lookupRule T s.cur.tag).inf = some .assign)
    (ha : assignable lhs = false) :
    run (infixLoop T (n + 2) p lhs) s ts = .syntaxErr ⟨lhs.token.pos, "invalid assignment"⟩ := by
  rw [loop_succ (ik := .assign) (hp := hp) (h := h)]
  unfold infixFn
  simp [ha]

/-- postfix `++` / `--` -/
theorem loop_postfix (n p : Nat) (lhs : Expr) (s : PS) (t : Token) (ts : List Token)
    (hp : p ≤ precT s.cur.tag) (h : (lookupRule T s.cur.tag).inf = some .postfixOp)
    (ha : assignable lhs = true) :
    run (infixLoop T (n + 2) p lhs) s (t :: ts)
      = run (infixLoop T (n + 1) p (.unary lhs s.cur true)) (adv s t) ts := by
  rw [loop_succ (ik := .postfixOp) (hp := hp) (h := h)]
  unfold infixFn
  simp [ha]

/-- `. name` -/
theorem loop_member (n p : Nat) (lhs : Expr) (s : PS) (t t' : Token) (ts : List Token)
    (hp : p ≤ precT s.cur.tag) (h : s.cur.tag = .dot) (ht : t.tag = .ident) :
    run (infixLoop T (n + 2) p lhs) s (t :: t' :: ts)
      = run (infixLoop T (n + 1) p (.binary lhs (.lit t) s.cur)) (adv (adv s t) t') ts := by
  rw [loop_succ (ik := .member) (hp := hp) (h := by rw [h]; rfl)]
  unfold infixFn
  simp [run_consume_cons, h, ht]

/-- `is T` -/
theorem loop_is (n p : Nat) (lhs : Expr) (s : PS) (t t' : Token) (ts : List Token)
    (hp : p ≤ precT s.cur.tag) (h : s.cur.tag = .is)
    (ht : t.tag = .ident ∨ t.tag = .function ∨ t.tag = .null) :
    run (infixLoop T (n + 2) p lhs) s (t :: t' :: ts)
      = run (infixLoop T (n + 1) p (.binary lhs (.ident t) s.cur)) (adv (adv s t) t') ts := by
  rw [loop_succ (ik := .is) (hp := hp) (h := by rw [h]; rfl)]
  unfold infixFn
  simp [run_consume_cons, h, consumeOf, ht]

/-- `[ i ]` -/
theorem loop_index (n p : Nat) (lhs : Expr) (s : PS) (t : Token) (ts : List Token)
    (hp : p ≤ precT s.cur.tag) (h : s.cur.tag = .lsquare) :
    run (infixLoop T (n + 2) p lhs) s (t :: ts)
      = (run (expressionWithPrec T n Prec.assign) (adv s t) ts).bind fun r =>
          (run (consume .rsquare) r.1.2 r.2).bind fun r' =>
            run (infixLoop T (n + 1) p (.binary lhs r.1.1 s.cur)) r'.1.2 r'.2 := by
  rw [loop_succ (ik := .computedMember) (hp := hp) (h := by rw [h]; rfl)]
  unfold infixFn
  simp only [run_bind, run_get, ParseRes.bind_ok, run_consume_cons _ _ _ _ h, run_pure]
  cases run (expressionWithPrec T n Prec.assign) (adv s t) ts with
  | ok r =>
    simp only [ParseRes.bind_ok]
    cases run (consume .rsquare) r.1.2 r.2 <;> rfl
  | syntaxErr e => rfl
  | oof => rfl

/-- `( args )` -/
theorem loop_call (n p : Nat) (lhs : Expr) (s : PS) (t : Token) (ts : List Token)
    (hp : p ≤ precT s.cur.tag) (h : s.cur.tag = .lparen) :
    run (infixLoop T (n + 2) p lhs) s (t :: ts)
      = (run (exprList T n .rparen []) (adv s t) ts).bind fun r =>
          run (infixLoop T (n + 1) p (.call lhs r.1.1)) r.1.2 r.2 := by
  rw [loop_succ (ik := .call) (hp := hp) (h := by rw [h]; rfl)]
  unfold infixFn
  simp only [run_bind, run_consume_cons _ _ _ _ h, ParseRes.bind_ok, run_pure]
  cases run (exprList T n .rparen []) (adv s t) ts <;> rfl

/-- the argument loop at the closing token -/
theorem exprList_end (n : Nat) (endTag : Tag) (acc : List Expr) (s : PS) (t : Token)
    (ts : List Token) (h : s.cur.tag = endTag) :
    run (exprList T (n + 1) endTag acc) s (t :: ts) = .ok ((acc.reverse, adv s t), ts) := by
  unfold exprList
  simp [h, run_consume_cons]

/-- the argument loop at an argument -/
theorem exprList_arg (n : Nat) (endTag : Tag) (acc : List Expr) (s : PS) (ts : List Token)
    (h1 : s.cur.tag ≠ .eof) (h2 : s.cur.tag ≠ endTag) :
    run (exprList T (n + 1) endTag acc) s ts
      = (run (expressionWithPrec T n Prec.assign) s ts).bind fun r =>
          if r.1.2.cur.tag = .comma then
            (run (consume .comma) r.1.2 r.2).bind fun r' =>
              run (exprList T n endTag (r.1.1 :: acc)) r'.1.2 r'.2
          else
            (run (consume endTag) r.1.2 r.2).bind fun r' =>
              .ok (((r.1.1 :: acc).reverse, r'.1.2), r'.2) := by
  conv => lhs; unfold exprList
  simp only [run_bind, run_curTag, ParseRes.bind_ok]
  have : (s.cur.tag == Tag.eof || s.cur.tag == endTag) = false := by simp [h1, h2]
  simp only [this, Bool.false_eq_true, if_false, run_bind]
  cases run (expressionWithPrec T n Prec.assign) s ts with
  | ok r =>
    simp only [ParseRes.bind_ok, run_curTag, beq_iff_eq]
    split
    · simp only [run_bind]
    · simp only [run_bind]
      cases run (consume endTag) r.1.2 r.2 <;> rfl
  | syntaxErr e => rfl
  | oof => rfl

end Parser
end Jqawk
