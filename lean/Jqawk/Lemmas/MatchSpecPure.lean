/-
  C19, second layer: pattern matching as a function of the heap alone.

  * `patMatches_grows` (unconditional): matching changes nothing but the heap, and the heap only
    by allocating fresh cells (`Grows`): frames, output, root, rule root, return slot and all
    existing cells / arrays / objects are as before — in particular no binding of any
    alternative, matching or not, is visible anywhere before `runCase` binds the selected ones;
  * `patMatches_eq_pure`: from a state whose heap is well formed and contains the subject cell,
    `patMatches` answers exactly what the state-free `patMatchesPure` computes from that heap.
-/
import Jqawk.Lemmas.MatchSpec
import Jqawk.Lemmas.Heap

set_option linter.unusedVariables false
set_option linter.unusedSimpArgs false

namespace Jqawk.MatchSpec
open Jqawk Jqawk.Spec

/-! ### heaps that only grew by fresh cells -/

/-- `h'` is `h` plus freshly allocated cells: arrays, objects and all cells of `h` unchanged -/
structure HeapExt (h h' : Heap) : Prop where
  arrs : h'.arrs = h.arrs
  objs : h'.objs = h.objs
  cells : ∃ l : Array Val, h'.cells = h.cells ++ l

theorem HeapExt.refl (h : Heap) : HeapExt h h := ⟨rfl, rfl, ⟨#[], by simp⟩⟩

theorem HeapExt.trans {a b c : Heap} (h1 : HeapExt a b) (h2 : HeapExt b c) : HeapExt a c := by
  obtain ⟨a1, o1, l1, c1⟩ := h1
  obtain ⟨a2, o2, l2, c2⟩ := h2
  exact ⟨a2.trans a1, o2.trans o1, ⟨l1 ++ l2, by rw [c2, c1, Array.append_assoc]⟩⟩

theorem HeapExt.size_le {h h' : Heap} (e : HeapExt h h') : h.cells.size ≤ h'.cells.size := by
  obtain ⟨_, _, l, hc⟩ := e
  rw [hc, Array.size_append]; omega

/-- existing cells keep their contents -/
theorem HeapExt.get {h h' : Heap} (e : HeapExt h h') (c : CellId) (hc : c < h.cells.size) :
    h'.get c = h.get c := by
  obtain ⟨_, _, l, hl⟩ := e
  simp only [Heap.get, hl, Array.getD_eq_getD_getElem?, Array.getElem?_append_left hc]

/-- existing arrays keep their elements -/
theorem HeapExt.arr {h h' : Heap} (e : HeapExt h h') (a : ArrId) : h'.arr a = h.arr a := by
  simp only [Heap.arr, e.arrs]

theorem HeapExt.obj {h h' : Heap} (e : HeapExt h h') (o : ObjId) : h'.obj o = h.obj o := by
  simp only [Heap.obj, e.objs]

theorem HeapExt.push (h : Heap) (v : Val) : HeapExt h { h with cells := h.cells.push v } :=
  ⟨rfl, rfl, ⟨#[v], by simp⟩⟩

theorem HeapExt.wf {h h' : Heap} (e : HeapExt h h') (wf : h.WF) : h'.WF := by
  constructor
  · intro a c hc
    rw [e.arr] at hc
    exact Nat.lt_of_lt_of_le (wf.arrs a c hc) e.size_le
  · intro o k c hc
    rw [e.obj] at hc
    exact Nat.lt_of_lt_of_le (wf.objs o k c hc) e.size_le

/-- `s'` is `s` with a heap that only grew by fresh cells (the ghost fault counters aside) -/
structure Grows (s s' : St) : Prop where
  heap : HeapExt s.heap s'.heap
  frames : s'.frames = s.frames
  out : s'.out = s.out
  root : s'.root = s.root
  ruleRoot : s'.ruleRoot = s.ruleRoot
  returnVal : s'.returnVal = s.returnVal
  maxDepth : s'.maxDepth = s.maxDepth

theorem Grows.refl (s : St) : Grows s s := ⟨HeapExt.refl _, rfl, rfl, rfl, rfl, rfl, rfl⟩

theorem Grows.trans {a b c : St} (h1 : Grows a b) (h2 : Grows b c) : Grows a c :=
  ⟨h1.heap.trans h2.heap, h2.frames.trans h1.frames, h2.out.trans h1.out, h2.root.trans h1.root,
    h2.ruleRoot.trans h1.ruleRoot, h2.returnVal.trans h1.returnVal, h2.maxDepth.trans h1.maxDepth⟩

/-- a computation that, however it ends, only allocated fresh cells -/
def GrowsOnly {α : Type} (m : EM α) : Prop := ∀ s s', endState (m s) = some s' → Grows s s'

namespace GrowsOnly

theorem pure {α : Type} (a : α) : GrowsOnly (Pure.pure a : EM α) := by
  intro s s' h
  simp [Pure.pure, EM.pure, endState] at h
  subst h; exact Grows.refl _

theorem bind {α β : Type} {m : EM α} {f : α → EM β} (hm : GrowsOnly m) (hf : ∀ a, GrowsOnly (f a)) :
    GrowsOnly (m >>= f) := by
  intro s s' h
  change endState (EM.bind m f s) = some s' at h
  unfold EM.bind at h
  cases hr : m s with
  | ok a s1 =>
    rw [hr] at h
    exact (hm s s1 (by rw [hr]; rfl)).trans (hf a s1 s' h)
  | err e s1 =>
    rw [hr] at h
    exact hm s s' (by rw [hr]; exact h)
  | oof => rw [hr] at h; simp [endState] at h

theorem readCell (c : CellId) : GrowsOnly (Jqawk.readCell c) := by
  intro s s' h
  simp [Jqawk.readCell, endState] at h
  subst h; exact Grows.refl _

theorem getHeap : GrowsOnly Jqawk.getHeap := by
  intro s s' h
  simp [Jqawk.getHeap, endState] at h
  subst h; exact Grows.refl _

theorem newCell (v : Val) : GrowsOnly (Jqawk.newCell v) := by
  intro s s' h
  simp [Jqawk.newCell, Heap.alloc, endState] at h
  subst h
  exact ⟨HeapExt.push _ _, rfl, rfl, rfl, rfl, rfl, rfl⟩

theorem throwRt {α : Type} (pos : Nat) (msg : String) : GrowsOnly (Jqawk.throwRt pos msg : EM α) := by
  intro s s' h
  simp [Jqawk.throwRt, endState] at h
  subst h
  exact ⟨HeapExt.refl _, rfl, rfl, rfl, rfl, rfl, rfl⟩

end GrowsOnly

/-! ### literals -/

/-- evaluating a literal: a fresh cell holding its value, or the error -/
def litAction : Except Err Val → EM CellId
  | .ok v => newCell v
  | .error (.runtime p m) => throwRt p m
  | .error e => fun s => .err e s

theorem litAction_grows (r : Except Err Val) : GrowsOnly (litAction r) := by
  cases r with
  | ok v => exact GrowsOnly.newCell v
  | error e =>
    cases e with
    | runtime p m => exact GrowsOnly.throwRt p m
    | sig g => intro s s' h; simp [litAction, endState] at h; subst h; exact Grows.refl _
    | panic m => intro s s' h; simp [litAction, endState] at h; subst h; exact Grows.refl _
    | unmodelled w => intro s s' h; simp [litAction, endState] at h; subst h; exact Grows.refl _

/-- the literal clause of the evaluator is `litValue` -/
theorem evalExpr_lit_eq (prog : Program) (k : Nat) (t : Token) :
    evalExpr prog (k + 1) (.lit t) = litAction (litValue t) := by
  simp only [evalExpr, litValue]
  generalize t.tag = tg
  cases tg <;> dsimp only <;> first
    | rfl
    | (generalize evalStringLit t.text = r; cases r <;> rfl)
    | (generalize F64.parse t.text = r; cases r <;> rfl)

theorem evalExpr_lit_grows (prog : Program) (m : Nat) (t : Token) :
    GrowsOnly (evalExpr prog m (.lit t)) := by
  cases m with
  | zero => rw [evalExpr_zero]; intro s s' h; simp [oof, endState] at h
  | succ k => rw [evalExpr_lit_eq]; exact litAction_grows _

/-! ### matching only allocates -/

theorem patMatches_grows_aux {ev : Expr → EM CellId} (h : ∀ t, GrowsOnly (ev (.lit t))) :
    ∀ k, (∀ p c, patFuel p ≤ k → GrowsOnly (patMatches ev p c)) ∧
      (∀ ps cs acc, elemsFuel ps ≤ k → GrowsOnly (elemsMatch ev ps cs acc))
  | 0 => ⟨fun p c hk => by have := patFuel_pos p; omega,
          fun ps cs acc hk => by have := elemsFuel_pos ps; omega⟩
  | k + 1 => by
    obtain ⟨ihp, ihe⟩ := patMatches_grows_aux h k
    constructor
    · intro p c hk
      cases p with
      | lit t =>
        rw [patMatches_lit]
        refine GrowsOnly.bind (h t) (fun lc => GrowsOnly.bind (GrowsOnly.readCell _) (fun v =>
          GrowsOnly.bind (GrowsOnly.readCell _) (fun lv => ?_)))
        split
        · exact GrowsOnly.throwRt _ _
        · exact GrowsOnly.pure _
        · exact GrowsOnly.pure _
      | ident t => rw [patMatches_ident]; exact GrowsOnly.pure _
      | arr t items =>
        simp only [patFuel] at hk
        rw [patMatches_arr]
        refine GrowsOnly.bind (GrowsOnly.readCell _) (fun v => ?_)
        cases v <;> try exact GrowsOnly.pure _
        refine GrowsOnly.bind GrowsOnly.getHeap (fun hp => ?_)
        dsimp only
        split
        · exact GrowsOnly.pure _
        · exact ihe _ _ _ (by omega)
      | obj t items =>
        rw [patMatches_unsupported _ _ _ (by simp) (by simp) (by simp)]; exact GrowsOnly.throwRt _ _
      | unary e op b =>
        rw [patMatches_unsupported _ _ _ (by simp) (by simp) (by simp)]; exact GrowsOnly.throwRt _ _
      | binary l r op =>
        rw [patMatches_unsupported _ _ _ (by simp) (by simp) (by simp)]; exact GrowsOnly.throwRt _ _
      | call f args =>
        rw [patMatches_unsupported _ _ _ (by simp) (by simp) (by simp)]; exact GrowsOnly.throwRt _ _
      | match_ t v cs =>
        rw [patMatches_unsupported _ _ _ (by simp) (by simp) (by simp)]; exact GrowsOnly.throwRt _ _
    · intro ps cs acc hk
      cases ps with
      | nil => rw [elemsMatch_nil_left]; exact GrowsOnly.pure _
      | cons p ps =>
        cases cs with
        | nil => rw [elemsMatch_nil_right]; exact GrowsOnly.pure _
        | cons c cs =>
          simp only [elemsFuel] at hk
          rw [elemsMatch_cons]
          refine GrowsOnly.bind (ihp p c (by omega)) (fun r => ?_)
          cases r with
          | none => exact GrowsOnly.pure _
          | some nb => exact ihe _ _ _ (by omega)

/-- **matching a pattern only allocates fresh cells** (literal values): frames, output, roots,
    return slot, existing cells, arrays and objects are untouched — whether it matches or not -/
theorem patMatches_grows {ev : Expr → EM CellId} (h : ∀ t, GrowsOnly (ev (.lit t))) (p : Expr)
    (c : CellId) : GrowsOnly (patMatches ev p c) :=
  (patMatches_grows_aux h (patFuel p)).1 p c (Nat.le_refl _)

theorem elemsMatch_grows {ev : Expr → EM CellId} (h : ∀ t, GrowsOnly (ev (.lit t))) (ps : List Expr)
    (cs : List CellId) (acc : Bindings) : GrowsOnly (elemsMatch ev ps cs acc) :=
  (patMatches_grows_aux h (elemsFuel ps)).2 ps cs acc (Nat.le_refl _)

theorem firstAlt_grows {ev : Expr → EM CellId} (h : ∀ t, GrowsOnly (ev (.lit t))) (c : CellId) :
    ∀ pats, GrowsOnly (firstAlt ev c pats)
  | [] => GrowsOnly.pure _
  | p :: rest => by
    rw [firstAlt_cons]
    refine GrowsOnly.bind (patMatches_grows h p c) (fun r => ?_)
    cases r with
    | none => exact firstAlt_grows h c rest
    | some b => exact GrowsOnly.pure _

theorem firstMatch_grows {ev : Expr → EM CellId} (h : ∀ t, GrowsOnly (ev (.lit t))) (c : CellId) :
    ∀ cases, GrowsOnly (firstMatch ev c cases)
  | [] => GrowsOnly.pure _
  | .mk pats body :: rest => by
    rw [firstMatch_cons]
    refine GrowsOnly.bind (firstAlt_grows h c pats) (fun r => ?_)
    cases r with
    | none => exact firstMatch_grows h c rest
    | some b => exact GrowsOnly.pure _

/-! ### the answer is a function of the heap -/

/-- a state-free answer as a result in state `s'` -/
def answerRes : PatAnswer → St → Res (Option Bindings)
  | .binds b, s' => .ok (some b) s'
  | .noMatch, s' => .ok none s'
  | .fault e, s' => .err e s'

theorem endState_answerRes (a : PatAnswer) (s' : St) : endState (answerRes a s') = some s' := by
  cases a <;> rfl

theorem litAction_apply (r : Except Err Val) (s : St) :
    (∃ v, r = .ok v ∧ litAction r s =
        .ok s.heap.cells.size { s with heap := { s.heap with cells := s.heap.cells.push v } }) ∨
    (∃ e s', r = .error e ∧ litAction r s = .err e s') := by
  cases r with
  | ok v => exact .inl ⟨v, rfl, rfl⟩
  | error e =>
    cases e with
    | runtime p m => exact .inr ⟨_, _, rfl, rfl⟩
    | sig g => exact .inr ⟨_, _, rfl, rfl⟩
    | panic m => exact .inr ⟨_, _, rfl, rfl⟩
    | unmodelled w => exact .inr ⟨_, _, rfl, rfl⟩

theorem patMatches_eq_pure_aux {ev : Expr → EM CellId} {lit : Token → Except Err Val}
    (hlit : ∀ t, ev (.lit t) = litAction (lit t)) (h0 : Heap) (wf : h0.WF) :
    ∀ k, (∀ p c s, patFuel p ≤ k → HeapExt h0 s.heap → c < h0.cells.size →
        ∃ s', patMatches ev p c s = answerRes (patMatchesPure h0 lit p c) s') ∧
      (∀ ps cs acc s, elemsFuel ps ≤ k → HeapExt h0 s.heap → (∀ c ∈ cs, c < h0.cells.size) →
        ∃ s', elemsMatch ev ps cs acc s = answerRes (elemsMatchPure h0 lit ps cs acc) s')
  | 0 => ⟨fun p c s hk => by have := patFuel_pos p; omega,
          fun ps cs acc s hk => by have := elemsFuel_pos ps; omega⟩
  | k + 1 => by
    obtain ⟨ihp, ihe⟩ := patMatches_eq_pure_aux hlit h0 wf k
    have hg : ∀ t, GrowsOnly (ev (.lit t)) := fun t => by rw [hlit]; exact litAction_grows _
    constructor
    · intro p c s hk hext hc
      cases p with
      | lit t =>
        rw [patMatches_lit]
        simp only [patMatchesPure, bind, EM.bind, hlit, Jqawk.readCell]
        rcases litAction_apply (lit t) s with ⟨v, hv, ha⟩ | ⟨e, s1, he, ha⟩
        · rw [ha, hv]
          dsimp only
          have hsz : c < s.heap.cells.size := Nat.lt_of_lt_of_le hc hext.size_le
          rw [Heap.get_push_new, Heap.get_push_old _ _ _ hsz, hext.get c hc]
          cases litMatches (h0.get c) v with
          | error m => exact ⟨_, rfl⟩
          | ok b => cases b <;> exact ⟨_, rfl⟩
        · rw [ha, he]
          exact ⟨_, rfl⟩
      | ident t => rw [patMatches_ident]; exact ⟨s, rfl⟩
      | arr t items =>
        simp only [patFuel] at hk
        rw [patMatches_arr]
        simp only [patMatchesPure, bind, EM.bind, Jqawk.readCell, Jqawk.getHeap]
        rw [hext.get c hc]
        cases hv : h0.get c <;> try exact ⟨s, rfl⟩
        rename_i a
        simp only [bind, EM.bind, Jqawk.getHeap, hext.arr]
        by_cases hl : ((h0.arr a).toList.length != items.length) = true
        · simp only [hl, ↓reduceIte]; exact ⟨s, rfl⟩
        · simp only [hl, Bool.false_eq_true, ↓reduceIte]
          exact ihe items _ [] s (by omega) hext (fun c' hc' => wf.arrs a c' hc')
      | obj t items =>
        rw [patMatches_unsupported _ _ _ (by simp) (by simp) (by simp)]; exact ⟨_, rfl⟩
      | unary e op b =>
        rw [patMatches_unsupported _ _ _ (by simp) (by simp) (by simp)]; exact ⟨_, rfl⟩
      | binary l r op =>
        rw [patMatches_unsupported _ _ _ (by simp) (by simp) (by simp)]; exact ⟨_, rfl⟩
      | call f args =>
        rw [patMatches_unsupported _ _ _ (by simp) (by simp) (by simp)]; exact ⟨_, rfl⟩
      | match_ t v cs =>
        rw [patMatches_unsupported _ _ _ (by simp) (by simp) (by simp)]; exact ⟨_, rfl⟩
    · intro ps cs acc s hk hext hcs
      cases ps with
      | nil => rw [elemsMatch_nil_left]; cases cs <;> exact ⟨s, rfl⟩
      | cons p ps =>
        cases cs with
        | nil => rw [elemsMatch_nil_right]; exact ⟨s, rfl⟩
        | cons c cs =>
          simp only [elemsFuel] at hk
          rw [elemsMatch_cons]
          obtain ⟨s1, h1⟩ := ihp p c s (by omega) hext (hcs c (by simp))
          have hg1 : Grows s s1 :=
            patMatches_grows hg p c s s1 (by rw [h1]; exact endState_answerRes _ _)
          simp only [elemsMatchPure, bind, EM.bind, h1]
          cases patMatchesPure h0 lit p c with
          | binds nb =>
            exact ihe ps cs _ s1 (by omega) (hext.trans hg1.heap)
              (fun c' hc' => hcs c' (by simp [hc']))
          | noMatch => exact ⟨s1, rfl⟩
          | fault e => exact ⟨s1, rfl⟩

/-- **the matcher is a function of the heap**: from a state `s` whose heap is well formed and
    contains the subject cell, `patMatches` answers exactly `patMatchesPure s.heap`, in a state
    `s'` that differs from `s` only by freshly allocated cells. -/
theorem patMatches_eq_pure {ev : Expr → EM CellId} {lit : Token → Except Err Val}
    (hlit : ∀ t, ev (.lit t) = litAction (lit t)) (p : Expr) (c : CellId) (s : St)
    (wf : s.heap.WF) (hc : c < s.heap.cells.size) :
    ∃ s', patMatches ev p c s = answerRes (patMatchesPure s.heap lit p c) s' ∧ Grows s s' := by
  obtain ⟨s', h⟩ := (patMatches_eq_pure_aux hlit s.heap wf (patFuel p)).1 p c s (Nat.le_refl _)
    (HeapExt.refl _) hc
  have hg : ∀ t, GrowsOnly (ev (.lit t)) := fun t => by rw [hlit]; exact litAction_grows _
  refine ⟨s', h, patMatches_grows hg p c s s' ?_⟩
  rw [h]; exact endState_answerRes _ _

/-- the same for the alternatives of a case -/
theorem firstAlt_eq_pure {ev : Expr → EM CellId} {lit : Token → Except Err Val}
    (hlit : ∀ t, ev (.lit t) = litAction (lit t)) (c : CellId) (h0 : Heap) (wf : h0.WF)
    (hc : c < h0.cells.size) :
    ∀ (pats : List Expr) (s : St), HeapExt h0 s.heap →
      ∃ s', firstAlt ev c pats s = answerRes (firstAltPure h0 lit c pats) s' ∧ Grows s s'
  | [], s, _ => ⟨s, rfl, Grows.refl _⟩
  | p :: rest, s, hext => by
    have hg : ∀ t, GrowsOnly (ev (.lit t)) := fun t => by rw [hlit]; exact litAction_grows _
    obtain ⟨s1, h1⟩ := (patMatches_eq_pure_aux hlit h0 wf (patFuel p)).1 p c s (Nat.le_refl _) hext hc
    have hg1 : Grows s s1 := patMatches_grows hg p c s s1 (by rw [h1]; exact endState_answerRes _ _)
    simp only [firstAlt_cons, firstAltPure, bind, EM.bind, h1]
    cases patMatchesPure h0 lit p c with
    | binds b => exact ⟨s1, rfl, hg1⟩
    | noMatch =>
      obtain ⟨s2, h2, hg2⟩ := firstAlt_eq_pure hlit c h0 wf hc rest s1 (hext.trans hg1.heap)
      exact ⟨s2, h2, hg1.trans hg2⟩
    | fault e => exact ⟨s1, rfl, hg1⟩

/-! ### literal patterns are `==` -/

/-- the primitive test of a literal pattern IS the operator `==` on the two values (for a
    right operand that is not an unset value — no literal is, `litValue_kind`): `true` / `false`
    as `==` answers, and an error exactly when `==` raises it, with the same message -/
theorem equalEqual_eq_litMatches (v l : Val) (hl : l.kind ≠ .unknown) :
    binaryOp .equalEqual v l =
      (match litMatches v l with
       | .ok b => .val (.bool b)
       | .error m => .err false m) := by
  have hl' : (l.kind == Kind.unknown) = false := by simpa using hl
  simp only [binaryOp, isCompareOp, beq_self_eq_true, Bool.or_true, Bool.true_or, ↓reduceIte,
    litMatches, hl', Bool.or_false]
  by_cases hu : (v.kind == Kind.unknown) = true
  · simp [hu]
  · simp only [hu, Bool.false_eq_true, ↓reduceIte]
    cases v.compare l with
    | error m => rfl
    | ok c => simp [cmpResult]

/-- a literal never evaluates to an unset value -/
theorem litValue_kind (t : Token) (v : Val) (h : litValue t = .ok v) : v.kind ≠ .unknown := by
  unfold litValue at h
  split at h
  · split at h <;> simp at h; subst h; simp [Val.kind]
  · split at h <;> simp at h; subst h; simp [Val.kind]
  · simp at h; subst h; simp [Val.kind]
  · split at h <;> simp at h; subst h; simp [Val.kind]
  · simp at h; subst h; simp [Val.kind]
  · simp at h; subst h; simp [Val.kind]
  · simp at h; subst h; simp [Val.kind]
  · simp at h

/-! ### a computable well-formedness check (for concrete instances) -/

/-- every cell id stored in an array or an object is allocated, as a computation -/
def wfCheck (h : Heap) : Bool :=
  h.arrs.all (fun a => a.all (fun c => decide (c < h.cells.size))) &&
  h.objs.all (fun m => m.all (fun kv => decide (kv.2 < h.cells.size)))

theorem wf_of_wfCheck (h : Heap) (hc : wfCheck h = true) : h.WF := by
  simp only [wfCheck, Bool.and_eq_true, Array.all_eq_true_iff_forall_mem, List.all_eq_true,
    decide_eq_true_eq] at hc
  constructor
  · intro a c hmem
    simp only [Heap.arr, Array.getD_eq_getD_getElem?] at hmem
    cases hg : h.arrs[a]? with
    | none => rw [hg] at hmem; simp at hmem
    | some x =>
      rw [hg] at hmem
      simp only [Option.getD_some, Array.mem_toList_iff] at hmem
      exact hc.1 x (Array.mem_of_getElem? hg) c hmem
  · intro o k c hmem
    simp only [Heap.obj, Array.getD_eq_getD_getElem?] at hmem
    cases hg : h.objs[o]? with
    | none => rw [hg] at hmem; simp at hmem
    | some x =>
      rw [hg] at hmem
      simp only [Option.getD_some] at hmem
      exact hc.2 x (Array.mem_of_getElem? hg) (k, c) hmem

end Jqawk.MatchSpec
