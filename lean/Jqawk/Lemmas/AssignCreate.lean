/-
  The frame rule for an assignment that creates its target (C09): `o.new = e`, `a[len+k] = e`,
  `u.k = e` / `u[i] = e` for an unset `u` — one level of `createSpeculativeObjects`.
-/
import Jqawk.Lemmas.AssignFrame

set_option linter.unusedVariables false

namespace Jqawk

/-- the member value `createSpeculativeObjects` sets for a remembered key -/
def Key.val : Key → Val
  | .str s => .str s none
  | .num x => .num x

/-- materialising the base of a missing member: an unset base becomes a fresh empty array
    (numeric key) or object and its cell is updated; any other base is used as it is.
    Returns the heap and the container value to store the member in. -/
def createTarget (h : Heap) (b : CellId) (key : Key) : Heap × Val :=
  match h.get b with
  | .unknown =>
    match key with
    | .num _ => ((h.allocArr #[]).2.set b (.arr h.arrs.size), .arr h.arrs.size)
    | .str _ => ((h.allocObj []).2.set b (.obj h.objs.size), .obj h.objs.size)
  | pv => (h, pv)

/-- one level of `createSpeculative`: the cell `sc` stands for the missing member `key` of the
    cell `b`, and `b` itself does not stand for a missing member -/
theorem createSpeculative_one (n : Nat) (sc b : CellId) (key : Key) (s : St)
    (hsv : s.heap.get sc = .nil (some ⟨b, key⟩)) (hpv : ∀ sp, s.heap.get b ≠ .nil sp) :
    createSpeculative (n + 1) sc s =
      match setMember (createTarget s.heap b key).1 (createTarget s.heap b key).2 key.val sc with
      | .error m => .ok (.error m) { s with heap := (createTarget s.heap b key).1 }
      | .ok (c, h') => .ok (.ok c) { s with heap := h' } := by
  unfold createSpeculative
  simp only [bind, EM.bind, readCell, hsv]
  unfold createTarget
  cases hv : s.heap.get b with
  | nil sp => exact absurd hv (hpv sp)
  | unknown =>
    cases key with
    | num x =>
      simp only [Key.val, allocArrM, Heap.allocArr, writeCell, pure, EM.pure, bind, EM.bind, getHeap, setHeap]
      cases setMember _ _ _ _ with
      | error m => rfl
      | ok r => rfl
    | str k =>
      simp only [Key.val, allocObjM, Heap.allocObj, writeCell, pure, EM.pure, bind, EM.bind, getHeap, setHeap]
      cases setMember _ _ _ _ with
      | error m => rfl
      | ok r => rfl
  | _ =>
    simp only [pure, EM.pure, bind, EM.bind, getHeap, setHeap]
    cases key <;> simp only [Key.val] <;> cases setMember _ _ _ _ <;> rfl


/-- assignment to a cell that stands for a missing member of `b`: materialise the base, store
    the cell (or, for an array, a fresh element cell) as the member, copy the value into it -/
theorem evalAssignment_create (pos : Nat) (left right b : CellId) (key : Key) (s : St)
    (hsv : s.heap.get left = .nil (some ⟨b, key⟩)) (hpv : ∀ sp, s.heap.get b ≠ .nil sp) :
    evalAssignment pos left right s =
      match setMember (createTarget s.heap b key).1 (createTarget s.heap b key).2 key.val left with
      | .error m => Jqawk.throwRt pos m { s with heap := (createTarget s.heap b key).1 }
      | .ok (c, h') =>
        match copyVal (h'.get right) with
        | .ok w => .ok c { s with heap := h'.set c w }
        | .error m => Jqawk.throwRt pos m { s with heap := h' } := by
  unfold evalAssignment
  simp only [bind, EM.bind, readCell, hsv, ↓reduceIte, getHeap]
  rw [createSpeculative_one (s.heap.cells.size + 1) left b key s hsv hpv]
  cases setMember (createTarget s.heap b key).1 (createTarget s.heap b key).2 key.val left with
  | error m => rfl
  | ok r =>
    obtain ⟨c, h'⟩ := r
    simp only [pure, EM.pure, copyValue, bind, EM.bind, readCell]
    cases copyVal (h'.get right) <;> rfl

/-- the whole assignment `l = r` when `l` evaluates to a stand-in for a missing member -/
theorem assign_create_eq (prog : Program) (n : Nat) (l r : Expr) (op : Token) (s s1 s2 : St)
    (sc rc b : CellId) (key : Key) (hop : op.tag = .equal)
    (h1 : evalExpr prog n l s = .ok sc s1) (h2 : evalExpr prog n r s1 = .ok rc s2)
    (hsv : s2.heap.get sc = .nil (some ⟨b, key⟩)) (hpv : ∀ sp, s2.heap.get b ≠ .nil sp) :
    evalExpr prog (n + 2) (.binary l r op) s =
      match setMember (createTarget s2.heap b key).1 (createTarget s2.heap b key).2 key.val sc with
      | .error m => Jqawk.throwRt l.token.pos m { s2 with heap := (createTarget s2.heap b key).1 }
      | .ok (c, h') =>
        match copyVal (h'.get rc) with
        | .ok w => .ok c { s2 with heap := h'.set c w }
        | .error m => Jqawk.throwRt l.token.pos m { s2 with heap := h' } := by
  unfold evalExpr
  dsimp only
  unfold evalBinary
  simp only [bind, EM.bind, h1, hop, h2]
  exact evalAssignment_create _ _ _ _ _ _ hsv hpv


/-! ### storing past the end of an array -/

theorem fillNulls_eq : ∀ (n : Nat) (h : Heap) (items : Array CellId),
    fillNulls n h items =
      (h.allocMany (List.replicate n (.nil none)), items ++ (List.range' h.cells.size n).toArray)
  | 0, h, items => by
    simp [fillNulls, Heap.allocMany]
  | n + 1, h, items => by
    rw [fillNulls]
    simp only [Heap.alloc]
    rw [fillNulls_eq n]
    simp only [Heap.allocMany, Array.size_push, List.replicate_succ, List.range'_succ]
    refine Prod.ext ?_ ?_
    · simp only
      congr 1
      apply Array.toList_inj.mp
      simp
    · simp only
      apply Array.toList_inj.mp
      simp

/-- the heap after storing at an index at or past the end of an array: null padding, then the
    new element -/
def padHeap (h : Heap) (a : ArrId) (i : Nat) (v : Val) : Heap :=
  let n := i + 1 - (h.arr a).size
  ((h.allocMany (List.replicate n (.nil none))).setArr a
    (h.arr a ++ (List.range' h.cells.size n).toArray)).set (h.cells.size + (i - (h.arr a).size)) v

theorem setMember_arr_fill (h : Heap) (a : ArrId) (x : F64) (cell : CellId) (i : Nat)
    (hi : resolveIndex (h.arr a).size x.toGoInt = some i) (hge : (h.arr a).size ≤ i)
    (hlim : i ≤ fillLimit) (hc : cell < h.cells.size) :
    setMember h (.arr a) (.num x) cell =
      .ok (h.cells.size + (i - (h.arr a).size), padHeap h a i (h.get cell)) := by
  have h1 : ¬ i < (h.arr a).size := Nat.not_lt.mpr hge
  have h2 : ¬ i > fillLimit := Nat.not_lt.mpr hlim
  simp only [setMember, hi, h1, h2, ↓reduceIte, fillNulls_eq, padHeap]
  have hidx : (h.arr a ++ (List.range' h.cells.size (i + 1 - (h.arr a).size)).toArray).getD i 0 =
      h.cells.size + (i - (h.arr a).size) := by
    simp only [Array.getD_eq_getD_getElem?]
    rw [Array.getElem?_append_right hge]
    simp only [List.getElem?_toArray]
    rw [List.getElem?_range' (by omega)]
    simp
  rw [hidx]
  congr 3
  rw [Heap.get_setArr]
  exact Heap.get_allocMany_old h _ cell hc


theorem padHeap_spec (h : Heap) (a : ArrId) (i : Nat) (v : Val) (hge : (h.arr a).size ≤ i) :
    (padHeap h a i v).cells.size = h.cells.size + (i + 1 - (h.arr a).size) ∧
    (padHeap h a i v).arrs.size = h.arrs.size ∧ (padHeap h a i v).objs = h.objs ∧
    (∀ d, d < h.cells.size → (padHeap h a i v).get d = h.get d) ∧
    (∀ a', a' ≠ a → (padHeap h a i v).arr a' = h.arr a') ∧
    (a < h.arrs.size → (padHeap h a i v).arr a =
      h.arr a ++ (List.range' h.cells.size (i + 1 - (h.arr a).size)).toArray) ∧
    (∀ j, j < i - (h.arr a).size → (padHeap h a i v).get (h.cells.size + j) = .nil none) ∧
    (padHeap h a i v).get (h.cells.size + (i - (h.arr a).size)) = v := by
  have hsz : (h.allocMany (List.replicate (i + 1 - (h.arr a).size) (.nil none))).cells.size =
      h.cells.size + (i + 1 - (h.arr a).size) := by simp [Heap.allocMany]
  refine ⟨?_, ?_, rfl, ?_, ?_, ?_, ?_, ?_⟩
  · simp only [padHeap]; rw [Heap.size_set]; exact hsz
  · simp [padHeap, Heap.set, Heap.setArr, Heap.allocMany]
  · intro d hd
    simp only [padHeap]
    rw [Heap.get_set_ne' _ _ _ _ (Nat.ne_of_lt (Nat.lt_of_lt_of_le hd (Nat.le_add_right _ _))),
      Heap.get_setArr]
    exact Heap.get_allocMany_old h _ d hd
  · intro a' ha'
    simp only [padHeap]
    show ((h.allocMany _).setArr a _).arr a' = h.arr a'
    rw [Heap.arr_setArr_other _ _ _ _ ha']
    rfl
  · intro ha
    simp only [padHeap]
    show ((h.allocMany _).setArr a _).arr a = _
    rw [Heap.arr_setArr_same _ _ _ (by simpa [Heap.allocMany] using ha)]
  · intro j hj
    simp only [padHeap]
    rw [Heap.get_set_ne' _ _ _ _ (fun e => Nat.ne_of_lt hj (Nat.add_left_cancel e)), Heap.get_setArr]
    have := Heap.get_allocMany_new h (List.replicate (i + 1 - (h.arr a).size) (.nil none)) j
      (by simp; omega)
    rw [this]; simp
  · simp only [padHeap]
    apply Heap.get_set_same'
    show _ < ((h.allocMany _).setArr a _).cells.size
    show _ < (h.allocMany _).cells.size
    rw [hsz]; omega

/-! ### the frame of a creating store -/

/-- `h'` agrees with `h` on every old cell, array and object outside the given sets -/
structure HeapFrame (C : CellId → Prop) (A : ArrId → Prop) (O : ObjId → Prop) (h h' : Heap) : Prop where
  cells : h.cells.size ≤ h'.cells.size
  arrs : h.arrs.size ≤ h'.arrs.size
  objs : h.objs.size ≤ h'.objs.size
  get : ∀ d, d < h.cells.size → ¬ C d → h'.get d = h.get d
  arr : ∀ a, a < h.arrs.size → ¬ A a → h'.arr a = h.arr a
  obj : ∀ o, o < h.objs.size → ¬ O o → h'.obj o = h.obj o

namespace HeapFrame

theorem refl (C : CellId → Prop) (A : ArrId → Prop) (O : ObjId → Prop) (h : Heap) : HeapFrame C A O h h :=
  ⟨Nat.le_refl _, Nat.le_refl _, Nat.le_refl _, fun _ _ _ => rfl, fun _ _ _ => rfl, fun _ _ _ => rfl⟩

theorem trans {C : CellId → Prop} {A : ArrId → Prop} {O : ObjId → Prop} {a b c : Heap}
    (h1 : HeapFrame C A O a b) (h2 : HeapFrame C A O b c) : HeapFrame C A O a c :=
  ⟨Nat.le_trans h1.cells h2.cells, Nat.le_trans h1.arrs h2.arrs, Nat.le_trans h1.objs h2.objs,
   fun d hd hc => by rw [h2.get d (Nat.lt_of_lt_of_le hd h1.cells) hc, h1.get d hd hc],
   fun x hx hc => by rw [h2.arr x (Nat.lt_of_lt_of_le hx h1.arrs) hc, h1.arr x hx hc],
   fun x hx hc => by rw [h2.obj x (Nat.lt_of_lt_of_le hx h1.objs) hc, h1.obj x hx hc]⟩

theorem mono {C C' : CellId → Prop} {A A' : ArrId → Prop} {O O' : ObjId → Prop} {a b : Heap}
    (h : HeapFrame C A O a b) (hC : ∀ d, C d → C' d) (hA : ∀ d, A d → A' d) (hO : ∀ d, O d → O' d) :
    HeapFrame C' A' O' a b :=
  ⟨h.cells, h.arrs, h.objs, fun d hd hc => h.get d hd (fun x => hc (hC d x)),
   fun d hd hc => h.arr d hd (fun x => hc (hA d x)), fun d hd hc => h.obj d hd (fun x => hc (hO d x))⟩

/-- writing one cell -/
theorem set (h : Heap) (c : CellId) (w : Val) :
    HeapFrame (fun d => d = c) (fun _ => False) (fun _ => False) h (h.set c w) :=
  ⟨by rw [Heap.size_set]; exact Nat.le_refl _, Nat.le_refl _, Nat.le_refl _,
   fun d _ hc => Heap.get_set_ne' _ _ _ _ hc, fun _ _ _ => rfl, fun _ _ _ => rfl⟩

end HeapFrame

theorem createTarget_frame (h : Heap) (b : CellId) (key : Key) :
    HeapFrame (fun d => d = b ∧ h.get b = .unknown) (fun _ => False) (fun _ => False) h
      (createTarget h b key).1 := by
  unfold createTarget
  cases hv : h.get b with
  | unknown =>
    cases key with
    | num x =>
      refine ⟨by simp [Heap.set, Heap.allocArr], by simp [Heap.set, Heap.allocArr], Nat.le_refl _,
        ?_, ?_, fun _ _ _ => rfl⟩
      · intro d hd hc
        have : d ≠ b := fun e => hc ⟨e, rfl⟩
        rw [Heap.get_set_ne' _ _ _ _ this]; rfl
      · intro a ha _
        exact HeapPreserved.arr_push_old h #[] a ha
    | str k =>
      refine ⟨by simp [Heap.set, Heap.allocObj], Nat.le_refl _, by simp [Heap.set, Heap.allocObj],
        ?_, fun _ _ _ => rfl, ?_⟩
      · intro d hd hc
        have : d ≠ b := fun e => hc ⟨e, rfl⟩
        rw [Heap.get_set_ne' _ _ _ _ this]; rfl
      · intro o ho _
        exact HeapPreserved.obj_push_old h [] o ho
  | _ => exact HeapFrame.refl _ _ _ h

/-- `SetMember` storing a new member (object: any key; array: an index at or past the end):
    no old cell changes, only the addressed container does; the member cell is the given cell
    (object) or a fresh one (array) -/
theorem setMember_frame (h : Heap) (target kv : Val) (cell c : CellId) (h' : Heap)
    (hc : cell < h.cells.size) (hs : setMember h target kv cell = .ok (c, h'))
    (hidx : ∀ a x i, target = .arr a → kv = .num x →
      resolveIndex (h.arr a).size x.toGoInt = some i → (h.arr a).size ≤ i) :
    HeapFrame (fun _ => False) (fun a => target = .arr a) (fun o => target = .obj o) h h' ∧
    (c = cell ∨ h.cells.size ≤ c) ∧ c < h'.cells.size := by
  cases target with
  | obj o =>
    simp only [setMember, Except.ok.injEq, Prod.mk.injEq] at hs
    obtain ⟨rfl, rfl⟩ := hs
    refine ⟨⟨Nat.le_refl _, Nat.le_refl _, by simp [Heap.setObj], fun _ _ _ => rfl, fun _ _ _ => rfl, ?_⟩,
      .inl rfl, hc⟩
    intro o' ho' hne
    have : o' ≠ o := fun e => hne (by rw [e])
    simp only [Heap.obj, Heap.setObj, Array.getD_eq_getD_getElem?]
    rw [Array.getElem?_setIfInBounds_ne (Ne.symm this)]
  | arr a =>
    cases kv with
    | num x =>
      cases hri : resolveIndex (h.arr a).size x.toGoInt with
      | none => simp [setMember, hri] at hs
      | some i =>
        have hge := hidx a x i rfl rfl hri
        by_cases hlim : i ≤ fillLimit
        · rw [setMember_arr_fill h a x cell i hri hge hlim hc] at hs
          simp only [Except.ok.injEq, Prod.mk.injEq] at hs
          obtain ⟨rfl, rfl⟩ := hs
          obtain ⟨p1, p2, p3, p4, p5, _, _, _⟩ := padHeap_spec h a i (h.get cell) hge
          have hlt : i - (h.arr a).size < i + 1 - (h.arr a).size := by omega
          refine ⟨⟨by rw [p1]; exact Nat.le_add_right _ _, by rw [p2]; exact Nat.le_refl _,
            by rw [p3]; exact Nat.le_refl _,
            fun d hd _ => p4 d hd, ?_, fun o _ _ => by simp [Heap.obj, p3]⟩,
            .inr (Nat.le_add_right _ _), by rw [p1]; exact Nat.add_lt_add_left hlt _⟩
          intro a' _ hne
          exact p5 a' (fun e => hne (by rw [e]))
        · have h1 : ¬ i < (h.arr a).size := Nat.not_lt.mpr hge
          have h2 : i > fillLimit := Nat.lt_of_not_le hlim
          simp [setMember, hri, h1, h2] at hs
    | _ => simp [setMember] at hs
  | _ => simp [setMember] at hs


theorem HeapFrame.restrict {C C' : CellId → Prop} {A A' : ArrId → Prop} {O O' : ObjId → Prop}
    {a b : Heap} (h : HeapFrame C' A' O' a b)
    (hC : ∀ d, d < a.cells.size → C' d → C d) (hA : ∀ d, d < a.arrs.size → A' d → A d)
    (hO : ∀ d, d < a.objs.size → O' d → O d) : HeapFrame C A O a b :=
  ⟨h.cells, h.arrs, h.objs, fun d hd hc => h.get d hd (fun x => hc (hC d hd x)),
   fun d hd hc => h.arr d hd (fun x => hc (hA d hd x)), fun d hd hc => h.obj d hd (fun x => hc (hO d hd x))⟩

theorem createTarget_snd (h : Heap) (b : CellId) (key : Key) :
    (h.get b = .unknown ∧
      (((createTarget h b key).2 = .arr h.arrs.size ∧ (createTarget h b key).1.arr h.arrs.size = #[]) ∨
       (createTarget h b key).2 = .obj h.objs.size)) ∨
    (h.get b ≠ .unknown ∧ createTarget h b key = (h, h.get b)) := by
  unfold createTarget
  cases hv : h.get b with
  | unknown =>
    left
    refine ⟨rfl, ?_⟩
    cases key with
    | num x => left; exact ⟨rfl, by simp [Heap.set, Heap.allocArr, Heap.arr, Array.getD_eq_getD_getElem?]⟩
    | str k => right; rfl
  | _ => right; exact ⟨by simp, rfl⟩

/-- **the frame of a creating assignment** (one level): apart from the stand-in cell `sc`
    itself and an unset base cell `b`, no cell that existed before the store changes; no array
    other than the one the base holds, no object other than the one the base holds -/
theorem assign_create_heapFrame (prog : Program) (n : Nat) (l r : Expr) (op : Token) (s s1 s2 : St)
    (sc rc b : CellId) (key : Key) (hop : op.tag = .equal)
    (h1 : evalExpr prog n l s = .ok sc s1) (h2 : evalExpr prog n r s1 = .ok rc s2)
    (hsv : s2.heap.get sc = .nil (some ⟨b, key⟩)) (hpv : ∀ sp, s2.heap.get b ≠ .nil sp)
    (hidx : ∀ a x i, s2.heap.get b = .arr a → key = .num x →
      resolveIndex (s2.heap.arr a).size x.toGoInt = some i → (s2.heap.arr a).size ≤ i) :
    match evalExpr prog (n + 2) (.binary l r op) s with
    | .ok _ s' => HeapFrame (fun d => d = sc ∨ (d = b ∧ s2.heap.get b = .unknown))
        (fun a => s2.heap.get b = .arr a) (fun o => s2.heap.get b = .obj o) s2.heap s'.heap
    | .err _ s' => HeapFrame (fun d => d = sc ∨ (d = b ∧ s2.heap.get b = .unknown))
        (fun a => s2.heap.get b = .arr a) (fun o => s2.heap.get b = .obj o) s2.heap s'.heap
    | .oof => True := by
  rw [assign_create_eq prog n l r op s s1 s2 sc rc b key hop h1 h2 hsv hpv]
  have hsc : sc < s2.heap.cells.size := Heap.lt_of_get_ne_unknown _ _ (by rw [hsv]; simp)
  -- the common, larger sets
  let C' : CellId → Prop := fun d => d = sc ∨ (d = b ∧ s2.heap.get b = .unknown) ∨ s2.heap.cells.size ≤ d
  let A' : ArrId → Prop := fun a => s2.heap.get b = .arr a ∨ s2.heap.arrs.size ≤ a
  let O' : ObjId → Prop := fun o => s2.heap.get b = .obj o ∨ s2.heap.objs.size ≤ o
  have restrict : ∀ h', HeapFrame C' A' O' s2.heap h' →
      HeapFrame (fun d => d = sc ∨ (d = b ∧ s2.heap.get b = .unknown))
        (fun a => s2.heap.get b = .arr a) (fun o => s2.heap.get b = .obj o) s2.heap h' := by
    intro h' hf
    refine hf.restrict ?_ ?_ ?_
    · intro d hd hc
      rcases hc with e | e | e
      · exact .inl e
      · exact .inr e
      · exact absurd hd (Nat.not_lt.mpr e)
    · intro d hd hc
      rcases hc with e | e
      · exact e
      · exact absurd hd (Nat.not_lt.mpr e)
    · intro d hd hc
      rcases hc with e | e
      · exact e
      · exact absurd hd (Nat.not_lt.mpr e)
  have F0 : HeapFrame C' A' O' s2.heap (createTarget s2.heap b key).1 :=
    (createTarget_frame s2.heap b key).mono (fun d hd => .inr (.inl hd)) (fun _ hd => hd.elim)
      (fun _ hd => hd.elim)
  cases hs : setMember (createTarget s2.heap b key).1 (createTarget s2.heap b key).2 key.val sc with
  | error m => exact restrict _ F0
  | ok res =>
    obtain ⟨c, h'⟩ := res
    have hsc' : sc < (createTarget s2.heap b key).1.cells.size := Nat.lt_of_lt_of_le hsc F0.cells
    have hidx' : ∀ a x i, (createTarget s2.heap b key).2 = .arr a → key.val = .num x →
        resolveIndex ((createTarget s2.heap b key).1.arr a).size x.toGoInt = some i →
        ((createTarget s2.heap b key).1.arr a).size ≤ i := by
      intro a x i ht hkx hri
      rcases createTarget_snd s2.heap b key with ⟨_, ⟨e1, e2⟩ | e1⟩ | ⟨_, e⟩
      · rw [e1] at ht; cases ht
        rw [e2]; exact Nat.zero_le _
      · rw [e1] at ht; cases ht
      · rw [e] at ht hri ⊢
        have : key = .num x := by cases key <;> simp_all [Key.val]
        exact hidx a x i ht this hri
    obtain ⟨F1, hcc, hclt⟩ := setMember_frame _ _ _ sc c h' hsc' hs hidx'
    have F1' : HeapFrame C' A' O' (createTarget s2.heap b key).1 h' := by
      refine F1.mono (fun _ hd => hd.elim) ?_ ?_
      · intro a ht
        rcases createTarget_snd s2.heap b key with ⟨_, ⟨e1, _⟩ | e1⟩ | ⟨_, e⟩
        · rw [e1] at ht; cases ht; exact .inr (Nat.le_refl _)
        · rw [e1] at ht; cases ht
        · rw [e] at ht; exact .inl ht
      · intro o ht
        rcases createTarget_snd s2.heap b key with ⟨_, ⟨e1, _⟩ | e1⟩ | ⟨_, e⟩
        · rw [e1] at ht; cases ht
        · rw [e1] at ht; cases ht; exact .inr (Nat.le_refl _)
        · rw [e] at ht; exact .inl ht
    have F01 := F0.trans F1'
    dsimp only
    cases copyVal (h'.get rc) with
    | error m => exact restrict _ F01
    | ok w =>
      refine restrict _ (F01.trans ((HeapFrame.set h' c w).mono ?_ (fun _ hd => hd.elim) (fun _ hd => hd.elim)))
      intro d hd
      rcases hcc with e | e
      · exact .inl (hd.trans e)
      · exact .inr (.inr (hd ▸ Nat.le_trans F0.cells e))


/-! ### the heaps after a store into an unset base -/

/-- the heap after `u.k = …` for an unset `u` (cell `b`): `b` holds a fresh object whose only
    member `k` is the cell `sc` -/
def unsetObjHeap (h : Heap) (b : CellId) (k : Bytes) (sc : CellId) : Heap :=
  ((h.allocObj []).2.set b (.obj h.objs.size)).setObj h.objs.size [(k, sc)]

theorem unsetObjHeap_spec (h : Heap) (b : CellId) (k : Bytes) (sc : CellId) (hb : b < h.cells.size) :
    (unsetObjHeap h b k sc).get b = .obj h.objs.size ∧
    (unsetObjHeap h b k sc).obj h.objs.size = [(k, sc)] ∧
    (∀ d, d ≠ b → (unsetObjHeap h b k sc).get d = h.get d) ∧
    (unsetObjHeap h b k sc).arrs = h.arrs ∧
    (∀ o, o < h.objs.size → (unsetObjHeap h b k sc).obj o = h.obj o) := by
  refine ⟨?_, ?_, ?_, rfl, ?_⟩
  · show ((h.allocObj []).2.set b _).get b = _
    exact Heap.get_set_same' _ _ _ hb
  · simp [unsetObjHeap, Heap.setObj, Heap.set, Heap.allocObj, Heap.obj, Array.getD_eq_getD_getElem?]
  · intro d hd
    show ((h.allocObj []).2.set b _).get d = _
    rw [Heap.get_set_ne' _ _ _ _ hd]; rfl
  · intro o ho
    have : o ≠ h.objs.size := Nat.ne_of_lt ho
    simp [unsetObjHeap, Heap.setObj, Heap.set, Heap.allocObj, Heap.obj, Array.getD_eq_getD_getElem?,
      Array.getElem?_setIfInBounds, Array.getElem?_push, this, Ne.symm this]

end Jqawk
