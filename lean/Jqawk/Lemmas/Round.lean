/-
  Lemmas for C16: the integer `floor`/`ceil`/`round` pick, in terms of integer (floor) division.
-/
import Jqawk.Model.F64
set_option linter.unusedSimpArgs false

namespace Jqawk
open Jqawk F64

/-- ⌊-(m/d)⌋ as a magnitude: `m/d`, plus one when the division is not exact -/
theorem natAbs_neg_ediv (m d : Nat) (hd : 0 < d) :
    ((-(m : Int)) / (d : Int)).natAbs = if m % d ≠ 0 then m / d + 1 else m / d := by
  have hm := Nat.div_add_mod m d
  have hr := Nat.mod_lt m hd
  generalize hq : m / d = q at *
  generalize hrr : m % d = r at *
  by_cases h0 : r = 0
  · subst h0
    have : (-(m : Int)) / (d : Int) = -(q : Int) := by
      have hm' : (m : Int) = (d : Int) * q := by rw [← hm]; simp
      rw [hm', ← Int.mul_neg, Int.mul_ediv_cancel_left _ (by omega)]
    simp [this]
  · have : (-(m : Int)) / (d : Int) = -((q : Int) + 1) := by
      have key := (Int.ediv_emod_unique (a := -(m : Int)) (b := (d : Int)) (q := -((q : Int) + 1))
        (r := (d : Int) - r) (by omega)).mpr
      refine (key ⟨?_, by omega, by omega⟩).1
      have hm' : (m : Int) = (d : Int) * q + r := by rw [← hm]; simp
      rw [hm', Int.mul_neg, Int.mul_add]; omega
    simp only [this, ne_eq, h0, not_false_eq_true, ↓reduceIte]
    omega

theorem natAbs_ediv (m d : Nat) : ((m : Int) / (d : Int)).natAbs = m / d := by
  have : (m : Int) / (d : Int) = ((m / d : Nat) : Int) := by simp
  rw [this, Int.natAbs_natCast]

/-- ⌊m/d + 1/2⌋ -/
theorem round_half_div (m d : Nat) (hd : 0 < d) :
    (2 * m + d) / (2 * d) = if 2 * (m % d) ≥ d then m / d + 1 else m / d := by
  have hm := Nat.div_add_mod m d
  have hr := Nat.mod_lt m hd
  generalize hq : m / d = q at *
  generalize hrr : m % d = r at *
  have e1 : q * (2 * d) = 2 * (d * q) := by
    rw [Nat.mul_comm q, Nat.mul_assoc]
  split
  · apply Nat.div_eq_of_lt_le
    · rw [Nat.add_mul, e1]; omega
    · rw [Nat.add_mul, Nat.add_mul, e1]; omega
  · apply Nat.div_eq_of_lt_le
    · rw [e1]; omega
    · rw [Nat.add_mul, e1]; omega

/-! ### `ofRat` is exact on integers below 2^53 -/

theorem rne_one (m : Nat) : F64.rne m 1 = m := by
  simp [F64.rne, Nat.mod_one]

/-- `n · 2^(52-e)` is a 53-bit significand with the top bit set -/
theorem shift_bounds (n e : Nat) (h1 : 2 ^ e ≤ n) (h2 : n < 2 ^ (e + 1)) (he : e ≤ 52) :
    2 ^ 52 ≤ n * 2 ^ (52 - e) ∧ n * 2 ^ (52 - e) < 2 ^ 53 := by
  have hp : 0 < 2 ^ (52 - e) := Nat.two_pow_pos _
  constructor
  · calc 2 ^ 52 = 2 ^ (e + (52 - e)) := by congr 1; omega
      _ = 2 ^ e * 2 ^ (52 - e) := Nat.pow_add ..
      _ ≤ n * 2 ^ (52 - e) := Nat.mul_le_mul_right _ h1
  · calc n * 2 ^ (52 - e) < 2 ^ (e + 1) * 2 ^ (52 - e) := Nat.mul_lt_mul_of_pos_right h2 hp
      _ = 2 ^ (e + 1 + (52 - e)) := (Nat.pow_add ..).symm
      _ = 2 ^ 53 := by congr 1; omega

theorem roundMag_nat (n e : Nat) (h1 : 2 ^ e ≤ n) (h2 : n < 2 ^ (e + 1)) (he : e ≤ 52) :
    F64.roundMag n 1 0 = (e + 1022) * 2 ^ 52 + n * 2 ^ (52 - e) := by
  have hn0 : n ≠ 0 := by
    have : 0 < 2 ^ e := Nat.two_pow_pos e
    omega
  have hlog : n.log2 = e := (Nat.log2_eq_iff hn0).mpr ⟨h1, h2⟩
  have hlog1 : Nat.log2 1 = 0 := by decide
  unfold F64.roundMag
  have hb : (n == 0) = false := by simpa using hn0
  simp only [hb, Bool.false_eq_true, ↓reduceIte, hlog, hlog1]
  have e0 : ((e : Int) - ((0 : Nat) : Int) + 0) = e := by simp
  rw [e0]
  have hs1 : (scale2 n 1 (0 - (e : Int))).fst ≥ (scale2 n 1 (0 - (e : Int))).snd := by
    unfold scale2
    split
    · have : e = 0 := by omega
      subst this; simp; omega
    · have : (-(0 - (e : Int))).toNat = e := by omega
      simp [this]; exact h1
  have hmax : max ((e : Int) - 52) (-1074) = (e : Int) - 52 := by omega
  have hs2 : scale2 n 1 (0 - ((e : Int) - 52)) = (n * 2 ^ (52 - e), 1) := by
    unfold scale2
    have : (0 - ((e : Int) - 52)) ≥ 0 := by omega
    have h' : (0 - ((e : Int) - 52)).toNat = 52 - e := by omega
    rw [if_pos this, h']
  have ht : ((e : Int) - 52 + 1074).toNat = e + 1022 := by omega
  have hg1 : ¬ ((e : Int) > 1025) := by omega
  have hg2 : ¬ ((e : Int) < -1077) := by omega
  rw [if_neg hg1, if_neg hg2, if_pos hs1, hmax, hs2, ht]
  rw [rne_one]
  have hb := shift_bounds n e h1 h2 he
  have hlt : (e + 1022) * 2 ^ 52 + n * 2 ^ (52 - e) ≤ infMag := by
    generalize n * 2 ^ (52 - e) = m at *
    simp only [infMag]
    omega
  exact Nat.min_eq_right hlt

theorem ofMag_raw (s : Bool) (M : Nat) (hM : M < 2 ^ 63) :
    (F64.ofMag s M).raw = if s then 2 ^ 63 + M else M := by
  simp only [F64.ofMag, F64.raw, UInt64.toNat_ofNat']
  split <;> omega

/-- the fields of the double `ofRat s n 1 0` for `2^e ≤ n < 2^(e+1)`, `e ≤ 52` -/
theorem ofRat_nat_fields (s : Bool) (n e : Nat) (h1 : 2 ^ e ≤ n) (h2 : n < 2 ^ (e + 1)) (he : e ≤ 52) :
    let y := F64.ofRat s n 1 0
    y.signBit = s ∧ y.isNaN = false ∧ y.isInf = false ∧ y.mant = n * 2 ^ (52 - e) ∧
      y.exp = (e : Int) - 52 := by
  have hb := shift_bounds n e h1 h2 he
  simp only [F64.ofRat, roundMag_nat n e h1 h2 he]
  generalize n * 2 ^ (52 - e) = m at *
  have hM : (e + 1022) * 2 ^ 52 + m < 2 ^ 63 := by omega
  have hraw := ofMag_raw s _ hM
  generalize F64.ofMag s ((e + 1022) * 2 ^ 52 + m) = y at *
  have hmag : y.mag = (e + 1022) * 2 ^ 52 + m := by
    simp only [F64.mag, hraw]; split <;> omega
  have hexpb : y.expBits = e + 1023 := by
    simp only [F64.expBits, hmag]; omega
  have hfrac : y.fracBits = m - 2 ^ 52 := by
    simp only [F64.fracBits, hraw]; split <;> omega
  refine ⟨?_, ?_, ?_, ?_, ?_⟩
  · simp only [F64.signBit, hraw]; cases s <;> simp <;> omega
  · simp only [F64.isNaN, hmag, F64.infMag]; simp; omega
  · simp only [F64.isInf, hmag, F64.infMag]; simp; omega
  · simp only [F64.mant, hexpb, hfrac]; simp; omega
  · simp only [F64.exp, hexpb]; simp; omega


/-- `y` is finite and its value mant · 2^exp is exactly the integer `n` (in the model's own
    fraction representation `scale2`: numerator = n · denominator) -/
def F64.IsInt (y : F64) (n : Nat) : Prop :=
  y.isNaN = false ∧ y.isInf = false ∧
    (F64.scale2 y.mant 1 y.exp).1 = n * (F64.scale2 y.mant 1 y.exp).2

/-- integers below 2^53 are represented exactly, with the requested sign bit -/
theorem ofRat_nat_exact (s : Bool) (n : Nat) (hn : n < 2 ^ 53) :
    (F64.ofRat s n 1 0).signBit = s ∧ (F64.ofRat s n 1 0).IsInt n := by
  by_cases h0 : n = 0
  · subst h0
    cases s <;> (unfold F64.IsInt; decide +kernel)
  · have he : n.log2 ≤ 52 := by
      have := (Nat.log2_lt h0 (k := 53)).mpr hn
      omega
    obtain ⟨h1, h2, h3, h4, h5⟩ := ofRat_nat_fields s n n.log2 (Nat.log2_self_le h0) Nat.lt_log2_self he
    refine ⟨h1, h2, h3, ?_⟩
    rw [h4, h5]
    unfold F64.scale2
    split
    · have : n.log2 = 52 := by omega
      simp [this]
    · have : (-((n.log2 : Int) - 52)).toNat = 52 - n.log2 := by omega
      simp [this]

theorem F64.mant_lt (x : F64) : x.mant < 2 ^ 53 := by
  have : x.fracBits < 2 ^ 52 := by unfold F64.fracBits; omega
  unfold F64.mant
  split <;> omega


theorem div_pick_lt (m d : Nat) (hm : m < 2 ^ 53) (hd : 2 ≤ d) : m / d + 1 < 2 ^ 53 := by
  have : m / d ≤ m / 2 := Nat.div_le_div_left hd (by decide)
  omega

/-- the integer `floor` picks is |⌊±m/d⌋| -/
theorem floor_pick_eq (s : Bool) (m d : Nat) (hd : 0 < d) :
    (if s = true ∧ m % d ≠ 0 then m / d + 1 else m / d)
      = ((if s = true then -(m : Int) else (m : Int)) / (d : Int)).natAbs := by
  cases s
  · simp only [Bool.false_eq_true, false_and, ↓reduceIte, natAbs_ediv]
  · simp only [↓reduceIte, natAbs_neg_ediv _ _ hd, true_and]

/-- the integer `ceil` picks is |⌈±m/d⌉| = |⌊∓m/d⌋| -/
theorem ceil_pick_eq (s : Bool) (m d : Nat) (hd : 0 < d) :
    (if ¬ s = true ∧ m % d ≠ 0 then m / d + 1 else m / d)
      = ((-(if s = true then -(m : Int) else (m : Int))) / (d : Int)).natAbs := by
  cases s
  · simp only [Bool.false_eq_true, ↓reduceIte, natAbs_neg_ediv _ _ hd, not_false_eq_true, true_and]
  · simp only [not_true_eq_false, false_and, ↓reduceIte, Int.neg_neg, natAbs_ediv]

end Jqawk
