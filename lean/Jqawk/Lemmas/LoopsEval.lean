/-
  C07: the evaluator's loops are instances of the loop specification (`Spec/Loops.lean`).
  `whileLoop` / `forLoop` are `repeatN` of the `while` / `for` round, `forInLoop` is `iterateN`
  of "bind the loop variables, run the body", at every fuel; with fuel monotonicity
  (`Lemmas/LoopsMono.lean`) the fuel-free characterisations follow.
-/
import Jqawk.Lemmas.Loops

set_option linter.unusedVariables false
set_option linter.unusedSimpArgs false

namespace Jqawk.Spec
open Jqawk

variable (prog : Program)

/-! ### fuel monotonicity, in the forms used below -/

theorem evalStmt_le (st : Stmt) {n m : Nat} (h : n ≤ m) : EMLe (evalStmt prog n st) (evalStmt prog m st) :=
  emle_le (fun k => evalStmt prog k st) (fun k => (allMono prog k).stmt st) h

theorem evalExpr_le (e : Expr) {n m : Nat} (h : n ≤ m) : EMLe (evalExpr prog n e) (evalExpr prog m e) :=
  emle_le (fun k => evalExpr prog k e) (fun k => (allMono prog k).expr e) h

theorem callFunction_le (pos : Nat) (f : CellId) (args : List CellId) {n m : Nat} (h : n ≤ m) :
    EMLe (callFunction prog n pos f args) (callFunction prog m pos f args) :=
  emle_le (fun k => callFunction prog k pos f args) (fun k => (allMono prog k).call pos f args) h

/-- an expression evaluated for its effects only (`for` initialiser and post-expression) -/
def effectOnly (m : EM CellId) : EM Unit := do
  let _ ← m
  pure ()

theorem effectOnly_mono {m m' : EM CellId} (h : EMLe m m') : EMLe (effectOnly m) (effectOnly m') :=
  EMLe.bind h (fun _ => EMLe.refl _)

/-- one round of `while (c) body` with the evaluator at fuel `n` -/
def whileRoundAt (n : Nat) (c : Expr) (body : Stmt) : EM Bool :=
  whileRound (truthyOf (evalExpr prog n c)) (evalStmt prog n body)

/-- one round of `for (…; c; post) body` with the evaluator at fuel `n` -/
def forRoundAt (n : Nat) (c post : Expr) (body : Stmt) : EM Bool :=
  forRound (truthyOf (evalExpr prog n c)) (evalStmt prog n body) (effectOnly (evalExpr prog n post))

theorem whileRoundAt_mono (c : Expr) (body : Stmt) (n : Nat) :
    EMLe (whileRoundAt prog n c body) (whileRoundAt prog (n + 1) c body) :=
  whileRound_mono (truthyOf_mono ((allMono prog n).expr c)) ((allMono prog n).stmt body)

theorem forRoundAt_mono (c post : Expr) (body : Stmt) (n : Nat) :
    EMLe (forRoundAt prog n c post body) (forRoundAt prog (n + 1) c post body) :=
  forRound_mono (truthyOf_mono ((allMono prog n).expr c)) ((allMono prog n).stmt body)
    (effectOnly_mono ((allMono prog n).expr post))

/-! ### `while` -/

theorem whileLoop_eq_repeatN (c : Expr) (body : Stmt) (n : Nat) :
    whileLoop prog n c body = repeatN (fun k => whileRoundAt prog k c body) n := by
  induction n with
  | zero => unfold whileLoop repeatN; rfl
  | succ n ih =>
    funext s
    unfold whileLoop repeatN
    rw [← ih]
    simp only [whileRoundAt, whileRound, bodyRound, truthyOf, bind, EM.bind, readCell, pure, EM.pure]
    cases evalExpr prog n c s with
    | ok cell s1 =>
      dsimp only
      cases (s1.heap.get cell).truthy with
      | true =>
        simp only [↓reduceIte]
        rw [loopIter_eq]
        unfold bodyRound
        cases outcome (evalStmt prog n body s1) <;> rfl
      | false => rfl
    | err e s1 => rfl
    | oof => rfl

theorem forLoop_eq_repeatN (c post : Expr) (body : Stmt) (n : Nat) :
    forLoop prog n c post body = repeatN (fun k => forRoundAt prog k c post body) n := by
  induction n with
  | zero => unfold forLoop repeatN; rfl
  | succ n ih =>
    funext s
    unfold forLoop repeatN
    rw [← ih]
    simp only [forRoundAt, forRound, bodyRound, truthyOf, effectOnly, bind, EM.bind, readCell, pure, EM.pure]
    cases evalExpr prog n c s with
    | ok cell s1 =>
      dsimp only
      cases (s1.heap.get cell).truthy with
      | true =>
        simp only [↓reduceIte, loopIter_eq, EM.bind, bodyRound]
        cases outcome (evalStmt prog n body s1) with
        | continue_ s2 =>
          simp only [↓reduceIte, EM.bind, EM.pure]
          cases evalExpr prog n post s2 <;> rfl
        | stop s2 => rfl
        | abort e s2 => rfl
        | oof => rfl
      | false => rfl
    | err e s1 => rfl
    | oof => rfl

/-- **`while`, soundness**: a result of the evaluator's loop that is not "out of fuel" is the
    result of repeating the round (at the same fuel, hence at any larger one). -/
theorem whileLoop_sound (c : Expr) (body : Stmt) (n : Nat) (s : St) (r : Res Unit)
    (h : whileLoop prog n c body s = r) (hr : r ≠ .oof) : Repeats (whileRoundAt prog n c body) s r := by
  rw [whileLoop_eq_repeatN] at h
  exact repeatN_sound _ (whileRoundAt_mono prog c body) n s r h hr

/-- **`while`, completeness**: if repeating the round (evaluator at some fuel `m`) has result
    `r`, the evaluator's loop has this result for every sufficiently large fuel. -/
theorem whileLoop_complete (c : Expr) (body : Stmt) (m : Nat) (s : St) (r : Res Unit)
    (h : Repeats (whileRoundAt prog m c body) s r) : ∃ n, whileLoop prog n c body s = r := by
  obtain ⟨n, hn⟩ := repeatN_complete _ (whileRoundAt_mono prog c body) m s r h
  exact ⟨n, by rw [whileLoop_eq_repeatN]; exact hn⟩

theorem forLoop_sound (c post : Expr) (body : Stmt) (n : Nat) (s : St) (r : Res Unit)
    (h : forLoop prog n c post body s = r) (hr : r ≠ .oof) :
    Repeats (forRoundAt prog n c post body) s r := by
  rw [forLoop_eq_repeatN] at h
  exact repeatN_sound _ (forRoundAt_mono prog c post body) n s r h hr

theorem forLoop_complete (c post : Expr) (body : Stmt) (m : Nat) (s : St) (r : Res Unit)
    (h : Repeats (forRoundAt prog m c post body) s r) : ∃ n, forLoop prog n c post body s = r := by
  obtain ⟨n, hn⟩ := repeatN_complete _ (forRoundAt_mono prog c post body) m s r h
  exact ⟨n, by rw [forLoop_eq_repeatN]; exact hn⟩

/-- explicit fuel: `k` rounds at fuel `m` need loop fuel `m + k + 1` -/
theorem whileLoop_of_rounds (c : Expr) (body : Stmt) (m k : Nat) (s sk : St) (r : Res Unit)
    (hk : Rounds (whileRoundAt prog m c body) k s sk) (hf : FinalRound (whileRoundAt prog m c body) sk r)
    (n : Nat) (hn : m + k < n) : whileLoop prog n c body s = r := by
  rw [whileLoop_eq_repeatN]
  exact repeatN_of_rounds _ (whileRoundAt_mono prog c body) m k s sk r hk hf n hn

theorem forLoop_of_rounds (c post : Expr) (body : Stmt) (m k : Nat) (s sk : St) (r : Res Unit)
    (hk : Rounds (forRoundAt prog m c post body) k s sk)
    (hf : FinalRound (forRoundAt prog m c post body) sk r)
    (n : Nat) (hn : m + k < n) : forLoop prog n c post body s = r := by
  rw [forLoop_eq_repeatN]
  exact repeatN_of_rounds _ (forRoundAt_mono prog c post body) m k s sk r hk hf n hn

/-! ### for-in -/

/-- the item type of the model's `forInLoop` -/
abbrev RawItem := Option Val × (CellId ⊕ (Val × Option CellId))

/-- what `forInLoop` does with an item before it runs the body -/
def bindRaw (loc : CellId) (il : Option CellId) (it : RawItem) : EM Unit := do
  match il with
  | none => pure ()
  | some ic =>
    match it.1, it.2 with
    | some iv, _ => writeCell ic iv
    | none, .inr (_, some mc) => writeCell ic (← readCell mc)
    | none, _ => pure ()
  match it.2 with
  | .inl c => writeCell loc (← readCell c)
  | .inr (v, _) => writeCell loc v

theorem forInLoop_succ_cons (n : Nat) (loc : CellId) (il : Option CellId) (body : Stmt)
    (it : RawItem) (rest : List RawItem) :
    forInLoop prog (n + 1) loc il body (it :: rest) = (do
      bindRaw loc il it
      loopIter (evalStmt prog n body) (forInLoop prog n loc il body rest)) := by
  obtain ⟨iv, item⟩ := it
  conv => lhs; unfold forInLoop
  unfold bindRaw
  funext s
  cases il with
  | none => cases item <;> rfl
  | some ic =>
    cases iv with
    | some v => cases item <;> rfl
    | none =>
      cases item with
      | inl c => rfl
      | inr p => obtain ⟨v, mc⟩ := p; cases mc <;> rfl

theorem forInLoop_eq_iterateN (loc : CellId) (il : Option CellId) (body : Stmt) (n : Nat)
    (items : List RawItem) :
    forInLoop prog n loc il body items =
      iterateN (fun k it => do bindRaw loc il it; evalStmt prog k body) n items := by
  induction n generalizing items with
  | zero => unfold forInLoop iterateN; rfl
  | succ n ih =>
    cases items with
    | nil => unfold forInLoop iterateN; rfl
    | cons it rest =>
      rw [forInLoop_succ_cons, ih rest]
      funext s
      simp only [iterateN, bind, EM.bind]
      cases hb : bindRaw loc il it s with
      | ok a s1 =>
        dsimp only
        rw [loopIter_eq]
      | err e s1 =>
        dsimp only
        -- binding never fails with break / continue
        have : e ≠ .sig .brk ∧ e ≠ .sig .cont := by
          obtain ⟨iv, item⟩ := it
          unfold bindRaw at hb
          simp only [bind, EM.bind, pure, EM.pure, readCell, writeCell] at hb
          repeat' (split at hb <;> try cases hb)
        have ho : outcome (Res.err e s1 : Res Unit) = .abort e s1 :=
          (outcome_abort_iff _ _ _).mpr ⟨rfl, this.1, this.2⟩
        rw [ho]
      | oof => rfl

def arrayItems (cells : List CellId) : List RawItem :=
  cells.zipIdx.map fun (c, i) => (some (Val.num (F64.ofNat i)), Sum.inl c)
def objectItems (members : List (Bytes × CellId)) : List RawItem :=
  (sortByKey members).map fun (k, c) => (none, Sum.inr (Val.str k none, some c))
def stringItems (s : Bytes) : List RawItem :=
  (utf8Runes s).map fun (off, r) =>
    (some (Val.num (F64.ofNat off)), Sum.inr (Val.str (utf8Encode r) none, none))

/-- the header of for-in: the loop variables, then the iterable (evaluated once), then the
    items it holds at that moment -/
def forInHeader (evalE : Expr → EM CellId) (id : Token) (idx : Option Token) (iter : Expr) :
    EM (CellId × Option CellId × List RawItem) := do
  let loc ← loopVar id.pos id.text
  let il ← (match idx with
    | none => pure none
    | some it => do let c ← loopVar id.pos it.text; pure (some c) : EM (Option CellId))
  let iterable ← evalE iter
  let h ← getHeap
  match h.get iterable with
  | .arr a => pure (loc, il, arrayItems (h.arr a).toList)
  | .obj o => pure (loc, il, objectItems (h.obj o))
  | .str s _ => pure (loc, il, stringItems s)
  | _ => throwRt iter.token.pos "not iterable"

theorem evalStmt_forIn (n : Nat) (id : Token) (idx : Option Token) (iter : Expr) (body : Stmt) :
    evalStmt prog (n + 1) (.forIn id idx iter body) = (do
      let hd ← forInHeader (evalExpr prog n) id idx iter
      forInLoop prog n hd.1 hd.2.1 body hd.2.2) := by
  funext s
  unfold evalStmt forInHeader loopVar arrayItems objectItems stringItems
  simp only [bind, EM.bind, pure, EM.pure, getHeap]
  cases getVariable id.text s with
  | ok r1 s1 =>
    cases r1 with
    | ok loc =>
      simp only [EM.pure, EM.bind]
      cases idx with
      | none =>
        simp only [EM.pure, EM.bind]
        cases evalExpr prog n iter s1 with
        | ok it s2 => simp only [EM.pure, EM.bind]; cases s2.heap.get it <;> rfl
        | err e s2 => rfl
        | oof => rfl
      | some itok =>
        simp only [EM.pure, EM.bind]
        cases getVariable itok.text s1 with
        | ok r2 s2 =>
          cases r2 with
          | ok il =>
            simp only [EM.pure, EM.bind]
            cases evalExpr prog n iter s2 with
            | ok it s3 => simp only [EM.pure, EM.bind]; cases s3.heap.get it <;> rfl
            | err e s3 => rfl
            | oof => rfl
          | error m => rfl
        | err e s2 => rfl
        | oof => rfl
    | error m => rfl
  | err e s1 => rfl
  | oof => rfl

theorem iterate_map {ι κ : Type} (f : ι → κ) (step : κ → EM Unit) (l : List ι) :
    iterate step (l.map f) = iterate (fun x => step (f x)) l := by
  induction l with
  | nil => rfl
  | cons x xs ih => funext s; simp only [List.map_cons, iterate, ih]

theorem bindRaw_array (loc : CellId) (il : Option CellId) (ci : CellId × Nat) :
    bindRaw loc il (some (Val.num (F64.ofNat ci.2)), Sum.inl ci.1) = bindArrayItem loc il ci := by
  funext s; cases il <;> rfl

theorem bindRaw_object (loc : CellId) (il : Option CellId) (kv : Bytes × CellId) :
    bindRaw loc il (none, Sum.inr (Val.str kv.1 none, some kv.2)) = bindObjectItem loc il kv := by
  funext s; cases il <;> rfl

theorem bindRaw_string (loc : CellId) (il : Option CellId) (p : Nat × Nat) :
    bindRaw loc il (some (Val.num (F64.ofNat p.1)), Sum.inr (Val.str (utf8Encode p.2) none, none))
      = bindStringItem loc il p := by
  funext s; cases il <;> rfl

theorem iterate_arrayItems (body : EM Unit) (loc : CellId) (il : Option CellId) (cells : List CellId) :
    iterate (fun it => do bindRaw loc il it; body) (arrayItems cells) = forInArray body loc il cells := by
  unfold arrayItems forInArray
  rw [iterate_map]
  congr 1; funext ci; rw [bindRaw_array]

theorem iterate_objectItems (body : EM Unit) (loc : CellId) (il : Option CellId)
    (members : List (Bytes × CellId)) :
    iterate (fun it => do bindRaw loc il it; body) (objectItems members)
      = forInObject body loc il members := by
  unfold objectItems forInObject
  rw [iterate_map]
  congr 1; funext kv; rw [bindRaw_object]

theorem iterate_stringItems (body : EM Unit) (loc : CellId) (il : Option CellId) (str : Bytes) :
    iterate (fun it => do bindRaw loc il it; body) (stringItems str) = forInString body loc il str := by
  unfold stringItems forInString
  rw [iterate_map]
  congr 1; funext p; rw [bindRaw_string]

/-- the specification of the for-in statement, with the header factored out -/
theorem forInStmt_eq (evalE : Expr → EM CellId) (evalS : Stmt → EM Unit) (id : Token)
    (idx : Option Token) (iter : Expr) (body : Stmt) :
    forInStmt evalE evalS id idx iter body = (do
      let hd ← forInHeader evalE id idx iter
      iterate (fun it => do bindRaw hd.1 hd.2.1 it; evalS body) hd.2.2) := by
  funext s
  unfold forInStmt forInHeader
  simp only [bind, EM.bind, pure, getHeap]
  cases loopVar id.pos id.text s with
  | ok loc s1 =>
    simp only []
    cases idx with
    | none =>
      simp only [EM.pure]
      cases evalE iter s1 with
      | ok it s3 =>
        simp only []
        cases s3.heap.get it <;>
          first
            | rfl
            | (simp only [EM.pure]; exact (congrFun (iterate_arrayItems _ _ _ _) _).symm)
            | (simp only [EM.pure]; exact (congrFun (iterate_objectItems _ _ _ _) _).symm)
            | (simp only [EM.pure]; exact (congrFun (iterate_stringItems _ _ _ _) _).symm)
      | err e s3 => rfl
      | oof => rfl
    | some itok =>
      simp only [EM.bind]
      cases loopVar id.pos itok.text s1 with
      | ok c s2 =>
        simp only [EM.pure]
        cases evalE iter s2 with
        | ok it s3 =>
          simp only []
          cases s3.heap.get it <;>
            first
              | rfl
              | (simp only [EM.pure]; exact (congrFun (iterate_arrayItems _ _ _ _) _).symm)
              | (simp only [EM.pure]; exact (congrFun (iterate_objectItems _ _ _ _) _).symm)
              | (simp only [EM.pure]; exact (congrFun (iterate_stringItems _ _ _ _) _).symm)
        | err e s3 => rfl
        | oof => rfl
      | err e s2 => rfl
      | oof => rfl
  | err e s1 => rfl
  | oof => rfl

theorem forInHeader_mono (id : Token) (idx : Option Token) (iter : Expr) (n : Nat) :
    EMLe (forInHeader (evalExpr prog n) id idx iter) (forInHeader (evalExpr prog (n + 1)) id idx iter) := by
  unfold forInHeader
  refine EMLe.bind (EMLe.refl _) (fun loc => EMLe.bind (EMLe.refl _) (fun il =>
    EMLe.bind ((allMono prog n).expr iter) (fun it => EMLe.refl _)))

/-- **for-in, soundness**: at every fuel the statement is below its specification (the fold
    with the evaluator at that fuel as body): where it does not run out of fuel, it ends
    exactly like the fold. -/
theorem forIn_sound (n : Nat) (id : Token) (idx : Option Token) (iter : Expr) (body : Stmt) :
    EMLe (evalStmt prog (n + 1) (.forIn id idx iter body))
      (forInStmt (evalExpr prog n) (evalStmt prog n) id idx iter body) := by
  rw [evalStmt_forIn, forInStmt_eq]
  refine EMLe.bind (EMLe.refl _) (fun hd => ?_)
  rw [forInLoop_eq_iterateN]
  exact iterateN_sound (fun k it => do bindRaw hd.1 hd.2.1 it; evalStmt prog k body)
    (fun k x => EMLe.bind (EMLe.refl (bindRaw hd.1 hd.2.1 x)) (fun _ => (allMono prog k).stmt body)) n _

/-- **for-in, completeness**: a result of the specification (evaluator at fuel `m` as body)
    that is not "out of fuel" is the result of the statement at every sufficiently large fuel. -/
theorem forIn_complete (m : Nat) (id : Token) (idx : Option Token) (iter : Expr) (body : Stmt)
    (s : St) (r : Res Unit)
    (h : forInStmt (evalExpr prog m) (evalStmt prog m) id idx iter body s = r) (hr : r ≠ .oof) :
    ∃ n0, ∀ n, n0 ≤ n → evalStmt prog n (.forIn id idx iter body) s = r := by
  rw [forInStmt_eq] at h
  change EM.bind _ _ s = r at h
  unfold EM.bind at h
  cases hh : forInHeader (evalExpr prog m) id idx iter s with
  | ok hd s1 =>
    rw [hh] at h
    replace h : iterate (fun it => do bindRaw hd.1 hd.2.1 it; evalStmt prog m body) hd.2.2 s1 = r := h
    refine ⟨m + hd.2.2.length + 2, fun n hn => ?_⟩
    obtain ⟨n', rfl⟩ : ∃ n', n = n' + 1 := ⟨n - 1, by omega⟩
    rw [evalStmt_forIn]
    simp only [bind, EM.bind]
    have hle : EMLe (forInHeader (evalExpr prog m) id idx iter) (forInHeader (evalExpr prog n') id idx iter) :=
      emle_le (fun k => forInHeader (evalExpr prog k) id idx iter)
        (fun k => forInHeader_mono prog id idx iter k) (by omega)
    rw [hle.eq_of_ne_oof (by rw [hh]; simp), hh]
    simp only []
    rw [forInLoop_eq_iterateN]
    have := iterateN_complete (fun k it => do bindRaw hd.1 hd.2.1 it; evalStmt prog k body)
      (fun k x => EMLe.bind (EMLe.refl (bindRaw hd.1 hd.2.1 x)) (fun _ => (allMono prog k).stmt body))
      m hd.2.2 n' (by omega)
    rw [← h]
    exact this.eq_of_ne_oof (by rw [h]; exact hr)
  | err e s1 =>
    rw [hh] at h
    replace h : Res.err e s1 = r := h
    refine ⟨m + 1, fun n hn => ?_⟩
    obtain ⟨n', rfl⟩ : ∃ n', n = n' + 1 := ⟨n - 1, by omega⟩
    rw [evalStmt_forIn]
    simp only [bind, EM.bind]
    have hle : EMLe (forInHeader (evalExpr prog m) id idx iter) (forInHeader (evalExpr prog n') id idx iter) :=
      emle_le (fun k => forInHeader (evalExpr prog k) id idx iter)
        (fun k => forInHeader_mono prog id idx iter k) (by omega)
    rw [hle.eq_of_ne_oof (by rw [hh]; simp), hh]
    exact h
  | oof => rw [hh] at h; exact absurd h.symm hr

/-! ### strings: ASCII -/

theorem utf8DecodeHead_ascii (b : UInt8) (rest : Bytes) (h : b < 0x80) :
    utf8DecodeHead (b :: rest) = (b.toNat, 1) := by
  simp [utf8DecodeHead, h]

theorem utf8Encode_ascii (b : UInt8) (h : b < 0x80) : utf8Encode b.toNat = [b] := by
  have hb : b.toNat < 128 := by simpa [UInt8.lt_iff_toNat_lt] using h
  unfold utf8Encode
  have h1 : ¬ (b.toNat > 0x10FFFF || (0xD800 ≤ b.toNat && b.toNat ≤ 0xDFFF)) = true := by
    simp; omega
  simp only [h1, ↓reduceIte, hb]
  simp
  intro h2; omega

theorem utf8Runes_go_ascii (s : Bytes) (h : ∀ b ∈ s, b < 0x80) (fuel off : Nat) (hf : s.length ≤ fuel) :
    utf8Runes.go fuel s off = (s.zipIdx off).map (fun p => (p.2, p.1.toNat)) := by
  induction s generalizing fuel off with
  | nil => cases fuel <;> simp [utf8Runes.go]
  | cons b rest ih =>
    obtain ⟨fuel', rfl⟩ : ∃ f, fuel = f + 1 := ⟨fuel - 1, by simp at hf; omega⟩
    have hb := h b (by simp)
    simp only [utf8Runes.go, utf8DecodeHead_ascii b rest hb, List.drop_one, List.tail_cons,
      List.zipIdx_cons, List.map_cons]
    rw [ih (fun x hx => h x (by simp [hx])) fuel' (off + 1) (by simp at hf; omega)]

/-- on an ASCII string the items are the bytes with their positions -/
theorem utf8Runes_ascii (s : Bytes) (h : ∀ b ∈ s, b < 0x80) :
    utf8Runes s = s.zipIdx.map (fun p => (p.2, p.1.toNat)) :=
  utf8Runes_go_ascii s h s.length 0 (Nat.le_refl _)

end Jqawk.Spec
