/-
  Panic freedom (C01), part 3: the natives, the assignment machinery and the mutual induction
  over all evaluator functions.
-/
import Jqawk.Lemmas.NoPanicLogic
import Jqawk.Model.WF

set_option linter.unusedVariables false

namespace Jqawk

variable {P : Region} {K : Option CellId → Prop}

theorem RegL.empty : RegL P (#[] : Array CellId).toList := by intro c h; simp at h
theorem RegL.nil : RegL P [] := by intro c h; cases h

/-- side conditions: region membership and value goodness from the context (extensible) -/
syntax "np_side" : tactic
macro_rules | `(tactic| np_side) => `(tactic| first
  | assumption
  | trivial
  | exact RegM.nil
  | exact RegL.empty
  | exact RegL.nil
  | (intro _ h; cases h; done)
  | (apply RegM.objInsert <;> np_side)
  | (apply RegM.foldInsert <;> np_side)
  | (simp only [GoodV, SpecOK, OptReg, InR, InA, InO, ExReg, OptRegM, NatResOK, Tr, and_self, and_true,
      true_and, List.toList_toArray] at *; first | assumption | trivial | (constructor <;> assumption)))

/-- leaves: the primitives, with their side conditions discharged from the context -/
macro "np_leaf" : tactic => `(tactic| first
  | (with_reducible_and_instances first
      | exact NP.oof
      | exact NP.throwSig _
      | exact NP.throwUnmodelled _
      | exact NP.throwRt _ _
      | exact NP.getSt
      | exact NP.getHeap
      | exact NP.emit _
      | exact NP.getVariable _)
  | ((with_reducible_and_instances refine NP.pure ?_) <;> np_side)
  | ((with_reducible_and_instances refine NP.readCell ?_) <;> np_side)
  | (with_reducible_and_instances exact NP.readCellAny _)
  | ((with_reducible_and_instances refine NP.newCell ?_) <;> np_side)
  | ((with_reducible_and_instances refine NP.writeCell _ ?_) <;> np_side)
  | ((with_reducible_and_instances refine NP.setHeap ?_) <;> np_side)
  | ((with_reducible_and_instances refine NP.allocArrM ?_) <;> np_side)
  | ((with_reducible_and_instances refine NP.allocObjM ?_) <;> np_side)
  | ((with_reducible_and_instances refine NP.setReturnVal ?_) <;> np_side)
  | ((with_reducible_and_instances refine NP.setLocal _ ?_) <;> np_side)
  | ((with_reducible_and_instances refine NP.copyValue ?_ ?_) <;> np_side)
  | ((with_reducible_and_instances refine NP.bindAll ?_) <;> np_side)
  | ((with_reducible_and_instances refine NP.bindParams _ ?_) <;> np_side)
  | ((with_reducible_and_instances refine NP.allocCells ?_) <;> np_side)
  | ((with_reducible_and_instances refine NP.newArrayOf ?_) <;> np_side))

/-- one decomposition step for goals `NP P K (…) R` built from the primitives -/
macro "np_step" : tactic => `(tactic| first
  | np_leaf
  | (with_reducible_and_instances apply NP.bind)
  | (with_reducible intro _ _)
  | split
  | dsimp only)

macro "np_auto" : tactic => `(tactic| repeat' np_step)

/-! ### values handed to and returned by natives -/

theorem GoodVs.getD {vs : List Val} (h : GoodVs P vs) (i : Nat) : GoodV P (vs.getD i .unknown) := by
  rw [List.getD_eq_getElem?_getD]
  cases hi : vs[i]? with
  | none => trivial
  | some v => exact h v (List.mem_of_getElem? hi)

theorem GoodVs.nil : GoodVs P [] := by intro v h; cases h

theorem checkArg_good {vs : List Val} (h : GoodVs P vs) {i : Nat} {k : Kind} {v : Val}
    (hc : checkArg vs i k = .ok v) : GoodV P v := by
  unfold checkArg at hc
  split at hc
  · cases hc
  · rename_i w hw
    split at hc
    · cases hc; exact h _ (List.mem_of_getElem? hw)
    · cases hc

theorem containsLoop_ok (h : Heap) (v : Val) (cs : List CellId) : NatResOK P (containsLoop h v cs) := by
  induction cs with
  | nil => trivial
  | cons c cs ih =>
    unfold containsLoop
    dsimp only
    split
    · exact ih
    · split
      · trivial
      · split
        · trivial
        · exact ih

theorem pluckCollect_good {h : Heap} (ok : HeapOK P h) {members : List (Bytes × CellId)}
    (hm : RegM P members) : ∀ (ks : List Val) (acc : List (Bytes × Val)) (r : List (Bytes × Val)),
      (∀ kv ∈ acc, GoodV P kv.2) → pluckCollect h members ks acc = .ok r → ∀ kv ∈ r, GoodV P kv.2
  | [], acc, r, hacc, hr => by
    simp only [pluckCollect, Except.ok.injEq] at hr
    subst hr
    intro kv hkv
    exact hacc kv (List.mem_reverse.mp hkv)
  | k :: ks, acc, r, hacc, hr => by
    have key : ∀ key : Bytes, (match objLookup members key with
        | some c => pluckCollect h members ks ((key, h.get c) :: acc)
        | none => pluckCollect h members ks ((key, .nil none) :: acc)) = .ok r →
        ∀ kv ∈ r, GoodV P kv.2 := by
      intro key hr
      split at hr
      · rename_i c hc
        refine pluckCollect_good ok hm ks _ r ?_ hr
        intro kv hkv
        rcases List.mem_cons.mp hkv with hkv | hkv
        · subst hkv; exact ok.cells c (hm.lookup hc)
        · exact hacc kv hkv
      · refine pluckCollect_good ok hm ks _ r ?_ hr
        intro kv hkv
        rcases List.mem_cons.mp hkv with hkv | hkv
        · subst hkv; trivial
        · exact hacc kv hkv
    unfold pluckCollect at hr
    cases k <;> first | exact key _ hr | (simp at hr)

theorem regM_zip_fold {ks : List Bytes} {cells : List CellId} (hc : RegL P cells) :
    RegM P ((ks.zip cells).foldl (fun m kc => objInsert m kc.1 kc.2) []) := by
  apply RegM.foldInsert _ RegM.nil
  intro kc hkc
  exact hc kc.2 (List.of_mem_zip hkc).2

theorem sortCopies_good {h : Heap} (ok : HeapOK P h) {cs : List CellId} (hcs : RegL P cs) :
    GoodVs P ((cs.map h.get).map fun v => match copyVal v with | .ok w => w | .error _ => Val.str [] none) := by
  intro v hv
  simp only [List.map_map, List.mem_map, Function.comp] at hv
  obtain ⟨c, hc, rfl⟩ := hv
  split
  · rename_i w hw; exact copyVal_good hw (ok.cells c (hcs c hc))
  · trivial

theorem GoodVs.mergeSort {vs : List Val} (h : GoodVs P vs) (le : Val → Val → Bool) :
    GoodVs P (vs.mergeSort le) := by
  intro v hv
  exact h v (List.mem_mergeSort.mp hv)

theorem regL_pop {items : Array CellId} (h : RegL P items.toList) : RegL P items.pop.toList := by
  intro c hc
  rw [Array.toList_pop] at hc
  exact h c (List.dropLast_subset _ hc)

theorem regL_extract {items : Array CellId} (h : RegL P items.toList) (i j : Nat) :
    RegL P (items.extract i j).toList := by
  intro c hc
  simp only [Array.toList_extract] at hc
  exact h c (List.mem_of_mem_drop (List.mem_of_mem_take hc))

theorem regL_push {items : Array CellId} (h : RegL P items.toList) {c : CellId} (hc : P.N ≤ c) :
    RegL P (items.push c).toList := by
  intro d hd
  simp only [Array.toList_push, List.mem_append, List.mem_singleton] at hd
  rcases hd with hd | hd
  · exact h d hd
  · subst hd; exact hc

/-- the natives return values of the region -/
theorem NP.callNative (f : Native) {args : List Val} (hargs : GoodVs P args) {this : Option Val}
    (hthis : ∀ v, this = some v → GoodV P v) :
    NP P K (Jqawk.callNative f args this) (NatResOK P) := by
  unfold Jqawk.callNative
  apply NP.bind NP.getHeap
  intro h hh
  have harg0 : GoodV P (args.getD 0 .unknown) := hargs.getD 0
  cases f <;> dsimp only
  case arrPush =>
    split
    · rename_i a
      have ha : P.A ≤ a := hthis _ rfl
      split
      · exact NP.pure trivial
      · refine NP.bind (NP.newCell harg0) (fun c hc => NP.bind NP.getHeap (fun h2 hh2 => ?_))
        exact NP.bind (NP.setHeap (hh2.setArr a (fun _ => regL_push (hh2.arrs a ha) hc)))
          (fun _ _ => NP.pure ha)
    · exact NP.pure trivial
  case arrPop =>
    split
    · rename_i a
      have ha : P.A ≤ a := hthis _ rfl
      split
      · exact NP.pure trivial
      · split
        · exact NP.pure trivial
        · rename_i hne
          have hlt : (h.arr a).size - 1 < (h.arr a).size := by
            have : (h.arr a).size ≠ 0 := by simpa using hne
            omega
          exact NP.bind (NP.setHeap (hh.setArr a (fun _ => regL_pop (hh.arrs a ha))))
            (fun _ _ => NP.pure (hh.cells _ (hh.arr_getD ha hlt)))
    · exact NP.pure trivial
  case arrPopfirst =>
    split
    · rename_i a
      have ha : P.A ≤ a := hthis _ rfl
      split
      · exact NP.pure trivial
      · split
        · exact NP.pure trivial
        · rename_i hne
          have hlt : 0 < (h.arr a).size := by
            have : (h.arr a).size ≠ 0 := by simpa using hne
            omega
          exact NP.bind (NP.setHeap (hh.setArr a (fun _ => regL_extract (hh.arrs a ha) _ _)))
            (fun _ _ => NP.pure (hh.cells _ (hh.arr_getD ha hlt)))
    · exact NP.pure trivial
  case arrContains =>
    split
    · split
      · exact NP.pure trivial
      · exact NP.pure (containsLoop_ok _ _ _)
    · exact NP.pure trivial
  case arrSort =>
    split
    · rename_i a
      have ha : P.A ≤ a := hthis _ rfl
      refine NP.bind (NP.newArrayOf ?_) (fun r hr => NP.pure hr)
      split
      · exact (sortCopies_good hh (hh.arrs a ha)).mergeSort _
      · exact (sortCopies_good hh (hh.arrs a ha)).mergeSort _
    · exact NP.pure trivial
  case objPluck =>
    split
    · rename_i o
      have ho : P.O ≤ o := hthis _ rfl
      split
      · exact NP.pure trivial
      · rename_i kvs hkvs
        have hg := pluckCollect_good hh (hh.objs o ho) args [] kvs (by intro kv h; cases h) hkvs
        refine NP.bind (NP.allocCells (vs := kvs.map (·.2)) ?_) (fun cells hcells =>
          NP.bind NP.getHeap (fun h2 hh2 => ?_))
        · intro v hv
          obtain ⟨kv, hkv, rfl⟩ := List.mem_map.mp hv
          exact hg kv hkv
        · have hao := hh2.allocObj (m := ((kvs.map (·.1)).zip cells).foldl
            (fun m kc => objInsert m kc.1 kc.2) []) (regM_zip_fold hcells)
          exact NP.bind (NP.setHeap hao.1) (fun _ _ => NP.pure hao.2)
    · exact NP.pure trivial
  case strSplit =>
    split
    · split
      · exact NP.pure trivial
      · refine NP.bind (NP.newArrayOf ?_) (fun r hr => NP.pure hr)
        intro v hv
        obtain ⟨x, _, rfl⟩ := List.mem_map.mp hv
        trivial
    · exact NP.bind (NP.newArrayOf GoodVs.nil) (fun r hr => NP.pure hr)
  all_goals np_auto

/-! ### speculative members: `createSpeculative` never finds a cell without a parent -/

/-- the value carries speculative-member information (`ParentObj != nil`) -/
def HasSpec : Val → Prop
  | .nil (some _) => True
  | .native _ _ (some _) => True
  | .str _ (some _) => True
  | _ => False

def ExGood (P : Region) : Except String Val → Prop
  | .ok v => GoodV P v
  | .error _ => True

/-- allocate a cell and continue with a computation that may rely on the cell's content -/
theorem NP.newCell_then {β : Type} {v : Val} (hv : GoodV P v) {f : CellId → EM β} {R : β → Prop}
    (hf : ∀ c s, InvK P K s → P.N ≤ c → s.heap.get c = v → NPat P K (f c) R s) :
    NP P K (Jqawk.newCell v >>= f) R := by
  intro s hs
  have h := NP.newCell (K := K) hv s hs
  show NPres P K R (EM.bind (Jqawk.newCell v) f s)
  unfold EM.bind
  unfold NPat Jqawk.newCell at h
  simp only [Jqawk.newCell]
  exact hf _ _ h.1 h.2 (Heap.get_alloc_new s.heap v)

theorem createSpeculative_np : ∀ (n : Nat) (c : CellId) (s : St), InvK P K s → P.N ≤ c →
    HasSpec (s.heap.get c) → NPat P K (createSpeculative n c) (ExReg P) s
  | 0, c, s, hs, hc, hsp => trivial
  | n + 1, c, s, hs, hc, hsp => by
    unfold createSpeculative
    refine NP.bindAt (R1 := fun sv => GoodV P sv ∧ HasSpec sv) ⟨hs, hs.heap.cells c hc, hsp⟩ ?_
    intro sv ⟨hg, hsv⟩
    have tail : ∀ (target : Val) (member : Val), GoodV P target →
        NP P K (do
          let h ← getHeap
          match setMember h target member c with
          | .error m => Pure.pure (.error m)
          | .ok (c', h') => do setHeap h'; Pure.pure (.ok c') : EM (Except String CellId)) (ExReg P) := by
      intro target member ht
      refine NP.bind NP.getHeap (fun h hh => ?_)
      split
      · exact NP.pure trivial
      · rename_i c' h' hsm
        have := setMember_ok hh ht hc hsm
        exact NP.bind (NP.setHeap this.1) (fun _ _ => NP.pure this.2)
    have body : ∀ spec : SpecRef, P.N ≤ spec.parent →
        NP P K (do
          let pv ← readCell spec.parent
          match pv with
          | .nil none => return .error "could not create this object"
          | _ =>
            let memberToSet : Val := match spec.key with
              | .str s => .str s none
              | .num x => .num x
            let objToSet ← (match pv with
              | .unknown => do
                let newObj : Val ← (match memberToSet with
                  | .num _ => do let a ← allocArrM #[]; Pure.pure (Val.arr a)
                  | _ => do let o ← allocObjM []; Pure.pure (Val.obj o) : EM Val)
                writeCell spec.parent newObj
                return Except.ok newObj
              | .nil (some _) => do
                let pc ← newCell pv
                match (← createSpeculative n pc) with
                | .error m => return Except.error m
                | .ok newParent =>
                  let h ← getHeap
                  let newObj : Val × Heap := match memberToSet with
                    | .str .. => let (o, h') := h.allocObj []; (.obj o, h')
                    | _ => let (a, h') := h.allocArr #[]; (.arr a, h')
                  setHeap newObj.2
                  writeCell newParent newObj.1
                  writeCell spec.parent newObj.1
                  return Except.ok newObj.1
              | _ => return Except.ok pv : EM (Except String Val))
            match objToSet with
            | .error m => return .error m
            | .ok target =>
              let h ← getHeap
              match setMember h target memberToSet c with
              | .error m => return .error m
              | .ok (c', h') => setHeap h'; return .ok c') (ExReg P) := by
      intro spec hpar
      refine NP.bind (NP.readCell hpar) (fun pv hpv => ?_)
      split
      · exact NP.pure trivial
      · dsimp only
        refine NP.bind (R1 := ExGood P) ?_ (fun r hr => ?_)
        · split
          · refine NP.bind (R1 := GoodV P) ?_ (fun newObj hno =>
              NP.bind (NP.writeCell _ hno) (fun _ _ => NP.pure hno))
            split
            · exact NP.bind (NP.allocArrM RegL.empty) (fun a ha => NP.pure ha)
            · exact NP.bind (NP.allocObjM RegM.nil) (fun o ho => NP.pure ho)
          · rename_i sp
            refine NP.newCell_then hpv (fun pc s1 hs1 hpc hget => ?_)
            refine NP.bindAt (createSpeculative_np n pc s1 hs1 hpc (by rw [hget]; trivial)) (fun r hr => ?_)
            split
            · exact NP.pure trivial
            · rename_i newParent
              refine NP.bind NP.getHeap (fun h hh => ?_)
              have hno : HeapOK P (match (match spec.key with
                    | .str s => Val.str s none
                    | .num x => Val.num x) with
                  | .str .. => let (o, h') := h.allocObj []; ((.obj o, h') : Val × Heap)
                  | _ => let (a, h') := h.allocArr #[]; (.arr a, h')).2 ∧
                GoodV P (match (match spec.key with
                    | .str s => Val.str s none
                    | .num x => Val.num x) with
                  | .str .. => let (o, h') := h.allocObj []; ((.obj o, h') : Val × Heap)
                  | _ => let (a, h') := h.allocArr #[]; (.arr a, h')).1 := by
                split
                · exact hh.allocObj RegM.nil
                · exact hh.allocArr (by intro x hx; simp at hx)
              exact NP.bind (NP.setHeap hno.1) (fun _ _ => NP.bind (NP.writeCell _ hno.2) (fun _ _ =>
                NP.bind (NP.writeCell _ hno.2) (fun _ _ => NP.pure hno.2)))
          · exact NP.pure hpv
        · split
          · exact NP.pure trivial
          · rename_i target
            exact tail target _ hr
    cases sv with
    | nil sp => cases sp with
      | none => exact absurd hsv (by simp [HasSpec])
      | some spec => exact body spec hg
    | native f b sp => cases sp with
      | none => exact absurd hsv (by simp [HasSpec])
      | some spec => exact body spec hg.2
    | str x sp => cases sp with
      | none => exact absurd hsv (by simp [HasSpec])
      | some spec => exact body spec hg
    | _ => exact absurd hsv (by simp [HasSpec])

theorem NPat.readCell_bind {β : Type} {c : CellId} {f : Val → EM β} {R : β → Prop} {s : St}
    (h : NPat P K (f (s.heap.get c)) R s) : NPat P K (readCell c >>= f) R s := h

theorem NPat.getHeap_bind {β : Type} {f : Heap → EM β} {R : β → Prop} {s : St}
    (h : NPat P K (f s.heap) R s) : NPat P K (getHeap >>= f) R s := h

theorem needsCreate_hasSpec {lv : Val}
    (h : (match lv with
      | .nil (some _) => true
      | .native _ _ (some _) => true
      | .str _ (some _) => true
      | _ => false) = true) : HasSpec lv := by
  split at h <;> first | trivial | cases h

/-- `evalAssignment`: a speculative target is materialised first — it always has a parent -/
theorem NP.evalAssignment (pos : Nat) {l r : CellId} (hl : P.N ≤ l) (hr : P.N ≤ r) :
    NP P K (Jqawk.evalAssignment pos l r) (InR P) := by
  intro s hs
  unfold Jqawk.evalAssignment
  apply NPat.readCell_bind
  dsimp only
  refine NP.bindAt (R1 := InR P) ?_ (fun target ht => NP.bind (NP.copyValue hr ht) (fun x hx => ?_))
  · have create : HasSpec (s.heap.get l) → NPat P K (do
          let h ← Jqawk.getHeap
          match (← createSpeculative (h.cells.size + 2) l) with
          | .error m => Jqawk.throwRt pos m
          | .ok c => Pure.pure c : EM CellId) (InR P) s := by
      intro hsp
      apply NPat.getHeap_bind
      refine NP.bindAt (createSpeculative_np _ l s hs hl hsp) (fun x hx => ?_)
      split
      · exact NP.throwRt _ _
      · exact NP.pure hx
    split
    · rename_i heq; simp only [↓reduceIte]; exact create (by rw [heq]; trivial)
    · rename_i heq; simp only [↓reduceIte]; exact create (by rw [heq]; trivial)
    · rename_i heq; simp only [↓reduceIte]; exact create (by rw [heq]; trivial)
    · simp only [Bool.false_eq_true, ↓reduceIte]; exact NP.pure hl s hs
  · split
    · exact NP.throwRt _ _
    · exact NP.pure hx

/-- the member / index step: every cell it hands out lies in the region; an unset base is only
    read (it yields a speculative null whose parent is the base cell) -/
theorem NP.memberStep (pos : Nat) {l r : CellId} (hl : P.N ≤ l) (hr : P.N ≤ r) :
    NP P K (Jqawk.memberStep pos l r) (InR P) := by
  unfold Jqawk.memberStep
  refine NP.bind (NP.readCell hr) (fun rv hrv => NP.bind (NP.readCell hl) (fun lv hlv => ?_))
  split
  · exact NP.newCell hl
  · refine NP.bind NP.getHeap (fun h hh => ?_)
    split
    · exact NP.throwRt _ _
    · exact NP.newCell hl
    · exact NP.newCell ⟨hl, hl⟩
    · exact NP.newCell hl
    · exact NP.newCell hl
    · rename_i c hgm
      have hc := getMember_cell hh hlv hgm
      split
      · exact NP.newCell ⟨hl, hl⟩
      · exact NP.pure hc

end Jqawk
