/-
  Renaming of cell ids (C14), part 8: the rule driver in two runs from related states —
  `evalRules`, the pattern-rule loop, the BEGINFILE/ENDFILE loops, the conversion of a decoded
  JSON value.
-/
import Jqawk.Lemmas.SelectorEval

set_option linter.unusedVariables false
set_option linter.unusedSimpArgs false

namespace Jqawk
namespace Sel

variable {X : XCtx}

/-! ### control -/

theorem SimW.ruleFlow {w : Nat} {mA mB : EM Unit} (hm : SimW X w EqR mA mB) :
    SimW X w EqR (Jqawk.ruleFlow mA) (Jqawk.ruleFlow mB) := by
  intro sA sB hs hw
  unfold Jqawk.ruleFlow
  have h1 := hm sA sB hs hw
  cases hA : mA sA with
  | oof => trivial
  | ok a sA1 =>
    cases hB : mB sB with
    | oof => exact RR.oofR ..
    | err e sB1 => rw [hA, hB] at h1; exact h1.elim
    | ok b sB1 => rw [hA, hB] at h1; exact ⟨h1.1, rfl, h1.2.2⟩
  | err e sA1 =>
    cases hB : mB sB with
    | oof => cases e <;> (try rename_i g; cases g) <;> exact RR.oofR ..
    | ok b sB1 => rw [hA, hB] at h1; exact h1.elim
    | err e' sB1 =>
      rw [hA, hB] at h1
      obtain ⟨h11, rfl, h13, h14⟩ := h1
      cases e with
      | sig g =>
        cases g with
        | next => exact ⟨h11, rfl, h13⟩
        | exit => exact ⟨h11, rfl, h13⟩
        | brk => exact ⟨h11, rfl, h13, h14⟩
        | cont => exact ⟨h11, rfl, h13, h14⟩
        | ret => exact ⟨h11, rfl, h13, h14⟩
      | runtime p m => exact ⟨h11, rfl, h13, h14⟩
      | panic m => exact ⟨h11, rfl, h13, h14⟩
      | unmodelled m => exact ⟨h11, rfl, h13, h14⟩

theorem SimW.catchExit {w : Nat} {mA mB : EM Unit} (hm : SimW X w EqR mA mB) :
    SimW X w EqR (Jqawk.catchExit mA) (Jqawk.catchExit mB) := by
  intro sA sB hs hw
  unfold Jqawk.catchExit
  have h1 := hm sA sB hs hw
  cases hA : mA sA with
  | oof => trivial
  | ok a sA1 =>
    cases hB : mB sB with
    | oof => exact RR.oofR ..
    | err e sB1 => rw [hA, hB] at h1; exact h1.elim
    | ok b sB1 => rw [hA, hB] at h1; exact ⟨h1.1, rfl, h1.2.2⟩
  | err e sA1 =>
    cases hB : mB sB with
    | oof => cases e <;> (try rename_i g; cases g) <;> exact RR.oofR ..
    | ok b sB1 => rw [hA, hB] at h1; exact h1.elim
    | err e' sB1 =>
      rw [hA, hB] at h1
      obtain ⟨h11, rfl, h13, h14⟩ := h1
      cases e with
      | sig g =>
        cases g with
        | exit => exact ⟨h11, rfl, h13⟩
        | next => exact ⟨h11, rfl, h13, h14⟩
        | brk => exact ⟨h11, rfl, h13, h14⟩
        | cont => exact ⟨h11, rfl, h13, h14⟩
        | ret => exact ⟨h11, rfl, h13, h14⟩
      | runtime p m => exact ⟨h11, rfl, h13, h14⟩
      | panic m => exact ⟨h11, rfl, h13, h14⟩
      | unmodelled m => exact ⟨h11, rfl, h13, h14⟩

theorem SimW.setRuleRoot {w w0 : Nat} {ca cb : CellId} (h : CellR X.toCtx w0 ca cb) (hw0 : w0 ≤ w) :
    SimW X w EqR (modifySt fun s => { s with ruleRoot := some ca }) (modifySt fun s => { s with ruleRoot := some cb }) := by
  intro sA sB hs hw
  exact ⟨Nat.le_refl _, rfl, ⟨hs.heap, hs.frames, fun _ => h.mono (Nat.le_trans hw0 hw), hs.root, hs.out, hs.faults⟩⟩

theorem SimW.setRoot {w w0 : Nat} {ca cb : CellId} (h : CellR X.toCtx w0 ca cb) (hw0 : w0 ≤ w) :
    SimW X w EqR (modifySt fun s => { s with root := some ca }) (modifySt fun s => { s with root := some cb }) := by
  intro sA sB hs hw
  exact ⟨Nat.le_refl _, rfl, ⟨hs.heap, hs.frames, hs.ruleRoot, fun _ => h.mono (Nat.le_trans hw0 hw), hs.out, hs.faults⟩⟩

/-! ### rules -/

/-- the rules both runs execute: patterns and bodies look up allowed identifiers only -/
def rulesOK (X : XCtx) (rules : List Rule) : Prop :=
  ∀ r ∈ rules, idsS X.allowD X.allow r.body = true ∧ ∀ p, r.pattern = some p → idsE X.allowD X.allow p = true

theorem sim_evalRules (g : GoodX X) : ∀ (rules : List Rule) (w : Nat), rulesOK X rules →
    SimW X w EqR (evalRules X.progA rules) (evalRules X.progB rules)
  | [], w, _ => by unfold evalRules; exact SimW.pure (VR := EqR) (w0 := 0) rfl (Nat.zero_le _)
  | rule :: rest, w, hr => by
    have hrule := hr rule (List.mem_cons_self ..)
    have hrest : rulesOK X rest := fun r hm => hr r (List.mem_cons_of_mem _ hm)
    have unit : ∀ w', SimW X w' EqR (pure ()) (pure ()) := fun w' => SimW.pure (VR := EqR) (w0 := 0) rfl (Nat.zero_le _)
    unfold evalRules
    refine SimW.bind (VR1 := EqR) ?_ (fun w1 ma mb hw1 hm => ?_)
    · cases hp : rule.pattern with
      | none => exact SimW.pure (VR := EqR) (w0 := 0) rfl (Nat.zero_le _)
      | some p =>
        dsimp only
        refine SimW.catchSig .next (fun _ => rfl) ?_
        refine SimW.bind ((allSim evalFuel evalFuel).expr g w p (hrule.2 p hp)) (fun w2 ca cb hw2 hc => ?_)
        refine SimW.readCell_bind hc (Nat.le_refl _) (fun w3 va vb hw3 hv => ?_)
        rw [hv.truthy]
        exact SimW.pure (VR := EqR) (w0 := 0) rfl (Nat.zero_le _)
    · cases hm
      cases ma with
      | none => exact unit w1
      | some isMatch =>
        dsimp only
        cases isMatch with
        | false => exact sim_evalRules g rest w1 hrest
        | true =>
          simp only [Bool.not_true, Bool.false_eq_true, ↓reduceIte]
          refine SimW.bind (VR1 := EqR) (SimW.catchSig .next (fun _ => rfl) ?_) (fun w2 ma mb hw2 hm => ?_)
          · exact SimW.bind ((allSim evalFuel evalFuel).stmt g w1 rule.body hrule.1)
              (fun w3 _ _ _ _ => SimW.pure (VR := EqR) (w0 := 0) rfl (Nat.zero_le _))
          · cases hm
            cases ma with
            | true => exact sim_evalRules g rest w2 hrest
            | false => exact unit w2

theorem sim_evalElems (g : GoodX X) (hbase : X.baseA = [] ∧ X.baseB = []) (rules : List Rule)
    (hr : rulesOK X rules) : ∀ (ia ib : List CellId) (k : Nat) (w w0 : Nat), ListCellR X.toCtx w0 ia ib → w0 ≤ w →
    SimW X w EqR (evalElems X.progA rules ia k) (evalElems X.progB rules ib k) := by
  intro ia ib k w w0 hi hw0
  obtain ⟨rfl, hl⟩ := hi
  induction ib generalizing k w with
  | nil => unfold evalElems; exact SimW.pure (VR := EqR) (w0 := 0) rfl (Nat.zero_le _)
  | cons c cs ih =>
    simp only [List.map_cons]
    unfold evalElems
    have hc : CellR X.toCtx w0 (X.σ c) c := ⟨rfl, hl c (List.mem_cons_self ..)⟩
    refine SimW.bind (SimW.setRuleRoot hc hw0) (fun w1 _ _ hw1 _ => ?_)
    refine SimW.bind (SimW.newCell g.wf (ValR.num 0 _) (Nat.zero_le _)) (fun w2 xa xb hw2 hx => ?_)
    refine SimW.bind (SimW.setLocal g.wf (.inr hbase) _ hx (Nat.le_refl _)) (fun w3 _ _ hw3 _ => ?_)
    refine SimW.bind (sim_evalRules g rules w3 hr) (fun w4 _ _ hw4 _ => ?_)
    exact ih (k + 1) w4 (Nat.le_trans hw0 (Nat.le_trans hw1 (Nat.le_trans hw2 (Nat.le_trans hw3 hw4))))
      (fun x hx => hl x (List.mem_cons_of_mem _ hx))

theorem sim_evalPatternRules (g : GoodX X) (hbase : X.baseA = [] ∧ X.baseB = []) (htr : X.trackRoot = true)
    (rules : List Rule) (hr : rulesOK X rules) (w : Nat) :
    SimW X w EqR (evalPatternRules X.progA rules) (evalPatternRules X.progB rules) := by
  unfold evalPatternRules
  apply SimW.getSt_bind
  intro sA sB hs hw
  have hroot := hs.root htr
  cases hra : sA.root with
  | none =>
    cases hrb : sB.root with
    | none => exact SimW.pure (VR := EqR) (w0 := 0) rfl (Nat.zero_le _)
    | some _ => rw [hra, hrb] at hroot; exact hroot.elim
  | some ra =>
    cases hrb : sB.root with
    | none => rw [hra, hrb] at hroot; exact hroot.elim
    | some rb =>
      rw [hra, hrb] at hroot
      have hc : CellR X.toCtx sB.heap.cells.size ra rb := hroot
      have hv := hs.heap.get hc (Nat.le_refl _)
      dsimp only
      rw [hv.1]
      cases hgb : sB.heap.get rb with
      | arr a =>
        rw [hgb] at hv
        have har := hs.heap.arrs a hv.2
        simp only [renV_arr]
        exact sim_evalElems g hbase rules hr _ _ 0 _ _ har.toList (Nat.le_refl _)
      | _ =>
        simp only [renV_str, renV_nil, renV_native, renV_bool, renV_num, renV_obj, renV_fn, renV_regex, renV_unknown]
        exact SimW.bind (SimW.setRuleRoot hc (Nat.le_refl _)) (fun w1 _ _ _ _ => sim_evalRules g rules w1 hr)

theorem sim_evalSpecialRules (g : GoodX X) {mkA mkB : EM CellId}
    (hmk : ∀ w, SimW X w (CellR X.toCtx) mkA mkB) : ∀ (rules : List Rule) (w : Nat),
    (∀ r ∈ rules, idsS X.allowD X.allow r.body = true) →
    SimW X w EqR (evalSpecialRules X.progA mkA rules) (evalSpecialRules X.progB mkB rules)
  | [], w, _ => by unfold evalSpecialRules; exact SimW.pure (VR := EqR) (w0 := 0) rfl (Nat.zero_le _)
  | rule :: rest, w, hr => by
    unfold evalSpecialRules
    refine SimW.bind (hmk w) (fun w1 ca cb hw1 hc => ?_)
    refine SimW.bind (SimW.setRuleRoot hc (Nat.le_refl _)) (fun w2 _ _ hw2 _ => ?_)
    refine SimW.bind (VR1 := EqR) (SimW.ruleFlow ((allSim evalFuel evalFuel).stmt g w2 rule.body (hr rule (List.mem_cons_self ..))))
      (fun w3 fa fb hw3 hf => ?_)
    cases hf
    cases fa with
    | exit => exact SimW.pure (VR := EqR) (w0 := 0) rfl (Nat.zero_le _)
    | continue_ => exact sim_evalSpecialRules g hmk rest w3 (fun r hm => hr r (List.mem_cons_of_mem _ hm))


/-! ### the conversion of a decoded JSON value -/

theorem foldInsert_nil {K : Ctx} {w : Nat} {ma mb : List (Bytes × CellId)} (h : MemR K w ma mb) :
    MemR K w (ma.foldl (fun m kc => objInsert m kc.1 kc.2) []) (mb.foldl (fun m kc => objInsert m kc.1 kc.2) []) :=
  MemR.foldInsert h (MemR.nil w)

mutual
theorem sim_newValueJson (wf : X.WF) : ∀ (j : JVal) (w : Nat),
    SimW X w (ValR X.toCtx) (newValueJson j) (newValueJson j)
  | .null, w => by unfold newValueJson; exact SimW.pure (ValR.nilNone 0) (Nat.zero_le _)
  | .bool b, w => by unfold newValueJson; exact SimW.pure (ValR.bool 0 b) (Nat.zero_le _)
  | .num lit, w => by unfold newValueJson; exact SimW.pure (ValR.num 0 _) (Nat.zero_le _)
  | .str s, w => by unfold newValueJson; exact SimW.pure (ValR.strNone 0 s) (Nat.zero_le _)
  | .arr items, w => by
    unfold newValueJson
    refine SimW.bind (sim_newValueItems wf items w) (fun w1 ca cb hw1 hc => ?_)
    refine SimW.bind (SimW.allocArrM wf (ArrR.ofList hc) (Nat.le_refl _)) (fun w2 a a' hw2 ha => ?_)
    obtain ⟨rfl, hle⟩ := ha
    exact SimW.pure (VR := ValR X.toCtx) (a := .arr a) (b := .arr a) (w0 := w2) ⟨rfl, hle⟩ (Nat.le_refl _)
  | .obj members, w => by
    unfold newValueJson
    refine SimW.bind (sim_newValueMembers wf members w) (fun w1 ca cb hw1 hc => ?_)
    refine SimW.bind (SimW.allocObjM wf (foldInsert_nil hc) (Nat.le_refl _)) (fun w2 a a' hw2 ha => ?_)
    obtain ⟨rfl, hle⟩ := ha
    exact SimW.pure (VR := ValR X.toCtx) (a := .obj a) (b := .obj a) (w0 := w2) ⟨rfl, hle⟩ (Nat.le_refl _)
theorem sim_newValueItems (wf : X.WF) : ∀ (js : List JVal) (w : Nat),
    SimW X w (ListCellR X.toCtx) (newValueItems js) (newValueItems js)
  | [], w => by unfold newValueItems; exact SimW.pure (ListCellR.nil 0) (Nat.zero_le _)
  | j :: js, w => by
    unfold newValueItems
    refine SimW.bind (sim_newValueJson wf j w) (fun w1 va vb hw1 hv => ?_)
    refine SimW.bind (SimW.newCell wf hv (Nat.le_refl _)) (fun w2 ca cb hw2 hc => ?_)
    refine SimW.bind (sim_newValueItems wf js w2) (fun w3 csa csb hw3 hcs => ?_)
    exact SimW.pure (VR := ListCellR X.toCtx) (ListCellR.cons (hc.mono hw3) hcs) (Nat.le_refl _)
theorem sim_newValueMembers (wf : X.WF) : ∀ (ms : List (Bytes × JVal)) (w : Nat),
    SimW X w (MemR X.toCtx) (newValueMembers ms) (newValueMembers ms)
  | [], w => by unfold newValueMembers; exact SimW.pure (MemR.nil 0) (Nat.zero_le _)
  | (k, j) :: ms, w => by
    unfold newValueMembers
    refine SimW.bind (sim_newValueJson wf j w) (fun w1 va vb hw1 hv => ?_)
    refine SimW.bind (SimW.newCell wf hv (Nat.le_refl _)) (fun w2 ca cb hw2 hc => ?_)
    refine SimW.bind (sim_newValueMembers wf ms w2) (fun w3 csa csb hw3 hcs => ?_)
    refine SimW.pure (VR := MemR X.toCtx) (a := (k, ca) :: csa) (b := (k, cb) :: csb) (w0 := w3) ?_ (Nat.le_refl _)
    obtain ⟨rfl, hl⟩ := hcs
    obtain ⟨rfl, hb⟩ := hc
    refine ⟨rfl, ?_⟩
    intro kc hkc
    rcases List.mem_cons.mp hkc with e | e
    · subst e; exact hb.mono hw3
    · exact hl kc e
end

/-! ### `$` is set before every rule: the driver itself does not need it related -/

/-- the context in which `$` may be read -/
def XCtx.withD (X : XCtx) : XCtx := { X with allowD := true }

theorem SR.dropD {sA sB : St} (h : SR X.withD sA sB) : SR X sA sB :=
  ⟨h.heap, h.frames, fun _ => h.ruleRoot rfl, h.root, h.out, h.faults⟩

theorem SR.addD {sA sB : St} (h : SR X sA sB)
    (hr : OptCellR X.toCtx sB.heap.cells.size sA.ruleRoot sB.ruleRoot) : SR X.withD sA sB :=
  ⟨h.heap, h.frames, fun _ => hr, h.root, h.out, h.faults⟩

theorem RR.dropD {α : Type} {VR : Nat → α → α → Prop} {w0 : Nat} {rA rB : Res α}
    (h : RR X.withD VR w0 rA rB) : RR X VR w0 rA rB := by
  cases rA <;> cases rB <;> first
    | trivial
    | exact h.elim
    | exact ⟨h.1, h.2.1, h.2.2.dropD⟩
    | exact ⟨h.1, h.2.1, h.2.2.1.dropD, h.2.2.2⟩

/-- set `$` to corresponding cells, then run something that may read it -/
theorem SimW.enterRule {α : Type} {VR : Nat → α → α → Prop} {w w0 : Nat} {ca cb : CellId}
    (hc : CellR X.toCtx w0 ca cb) (hw0 : w0 ≤ w) {mA mB : EM α} (hm : SimW X.withD w VR mA mB) :
    SimW X w VR
      (modifySt (fun s => { s with ruleRoot := some ca }) >>= fun _ => mA)
      (modifySt (fun s => { s with ruleRoot := some cb }) >>= fun _ => mB) := by
  intro sA sB hs hw
  have hs' : SR X.withD { sA with ruleRoot := some ca } { sB with ruleRoot := some cb } :=
    SR.addD ⟨hs.heap, hs.frames, fun _ => hc.mono (Nat.le_trans hw0 hw), hs.root, hs.out, hs.faults⟩
      (hc.mono (Nat.le_trans hw0 hw))
  exact (hm _ _ hs' hw).dropD

theorem WF_withD (wf : X.WF) : X.withD.WF := ⟨wf.core, wf.baseLen, wf.base⟩

theorem sim_evalElems' (g : GoodX X.withD) (hbase : X.baseA = [] ∧ X.baseB = []) (rules : List Rule)
    (hr : rulesOK X.withD rules) (ia ib : List CellId) (k : Nat) (w w0 : Nat)
    (hi : ListCellR X.toCtx w0 ia ib) (hw0 : w0 ≤ w) :
    SimW X w EqR (evalElems X.progA rules ia k) (evalElems X.progB rules ib k) := by
  obtain ⟨rfl, hl⟩ := hi
  cases ib with
  | nil => unfold evalElems; exact SimW.pure (VR := EqR) (w0 := 0) rfl (Nat.zero_le _)
  | cons c cs =>
    simp only [List.map_cons]
    unfold evalElems
    have hc : CellR X.toCtx w0 (X.σ c) c := ⟨rfl, hl c (List.mem_cons_self ..)⟩
    refine SimW.enterRule hc hw0 ?_
    refine SimW.bind (SimW.newCell g.wf (ValR.num 0 _) (Nat.zero_le _)) (fun w2 xa xb hw2 hx => ?_)
    refine SimW.bind (SimW.setLocal g.wf (.inr hbase) _ hx (Nat.le_refl _)) (fun w3 _ _ hw3 _ => ?_)
    refine SimW.bind (sim_evalRules g rules w3 hr) (fun w4 _ _ hw4 _ => ?_)
    exact sim_evalElems g hbase rules hr _ _ (k + 1) w4 w0 ⟨rfl, fun x hx => hl x (List.mem_cons_of_mem _ hx)⟩
      (Nat.le_trans hw0 (Nat.le_trans hw2 (Nat.le_trans hw3 hw4)))

theorem sim_evalPatternRules' (g : GoodX X.withD) (wf : X.WF) (hbase : X.baseA = [] ∧ X.baseB = [])
    (htr : X.trackRoot = true) (rules : List Rule) (hr : rulesOK X.withD rules) (w : Nat) :
    SimW X w EqR (evalPatternRules X.progA rules) (evalPatternRules X.progB rules) := by
  unfold evalPatternRules
  apply SimW.getSt_bind
  intro sA sB hs hw
  have hroot := hs.root htr
  cases hra : sA.root with
  | none =>
    cases hrb : sB.root with
    | none => exact SimW.pure (VR := EqR) (w0 := 0) rfl (Nat.zero_le _)
    | some _ => rw [hra, hrb] at hroot; exact hroot.elim
  | some ra =>
    cases hrb : sB.root with
    | none => rw [hra, hrb] at hroot; exact hroot.elim
    | some rb =>
      rw [hra, hrb] at hroot
      have hc : CellR X.toCtx sB.heap.cells.size ra rb := hroot
      have hv := hs.heap.get hc (Nat.le_refl _)
      dsimp only
      rw [hv.1]
      cases hgb : sB.heap.get rb with
      | arr a =>
        rw [hgb] at hv
        have har := hs.heap.arrs a hv.2
        simp only [renV_arr]
        exact sim_evalElems' g hbase rules hr _ _ 0 _ _ har.toList (Nat.le_refl _)
      | _ =>
        simp only [renV_str, renV_nil, renV_native, renV_bool, renV_num, renV_obj, renV_fn, renV_regex, renV_unknown]
        exact SimW.enterRule hc (Nat.le_refl _) (sim_evalRules g rules _ hr)

theorem sim_evalSpecialRules' (g : GoodX X.withD) {mkA mkB : EM CellId} {w0 : Nat}
    (hmk : ∀ w, w0 ≤ w → SimW X w (CellR X.toCtx) mkA mkB) : ∀ (rules : List Rule) (w : Nat), w0 ≤ w →
    (∀ r ∈ rules, idsS true X.allow r.body = true) →
    SimW X w EqR (evalSpecialRules X.progA mkA rules) (evalSpecialRules X.progB mkB rules)
  | [], w, _, _ => by unfold evalSpecialRules; exact SimW.pure (VR := EqR) (w0 := 0) rfl (Nat.zero_le _)
  | rule :: rest, w, hw, hr => by
    unfold evalSpecialRules
    refine SimW.bind (hmk w hw) (fun w1 ca cb hw1 hc => ?_)
    have h1 : SimW X w1 EqR
        (modifySt (fun s => { s with ruleRoot := some ca }) >>= fun _ =>
          Jqawk.ruleFlow (evalStmt X.progA evalFuel rule.body))
        (modifySt (fun s => { s with ruleRoot := some cb }) >>= fun _ =>
          Jqawk.ruleFlow (evalStmt X.progB evalFuel rule.body)) :=
      SimW.enterRule hc (Nat.le_refl _)
        (SimW.ruleFlow ((allSim evalFuel evalFuel).stmt g w1 rule.body (hr rule (List.mem_cons_self ..))))
    rw [EM.bind_assoc', EM.bind_assoc']
    refine SimW.bind h1 (fun w3 fa fb hw3 hf => ?_)
    cases hf
    cases fa with
    | exit => exact SimW.pure (VR := EqR) (w0 := 0) rfl (Nat.zero_le _)
    | continue_ =>
      exact sim_evalSpecialRules' g hmk rest w3 (Nat.le_trans hw (Nat.le_trans hw1 hw3))
        (fun r hm => hr r (List.mem_cons_of_mem _ hm))

end Sel
end Jqawk
