/-
  C13, newline insertion up to positions: `Nl.IsNlSimE` (like `Nl.IsNlSim`, but the tokens of the
  two sources need only agree up to positions), reduced to `IsNlSim` and to the parametricity of
  the parser in token positions (`parseProgram_sim`) through a product source that answers with
  the right-hand tokens and the left-hand flags.  Lexer: vertical trivia (blanks, comments,
  newlines) in front of a token only shifts positions and sets the newline flag.
-/
import Jqawk.Lemmas.NewlineSrc
import Jqawk.Lemmas.Param
import Jqawk.Lemmas.Layout

namespace Jqawk
namespace Nl

/-- `Rσ` is a newline-insertion simulation up to positions from `src₁` to `src₂` -/
structure IsNlSimE {σ₁ σ₂ : Type} (src₁ : TokSrc σ₁) (src₂ : TokSrc σ₂)
    (Rσ : G → σ₁ → σ₂ → Prop) : Prop where
  next : ∀ g s₁ s₂, Rσ g s₁ s₂ → ∀ t nl s₁', src₁.next s₁ = .ok (t, nl, s₁') →
    ∃ t' nl' s₂', src₂.next s₂ = .ok (t', nl', s₂') ∧ erase t = erase t' ∧ FlagOK g t nl nl' ∧
      Rσ (g.step t) s₁' s₂'
  regex : ∀ g s₁ s₂, Rσ g s₁ s₂ → ∀ t s₁', src₁.regex s₁ = .ok (t, s₁') →
    t.tag = .regex ∧ ∃ t' s₂', src₂.regex s₂ = .ok (t', s₂') ∧ erase t = erase t' ∧
      Rσ (g.step t) s₁' s₂'

/-- the product source: tokens (and errors) of the right source, flags of the left one -/
def midSrc {σ₁ σ₂ : Type} (src₁ : TokSrc σ₁) (src₂ : TokSrc σ₂) : TokSrc (σ₁ × σ₂) where
  next := fun s => match src₁.next s.1 with
    | .error e => .error e
    | .ok (_, nl, a') => match src₂.next s.2 with
      | .error e => .error e
      | .ok (t', _, b') => .ok (t', nl, (a', b'))
  regex := fun s => match src₁.regex s.1 with
    | .error e => .error e
    | .ok (_, a') => match src₂.regex s.2 with
      | .error e => .error e
      | .ok (t', b') => .ok (t', (a', b'))

theorem erase_tag_eq {t t' : Token} (h : erase t = erase t') : t.tag = t'.tag :=
  ((erase_token_eq_iff t t').mp h).1

theorem step_congr (g : G) {t t' : Token} (h : erase t = erase t') : g.step t = g.step t' := by
  unfold G.step; rw [erase_tag_eq h]

theorem flagOK_congr (g : G) {t t' : Token} (h : erase t = erase t') (nl nl' : Bool) :
    FlagOK g t nl nl' ↔ FlagOK g t' nl nl' := by
  unfold FlagOK Allowed; rw [erase_tag_eq h]

variable {σ₁ σ₂ : Type} {src₁ : TokSrc σ₁} {src₂ : TokSrc σ₂} {Rσ : G → σ₁ → σ₂ → Prop}

/-- left source ~ product source, up to positions, same flags -/
theorem midSrc_simE (hS : IsNlSimE src₁ src₂ Rσ) :
    PM.IsSimE src₁ (midSrc src₁ src₂) (fun a s => a = s.1 ∧ ∃ g, Rσ g s.1 s.2) where
  next := by
    rintro a ⟨a₀, b⟩ ⟨rfl, g, hR⟩
    simp only [midSrc]
    cases h₁ : src₁.next a with
    | error e => exact rfl
    | ok r =>
      obtain ⟨t, nl, a'⟩ := r
      obtain ⟨t', nl', b', h₂, ht, _, hR'⟩ := hS.next g a b hR t nl a' h₁
      simp only [h₂]
      exact ⟨ht, rfl, rfl, _, hR'⟩
  regex := by
    rintro a ⟨a₀, b⟩ ⟨rfl, g, hR⟩
    simp only [midSrc]
    cases h₁ : src₁.regex a with
    | error e => exact rfl
    | ok r =>
      obtain ⟨t, a'⟩ := r
      obtain ⟨_, t', b', h₂, ht, hR'⟩ := hS.regex g a b hR t a' h₁
      simp only [h₂]
      exact ⟨ht, rfl, _, hR'⟩

/-- product source ~ right source: same tokens, flags related by `FlagOK` -/
theorem midSrc_nlSim (hS : IsNlSimE src₁ src₂ Rσ) :
    IsNlSim (midSrc src₁ src₂) src₂ (fun g s b => s.2 = b ∧ Rσ g s.1 s.2) where
  next := by
    rintro g ⟨a, b⟩ b₂ ⟨rfl, hR⟩ t' nl s' h
    simp only [midSrc] at h
    cases h₁ : src₁.next a with
    | error e => rw [h₁] at h; cases h
    | ok r =>
      obtain ⟨t, nl₁, a'⟩ := r
      obtain ⟨t₂, nl', b', h₂, ht, hfl, hR'⟩ := hS.next g a b hR t nl₁ a' h₁
      rw [h₁] at h
      simp only [h₂, Except.ok.injEq, Prod.mk.injEq] at h
      obtain ⟨rfl, rfl, rfl⟩ := h
      refine ⟨nl', b', h₂, (flagOK_congr g ht _ _).mp hfl, rfl, ?_⟩
      rw [← step_congr g ht]; exact hR'
  regex := by
    rintro g ⟨a, b⟩ b₂ ⟨rfl, hR⟩ t' s' h
    simp only [midSrc] at h
    cases h₁ : src₁.regex a with
    | error e => rw [h₁] at h; cases h
    | ok r =>
      obtain ⟨t, a'⟩ := r
      obtain ⟨htag, t₂, b', h₂, ht, hR'⟩ := hS.regex g a b hR t a' h₁
      rw [h₁] at h
      simp only [h₂, Except.ok.injEq, Prod.mk.injEq] at h
      obtain ⟨rfl, rfl⟩ := h
      refine ⟨by rw [← erase_tag_eq ht]; exact htag, b', h₂, rfl, ?_⟩
      rw [← step_congr g ht]; exact hR'

/-- newline insertion up to positions, program parser, fuel `n₁ ≤ n₂`: if the left run succeeds,
    the right run succeeds with the same program up to positions -/
theorem parseProgram_runE {tbl : RuleTable} (hT : TableOK tbl = true) (n₁ n₂ : Nat) (hn : n₁ ≤ n₂)
    (hS : IsNlSimE src₁ src₂ Rσ) {s₁ : σ₁} {s₂ : σ₂} (hs : Rσ G.init s₁ s₂) {p : Program} {st : PS}
    (hr : (Parser.parseProgram tbl n₁ PS.init).runWith src₁ s₁ = .ok (p, st)) :
    ∃ p' st', (Parser.parseProgram tbl n₂ PS.init).runWith src₂ s₂ = .ok (p', st') ∧
      erase p = erase p' := by
  have hA := PM.run_sim (midSrc_simE hS) (parseProgram_sim tbl n₁ n₂ hn PS.init PS.init rfl)
    s₁ (s₁, s₂) ⟨rfl, _, hs⟩
  rw [hr] at hA
  cases hm : (Parser.parseProgram tbl n₂ PS.init).runWith (midSrc src₁ src₂) (s₁, s₂) with
  | ok r =>
    obtain ⟨p₁, st₁⟩ := r
    rw [hm] at hA
    cases hA with
    | ok hab =>
      simp only [erase_pair, Prod.mk.injEq] at hab
      obtain ⟨st', h'⟩ := parseProgram_run hT n₂ (midSrc_nlSim hS) (s₁ := (s₁, s₂)) ⟨rfl, hs⟩ hm
      exact ⟨p₁, st', h', hab.1⟩
  | syntaxErr e => rw [hm] at hA; cases hA
  | oof => rw [hm] at hA; cases hA

theorem parseExpression_runE {tbl : RuleTable} (hT : TableOK tbl = true) (n₁ n₂ : Nat) (hn : n₁ ≤ n₂)
    (hS : IsNlSimE src₁ src₂ Rσ) {s₁ : σ₁} {s₂ : σ₂} (hs : Rσ G.init s₁ s₂) {p : Expr} {st : PS}
    (hr : (Parser.parseExpression tbl n₁ PS.init).runWith src₁ s₁ = .ok (p, st)) :
    ∃ p' st', (Parser.parseExpression tbl n₂ PS.init).runWith src₂ s₂ = .ok (p', st') ∧
      erase p = erase p' := by
  have hA := PM.run_sim (midSrc_simE hS) (parseExpression_sim tbl n₁ n₂ hn PS.init PS.init rfl)
    s₁ (s₁, s₂) ⟨rfl, _, hs⟩
  rw [hr] at hA
  cases hm : (Parser.parseExpression tbl n₂ PS.init).runWith (midSrc src₁ src₂) (s₁, s₂) with
  | ok r =>
    obtain ⟨p₁, st₁⟩ := r
    rw [hm] at hA
    cases hA with
    | ok hab =>
      simp only [erase_pair, Prod.mk.injEq] at hab
      obtain ⟨st', h'⟩ := parseExpression_run hT n₂ (midSrc_nlSim hS) (s₁ := (s₁, s₂)) ⟨rfl, hs⟩ hm
      exact ⟨p₁, st', h', hab.1⟩
  | syntaxErr e => rw [hm] at hA; cases hA
  | oof => rw [hm] at hA; cases hA

end Nl

/-! ### the lexer: vertical trivia in front of a token -/

namespace Lexer

/-- `VTrivia w rest`: `w` consists of blanks, tabs, CRs, `#` comments (each running up to a
    newline or the end of the text) and newlines; `rest` is what follows. -/
inductive VTrivia : Bytes → Bytes → Prop
  | nil (rest : Bytes) : VTrivia [] rest
  | blank (c : UInt8) (t rest : Bytes) : isBlankB c = true → VTrivia t rest → VTrivia (c :: t) rest
  | comment (body t rest : Bytes) : (10 : UInt8) ∉ body →
      (t ++ rest = [] ∨ (t ++ rest).head? = some 10) → VTrivia t rest →
      VTrivia (35 :: body ++ t) rest
  | newline (t rest : Bytes) : VTrivia t rest → VTrivia (10 :: t) rest

theorem nextNN_congr {s s₂ : LexState} (h : next s = next s₂) (f : Nat) (nl : Bool) :
    nextNN (f + 1) s nl = nextNN (f + 1) s₂ nl := by
  simp only [nextNN, h]

theorem next_newline (r : Bytes) (p ts : Nat) :
    next ⟨10 :: r, p, ts⟩ = .ok (⟨.newline, p, []⟩, ⟨r, p + 1, p⟩) := by
  rw [next_eq]; dsimp only
  rw [skipWs_succ_cons]
  rfl

/-- Vertical trivia `w` in front of the unread text `x` changes what the parser's `advance`
    receives only in positions and in the newline flag, which is set if `w` contains a newline:
    same token up to its position, same error message, successor states with the same unread
    text. -/
theorem nextNN_vtrivia {w x : Bytes} (hw : VTrivia w x) (p ts p' ts' : Nat) (nl : Bool) :
    PM.AnsNextE SameRest (nextNN ((w ++ x).length + 1) ⟨w ++ x, p, ts⟩ nl)
      (nextNN (x.length + 1) ⟨x, p', ts'⟩ (nl || w.contains 10)) := by
  induction hw generalizing p ts nl with
  | nil rest => simpa using nextNN_shift (rest.length + 1) ⟨rest, p, ts⟩ ⟨rest, p', ts'⟩ nl rfl
  | blank c t rest hc _ ih =>
    have hne : ((10 : UInt8) == c) = false := by
      simp only [isBlankB, Bool.or_eq_true, beq_iff_eq] at hc
      rcases hc with (rfl | rfl) | rfl <;> rfl
    have h1 : next ⟨(c :: t) ++ rest, p, ts⟩ = next ⟨t ++ rest, p + 1, ts⟩ := by
      have := next_eq ⟨(c :: t) ++ rest, p, ts⟩
      rw [next_eq, next_eq]; dsimp only
      have ht : Trivia [c] (t ++ rest) := .blank c [] _ hc (.nil _)
      have := skipWs_trivia_gen ht (((c :: t) ++ rest).length + 1) ((t ++ rest).length + 1) p
        (by simp) (by simp)
      simp only [List.cons_append, List.nil_append, List.length_cons, List.length_nil] at this ⊢
      rw [this]
    rw [nextNN_congr h1]
    rw [nextNN_fuel _ ((t ++ rest).length + 1) _ _ (by simp; omega) (by simp)]
    have := ih (p + 1) ts nl
    rw [List.contains_cons, hne, Bool.false_or]
    exact this
  | comment body t rest hb hr _ ih =>
    have h1 : next ⟨(35 :: body ++ t) ++ rest, p, ts⟩ = next ⟨t ++ rest, p + (35 :: body).length, ts⟩ := by
      rw [next_eq, next_eq]; dsimp only
      have ht : Trivia (35 :: body) (t ++ rest) := by
        have := Trivia.comment body [] (t ++ rest) hb (by simpa using hr) (.nil _)
        simpa using this
      have := skipWs_trivia_gen ht (((35 :: body ++ t) ++ rest).length + 1) ((t ++ rest).length + 1) p
        (by simp) (by simp)
      simp only [List.cons_append, List.append_assoc] at this ⊢
      rw [this]
    rw [nextNN_congr h1]
    rw [nextNN_fuel _ ((t ++ rest).length + 1) _ _ (by simp; omega) (by simp)]
    have := ih (p + (35 :: body).length) ts nl
    have hc : (35 :: body ++ t).contains 10 = t.contains 10 := by
      simp [hb]
    rw [hc]; exact this
  | newline t rest _ ih =>
    have h1 : nextNN (((10 :: t) ++ rest).length + 1) ⟨(10 :: t) ++ rest, p, ts⟩ nl
        = nextNN ((t ++ rest).length + 1) ⟨t ++ rest, p + 1, p⟩ true := by
      simp only [List.cons_append, List.length_cons]
      rw [nextNN, next_newline]
      rfl
    rw [h1]
    have := ih (p + 1) p true
    simpa [List.contains_cons] using this

theorem nextNN_true_flag (f : Nat) (s : LexState) (t : Token) (nl : Bool) (s' : LexState)
    (h : nextNN f s true = .ok (t, nl, s')) : nl = true := by
  induction f generalizing s with
  | zero => cases h
  | succ f ih =>
    simp only [nextNN] at h
    cases hn : next s with
    | error e => rw [hn] at h; cases h
    | ok r =>
      obtain ⟨t₁, s₁⟩ := r
      rw [hn] at h
      dsimp only at h
      split at h
      · exact ih _ h
      · simp only [Except.ok.injEq, Prod.mk.injEq] at h
        exact h.2.1.symm

/-- a flag that is already set stays set, and nothing else changes -/
theorem nextNN_flag_true (f : Nat) (s : LexState) :
    nextNN f s true = match nextNN f s false with
      | .ok (t, _, s') => .ok (t, true, s')
      | .error e => .error e := by
  induction f generalizing s with
  | zero => rfl
  | succ f ih =>
    simp only [nextNN]
    cases next s with
    | error e => rfl
    | ok r =>
      obtain ⟨t, s'⟩ := r
      dsimp only
      split
      · cases h : nextNN f s' true with
        | error e => rfl
        | ok r₂ =>
          obtain ⟨t₂, nl₂, s₂⟩ := r₂
          have := nextNN_true_flag f s' t₂ nl₂ s₂ h
          subst this; rfl
      · rfl

theorem regex_tag (s : LexState) (t : Token) (s' : LexState) (h : regex s = .ok (t, s')) :
    t.tag = .regex := by
  unfold regex at h
  split at h
  · cases h
  · simp only [Except.ok.injEq, Prod.mk.injEq] at h
    rw [← h.1]

end Lexer

namespace Nl
open Lexer

/-- "same unread text" as a newline-insertion simulation up to positions (no flag is raised) -/
theorem sameRest_nlSimE_next (g : G) (s₁ s₂ : LexState) (h : SameRest s₁ s₂) (t : Token) (nl : Bool)
    (s₁' : LexState) (h₁ : lexerSrc.next s₁ = .ok (t, nl, s₁')) :
    ∃ t' nl' s₂', lexerSrc.next s₂ = .ok (t', nl', s₂') ∧ erase t = erase t' ∧ FlagOK g t nl nl' ∧
      SameRest s₁' s₂' := by
  have := (sameRest_isSimE).next s₁ s₂ h
  rw [h₁] at this
  cases h₂ : lexerSrc.next s₂ with
  | error e => rw [h₂] at this; exact this.elim
  | ok r =>
    obtain ⟨t', nl', s₂'⟩ := r
    rw [h₂] at this
    obtain ⟨ht, rfl, hs⟩ := this
    exact ⟨t', nl, s₂', rfl, ht, .inl rfl, hs⟩

theorem sameRest_nlSimE_regex (s₁ s₂ : LexState) (h : SameRest s₁ s₂) (t : Token)
    (s₁' : LexState) (h₁ : lexerSrc.regex s₁ = .ok (t, s₁')) :
    t.tag = .regex ∧ ∃ t' s₂', lexerSrc.regex s₂ = .ok (t', s₂') ∧ erase t = erase t' ∧
      SameRest s₁' s₂' := by
  refine ⟨regex_tag s₁ t s₁' h₁, ?_⟩
  have := (sameRest_isSimE).regex s₁ s₂ h
  rw [h₁] at this
  cases h₂ : lexerSrc.regex s₂ with
  | error e => rw [h₂] at this; exact this.elim
  | ok r =>
    obtain ⟨t', s₂'⟩ := r
    rw [h₂] at this
    exact ⟨t', s₂', rfl, this.1, this.2⟩

/-- the identity is a newline-insertion simulation of the lexer with itself -/
theorem idSrc_isNlSim : IsNlSim lexerSrc lexerSrc (fun _ s s' => s = s') where
  next := by
    rintro g s _ rfl t nl s' h
    exact ⟨nl, s', h, .inl rfl, rfl⟩
  regex := by
    rintro g s _ rfl t s' h
    exact ⟨regex_tag s t s' h, s', h, rfl⟩

/-- the parser state after the first `advance` -/
def firstState (t : Token) (nl : Bool) : PS := { PS.init with prev := PS.init.cur, cur := t, didEnd := nl }

theorem parseProgram_first (tbl : RuleTable) (n : Nat) :
    Parser.parseProgram tbl n PS.init =
      .next fun t nl => Parser.parseTop tbl n [] [] (firstState t nl) := rfl

/-- Vertical trivia (blanks, comments, newlines) in front of a program whose first token is not
    `;`: if the program parses, so does the program with the trivia, to the same AST up to
    positions (fuel `n₁ ≤ n₂`). -/
theorem parseProgram_leading {tbl : RuleTable} (hT : TableOK tbl = true) {w src : Bytes}
    (hw : VTrivia w src)
    (hsemi : ∀ t nl s', nextNN (src.length + 1) (LexState.init src) false = .ok (t, nl, s') →
      t.tag ≠ .semiColon)
    (n₁ n₂ : Nat) (hn : n₁ ≤ n₂) {p : Program} {st : PS}
    (hr : (Parser.parseProgram tbl n₁ PS.init).run (LexState.init src) = .ok (p, st)) :
    ∃ p' st', (Parser.parseProgram tbl n₂ PS.init).run (LexState.init (w ++ src)) = .ok (p', st') ∧
      erase p = erase p' := by
  rw [parseProgram_first] at hr ⊢
  simp only [PM.run, LexState.init] at hr ⊢
  have hv := nextNN_vtrivia hw 0 0 0 0 false
  cases h₁ : nextNN (src.length + 1) ⟨src, 0, 0⟩ false with
  | error e => rw [h₁] at hr; cases hr
  | ok r =>
    obtain ⟨t, nl, s₁'⟩ := r
    rw [h₁] at hr
    dsimp only at hr
    have hne := hsemi t nl s₁' h₁
    -- what the right side receives first
    obtain ⟨t', nl', s₂', h₂, ht, hfl, hs⟩ : ∃ t' nl' s₂',
        nextNN ((w ++ src).length + 1) ⟨w ++ src, 0, 0⟩ false = .ok (t', nl', s₂') ∧
        erase t = erase t' ∧ (nl = nl' ∨ (nl = false ∧ nl' = true)) ∧ SameRest s₁' s₂' := by
      cases hc : w.contains 10 with
      | false =>
        rw [hc, Bool.or_false, h₁] at hv
        cases h₂ : nextNN ((w ++ src).length + 1) ⟨w ++ src, 0, 0⟩ false with
        | error e => rw [h₂] at hv; exact hv.elim
        | ok r =>
          obtain ⟨t', nl', s₂'⟩ := r
          rw [h₂] at hv
          obtain ⟨ht, rfl, hs⟩ := hv
          exact ⟨t', nl', s₂', rfl, ht.symm, .inl rfl, hs.symm⟩
      | true =>
        rw [hc, Bool.or_true, nextNN_flag_true, h₁] at hv
        dsimp only at hv
        cases h₂ : nextNN ((w ++ src).length + 1) ⟨w ++ src, 0, 0⟩ false with
        | error e => rw [h₂] at hv; exact hv.elim
        | ok r =>
          obtain ⟨t', nl', s₂'⟩ := r
          rw [h₂] at hv
          obtain ⟨ht, rfl, hs⟩ := hv
          refine ⟨t', true, s₂', rfl, ht.symm, ?_, hs.symm⟩
          cases nl
          · exact .inr ⟨rfl, rfl⟩
          · exact .inl rfl
    rw [h₂]
    dsimp only
    -- step 1: positions (and fuel)
    have hps : erase (firstState t nl) = erase (firstState t' nl) := by
      rw [erase_ps_eq_iff]
      rw [erase_token_eq_iff] at ht
      simp [firstState, ht]
    have h1 := PM.run_sim sameRest_isSimE
      (parseTop_sim tbl n₁ n₂ hn [] [] [] [] rfl rfl (firstState t nl) (firstState t' nl) hps) s₁' s₂' hs
    rw [← PM.run_eq_runWith, ← PM.run_eq_runWith, hr] at h1
    cases hm : (Parser.parseTop tbl n₂ [] [] (firstState t' nl)).run s₂' with
    | syntaxErr e => rw [hm] at h1; cases h1
    | oof => rw [hm] at h1; cases h1
    | ok r =>
      obtain ⟨p₁, st₁⟩ := r
      rw [hm] at h1
      cases h1 with
      | ok hab =>
        simp only [erase_pair, Prod.mk.injEq] at hab
        -- step 2: the flag
        have htag : t'.tag ≠ .semiColon := by rw [← erase_tag_eq ht]; exact hne
        have hR : R (G.init.step t') (firstState t' nl) (firstState t' nl') :=
          ⟨rfl, rfl, by
            rcases hfl with h | ⟨h1, h2⟩
            · exact .inl h
            · exact .inr ⟨h1, h2, htag⟩⟩
        have h2 := parseTop_nl hT n₂ [] [] (G.init.step t') _ _ hR trivial
        rw [PM.run_eq_runWith] at hm
        obtain ⟨g', ⟨p₂, st₂⟩, hb, hq⟩ := run_nlsim idSrc_isNlSim h2 (s₁ := s₂') (s₂ := s₂') rfl hm
        have : p₁ = p₂ := hq.2.1
        subst this
        exact ⟨p₁, st₂, by rw [PM.run_eq_runWith]; exact hb, hab.1⟩

end Nl

end Jqawk
