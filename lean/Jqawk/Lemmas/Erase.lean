/-
  Position erasure on tokens, ASTs and parse results, and the relational ("up to positions")
  version of the bisimulation principle for the parser monad.
-/
import Jqawk.Lemmas.PM

namespace Jqawk

/-- Forget the position of a token. -/
def Token.erase (t : Token) : Token := { t with pos := 0 }

mutual
def Expr.erase : Expr → Expr
  | .lit t => .lit t.erase
  | .ident t => .ident t.erase
  | .arr t items => .arr t.erase (eraseExprs items)
  | .obj t items => .obj t.erase (eraseKVs items)
  | .unary e op p => .unary e.erase op.erase p
  | .binary l r op => .binary l.erase r.erase op.erase
  | .call f args => .call f.erase (eraseExprs args)
  | .match_ t v cases => .match_ t.erase v.erase (eraseCases cases)
def eraseExprs : List Expr → List Expr
  | [] => []
  | e :: es => e.erase :: eraseExprs es
def eraseKVs : List (Bytes × Expr) → List (Bytes × Expr)
  | [] => []
  | (k, e) :: es => (k, e.erase) :: eraseKVs es
def eraseCases : List MatchCase → List MatchCase
  | [] => []
  | (.mk pats body) :: cs => .mk (eraseExprs pats) body.erase :: eraseCases cs
def Stmt.erase : Stmt → Stmt
  | .block t body => .block t.erase (eraseStmts body)
  | .print t args => .print t.erase (eraseExprs args)
  | .expr e => .expr e.erase
  | .ret none => .ret none
  | .ret (some e) => .ret (some e.erase)
  | .brk t => .brk t.erase
  | .cont t => .cont t.erase
  | .next t => .next t.erase
  | .exit t => .exit t.erase
  | .if_ c b none => .if_ c.erase b.erase none
  | .if_ c b (some e) => .if_ c.erase b.erase (some e.erase)
  | .while_ c b => .while_ c.erase b.erase
  | .for_ pre c post b => .for_ pre.erase c.erase post.erase b.erase
  | .forIn id idx iter body => .forIn id.erase (idx.map Token.erase) iter.erase body.erase
def eraseStmts : List Stmt → List Stmt
  | [] => []
  | s :: ss => s.erase :: eraseStmts ss
end

def MatchCase.erase : MatchCase → MatchCase
  | .mk pats body => .mk (eraseExprs pats) body.erase

def Rule.erase (r : Rule) : Rule := ⟨r.kind, r.pattern.map Expr.erase, r.body.erase⟩
def FuncDef.erase (f : FuncDef) : FuncDef := ⟨f.ident.erase, f.args, f.body.erase⟩
def Program.erase (p : Program) : Program := ⟨p.rules.map Rule.erase, p.functions.map FuncDef.erase⟩
def PS.erase (s : PS) : PS := { s with cur := s.cur.erase, prev := s.prev.erase }

/-- Types with a position-erasing map; `a ≈ b` is `erase a = erase b`. -/
class Erase (α : Type) where
  erase : α → α

export Erase (erase)

instance : Erase Unit := ⟨id⟩
instance : Erase Bool := ⟨id⟩
instance : Erase Tag := ⟨id⟩
instance : Erase Bytes := ⟨id⟩
instance : Erase RuleKind := ⟨id⟩
instance : Erase Token := ⟨Token.erase⟩
instance : Erase Expr := ⟨Expr.erase⟩
instance : Erase Stmt := ⟨Stmt.erase⟩
instance : Erase MatchCase := ⟨MatchCase.erase⟩
instance : Erase Rule := ⟨Rule.erase⟩
instance : Erase FuncDef := ⟨FuncDef.erase⟩
instance : Erase Program := ⟨Program.erase⟩
instance : Erase PS := ⟨PS.erase⟩
instance {α : Type} [Erase α] : Erase (List α) := ⟨List.map erase⟩
instance {α : Type} [Erase α] : Erase (Option α) := ⟨Option.map erase⟩
instance {α β : Type} [Erase α] [Erase β] : Erase (α × β) := ⟨fun p => (erase p.1, erase p.2)⟩

section simp_lemmas
variable {α β : Type} [Erase α] [Erase β]

@[simp] theorem erase_unit (u : Unit) : erase u = u := rfl
@[simp] theorem erase_bool (b : Bool) : erase b = b := rfl
@[simp] theorem erase_tag (t : Tag) : erase t = t := rfl
@[simp] theorem erase_bytes (b : Bytes) : erase b = b := rfl
@[simp] theorem erase_ruleKind (b : RuleKind) : erase b = b := rfl
@[simp] theorem erase_pair (a : α) (b : β) : erase (a, b) = (erase a, erase b) := rfl
@[simp] theorem erase_nil : erase ([] : List α) = [] := rfl
@[simp] theorem erase_cons (a : α) (l : List α) : erase (a :: l) = erase a :: erase l := rfl
@[simp] theorem erase_reverse (l : List α) : erase l.reverse = (erase l).reverse := by
  show List.map _ _ = _; rw [List.map_reverse]; rfl
@[simp] theorem erase_none : erase (none : Option α) = none := rfl
@[simp] theorem erase_some (a : α) : erase (some a) = some (erase a) := rfl
theorem erase_token (t : Token) : erase t = ⟨t.tag, 0, t.text⟩ := rfl
theorem erase_token_eq_iff (t u : Token) : erase t = erase u ↔ t.tag = u.tag ∧ t.text = u.text := by
  cases t; cases u; simp [erase_token]
theorem erase_listBytes (l : List Bytes) : erase l = l := by
  show List.map _ _ = _; simp [show (erase : Bytes → Bytes) = id from rfl]

theorem eraseExprs_eq (l : List Expr) : eraseExprs l = erase l := by
  induction l with
  | nil => rfl
  | cons e es ih => simp only [eraseExprs, ih]; rfl
theorem eraseStmts_eq (l : List Stmt) : eraseStmts l = erase l := by
  induction l with
  | nil => rfl
  | cons e es ih => simp only [eraseStmts, ih]; rfl
theorem eraseKVs_eq (l : List (Bytes × Expr)) : eraseKVs l = erase l := by
  induction l with
  | nil => rfl
  | cons e es ih => obtain ⟨k, v⟩ := e; simp only [eraseKVs, ih]; rfl
theorem eraseCases_eq (l : List MatchCase) : eraseCases l = erase l := by
  induction l with
  | nil => rfl
  | cons e es ih => cases e; simp only [eraseCases, ih]; rfl

theorem erase_ps_eq_iff (s t : PS) : erase s = erase t ↔
    s.cur.tag = t.cur.tag ∧ s.cur.text = t.cur.text ∧ s.prev.tag = t.prev.tag ∧
    s.prev.text = t.prev.text ∧ s.didEnd = t.didEnd ∧ s.inFn = t.inFn ∧ s.inLoop = t.inLoop := by
  obtain ⟨⟨a1, a2, a3⟩, ⟨b1, b2, b3⟩, c, d, e⟩ := s
  obtain ⟨⟨a1', a2', a3'⟩, ⟨b1', b2', b3'⟩, c', d', e'⟩ := t
  simp [erase, PS.erase, Token.erase]
  constructor
  · rintro ⟨⟨h1, h2⟩, ⟨h3, h4⟩, h5, h6, h7⟩; exact ⟨h1, h2, h3, h4, h5, h6, h7⟩
  · rintro ⟨h1, h2, h3, h4, h5, h6, h7⟩; exact ⟨⟨h1, h2⟩, ⟨h3, h4⟩, h5, h6, h7⟩

end simp_lemmas

/-! ### parser programs, related up to positions -/

namespace PM

/-- `Sim m₁ m₂`: the two programs behave alike on tokens that agree up to positions: they make
    the same requests, end together, with results equal up to positions and errors with the
    same message.  The left program may run out of fuel at any point (`oofL`), which makes
    the relation usable for comparing different amounts of fuel. -/
inductive Sim {α : Type} [Erase α] : PM α → PM α → Prop
  | pure {a b : α} : erase a = erase b → Sim (.pure a) (.pure b)
  | fail {e₁ e₂ : SynErr} : e₁.msg = e₂.msg → Sim (.fail e₁) (.fail e₂)
  | oofL {m : PM α} : Sim .oof m
  | next {k₁ k₂ : Token → Bool → PM α} :
      (∀ t₁ t₂ nl, erase t₁ = erase t₂ → Sim (k₁ t₁ nl) (k₂ t₂ nl)) → Sim (.next k₁) (.next k₂)
  | regex {k₁ k₂ : Token → PM α} :
      (∀ t₁ t₂, erase t₁ = erase t₂ → Sim (k₁ t₁) (k₂ t₂)) → Sim (.regex k₁) (.regex k₂)

theorem Sim.bind {α β : Type} [Erase α] [Erase β] {m₁ m₂ : PM α} {f g : α → PM β}
    (h : Sim m₁ m₂) (hf : ∀ a b, erase a = erase b → Sim (f a) (g b)) :
    Sim (m₁.bind f) (m₂.bind g) := by
  induction h with
  | pure hab => exact hf _ _ hab
  | fail he => exact .fail he
  | oofL => exact .oofL
  | next _ ih => exact .next fun t₁ t₂ nl ht => ih t₁ t₂ nl ht
  | regex _ ih => exact .regex fun t₁ t₂ ht => ih t₁ t₂ ht

end PM

/-- parse results related up to positions (the left one may be out of fuel) -/
inductive ParseRes.Sim {α : Type} [Erase α] : ParseRes α → ParseRes α → Prop
  | ok {a b : α} : erase a = erase b → ParseRes.Sim (.ok a) (.ok b)
  | syntaxErr {e₁ e₂ : SynErr} : e₁.msg = e₂.msg → ParseRes.Sim (.syntaxErr e₁) (.syntaxErr e₂)
  | oofL {r : ParseRes α} : ParseRes.Sim .oof r

namespace PM

/-- Answers of two token sources agree up to positions. -/
def AnsNextE {σ₁ σ₂ : Type} (R : σ₁ → σ₂ → Prop) :
    Except SynErr (Token × Bool × σ₁) → Except SynErr (Token × Bool × σ₂) → Prop
  | .error e₁, .error e₂ => e₁.msg = e₂.msg
  | .ok (t₁, nl₁, s₁), .ok (t₂, nl₂, s₂) => erase t₁ = erase t₂ ∧ nl₁ = nl₂ ∧ R s₁ s₂
  | _, _ => False

def AnsRegexE {σ₁ σ₂ : Type} (R : σ₁ → σ₂ → Prop) :
    Except SynErr (Token × σ₁) → Except SynErr (Token × σ₂) → Prop
  | .error e₁, .error e₂ => e₁.msg = e₂.msg
  | .ok (t₁, s₁), .ok (t₂, s₂) => erase t₁ = erase t₂ ∧ R s₁ s₂
  | _, _ => False

/-- `R` is a simulation up to positions between two token sources. -/
structure IsSimE {σ₁ σ₂ : Type} (src₁ : TokSrc σ₁) (src₂ : TokSrc σ₂) (R : σ₁ → σ₂ → Prop) :
    Prop where
  next : ∀ s₁ s₂, R s₁ s₂ → AnsNextE R (src₁.next s₁) (src₂.next s₂)
  regex : ∀ s₁ s₂, R s₁ s₂ → AnsRegexE R (src₁.regex s₁) (src₂.regex s₂)

/-- programs related up to positions, run against token sources similar up to positions, give
    results related up to positions -/
theorem run_sim {σ₁ σ₂ α : Type} [Erase α] {src₁ : TokSrc σ₁} {src₂ : TokSrc σ₂}
    {R : σ₁ → σ₂ → Prop} (hR : IsSimE src₁ src₂ R) {m₁ m₂ : PM α} (hm : Sim m₁ m₂)
    (s₁ : σ₁) (s₂ : σ₂) (h : R s₁ s₂) :
    ParseRes.Sim (m₁.runWith src₁ s₁) (m₂.runWith src₂ s₂) := by
  induction hm generalizing s₁ s₂ with
  | pure hab => exact .ok hab
  | fail he => exact .syntaxErr he
  | oofL => exact .oofL
  | next _ ih =>
    have hn := hR.next s₁ s₂ h
    simp only [runWith]
    cases h₁ : src₁.next s₁ with
    | error e₁ =>
      cases h₂ : src₂.next s₂ with
      | error e₂ => rw [h₁, h₂] at hn; exact .syntaxErr hn
      | ok r₂ => rw [h₁, h₂] at hn; simp [AnsNextE] at hn
    | ok r₁ =>
      obtain ⟨t₁, nl₁, s₁'⟩ := r₁
      cases h₂ : src₂.next s₂ with
      | error e₂ => rw [h₁, h₂] at hn; simp [AnsNextE] at hn
      | ok r₂ =>
        obtain ⟨t₂, nl₂, s₂'⟩ := r₂
        rw [h₁, h₂] at hn
        obtain ⟨ht, rfl, hs⟩ := hn
        exact ih _ _ _ ht _ _ hs
  | regex _ ih =>
    have hn := hR.regex s₁ s₂ h
    simp only [runWith]
    cases h₁ : src₁.regex s₁ with
    | error e₁ =>
      cases h₂ : src₂.regex s₂ with
      | error e₂ => rw [h₁, h₂] at hn; exact .syntaxErr hn
      | ok r₂ => rw [h₁, h₂] at hn; simp [AnsRegexE] at hn
    | ok r₁ =>
      obtain ⟨t₁, s₁'⟩ := r₁
      cases h₂ : src₂.regex s₂ with
      | error e₂ => rw [h₁, h₂] at hn; simp [AnsRegexE] at hn
      | ok r₂ =>
        obtain ⟨t₂, s₂'⟩ := r₂
        rw [h₁, h₂] at hn
        obtain ⟨ht, hs⟩ := hn
        exact ih _ _ ht _ _ hs

end PM

/-! ### the state-passing layer `P = StateT PS PM` -/

/-- two parser actions related up to positions: from parser states equal up to positions they
    run to `PM.Sim`-related programs (result and final parser state equal up to positions) -/
def PSim {α : Type} [Erase α] (p₁ p₂ : P α) : Prop :=
  ∀ s₁ s₂ : PS, erase s₁ = erase s₂ → PM.Sim (p₁ s₁) (p₂ s₂)

namespace PSim
variable {α β : Type} [Erase α] [Erase β]

theorem bind {p₁ p₂ : P α} {f g : α → P β} (h : PSim p₁ p₂)
    (hf : ∀ a b, erase a = erase b → PSim (f a) (g b)) : PSim (p₁ >>= f) (p₂ >>= g) := by
  intro s₁ s₂ hs
  show PM.Sim ((p₁ s₁).bind _) ((p₂ s₂).bind _)
  refine PM.Sim.bind (h s₁ s₂ hs) ?_
  rintro ⟨a, t₁⟩ ⟨b, t₂⟩ hab
  simp only [erase_pair, Prod.mk.injEq] at hab
  exact hf a b hab.1 t₁ t₂ hab.2

theorem pure {a b : α} (h : erase a = erase b) : PSim (Pure.pure a : P α) (Pure.pure b) := by
  intro s₁ s₂ hs
  exact PM.Sim.pure (by simp [h, hs])

theorem get : PSim (MonadState.get : P PS) MonadState.get := by
  intro s₁ s₂ hs
  exact PM.Sim.pure (by simp [hs])

theorem modify {f g : PS → PS} (h : ∀ s₁ s₂, erase s₁ = erase s₂ → erase (f s₁) = erase (g s₂)) :
    PSim (modify f : P Unit) (modify g) := by
  intro s₁ s₂ hs
  exact PM.Sim.pure (by simp [h s₁ s₂ hs])

theorem fail {p₁ p₂ : Nat} {msg : String} : PSim (Parser.fail p₁ msg : P α) (Parser.fail p₂ msg) := by
  intro s₁ s₂ _
  exact PM.Sim.fail rfl

theorem oofL {p : P α} : PSim (Parser.oof : P α) p := by
  intro s₁ s₂ _
  exact PM.Sim.oofL

theorem advance : PSim Parser.advance Parser.advance := by
  intro s₁ s₂ hs
  refine PM.Sim.next fun t₁ t₂ nl ht => PM.Sim.pure ?_
  rw [erase_ps_eq_iff] at hs
  rw [erase_token_eq_iff] at ht
  simp only [erase_pair, erase_unit, Prod.mk.injEq, true_and]
  rw [erase_ps_eq_iff]
  simp [hs, ht]

end PSim

end Jqawk
