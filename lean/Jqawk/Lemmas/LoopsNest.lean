/-
  C07: nesting.  `Leads prog l n t s m inner s0` says that running task `t` (a statement, the
  rest of a block, the rest of a loop, the remaining cases of a `match` statement) at fuel `n`
  from state `s` arrives at the sub-statement `inner`, to be run at fuel `m` from state `s0`, in a
  position from which every enclosing construct up to `t` only passes on how `inner` ends:
  through statements of blocks that completed before it, through taken `if`/`else` branches,
  through the body of a `match` statement's matching case, and — flag `l = true` — through
  iterations of enclosing loops (earlier rounds completed or continued).

  `leads_propagates`: however `inner` ends abnormally (runtime error, `return`, `next`, `exit`,
  and — if no loop boundary was crossed — `break` / `continue`), `t` ends the same way, in the
  same state up to the frame stack (a `match` body's frame is dropped), and nothing else runs.
-/
import Jqawk.Lemmas.LoopsEval

set_option linter.unusedVariables false
set_option linter.unusedSimpArgs false

namespace Jqawk.Spec
open Jqawk

/-- what is being run -/
inductive Task
  | stmt (st : Stmt)
  | block (sts : List Stmt)
  | whileL (c : Expr) (b : Stmt)
  | forL (c p : Expr) (b : Stmt)
  | forInL (loc : CellId) (il : Option CellId) (b : Stmt) (items : List RawItem)
  | cases (pos : Nat) (v : CellId) (cs : List MatchCase)

variable (prog : Program)

def Task.run : Task → Nat → EM Unit
  | .stmt st, n => evalStmt prog n st
  | .block sts, n => evalBlock prog n sts
  | .whileL c b, n => whileLoop prog n c b
  | .forL c p b, n => forLoop prog n c p b
  | .forInL loc il b items, n => forInLoop prog n loc il b items
  | .cases pos v cs, n => effectOnly (evalMatchCases prog n pos v cs)

/-- the body ended in a way that lets the loop go on -/
def GoesOn (r : Res Unit) (s2 : St) : Prop := r = .ok () s2 ∨ r = .err (.sig .cont) s2

inductive Leads : Bool → Nat → Task → St → Nat → Stmt → St → Prop
  | here {n : Nat} {st : Stmt} {s : St} : Leads false n (.stmt st) s n st s
  /- blocks -/
  | block {l n t body s m i s0} :
      Leads l n (.block body) s m i s0 → Leads l (n + 1) (.stmt (.block t body)) s m i s0
  | blockHead {l n st rest s m i s0} :
      Leads l n (.stmt st) s m i s0 → Leads l (n + 1) (.block (st :: rest)) s m i s0
  | blockTail {l n st rest s s1 m i s0} :
      evalStmt prog n st s = .ok () s1 → Leads l n (.block rest) s1 m i s0 →
      Leads l (n + 1) (.block (st :: rest)) s m i s0
  /- conditionals -/
  | ifThen {l n c body els s cell s1 m i s0} :
      evalExpr prog n c s = .ok cell s1 → (s1.heap.get cell).truthy = true →
      Leads l n (.stmt body) s1 m i s0 → Leads l (n + 1) (.stmt (.if_ c body els)) s m i s0
  | ifElse {l n c body eb s cell s1 m i s0} :
      evalExpr prog n c s = .ok cell s1 → (s1.heap.get cell).truthy = false →
      Leads l n (.stmt eb) s1 m i s0 → Leads l (n + 1) (.stmt (.if_ c body (some eb))) s m i s0
  /- while -/
  | while_ {l n c b s m i s0} :
      Leads l n (.whileL c b) s m i s0 → Leads l (n + 1) (.stmt (.while_ c b)) s m i s0
  | whileBody {l n c b s cell s1 m i s0} :
      evalExpr prog n c s = .ok cell s1 → (s1.heap.get cell).truthy = true →
      Leads l n (.stmt b) s1 m i s0 → Leads true (n + 1) (.whileL c b) s m i s0
  | whileNext {l n c b s cell s1 s2 m i s0} :
      evalExpr prog n c s = .ok cell s1 → (s1.heap.get cell).truthy = true →
      GoesOn (evalStmt prog n b s1) s2 →
      Leads l n (.whileL c b) s2 m i s0 → Leads l (n + 1) (.whileL c b) s m i s0
  /- three-clause for -/
  | for_ {l n pre c p b s x s1 m i s0} :
      evalExpr prog n pre s = .ok x s1 →
      Leads l n (.forL c p b) s1 m i s0 → Leads l (n + 1) (.stmt (.for_ pre c p b)) s m i s0
  | forBody {l n c p b s cell s1 m i s0} :
      evalExpr prog n c s = .ok cell s1 → (s1.heap.get cell).truthy = true →
      Leads l n (.stmt b) s1 m i s0 → Leads true (n + 1) (.forL c p b) s m i s0
  | forNext {l n c p b s cell s1 s2 y s3 m i s0} :
      evalExpr prog n c s = .ok cell s1 → (s1.heap.get cell).truthy = true →
      GoesOn (evalStmt prog n b s1) s2 → evalExpr prog n p s2 = .ok y s3 →
      Leads l n (.forL c p b) s3 m i s0 → Leads l (n + 1) (.forL c p b) s m i s0
  /- for-in -/
  | forIn {l n id idx iter b s hd s1 m i s0} :
      forInHeader (evalExpr prog n) id idx iter s = .ok hd s1 →
      Leads l n (.forInL hd.1 hd.2.1 b hd.2.2) s1 m i s0 →
      Leads l (n + 1) (.stmt (.forIn id idx iter b)) s m i s0
  | forInBody {l n loc il b it rest s s1 m i s0} :
      bindRaw loc il it s = .ok () s1 →
      Leads l n (.stmt b) s1 m i s0 → Leads true (n + 1) (.forInL loc il b (it :: rest)) s m i s0
  | forInNext {l n loc il b it rest s s1 s2 m i s0} :
      bindRaw loc il it s = .ok () s1 → GoesOn (evalStmt prog n b s1) s2 →
      Leads l n (.forInL loc il b rest) s2 m i s0 →
      Leads l (n + 1) (.forInL loc il b (it :: rest)) s m i s0
  /- a `match` used as a statement -/
  | matchStmt {l n t v cs s value s1 m i s0} :
      evalExpr prog n v s = .ok value s1 →
      Leads l n (.cases t.pos value cs) s1 m i s0 →
      Leads l (n + 2) (.stmt (.expr (.match_ t v cs))) s m i s0
  | caseSkip {l n pos value pats body rest s s1 m i s0} :
      evalCaseMatch prog n value pats s = .ok none s1 →
      Leads l n (.cases pos value rest) s1 m i s0 →
      Leads l (n + 1) (.cases pos value (.mk pats body :: rest)) s m i s0
  | caseBody {l n pos value pats body rest s bindings s1 s2 s3 m i s0} :
      evalCaseMatch prog n value pats s = .ok (some bindings) s1 →
      pushFrame b!"<match>" s1 = .ok (.ok ()) s2 → bindAll bindings s2 = .ok () s3 →
      (∀ be, body ≠ .expr be) →
      Leads l n (.stmt body) s3 m i s0 →
      Leads l (n + 1) (.cases pos value (.mk pats body :: rest)) s m i s0

/-- `break` / `continue` are only passed on if no loop boundary was crossed -/
def Passes (l : Bool) (e : Err) : Prop := l = true → e ≠ .sig .brk ∧ e ≠ .sig .cont

theorem loopIter_err (body k : EM Unit) (s s1 : St) (e : Err) (h : body s = .err e s1)
    (hb : e ≠ .sig .brk) (hc : e ≠ .sig .cont) : loopIter body k s = .err e s1 := by
  unfold loopIter
  rw [h]
  cases e with
  | sig g => cases g <;> simp_all
  | _ => rfl

theorem loopIter_goesOn (body k : EM Unit) (s s2 : St) (h : GoesOn (body s) s2) :
    loopIter body k s = k s2 := by
  unfold loopIter
  rcases h with h | h <;> rw [h]

/-- **Propagation**: if `t` leads to `inner` and `inner` ends with the error or signal `e`
    (which, once a loop boundary lies in between, is not `break` / `continue`), then `t` ends
    with `e`, in the state `inner` ended in up to the frame stack. -/
theorem leads_propagates {l : Bool} {n : Nat} {t : Task} {s : St} {m : Nat} {inner : Stmt} {s0 : St}
    (h : Leads prog l n t s m inner s0) (e : Err) (s1 : St)
    (he : evalStmt prog m inner s0 = .err e s1) (hp : Passes l e) :
    ∃ fr, t.run prog n s = .err e { s1 with frames := fr } := by
  induction h with
  | here => exact ⟨s1.frames, he⟩
  | block _ ih =>
    obtain ⟨fr, h1⟩ := ih he hp
    exact ⟨fr, by simp only [Task.run] at h1 ⊢; unfold evalStmt; exact h1⟩
  | blockHead _ ih =>
    obtain ⟨fr, h1⟩ := ih he hp
    refine ⟨fr, ?_⟩
    simp only [Task.run] at h1 ⊢
    unfold evalBlock
    simp only [bind, EM.bind, h1]
  | blockTail h0 _ ih =>
    obtain ⟨fr, h1⟩ := ih he hp
    refine ⟨fr, ?_⟩
    simp only [Task.run] at h1 ⊢
    unfold evalBlock
    simp only [bind, EM.bind, h0, h1]
  | ifThen hc ht _ ih =>
    obtain ⟨fr, h1⟩ := ih he hp
    refine ⟨fr, ?_⟩
    simp only [Task.run] at h1 ⊢
    unfold evalStmt
    simp only [bind, EM.bind, hc, readCell, ht, ↓reduceIte, h1]
  | ifElse hc ht _ ih =>
    obtain ⟨fr, h1⟩ := ih he hp
    refine ⟨fr, ?_⟩
    simp only [Task.run] at h1 ⊢
    unfold evalStmt
    simp only [bind, EM.bind, hc, readCell, ht, Bool.false_eq_true, ↓reduceIte, h1]
  | while_ _ ih =>
    obtain ⟨fr, h1⟩ := ih he hp
    exact ⟨fr, by simp only [Task.run] at h1 ⊢; unfold evalStmt; exact h1⟩
  | whileBody hc ht _ ih =>
    have hp' : Passes true e := hp
    obtain ⟨fr, h1⟩ := ih he (fun _ => hp rfl)
    refine ⟨fr, ?_⟩
    simp only [Task.run] at h1 ⊢
    unfold whileLoop
    simp only [bind, EM.bind, hc, readCell, ht, ↓reduceIte]
    exact loopIter_err _ _ _ _ _ h1 (hp' rfl).1 (hp' rfl).2
  | whileNext hc ht hg _ ih =>
    obtain ⟨fr, h1⟩ := ih he hp
    refine ⟨fr, ?_⟩
    simp only [Task.run] at h1 ⊢
    unfold whileLoop
    simp only [bind, EM.bind, hc, readCell, ht, ↓reduceIte]
    rw [loopIter_goesOn _ _ _ _ hg]; exact h1
  | for_ hpre _ ih =>
    obtain ⟨fr, h1⟩ := ih he hp
    refine ⟨fr, ?_⟩
    simp only [Task.run] at h1 ⊢
    unfold evalStmt
    simp only [bind, EM.bind, hpre, h1]
  | forBody hc ht _ ih =>
    have hp' : Passes true e := hp
    obtain ⟨fr, h1⟩ := ih he (fun _ => hp rfl)
    refine ⟨fr, ?_⟩
    simp only [Task.run] at h1 ⊢
    unfold forLoop
    simp only [bind, EM.bind, hc, readCell, ht, ↓reduceIte]
    exact loopIter_err _ _ _ _ _ h1 (hp' rfl).1 (hp' rfl).2
  | forNext hc ht hg hpost _ ih =>
    obtain ⟨fr, h1⟩ := ih he hp
    refine ⟨fr, ?_⟩
    simp only [Task.run] at h1 ⊢
    unfold forLoop
    simp only [bind, EM.bind, hc, readCell, ht, ↓reduceIte]
    rw [loopIter_goesOn _ _ _ _ hg]
    simp only [EM.bind, hpost, h1]
  | forIn hh _ ih =>
    obtain ⟨fr, h1⟩ := ih he hp
    refine ⟨fr, ?_⟩
    simp only [Task.run] at h1 ⊢
    rw [evalStmt_forIn]
    simp only [bind, EM.bind, hh, h1]
  | forInBody hb _ ih =>
    have hp' : Passes true e := hp
    obtain ⟨fr, h1⟩ := ih he (fun _ => hp rfl)
    refine ⟨fr, ?_⟩
    simp only [Task.run] at h1 ⊢
    rw [forInLoop_succ_cons]
    simp only [bind, EM.bind, hb]
    exact loopIter_err _ _ _ _ _ h1 (hp' rfl).1 (hp' rfl).2
  | forInNext hb hg _ ih =>
    obtain ⟨fr, h1⟩ := ih he hp
    refine ⟨fr, ?_⟩
    simp only [Task.run] at h1 ⊢
    rw [forInLoop_succ_cons]
    simp only [bind, EM.bind, hb]
    rw [loopIter_goesOn _ _ _ _ hg]; exact h1
  | matchStmt hv _ ih =>
    obtain ⟨fr, h1⟩ := ih he hp
    refine ⟨fr, ?_⟩
    simp only [Task.run, effectOnly, bind, EM.bind] at h1 ⊢
    unfold evalStmt
    simp only [bind, EM.bind]
    unfold evalExpr
    simp only [bind, EM.bind, hv]
    split at h1
    · cases h1
    · rename_i e' s' heq
      first | exact h1 | (rw [heq]; exact h1)
    · cases h1
  | caseSkip hm _ ih =>
    obtain ⟨fr, h1⟩ := ih he hp
    refine ⟨fr, ?_⟩
    simp only [Task.run, effectOnly, bind, EM.bind] at h1 ⊢
    unfold evalMatchCases
    simp only [bind, EM.bind, hm]
    exact h1
  | @caseBody l n pos value pats body rest s bindings s1' s2 s3 m i s0 hm hpush hbind hne _ ih =>
    obtain ⟨fr, h1⟩ := ih he hp
    refine ⟨s1'.frames, ?_⟩
    simp only [Task.run, effectOnly, bind, EM.bind] at h1 ⊢
    unfold evalMatchCases
    simp only [bind, EM.bind, hm, getSt, hpush, withFrames, hbind]
    cases body with
    | expr be => exact absurd rfl (hne be)
    | _ => simp only [bind, EM.bind, h1]

end Jqawk.Spec
