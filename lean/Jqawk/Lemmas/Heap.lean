/-
  Lemmas for C15/C16: heap well-formedness, the abstraction of an array as a list of values,
  closed forms of the array natives and of cell allocation.
-/
import Jqawk.Model.Natives
import Jqawk.Spec.ListArr
set_option linter.unusedSimpArgs false

namespace Jqawk
open Jqawk

/-- the list of values an array denotes -/
def absArr (h : Heap) (a : ArrId) : List Val := (h.arr a).toList.map h.get

/-- every cell id stored in an array or an object is an allocated cell -/
structure Heap.WF (h : Heap) : Prop where
  arrs : ∀ (a : ArrId) (c : CellId), c ∈ (h.arr a).toList → c < h.cells.size
  objs : ∀ (o : ObjId) (k : Bytes) (c : CellId), (k, c) ∈ h.obj o → c < h.cells.size

theorem Heap.WF.empty : Heap.empty.WF := by
  constructor <;> simp [Heap.empty, Heap.arr, Heap.obj]

/-! ### basic heap algebra -/

theorem Heap.get_push_old (h : Heap) (v : Val) (c : CellId) (hc : c < h.cells.size) :
    ({ h with cells := h.cells.push v } : Heap).get c = h.get c := by
  have : c ≠ h.cells.size := Nat.ne_of_lt hc
  simp [Heap.get, Array.getD_eq_getD_getElem?, Array.getElem?_push, this]

theorem Heap.get_push_new (h : Heap) (v : Val) :
    ({ h with cells := h.cells.push v } : Heap).get h.cells.size = v := by
  simp [Heap.get, Array.getD_eq_getD_getElem?, Array.getElem?_push]

theorem Heap.arr_setArr_same (h : Heap) (a : ArrId) (items : Array CellId) (ha : a < h.arrs.size) :
    (h.setArr a items).arr a = items := by
  simp [Heap.arr, Heap.setArr, Array.getD_eq_getD_getElem?, Array.getElem?_setIfInBounds, ha]

theorem Heap.arr_setArr_other (h : Heap) (a b : ArrId) (items : Array CellId) (hb : b ≠ a) :
    (h.setArr a items).arr b = h.arr b := by
  simp [Heap.arr, Heap.setArr, Array.getD_eq_getD_getElem?, Array.getElem?_setIfInBounds, Ne.symm hb]

theorem Heap.get_setArr (h : Heap) (a : ArrId) (items : Array CellId) (c : CellId) :
    (h.setArr a items).get c = h.get c := rfl

theorem Heap.get_setArr_fun (h : Heap) (a : ArrId) (items : Array CellId) :
    (h.setArr a items).get = h.get := rfl

theorem Heap.obj_setArr (h : Heap) (a : ArrId) (items : Array CellId) (o : ObjId) :
    (h.setArr a items).obj o = h.obj o := rfl

/-- replacing an array by cells that are all allocated keeps the heap well-formed -/
theorem Heap.WF.setArr {h : Heap} (wf : h.WF) (a : ArrId) (items : Array CellId)
    (hi : ∀ c ∈ items.toList, c < h.cells.size) : (h.setArr a items).WF := by
  constructor
  · intro b c hc
    by_cases hb : b = a
    · subst hb
      by_cases ha : b < h.arrs.size
      · rw [Heap.arr_setArr_same h b items ha] at hc; exact hi c hc
      · have : (h.setArr b items).arr b = #[] := by
          simp [Heap.arr, Heap.setArr, Array.getD_eq_getD_getElem?, Array.getElem?_setIfInBounds, ha]
        rw [this] at hc; simp at hc
    · rw [Heap.arr_setArr_other h a b items hb] at hc; exact wf.arrs b c hc
  · exact wf.objs

theorem absArr_setArr_other (h : Heap) (a b : ArrId) (items : Array CellId) (hb : b ≠ a) :
    absArr (h.setArr a items) b = absArr h b := by
  simp only [absArr, Heap.arr_setArr_other h a b items hb]; rfl

/-! ### push -/

/-- the heap after `a.push(v)` -/
def pushHeap (h : Heap) (a : ArrId) (v : Val) : Heap :=
  { cells := h.cells.push v, arrs := h.arrs.setIfInBounds a ((h.arr a).push h.cells.size), objs := h.objs }

theorem callNative_arrPush (a : ArrId) (v : Val) (s : St) :
    callNative .arrPush [v] (some (.arr a)) s
      = .ok (.ok (some (.arr a))) { s with heap := pushHeap s.heap a v } := by
  simp [callNative, bind, EM.bind, getHeap, checkArgCount, newCell, Heap.alloc, setHeap, pure, EM.pure,
    pushHeap, Heap.setArr, Heap.arr]

theorem pushHeap_eq (h : Heap) (a : ArrId) (v : Val) :
    pushHeap h a v = ({ h with cells := h.cells.push v } : Heap).setArr a ((h.arr a).push h.cells.size) := rfl

theorem map_get_push_old (h : Heap) (v : Val) (cs : List CellId) (hcs : ∀ c ∈ cs, c < h.cells.size) :
    cs.map ({ h with cells := h.cells.push v } : Heap).get = cs.map h.get := by
  apply List.map_congr_left
  intro c hc
  exact Heap.get_push_old h v c (hcs c hc)

theorem absArr_pushHeap_same (h : Heap) (wf : h.WF) (a : ArrId) (v : Val) (ha : a < h.arrs.size) :
    absArr (pushHeap h a v) a = absArr h a ++ [v] := by
  rw [pushHeap_eq]
  simp only [absArr]
  rw [Heap.arr_setArr_same _ _ _ (by simpa using ha)]
  simp only [Array.toList_push, List.map_append, List.map_cons, List.map_nil, Heap.get_setArr,
    Heap.get_setArr_fun]
  rw [Heap.get_push_new, map_get_push_old h v _ (wf.arrs a)]

theorem absArr_pushHeap_other (h : Heap) (wf : h.WF) (a b : ArrId) (v : Val) (hb : b ≠ a) :
    absArr (pushHeap h a v) b = absArr h b := by
  rw [pushHeap_eq, absArr_setArr_other _ _ _ _ hb]
  simp only [absArr]
  exact map_get_push_old h v _ (wf.arrs b)

theorem Heap.WF.pushHeap {h : Heap} (wf : h.WF) (a : ArrId) (v : Val) : (pushHeap h a v).WF := by
  rw [pushHeap_eq]
  have wf1 : ({ h with cells := h.cells.push v } : Heap).WF := by
    constructor
    · intro b c hc
      have := wf.arrs b c hc
      show c < (h.cells.push v).size
      simp only [Array.size_push]; exact Nat.lt_succ_of_lt this
    · intro o k c hc
      have := wf.objs o k c hc
      show c < (h.cells.push v).size
      simp only [Array.size_push]; exact Nat.lt_succ_of_lt this
  apply wf1.setArr
  intro c hc
  simp only [Array.toList_push, List.mem_append, List.mem_singleton] at hc
  show c < (h.cells.push v).size
  simp only [Array.size_push]
  rcases hc with hc | rfl
  · exact Nat.lt_succ_of_lt (wf.arrs a c hc)
  · exact Nat.lt_succ_self _

theorem pushHeap_arrs_size (h : Heap) (a : ArrId) (v : Val) : (pushHeap h a v).arrs.size = h.arrs.size := by
  simp [pushHeap]

/-! ### pop and popfirst -/

theorem callNative_arrPop (a : ArrId) (s : St) :
    callNative .arrPop [] (some (.arr a)) s =
      if (s.heap.arr a).size = 0 then .ok (.ok (some (.nil none))) s
      else .ok (.ok (some (s.heap.get ((s.heap.arr a).getD ((s.heap.arr a).size - 1) 0))))
        { s with heap := s.heap.setArr a (s.heap.arr a).pop } := by
  simp only [callNative, bind, EM.bind, getHeap, checkArgCount, List.length_nil, beq_self_eq_true, ↓reduceIte]
  split <;> simp_all [pure, EM.pure, setHeap, EM.bind]

theorem callNative_arrPopfirst (a : ArrId) (s : St) :
    callNative .arrPopfirst [] (some (.arr a)) s =
      if (s.heap.arr a).size = 0 then .ok (.ok (some (.nil none))) s
      else .ok (.ok (some (s.heap.get ((s.heap.arr a).getD 0 0))))
        { s with heap := s.heap.setArr a ((s.heap.arr a).extract 1 (s.heap.arr a).size) } := by
  simp only [callNative, bind, EM.bind, getHeap, checkArgCount, List.length_nil, beq_self_eq_true, ↓reduceIte]
  split <;> simp_all [pure, EM.pure, setHeap, EM.bind]

theorem absArr_pop (h : Heap) (a : ArrId) (ha : a < h.arrs.size) :
    absArr (h.setArr a (h.arr a).pop) a = (absArr h a).dropLast := by
  simp only [absArr, Heap.arr_setArr_same h a _ ha, Array.toList_pop, Heap.get_setArr_fun]
  simp [List.map_dropLast]

theorem absArr_last (h : Heap) (a : ArrId) (hne : (h.arr a).size ≠ 0) :
    (absArr h a).getLast? = some (h.get ((h.arr a).getD ((h.arr a).size - 1) 0)) := by
  simp only [absArr, List.getLast?_eq_getElem?, List.length_map, Array.length_toList, List.getElem?_map,
    Array.getElem?_toList, Array.getD_eq_getD_getElem?]
  have : (h.arr a).size - 1 < (h.arr a).size := by omega
  simp [this]

theorem absArr_popfirst (h : Heap) (a : ArrId) (ha : a < h.arrs.size) :
    absArr (h.setArr a ((h.arr a).extract 1 (h.arr a).size)) a = (absArr h a).drop 1 := by
  simp only [absArr, Heap.arr_setArr_same h a _ ha, Array.toList_extract, Heap.get_setArr_fun]
  simp only [List.extract, Nat.add_one_sub_one, List.map_take, List.map_drop]
  rw [List.take_of_length_le (by simp)]

theorem absArr_head (h : Heap) (a : ArrId) (hne : (h.arr a).size ≠ 0) :
    (absArr h a).head? = some (h.get ((h.arr a).getD 0 0)) := by
  simp only [absArr, List.head?_eq_getElem?, List.getElem?_map, Array.getElem?_toList,
    Array.getD_eq_getD_getElem?]
  have : 0 < (h.arr a).size := by omega
  simp [this]

theorem absArr_eq_nil (h : Heap) (a : ArrId) (he : (h.arr a).size = 0) : absArr h a = [] := by
  simp [absArr, Array.eq_empty_of_size_eq_zero he]

theorem Heap.WF.pop {h : Heap} (wf : h.WF) (a : ArrId) : (h.setArr a (h.arr a).pop).WF := by
  apply wf.setArr
  intro c hc
  rw [Array.toList_pop] at hc
  exact wf.arrs a c (List.dropLast_subset _ hc)

theorem Heap.WF.popfirst {h : Heap} (wf : h.WF) (a : ArrId) :
    (h.setArr a ((h.arr a).extract 1 (h.arr a).size)).WF := by
  apply wf.setArr
  intro c hc
  rw [Array.toList_extract] at hc
  simp only [List.extract] at hc
  exact wf.arrs a c (List.mem_of_mem_drop (List.mem_of_mem_take hc))

/-! ### allocation of several cells -/

/-- the heap after allocating fresh cells for `vs` -/
def Heap.allocMany (h : Heap) (vs : List Val) : Heap := { h with cells := h.cells ++ vs.toArray }

theorem allocCells_eq (vs : List Val) (s : St) :
    allocCells vs s = .ok (List.range' s.heap.cells.size vs.length)
      { s with heap := s.heap.allocMany vs } := by
  induction vs generalizing s with
  | nil => simp [allocCells, pure, EM.pure, Heap.allocMany]
  | cons v vs ih =>
    simp only [allocCells, bind, EM.bind, newCell, Heap.alloc, ih, pure, EM.pure, List.length_cons,
      List.range'_succ, Array.size_push]
    congr 2
    simp only [Heap.allocMany]
    congr 1
    apply Array.toList_inj.mp
    simp

theorem newArrayOf_eq (vs : List Val) (s : St) :
    newArrayOf vs s = .ok (.arr s.heap.arrs.size)
      { s with heap := { s.heap.allocMany vs with
          arrs := s.heap.arrs.push (List.range' s.heap.cells.size vs.length).toArray } } := by
  simp [newArrayOf, bind, EM.bind, allocCells_eq, getHeap, Heap.allocArr, setHeap, pure, EM.pure,
    Heap.allocMany]

theorem Heap.get_allocMany_old (h : Heap) (vs : List Val) (c : CellId) (hc : c < h.cells.size) :
    (h.allocMany vs).get c = h.get c := by
  simp [Heap.get, Heap.allocMany, Array.getD_eq_getD_getElem?, Array.getElem?_append, hc]

theorem Heap.get_allocMany_new (h : Heap) (vs : List Val) (i : Nat) (hi : i < vs.length) :
    (h.allocMany vs).get (h.cells.size + i) = vs[i] := by
  simp [Heap.get, Heap.allocMany, Array.getD_eq_getD_getElem?, Array.getElem?_append, hi]

theorem Heap.map_get_allocMany (h : Heap) (vs : List Val) :
    (List.range' h.cells.size vs.length).map (h.allocMany vs).get = vs := by
  apply List.ext_getElem
  · simp
  · intro i h1 h2
    simp only [List.getElem_map, List.getElem_range', Nat.one_mul]
    exact Heap.get_allocMany_new h vs i h2

/-! ### pluck -/

/-- the value `pluck` selects for a key: the own member or null -/
def pluckVal (h : Heap) (members : List (Bytes × CellId)) (key : Bytes) : Val :=
  match objLookup members key with
  | some c => h.get c
  | none => .nil none

def isKeyVal : Val → Bool
  | .num _ | .str .. => true
  | _ => false

theorem pluckCollect_eq (h : Heap) (members : List (Bytes × CellId)) (ks : List Val)
    (acc : List (Bytes × Val)) :
    pluckCollect h members ks acc =
      if ks.all isKeyVal then .ok (acc.reverse ++ ks.map fun k => (k.str!, pluckVal h members k.str!))
      else .error "objects can only be indexed with numbers or strings" := by
  induction ks generalizing acc with
  | nil => simp [pluckCollect]
  | cons k ks ih =>
    have key : ∀ (k : Val), isKeyVal k = true →
        (match objLookup members k.str! with
          | some c => pluckCollect h members ks ((k.str!, h.get c) :: acc)
          | none => pluckCollect h members ks ((k.str!, .nil none) :: acc)) =
        if (ks.all isKeyVal) = true then
          .ok (acc.reverse ++ (k.str!, pluckVal h members k.str!) :: ks.map fun k => (k.str!, pluckVal h members k.str!))
        else .error "objects can only be indexed with numbers or strings" := by
      intro k _
      cases hl : objLookup members k.str! with
      | none =>
        have hv : pluckVal h members k.str! = .nil none := by simp only [pluckVal, hl]
        rw [hv]; simp only [ih]; split <;> simp
      | some c =>
        have hv : pluckVal h members k.str! = h.get c := by simp only [pluckVal, hl]
        rw [hv]; simp only [ih]; split <;> simp
    cases k
    case str s sp =>
      rw [pluckCollect]
      simp only [List.all_cons, show isKeyVal (.str s sp) = true from rfl, Bool.true_and, List.map_cons]
      exact key _ rfl
    case num x =>
      rw [pluckCollect]
      simp only [List.all_cons, show isKeyVal (.num x) = true from rfl, Bool.true_and, List.map_cons]
      exact key _ rfl
    all_goals simp [pluckCollect, isKeyVal]

theorem objLookup_objInsert (m : List (Bytes × CellId)) (k : Bytes) (c : CellId) (k' : Bytes) :
    objLookup (objInsert m k c) k' = if k = k' then some c else objLookup m k' := by
  induction m with
  | nil => simp [objInsert, objLookup]
  | cons x m ih =>
    obtain ⟨k0, c0⟩ := x
    simp only [objInsert]
    by_cases h0 : k0 = k
    · subst h0
      simp only [beq_self_eq_true, ↓reduceIte, objLookup, beq_iff_eq]
      split <;> rfl
    · have : (k0 == k) = false := by simpa using h0
      simp only [this, Bool.false_eq_true, ↓reduceIte, objLookup, beq_iff_eq, ih]
      by_cases h1 : k0 = k'
      · have : k ≠ k' := fun e => h0 (h1.trans e.symm)
        simp [h1, this]
      · simp [h1]

/-- the member list `pluck` builds -/
def pluckMembers (kcs : List (Bytes × CellId)) (m0 : List (Bytes × CellId)) : List (Bytes × CellId) :=
  kcs.foldl (fun m kc => objInsert m kc.1 kc.2) m0

theorem objLookup_pluckMembers_inv (P : Bytes → CellId → Prop) (kcs m0 : List (Bytes × CellId))
    (h0 : ∀ k c, objLookup m0 k = some c → P k c) (hk : ∀ kc ∈ kcs, P kc.1 kc.2) :
    ∀ k c, objLookup (pluckMembers kcs m0) k = some c → P k c := by
  induction kcs generalizing m0 with
  | nil => exact h0
  | cons kc kcs ih =>
    simp only [pluckMembers, List.foldl_cons]
    apply ih
    · intro k c hl
      rw [objLookup_objInsert] at hl
      split at hl
      · rename_i he; cases hl; subst he; exact hk kc List.mem_cons_self
      · exact h0 k c hl
    · exact fun x hx => hk x (List.mem_cons_of_mem _ hx)

theorem objLookup_pluckMembers_isSome (kcs m0 : List (Bytes × CellId)) (k : Bytes)
    (h : (∃ c, (k, c) ∈ kcs) ∨ (objLookup m0 k).isSome = true) :
    (objLookup (pluckMembers kcs m0) k).isSome = true := by
  induction kcs generalizing m0 with
  | nil => simpa [pluckMembers] using h
  | cons kc kcs ih =>
    simp only [pluckMembers, List.foldl_cons]
    apply ih
    rcases h with ⟨c, hc⟩ | h
    · rcases List.mem_cons.mp hc with rfl | hc
      · right; simp [objLookup_objInsert]
      · exact .inl ⟨c, hc⟩
    · right; rw [objLookup_objInsert]; split <;> simp [h]

theorem callNative_objPluck (o : ObjId) (args : List Val) (s : St) :
    callNative .objPluck args (some (.obj o)) s =
      match pluckCollect s.heap (s.heap.obj o) args [] with
      | .error m => .ok (.error m) s
      | .ok kvs => .ok (.ok (some (.obj s.heap.objs.size)))
          { s with heap := { s.heap.allocMany (kvs.map (·.2)) with
              objs := s.heap.objs.push
                (pluckMembers ((kvs.map (·.1)).zip (List.range' s.heap.cells.size kvs.length)) []) } } := by
  simp only [callNative, bind, EM.bind, getHeap]
  cases pluckCollect s.heap (s.heap.obj o) args [] with
  | error m => rfl
  | ok kvs =>
    simp [allocCells_eq, EM.bind, getHeap, Heap.allocObj, setHeap, pure, EM.pure, pluckMembers, Heap.allocMany]

end Jqawk
