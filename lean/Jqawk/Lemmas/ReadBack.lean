/-
  Read-after-write for assignments to paths (C09): after `l = r` succeeded, evaluating the path
  `l` again yields the cell that now holds the copy of the stored value — for every depth and
  every mix of existing and missing levels.

  Layers: (1) `getMember` after `setMember`; heaps whose containers only grow (`ContExt`);
  (2) the postcondition `Linked` of `createSpeculative` (induction on fuel along the chain of
  stand-in cells, as `createSpeculative_frame`); (3) the effect of the whole assignment (`Eff`);
  (4) the first evaluation of a path, described on the heap (`PathAt`); (5) the re-evaluation.
-/
import Jqawk.Lemmas.AssignChain

set_option linter.unusedVariables false
set_option linter.unusedSimpArgs false

namespace Jqawk

/-! ## paths -/

/-- the value a literal key of a path evaluates to: a member name / string index (`.name`,
    `["name"]`) or a number index that is not negative (the lexer never produces a signed
    number; `a[-1]` is a unary minus applied to a literal and is not a path) -/
def litKey (t : Token) : Option Val :=
  match t.tag with
  | .str | .ident =>
    match evalStringLit t.text with
    | .ok s => some (.str s none)
    | .error _ => none
  | .num =>
    match F64.parse t.text with
    | some x => if 0 ≤ x.toGoInt then some (.num x) else none
    | none => none
  | _ => none

/-- a path: an identifier or `$`, followed by literal member names and literal string / number
    indices -/
def Expr.isPath : Expr → Bool
  | .ident _ => true
  | .binary l (.lit t) op => (op.tag == .dot || op.tag == .lsquare) && (litKey t).isSome && l.isPath
  | _ => false

/-- the fuel a path needs -/
def Expr.pathFuel : Expr → Nat
  | .binary l _ _ => l.pathFuel + 2
  | _ => 1

/-- the key a member step remembers in a stand-in for a missing member -/
def keyOf (rv : Val) : Key :=
  match rv with
  | .num x => .num x
  | _ => .str rv.str!

/-- the values literal keys evaluate to -/
def IsKeyVal (kv : Val) : Prop := (∃ s, kv = .str s none) ∨ (∃ x, kv = .num x ∧ 0 ≤ x.toGoInt)

theorem litKey_isKeyVal {t : Token} {kv : Val} (h : litKey t = some kv) : IsKeyVal kv := by
  unfold litKey at h
  repeat' split at h
  all_goals first
    | (cases h; exact .inl ⟨_, rfl⟩)
    | (cases h; exact .inr ⟨_, rfl, by assumption⟩)
    | cases h

theorem keyOf_val {kv : Val} (h : IsKeyVal kv) : (keyOf kv).val = kv := by
  rcases h with ⟨s, rfl⟩ | ⟨x, rfl, _⟩ <;> rfl

/-- the value is an array or an object -/
def Val.isCont : Val → Bool
  | .arr _ => true
  | .obj _ => true
  | _ => false

/-- the container id of the value (if any) is allocated -/
def Val.contOK (h : Heap) : Val → Bool
  | .arr a => decide (a < h.arrs.size)
  | .obj o => decide (o < h.objs.size)
  | _ => true

/-! ## `getMember` -/

theorem protoGet_not_cell (tbl : Bytes → Option Native) (kv : Val) (c : CellId) :
    protoGet tbl kv ≠ .ok (.cell c) := by
  unfold protoGet
  intro h
  repeat' split at h
  all_goals cases h

/-- `getMember` looks at the heap only through the container the value refers to -/
theorem getMember_congr (h h' : Heap) (v kv : Val)
    (ha : ∀ a, v = .arr a → h'.arr a = h.arr a) (ho : ∀ o, v = .obj o → h'.obj o = h.obj o) :
    getMember h' v kv = getMember h v kv := by
  cases v with
  | arr a => simp only [getMember, ha a rfl]
  | obj o => simp only [getMember, ho o rfl]
  | _ => rfl

/-- only arrays and objects have member cells, and then the container is allocated -/
theorem getMember_cell_cont (h : Heap) (v kv : Val) (c : CellId)
    (hg : getMember h v kv = .ok (.cell c)) : v.isCont = true ∧ v.contOK h = true := by
  cases v with
  | arr a =>
    refine ⟨rfl, ?_⟩
    cases kv with
    | num x =>
      simp only [getMember] at hg
      split at hg
      · cases hg
      · rename_i i _
        split at hg
        · rename_i hlt
          simp only [Val.contOK, decide_eq_true_eq]
          apply Classical.byContradiction
          intro hna
          have : h.arr a = #[] := by
            simp only [Heap.arr, Array.getD_eq_getD_getElem?]
            rw [Array.getElem?_eq_none (Nat.le_of_not_lt hna)]; rfl
          rw [this] at hlt
          exact absurd hlt (Nat.not_lt_zero _)
        · cases hg
    | _ => simp only [getMember] at hg; exact absurd hg (protoGet_not_cell _ _ _)
  | obj o =>
    refine ⟨rfl, ?_⟩
    have key : ∀ k, objLookup (h.obj o) k = some c → o < h.objs.size := by
      intro k hl
      apply Classical.byContradiction
      intro hno
      have : h.obj o = [] := by
        simp only [Heap.obj, Array.getD_eq_getD_getElem?]
        rw [Array.getElem?_eq_none (Nat.le_of_not_lt hno)]; rfl
      rw [this] at hl
      cases hl
    simp only [Val.contOK, decide_eq_true_eq]
    cases kv with
    | num x =>
      simp only [getMember] at hg
      split at hg
      · rename_i c' hl; cases hg; exact key _ hl
      · exact absurd hg (protoGet_not_cell _ _ _)
    | str s sp =>
      simp only [getMember] at hg
      split at hg
      · rename_i c' hl; cases hg; exact key _ hl
      · exact absurd hg (protoGet_not_cell _ _ _)
    | _ => simp only [getMember] at hg; cases hg
  | str s sp =>
    cases kv with
    | num x => simp only [getMember] at hg; split at hg <;> cases hg
    | _ => simp only [getMember] at hg; exact absurd hg (protoGet_not_cell _ _ _)
  | num x => simp only [getMember] at hg; exact absurd hg (protoGet_not_cell _ _ _)
  | _ => simp only [getMember] at hg; cases hg

/-- the containers of `h'` extend those of `h`: every member of an object is still that member,
    every element of an array is still that element (arrays may have grown at the end, objects
    may have gained keys) -/
structure ContExt (h h' : Heap) : Prop where
  obj : ∀ o k x, objLookup (h.obj o) k = some x → objLookup (h'.obj o) k = some x
  arr : ∀ a i, i < (h.arr a).size → i < (h'.arr a).size ∧ (h'.arr a).getD i 0 = (h.arr a).getD i 0

theorem ContExt.refl (h : Heap) : ContExt h h := ⟨fun _ _ _ e => e, fun _ _ e => ⟨e, rfl⟩⟩

theorem ContExt.trans {a b c : Heap} (h1 : ContExt a b) (h2 : ContExt b c) : ContExt a c :=
  ⟨fun o k x e => h2.obj o k x (h1.obj o k x e),
   fun x i e => ⟨(h2.arr x i (h1.arr x i e).1).1, by rw [(h2.arr x i (h1.arr x i e).1).2, (h1.arr x i e).2]⟩⟩

theorem Heap.arr_empty_of_invalid (h : Heap) (a : ArrId) (ha : ¬ a < h.arrs.size) : h.arr a = #[] := by
  simp only [Heap.arr, Array.getD_eq_getD_getElem?]
  rw [Array.getElem?_eq_none (Nat.le_of_not_lt ha)]; rfl

theorem Heap.obj_empty_of_invalid (h : Heap) (o : ObjId) (ho : ¬ o < h.objs.size) : h.obj o = [] := by
  simp only [Heap.obj, Array.getD_eq_getD_getElem?]
  rw [Array.getElem?_eq_none (Nat.le_of_not_lt ho)]; rfl

/-- same containers (where they are allocated) -/
theorem ContExt.of_eq {h h' : Heap} (ha : ∀ a, a < h.arrs.size → h'.arr a = h.arr a)
    (ho : ∀ o, o < h.objs.size → h'.obj o = h.obj o) : ContExt h h' := by
  constructor
  · intro o k x e
    by_cases hv : o < h.objs.size
    · rw [ho o hv]; exact e
    · rw [Heap.obj_empty_of_invalid h o hv] at e; cases e
  · intro a i e
    by_cases hv : a < h.arrs.size
    · rw [ha a hv]; exact ⟨e, rfl⟩
    · rw [Heap.arr_empty_of_invalid h a hv] at e; exact absurd e (Nat.not_lt_zero _)

theorem ContExt.of_preserved {h h' : Heap} (p : HeapPreserved h h') : ContExt h h' :=
  ContExt.of_eq p.arr p.obj

/-- writing a cell does not touch any container -/
theorem ContExt.set (h : Heap) (c : CellId) (v : Val) : ContExt h (h.set c v) :=
  ⟨fun _ _ _ e => e, fun _ _ e => ⟨e, rfl⟩⟩

theorem resolveIndex_nonneg (len : Nat) (i : Int) (h : 0 ≤ i) : resolveIndex len i = some i.toNat := by
  have : ¬ i < 0 := by omega
  simp [resolveIndex, this]

/-- a member cell found with a literal key is found again after the containers have grown -/
theorem getMember_cell_ext {h h' : Heap} (e : ContExt h h') (v kv : Val) (x : CellId)
    (hk : IsKeyVal kv) (hg : getMember h v kv = .ok (.cell x)) : getMember h' v kv = .ok (.cell x) := by
  cases v with
  | arr a =>
    rcases hk with ⟨s, rfl⟩ | ⟨y, rfl, hy⟩
    · simp only [getMember] at hg; exact absurd hg (protoGet_not_cell _ _ _)
    · simp only [getMember, resolveIndex_nonneg _ _ hy] at hg ⊢
      by_cases hlt : y.toGoInt.toNat < (h.arr a).size
      · rw [if_pos hlt] at hg
        obtain ⟨h1, h2⟩ := e.arr a _ hlt
        rw [if_pos h1, h2]
        exact hg
      · rw [if_neg hlt] at hg; cases hg
  | obj o =>
    rcases hk with ⟨s, rfl⟩ | ⟨y, rfl, hy⟩
    · simp only [getMember] at hg ⊢
      split at hg
      · rename_i c' hl; rw [e.obj o _ _ hl]; exact hg
      · exact absurd hg (protoGet_not_cell _ _ _)
    · simp only [getMember] at hg ⊢
      split at hg
      · rename_i c' hl; rw [e.obj o _ _ hl]; exact hg
      · exact absurd hg (protoGet_not_cell _ _ _)
  | _ =>
    have := (getMember_cell_cont h _ kv x hg).1
    simp [Val.isCont] at this

/-! ## `getMember` after `setMember` -/

/-- the shape of `Key.val` -/
def IsKeyShape (kv : Val) : Prop := (∃ s, kv = .str s none) ∨ (∃ x, kv = .num x)

theorem Key.val_shape (key : Key) : IsKeyShape key.val := by
  cases key with
  | str s => exact .inl ⟨s, rfl⟩
  | num x => exact .inr ⟨x, rfl⟩

theorem Heap.obj_setObj_same (h : Heap) (o : ObjId) (m : List (Bytes × CellId)) (ho : o < h.objs.size) :
    (h.setObj o m).obj o = m := by
  simp [Heap.obj, Heap.setObj, Array.getD_eq_getD_getElem?, Array.getElem?_setIfInBounds, ho]

theorem Heap.obj_setObj_other (h : Heap) (o o' : ObjId) (m : List (Bytes × CellId)) (hne : o' ≠ o) :
    (h.setObj o m).obj o' = h.obj o' := by
  simp only [Heap.obj, Heap.setObj, Array.getD_eq_getD_getElem?]
  rw [Array.getElem?_setIfInBounds_ne (Ne.symm hne)]

/-- storing a NEW member (object: a key that is not there; array: an index at or past the end)
    and reading it back: the member is the cell `setMember` returned, that cell holds the value
    of the given cell, and every member that was there before still is -/
theorem setMember_getMember (h : Heap) (target kv : Val) (cell c : CellId) (h' : Heap)
    (hkv : IsKeyShape kv) (hc : cell < h.cells.size) (hok : target.contOK h = true)
    (hs : setMember h target kv cell = .ok (c, h'))
    (hidx : ∀ a x i, target = .arr a → kv = .num x →
      resolveIndex (h.arr a).size x.toGoInt = some i → (h.arr a).size ≤ i)
    (hmiss : ∀ o, target = .obj o → objLookup (h.obj o) kv.str! = none) :
    getMember h' target kv = .ok (.cell c) ∧ ContExt h h' ∧ h'.get c = h.get cell := by
  cases target with
  | obj o =>
    simp only [Val.contOK, decide_eq_true_eq] at hok
    simp only [setMember, Except.ok.injEq, Prod.mk.injEq] at hs
    obtain ⟨rfl, rfl⟩ := hs
    have hl : objLookup ((h.setObj o (objInsert (h.obj o) kv.str! cell)).obj o) kv.str! = some cell := by
      rw [Heap.obj_setObj_same _ _ _ hok, objLookup_objInsert]; simp
    refine ⟨?_, ⟨?_, fun _ _ e => ⟨e, rfl⟩⟩, rfl⟩
    · rcases hkv with ⟨s, rfl⟩ | ⟨x, rfl⟩ <;> simp only [getMember, hl]
    · intro o' k x e
      by_cases ho' : o' = o
      · subst ho'
        rw [Heap.obj_setObj_same _ _ _ hok, objLookup_objInsert]
        by_cases hk : kv.str! = k
        · subst hk; rw [hmiss o' rfl] at e; cases e
        · rw [if_neg hk]; exact e
      · rw [Heap.obj_setObj_other _ _ _ _ ho']; exact e
  | arr a =>
    simp only [Val.contOK, decide_eq_true_eq] at hok
    rcases hkv with ⟨s, rfl⟩ | ⟨x, rfl⟩
    · simp [setMember] at hs
    · cases hri : resolveIndex (h.arr a).size x.toGoInt with
      | none => simp [setMember, hri] at hs
      | some i =>
        have hge := hidx a x i rfl rfl hri
        by_cases hlim : i ≤ fillLimit
        · rw [setMember_arr_fill h a x cell i hri hge hlim hc] at hs
          simp only [Except.ok.injEq, Prod.mk.injEq] at hs
          obtain ⟨rfl, rfl⟩ := hs
          obtain ⟨p1, p2, p3, p4, p5, p6, _, p8⟩ := padHeap_spec h a i (h.get cell) hge
          have hx : 0 ≤ x.toGoInt ∧ i = x.toGoInt.toNat := by
            simp only [resolveIndex] at hri
            split at hri
            · split at hri
              · cases hri
              · simp only [Option.some.injEq] at hri; omega
            · simp only [Option.some.injEq] at hri; exact ⟨by omega, hri.symm⟩
          have harr := p6 hok
          have hsz : (h.arr a ++ (List.range' h.cells.size (i + 1 - (h.arr a).size)).toArray).size = i + 1 := by
            simp; omega
          have hidx' : (h.arr a ++ (List.range' h.cells.size (i + 1 - (h.arr a).size)).toArray).getD i 0 =
              h.cells.size + (i - (h.arr a).size) := by
            simp only [Array.getD_eq_getD_getElem?]
            rw [Array.getElem?_append_right hge]
            simp only [List.getElem?_toArray]
            rw [List.getElem?_range' (by omega)]
            simp
          refine ⟨?_, ⟨fun o k y e => by simpa [Heap.obj, p3] using e, ?_⟩, p8⟩
          · simp only [getMember, harr, hsz, resolveIndex_nonneg _ _ hx.1, ← hx.2, Nat.lt_succ_self,
              ↓reduceIte, hidx']
          · intro a' j e
            by_cases ha' : a' = a
            · subst ha'
              rw [harr]
              refine ⟨by rw [hsz]; omega, ?_⟩
              simp only [Array.getD_eq_getD_getElem?]
              rw [Array.getElem?_append_left e]
            · rw [p5 a' ha']; exact ⟨e, rfl⟩
        · have h1 : ¬ i < (h.arr a).size := Nat.not_lt.mpr hge
          have h2 : i > fillLimit := Nat.lt_of_not_le hlim
          simp [setMember, hri, h1, h2] at hs
  | _ => simp [setMember] at hs

/-! ## chains of stand-in cells, with what read-after-write needs about the base -/

/-- `ChainV` plus: if the base holds an object, the object is allocated and the key stored on it
    is not there yet (that is why the member was missing) -/
inductive ChainW (h : Heap) (b : CellId) : Val → List CellId → Prop
  | base {v : Val} {key : Key} (hv : v.spec? = some ⟨b, key⟩) (hb : b < h.cells.size)
      (hns : ∀ sp, h.get b ≠ .nil (some sp))
      (harr : ∀ a, h.get b = .arr a → a < h.arrs.size ∧ ∀ x i, key = .num x →
        resolveIndex (h.arr a).size x.toGoInt = some i → (h.arr a).size ≤ i)
      (hobj : ∀ o, h.get b = .obj o → o < h.objs.size ∧ objLookup (h.obj o) key.val.str! = none) :
      ChainW h b v []
  | step {v : Val} {p : CellId} {key : Key} {sp : SpecRef} {cs : List CellId}
      (hv : v.spec? = some ⟨p, key⟩) (hp : h.get p = .nil (some sp))
      (hrec : ChainW h b (h.get p) cs) : ChainW h b v (p :: cs)

theorem ChainW.toV {h : Heap} {b : CellId} {v : Val} {cs : List CellId} (c : ChainW h b v cs) :
    ChainV h b v cs := by
  induction c with
  | base hv hb hns harr hobj => exact .base hv hb hns harr
  | step hv hp hrec ih => exact .step hv hp ih

theorem ChainW.lift {h h' : Heap} {b : CellId} {v : Val} {cs : List CellId} (c : ChainW h b v cs)
    (p : HeapPreserved h h') : ChainW h' b v cs := by
  induction c with
  | base hv hb hns harr hobj =>
    refine .base hv (Nat.lt_of_lt_of_le hb p.cells) (by rw [p.get b hb]; exact hns) ?_ ?_
    · intro a ha
      rw [p.get b hb] at ha
      obtain ⟨h1, h2⟩ := harr a ha
      refine ⟨Nat.lt_of_lt_of_le h1 p.arrs, ?_⟩
      rw [p.arr a h1]; exact h2
    · intro o ho
      rw [p.get b hb] at ho
      obtain ⟨h1, h2⟩ := hobj o ho
      refine ⟨Nat.lt_of_lt_of_le h1 p.objs, ?_⟩
      rw [p.obj o h1]; exact h2
  | step hv hp hrec ih =>
    rename_i v0 p0 key0 sp0 cs0
    have hlt : p0 < h.cells.size := Heap.lt_of_get_ne_unknown _ _ (by rw [hp]; simp)
    have e : h'.get p0 = h.get p0 := p.get p0 hlt
    exact .step hv (by rw [e]; exact hp) (by rw [e]; exact ih)

/-- the chain is determined by the parent the value remembers -/
theorem ChainW.det {h : Heap} {b : CellId} {v : Val} {cs : List CellId} (c : ChainW h b v cs) :
    ∀ {v' : Val} {cs' : List CellId}, ChainW h b v' cs' →
      (∀ sp sp', v.spec? = some sp → v'.spec? = some sp' → sp.parent = sp'.parent) → cs = cs' := by
  induction c with
  | base hv hb hns harr hobj =>
    intro v' cs' c' hpar
    cases c' with
    | base => rfl
    | step hv' hp' hrec' =>
      have := hpar _ _ hv hv'
      simp only at this
      subst this
      exact absurd hp' (hns _)
  | step hv hp hrec ih =>
    intro v' cs' c' hpar
    cases c' with
    | base hv' hb' hns' _ _ =>
      have := hpar _ _ hv hv'
      simp only at this
      subst this
      exact absurd hp (hns' _)
    | step hv' hp' hrec' =>
      have := hpar _ _ hv hv'
      simp only at this
      subst this
      rw [ih hrec' (fun sp sp' e1 e2 => by rw [e1] at e2; cases e2; rfl)]

/-- every cell of the chain starts the rest of the chain -/
theorem ChainW.split {h : Heap} {b : CellId} {v : Val} {cs : List CellId} (c : ChainW h b v cs)
    (z : CellId) (hz : z ∈ cs) : ∃ cs1 cs2, cs = cs1 ++ z :: cs2 ∧ ChainW h b (h.get z) cs2 := by
  induction c with
  | base => cases hz
  | step hv hp hrec ih =>
    rename_i v0 p0 key0 sp0 cs0
    rcases List.mem_cons.mp hz with e | e
    · subst e; exact ⟨[], cs0, rfl, hrec⟩
    · obtain ⟨cs1, cs2, e1, e2⟩ := ih e
      exact ⟨p0 :: cs1, cs2, by rw [e1]; rfl, e2⟩

/-- a chain does not come back to the cell it starts from -/
theorem ChainW.acyclic {h : Heap} {b : CellId} {z : CellId} {cs : List CellId}
    (c : ChainW h b (h.get z) cs) : z ∉ cs := by
  intro hz
  obtain ⟨cs1, cs2, e1, e2⟩ := c.split z hz
  have := c.det e2 (fun sp sp' e1 e2 => by rw [e1] at e2; cases e2; rfl)
  rw [this] at e1
  have hl := congrArg List.length e1
  simp at hl
  omega

/-- the parent a chain value remembers is the base or the next cell of the chain -/
theorem ChainW.parent_mem {h : Heap} {b : CellId} {v : Val} {cs : List CellId} (c : ChainW h b v cs)
    (p : CellId) (key : Key) (hv : v.spec? = some ⟨p, key⟩) : (p = b ∧ cs = []) ∨ p ∈ cs := by
  cases c with
  | base hv' => rw [hv] at hv'; cases hv'; exact .inl ⟨rfl, rfl⟩
  | step hv' => rw [hv] at hv'; cases hv'; exact .inr List.mem_cons_self

theorem ChainW.parent_mem' {h : Heap} {b : CellId} {v : Val} {cs : List CellId} (c : ChainW h b v cs)
    (z : CellId) (hz : z ∈ cs) (p : CellId) (key : Key) (hv : (h.get z).spec? = some ⟨p, key⟩) :
    p = b ∨ p ∈ cs := by
  obtain ⟨cs1, cs2, e1, e2⟩ := c.split z hz
  rcases e2.parent_mem p key hv with ⟨e, _⟩ | e
  · exact .inl e
  · right; rw [e1]; simp [e]

/-- the cells of a chain are stand-ins -/
theorem ChainW.mem_nil {h : Heap} {b : CellId} {v : Val} {cs : List CellId} (c : ChainW h b v cs)
    (z : CellId) (hz : z ∈ cs) : ∃ sp, h.get z = .nil (some sp) := by
  induction c with
  | base => cases hz
  | step hv hp hrec ih =>
    rcases List.mem_cons.mp hz with e | e
    · subst e; exact ⟨_, hp⟩
    · exact ih e

theorem ChainW.base_lt {h : Heap} {b : CellId} {v : Val} {cs : List CellId} (c : ChainW h b v cs) :
    b < h.cells.size := c.toV.base_lt

theorem ChainW.base_ns {h : Heap} {b : CellId} {v : Val} {cs : List CellId} (c : ChainW h b v cs) :
    ∀ sp, h.get b ≠ .nil (some sp) := by
  induction c with
  | base _ _ hns _ _ => exact hns
  | step _ _ _ ih => exact ih

/-! ## the postcondition of `createSpeculative`: everything is linked -/

/-- what a successful run of `createSpeculative` on the stand-in cell `sc` (chain `cs`, base `b`)
    has built, `h` before, `h'` after, `c` the member cell it returned:
    * `self`: `c` is the member `key` of the value the parent cell `p` now holds;
    * `chain`: every stand-in parent `z` of the chain (it stood for the member `key` of `p`) now
      holds a fresh container, and a fresh member cell `np` of the value `p` now holds refers to
      the same container;
    * `val`: `c` holds what the stand-in held; `ext`: no member or element that existed was
      replaced; `base`/`baseCont`: the base held a container or was unset, and holds one now. -/
structure Linked (h h' : Heap) (sc b : CellId) (cs : List CellId) (c : CellId) : Prop where
  ext : ContExt h h'
  val : h'.get c = h.get sc
  self : ∀ p key, (h.get sc).spec? = some ⟨p, key⟩ → getMember h' (h'.get p) key.val = .ok (.cell c)
  chain : ∀ z, z ∈ cs → ∀ p key, h.get z = .nil (some ⟨p, key⟩) →
    ∃ np, h.cells.size ≤ np ∧ np < h'.cells.size ∧
      getMember h' (h'.get p) key.val = .ok (.cell np) ∧ h'.get np = h'.get z ∧ (h'.get z).isCont = true
  base : (h.get b).isCont = true ∨ h.get b = .unknown
  baseCont : (h'.get b).isCont = true
  scKeep : h'.get sc = h.get sc

theorem createTarget_unknown (h : Heap) (b : CellId) (key : Key) (hu : h.get b = .unknown)
    (hb : b < h.cells.size) :
    (createTarget h b key).1.get b = (createTarget h b key).2 ∧
    (createTarget h b key).2.contOK (createTarget h b key).1 = true ∧
    (createTarget h b key).2.isCont = true ∧
    (∀ a, (createTarget h b key).2 = .arr a → (createTarget h b key).1.arr a = #[]) ∧
    (∀ o, (createTarget h b key).2 = .obj o → (createTarget h b key).1.obj o = []) := by
  unfold createTarget
  rw [hu]
  cases key with
  | num x =>
    refine ⟨Heap.get_set_same' _ _ _ hb, by simp [Val.contOK, Heap.set, Heap.allocArr], rfl, ?_, ?_⟩
    · intro a e; cases e
      simp [Heap.set, Heap.allocArr, Heap.arr, Array.getD_eq_getD_getElem?]
    · intro o e; cases e
  | str k =>
    refine ⟨Heap.get_set_same' _ _ _ hb, by simp [Val.contOK, Heap.set, Heap.allocObj], rfl, ?_, ?_⟩
    · intro a e; cases e
    · intro o e; cases e
      simp [Heap.set, Heap.allocObj, Heap.obj, Array.getD_eq_getD_getElem?]

theorem ContExt.of_frame {C : CellId → Prop} {h h' : Heap}
    (f : HeapFrame C (fun _ => False) (fun _ => False) h h') : ContExt h h' :=
  ContExt.of_eq (fun a ha => f.arr a ha (fun x => x)) (fun o ho => f.obj o ho (fun x => x))

/-- one level: materialise the base, store the member -/
theorem storeBase_linked (h : Heap) (sc b : CellId) (key : Key) (c : CellId) (h' : Heap)
    (hv : (h.get sc).spec? = some ⟨b, key⟩) (hb : b < h.cells.size)
    (harr : ∀ a, h.get b = .arr a → a < h.arrs.size ∧ ∀ x i, key = .num x →
      resolveIndex (h.arr a).size x.toGoInt = some i → (h.arr a).size ≤ i)
    (hobj : ∀ o, h.get b = .obj o → o < h.objs.size ∧ objLookup (h.obj o) key.val.str! = none)
    (hs : setMember (createTarget h b key).1 (createTarget h b key).2 key.val sc = .ok (c, h')) :
    Linked h h' sc b [] c := by
  have hsc : sc < h.cells.size := Heap.lt_of_get_ne_unknown _ _ (by
    intro e; rw [e] at hv; cases hv)
  have F0 := createTarget_frame h b key
  have hsc0 : sc < (createTarget h b key).1.cells.size := Nat.lt_of_lt_of_le hsc F0.cells
  have hb0 : b < (createTarget h b key).1.cells.size := Nat.lt_of_lt_of_le hb F0.cells
  have hscb : h.get b = .unknown → sc ≠ b := by
    intro hu e; rw [e, hu] at hv; cases hv
  have hget0 : (createTarget h b key).1.get sc = h.get sc :=
    F0.get sc hsc (fun hc => hscb hc.2 hc.1)
  -- the facts about the target container, in both cases
  have T : (createTarget h b key).1.get b = (createTarget h b key).2 ∧
      (createTarget h b key).2.contOK (createTarget h b key).1 = true ∧
      (∀ a x i, (createTarget h b key).2 = .arr a → key.val = .num x →
        resolveIndex ((createTarget h b key).1.arr a).size x.toGoInt = some i →
        ((createTarget h b key).1.arr a).size ≤ i) ∧
      (∀ o, (createTarget h b key).2 = .obj o →
        objLookup ((createTarget h b key).1.obj o) key.val.str! = none) ∧
      ((h.get b).isCont = true ∨ h.get b = .unknown) := by
    by_cases hu : h.get b = .unknown
    · obtain ⟨t1, t2, t3, t4, t5⟩ := createTarget_unknown h b key hu hb
      refine ⟨t1, t2, ?_, ?_, .inr hu⟩
      · intro a x i e _ _; rw [t4 a e]; exact Nat.zero_le _
      · intro o e; rw [t5 o e]; rfl
    · have hct : createTarget h b key = (h, h.get b) := by
        unfold createTarget
        cases hvb : h.get b <;> first | rfl | exact absurd hvb hu
      rw [hct]
      cases hvb : h.get b with
      | arr a =>
        obtain ⟨h1, h2⟩ := harr a hvb
        refine ⟨rfl, by simp [Val.contOK, h1], ?_, (fun o e => by cases e), .inl rfl⟩
        intro a' x i e hk hri
        cases e
        have : key = .num x := by cases key <;> simp_all [Key.val]
        exact h2 x i this hri
      | obj o =>
        obtain ⟨h1, h2⟩ := hobj o hvb
        refine ⟨rfl, by simp [Val.contOK, h1], (fun a x i e => by cases e), ?_, .inl rfl⟩
        intro o' e; cases e; exact h2
      | _ => rw [hct, hvb] at hs; simp [setMember] at hs
  obtain ⟨t1, t2, t3, t4, t5⟩ := T
  obtain ⟨g1, g2, g3⟩ := setMember_getMember _ _ _ sc c h' key.val_shape hsc0 t2 hs t3 t4
  obtain ⟨F1, _, _⟩ := setMember_frame _ _ _ sc c h' hsc0 hs t3
  have hgb : h'.get b = (createTarget h b key).2 := by
    rw [F1.get b hb0 (fun x => x), t1]
  refine ⟨(ContExt.of_frame F0).trans g2, by rw [g3, hget0], ?_, (fun z hz => by cases hz), t5, ?_, ?_⟩
  · intro p key' e
    rw [hv] at e; cases e
    rw [hgb]; exact g1
  · rw [hgb]
    exact (getMember_cell_cont _ _ _ _ g1).1
  · rw [F1.get sc hsc0 (fun x => x), hget0]

/-! ### the heap after a missing parent has been linked -/

theorem freshCont_get (h : Heap) (key : Key) (x : CellId) : (freshCont h key).2.get x = h.get x := by
  cases key <;> rfl

theorem freshCont_cells (h : Heap) (key : Key) : (freshCont h key).2.cells.size = h.cells.size := by
  cases key <;> rfl

theorem linkParent_get_other (h : Heap) (key : Key) (np p x : CellId) (h1 : x ≠ np) (h2 : x ≠ p) :
    (linkParent h key np p).get x = h.get x := by
  unfold linkParent
  rw [Heap.get_set_ne' _ _ _ _ h2, Heap.get_set_ne' _ _ _ _ h1, freshCont_get]

theorem linkParent_get_p (h : Heap) (key : Key) (np p : CellId) (hp : p < h.cells.size) :
    (linkParent h key np p).get p = (freshCont h key).1 := by
  unfold linkParent
  apply Heap.get_set_same'
  rw [Heap.size_set, freshCont_cells]; exact hp

theorem linkParent_get_np (h : Heap) (key : Key) (np p : CellId) (hnp : np < h.cells.size) (hne : np ≠ p) :
    (linkParent h key np p).get np = (freshCont h key).1 := by
  unfold linkParent
  rw [Heap.get_set_ne' _ _ _ _ hne]
  apply Heap.get_set_same'
  rw [freshCont_cells]; exact hnp

theorem linkParent_arr (h : Heap) (key : Key) (np p : CellId) (a : ArrId) (ha : a < h.arrs.size) :
    (linkParent h key np p).arr a = h.arr a := by
  show (freshCont h key).2.arr a = h.arr a
  exact (freshCont_preserved h key).arr a ha

theorem linkParent_obj (h : Heap) (key : Key) (np p : CellId) (o : ObjId) (ho : o < h.objs.size) :
    (linkParent h key np p).obj o = h.obj o := by
  show (freshCont h key).2.obj o = h.obj o
  exact (freshCont_preserved h key).obj o ho

theorem linkParent_arrs (h : Heap) (key : Key) (np p : CellId) :
    h.arrs.size ≤ (linkParent h key np p).arrs.size := (freshCont_preserved h key).arrs

theorem linkParent_objs (h : Heap) (key : Key) (np p : CellId) :
    h.objs.size ≤ (linkParent h key np p).objs.size := (freshCont_preserved h key).objs

/-- the fresh container: allocated in the linked heap, empty, not one of the old ones -/
theorem freshCont_spec (h : Heap) (key : Key) (np p : CellId) :
    (freshCont h key).1.isCont = true ∧ (freshCont h key).1.contOK (linkParent h key np p) = true ∧
    (freshCont h key).1.contOK h = false ∧
    (∀ a, (freshCont h key).1 = .arr a → (linkParent h key np p).arr a = #[]) ∧
    (∀ o, (freshCont h key).1 = .obj o → (linkParent h key np p).obj o = []) := by
  cases key with
  | str k =>
    refine ⟨rfl, ?_, by simp [freshCont, Val.contOK], (fun a e => by cases e), ?_⟩
    · simp [freshCont, Val.contOK, linkParent, Heap.set, Heap.allocObj]
    · intro o e
      simp only [freshCont, Val.obj.injEq] at e
      subst e
      simp [linkParent, freshCont, Heap.set, Heap.allocObj, Heap.obj, Array.getD_eq_getD_getElem?]
  | num x =>
    refine ⟨rfl, ?_, by simp [freshCont, Val.contOK], ?_, fun o e => by cases e⟩
    · simp [freshCont, Val.contOK, linkParent, Heap.set, Heap.allocArr]
    · intro a e
      exact (freshCont_arr h (.num x) np p a e).2

/-- a container that was allocated before is not the fresh one -/
theorem contOK_ne_fresh (h : Heap) (key : Key) (V : Val) (hV : V.contOK h = true) :
    V ≠ (freshCont h key).1 := by
  intro e
  have := (freshCont_spec h key 0 0).2.2.1
  rw [← e, hV] at this
  cases this

/-- what a run of `createSpeculative` guarantees when it succeeds: `Linked`, the frame
    (`SpecFrame`, from `createSpeculative_frame`), and nothing but the heap changes -/
def LinkRes (s : St) (sc b : CellId) (cs : List CellId) : Res (Except String CellId) → Prop
  | .ok (.ok c) s' =>
    Linked s.heap s'.heap sc b cs c ∧ (c = sc ∨ s.heap.cells.size ≤ c) ∧ c < s'.heap.cells.size ∧
    SpecFrame s.heap sc b cs s'.heap ∧ s' = { s with heap := s'.heap }
  | _ => True

/-- **the postcondition of `createSpeculativeObjects`, any number of missing levels** -/
theorem createSpeculative_linked : ∀ (n : Nat) (sc : CellId) (s : St) (b : CellId) (cs : List CellId),
    ChainW s.heap b (s.heap.get sc) cs → LinkRes s sc b cs (createSpeculative n sc s)
  | 0, sc, s, b, cs, _ => by unfold createSpeculative; trivial
  | n + 1, sc, s, b, cs, hc => by
    have hfr := createSpeculative_frame (n + 1) sc s b cs hc.toV
    have hsc : sc < s.heap.cells.size := by
      apply Heap.lt_of_get_ne_unknown
      intro e
      cases hc with
      | base hv _ _ _ _ => rw [e] at hv; cases hv
      | step hv _ _ => rw [e] at hv; cases hv
    have hacyc : sc ∉ cs := hc.acyclic
    cases hc with
    | base hv hb hns harr hobj =>
      rename_i key
      rw [createSpeculative_base n sc b key s hv hns] at hfr ⊢
      split
      · trivial
      · rename_i hnn
        rw [if_neg hnn] at hfr
        cases hs : setMember (createTarget s.heap b key).1 (createTarget s.heap b key).2 key.val sc with
        | error m => trivial
        | ok res =>
          obtain ⟨c, h'⟩ := res
          rw [hs] at hfr
          obtain ⟨f, hcc⟩ := hfr
          exact ⟨storeBase_linked s.heap sc b key c h' hv hb harr hobj hs, (hcc c rfl).1, (hcc c rfl).2, f, rfl⟩
    | step hv hp hrec =>
      rename_i p key sp cs'
      rw [createSpeculative_step n sc p key sp s hv hp] at hfr ⊢
      have hplt : p < s.heap.cells.size := Heap.lt_of_get_ne_unknown _ _ (by rw [hp]; simp)
      have hpc : (s.heap.alloc (.nil (some sp))).2.get s.heap.cells.size = s.heap.get p := by
        rw [Heap.get_alloc_new_readOnly, hp]
      have hal := HeapPreserved.alloc s.heap (.nil (some sp))
      have chain1 : ChainW (s.heap.alloc (.nil (some sp))).2 b
          ((s.heap.alloc (.nil (some sp))).2.get s.heap.cells.size) cs' := by
        rw [hpc]; exact hrec.lift hal
      have ih := createSpeculative_linked n s.heap.cells.size
        { s with heap := (s.heap.alloc (.nil (some sp))).2 } b cs' chain1
      have hblt : b < s.heap.cells.size := hrec.base_lt
      have hpcs : p ∉ cs' := hrec.acyclic
      have hpb : p ≠ b := fun e => hrec.base_ns sp (e ▸ hp)
      have hscp : sc ≠ p := fun e => hacyc (e ▸ List.mem_cons_self)
      have hsccs : sc ∉ cs' := fun e => hacyc (List.mem_cons_of_mem _ e)
      have hsz1 : (s.heap.alloc (.nil (some sp))).2.cells.size = s.heap.cells.size + 1 := Heap.size_alloc _ _
      cases hr : createSpeculative n s.heap.cells.size
          { s with heap := (s.heap.alloc (.nil (some sp))).2 } with
      | oof => trivial
      | err e s' => trivial
      | ok r s2 =>
        rw [hr] at ih hfr
        cases r with
        | error m => trivial
        | ok np =>
          obtain ⟨L, hnp1, hnp2, f2, hst⟩ := ih
          dsimp only at L hnp1 hnp2 f2 hst hfr ⊢
          cases hs : setMember (linkParent s2.heap key np p) (freshCont s2.heap key).1 key.val sc with
          | error m => trivial
          | ok res =>
            obtain ⟨c, h'⟩ := res
            rw [hs] at hfr
            obtain ⟨fAll, hcc⟩ := hfr
            -- sizes
            have hle12 : s.heap.cells.size + 1 ≤ s2.heap.cells.size := by rw [← hsz1]; exact f2.cells
            have hnpge : s.heap.cells.size ≤ np := by
              rcases hnp1 with e | e
              · rw [e]; exact Nat.le_refl _
              · rw [hsz1] at e; exact Nat.le_of_succ_le e
            have hnpp : np ≠ p := fun e => Nat.lt_irrefl _ (Nat.lt_of_lt_of_le (e ▸ hplt) hnpge)
            have hold : ∀ d, d < s.heap.cells.size → d ∉ cs' → ¬ (d = b ∧ s.heap.get b = .unknown) →
                s2.heap.get d = s.heap.get d := by
              intro d hd h1 h2
              rw [f2.get d (by rw [hsz1]; exact Nat.lt_succ_of_lt hd) ?_, hal.get d hd]
              rintro (e | e | ⟨e1, e2⟩)
              · exact Nat.lt_irrefl _ (e ▸ hd)
              · exact h1 e
              · exact h2 ⟨e1, by rw [← hal.get b hblt]; exact e2⟩
            have h2sc : s2.heap.get sc = s.heap.get sc := by
              refine hold sc hsc hsccs ?_
              rintro ⟨e1, e2⟩
              rw [e1, e2] at hv; cases hv
            have h2p : s2.heap.get p = .nil (some sp) := by
              rw [hold p hplt hpcs (fun e => hpb e.1), hp]
            have h2np : s2.heap.get np = .nil (some sp) := by
              rw [L.val]; exact Heap.get_alloc_new_readOnly _ _
            -- the linked heap
            have hsz3 : (linkParent s2.heap key np p).cells.size = s2.heap.cells.size := linkParent_size _ _ _ _
            have hsc3 : sc < (linkParent s2.heap key np p).cells.size := by
              rw [hsz3]; exact Nat.lt_of_lt_of_le (Nat.lt_succ_of_lt hsc) hle12
            obtain ⟨c1, c2, c3, c4, c5⟩ := freshCont_spec s2.heap key np p
            obtain ⟨g1, g2, g3⟩ := setMember_getMember _ _ _ sc c h' key.val_shape hsc3 c2 hs
              (fun a x i e _ _ => by rw [c4 a e]; exact Nat.zero_le _)
              (fun o e => by rw [c5 o e]; rfl)
            obtain ⟨F, _, hclt⟩ := setMember_frame _ _ _ sc c h' hsc3 hs
              (fun a x i e _ _ => by rw [c4 a e]; exact Nat.zero_le _)
            -- cells that hold a container in the intermediate heap keep it
            have keepCell : ∀ x, (s2.heap.get x).isCont = true → h'.get x = s2.heap.get x := by
              intro x hx
              have hxlt : x < s2.heap.cells.size := Heap.lt_of_get_ne_unknown _ _ (by
                intro e; rw [e] at hx; cases hx)
              have hxp : x ≠ p := by intro e; rw [e, h2p] at hx; cases hx
              have hxnp : x ≠ np := by intro e; rw [e, h2np] at hx; cases hx
              rw [F.get x (by rw [hsz3]; exact hxlt) (fun y => y), linkParent_get_other _ _ _ _ _ hxnp hxp]
            -- lookups in containers that were allocated before stay the same
            have keepMem : ∀ V kv, V.contOK s2.heap = true →
                getMember h' V kv = getMember s2.heap V kv := by
              intro V kv hV
              have hne := contOK_ne_fresh s2.heap key V hV
              apply getMember_congr
              · intro a e
                subst e
                simp only [Val.contOK, decide_eq_true_eq] at hV
                rw [F.arr a (Nat.lt_of_lt_of_le hV (linkParent_arrs _ _ _ _)) (fun y => hne y.symm),
                  linkParent_arr _ _ _ _ _ hV]
              · intro o e
                subst e
                simp only [Val.contOK, decide_eq_true_eq] at hV
                rw [F.obj o (Nat.lt_of_lt_of_le hV (linkParent_objs _ _ _ _)) (fun y => hne y.symm),
                  linkParent_obj _ _ _ _ _ hV]
            have hp3 : h'.get p = (freshCont s2.heap key).1 := by
              rw [F.get p (by rw [hsz3]; exact Nat.lt_of_lt_of_le (Nat.lt_succ_of_lt hplt) hle12) (fun y => y)]
              exact linkParent_get_p _ _ _ _ (Nat.lt_of_lt_of_le (Nat.lt_succ_of_lt hplt) hle12)
            have hnp3 : h'.get np = (freshCont s2.heap key).1 := by
              rw [F.get np (by rw [hsz3]; exact hnp2) (fun y => y)]
              exact linkParent_get_np _ _ _ _ hnp2 hnpp
            have e23 : ContExt s2.heap (linkParent s2.heap key np p) :=
              ContExt.of_eq (fun a ha => linkParent_arr _ _ _ _ a ha) (fun o ho => linkParent_obj _ _ _ _ o ho)
            -- a member fact of the intermediate heap, carried over
            have carry : ∀ pz kz nz, getMember s2.heap (s2.heap.get pz) kz = .ok (.cell nz) →
                getMember h' (h'.get pz) kz = .ok (.cell nz) := by
              intro pz kz nz hg
              obtain ⟨v1, v2⟩ := getMember_cell_cont _ _ _ _ hg
              rw [keepCell pz v1, keepMem _ _ v2]; exact hg
            have hscnp : sc ≠ np := fun e => Nat.lt_irrefl _ (Nat.lt_of_lt_of_le hsc (e ▸ hnpge))
            have h3sc : (linkParent s2.heap key np p).get sc = s.heap.get sc := by
              rw [linkParent_get_other _ _ _ _ _ hscnp hscp, h2sc]
            refine ⟨⟨((ContExt.of_preserved hal).trans L.ext).trans (e23.trans g2), ?_, ?_, ?_, ?_, ?_,
              by rw [F.get sc hsc3 (fun y => y), h3sc]⟩,
              (hcc c rfl).1, (hcc c rfl).2, fAll, ?_⟩
            · -- val
              rw [g3, h3sc]
            · -- self
              intro p' key' e
              rw [hv] at e; cases e
              rw [hp3]; exact g1
            · -- chain
              intro z hz pz kz hzv
              rcases List.mem_cons.mp hz with e | e
              · subst e
                rw [hp] at hzv
                simp only [Val.nil.injEq, Option.some.injEq] at hzv
                subst hzv
                have hself := L.self pz kz (by rw [Heap.get_alloc_new_readOnly]; rfl)
                refine ⟨np, hnpge, Nat.lt_of_lt_of_le hnp2 (by rw [← hsz3]; exact F.cells),
                  carry _ _ _ hself, by rw [hnp3, hp3], by rw [hp3]; exact c1⟩
              · have hzlt : z < s.heap.cells.size := Heap.lt_of_get_ne_unknown _ _ (by rw [hzv]; simp)
                obtain ⟨nz, n1, n2, n3, n4, n5⟩ := L.chain z e pz kz (by rw [hal.get z hzlt]; exact hzv)
                refine ⟨nz, ?_, Nat.lt_of_lt_of_le n2 (by rw [← hsz3]; exact F.cells), carry _ _ _ n3, ?_, ?_⟩
                · rw [hsz1] at n1; exact Nat.le_of_succ_le n1
                · rw [keepCell nz (by rw [n4]; exact n5), keepCell z n5]; exact n4
                · rw [keepCell z n5]; exact n5
            · -- base
              have := L.base
              rw [hal.get b hblt] at this
              exact this
            · -- baseCont
              rw [keepCell b L.baseCont]; exact L.baseCont
            · rw [hst]

/-! ## the effect of the whole assignment -/

theorem copyVal_ok {v w : Val} (h : copyVal v = .ok w) :
    (∀ f b sp, w ≠ .native f b sp) ∧ w.spec? = none := by
  cases v <;> simp only [copyVal, Except.ok.injEq, reduceCtorEq] at h <;> subst h <;>
    exact ⟨(fun _ _ _ e => by cases e), rfl⟩

theorem Heap.arr_set (h : Heap) (c : CellId) (w : Val) (a : ArrId) : (h.set c w).arr a = h.arr a := rfl
theorem Heap.obj_set (h : Heap) (c : CellId) (w : Val) (o : ObjId) : (h.set c w).obj o = h.obj o := rfl

theorem getMember_set (h : Heap) (c : CellId) (w v kv : Val) :
    getMember (h.set c w) v kv = getMember h v kv :=
  getMember_congr _ _ _ _ (fun _ _ => rfl) (fun _ _ => rfl)

/-- what the re-evaluation of the target path needs to know about the store `H → H'`
    (`lc`: the cell the target evaluated to, `c`: the cell the assignment returned, `S`: the
    stand-in cells the store turned into containers / members): containers only grew (`ext`);
    other cells kept their values, except that an unset cell may hold a container now (`keep`);
    every stand-in is linked (`link`: the value its parent cell holds now has the member, and
    that member cell is `c` for the target, else holds the container the stand-in holds) -/
structure Eff (H H' : Heap) (lc c : CellId) (S : CellId → Prop) : Prop where
  cells : H.cells.size ≤ H'.cells.size
  arrs : H.arrs.size ≤ H'.arrs.size
  objs : H.objs.size ≤ H'.objs.size
  ext : ContExt H H'
  keep : ∀ x, x < H.cells.size → ¬ S x → x ≠ c →
    H'.get x = H.get x ∨ (H.get x = .unknown ∧ (H'.get x).isCont = true)
  spec : ∀ z, S z → ∃ sp, H.get z = .nil (some sp)
  link : ∀ z, S z → ∀ p key, H.get z = .nil (some ⟨p, key⟩) →
    (S p ∨ (H.get p).spec? = none) ∧ p ≠ lc ∧
    ∃ np, np < H'.cells.size ∧ getMember H' (H'.get p) key.val = .ok (.cell np) ∧
      (z = lc → np = c) ∧ (z ≠ lc → H'.get np = H'.get z ∧ (H'.get z).isCont = true)
  tgt : c = lc ∨ H.cells.size ≤ c
  tgtLt : c < H'.cells.size
  tgtVal : ∀ f b sp, H'.get c ≠ .native f b sp
  plain : ¬ S lc → c = lc

/-- assignment to a cell that is not a stand-in: the effect -/
theorem evalAssignment_plain_eff (pos : Nat) (lc rc : CellId) (s s' : St) (c : CellId)
    (hns : (s.heap.get lc).speculative = false) (hlt : lc < s.heap.cells.size)
    (h : evalAssignment pos lc rc s = .ok c s') :
    ∃ w, copyVal (s.heap.get rc) = .ok w ∧ c = lc ∧ s' = { s with heap := s.heap.set lc w } ∧
      s'.heap.get c = w ∧ Eff s.heap s'.heap lc c (fun _ => False) := by
  rw [evalAssignment_plain pos lc rc s hns] at h
  cases hw : copyVal (s.heap.get rc) with
  | error m => rw [hw] at h; simp [Jqawk.throwRt] at h
  | ok w =>
    rw [hw] at h
    simp only [Res.ok.injEq] at h
    obtain ⟨rfl, rfl⟩ := h
    have hg : (s.heap.set lc w).get lc = w := Heap.get_set_same' _ _ _ hlt
    refine ⟨w, rfl, rfl, rfl, hg, ?_⟩
    refine ⟨by rw [Heap.size_set]; exact Nat.le_refl _, Nat.le_refl _, Nat.le_refl _, ContExt.set _ _ _,
      ?_, fun z hz => hz.elim, fun z hz => hz.elim, .inl rfl, by rw [Heap.size_set]; exact hlt, ?_,
      fun _ => rfl⟩
    · intro x _ _ hx
      exact .inl (Heap.get_set_ne' _ _ _ _ hx)
    · intro f b sp e
      have e' : (s.heap.set lc w).get lc = .native f b sp := e
      rw [hg] at e'
      exact (copyVal_ok hw).1 f b sp e'

theorem isCont_spec_none {v : Val} (h : v.isCont = true ∨ v = .unknown) : v.spec? = none := by
  rcases h with h | h
  · cases v <;> first | rfl | cases h
  · subst h; rfl

/-- assignment to a stand-in cell (of the `nil` kind) with any number of missing levels: the
    effect -/
theorem evalAssignment_chain_eff (pos : Nat) (lc rc b : CellId) (cs : List CellId) (sp : SpecRef)
    (s s' : St) (c : CellId)
    (hsp : s.heap.get lc = .nil (some sp)) (hc : ChainW s.heap b (s.heap.get lc) cs)
    (h : evalAssignment pos lc rc s = .ok c s') :
    ∃ h3 w, Linked s.heap h3 lc b cs c ∧ SpecFrame s.heap lc b cs h3 ∧ copyVal (h3.get rc) = .ok w ∧
      s' = { s with heap := h3.set c w } ∧ s'.heap.get c = w ∧
      Eff s.heap s'.heap lc c (fun z => z = lc ∨ z ∈ cs) := by
  rw [evalAssignment_spec_eq pos lc rc s sp (by rw [hsp]; rfl)] at h
  have hl := createSpeculative_linked (s.heap.cells.size + 2) lc s b cs hc
  cases hr : createSpeculative (s.heap.cells.size + 2) lc s with
  | oof => rw [hr] at h; cases h
  | err e s3 => rw [hr] at h; cases h
  | ok r s3 =>
    rw [hr] at h hl
    cases r with
    | error m => simp [Jqawk.throwRt] at h
    | ok c0 =>
      obtain ⟨L, hcc, hclt, f, hst⟩ := hl
      dsimp only at h
      cases hw : copyVal (s3.heap.get rc) with
      | error m => rw [hw] at h; simp [Jqawk.throwRt] at h
      | ok w =>
        rw [hw] at h
        simp only [Res.ok.injEq] at h
        obtain ⟨rfl, rfl⟩ := h
        have hg : (s3.heap.set c0 w).get c0 = w := Heap.get_set_same' _ _ _ hclt
        refine ⟨s3.heap, w, L, f, hw, by rw [hst], hg, ?_⟩
        have hlcacyc : lc ∉ cs := hc.acyclic
        have hc0v : s3.heap.get c0 = .nil (some sp) := by rw [L.val, hsp]
        -- cells holding a container are not the target cell
        have ne_c0 : ∀ x, (s3.heap.get x).isCont = true → x ≠ c0 := by
          intro x hx e; rw [e, hc0v] at hx; cases hx
        have carry : ∀ pz kz nz, getMember s3.heap (s3.heap.get pz) kz = .ok (.cell nz) →
            getMember (s3.heap.set c0 w) ((s3.heap.set c0 w).get pz) kz = .ok (.cell nz) := by
          intro pz kz nz hg'
          rw [getMember_set, Heap.get_set_ne' _ _ _ _ (ne_c0 pz (getMember_cell_cont _ _ _ _ hg').1)]
          exact hg'
        have hbspec : (s.heap.get b).spec? = none := isCont_spec_none L.base
        refine ⟨by rw [Heap.size_set]; exact f.cells, f.arrs, f.objs, L.ext.trans (ContExt.set _ _ _),
          ?_, ?_, ?_, hcc, by rw [Heap.size_set]; exact hclt, ?_, fun hn => (hn (.inl rfl)).elim⟩
        · -- keep
          intro x hx hS hxc
          show (s3.heap.set c0 w).get x = _ ∨ _ ∧ ((s3.heap.set c0 w).get x).isCont = true
          rw [Heap.get_set_ne' _ _ _ _ hxc]
          by_cases hb : x = b ∧ s.heap.get b = .unknown
          · right
            obtain ⟨rfl, hu⟩ := hb
            exact ⟨hu, L.baseCont⟩
          · left
            apply f.get x hx
            rintro (e | e | e)
            · exact hS (.inl e)
            · exact hS (.inr e)
            · exact hb e
        · -- spec
          rintro z (rfl | hz)
          · exact ⟨sp, hsp⟩
          · exact hc.mem_nil z hz
        · -- link
          intro z hz p key hzv
          have hpar : p = b ∨ p ∈ cs := by
            rcases hz with rfl | hz
            · rcases hc.parent_mem p key (by rw [hzv]; rfl) with ⟨e, _⟩ | e
              · exact .inl e
              · exact .inr e
            · exact hc.parent_mem' z hz p key (by rw [hzv]; rfl)
          refine ⟨?_, ?_, ?_⟩
          · rcases hpar with rfl | e
            · exact .inr hbspec
            · exact .inl (.inr e)
          · rcases hpar with rfl | e
            · intro e; rw [e, hsp] at hbspec; cases hbspec
            · intro e'; exact hlcacyc (e' ▸ e)
          · rcases hz with rfl | hz
            · refine ⟨c0, by rw [Heap.size_set]; exact hclt,
                carry _ _ _ (L.self p key (by rw [hzv]; rfl)), fun _ => rfl, fun hne => (hne rfl).elim⟩
            · obtain ⟨nz, n1, n2, n3, n4, n5⟩ := L.chain z hz p key hzv
              refine ⟨nz, by rw [Heap.size_set]; exact n2, carry _ _ _ n3,
                fun e => (hlcacyc (e ▸ hz)).elim, fun _ => ?_⟩
              show (s3.heap.set c0 w).get nz = (s3.heap.set c0 w).get z ∧ ((s3.heap.set c0 w).get z).isCont = true
              rw [Heap.get_set_ne' _ _ _ _ (ne_c0 nz (by rw [n4]; exact n5)),
                Heap.get_set_ne' _ _ _ _ (ne_c0 z n5)]
              exact ⟨n4, n5⟩
        · intro f' b' sp' e
          have e' : (s3.heap.set c0 w).get c0 = .native f' b' sp' := e
          rw [hg] at e'
          exact (copyVal_ok hw).1 f' b' sp' e'

/-! ## one step of a path: equations -/

theorem evalExpr_member_eq (prog : Program) (n : Nat) (l : Expr) (t : Token) (op : Token) (s : St)
    (hop : op.tag = .dot ∨ op.tag = .lsquare) :
    evalExpr prog (n + 2) (.binary l (.lit t) op) s =
      (evalExpr prog n l >>= fun left => evalExpr prog n (.lit t) >>= fun right =>
        memberStep l.token.pos left right) s := by
  conv => lhs; unfold evalExpr
  dsimp only
  conv => lhs; unfold evalBinary
  rcases hop with h | h <;> simp only [bind, EM.bind, h]

theorem evalExpr_lit_litKey (prog : Program) (n : Nat) (t : Token) (kv : Val) (s : St)
    (hk : litKey t = some kv) : evalExpr prog (n + 1) (.lit t) s = Jqawk.newCell kv s := by
  unfold evalExpr
  dsimp only
  unfold litKey at hk
  repeat' split at hk
  all_goals first
    | (cases hk; done)
    | (cases hk; simp only [*])

theorem memberStep_eq (pos : Nat) (left right : CellId) (s : St) :
    memberStep pos left right s =
      if s.heap.get left = .unknown then
        Jqawk.newCell (.nil (some ⟨left, keyOf (s.heap.get right)⟩)) s
      else memberRead pos left (s.heap.get right) s := by
  unfold memberStep memberRead
  by_cases hu : s.heap.get left = .unknown
  · simp only [bind, EM.bind, readCell, hu, Val.kind, ↓reduceIte, beq_self_eq_true, keyOf]
    generalize s.heap.get right = rv
    cases rv <;> rfl
  · have hk : ((s.heap.get left).kind == Kind.unknown) = false := by
      cases hv : s.heap.get left <;> simp_all [Val.kind]
    simp only [bind, EM.bind, readCell, hu, hk, getHeap, ↓reduceIte, Bool.false_eq_true, pure]
    rfl


/-- why `getMember` found nothing -/
def MissingRaw (h : Heap) (v kv : Val) : Prop :=
  (∀ o, v = .obj o → objLookup (h.obj o) kv.str! = none) ∧
  (∀ a, v = .arr a → ∀ x i, kv = .num x →
    resolveIndex (h.arr a).size x.toGoInt = some i → (h.arr a).size ≤ i)

theorem getMember_missing_raw (h : Heap) (v kv : Val) (hk : IsKeyShape kv)
    (hg : getMember h v kv = .ok .missing) : MissingRaw h v kv := by
  constructor
  · intro o e
    subst e
    rcases hk with ⟨s, rfl⟩ | ⟨x, rfl⟩
    · simp only [getMember] at hg
      split at hg
      · cases hg
      · assumption
    · simp only [getMember] at hg
      split at hg
      · cases hg
      · assumption
  · intro a e x i ek hri
    subst e; subst ek
    simp only [getMember, hri] at hg
    by_cases hlt : i < (h.arr a).size
    · rw [if_pos hlt] at hg; cases hg
    · exact Nat.le_of_not_lt hlt

theorem protoGet_not_char (tbl : Bytes → Option Native) (kv : Val) (ch : Option Bytes) (x : F64) :
    protoGet tbl kv ≠ .ok (.char ch x) := by
  unfold protoGet
  intro h
  repeat' split at h
  all_goals cases h

theorem getMember_char (h : Heap) (v kv : Val) (ch : Option Bytes) (x : F64)
    (hg : getMember h v kv = .ok (.char ch x)) :
    (∃ s sp, v = .str s sp) ∧ ∃ y, kv = .num y ∧ x = F64.ofInt y.toGoInt := by
  cases v with
  | str s sp =>
    refine ⟨⟨s, sp, rfl⟩, ?_⟩
    cases kv with
    | num y =>
      simp only [getMember] at hg
      split at hg <;> (simp only [Except.ok.injEq, Member.char.injEq] at hg; exact ⟨y, rfl, hg.2.symm⟩)
    | _ => simp only [getMember] at hg; exact absurd hg (protoGet_not_char _ _ _ _)
  | arr a =>
    cases kv with
    | num y =>
      simp only [getMember] at hg
      repeat' split at hg
      all_goals cases hg
    | _ => simp only [getMember] at hg; exact absurd hg (protoGet_not_char _ _ _ _)
  | obj o =>
    cases kv with
    | num y =>
      simp only [getMember] at hg
      split at hg
      · cases hg
      · exact absurd hg (protoGet_not_char _ _ _ _)
    | str s sp =>
      simp only [getMember] at hg
      split at hg
      · cases hg
      · exact absurd hg (protoGet_not_char _ _ _ _)
    | _ => simp only [getMember] at hg; cases hg
  | num y => simp only [getMember] at hg; exact absurd hg (protoGet_not_char _ _ _ _)
  | _ => simp only [getMember] at hg; cases hg

/-- the outcomes of a successful member step on a base that is set -/
theorem memberRead_cases (pos : Nat) (left : CellId) (kv : Val) (s : St) (q2 : CellId) (s1 : St)
    (hk : IsKeyShape kv) (h : memberRead pos left kv s = .ok q2 s1) :
    (getMember s.heap (s.heap.get left) kv = .ok (.cell q2) ∧
      (∀ f b sp, s.heap.get q2 ≠ .native f b sp) ∧ s1 = s) ∨
    (∃ v, q2 = s.heap.cells.size ∧ s1 = { s with heap := (s.heap.alloc v).2 } ∧
      ((∃ k, v = .nil (some ⟨left, k⟩) ∧
          (k = keyOf kv ∨ ∃ s0 sp0, s.heap.get left = .str s0 sp0) ∧
          MissingRaw s.heap (s.heap.get left) kv) ∨
       (∃ f b sp, v = .native f b (some sp)) ∨ (∃ ch sp, v = .str ch (some sp)))) := by
  unfold memberRead at h
  simp only [bind, EM.bind, readCell, getHeap] at h
  have fresh : ∀ v, Jqawk.newCell v s = .ok q2 s1 →
      q2 = s.heap.cells.size ∧ s1 = { s with heap := (s.heap.alloc v).2 } := by
    intro v hn
    simp only [Jqawk.newCell, Res.ok.injEq] at hn
    exact ⟨hn.1.symm, hn.2.symm⟩
  cases hg : getMember s.heap (s.heap.get left) kv with
  | error m => rw [hg] at h; simp [Jqawk.throwRt] at h
  | ok mem =>
    rw [hg] at h
    cases mem with
    | missing =>
      obtain ⟨e1, e2⟩ := fresh _ h
      refine .inr ⟨_, e1, e2, .inl ⟨keyOf kv, ?_, .inl rfl, getMember_missing_raw _ _ _ hk hg⟩⟩
      rcases hk with ⟨s0, rfl⟩ | ⟨x, rfl⟩ <;> rfl
    | method f =>
      obtain ⟨e1, e2⟩ := fresh _ h
      exact .inr ⟨_, e1, e2, .inr (.inl ⟨_, _, _, rfl⟩)⟩
    | char ch x =>
      cases ch with
      | none =>
        obtain ⟨e1, e2⟩ := fresh _ h
        obtain ⟨⟨s0, sp0, e⟩, _⟩ := getMember_char _ _ _ _ _ hg
        refine .inr ⟨_, e1, e2, .inl ⟨.num x, rfl, .inr ⟨s0, sp0, e⟩, ?_⟩⟩
        rw [e]
        exact ⟨(fun o e' => by cases e'), (fun a e' => by cases e')⟩
      | some c0 =>
        obtain ⟨e1, e2⟩ := fresh _ h
        exact .inr ⟨_, e1, e2, .inr (.inr ⟨_, _, rfl⟩)⟩
    | cell c0 =>
      dsimp only at h
      cases hv : s.heap.get c0 with
      | native f b0 sp0 =>
        rw [hv] at h
        obtain ⟨e1, e2⟩ := fresh _ h
        exact .inr ⟨_, e1, e2, .inr (.inl ⟨_, _, _, rfl⟩)⟩
      | _ =>
        rw [hv] at h
        simp only [pure, EM.pure, Res.ok.injEq] at h
        obtain ⟨rfl, rfl⟩ := h
        exact .inl ⟨rfl, (fun f b sp e => by rw [hv] at e; cases e), rfl⟩


/-! ## the states paths are evaluated in -/

/-- the cell is allocated and is not a stand-in for a missing member -/
def CellFine (h : Heap) (c : CellId) : Prop := c < h.cells.size ∧ (h.get c).spec? = none

instance (h : Heap) (c : CellId) : Decidable (CellFine h c) := by unfold CellFine; infer_instance

instance decForallEqSome {α : Type} (o : Option α) (P : α → Prop) [∀ a, Decidable (P a)] :
    Decidable (∀ c, o = some c → P c) :=
  match o with
  | none => isTrue (by intro c h; cases h)
  | some a => if h : P a then isTrue (by intro c e; cases e; exact h) else isFalse (fun H => h (H a rfl))

/-- well-formedness of a state, as far as the evaluation of a path looks at it: every cell that
    holds an array / object refers to an allocated one; every array element, object member,
    variable binding and `$` is an allocated cell that is not a stand-in for a missing member
    (stand-ins are created by reads of missing members and become members only by an assignment,
    which overwrites them; so this holds in every state reached between statements).
    All quantifiers are bounded: `decide` can check it for a concrete state. -/
def PathOK (s : St) : Prop :=
  (∀ c, c < s.heap.cells.size → (s.heap.get c).contOK s.heap = true) ∧
  (∀ a, a < s.heap.arrs.size → ∀ c ∈ (s.heap.arr a).toList, CellFine s.heap c) ∧
  (∀ o, o < s.heap.objs.size → ∀ kc ∈ s.heap.obj o, CellFine s.heap kc.2) ∧
  (∀ f ∈ s.frames, ∀ kc ∈ f.locals, CellFine s.heap kc.2) ∧
  (∀ c, s.ruleRoot = some c → CellFine s.heap c)

instance (s : St) : Decidable (PathOK s) := by unfold PathOK; infer_instance

theorem objLookup_mem {m : List (Bytes × CellId)} {k : Bytes} {c : CellId}
    (h : objLookup m k = some c) : ∃ k', (k', c) ∈ m := by
  induction m with
  | nil => cases h
  | cons kv rest ih =>
    obtain ⟨k0, c0⟩ := kv
    simp only [objLookup] at h
    split at h
    · cases h; exact ⟨k0, List.mem_cons_self⟩
    · obtain ⟨k', hk'⟩ := ih h; exact ⟨k', List.mem_cons_of_mem _ hk'⟩

theorem mem_objInsert {m : List (Bytes × CellId)} {k : Bytes} {c : CellId} {kc : Bytes × CellId}
    (h : kc ∈ objInsert m k c) : kc ∈ m ∨ kc.2 = c := by
  induction m with
  | nil => simp only [objInsert, List.mem_singleton] at h; subst h; exact .inr rfl
  | cons kv rest ih =>
    obtain ⟨k0, c0⟩ := kv
    simp only [objInsert] at h
    split at h
    · rcases List.mem_cons.mp h with e | e
      · subst e; exact .inr rfl
      · exact .inl (List.mem_cons_of_mem _ e)
    · rcases List.mem_cons.mp h with e | e
      · subst e; exact .inl List.mem_cons_self
      · rcases ih e with e' | e'
        · exact .inl (List.mem_cons_of_mem _ e')
        · exact .inr e'

theorem lookupFrames_mem {fs : List Frame} {name : Bytes} {c : CellId}
    (h : lookupFrames fs name = some c) : ∃ f ∈ fs, ∃ kc ∈ f.locals, kc.2 = c := by
  induction fs with
  | nil => cases h
  | cons f rest ih =>
    simp only [lookupFrames] at h
    split at h
    · rename_i c' hl
      cases h
      obtain ⟨k', hk'⟩ := objLookup_mem hl
      exact ⟨f, List.mem_cons_self, (k', c), hk', rfl⟩
    · obtain ⟨f', hf', r⟩ := ih h
      exact ⟨f', List.mem_cons_of_mem _ hf', r⟩

theorem PathOK.member {s : St} (ok : PathOK s) {o : ObjId} {k : Bytes} {c : CellId}
    (h : objLookup (s.heap.obj o) k = some c) : CellFine s.heap c := by
  by_cases ho : o < s.heap.objs.size
  · obtain ⟨k', hk'⟩ := objLookup_mem h
    exact ok.2.2.1 o ho (k', c) hk'
  · rw [Heap.obj_empty_of_invalid _ _ ho] at h; cases h

theorem PathOK.elem {s : St} (ok : PathOK s) {a : ArrId} {i : Nat} (h : i < (s.heap.arr a).size) :
    CellFine s.heap ((s.heap.arr a).getD i 0) := by
  by_cases ha : a < s.heap.arrs.size
  · apply ok.2.1 a ha
    simp only [Array.getD_eq_getD_getElem?, Array.getElem?_eq_getElem h, Option.getD_some]
    exact Array.getElem_mem_toList h
  · rw [Heap.arr_empty_of_invalid _ _ ha] at h; exact absurd h (Nat.not_lt_zero _)

theorem PathOK.local {s : St} (ok : PathOK s) {name : Bytes} {c : CellId}
    (h : lookupFrames s.frames name = some c) : CellFine s.heap c := by
  obtain ⟨f, hf, kc, hkc, rfl⟩ := lookupFrames_mem h
  exact ok.2.2.2.1 f hf kc hkc

theorem CellFine.lift {h h' : Heap} {c : CellId} (f : CellFine h c) (p : HeapPreserved h h') :
    CellFine h' c := ⟨Nat.lt_of_lt_of_le f.1 p.cells, by rw [p.get c f.1]; exact f.2⟩

theorem contOK_mono {h h' : Heap} {v : Val} (hv : v.contOK h = true) (ha : h.arrs.size ≤ h'.arrs.size)
    (ho : h.objs.size ≤ h'.objs.size) : v.contOK h' = true := by
  cases v <;> simp only [Val.contOK, decide_eq_true_eq] at hv ⊢
  · exact Nat.lt_of_lt_of_le hv ha
  · exact Nat.lt_of_lt_of_le hv ho

/-- allocating a cell that holds no container keeps the state well-formed -/
theorem PathOK.alloc {s : St} (ok : PathOK s) (v : Val) (hv : v.isCont = false) :
    PathOK { s with heap := (s.heap.alloc v).2 } := by
  have hal := HeapPreserved.alloc s.heap v
  obtain ⟨o1, o2, o3, o4, o5⟩ := ok
  refine ⟨?_, ?_, ?_, ?_, ?_⟩
  · intro c hc
    show ((s.heap.alloc v).2.get c).contOK (s.heap.alloc v).2 = true
    rw [Heap.size_alloc] at hc
    by_cases hlt : c < s.heap.cells.size
    · rw [hal.get c hlt]
      exact contOK_mono (o1 c hlt) hal.arrs hal.objs
    · have : c = s.heap.cells.size := Nat.le_antisymm (Nat.le_of_lt_succ hc) (Nat.le_of_not_lt hlt)
      subst this
      rw [Heap.get_alloc_new_readOnly]
      cases v <;> first | rfl | cases hv
  · intro a ha c hc
    exact (o2 a ha c hc).lift hal
  · intro o ho kc hkc
    exact (o3 o ho kc hkc).lift hal
  · intro f hf kc hkc
    exact (o4 f hf kc hkc).lift hal
  · intro c hc
    exact (o5 c hc).lift hal

/-- a new variable: a fresh unset cell bound in the innermost frame -/
theorem PathOK.newVar {s : St} (ok : PathOK s) (name : Bytes) (f : Frame) (fs : List Frame)
    (hf : s.frames = f :: fs) :
    PathOK { s with heap := (s.heap.alloc .unknown).2,
                    frames := { f with locals := objInsert f.locals name s.heap.cells.size } :: fs } := by
  have ok1 := ok.alloc .unknown rfl
  obtain ⟨o1, o2, o3, o4, o5⟩ := ok1
  refine ⟨o1, o2, o3, ?_, o5⟩
  intro f' hf' kc hkc
  rcases List.mem_cons.mp hf' with e | e
  · subst e
    rcases mem_objInsert hkc with e' | e'
    · exact o4 f (by show f ∈ s.frames; rw [hf]; exact List.mem_cons_self) kc e'
    · rw [e']
      refine ⟨by show _ < (s.heap.alloc .unknown).2.cells.size; rw [Heap.size_alloc]; exact Nat.lt_succ_self _, ?_⟩
      show ((s.heap.alloc .unknown).2.get s.heap.cells.size).spec? = none
      rw [Heap.get_alloc_new_readOnly]; rfl
  · exact o4 f' (by show f' ∈ s.frames; rw [hf]; exact List.mem_cons_of_mem _ e) kc hkc

/-- where a member cell comes from -/
theorem getMember_cell_inv (h : Heap) (v kv : Val) (c : CellId)
    (hg : getMember h v kv = .ok (.cell c)) :
    (∃ a i, v = .arr a ∧ i < (h.arr a).size ∧ c = (h.arr a).getD i 0) ∨
    (∃ o k, v = .obj o ∧ objLookup (h.obj o) k = some c) := by
  cases v with
  | arr a =>
    left
    cases kv with
    | num x =>
      simp only [getMember] at hg
      split at hg
      · cases hg
      · rename_i i _
        by_cases hlt : i < (h.arr a).size
        · rw [if_pos hlt] at hg
          simp only [Except.ok.injEq, Member.cell.injEq] at hg
          exact ⟨a, i, rfl, hlt, hg.symm⟩
        · rw [if_neg hlt] at hg; cases hg
    | _ => simp only [getMember] at hg; exact absurd hg (protoGet_not_cell _ _ _)
  | obj o =>
    right
    cases kv with
    | num x =>
      simp only [getMember] at hg
      split at hg
      · rename_i c' hl; cases hg; exact ⟨o, _, rfl, hl⟩
      · exact absurd hg (protoGet_not_cell _ _ _)
    | str s sp =>
      simp only [getMember] at hg
      split at hg
      · rename_i c' hl; cases hg; exact ⟨o, _, rfl, hl⟩
      · exact absurd hg (protoGet_not_cell _ _ _)
    | _ => simp only [getMember] at hg; cases hg
  | _ =>
    have := (getMember_cell_cont h _ kv c hg).1
    simp [Val.isCont] at this

theorem PathOK.found {s : St} (ok : PathOK s) {v kv : Val} {c : CellId}
    (hg : getMember s.heap v kv = .ok (.cell c)) : CellFine s.heap c := by
  rcases getMember_cell_inv _ _ _ _ hg with ⟨a, i, _, hi, rfl⟩ | ⟨o, k, _, hl⟩
  · exact ok.elem hi
  · exact ok.member hl


/-! ## the first evaluation of a path, described on the heap -/

/-- why the member `kv` of the value in cell `q` was missing: an object does not have the key, an
    array is too short (both allocated) — nothing to say about other values -/
def MissingIn (h : Heap) (q : CellId) (kv : Val) : Prop :=
  (∀ o, h.get q = .obj o → o < h.objs.size ∧ objLookup (h.obj o) kv.str! = none) ∧
  (∀ a, h.get q = .arr a → a < h.arrs.size ∧ ∀ x i, kv = .num x →
    resolveIndex (h.arr a).size x.toGoInt = some i → (h.arr a).size ≤ i)

/-- `PathAt h fs rr x l q`: in the heap `h`, with the variable bindings `fs` and the rule root
    `rr`, the path `l` denotes the cell `q`, level by level: the base is bound; an existing member
    is found (`found`); a missing member is a stand-in cell remembering the cell of the level
    above and the key (`fresh`); a method name / a character of a string is a stand-in of another
    kind (`other`).  No cell a proper prefix denotes is the cell `x` (if given). -/
inductive PathAt (h : Heap) (fs : List Frame) (rr : Option CellId) (x : Option CellId) : Expr → CellId → Prop
  | dollar {t : Token} {q : CellId} (ht : (t.tag == Tag.dollar) = true) (hr : rr = some q)
      (hq : CellFine h q) : PathAt h fs rr x (.ident t) q
  | var {t : Token} {q : CellId} (ht : (t.tag == Tag.dollar) = false)
      (hl : lookupFrames fs t.text = some q) (hq : CellFine h q) : PathAt h fs rr x (.ident t) q
  | found {l : Expr} {t op : Token} {q : CellId} {kv : Val} {q2 : CellId}
      (hp : PathAt h fs rr x l q) (hx : x ≠ some q) (hop : op.tag = .dot ∨ op.tag = .lsquare)
      (hk : litKey t = some kv) (hg : getMember h (h.get q) kv = .ok (.cell q2))
      (hq2 : CellFine h q2) (hnn : ∀ f b sp, h.get q2 ≠ .native f b sp) :
      PathAt h fs rr x (.binary l (.lit t) op) q2
  | fresh {l : Expr} {t op : Token} {q : CellId} {kv : Val} {q2 : CellId} {k : Key}
      (hp : PathAt h fs rr x l q) (hx : x ≠ some q) (hop : op.tag = .dot ∨ op.tag = .lsquare)
      (hk : litKey t = some kv) (hv : h.get q2 = .nil (some ⟨q, k⟩))
      (hkey : k = keyOf kv ∨ ∃ s0 sp0, h.get q = .str s0 sp0)
      (hm : MissingIn h q kv) : PathAt h fs rr x (.binary l (.lit t) op) q2
  | other {l : Expr} {t op : Token} {q : CellId} {kv : Val} {q2 : CellId}
      (hp : PathAt h fs rr x l q) (hx : x ≠ some q) (hop : op.tag = .dot ∨ op.tag = .lsquare)
      (hk : litKey t = some kv)
      (hv : (∃ f b sp, h.get q2 = .native f b (some sp)) ∨ (∃ ch sp, h.get q2 = .str ch (some sp))) :
      PathAt h fs rr x (.binary l (.lit t) op) q2

theorem PathAt.lt {h : Heap} {fs : List Frame} {rr x : Option CellId} {l : Expr} {q : CellId}
    (p : PathAt h fs rr x l q) : q < h.cells.size := by
  cases p with
  | dollar _ _ hq => exact hq.1
  | var _ _ hq => exact hq.1
  | found _ _ _ _ _ hq2 _ => exact hq2.1
  | fresh _ _ _ _ hv _ _ => exact Heap.lt_of_get_ne_unknown _ _ (by rw [hv]; simp)
  | other _ _ _ _ hv =>
    apply Heap.lt_of_get_ne_unknown
    rcases hv with ⟨f, b, sp, e⟩ | ⟨ch, sp, e⟩ <;> rw [e] <;> simp

theorem MissingIn.lift {h h' : Heap} {q : CellId} {kv : Val} (m : MissingIn h q kv)
    (hq : q < h.cells.size) (p : HeapPreserved h h') : MissingIn h' q kv := by
  constructor
  · intro o e
    rw [p.get q hq] at e
    obtain ⟨h1, h2⟩ := m.1 o e
    exact ⟨Nat.lt_of_lt_of_le h1 p.objs, by rw [p.obj o h1]; exact h2⟩
  · intro a e
    rw [p.get q hq] at e
    obtain ⟨h1, h2⟩ := m.2 a e
    exact ⟨Nat.lt_of_lt_of_le h1 p.arrs, by rw [p.arr a h1]; exact h2⟩

theorem getMember_preserved {h h' : Heap} (p : HeapPreserved h h') (v kv : Val)
    (hv : v.contOK h = true) : getMember h' v kv = getMember h v kv := by
  apply getMember_congr
  · intro a e; subst e
    simp only [Val.contOK, decide_eq_true_eq] at hv
    exact p.arr a hv
  · intro o e; subst e
    simp only [Val.contOK, decide_eq_true_eq] at hv
    exact p.obj o hv

/-- the description is stable under allocation and new bindings -/
theorem PathAt.lift {h : Heap} {fs : List Frame} {rr x : Option CellId} {l : Expr} {q : CellId}
    (pa : PathAt h fs rr x l q) {h' : Heap} {fs' : List Frame} (p : HeapPreserved h h')
    (pf : FramesPreserved fs fs') : PathAt h' fs' rr x l q := by
  induction pa with
  | dollar ht hr hq => exact .dollar ht hr (hq.lift p)
  | var ht hl hq => exact .var ht (pf _ _ hl) (hq.lift p)
  | found hp hx hop hk hg hq2 hnn ih =>
    have hq := hp.lt
    refine .found ih hx hop hk ?_ (hq2.lift p) (by rw [p.get _ hq2.1]; exact hnn)
    rw [p.get _ hq, getMember_preserved p _ _ (getMember_cell_cont _ _ _ _ hg).2]
    exact hg
  | fresh hp hx hop hk hv hkey hm ih =>
    have hq2 : _ < h.cells.size := Heap.lt_of_get_ne_unknown _ _ (by rw [hv]; simp)
    exact .fresh ih hx hop hk (by rw [p.get _ hq2]; exact hv) (by rw [p.get _ hp.lt]; exact hkey)
      (hm.lift hp.lt p)
  | other hp hx hop hk hv ih =>
    rename_i l0 t0 op0 q0 kv0 q20
    have hq2 : q20 < h.cells.size := by
      apply Heap.lt_of_get_ne_unknown
      rcases hv with ⟨f, b, sp, e⟩ | ⟨ch, sp, e⟩ <;> rw [e] <;> simp
    exact .other ih hx hop hk (by rw [p.get _ hq2]; exact hv)

/-- the cells the proper prefixes of a path evaluate to (the path evaluated with fuel `n`) -/
def pathCells (prog : Program) : Nat → Expr → St → List CellId
  | n + 2, .binary l _ _, s =>
    match evalExpr prog n l s with
    | .ok q _ => q :: pathCells prog n l s
    | _ => []
  | _, _, _ => []

/-- the outcomes of a successful evaluation of an identifier -/
theorem evalExpr_ident_cases (prog : Program) (n : Nat) (t : Token) (s : St) (q : CellId) (s1 : St)
    (h : evalExpr prog n (.ident t) s = .ok q s1) :
    ((t.tag == Tag.dollar) = true ∧ s.ruleRoot = some q ∧ s1 = s) ∨
    ((t.tag == Tag.dollar) = false ∧ lookupFrames s.frames t.text = some q ∧ s1 = s) ∨
    ((t.tag == Tag.dollar) = false ∧ lookupFrames s.frames t.text = none ∧ q = s.heap.cells.size ∧
      ∃ f fs, s.frames = f :: fs ∧
        s1 = { s with heap := (s.heap.alloc .unknown).2,
                      frames := { f with locals := objInsert f.locals t.text s.heap.cells.size } :: fs }) := by
  cases n with
  | zero => unfold evalExpr at h; cases h
  | succ n =>
    unfold evalExpr at h
    dsimp only at h
    unfold getIdentifier at h
    by_cases hd : (t.tag == Tag.dollar) = true
    · simp only [hd, ↓reduceIte, bind, EM.bind, Jqawk.getSt] at h
      cases hr : s.ruleRoot with
      | none => rw [hr] at h; simp [Jqawk.throwRt] at h
      | some c =>
        rw [hr] at h
        simp only [pure, EM.pure, Res.ok.injEq] at h
        obtain ⟨rfl, rfl⟩ := h
        exact .inl ⟨hd, rfl, rfl⟩
    · have hd' : (t.tag == Tag.dollar) = false := by simpa using hd
      simp only [hd', Bool.false_eq_true, ↓reduceIte] at h
      right
      cases hl : lookupFrames s.frames t.text with
      | some c =>
        simp only [bind, EM.bind, Jqawk.getVariable, Jqawk.getSt, hl, pure, EM.pure, Res.ok.injEq] at h
        obtain ⟨rfl, rfl⟩ := h
        exact .inl ⟨hd', rfl, rfl⟩
      | none =>
        right
        by_cases hdol : (t.text.head? == some 36) = true
        · simp [bind, EM.bind, Jqawk.getVariable, Jqawk.getSt, hl, pure, EM.pure, hdol, Jqawk.throwRt] at h
        · have hdol' : (t.text.head? == some 36) = false := by simpa using hdol
          simp only [bind, EM.bind, Jqawk.getVariable, Jqawk.getSt, hl, hdol', Bool.false_eq_true, ↓reduceIte,
            Jqawk.newCell, Jqawk.setLocal, Heap.alloc] at h
          cases hf : s.frames with
          | nil => rw [hf] at h; simp at h
          | cons f fs =>
            rw [hf] at h
            simp only [pure, EM.pure, Res.ok.injEq] at h
            obtain ⟨rfl, rfl⟩ := h
            exact ⟨hd', rfl, rfl, f, fs, rfl, rfl⟩

theorem newCell_eq (v : Val) (s : St) :
    Jqawk.newCell v s = .ok s.heap.cells.size { s with heap := (s.heap.alloc v).2 } := rfl

theorem IsKeyVal.shape {kv : Val} (h : IsKeyVal kv) : IsKeyShape kv := by
  rcases h with ⟨s, rfl⟩ | ⟨x, rfl, _⟩
  · exact .inl ⟨s, rfl⟩
  · exact .inr ⟨x, rfl⟩

theorem IsKeyVal.notCont {kv : Val} (h : IsKeyVal kv) : kv.isCont = false := by
  rcases h with ⟨s, rfl⟩ | ⟨x, rfl, _⟩ <;> rfl

/-- **the first evaluation of a path**: it only allocates (and may bind a new variable); the
    state stays well-formed; the result is described by `PathAt` in the final heap; the fuel
    was enough -/
theorem evalPath_trace (prog : Program) (x : Option CellId) : ∀ (n : Nat) (l : Expr) (s : St)
    (q : CellId) (s1 : St), l.isPath = true → evalExpr prog n l s = .ok q s1 → PathOK s →
    (∀ y, x = some y → y ∉ pathCells prog n l s) →
    Rel true s s1 ∧ PathOK s1 ∧ PathAt s1.heap s1.frames s1.ruleRoot x l q ∧ l.pathFuel ≤ n := by
  intro n
  induction n using Nat.strongRecOn with
  | _ n ih =>
  intro l s q s1 hpath hev hok hx
  cases l with
  | ident t =>
    have hn : 1 ≤ n := by
      cases n with
      | zero => unfold evalExpr at hev; cases hev
      | succ m => exact Nat.succ_le_succ (Nat.zero_le _)
    rcases evalExpr_ident_cases prog n t s q s1 hev with
      ⟨hd, hr, rfl⟩ | ⟨hd, hl, rfl⟩ | ⟨hd, hl, rfl, f, fs, hf, rfl⟩
    · exact ⟨Rel.refl true _, hok, .dollar hd hr (hok.2.2.2.2 q hr), hn⟩
    · exact ⟨Rel.refl true _, hok, .var hd hl (hok.local hl), hn⟩
    · refine ⟨⟨HeapPreserved.alloc _ _, ?_, rfl, rfl⟩, hok.newVar t.text f fs hf, .var hd ?_ ?_, hn⟩
      · intro _ name c hc
        show lookupFrames ({ f with locals := objInsert f.locals t.text s.heap.cells.size } :: fs) name = some c
        rw [lookupFrames_setLocal]
        split
        · rename_i e; subst e; rw [hl] at hc; cases hc
        · rw [hf] at hc; exact hc
      · show lookupFrames ({ f with locals := objInsert f.locals t.text s.heap.cells.size } :: fs) t.text = _
        rw [lookupFrames_setLocal]; simp
      · refine ⟨?_, ?_⟩
        · show _ < (s.heap.alloc .unknown).2.cells.size
          rw [Heap.size_alloc]; exact Nat.lt_succ_self _
        · show ((s.heap.alloc .unknown).2.get s.heap.cells.size).spec? = none
          rw [Heap.get_alloc_new_readOnly]; rfl
  | binary l' r op =>
    cases r with
    | lit t =>
      simp only [Expr.isPath, Bool.and_eq_true, Bool.or_eq_true, beq_iff_eq] at hpath
      obtain ⟨⟨hop, hkey⟩, hl'⟩ := hpath
      obtain ⟨kv, hkv⟩ := Option.isSome_iff_exists.mp hkey
      have hkval := litKey_isKeyVal hkv
      cases n with
      | zero => unfold evalExpr at hev; cases hev
      | succ n1 =>
      cases n1 with
      | zero => unfold evalExpr at hev; dsimp only at hev; unfold evalBinary at hev; cases hev
      | succ m =>
      rw [evalExpr_member_eq prog m l' t op s hop] at hev
      simp only [bind, EM.bind] at hev
      cases h1 : evalExpr prog m l' s with
      | oof => rw [h1] at hev; cases hev
      | err e sE => rw [h1] at hev; cases hev
      | ok q0 sA =>
        rw [h1] at hev
        dsimp only at hev
        have hxs : pathCells prog (m + 2) (.binary l' (.lit t) op) s = q0 :: pathCells prog m l' s := by
          simp only [pathCells, h1]
        obtain ⟨rA, okA, pA, fuelA⟩ := ih m (by omega) l' s q0 sA hl' h1 hok
          (fun y hy hmem => hx y hy (by rw [hxs]; exact List.mem_cons_of_mem _ hmem))
        have hxq : x ≠ some q0 := fun e => hx q0 e (by rw [hxs]; exact List.mem_cons_self)
        cases m with
        | zero => unfold evalExpr at h1; cases h1
        | succ m' =>
        rw [evalExpr_lit_litKey prog m' t kv sA hkv, newCell_eq] at hev
        dsimp only at hev
        rw [memberStep_eq] at hev
        have hB : ({ sA with heap := (sA.heap.alloc kv).2 } : St).heap.get sA.heap.cells.size = kv :=
          Heap.get_alloc_new_readOnly _ _
        rw [hB] at hev
        have okB : PathOK { sA with heap := (sA.heap.alloc kv).2 } := okA.alloc kv hkval.notCont
        have halB : HeapPreserved sA.heap (sA.heap.alloc kv).2 := HeapPreserved.alloc _ _
        have hq0 : q0 < sA.heap.cells.size := pA.lt
        have hgetq0 : (sA.heap.alloc kv).2.get q0 = sA.heap.get q0 := halB.get q0 hq0
        have pB : PathAt (sA.heap.alloc kv).2 sA.frames sA.ruleRoot x l' q0 := pA.lift halB (fun _ _ h => h)
        have relB : Rel true s { sA with heap := (sA.heap.alloc kv).2 } := rA.trans (Rel.heapOnly sA _ halB)
        have hfuel : (Expr.binary l' (.lit t) op).pathFuel ≤ m' + 1 + 2 := by
          simp only [Expr.pathFuel]; omega
        -- a fresh cell is the result
        have freshCase : ∀ v : Val, v.isCont = false →
            (PathAt ((sA.heap.alloc kv).2.alloc v).2 sA.frames sA.ruleRoot x l' q0 →
              PathAt ((sA.heap.alloc kv).2.alloc v).2 sA.frames sA.ruleRoot x (.binary l' (.lit t) op)
                (sA.heap.alloc kv).2.cells.size) →
            Rel true s { sA with heap := ((sA.heap.alloc kv).2.alloc v).2 } ∧
            PathOK { sA with heap := ((sA.heap.alloc kv).2.alloc v).2 } ∧
            PathAt ((sA.heap.alloc kv).2.alloc v).2 sA.frames sA.ruleRoot x (.binary l' (.lit t) op)
              (sA.heap.alloc kv).2.cells.size ∧
            (Expr.binary l' (.lit t) op).pathFuel ≤ m' + 1 + 2 := by
          intro v hv hmk
          have hal2 := HeapPreserved.alloc (sA.heap.alloc kv).2 v
          exact ⟨relB.trans (Rel.heapOnly _ _ hal2), okB.alloc v hv, hmk (pB.lift hal2 (fun _ _ h => h)), hfuel⟩
        by_cases hu : (sA.heap.alloc kv).2.get q0 = .unknown
        · rw [if_pos hu, newCell_eq] at hev
          simp only [Res.ok.injEq] at hev
          obtain ⟨rfl, rfl⟩ := hev
          refine freshCase _ rfl (fun pC => .fresh pC hxq hop hkv (Heap.get_alloc_new_readOnly _ _)
            (.inl rfl) ?_)
          have hu2 : ((sA.heap.alloc kv).2.alloc (.nil (some ⟨q0, keyOf kv⟩))).2.get q0 = .unknown := by
            rw [Heap.get_alloc_old _ _ _ (Nat.lt_of_lt_of_le hq0 halB.cells)]; exact hu
          exact ⟨(fun o e => by rw [hu2] at e; cases e), (fun a e => by rw [hu2] at e; cases e)⟩
        · rw [if_neg hu] at hev
          rcases memberRead_cases _ _ _ _ _ _ hkval.shape hev with ⟨hg, hnn, rfl⟩ | ⟨v, rfl, rfl, hv⟩
          · exact ⟨relB, okB, .found pB hxq hop hkv hg (okB.found hg) hnn, hfuel⟩
          · rcases hv with ⟨k0, rfl, hk0, hmr⟩ | ⟨f, b, sp, rfl⟩ | ⟨ch, sp, rfl⟩
            · have hq0B' : q0 < (sA.heap.alloc kv).2.cells.size := Nat.lt_of_lt_of_le hq0 halB.cells
              refine freshCase _ rfl (fun pC => .fresh pC hxq hop hkv (Heap.get_alloc_new_readOnly _ _)
                (by rw [Heap.get_alloc_old _ _ _ hq0B']; exact hk0) ?_)
              have hq0B : q0 < (sA.heap.alloc kv).2.cells.size := Nat.lt_of_lt_of_le hq0 halB.cells
              have hcont := okB.1 q0 hq0B
              have hal2 := HeapPreserved.alloc (sA.heap.alloc kv).2 (.nil (some ⟨q0, k0⟩))
              have hm0 : MissingIn (sA.heap.alloc kv).2 q0 kv := by
                constructor
                · intro o e
                  change ((sA.heap.alloc kv).2.get q0).contOK (sA.heap.alloc kv).2 = true at hcont
                  rw [e] at hcont
                  exact ⟨by simpa [Val.contOK] using hcont, hmr.1 o e⟩
                · intro a e
                  change ((sA.heap.alloc kv).2.get q0).contOK (sA.heap.alloc kv).2 = true at hcont
                  rw [e] at hcont
                  exact ⟨by simpa [Val.contOK] using hcont, hmr.2 a e⟩
              exact hm0.lift hq0B hal2
            · exact freshCase _ rfl (fun pC => .other pC hxq hop hkv
                (.inl ⟨f, b, sp, Heap.get_alloc_new_readOnly _ _⟩))
            · exact freshCase _ rfl (fun pC => .other pC hxq hop hkv
                (.inr ⟨ch, sp, Heap.get_alloc_new_readOnly _ _⟩))
    | _ => simp [Expr.isPath] at hpath
  | _ => simp [Expr.isPath] at hpath


/-! ## the re-evaluation of the path after the store -/

theorem evalExpr_ident_dollar (prog : Program) (n : Nat) (t : Token) (s : St) (c : CellId)
    (ht : (t.tag == Tag.dollar) = true) (hr : s.ruleRoot = some c) :
    evalExpr prog (n + 1) (.ident t) s = .ok c s := by
  unfold evalExpr
  dsimp only
  unfold getIdentifier
  simp only [ht, ↓reduceIte, bind, EM.bind, Jqawk.getSt, hr, pure, EM.pure]

theorem memberRead_found (pos : Nat) (left : CellId) (kv : Val) (s : St) (c0 : CellId)
    (hg : getMember s.heap (s.heap.get left) kv = .ok (.cell c0))
    (hnn : ∀ f b sp, s.heap.get c0 ≠ .native f b sp) : memberRead pos left kv s = .ok c0 s := by
  unfold memberRead
  simp only [bind, EM.bind, readCell, getHeap, hg]
  cases hv : s.heap.get c0 with
  | native f b sp => exact absurd hv (hnn f b sp)
  | _ => rfl

theorem pathFuel_pos (l : Expr) : 1 ≤ l.pathFuel := by
  cases l <;> simp [Expr.pathFuel]

theorem isCont_not_native {v : Val} (h : v.isCont = true) : ∀ f b sp, v ≠ .native f b sp := by
  intro f b sp e; subst e; cases h

theorem isCont_ne_unknown {v : Val} (h : v.isCont = true) : v ≠ .unknown := by
  intro e; subst e; cases h

/-- one member step of the re-evaluation: the prefix evaluated to `q'`, whose value `V` (a
    container) has the member cell `np` for the literal key -/
theorem evalMember_forward (prog : Program) (m : Nat) (l : Expr) (t op : Token) (kv : Val) (s sA : St)
    (q' np : CellId) (hop : op.tag = .dot ∨ op.tag = .lsquare) (hk : litKey t = some kv)
    (h1 : evalExpr prog (m + 1) l s = .ok q' sA) (hq' : q' < sA.heap.cells.size)
    (hnp : np < sA.heap.cells.size)
    (hcont : (sA.heap.get q').isCont = true)
    (hg : getMember sA.heap (sA.heap.get q') kv = .ok (.cell np))
    (hnn : ∀ f b sp, sA.heap.get np ≠ .native f b sp) :
    evalExpr prog (m + 1 + 2) (.binary l (.lit t) op) s =
      .ok np { sA with heap := (sA.heap.alloc kv).2 } := by
  rw [evalExpr_member_eq prog (m + 1) l t op s hop]
  simp only [bind, EM.bind, h1]
  rw [evalExpr_lit_litKey prog m t kv sA hk, newCell_eq]
  dsimp only
  rw [memberStep_eq]
  have hal := HeapPreserved.alloc sA.heap kv
  have e1 : (sA.heap.alloc kv).2.get q' = sA.heap.get q' := hal.get q' hq'
  have e2 : (sA.heap.alloc kv).2.get sA.heap.cells.size = kv := Heap.get_alloc_new_readOnly _ _
  have hne : ({ sA with heap := (sA.heap.alloc kv).2 } : St).heap.get q' ≠ .unknown := by
    show (sA.heap.alloc kv).2.get q' ≠ _
    rw [e1]; exact isCont_ne_unknown hcont
  rw [if_neg hne]
  show memberRead _ q' ((sA.heap.alloc kv).2.get sA.heap.cells.size) _ = _
  rw [e2]
  apply memberRead_found
  · show getMember (sA.heap.alloc kv).2 ((sA.heap.alloc kv).2.get q') kv = _
    rw [e1, getMember_preserved hal _ _ (getMember_cell_cont _ _ _ _ hg).2]
    exact hg
  · show ∀ f b sp, (sA.heap.alloc kv).2.get np ≠ _
    rw [hal.get np hnp]; exact hnn

/-- **the re-evaluation**: in any state `t` that extends the heap `H'` after the store (same
    bindings, same `$`), every prefix of the path evaluates again — to a cell that holds, in
    `H'`, what the cell of the first evaluation holds in `H'` (the same cell for levels that
    existed; the new member cell for levels that were missing), and the whole path to `c` -/
theorem reeval (prog : Program) (H H' : Heap) (lc c : CellId) (S : CellId → Prop)
    (eff : Eff H H' lc c S) (fs : List Frame) (rr x : Option CellId) (hxlc : ¬ S lc → x = some lc) :
    ∀ (l : Expr) (q : CellId), PathAt H fs rr x l q → (S q ∨ (H.get q).spec? = none) →
    ∀ (n : Nat) (t : St), l.pathFuel ≤ n → HeapPreserved H' t.heap → FramesPreserved fs t.frames →
      t.ruleRoot = rr →
      ∃ q' t', evalExpr prog n l t = .ok q' t' ∧ HeapPreserved t.heap t'.heap ∧ t'.frames = t.frames ∧
        t'.ruleRoot = t.ruleRoot ∧ q' < H'.cells.size ∧ (q ≠ lc → H'.get q' = H'.get q) ∧
        (q = lc → q' = c) := by
  intro l q pa
  induction pa with
  | dollar ht hr hq =>
    rename_i t0 q0
    intro hS n t hn hp hf hrr
    obtain ⟨n', rfl⟩ : ∃ n', n = n' + 1 := ⟨n - 1, by simp only [Expr.pathFuel] at hn; omega⟩
    refine ⟨q0, t, evalExpr_ident_dollar prog n' t0 t q0 ht (by rw [hrr, hr]), HeapPreserved.refl _, rfl, rfl,
      Nat.lt_of_lt_of_le hq.1 eff.cells, fun _ => rfl, ?_⟩
    intro e
    subst e
    refine (eff.plain ?_).symm
    intro hs
    obtain ⟨sp, e⟩ := eff.spec _ hs
    have := hq.2
    rw [e] at this; cases this
  | var ht hl hq =>
    rename_i t0 q0
    intro hS n t hn hp hf hrr
    obtain ⟨n', rfl⟩ : ∃ n', n = n' + 1 := ⟨n - 1, by simp only [Expr.pathFuel] at hn; omega⟩
    refine ⟨q0, t, evalExpr_ident_bound prog n' t0 t q0 ht (hf _ _ hl), HeapPreserved.refl _, rfl, rfl,
      Nat.lt_of_lt_of_le hq.1 eff.cells, fun _ => rfl, ?_⟩
    intro e
    subst e
    refine (eff.plain ?_).symm
    intro hs
    obtain ⟨sp, e⟩ := eff.spec _ hs
    have := hq.2
    rw [e] at this; cases this
  | found hp0 hx hop hk hg hq2 hnn ih =>
    rename_i l0 t0 op0 q0 kv q2
    intro hS n t hn hp hf hrr
    have hkval := litKey_isKeyVal hk
    obtain ⟨vc1, vc2⟩ := getMember_cell_cont _ _ _ _ hg
    have hq0lt : q0 < H.cells.size := hp0.lt
    have hq0S : ¬ S q0 := by
      intro hs
      obtain ⟨sp, e⟩ := eff.spec _ hs
      rw [e] at vc1; cases vc1
    have hq0lc : q0 ≠ lc := by
      by_cases hs : S lc
      · intro e; exact hq0S (e ▸ hs)
      · intro e; exact hx (by rw [hxlc hs, e])
    have hq0c : q0 ≠ c := by
      rcases eff.tgt with e | e
      · rw [e]; exact hq0lc
      · exact fun e' => Nat.lt_irrefl _ (Nat.lt_of_lt_of_le (e' ▸ hq0lt) e)
    have hkeep : H'.get q0 = H.get q0 := by
      rcases eff.keep q0 hq0lt hq0S hq0c with e | ⟨e, _⟩
      · exact e
      · rw [e] at vc1; cases vc1
    have hpf := pathFuel_pos l0
    obtain ⟨m, rfl⟩ : ∃ m, n = m + 1 + 2 := ⟨n - 3, by simp only [Expr.pathFuel] at hn; omega⟩
    obtain ⟨q', tA, e1, hpA, hfA, hrA, hq'lt, hsame, _⟩ := ih (.inr (by
      cases hv : H.get q0 <;> rw [hv] at vc1 <;> first | rfl | cases vc1)) (m + 1) t
      (by simp only [Expr.pathFuel] at hn; omega) hp hf hrr
    have hpHA : HeapPreserved H' tA.heap := hp.trans hpA
    have hvA : tA.heap.get q' = H.get q0 := by
      rw [hpHA.get q' hq'lt, hsame hq0lc, hkeep]
    have hq2lt' : q2 < H'.cells.size := Nat.lt_of_lt_of_le hq2.1 eff.cells
    have hq2S : ¬ S q2 := by
      intro hs
      obtain ⟨sp, e⟩ := eff.spec _ hs
      have := hq2.2
      rw [e] at this; cases this
    have hcontOK' : (H.get q0).contOK H' = true := contOK_mono vc2 eff.arrs eff.objs
    have hfw := evalMember_forward prog m l0 t0 op0 kv t tA q' q2 hop hk e1
      (Nat.lt_of_lt_of_le hq'lt hpHA.cells) (Nat.lt_of_lt_of_le hq2lt' hpHA.cells)
      (by rw [hvA]; exact vc1)
      (by rw [hvA, getMember_preserved hpHA _ _ hcontOK']
          exact getMember_cell_ext eff.ext _ _ _ hkval hg)
      (by
        rw [hpHA.get q2 hq2lt']
        by_cases hc : q2 = c
        · rw [hc]; exact eff.tgtVal
        · rcases eff.keep q2 hq2.1 hq2S hc with e | ⟨_, e⟩
          · rw [e]; exact hnn
          · exact isCont_not_native e)
    refine ⟨q2, _, hfw, hpA.trans (HeapPreserved.alloc _ _), hfA, hrA, hq2lt', fun _ => rfl, ?_⟩
    intro e
    subst e
    exact (eff.plain hq2S).symm
  | fresh hp0 hx hop hk hv hkey hm ih =>
    rename_i l0 t0 op0 q0 kv q2 k0
    intro hS n t hn hp hf hrr
    have hkval := litKey_isKeyVal hk
    have hS2 : S q2 := by
      rcases hS with h | h
      · exact h
      · rw [hv] at h; cases h
    obtain ⟨hSq0, hq0lc, np, hnplt, hgnp, hnp1, hnp2⟩ := eff.link q2 hS2 q0 k0 hv
    -- a string base cannot have received a member: the stand-in key is the literal key
    have hk0 : k0 = keyOf kv := by
      rcases hkey with e | ⟨s0, sp0, e⟩
      · exact e
      · exfalso
        have hq0lt : q0 < H.cells.size := hp0.lt
        have hnS : ¬ S q0 := by
          intro hs
          obtain ⟨sp, e'⟩ := eff.spec q0 hs
          rw [e] at e'; cases e'
        have hq0c : q0 ≠ c := by
          intro ec
          rcases eff.tgt with e' | e'
          · exact hq0lc (ec.trans e')
          · rw [← ec] at e'; exact absurd hq0lt (Nat.not_lt.mpr e')
        have hcont := (getMember_cell_cont _ _ _ _ hgnp).1
        rcases eff.keep q0 hq0lt hnS hq0c with e' | ⟨e', _⟩
        · rw [e', e] at hcont; cases hcont
        · rw [e] at e'; cases e'
    subst hk0
    rw [keyOf_val hkval] at hgnp
    obtain ⟨vc1, vc2⟩ := getMember_cell_cont _ _ _ _ hgnp
    have hpf := pathFuel_pos l0
    obtain ⟨m, rfl⟩ : ∃ m, n = m + 1 + 2 := ⟨n - 3, by simp only [Expr.pathFuel] at hn; omega⟩
    obtain ⟨q', tA, e1, hpA, hfA, hrA, hq'lt, hsame, _⟩ := ih hSq0 (m + 1) t
      (by simp only [Expr.pathFuel] at hn; omega) hp hf hrr
    have hpHA : HeapPreserved H' tA.heap := hp.trans hpA
    have hvA : tA.heap.get q' = H'.get q0 := by
      rw [hpHA.get q' hq'lt, hsame hq0lc]
    have hfw := evalMember_forward prog m l0 t0 op0 kv t tA q' np hop hk e1
      (Nat.lt_of_lt_of_le hq'lt hpHA.cells) (Nat.lt_of_lt_of_le hnplt hpHA.cells)
      (by rw [hvA]; exact vc1)
      (by rw [hvA, getMember_preserved hpHA _ _ vc2]; exact hgnp)
      (by
        rw [hpHA.get np hnplt]
        by_cases hc : q2 = lc
        · rw [hnp1 hc]; exact eff.tgtVal
        · rw [(hnp2 hc).1]; exact isCont_not_native (hnp2 hc).2)
    exact ⟨np, _, hfw, hpA.trans (HeapPreserved.alloc _ _), hfA, hrA, hnplt,
      fun hne => (hnp2 hne).1, hnp1⟩
  | other hp0 hx hop hk hv ih =>
    rename_i l0 t0 op0 q0 kv q2
    intro hS
    exfalso
    rcases hS with h | h
    · obtain ⟨sp, e⟩ := eff.spec _ h
      rcases hv with ⟨f, b, sp', e'⟩ | ⟨ch, sp', e'⟩ <;> rw [e] at e' <;> cases e'
    · rcases hv with ⟨f, b, sp', e'⟩ | ⟨ch, sp', e'⟩ <;> rw [e'] at h <;> cases h


/-! ## assembling: read-after-write for paths -/

theorem keyOf_num {kv : Val} {x : F64} (h : keyOf kv = .num x) : kv = .num x := by
  cases kv <;> simp only [keyOf, Key.num.injEq, reduceCtorEq] at h
  rw [h]

/-- a path that denotes a stand-in (of the `nil` kind) comes with its chain of stand-ins -/
theorem PathAt.chainW {h : Heap} {fs : List Frame} {rr x : Option CellId} {l : Expr} {q : CellId}
    (pa : PathAt h fs rr x l q) : ∀ sp, h.get q = .nil (some sp) → ∃ b cs, ChainW h b (h.get q) cs := by
  induction pa with
  | dollar ht hr hq => intro sp e; have := hq.2; rw [e] at this; cases this
  | var ht hl hq => intro sp e; have := hq.2; rw [e] at this; cases this
  | found hp hx hop hk hg hq2 hnn ih => intro sp e; have := hq2.2; rw [e] at this; cases this
  | fresh hp hx hop hk hv hkey hm ih =>
    rename_i l0 t0 op0 q0 kv q2 k0
    intro sp _
    have hkval := litKey_isKeyVal hk
    have hspec : (h.get q2).spec? = some ⟨q0, k0⟩ := by rw [hv]; rfl
    by_cases hst : ∃ sp', h.get q0 = .nil (some sp')
    · obtain ⟨sp', e'⟩ := hst
      obtain ⟨b, cs, hc⟩ := ih sp' e'
      exact ⟨b, q0 :: cs, .step hspec e' hc⟩
    · refine ⟨q0, [], .base hspec hp.lt (fun sp' e' => hst ⟨sp', e'⟩) ?_ ?_⟩
      · intro a e
        have hk0 : k0 = keyOf kv := by
          rcases hkey with e' | ⟨s0, sp0, e'⟩
          · exact e'
          · rw [e] at e'; cases e'
        subst hk0
        obtain ⟨h1, h2⟩ := hm.2 a e
        exact ⟨h1, fun y i ey => h2 y i (keyOf_num ey)⟩
      · intro o e
        have hk0 : k0 = keyOf kv := by
          rcases hkey with e' | ⟨s0, sp0, e'⟩
          · exact e'
          · rw [e] at e'; cases e'
        subst hk0
        rw [keyOf_val hkval]
        exact hm.1 o e
  | other hp hx hop hk hv ih =>
    intro sp e
    rcases hv with ⟨f, b, sp', e'⟩ | ⟨ch, sp', e'⟩ <;> rw [e] at e' <;> cases e'

theorem spec_none_speculative {v : Val} (h : v.spec? = none) : v.speculative = false := by
  cases v <;> simp only [Val.spec?] at h <;> first | rfl | (subst h; rfl)

theorem PathOK.objsInRange {s : St} (ok : PathOK s) : ObjsInRange s.heap :=
  fun o k c hl => (ok.member hl).1

/-- the assignment `l = r` unfolds to: evaluate `l`, evaluate `r`, `evalAssignment` -/
theorem assign_unfold (prog : Program) (n : Nat) (l r : Expr) (op : Token) (s s1 s2 : St)
    (lc rc : CellId) (hop : op.tag = .equal)
    (h1 : evalExpr prog n l s = .ok lc s1) (h2 : evalExpr prog n r s1 = .ok rc s2) :
    evalExpr prog (n + 2) (.binary l r op) s = evalAssignment l.token.pos lc rc s2 := by
  conv => lhs; unfold evalExpr
  dsimp only
  conv => lhs; unfold evalBinary
  simp only [bind, EM.bind, h1, hop, h2]

/-- **read-after-write for paths** (any depth, any mix of existing and missing levels).
    `l` a path, `r` read-only, the state well-formed (`PathOK`), `l = r` succeeded and returned
    the cell `c`.  Excluded: a target that is a method name or a character of a string
    (`hkind`); a target cell that exists already and is also the cell of a proper prefix of the
    path (`hna`: a cyclic structure, `o.self.self = 5` where `o.self` is `o`).
    Then evaluating `l` again, in the state after the assignment and with the same fuel, yields
    the same cell `c`, changing nothing; `c` holds a copy (never a method, never a stand-in); it
    is the copy of the value `r` evaluated to — provided the target existed, or that value was
    not unset and not itself a stand-in, or the cell `r` evaluated to was allocated by the
    evaluation of `r` (else see the examples in Props/C09). -/
theorem assign_path_readback (prog : Program) (k : Bool) (n : Nat) (l r : Expr) (op : Token)
    (s s1 s2 s' : St) (lc rc c : CellId)
    (hk : k = true → prog.FnsRO) (hl : l.isPath = true) (hr : Expr.readOnly k r = true)
    (hop : op.tag = .equal) (hok : PathOK s)
    (h1 : evalExpr prog n l s = .ok lc s1) (h2 : evalExpr prog n r s1 = .ok rc s2)
    (hev : evalExpr prog (n + 2) (.binary l r op) s = .ok c s')
    (hkind : (∀ f b sp, s2.heap.get lc ≠ .native f b (some sp)) ∧ (∀ ch sp, s2.heap.get lc ≠ .str ch (some sp)))
    (hna : (s2.heap.get lc).spec? = none → lc ∉ pathCells prog n l s) :
    ∃ s'', evalExpr prog n l s' = .ok c s'' ∧ HeapPreserved s'.heap s''.heap ∧
      s''.frames = s'.frames ∧ s''.ruleRoot = s'.ruleRoot ∧
      (∀ f b sp, s'.heap.get c ≠ .native f b sp) ∧
      (((s2.heap.get lc).spec? = none ∨
          (s2.heap.get rc ≠ .unknown ∧ ∀ sp, s2.heap.get rc ≠ .nil (some sp)) ∨
          (s1.heap.cells.size ≤ rc ∧ rc < s2.heap.cells.size)) →
        copyVal (s2.heap.get rc) = .ok (s'.heap.get c)) := by
  rw [assign_unfold prog n l r op s s1 s2 lc rc hop h1 h2] at hev
  -- the first evaluation of the path
  obtain ⟨rel1, ok1, pa1, hfuel⟩ := evalPath_trace prog
    (if (s2.heap.get lc).spec? = none then some lc else none) n l s lc s1 hl h1 hok (by
      intro y hy
      split at hy
      · rename_i hsn; cases hy; exact hna hsn
      · cases hy)
  -- the right-hand side is read-only
  have all := allRO prog k hk n
  have q2 := all.expr true r hr s1
  rw [h2] at q2
  obtain ⟨rel2, _⟩ := q2 (fun _ => ok1.objsInRange)
  have pa2 := pa1.lift rel2.heap (rel2.frames rfl)
  rw [← rel2.ruleRoot] at pa2
  have hlclt : lc < s2.heap.cells.size := pa2.lt
  by_cases hsn : (s2.heap.get lc).spec? = none
  · -- the target exists
    rw [if_pos hsn] at pa2
    obtain ⟨w, hw, hcl, hs', hgw, eff⟩ := evalAssignment_plain_eff _ lc rc s2 s' c
      (spec_none_speculative hsn) hlclt hev
    subst hs'
    obtain ⟨q', t', e1, hp, hf, hrr, _, _, hq'⟩ := reeval prog _ _ lc c _ eff s2.frames s2.ruleRoot
      (some lc) (fun _ => rfl) l lc pa2 (.inr hsn) n { s2 with heap := s2.heap.set lc w } hfuel
      (HeapPreserved.refl _) (fun _ _ h => h) rfl
    rw [hq' rfl] at e1
    exact ⟨t', e1, hp, hf, hrr, eff.tgtVal, fun _ => by rw [hgw]; exact hw⟩
  · -- the target is a stand-in
    rw [if_neg hsn] at pa2
    obtain ⟨sp, hsp⟩ : ∃ sp, s2.heap.get lc = .nil (some sp) := by
      cases hv : s2.heap.get lc with
      | nil o =>
        cases o with
        | none => rw [hv] at hsn; exact absurd rfl hsn
        | some sp => exact ⟨sp, rfl⟩
      | native f b o =>
        cases o with
        | none => rw [hv] at hsn; exact absurd rfl hsn
        | some sp => exact absurd hv (hkind.1 f b sp)
      | str ch o =>
        cases o with
        | none => rw [hv] at hsn; exact absurd rfl hsn
        | some sp => exact absurd hv (hkind.2 ch sp)
      | _ => rw [hv] at hsn; exact absurd rfl hsn
    have hlc1 : lc < s1.heap.cells.size := pa1.lt
    have e12 : s2.heap.get lc = s1.heap.get lc := rel2.heap.get lc hlc1
    obtain ⟨b, cs, hc1⟩ := pa1.chainW sp (by rw [← e12]; exact hsp)
    have hc : ChainW s2.heap b (s2.heap.get lc) cs := by rw [e12]; exact hc1.lift rel2.heap
    obtain ⟨h3, w, L, fr, hw, rfl, hgw, eff⟩ := evalAssignment_chain_eff _ lc rc b cs sp s2 s' c hsp hc hev
    obtain ⟨q', t', e1, hp, hf, hrr, _, _, hq'⟩ := reeval prog _ _ lc c _ eff s2.frames s2.ruleRoot
      none (fun hn => (hn (.inl rfl)).elim) l lc pa2 (.inl (.inl rfl)) n { s2 with heap := h3.set c w } hfuel
      (HeapPreserved.refl _) (fun _ _ h => h) rfl
    rw [hq' rfl] at e1
    refine ⟨t', e1, hp, hf, hrr, eff.tgtVal, fun hcond => ?_⟩
    have : h3.get rc = s2.heap.get rc := by
      rcases hcond with hsn' | ⟨hu, hns⟩ | ⟨hge, hrclt⟩
      · exact absurd hsn' hsn
      · have hrclt : rc < s2.heap.cells.size := Heap.lt_of_get_ne_unknown _ _ hu
        apply fr.get rc hrclt
        rintro (e | e | ⟨e0, e⟩)
        · rw [e, hsp] at hns; exact hns sp rfl
        · obtain ⟨sp', e'⟩ := hc.mem_nil rc e
          exact hns sp' e'
        · rw [e0] at hu; exact hu e
      · apply fr.get rc hrclt
        rintro (e | e | ⟨e0, _⟩)
        · exact Nat.lt_irrefl _ (Nat.lt_of_lt_of_le (e ▸ hlc1) hge)
        · obtain ⟨sp', e'⟩ := hc1.mem_nil rc e
          have : rc < s1.heap.cells.size := Heap.lt_of_get_ne_unknown _ _ (by rw [e']; simp)
          exact Nat.lt_irrefl _ (Nat.lt_of_lt_of_le this hge)
        · exact Nat.lt_irrefl _ (Nat.lt_of_lt_of_le (e0 ▸ hc1.base_lt) hge)
    rw [hgw, ← this]; exact hw

/-- the stand-in of a method name (`o.length`) or of a character of a string (`s[0]`) -/
def Val.methodOrChar : Val → Bool
  | .native _ _ (some _) => true
  | .str _ (some _) => true
  | _ => false

theorem methodOrChar_false {v : Val} (h : v.methodOrChar = false) :
    (∀ f b sp, v ≠ .native f b (some sp)) ∧ (∀ ch sp, v ≠ .str ch (some sp)) := by
  constructor
  · intro f b sp e; subst e; cases h
  · intro ch sp e; subst e; cases h

/-- a successful assignment decomposes: the target evaluated to a cell, then the source did -/
theorem assign_ok_decompose (prog : Program) (n : Nat) (l r : Expr) (op : Token) (s s' : St) (c : CellId)
    (hop : op.tag = .equal) (hev : evalExpr prog (n + 2) (.binary l r op) s = .ok c s') :
    ∃ lc s1 rc s2, evalExpr prog n l s = .ok lc s1 ∧ evalExpr prog n r s1 = .ok rc s2 := by
  conv at hev => lhs; unfold evalExpr
  dsimp only at hev
  conv at hev => lhs; unfold evalBinary
  simp only [bind, EM.bind, hop] at hev
  cases h1 : evalExpr prog n l s with
  | oof => rw [h1] at hev; cases hev
  | err e s1 => rw [h1] at hev; cases hev
  | ok lc s1 =>
    rw [h1] at hev
    dsimp only at hev
    cases h2 : evalExpr prog n r s1 with
    | oof => rw [h2] at hev; cases hev
    | err e s2 => rw [h2] at hev; cases hev
    | ok rc s2 => exact ⟨lc, s1, rc, s2, rfl, h2⟩


/-- a path is read-only (so the frame theorems for assignments apply to it) -/
theorem isPath_readOnly (k : Bool) : ∀ (l : Expr), l.isPath = true → Expr.readOnly k l = true
  | .ident _, _ => by simp [Expr.readOnly]
  | .binary l r op, h => by
    cases r with
    | lit t =>
      simp only [Expr.isPath, Bool.and_eq_true, Bool.or_eq_true, beq_iff_eq] at h
      have ih := isPath_readOnly k l h.2
      have hne : (op.tag == Tag.equal) = false := by rcases h.1.1 with e | e <;> rw [e] <;> rfl
      simp [Expr.readOnly, ih, hne]
    | _ => simp [Expr.isPath] at h
  | .lit _, h => by simp [Expr.isPath] at h
  | .arr _ _, h => by simp [Expr.isPath] at h
  | .obj _ _, h => by simp [Expr.isPath] at h
  | .unary _ _ _, h => by simp [Expr.isPath] at h
  | .call _ _, h => by simp [Expr.isPath] at h
  | .match_ _ _ _, h => by simp [Expr.isPath] at h

end Jqawk
