/-
  Provenance of positions (C12): the tokens stored in an AST.

  `Expr.tokens kw`, `Stmt.tokens kw`, `Program.tokens`: every token field of every node.  With
  `kw = false` the keyword tokens of statements (`{`, `print`, `break`, `continue`, `next`,
  `exit`) are left out: the evaluator never takes a position from them (`Program.blameTokens`),
  and the implicit `print` of a body-less rule carries the zero token, not a token of the text.
-/
import Jqawk.Model.Parser

namespace Jqawk

/-- a statement's keyword token: listed only when `kw` -/
def kwTok (kw : Bool) (t : Token) : List Token := if kw then [t] else []

mutual
/-- every token stored in an expression tree -/
def Expr.tokens (kw : Bool) : Expr → List Token
  | .lit t => [t]
  | .ident t => [t]
  | .arr t items => t :: tokensEs kw items
  | .obj t items => t :: tokensKVs kw items
  | .unary e op _ => op :: e.tokens kw
  | .binary l r op => op :: (l.tokens kw ++ r.tokens kw)
  | .call f args => f.tokens kw ++ tokensEs kw args
  | .match_ t v cases => t :: (v.tokens kw ++ tokensCases kw cases)
def tokensEs (kw : Bool) : List Expr → List Token
  | [] => []
  | e :: es => e.tokens kw ++ tokensEs kw es
def tokensKVs (kw : Bool) : List (Bytes × Expr) → List Token
  | [] => []
  | (_, e) :: es => e.tokens kw ++ tokensKVs kw es
def tokensCases (kw : Bool) : List MatchCase → List Token
  | [] => []
  | (.mk pats body) :: cs => tokensEs kw pats ++ body.tokens kw ++ tokensCases kw cs
/-- every token stored in a statement tree (keyword tokens only when `kw`) -/
def Stmt.tokens (kw : Bool) : Stmt → List Token
  | .block t body => kwTok kw t ++ tokensSs kw body
  | .print t args => kwTok kw t ++ tokensEs kw args
  | .expr e => e.tokens kw
  | .ret none => []
  | .ret (some e) => e.tokens kw
  | .brk t => kwTok kw t
  | .cont t => kwTok kw t
  | .next t => kwTok kw t
  | .exit t => kwTok kw t
  | .if_ c b none => c.tokens kw ++ b.tokens kw
  | .if_ c b (some e) => c.tokens kw ++ b.tokens kw ++ e.tokens kw
  | .while_ c b => c.tokens kw ++ b.tokens kw
  | .for_ pre c post b => pre.tokens kw ++ c.tokens kw ++ post.tokens kw ++ b.tokens kw
  | .forIn id idx iter b => id :: (idx.toList ++ (iter.tokens kw ++ b.tokens kw))
def tokensSs (kw : Bool) : List Stmt → List Token
  | [] => []
  | s :: ss => s.tokens kw ++ tokensSs kw ss
end

def Rule.tokens (kw : Bool) (r : Rule) : List Token :=
  (match r.pattern with | none => [] | some e => e.tokens kw) ++ r.body.tokens kw

def FuncDef.tokens (kw : Bool) (f : FuncDef) : List Token := f.ident :: f.body.tokens kw

/-- every token stored anywhere in the program -/
def Program.tokens (p : Program) : List Token :=
  p.rules.flatMap (Rule.tokens true) ++ p.functions.flatMap (FuncDef.tokens true)

/-- the tokens the evaluator can take an error position from: all but the keyword tokens of
    statements -/
def Program.blameTokens (p : Program) : List Token :=
  p.rules.flatMap (Rule.tokens false) ++ p.functions.flatMap (FuncDef.tokens false)

/-- every token of the list carries an offset satisfying `G` -/
def TokOK (G : Nat → Prop) (l : List Token) : Prop := ∀ t ∈ l, G t.pos

section
variable {G : Nat → Prop} {kw : Bool}

@[simp] theorem TokOK_nil : TokOK G [] := by intro t h; cases h
@[simp] theorem TokOK_cons (t : Token) (l : List Token) : TokOK G (t :: l) ↔ G t.pos ∧ TokOK G l := by
  simp [TokOK]
@[simp] theorem TokOK_append (a b : List Token) : TokOK G (a ++ b) ↔ TokOK G a ∧ TokOK G b := by
  simp only [TokOK, List.mem_append]
  exact ⟨fun h => ⟨fun t ht => h t (.inl ht), fun t ht => h t (.inr ht)⟩,
    fun h t ht => ht.elim (h.1 t) (h.2 t)⟩
theorem TokOK_kwTok (t : Token) (h : G t.pos) : TokOK G (kwTok kw t) := by
  unfold kwTok; split <;> simp [h]
@[simp] theorem TokOK_kwTok_true (t : Token) : TokOK G (kwTok true t) ↔ G t.pos := by
  simp [kwTok]
@[simp] theorem TokOK_kwTok_false (t : Token) : TokOK G (kwTok false t) := by
  simp [kwTok]
@[simp] theorem TokOK_toList (o : Option Token) : TokOK G o.toList ↔ ∀ t, o = some t → G t.pos := by
  cases o <;> simp [TokOK]

theorem TokOK.mono {G' : Nat → Prop} (h : ∀ p, G p → G' p) {l : List Token} (hl : TokOK G l) :
    TokOK G' l := fun t ht => h _ (hl t ht)

theorem mem_tokensEs (t : Token) (l : List Expr) :
    t ∈ tokensEs kw l ↔ ∃ e ∈ l, t ∈ e.tokens kw := by
  induction l with
  | nil => simp [tokensEs]
  | cons e es ih => simp [tokensEs, ih]

theorem mem_tokensSs (t : Token) (l : List Stmt) :
    t ∈ tokensSs kw l ↔ ∃ e ∈ l, t ∈ e.tokens kw := by
  induction l with
  | nil => simp [tokensSs]
  | cons e es ih => simp [tokensSs, ih]

theorem mem_tokensKVs (t : Token) (l : List (Bytes × Expr)) :
    t ∈ tokensKVs kw l ↔ ∃ e ∈ l, t ∈ e.2.tokens kw := by
  induction l with
  | nil => simp [tokensKVs]
  | cons e es ih => obtain ⟨k, v⟩ := e; simp [tokensKVs, ih]

theorem mem_tokensCases (t : Token) (l : List MatchCase) :
    t ∈ tokensCases kw l ↔ ∃ c ∈ l, t ∈ tokensEs kw c.1 ∨ t ∈ c.2.tokens kw := by
  induction l with
  | nil => simp [tokensCases]
  | cons e es ih => obtain ⟨p, b⟩ := e; simp [tokensCases, ih, or_assoc]

@[simp] theorem TokOK_tokensEs_reverse (l : List Expr) :
    TokOK G (tokensEs kw l.reverse) ↔ TokOK G (tokensEs kw l) := by
  simp [TokOK, mem_tokensEs]
@[simp] theorem TokOK_tokensSs_reverse (l : List Stmt) :
    TokOK G (tokensSs kw l.reverse) ↔ TokOK G (tokensSs kw l) := by
  simp [TokOK, mem_tokensSs]
@[simp] theorem TokOK_tokensKVs_reverse (l : List (Bytes × Expr)) :
    TokOK G (tokensKVs kw l.reverse) ↔ TokOK G (tokensKVs kw l) := by
  simp [TokOK, mem_tokensKVs]
@[simp] theorem TokOK_tokensCases_reverse (l : List MatchCase) :
    TokOK G (tokensCases kw l.reverse) ↔ TokOK G (tokensCases kw l) := by
  simp [TokOK, mem_tokensCases]

/-- `Node.Token()` of an expression is one of its tokens -/
theorem Expr.token_mem (kw : Bool) : ∀ e : Expr, e.token ∈ e.tokens kw
  | .lit t => by simp [Expr.token, Expr.tokens]
  | .ident t => by simp [Expr.token, Expr.tokens]
  | .arr t _ => by simp [Expr.token, Expr.tokens]
  | .obj t _ => by simp [Expr.token, Expr.tokens]
  | .unary _ op _ => by simp [Expr.token, Expr.tokens]
  | .binary l _ _ => by
    simp only [Expr.token, Expr.tokens, List.mem_cons, List.mem_append]
    exact .inr (.inl (Expr.token_mem kw l))
  | .call f _ => by
    simp only [Expr.token, Expr.tokens, List.mem_append]
    exact .inl (Expr.token_mem kw f)
  | .match_ t _ _ => by simp [Expr.token, Expr.tokens]

theorem TokOK.token {e : Expr} (h : TokOK G (e.tokens kw)) : G e.token.pos :=
  h _ (Expr.token_mem kw e)

end

end Jqawk
