/-
  C06 infrastructure: running parser actions (`P = StateT PS PM`) against a token list, keeping
  the unread tokens (`PM.runWith` drops them), and run-level unfolding lemmas for the expression
  functions of the parser.
-/
import Jqawk.Lemmas.PrattSrc

namespace Jqawk

namespace ParseRes
def bind {α β : Type} : ParseRes α → (α → ParseRes β) → ParseRes β
  | .ok a, f => f a
  | .syntaxErr e, _ => .syntaxErr e
  | .oof, _ => .oof

@[simp] theorem bind_ok {α β : Type} (a : α) (f : α → ParseRes β) : (ParseRes.ok a).bind f = f a := rfl
@[simp] theorem bind_syntaxErr {α β : Type} (e : SynErr) (f : α → ParseRes β) :
    (ParseRes.syntaxErr e : ParseRes α).bind f = .syntaxErr e := rfl
@[simp] theorem bind_oof {α β : Type} (f : α → ParseRes β) : (ParseRes.oof : ParseRes α).bind f = .oof := rfl

def map {α β : Type} (f : α → β) : ParseRes α → ParseRes β
  | .ok a => .ok (f a)
  | .syntaxErr e => .syntaxErr e
  | .oof => .oof
end ParseRes

namespace PM

/-- run a parser program on a token list; the result comes with the unread tokens -/
def runL {α : Type} : PM α → List Token → ParseRes (α × List Token)
  | .pure a, ts => .ok (a, ts)
  | .fail e, _ => .syntaxErr e
  | .oof, _ => .oof
  | .next k, [] => (k eofTok false).runL []
  | .next k, t :: ts => (k t false).runL ts
  | .regex _, _ => .syntaxErr ⟨0, "regex request against a token-list source"⟩

theorem runWith_tokSrc {α : Type} (m : PM α) (ts : List Token) :
    m.runWith tokSrc ts = (m.runL ts).map Prod.fst := by
  induction m generalizing ts with
  | pure a => rfl
  | fail e => rfl
  | oof => rfl
  | next k ih =>
    cases ts with
    | nil => simp only [runWith, tokSrc, runL]; exact ih _ _ _
    | cons t ts => simp only [runWith, tokSrc, runL]; exact ih _ _ _
  | regex k ih => rfl

theorem runL_bind {α β : Type} (m : PM α) (f : α → PM β) (ts : List Token) :
    (m.bind f).runL ts = (m.runL ts).bind fun r => (f r.1).runL r.2 := by
  induction m generalizing ts with
  | pure a => rfl
  | fail e => rfl
  | oof => rfl
  | next k ih =>
    cases ts with
    | nil => simp only [PM.bind, runL]; exact ih _ _ _
    | cons t ts => simp only [PM.bind, runL]; exact ih _ _ _
  | regex k ih => rfl

/-- a trailing EOF token is what the list source answers anyway -/
theorem runL_append_eof {α : Type} (m : PM α) (ts : List Token) :
    (m.runL (ts ++ [eofTok])).map Prod.fst = (m.runL ts).map Prod.fst := by
  induction m generalizing ts with
  | pure a => rfl
  | fail e => rfl
  | oof => rfl
  | next k ih =>
    cases ts with
    | nil => simp only [List.nil_append, runL]
    | cons t ts => simp only [List.cons_append, runL]; exact ih _ _ _
  | regex k ih => rfl

end PM

namespace Parser

/-- run a parser action from parser state `s` on the token list `ts` -/
def run {α : Type} (m : P α) (s : PS) (ts : List Token) : ParseRes ((α × PS) × List Token) :=
  (m s).runL ts

/-- the parser state after `advance` has read `t` -/
def adv (s : PS) (t : Token) : PS := { s with prev := s.cur, cur := t, didEnd := false }

@[simp] theorem adv_cur (s : PS) (t : Token) : (adv s t).cur = t := rfl
@[simp] theorem adv_prev (s : PS) (t : Token) : (adv s t).prev = s.cur := rfl

section basic
variable {α β : Type}

@[simp] theorem run_pure (a : α) (s : PS) (ts : List Token) :
    run (pure a : P α) s ts = .ok ((a, s), ts) := rfl

@[simp] theorem run_bind (m : P α) (f : α → P β) (s : PS) (ts : List Token) :
    run (m >>= f) s ts = (run m s ts).bind fun r => run (f r.1.1) r.1.2 r.2 := by
  show ((m s).bind fun p => f p.1 p.2).runL ts = _
  rw [PM.runL_bind]; rfl

@[simp] theorem run_get (s : PS) (ts : List Token) : run (get : P PS) s ts = .ok ((s, s), ts) := rfl

@[simp] theorem run_fail (pos : Nat) (msg : String) (s : PS) (ts : List Token) :
    run (fail pos msg : P α) s ts = .syntaxErr ⟨pos, msg⟩ := rfl

@[simp] theorem run_oof (s : PS) (ts : List Token) : run (oof : P α) s ts = .oof := rfl

@[simp] theorem run_advance_cons (s : PS) (t : Token) (ts : List Token) :
    run advance s (t :: ts) = .ok (((), adv s t), ts) := rfl

@[simp] theorem run_advance_nil (s : PS) : run advance s [] = .ok (((), adv s eofTok), []) := rfl

theorem run_consume_cons (tag : Tag) (s : PS) (t : Token) (ts : List Token) (h : s.cur.tag = tag) :
    run (consume tag) s (t :: ts) = .ok (((), adv s t), ts) := by
  unfold consume
  simp [h]

theorem run_consume_nil (tag : Tag) (s : PS) (h : s.cur.tag = tag) :
    run (consume tag) s [] = .ok (((), adv s eofTok), []) := by
  unfold consume
  simp [h]

@[simp] theorem run_curTag (s : PS) (ts : List Token) : run curTag s ts = .ok ((s.cur.tag, s), ts) := by
  unfold curTag; simp

end basic

end Parser

end Jqawk
