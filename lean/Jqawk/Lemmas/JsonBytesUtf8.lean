import Jqawk.Lemmas.JsonBytesCanon
/-!
  Every string (value or key) in a tree the decoder returns is valid UTF-8: the scanner validates
  the escapes of a string literal and `unquote` turns a validated literal into well-formed UTF-8
  (ill-formed input bytes and lone surrogates become U+FFFD).
-/
namespace Jqawk.JsonBytes
open Jqawk Jqawk.Json

/-! ### well-formed pieces -/

/-- `ch` is a sequence of whole well-formed characters: it can be removed from the front -/
def Whole (ch : Bytes) : Prop := ∀ tail, validUtf8 0 (ch ++ tail) = validUtf8 0 tail

theorem Whole.nil : Whole [] := fun _ => rfl

theorem Whole.append {a b : Bytes} (ha : Whole a) (hb : Whole b) : Whole (a ++ b) := by
  intro tail; rw [List.append_assoc, ha, hb]

theorem whole_of_width (c : UInt8) (body : Bytes) (h : ∀ R, utf8Width c (body ++ R) = body.length + 1) :
    Whole (c :: body) := by
  intro tail
  simp only [List.cons_append, validUtf8, h tail, Nat.add_sub_cancel]
  rw [validUtf8_skip]
  simp

theorem whole_ascii (c : UInt8) (h : c < 0x80) : Whole [c] :=
  whole_of_width c [] (fun R => by simp [utf8Width, h])

theorem whole_fffd : Whole [0xEF, 0xBF, 0xBD] :=
  whole_of_width 0xEF [0xBF, 0xBD] (fun R => by simp [utf8Width])

theorem width2 (c c1 : UInt8) (R : Bytes) (h0 : ¬ c < 0xC2) (h1 : c < 0xE0) (h2 : 0x80 ≤ c1) (h3 : c1 ≤ 0xBF) :
    utf8Width c (c1 :: R) = 2 := by
  have : ¬ c < 0x80 := fun h => h0 (by rw [UInt8.lt_iff_toNat_lt] at *; simp at *; omega)
  simp [utf8Width, this, h0, h1, h2, h3]

theorem width3 (c c1 c2 : UInt8) (R : Bytes) (h0 : ¬ c < 0xE0) (h1 : c < 0xF0)
    (hlo : (if c == 0xE0 then (0xA0 : UInt8) else 0x80) ≤ c1) (hhi : c1 ≤ (if c == 0xED then (0x9F : UInt8) else 0xBF))
    (h2 : 0x80 ≤ c2) (h3 : c2 ≤ 0xBF) : utf8Width c (c1 :: c2 :: R) = 3 := by
  have a1 : ¬ c < 0x80 := fun h => h0 (by rw [UInt8.lt_iff_toNat_lt] at *; simp at *; omega)
  have a2 : ¬ c < 0xC2 := fun h => h0 (by rw [UInt8.lt_iff_toNat_lt] at *; simp at *; omega)
  simp only [utf8Width, a1, a2, h0, h1, if_false, if_true]
  simp only [beq_iff_eq] at hlo hhi
  simp [h2, h3]
  exact ⟨hlo, hhi⟩

theorem width4 (c c1 c2 c3 : UInt8) (R : Bytes) (h0 : ¬ c < 0xF0) (h1 : c < 0xF5)
    (hlo : (if c == 0xF0 then (0x90 : UInt8) else 0x80) ≤ c1) (hhi : c1 ≤ (if c == 0xF4 then (0x8F : UInt8) else 0xBF))
    (h2 : 0x80 ≤ c2) (h3 : c2 ≤ 0xBF) (h4 : 0x80 ≤ c3) (h5 : c3 ≤ 0xBF) :
    utf8Width c (c1 :: c2 :: c3 :: R) = 4 := by
  have a1 : ¬ c < 0x80 := fun h => h0 (by rw [UInt8.lt_iff_toNat_lt] at *; simp at *; omega)
  have a2 : ¬ c < 0xC2 := fun h => h0 (by rw [UInt8.lt_iff_toNat_lt] at *; simp at *; omega)
  have a3 : ¬ c < 0xE0 := fun h => h0 (by rw [UInt8.lt_iff_toNat_lt] at *; simp at *; omega)
  simp only [utf8Width, a1, a2, a3, h0, h1, if_false, if_true]
  simp only [beq_iff_eq] at hlo hhi
  simp [h2, h3, h4, h5]
  exact ⟨hlo, hhi⟩

theorem cont_byte (x : Nat) : (0x80 : UInt8) ≤ (0x80 + x % 64).toUInt8 ∧ (0x80 + x % 64).toUInt8 ≤ 0xBF := by
  constructor <;> rw [UInt8.le_iff_toNat_le] <;> simp <;> omega

/-- `utf8.EncodeRune` of a scalar value (not a surrogate, at most U+10FFFF) is one well-formed character -/
theorem whole_pushRune (r : Nat) (hr : r < 0x110000) (hs : ¬ (0xD800 ≤ r ∧ r < 0xE000)) :
    Whole (pushRune r []).reverse := by
  unfold pushRune
  simp only
  split
  · rename_i h
    simp only [List.reverse_cons, List.reverse_nil, List.nil_append]
    exact whole_ascii _ (by rw [UInt8.lt_iff_toNat_lt]; simp; omega)
  split
  · rename_i h1 h2
    simp only [List.reverse_cons, List.reverse_nil, List.nil_append, List.cons_append]
    refine whole_of_width _ [_] (fun R => ?_)
    exact width2 _ _ R (by rw [UInt8.lt_iff_toNat_lt]; simp; omega) (by rw [UInt8.lt_iff_toNat_lt]; simp; omega)
      (cont_byte r).1 (cont_byte r).2
  split
  · rename_i h1 h2 h3
    simp only [List.reverse_cons, List.reverse_nil, List.nil_append, List.cons_append]
    refine whole_of_width _ [_, _] (fun R => ?_)
    refine width3 _ _ _ R (by rw [UInt8.lt_iff_toNat_lt]; simp; omega) (by rw [UInt8.lt_iff_toNat_lt]; simp; omega)
      ?_ ?_ (cont_byte r).1 (cont_byte r).2
    · split
      · rename_i he
        simp only [beq_iff_eq] at he
        rw [← UInt8.toNat_inj] at he
        simp at he
        rw [UInt8.le_iff_toNat_le]; simp; omega
      · exact (cont_byte (r / 64)).1
    · split
      · rename_i he
        simp only [beq_iff_eq] at he
        rw [← UInt8.toNat_inj] at he
        simp at he
        rw [UInt8.le_iff_toNat_le]; simp; omega
      · exact (cont_byte (r / 64)).2
  · rename_i h1 h2 h3
    simp only [List.reverse_cons, List.reverse_nil, List.nil_append, List.cons_append]
    refine whole_of_width _ [_, _, _] (fun R => ?_)
    refine width4 _ _ _ _ R (by rw [UInt8.lt_iff_toNat_lt]; simp; omega) (by rw [UInt8.lt_iff_toNat_lt]; simp; omega)
      ?_ ?_ (cont_byte (r / 64)).1 (cont_byte (r / 64)).2 (cont_byte r).1 (cont_byte r).2
    · split
      · rename_i he
        simp only [beq_iff_eq] at he
        rw [← UInt8.toNat_inj] at he
        simp at he
        rw [UInt8.le_iff_toNat_le]; simp; omega
      · exact (cont_byte (r / 4096)).1
    · split
      · rename_i he
        simp only [beq_iff_eq] at he
        rw [← UInt8.toNat_inj] at he
        simp at he
        rw [UInt8.le_iff_toNat_le]; simp; omega
      · exact (cont_byte (r / 4096)).2

/-! ### the scanner's string states as an automaton -/

def isStr : Step → Bool
  | .inString | .inStringEsc | .inStringEscU _ => true
  | _ => false

def escOK (c : UInt8) : Bool :=
  c == 0x62 || c == 0x66 || c == 0x6E || c == 0x72 || c == 0x74 || c == 0x5C || c == 0x2F || c == 0x22

/-- the next string state when byte `c` continues the literal (`none`: closing quote or error) -/
def strNext : Step → UInt8 → Option Step
  | .inString, c => if c == 0x22 then none else if c == 0x5C then some .inStringEsc
                    else if c < 0x20 then none else some .inString
  | .inStringEsc, c => if escOK c then some .inString else if c == 0x75 then some (.inStringEscU 3) else none
  | .inStringEscU n, c =>
    if (hexVal c).isSome then some (match n with | 0 => .inString | k + 1 => .inStringEscU k) else none
  | _, _ => none

def strPath : Step → Bytes → Option Step
  | st, [] => some st
  | st, c :: cs => match strNext st c with | some st' => strPath st' cs | none => none

theorem strPath_snoc : ∀ (ds : Bytes) (st st' st'' : Step) (c : UInt8), strPath st ds = some st' →
    strNext st' c = some st'' → strPath st (ds ++ [c]) = some st'' := by
  intro ds
  induction ds with
  | nil => intro st st' st'' c h1 h2; simp only [strPath] at h1; cases h1; simp [strPath, h2]
  | cons x xs ih =>
    intro st st' st'' c h1 h2
    simp only [strPath, List.cons_append] at h1 ⊢
    cases hx : strNext st x with
    | none => simp [hx] at h1
    | some sn => simp only [hx] at h1 ⊢; exact ih sn st' st'' c h1 h2

theorem strPath_append (a b : Bytes) (st st' : Step) (h : strPath st a = some st') :
    strPath st (a ++ b) = strPath st' b := by
  induction a generalizing st with
  | nil => simp only [strPath] at h; cases h; rfl
  | cons x xs ih =>
    simp only [strPath, List.cons_append] at h ⊢
    cases hx : strNext st x with
    | none => simp [hx] at h
    | some sn => simp only [hx] at h ⊢; exact ih sn h

theorem strPath_high : ∀ (l : Bytes), (∀ x ∈ l, ¬ x < 0x80) → strPath .inString l = some .inString := by
  intro l
  induction l with
  | nil => intro _; rfl
  | cons x xs ih =>
    intro h
    have hx : ¬ x < 0x80 := h x (by simp)
    have hx' : 128 ≤ x.toNat := by rw [UInt8.lt_iff_toNat_lt] at hx; simpa using hx
    have e1 : (x == 0x22) = false := by simp; rintro rfl; simp at hx'
    have e2 : (x == 0x5C) = false := by simp; rintro rfl; simp at hx'
    have e3 : ¬ x < 0x20 := by rw [UInt8.lt_iff_toNat_lt]; simp; omega
    simp only [strPath, strNext, e1, e2, e3, if_false, Bool.false_eq_true]
    exact ih fun y hy => h y (by simp [hy])

theorem hexVal_lt (c : UInt8) (v : Nat) (h : hexVal c = some v) : v < 16 := by
  unfold hexVal at h
  split at h
  · rename_i hd
    simp only [isDigit, Bool.and_eq_true, decide_eq_true_eq, UInt8.le_iff_toNat_le] at hd
    simp at h hd; omega
  split at h
  · rename_i _ hd
    simp only [Bool.and_eq_true, decide_eq_true_eq, UInt8.le_iff_toNat_le] at hd
    simp at h hd; omega
  split at h
  · rename_i _ _ hd
    simp only [Bool.and_eq_true, decide_eq_true_eq, UInt8.le_iff_toNat_le] at hd
    simp at h hd; omega
  · cases h

/-- a matched `\uXXXX` is accepted by the string automaton -/
theorem getu4_path (l : Bytes) (rr : Nat) (h : getu4 l = some rr) :
    rr < 0x10000 ∧ ∃ tl, l.drop 6 = tl ∧ strPath .inString l = strPath .inString tl := by
  unfold getu4 at h
  split at h
  · rename_i a b c d tl
    split at h
    · rename_i va vb vc vd ha hb hc hd
      have := hexVal_lt a va ha
      have := hexVal_lt b vb hb
      have := hexVal_lt c vc hc
      have := hexVal_lt d vd hd
      simp only [Option.some.injEq] at h
      refine ⟨by omega, tl, rfl, ?_⟩
      simp [strPath, strNext, escOK, ha, hb, hc, hd]
    · cases h
  · cases h

theorem escU_path (l : Bytes) (h : strPath (.inStringEscU 3) l = some .inString) :
    ∃ a b c d tl va vb vc vd, l = a :: b :: c :: d :: tl ∧ hexVal a = some va ∧ hexVal b = some vb ∧
      hexVal c = some vc ∧ hexVal d = some vd ∧ strPath .inString tl = some .inString := by
  rcases l with _ | ⟨a, _ | ⟨b, _ | ⟨c, _ | ⟨d, tl⟩⟩⟩⟩
  · simp [strPath] at h
  · cases ha : hexVal a <;> simp [strPath, strNext, ha] at h
  · cases ha : hexVal a <;> cases hb : hexVal b <;> simp [strPath, strNext, ha, hb] at h
  · cases ha : hexVal a <;> cases hb : hexVal b <;> cases hc : hexVal c <;>
      simp [strPath, strNext, ha, hb, hc] at h
  · cases ha : hexVal a with
    | none => simp [strPath, strNext, ha] at h
    | some va =>
      cases hb : hexVal b with
      | none => simp [strPath, strNext, ha, hb] at h
      | some vb =>
        cases hc : hexVal c with
        | none => simp [strPath, strNext, ha, hb, hc] at h
        | some vc =>
          cases hd : hexVal d with
          | none => simp [strPath, strNext, ha, hb, hc, hd] at h
          | some vd =>
            simp [strPath, strNext, ha, hb, hc, hd] at h
            exact ⟨a, b, c, d, tl, va, vb, vc, vd, rfl, ha, hb, hc, hd, h⟩

theorem unquote_cons (c : UInt8) (rest : Bytes) :
    unquote (c :: rest) = (unquoteAt c rest).1.reverse ++ unquote (rest.drop (unquoteAt c rest).2) := by
  rw [unquote_eq_fwd, fwd_cons, ← unquote_eq_fwd]

theorem unquote_valid_aux : ∀ (n : Nat) (raw : Bytes), raw.length ≤ n →
    strPath .inString raw = some .inString → validUtf8 0 (unquote raw) = true := by
  intro n
  induction n with
  | zero =>
    intro raw hl _
    have : raw = [] := by cases raw <;> simp_all
    subst this; rfl
  | succ n ih =>
    intro raw hl hp
    cases raw with
    | nil => rfl
    | cons c rest =>
      simp only [List.length_cons] at hl
      rw [unquote_cons]
      simp only [strPath, strNext] at hp
      by_cases h22 : (c == 0x22) = true
      · simp [h22] at hp
      simp only [h22, if_false, Bool.false_eq_true] at hp
      by_cases h5C : (c == 0x5C) = true
      · -- an escape
        simp only [h5C, if_true] at hp
        have hc : c = 0x5C := by simpa using h5C
        subst hc
        cases rest with
        | nil => simp [strPath] at hp
        | cons e rest' =>
          simp only [strPath, strNext] at hp
          by_cases hesc : escOK e = true
          · simp only [hesc, if_true] at hp
            have he75 : (e == 0x75) = false := by
              cases h : (e == 0x75) with
              | false => rfl
              | true => simp only [beq_iff_eq] at h; subst h; simp [escOK] at hesc
            have hu : unquoteAt 0x5C (e :: rest') =
                ([if e == 0x62 then 0x08 else if e == 0x66 then 0x0C else if e == 0x6E then 0x0A
                  else if e == 0x72 then 0x0D else if e == 0x74 then 0x09 else e], 1) := by
              simp [unquoteAt, he75]
            rw [hu]
            simp only [List.reverse_cons, List.reverse_nil, List.nil_append, List.drop_succ_cons, List.drop_zero]
            rw [whole_ascii _ ?_]
            · exact ih rest' (by simp only [List.length_cons] at hl; omega) hp
            · simp only [escOK, Bool.or_eq_true, beq_iff_eq] at hesc
              rcases hesc with ((((((rfl | rfl) | rfl) | rfl) | rfl) | rfl) | rfl) | rfl <;> decide
          · simp only [hesc, if_false, Bool.false_eq_true] at hp
            by_cases h75 : (e == 0x75) = true
            · simp only [h75, if_true] at hp
              have he : e = 0x75 := by simpa using h75
              subst he
              obtain ⟨a, b, c', d, tl, va, vb, vc, vd, rfl, ha, hb, hc', hd, htl⟩ := escU_path rest' hp
              have hva := hexVal_lt a va ha
              have hvb := hexVal_lt b vb hb
              have hvc := hexVal_lt c' vc hc'
              have hvd := hexVal_lt d vd hd
              simp only [List.length_cons] at hl
              by_cases hsur : 0xD800 ≤ ((va * 16 + vb) * 16 + vc) * 16 + vd ∧ ((va * 16 + vb) * 16 + vc) * 16 + vd < 0xE000
              · have hu : unquoteAt 0x5C (0x75 :: a :: b :: c' :: d :: tl) =
                    match getu4 tl with
                    | some rr1 =>
                      if ((va * 16 + vb) * 16 + vc) * 16 + vd < 0xDC00 && 0xDC00 ≤ rr1 && rr1 < 0xE000
                      then (pushRune (0x10000 + (((va * 16 + vb) * 16 + vc) * 16 + vd - 0xD800) * 1024 + (rr1 - 0xDC00)) [], 11)
                      else (fffdRev, 5)
                    | none => (fffdRev, 5) := by
                  have hg0 : getu4 (0x5C :: 0x75 :: a :: b :: c' :: d :: tl)
                      = some (((va * 16 + vb) * 16 + vc) * 16 + vd) := by simp [getu4, ha, hb, hc', hd]
                  have hs' : (decide (0xD800 ≤ ((va * 16 + vb) * 16 + vc) * 16 + vd) &&
                      decide (((va * 16 + vb) * 16 + vc) * 16 + vd < 0xE000)) = true := by simp [hsur]
                  simp only [unquoteAt, hg0, beq_self_eq_true, if_true, List.drop_succ_cons, List.drop_zero, hs']
                  cases getu4 tl <;> rfl
                rw [hu]
                have hfffd : fffdRev.reverse = [0xEF, 0xBF, 0xBD] := rfl
                cases hg : getu4 tl with
                | none =>
                  simp only [hfffd]
                  rw [whole_fffd]
                  exact ih tl (by omega) htl
                | some rr1 =>
                  simp only
                  split
                  · rename_i hcond
                    simp only [Bool.and_eq_true, decide_eq_true_eq] at hcond
                    obtain ⟨hrr1, tl', htl', hpath⟩ := getu4_path tl rr1 hg
                    rw [whole_pushRune _ (by omega) (by omega)]
                    have : List.drop 11 (0x75 :: a :: b :: c' :: d :: tl) = tl' := by rw [← htl']; simp
                    rw [this]
                    refine ih tl' (by rw [← htl']; simp only [List.length_drop]; omega) ?_
                    rw [← hpath]; exact htl
                  · simp only [hfffd]
                    rw [whole_fffd]
                    exact ih tl (by omega) htl
              · rw [unq_u4 a b c' d tl va vb vc vd ha hb hc' hd hsur]
                rw [whole_pushRune _ (by omega) hsur]
                exact ih tl (by omega) htl
            · simp [h75] at hp
      · simp only [h5C, if_false, Bool.false_eq_true] at hp
        by_cases h20 : c < 0x20
        · simp [h20] at hp
        simp only [h20, if_false] at hp
        by_cases h80 : c < 0x80
        · have hu : unquoteAt c rest = ([c], 0) := by simp [unquoteAt, h5C, h80]
          rw [hu]
          simp only [List.reverse_cons, List.reverse_nil, List.nil_append, List.drop_zero]
          rw [whole_ascii c h80]
          exact ih rest (by omega) hp
        · cases hw : utf8Width c rest with
          | zero =>
            have hu : unquoteAt c rest = (fffdRev, 0) := by simp [unquoteAt, h5C, h80, hw]
            rw [hu]
            have : fffdRev.reverse = [0xEF, 0xBF, 0xBD] := rfl
            rw [this, List.drop_zero, whole_fffd]
            exact ih rest (by omega) hp
          | succ w =>
            have hu : unquoteAt c rest = ((c :: rest.take w).reverse, w) := by simp [unquoteAt, h5C, h80, hw]
            obtain ⟨hlen, hhigh, hR⟩ := utf8Width_take c rest w h80 hw
            rw [hu]
            simp only [List.reverse_reverse]
            rw [whole_of_width c (rest.take w) (fun R => by rw [hR R, hlen])]
            refine ih _ (by simp only [List.length_drop]; omega) ?_
            have := strPath_append (rest.take w) (rest.drop w) .inString .inString (strPath_high _ hhigh)
            rw [List.take_append_drop] at this
            rw [← this]; exact hp

/-- a literal the scanner validated (it is back in `inString`) is unquoted to valid UTF-8 -/
theorem unquote_valid (raw : Bytes) (h : strPath .inString raw = some .inString) :
    validUtf8 0 (unquote raw) = true :=
  unquote_valid_aux raw.length raw (Nat.le_refl _) h

/-! ### the invariant -/

theorem utf8OKList_iff' (l : List JVal) : Utf8OKList l ↔ ∀ v ∈ l, Utf8OK v := by
  induction l with
  | nil => simp [Utf8OKList]
  | cons x xs ih => simp [Utf8OKList, ih]

theorem utf8OKMembers_iff' (l : List (Bytes × JVal)) :
    Utf8OKMembers l ↔ ∀ kv ∈ l, validUtf8 0 kv.1 = true ∧ Utf8OK kv.2 := by
  induction l with
  | nil => simp [Utf8OKMembers]
  | cons x xs ih => obtain ⟨k, v⟩ := x; simp [Utf8OKMembers, ih, and_assoc]

def FrameU : Frame → Prop
  | .arr acc => ∀ v ∈ acc, Utf8OK v
  | .obj ms k _ => (∀ kv ∈ ms, validUtf8 0 kv.1 = true ∧ Utf8OK kv.2) ∧ validUtf8 0 k = true

def StepU : Step → Prop
  | .endTop v => Utf8OK v
  | .lit _ v => Utf8OK v
  | _ => True

/-- in a string state the literal read so far is a path of the string automaton -/
def StrProg (st : Step) (lit : Bytes) : Prop := isStr st = true → strPath .inString lit.reverse = some st

structure StU (s : St) : Prop where
  stk : ∀ fr ∈ s.stack, FrameU fr
  stp : StepU s.step
  prog : StrProg s.step s.lit

def OutU : Out → Prop
  | .cont s => StU s
  | .done v _ _ => Utf8OK v
  | .err => True

theorem deliver_u (s : St) (v : JVal) (hs : ∀ fr ∈ s.stack, FrameU fr) (hv : Utf8OK v) : StU (deliver s v) := by
  unfold deliver
  split
  · rename_i h; exact ⟨by simp [h], hv, fun hn => by simp [isStr] at hn⟩
  · rename_i acc fs h
    rw [h] at hs
    refine ⟨?_, trivial, fun hn => by simp [isStr] at hn⟩
    intro fr hfr
    rcases List.mem_cons.1 hfr with rfl | hfr
    · intro w hw
      rcases List.mem_cons.1 hw with rfl | hw
      · exact hv
      · exact hs (.arr acc) (by simp) w hw
    · exact hs fr (by simp [hfr])
  · rename_i ms k fs h
    rw [h] at hs
    refine ⟨?_, trivial, fun hn => by simp [isStr] at hn⟩
    intro fr hfr
    rcases List.mem_cons.1 hfr with rfl | hfr
    · refine ⟨(hs (.obj ms k false) (by simp)).1, ?_⟩
      cases v <;> first | rfl | exact hv
    · exact hs fr (by simp [hfr])
  · rename_i ms k fs h
    rw [h] at hs
    refine ⟨?_, trivial, fun hn => by simp [isStr] at hn⟩
    intro fr hfr
    rcases List.mem_cons.1 hfr with rfl | hfr
    · have := hs (.obj ms k true) (by simp)
      refine ⟨?_, rfl⟩
      intro kv hkv
      rcases mem_insertMember hkv with rfl | hkv
      · exact ⟨this.2, hv⟩
      · exact this.1 kv hkv
    · exact hs fr (by simp [hfr])

theorem pop_u (s : St) (fs : List Frame) (v : JVal) (hfs : ∀ fr ∈ fs, FrameU fr) (hv : Utf8OK v) :
    OutU (pop s fs v) := by
  unfold pop
  split
  · exact hv
  · exact deliver_u _ v hfs hv

theorem endValue_u (s : St) (c : UInt8) (hs : ∀ fr ∈ s.stack, FrameU fr) : OutU (endValue s c) := by
  unfold endValue
  split
  · exact ⟨hs, trivial, fun hn => by simp [isStr] at hn⟩
  · split
    · trivial
    · rename_i ms k fs h
      rw [h] at hs
      split
      · refine ⟨?_, trivial, fun hn => by simp [isStr] at hn⟩
        intro fr hfr
        rcases List.mem_cons.1 hfr with rfl | hfr
        · exact hs (.obj ms k false) (by simp)
        · exact hs fr (by simp [hfr])
      · trivial
    · rename_i ms k fs h
      rw [h] at hs
      split
      · refine ⟨?_, trivial, fun hn => by simp [isStr] at hn⟩
        intro fr hfr
        rcases List.mem_cons.1 hfr with rfl | hfr
        · exact ⟨(hs (.obj ms k true) (by simp)).1, rfl⟩
        · exact hs fr (by simp [hfr])
      · split
        · exact pop_u s fs (.obj ms) (fun fr hfr => hs fr (by simp [hfr]))
            ((utf8OKMembers_iff' ms).2 (hs (.obj ms k true) (by simp)).1)
        · trivial
    · rename_i acc fs h
      rw [h] at hs
      split
      · exact ⟨by rw [h]; exact hs, trivial, fun hn => by simp [isStr] at hn⟩
      · split
        · exact pop_u s fs (.arr acc.reverse) (fun fr hfr => hs fr (by simp [hfr]))
            ((utf8OKList_iff' _).2 fun w hw => hs (.arr acc) (by simp) w (by simpa using hw))
        · trivial

theorem more_u (s : St) (c : UInt8) (next : Step) (hs : ∀ fr ∈ s.stack, FrameU fr) (hn : StepU next)
    (hp : StrProg next (c :: s.lit)) : OutU (more s c next) := ⟨hs, hn, hp⟩

theorem afterValue_u (s : St) (c : UInt8) (hs : StU s) : OutU (afterValue s c) := by
  unfold afterValue
  split
  · rename_i v h; have := hs.stp; rw [h] at this; exact this
  · exact endValue_u s c hs.stk

theorem endNumber_u (f : Bytes → Bool) (s : St) (c : UInt8) (hs : ∀ fr ∈ s.stack, FrameU fr) :
    OutU (endNumber f s c) := by
  unfold endNumber
  exact afterValue_u _ c (deliver_u _ _ hs trivial)

theorem push_u (s : St) (fr : Frame) (next : Step) (hs : ∀ fr ∈ s.stack, FrameU fr) (hfr : FrameU fr)
    (hn : StepU next) (hnn : isStr next = false) : OutU (push s fr next) := by
  unfold push
  split
  · refine ⟨?_, hn, fun h => by simp only at h; rw [hnn] at h; cases h⟩
    intro fr' h
    rcases List.mem_cons.1 h with rfl | h
    · exact hfr
    · exact hs fr' h
  · trivial

theorem beginValue_u (s : St) (c : UInt8) (h : StU s) : OutU (beginValue s c) := by
  have hs := h.stk
  unfold beginValue
  repeat' split
  · exact h
  · exact push_u s _ _ hs ⟨by simp, rfl⟩ trivial rfl
  · exact push_u s _ _ hs (by simp [FrameU]) trivial rfl
  · exact ⟨hs, trivial, fun _ => rfl⟩
  all_goals first | exact ⟨hs, trivial, fun hn => by simp [isStr] at hn⟩ | trivial

theorem beginString_u (s : St) (c : UInt8) (h : StU s) : OutU (beginString s c) := by
  unfold beginString
  repeat' split
  · exact h
  · exact ⟨h.stk, trivial, fun _ => rfl⟩
  · trivial

theorem strProg_next (s : St) (c : UInt8) (st next : Step) (hst : s.step = st) (hstr : isStr st = true)
    (h : StU s) (hnext : strNext st c = some next) : StrProg next (c :: s.lit) := by
  intro _
  have hp := h.prog
  rw [hst] at hp
  simp only [List.reverse_cons]
  exact strPath_snoc _ _ st next c (hp hstr) hnext

theorem step_u (f : Bytes → Bool) (s : St) (c : UInt8) (h : StU s) : OutU (step f s c) := by
  have hs := h.stk
  have nostr : ∀ next, isStr next = false → StrProg next (c :: s.lit) :=
    fun next hn h' => by rw [hn] at h'; cases h'
  unfold step
  split
  · exact beginValue_u s c h
  · split
    · exact h
    · split
      · exact endValue_u s c hs
      · exact beginValue_u s c h
  · split
    · exact h
    · split
      · split
        · rename_i ms k b fs hstk
          apply endValue_u
          intro fr hfr
          rw [hstk] at hs
          rcases List.mem_cons.1 hfr with rfl | hfr
          · exact hs (.obj ms k b) (by simp)
          · exact hs fr (by simp [hfr])
        · trivial
      · exact beginString_u s c h
  · exact beginString_u s c h
  · exact endValue_u s c hs
  · rename_i v hv; have := h.stp; rw [hv] at this; exact this
  · rename_i hst
    split
    · refine deliver_u _ _ hs ?_
      have hp := h.prog
      rw [hst] at hp
      exact unquote_valid _ (hp rfl)
    · split
      · rename_i h22 h5C
        exact more_u s c _ hs trivial (strProg_next s c .inString _ hst rfl h (by simp [strNext, h22, h5C]))
      · split
        · trivial
        · rename_i h22 h5C h20
          exact more_u s c _ hs trivial
            (strProg_next s c .inString _ hst rfl h (by simp [strNext, h22, h5C, h20]))
  · rename_i hst
    split
    · rename_i hesc
      exact more_u s c _ hs trivial
        (strProg_next s c .inStringEsc _ hst rfl h (by simp only [strNext, escOK, hesc, if_true]))
    · split
      · rename_i hesc h75
        exact more_u s c _ hs trivial
          (strProg_next s c .inStringEsc _ hst rfl h (by simp only [strNext, escOK, hesc, h75, if_true]; simp))
      · trivial
  · rename_i n hst
    split
    · rename_i hhex
      refine more_u s c _ hs ?_ (strProg_next s c (.inStringEscU n) _ hst rfl h (by simp only [strNext, hhex, if_true]; cases n <;> rfl))
      split <;> trivial
    · trivial
  · repeat' split
    all_goals first | exact more_u s c _ hs trivial (nostr _ rfl) | trivial
  case h_18 rest v hv =>
    have hst := h.stp
    rw [hv] at hst
    split
    · trivial
    · split
      · exact deliver_u _ _ hs hst
      · trivial
    · split
      · exact ⟨hs, hst, fun hn => by simp [isStr] at hn⟩
      · trivial
  all_goals
    (try unfold state0)
    (try unfold stateESign)
    repeat' split
    all_goals first | exact more_u s c _ hs trivial (nostr _ rfl) | exact endNumber_u f s c hs | trivial

theorem run_u (f : Bytes → Bool) (t : Tail) : ∀ (inp : Bytes) (s : St) (v : JVal) (rest : Bytes), StU s →
    run f s inp t = .value v rest → Utf8OK v := by
  intro inp
  induction inp with
  | nil =>
    intro s v rest hs h
    cases t with
    | more => simp [run] at h
    | ioerr => simp [run] at h
    | eof =>
      simp only [run] at h
      have hok := step_u f s 0x20 hs
      cases hst : step f s 0x20 with
      | cont s' => simp [hst] at h
      | err => simp [hst] at h
      | done w bad consumed =>
        rw [hst] at h hok
        cases bad with
        | true => simp at h
        | false =>
          simp only [DecodeRes.value.injEq] at h
          rw [← h.1]; exact hok
  | cons c cs ih =>
    intro s v rest hs h
    simp only [run] at h
    have hok := step_u f s c hs
    cases hst : step f s c with
    | cont s' => rw [hst] at h hok; exact ih s' v rest hok h
    | err => simp [hst] at h
    | done w bad consumed =>
      rw [hst] at h hok
      cases bad with
      | true => simp at h
      | false =>
        simp only [Bool.false_eq_true, if_false, DecodeRes.value.injEq] at h
        rw [← h.1]; exact hok

/-- every string and every key in a document the decoder returns is valid UTF-8 -/
theorem decodeOne_utf8 (f : Bytes → Bool) (inp : Bytes) (t : Tail) (v : JVal) (rest : Bytes)
    (h : decodeOne f inp t = .value v rest) : Utf8OK v := by
  unfold decodeOne at h
  split at h
  · cases h
  · cases h
  · cases h
  · exact run_u f _ _ St.init v rest
      ⟨by simp [St.init], trivial, fun hn => by simp [St.init, isStr] at hn⟩ h

end Jqawk.JsonBytes
