/-
  The evaluator-level results of `HeapInvEval` in the form the driver proofs use.
-/
import Jqawk.Lemmas.HeapInvEval
import Jqawk.Model.Driver

namespace Jqawk.HeapInv
open Jqawk Jqawk.IndexWrite

theorem good_expr (prog : Program) (n : Nat) (e : Expr) : Good (evalExpr prog n e) :=
  (allGood prog n).expr e
theorem good_stmt (prog : Program) (n : Nat) (st : Stmt) : Good (evalStmt prog n st) :=
  (allGood prog n).stmt st
theorem good_copyValue (a b : CellId) : Good (Jqawk.copyValue a b) := Good.copyValue a b

end Jqawk.HeapInv
