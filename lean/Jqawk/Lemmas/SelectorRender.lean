/-
  Renaming of cell ids (C14), part 3: rendering (`pretty`, `toJVal`) does not see cell ids.
-/
import Jqawk.Lemmas.SelectorHeap

set_option linter.unusedVariables false

namespace Jqawk
namespace Sel

variable {C : Ctx}

theorem mapM_opt_congr {α β : Type} (l : List α) (f g : α → Option β) (h : ∀ x ∈ l, f x = g x) :
    l.mapM f = l.mapM g := by
  induction l with
  | nil => rfl
  | cons x rest ih =>
    simp only [List.mapM_cons]
    rw [h x (List.mem_cons_self ..), ih (fun y hy => h y (List.mem_cons_of_mem _ hy))]

theorem mapM_opt_map {α β γ : Type} (l : List α) (f : α → β) (g : β → Option γ) :
    (l.map f).mapM g = l.mapM (fun x => g (f x)) := by
  induction l with
  | nil => rfl
  | cons x rest ih => simp only [List.map_cons, List.mapM_cons, ih]

theorem onPath_renV (path : List Cont) (v : Val) : onPath path (renV C.σ v) = onPath path v := by
  unfold onPath; rw [cont_renV]

theorem pretty_rel {hA hB : Heap} (r : HR C hA hB) : ∀ (n : Nat) (path : List Cont) (q chk : Bool) (v : Val),
    LiveV C hB.cells.size v → pretty hA n path q chk (renV C.σ v) = pretty hB n path q chk v
  | 0, _, _, _, _, _ => rfl
  | n + 1, path, q, chk, v, hv => by
    unfold pretty
    rw [onPath_renV]
    split
    · rfl
    · cases v with
      | arr a =>
        have ha := r.arrs a hv
        simp only [renV]
        rw [ha.1, Array.toList_map, mapM_opt_map]
        rw [mapM_opt_congr _ _ (fun c => pretty hB n (path ++ [Cont.a a]) true true (hB.get c))]
        intro c hc
        have hcr := r.cells c (ha.2 c hc)
        rw [hcr.1]
        exact pretty_rel r n _ _ _ _ hcr.2
      | obj o =>
        have ho := r.objs o hv
        simp only [renV]
        rw [ho.1, sortByKey_renM, renM, mapM_opt_map]
        rw [mapM_opt_congr _ _ (fun kv =>
          match pretty hB n (path ++ [Cont.o o]) true true (hB.get kv.2) with
          | none => none
          | some r => some ([34] ++ kv.1 ++ [34] ++ b!": " ++ r))]
        · rfl
        intro kv hkv
        have hcr := r.cells kv.2 (ho.2.sortByKey kv hkv)
        dsimp only
        rw [hcr.1, pretty_rel r n _ _ _ _ hcr.2]
        generalize pretty hB n (path ++ [Cont.o o]) true true (hB.get kv.2) = x
        cases x <;> rfl
      | _ => rfl

theorem prettyTop_rel {hA hB : Heap} (r : HR C hA hB) {w : Nat} {va vb : Val} (hv : ValR C w va vb)
    (hw : w ≤ hB.cells.size) : prettyTop hA va = prettyTop hB vb := by
  unfold prettyTop renderFuel
  rw [hv.1, r.sza, r.szo]
  exact pretty_rel r _ _ _ _ _ (hv.2.mono hw)

theorem toJVal_rel {hA hB : Heap} (r : HR C hA hB) : ∀ (n : Nat) (path : List Cont) (chk : Bool) (v : Val),
    LiveV C hB.cells.size v → toJVal hA n path chk (renV C.σ v) = toJVal hB n path chk v
  | 0, _, _, _, _ => rfl
  | n + 1, path, chk, v, hv => by
    unfold toJVal
    rw [onPath_renV]
    split
    · rfl
    · cases v with
      | arr a =>
        have ha := r.arrs a hv
        simp only [renV]
        rw [ha.1, Array.toList_map, List.map_map]
        rw [List.map_congr_left (g := fun c => toJVal hB n (path ++ [Cont.a a]) true (hB.get c))]
        intro c hc
        have hcr := r.cells c (ha.2 c hc)
        simp only [Function.comp]
        rw [hcr.1]
        exact toJVal_rel r n _ _ _ hcr.2
      | obj o =>
        have ho := r.objs o hv
        simp only [renV]
        rw [ho.1, sortByKey_renM, renM, List.map_map]
        rw [List.map_congr_left (g := fun kv =>
          match toJVal hB n (path ++ [Cont.o o]) true (hB.get kv.2) with
          | .ok j => .ok (kv.1, j)
          | .error m => .error m
          | .oof => .oof)]
        · rfl
        intro kv hkv
        have hcr := r.cells kv.2 (ho.2.sortByKey kv hkv)
        simp only [Function.comp]
        rw [hcr.1, toJVal_rel r n _ _ _ hcr.2]
        generalize toJVal hB n (path ++ [Cont.o o]) true (hB.get kv.2) = x
        cases x <;> rfl
      | _ => rfl

theorem toJValTop_rel {hA hB : Heap} (r : HR C hA hB) {w : Nat} {va vb : Val} (hv : ValR C w va vb)
    (hw : w ≤ hB.cells.size) : toJValTop hA va = toJValTop hB vb := by
  unfold toJValTop renderFuel
  rw [hv.1, r.sza, r.szo]
  exact toJVal_rel r _ _ _ _ (hv.2.mono hw)

end Sel
end Jqawk
