/-
  Panic freedom (C01), part 1: the state invariant and its heap algebra.

  The invariant is indexed by a *region* `P`: the cells with id ≥ `P.N`, the arrays with id ≥ `P.A`
  and the objects with id ≥ `P.O`.  Inside the region every stored id points into the region
  again and every function value `.fn i` has `i < P.F` (the number of functions of the program
  the running evaluator knows); outside the region only the weak bound `i < P.L` is required.
  The main evaluator runs with the region "everything" (`N = A = O = 0`, `F = L`); the nested
  evaluator of a selector shares the heap but runs with `Program.empty`, so its region is
  "everything allocated since the selector started" and `F = 0`: it can reach no function value.

  All parts of the invariant are lower bounds on ids, so each part is a property of one state
  component alone (heap / frames / ruleRoot / returnVal) and is stable under allocation.
-/
import Jqawk.Model.Eval

set_option linter.unusedVariables false

namespace Jqawk

/-- the region an evaluator works in, and the bounds on function indices -/
structure Region where
  N : Nat      -- first cell id of the region
  A : Nat      -- first array id
  O : Nat      -- first object id
  F : Nat      -- bound on function indices stored inside the region
  L : Nat      -- bound on function indices stored anywhere

variable (P : Region)

def SpecOK : Option SpecRef → Prop
  | none => True
  | some r => P.N ≤ r.parent

def OptReg : Option CellId → Prop
  | none => True
  | some c => P.N ≤ c

/-- a value that may be stored in the region -/
def GoodV : Val → Prop
  | .str _ sp => SpecOK P sp
  | .nil sp => SpecOK P sp
  | .native _ b sp => OptReg P b ∧ SpecOK P sp
  | .fn i => i < P.F ∧ i < P.L
  | .arr a => P.A ≤ a
  | .obj o => P.O ≤ o
  | _ => True

/-- the weak bound that holds for every cell of the heap -/
def FnB : Val → Prop
  | .fn i => i < P.L
  | _ => True

theorem GoodV.fnB {P : Region} {v : Val} (h : GoodV P v) : FnB P v := by
  cases v <;> simp_all [GoodV, FnB]

def RegL (cs : List CellId) : Prop := ∀ c ∈ cs, P.N ≤ c
def RegM (m : List (Bytes × CellId)) : Prop := ∀ kc ∈ m, P.N ≤ kc.2
def GoodVs (vs : List Val) : Prop := ∀ v ∈ vs, GoodV P v

structure HeapOK (h : Heap) : Prop where
  nle : P.N ≤ h.cells.size
  ale : P.A ≤ h.arrs.size
  ole : P.O ≤ h.objs.size
  all : ∀ c, FnB P (h.get c)
  cells : ∀ c, P.N ≤ c → GoodV P (h.get c)
  arrs : ∀ a, P.A ≤ a → RegL P (h.arr a).toList
  objs : ∀ o, P.O ≤ o → RegM P (h.obj o)

def FramesOK (fr : List Frame) : Prop := fr ≠ [] ∧ ∀ f ∈ fr, RegM P f.locals

/-- the invariant without the rule root (what holds between rule executions) -/
structure Inv0 (s : St) : Prop where
  heap : HeapOK P s.heap
  frames : FramesOK P s.frames
  ret : OptReg P s.returnVal

variable {P}

/-! ### values -/

@[simp] theorem GoodV_unknown : GoodV P .unknown := trivial
@[simp] theorem GoodV_bool (b : Bool) : GoodV P (.bool b) := trivial
@[simp] theorem GoodV_num (x : F64) : GoodV P (.num x) := trivial
@[simp] theorem GoodV_regex (x : Bytes) : GoodV P (.regex x) := trivial
@[simp] theorem GoodV_nil_none : GoodV P (.nil none) := trivial
@[simp] theorem GoodV_str_none (s : Bytes) : GoodV P (.str s none) := trivial
@[simp] theorem SpecOK_none : SpecOK P none := trivial
@[simp] theorem OptReg_none : OptReg P none := trivial

theorem copyVal_good {v w : Val} (h : copyVal v = .ok w) (hv : GoodV P v) : GoodV P w := by
  cases v <;> simp [copyVal] at h <;> subst h <;> first | trivial | exact hv

/-! ### lists of ids -/

theorem RegM.objInsert {m : List (Bytes × CellId)} (hm : RegM P m) (k : Bytes) {c : CellId}
    (hc : P.N ≤ c) : RegM P (objInsert m k c) := by
  induction m with
  | nil => intro kc h; simp [Jqawk.objInsert] at h; subst h; exact hc
  | cons x rest ih =>
    obtain ⟨k0, c0⟩ := x
    unfold Jqawk.objInsert
    split
    · intro kc h
      rcases List.mem_cons.mp h with h | h
      · subst h; exact hc
      · exact hm kc (List.mem_cons_of_mem _ h)
    · intro kc h
      rcases List.mem_cons.mp h with h | h
      · subst h; exact hm _ (List.mem_cons_self ..)
      · exact ih (fun x hx => hm x (List.mem_cons_of_mem _ hx)) kc h

theorem RegM.nil : RegM P [] := by intro kc h; cases h

theorem RegM.foldInsert {l acc : List (Bytes × CellId)} (hl : RegM P l) (hacc : RegM P acc) :
    RegM P (l.foldl (fun m kv => Jqawk.objInsert m kv.1 kv.2) acc) := by
  induction l generalizing acc with
  | nil => exact hacc
  | cons x rest ih =>
    simp only [List.foldl_cons]
    exact ih (fun y hy => hl y (List.mem_cons_of_mem _ hy))
      (hacc.objInsert _ (hl x (List.mem_cons_self ..)))

theorem RegM.lookup {m : List (Bytes × CellId)} (hm : RegM P m) {k : Bytes} {c : CellId}
    (h : objLookup m k = some c) : P.N ≤ c := by
  induction m with
  | nil => cases h
  | cons x rest ih =>
    obtain ⟨k0, c0⟩ := x
    unfold objLookup at h
    split at h
    · cases h; exact hm (k0, c) (List.mem_cons_self ..)
    · exact ih (fun y hy => hm y (List.mem_cons_of_mem _ hy)) h

theorem RegM.insertByKey {m : List (Bytes × CellId)} (hm : RegM P m) {kv : Bytes × CellId}
    (hk : P.N ≤ kv.2) : RegM P (insertByKey kv m) := by
  induction m with
  | nil => intro x h; simp [Jqawk.insertByKey] at h; subst h; exact hk
  | cons y rest ih =>
    unfold Jqawk.insertByKey
    split
    · intro x h
      rcases List.mem_cons.mp h with h | h
      · subst h; exact hk
      · exact hm x h
    · intro x h
      rcases List.mem_cons.mp h with h | h
      · subst h; exact hm _ (List.mem_cons_self ..)
      · exact ih (fun z hz => hm z (List.mem_cons_of_mem _ hz)) x h

theorem RegM.sortByKey {m : List (Bytes × CellId)} (hm : RegM P m) : RegM P (sortByKey m) := by
  induction m with
  | nil => exact hm
  | cons y rest ih =>
    unfold Jqawk.sortByKey
    exact (ih (fun z hz => hm z (List.mem_cons_of_mem _ hz))).insertByKey (hm y (List.mem_cons_self ..))

theorem lookupFrames_reg {fr : List Frame} (h : ∀ f ∈ fr, RegM P f.locals) {k : Bytes} {c : CellId}
    (hl : lookupFrames fr k = some c) : P.N ≤ c := by
  induction fr with
  | nil => cases hl
  | cons f fs ih =>
    unfold lookupFrames at hl
    split at hl
    · rename_i c' hc'
      cases hl
      exact (h f (List.mem_cons_self ..)).lookup hc'
    · exact ih (fun g hg => h g (List.mem_cons_of_mem _ hg)) hl

/-! ### heap algebra -/

theorem Heap.get_set_cases (h : Heap) (c d : CellId) (v : Val) :
    (h.set c v).get d = h.get d ∨ (h.set c v).get d = v := by
  simp only [Heap.get, Heap.set, Array.getD_eq_getD_getElem?, Array.getElem?_setIfInBounds]
  split
  · split
    · right; rfl
    · left; rename_i h1 h2; subst h1; simp [Array.getElem?_eq_none (Nat.le_of_not_lt h2)]
  · left; rfl

theorem Heap.get_alloc_cases (h : Heap) (d : CellId) (v : Val) :
    (h.alloc v).2.get d = h.get d ∨ (h.alloc v).2.get d = v := by
  simp only [Heap.get, Heap.alloc, Array.getD_eq_getD_getElem?, Array.getElem?_push]
  split
  · right; rfl
  · left; rfl

theorem Heap.get_alloc_new (h : Heap) (v : Val) : (h.alloc v).2.get (h.alloc v).1 = v := by
  simp [Heap.get, Heap.alloc, Array.getD_eq_getD_getElem?]

theorem Heap.arr_setArr_cases (h : Heap) (a b : ArrId) (items : Array CellId) :
    (h.setArr a items).arr b = h.arr b ∨ (b = a ∧ (h.setArr a items).arr b = items) := by
  simp only [Heap.arr, Heap.setArr, Array.getD_eq_getD_getElem?, Array.getElem?_setIfInBounds]
  split
  · split
    · right; rename_i h1 h2; exact ⟨h1.symm, rfl⟩
    · left; rename_i h1 h2; subst h1; simp [Array.getElem?_eq_none (Nat.le_of_not_lt h2)]
  · left; rfl

theorem Heap.arr_allocArr_cases (h : Heap) (b : ArrId) (items : Array CellId) :
    (h.allocArr items).2.arr b = h.arr b ∨ (b = h.arrs.size ∧ (h.allocArr items).2.arr b = items) := by
  simp only [Heap.arr, Heap.allocArr, Array.getD_eq_getD_getElem?, Array.getElem?_push]
  split
  · right; rename_i h1; exact ⟨h1, rfl⟩
  · left; rfl

theorem Heap.obj_setObj_cases (h : Heap) (a b : ObjId) (m : List (Bytes × CellId)) :
    (h.setObj a m).obj b = h.obj b ∨ (b = a ∧ (h.setObj a m).obj b = m) := by
  simp only [Heap.obj, Heap.setObj, Array.getD_eq_getD_getElem?, Array.getElem?_setIfInBounds]
  split
  · split
    · right; rename_i h1 h2; exact ⟨h1.symm, rfl⟩
    · left; rename_i h1 h2; subst h1; simp [Array.getElem?_eq_none (Nat.le_of_not_lt h2)]
  · left; rfl

theorem Heap.obj_allocObj_cases (h : Heap) (b : ObjId) (m : List (Bytes × CellId)) :
    (h.allocObj m).2.obj b = h.obj b ∨ (b = h.objs.size ∧ (h.allocObj m).2.obj b = m) := by
  simp only [Heap.obj, Heap.allocObj, Array.getD_eq_getD_getElem?, Array.getElem?_push]
  split
  · right; rename_i h1; exact ⟨h1, rfl⟩
  · left; rfl

namespace HeapOK

theorem set {h : Heap} (ok : HeapOK P h) (c : CellId) {v : Val} (hv : GoodV P v) :
    HeapOK P (h.set c v) := by
  refine ⟨?_, ok.ale, ok.ole, ?_, ?_, ok.arrs, ok.objs⟩
  · show P.N ≤ (h.cells.setIfInBounds c v).size
    simp only [Array.size_setIfInBounds]; exact ok.nle
  · intro d
    rcases Heap.get_set_cases h c d v with e | e <;> rw [e]
    · exact ok.all d
    · exact hv.fnB
  · intro d hd
    rcases Heap.get_set_cases h c d v with e | e <;> rw [e]
    · exact ok.cells d hd
    · exact hv

theorem alloc {h : Heap} (ok : HeapOK P h) {v : Val} (hv : GoodV P v) :
    HeapOK P (h.alloc v).2 ∧ P.N ≤ (h.alloc v).1 := by
  refine ⟨⟨?_, ok.ale, ok.ole, ?_, ?_, ok.arrs, ok.objs⟩, ok.nle⟩
  · show P.N ≤ (h.cells.push v).size
    simp only [Array.size_push]; exact Nat.le_succ_of_le ok.nle
  · intro d
    rcases Heap.get_alloc_cases h d v with e | e <;> rw [e]
    · exact ok.all d
    · exact hv.fnB
  · intro d hd
    rcases Heap.get_alloc_cases h d v with e | e <;> rw [e]
    · exact ok.cells d hd
    · exact hv

theorem setArr {h : Heap} (ok : HeapOK P h) (a : ArrId) {items : Array CellId}
    (hi : P.A ≤ a → RegL P items.toList) : HeapOK P (h.setArr a items) := by
  refine ⟨ok.nle, ?_, ok.ole, ok.all, ok.cells, ?_, ok.objs⟩
  · show P.A ≤ (h.arrs.setIfInBounds a items).size
    simp only [Array.size_setIfInBounds]; exact ok.ale
  · intro b hb
    rcases Heap.arr_setArr_cases h a b items with e | ⟨e1, e2⟩
    · rw [e]; exact ok.arrs b hb
    · rw [e2]; exact hi (e1 ▸ hb)

theorem allocArr {h : Heap} (ok : HeapOK P h) {items : Array CellId} (hi : RegL P items.toList) :
    HeapOK P (h.allocArr items).2 ∧ P.A ≤ (h.allocArr items).1 := by
  refine ⟨⟨ok.nle, ?_, ok.ole, ok.all, ok.cells, ?_, ok.objs⟩, ok.ale⟩
  · show P.A ≤ (h.arrs.push items).size
    simp only [Array.size_push]; exact Nat.le_succ_of_le ok.ale
  · intro b hb
    rcases Heap.arr_allocArr_cases h b items with e | ⟨e1, e2⟩
    · rw [e]; exact ok.arrs b hb
    · rw [e2]; exact hi

theorem setObj {h : Heap} (ok : HeapOK P h) (o : ObjId) {m : List (Bytes × CellId)}
    (hm : P.O ≤ o → RegM P m) : HeapOK P (h.setObj o m) := by
  refine ⟨ok.nle, ok.ale, ?_, ok.all, ok.cells, ok.arrs, ?_⟩
  · show P.O ≤ (h.objs.setIfInBounds o m).size
    simp only [Array.size_setIfInBounds]; exact ok.ole
  · intro b hb
    rcases Heap.obj_setObj_cases h o b m with e | ⟨e1, e2⟩
    · rw [e]; exact ok.objs b hb
    · rw [e2]; exact hm (e1 ▸ hb)

theorem allocObj {h : Heap} (ok : HeapOK P h) {m : List (Bytes × CellId)} (hm : RegM P m) :
    HeapOK P (h.allocObj m).2 ∧ P.O ≤ (h.allocObj m).1 := by
  refine ⟨⟨ok.nle, ok.ale, ?_, ok.all, ok.cells, ok.arrs, ?_⟩, ok.ole⟩
  · show P.O ≤ (h.objs.push m).size
    simp only [Array.size_push]; exact Nat.le_succ_of_le ok.ole
  · intro b hb
    rcases Heap.obj_allocObj_cases h b m with e | ⟨e1, e2⟩
    · rw [e]; exact ok.objs b hb
    · rw [e2]; exact hm

/-- an element of a region array, read with `getD` inside the bounds, lies in the region -/
theorem arr_getD {h : Heap} (ok : HeapOK P h) {a : ArrId} (ha : P.A ≤ a) {i : Nat}
    (hi : i < (h.arr a).size) : P.N ≤ (h.arr a).getD i 0 := by
  apply ok.arrs a ha
  rw [Array.getD_eq_getD_getElem?, Array.getElem?_eq_getElem hi]
  simp

end HeapOK

theorem RegL.getInternal {items : Array CellId} (h : RegL P items.toList) {i : Nat} (hi : i < items.size) :
    P.N ≤ items.getInternal i hi := by
  apply h
  show items[i] ∈ items.toList
  simp

theorem RegL.getD {items : Array CellId} (h : RegL P items.toList) {i : Nat} (hi : i < items.size) :
    P.N ≤ items.getD i 0 := by
  apply h
  rw [Array.getD_eq_getD_getElem?, Array.getElem?_eq_getElem hi]
  simp

/-! ### `fillNulls`, `getMember`, `setMember` -/

theorem fillNulls_ok : ∀ (n : Nat) (h : Heap) (items : Array CellId), HeapOK P h → RegL P items.toList →
    HeapOK P (fillNulls n h items).1 ∧ RegL P (fillNulls n h items).2.toList ∧
      (fillNulls n h items).2.size = items.size + n
  | 0, h, items, ok, hi => ⟨ok, hi, rfl⟩
  | n + 1, h, items, ok, hi => by
    unfold fillNulls
    have ha := ok.alloc (v := .nil none) trivial
    have hi' : RegL P (items.push (h.alloc (.nil none)).1).toList := by
      intro c hc
      simp only [Array.toList_push, List.mem_append, List.mem_singleton] at hc
      rcases hc with hc | hc
      · exact hi c hc
      · subst hc; exact ha.2
    have ih := fillNulls_ok n (h.alloc (.nil none)).2 (items.push (h.alloc (.nil none)).1) ha.1 hi'
    refine ⟨ih.1, ih.2.1, ?_⟩
    rw [ih.2.2, Array.size_push]; omega

theorem getMember_cell {h : Heap} (ok : HeapOK P h) {v m : Val} (hv : GoodV P v) {c : CellId}
    (hg : getMember h v m = .ok (.cell c)) : P.N ≤ c := by
  unfold getMember at hg
  cases v with
  | arr a =>
    dsimp only at hg
    cases m with
    | num x =>
      dsimp only at hg
      split at hg
      · cases hg
      · split at hg
        · rename_i i _ hlt
          cases hg
          exact (ok.arrs a hv).getInternal hlt
        · cases hg
    | _ =>
      simp only [protoGet] at hg
      first
        | cases hg
        | (split at hg <;> cases hg)
  | obj o =>
    dsimp only at hg
    cases m with
    | num x =>
      dsimp only at hg
      split at hg
      · rename_i c' hc'
        simp only [Except.ok.injEq, Member.cell.injEq] at hg
        subst hg
        exact (ok.objs o hv).lookup hc'
      · simp only [protoGet] at hg
        split at hg <;> cases hg
    | str s sp =>
      dsimp only at hg
      split at hg
      · rename_i c' hc'
        simp only [Except.ok.injEq, Member.cell.injEq] at hg
        subst hg
        exact (ok.objs o hv).lookup hc'
      · simp only [protoGet] at hg
        split at hg <;> cases hg
    | _ => cases hg
  | str s sp =>
    dsimp only at hg
    cases m with
    | num x =>
      dsimp only at hg
      split at hg <;> cases hg
    | _ =>
      simp only [protoGet] at hg
      first
        | cases hg
        | (split at hg <;> cases hg)
  | num x =>
    dsimp only at hg
    cases m <;> simp only [protoGet] at hg <;> first
        | cases hg
        | (split at hg <;> cases hg)
  | _ => cases hg

theorem setMember_ok {h : Heap} (ok : HeapOK P h) {v m : Val} (hv : GoodV P v) {cell : CellId}
    (hcell : P.N ≤ cell) {c : CellId} {h' : Heap} (hs : setMember h v m cell = .ok (c, h')) :
    HeapOK P h' ∧ P.N ≤ c := by
  unfold setMember at hs
  cases v with
  | arr a =>
    dsimp only at hs
    cases m with
    | num x =>
      dsimp only at hs
      split at hs
      · cases hs
      · rename_i i _
        split at hs
        · rename_i hlt
          cases hs
          exact ⟨ok.set _ (ok.cells cell hcell), (ok.arrs a hv).getInternal hlt⟩
        · split at hs
          · cases hs
          · rename_i hnlt _
            simp only [Except.ok.injEq, Prod.mk.injEq] at hs
            obtain ⟨rfl, rfl⟩ := hs
            have hf := fillNulls_ok (i + 1 - (h.arr a).size) h (h.arr a) ok (ok.arrs a hv)
            have hsz : i < (fillNulls (i + 1 - (h.arr a).size) h (h.arr a)).2.size := by
              rw [hf.2.2]; omega
            have ok2 := hf.1.setArr a (items := (fillNulls (i + 1 - (h.arr a).size) h (h.arr a)).2)
              (fun _ => hf.2.1)
            exact ⟨ok2.set _ (ok2.cells cell hcell), hf.2.1.getD hsz⟩
    | _ => cases hs
  | obj o =>
    simp only [Except.ok.injEq, Prod.mk.injEq] at hs
    obtain ⟨rfl, rfl⟩ := hs
    exact ⟨ok.setObj o (fun ho => (ok.objs o ho).objInsert _ hcell), hcell⟩
  | _ => cases hs

end Jqawk
