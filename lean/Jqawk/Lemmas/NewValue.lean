/-
  `newValueJson` builds a fresh tree in the heap; `toJVal` reads it back (C04 round trip).
-/
import Jqawk.Model.Driver
import Jqawk.Lemmas.Render

namespace Jqawk

/-! ### more fuel does not change a result of `toJVal` -/

theorem sequence_map_congr {α β : Type} (f g : α → GoValRes β) (l : List α)
    (hfg : ∀ x ∈ l, f x ≠ .oof → g x = f x) (hne : GoValRes.sequence (l.map f) ≠ .oof) :
    GoValRes.sequence (l.map g) = GoValRes.sequence (l.map f) := by
  induction l with
  | nil => rfl
  | cons x xs ih =>
    simp only [List.map_cons] at hne ⊢
    cases hx : f x with
    | oof => simp [hx, GoValRes.sequence] at hne
    | error m =>
      rw [hfg x (by simp) (by simp [hx])]
      simp [hx, GoValRes.sequence]
    | ok v =>
      rw [hfg x (by simp) (by simp [hx])]
      simp only [hx, GoValRes.sequence] at hne ⊢
      have : GoValRes.sequence (xs.map f) ≠ .oof := by
        intro e; simp [e] at hne
      rw [ih (fun y hy => hfg y (by simp [hy])) this]

theorem toJVal_fuel_succ (h : Heap) : ∀ (n : Nat) (path : List Cont) (check : Bool) (v : Val),
    toJVal h n path check v ≠ .oof → toJVal h (n + 1) path check v = toJVal h n path check v := by
  intro n
  induction n with
  | zero => intro path check v hne; simp [toJVal] at hne
  | succ n ih =>
    intro path check v hne
    by_cases hon : (check && onPath path v) = true
    · rw [toJVal.eq_def, toJVal.eq_def]; simp [hon]
    · have hon' : (check && onPath path v) = false := by simpa using hon
      cases v with
      | arr a =>
        have hp : (check && path.contains (.a a)) = false := by simpa [onPath_arr] using hon'
        rw [toJVal_arr_unfold h n path check a hp] at hne ⊢
        rw [toJVal_arr_unfold h (n + 1) path check a hp]
        have hs : GoValRes.sequence ((h.arr a).toList.map fun c => toJVal h n (path ++ [.a a]) true (h.get c))
            ≠ .oof := by
          intro e; simp [e, GoValRes.map] at hne
        rw [sequence_map_congr _ _ _ (fun c _ hc => ih _ _ _ hc) hs]
      | obj o =>
        have hp : (check && path.contains (.o o)) = false := by simpa [onPath_obj] using hon'
        rw [toJVal_obj_unfold h n path check o hp] at hne ⊢
        rw [toJVal_obj_unfold h (n + 1) path check o hp]
        have hs : GoValRes.sequence ((sortByKey (h.obj o)).map fun kv =>
            (toJVal h n (path ++ [.o o]) true (h.get kv.2)).map (fun j => (kv.1, j))) ≠ .oof := by
          intro e; rw [e] at hne; exact hne rfl
        rw [sequence_map_congr _ _ _ (fun kv _ hc => by
          have : toJVal h n (path ++ [.o o]) true (h.get kv.2) ≠ .oof := by
            intro e; rw [e] at hc; exact hc rfl
          rw [ih _ _ _ this]) hs]
      | _ => rw [toJVal.eq_def, toJVal.eq_def]

theorem toJVal_fuel_mono (h : Heap) (n m : Nat) (hnm : n ≤ m) (path : List Cont) (check : Bool) (v : Val)
    (hne : toJVal h n path check v ≠ .oof) : toJVal h m path check v = toJVal h n path check v := by
  induction m with
  | zero => have : n = 0 := by omega
            subst this; rfl
  | succ m ih =>
    by_cases e : n = m + 1
    · subst e; rfl
    · have h1 := ih (by omega)
      rw [toJVal_fuel_succ h m path check v (by rw [h1]; exact hne), h1]

/-- with `toJVal_ne_oof_gen`: a successful conversion at ANY fuel is the result of `toJValTop` -/
theorem toJValTop_of_fuel (h : Heap) (n : Nat) (v : Val) (j : JVal)
    (e : toJVal h n [] false v = .ok j) : toJValTop h v = .ok j := by
  have hne : toJValTop h v ≠ .oof :=
    toJVal_ne_oof_gen h _ [] false v (PathOk.nil h) (Or.inr (by cases v <;> rfl))
      (by simp [renderFuel, Heap.nconts])
  have h1 := toJVal_fuel_mono h (renderFuel h) (max (renderFuel h) n) (Nat.le_max_left _ _) [] false v hne
  have h2 := toJVal_fuel_mono h n (max (renderFuel h) n) (Nat.le_max_right _ _) [] false v (by simp [e])
  rw [toJValTop, ← h1, h2, e]

/-! ### keyed insertion sort, generically; `sortByKey` is the instance for cells -/

def insertK {α : Type} (kv : Bytes × α) : List (Bytes × α) → List (Bytes × α)
  | [] => [kv]
  | x :: xs => if Bytes.le kv.1 x.1 then kv :: x :: xs else x :: insertK kv xs

def sortK {α : Type} : List (Bytes × α) → List (Bytes × α)
  | [] => []
  | x :: xs => insertK x (sortK xs)

theorem insertByKey_eq_insertK (kv : Bytes × CellId) (l : Members) : insertByKey kv l = insertK kv l := by
  induction l with
  | nil => rfl
  | cons x xs ih => simp only [insertByKey, insertK, ih]

theorem sortByKey_eq_sortK (l : Members) : sortByKey l = sortK l := by
  induction l with
  | nil => rfl
  | cons x xs ih => simp only [sortByKey, sortK, ih, insertByKey_eq_insertK]

theorem insertK_map {α β : Type} (f : Bytes × α → Bytes × β) (hf : ∀ x, (f x).1 = x.1)
    (kv : Bytes × α) (l : List (Bytes × α)) : insertK (f kv) (l.map f) = (insertK kv l).map f := by
  induction l with
  | nil => rfl
  | cons x xs ih =>
    simp only [List.map_cons, insertK, hf]
    split
    · simp
    · simp [ih]

/-- a key-preserving map commutes with the sort -/
theorem sortK_map {α β : Type} (f : Bytes × α → Bytes × β) (hf : ∀ x, (f x).1 = x.1)
    (l : List (Bytes × α)) : sortK (l.map f) = (sortK l).map f := by
  induction l with
  | nil => rfl
  | cons x xs ih => simp only [List.map_cons, sortK, ih, insertK_map f hf]

theorem insertK_perm {α : Type} (kv : Bytes × α) (l : List (Bytes × α)) : (insertK kv l).Perm (kv :: l) := by
  induction l with
  | nil => simp [insertK]
  | cons x xs ih =>
    simp only [insertK]
    split
    · exact List.Perm.refl _
    · exact (List.Perm.cons x ih).trans (List.Perm.swap kv x xs)

theorem sortK_perm {α : Type} (l : List (Bytes × α)) : (sortK l).Perm l := by
  induction l with
  | nil => simp [sortK]
  | cons x xs ih => exact (insertK_perm x _).trans (List.Perm.cons x ih)

/-! ### the JSON tree a converted value is compared with -/

namespace JVal
mutual
/-- `j` as it comes back from the heap: object members sorted by key, number literals
    re-formatted (parsed to the nearest double, then printed as `encoding/json` prints it) -/
def norm : JVal → JVal
  | .null => .null
  | .bool b => .bool b
  | .str s => .str s
  | .num lit => .num (((F64.parse lit).getD F64.zero).jsonFormat.getD [])
  | .arr items => .arr (normList items)
  | .obj ms => .obj (sortK (normMembers ms))
def normList : List JVal → List JVal
  | [] => []
  | x :: xs => norm x :: normList xs
def normMembers : List (Bytes × JVal) → List (Bytes × JVal)
  | [] => []
  | (k, v) :: ms => (k, norm v) :: normMembers ms
end

mutual
/-- object keys pairwise distinct at every level, number literals denote finite doubles -/
def Plain : JVal → Prop
  | .null => True
  | .bool _ => True
  | .str _ => True
  | .num lit => ((F64.parse lit).getD F64.zero).jsonFormat ≠ none
  | .arr items => PlainList items
  | .obj ms => ms.Pairwise (fun x y => x.1 ≠ y.1) ∧ PlainMembers ms
def PlainList : List JVal → Prop
  | [] => True
  | x :: xs => Plain x ∧ PlainList xs
def PlainMembers : List (Bytes × JVal) → Prop
  | [] => True
  | (_, v) :: ms => Plain v ∧ PlainMembers ms
end

theorem normList_eq (l : List JVal) : normList l = l.map norm := by
  induction l with
  | nil => rfl
  | cons x xs ih => simp [normList, ih]

theorem normMembers_eq (l : List (Bytes × JVal)) : normMembers l = l.map fun kv => (kv.1, norm kv.2) := by
  induction l with
  | nil => rfl
  | cons x xs ih => obtain ⟨k, v⟩ := x; simp [normMembers, ih]

theorem plainList_iff (l : List JVal) : PlainList l ↔ ∀ x ∈ l, Plain x := by
  induction l with
  | nil => simp [PlainList]
  | cons x xs ih => simp [PlainList, ih]

theorem plainMembers_iff (l : List (Bytes × JVal)) : PlainMembers l ↔ ∀ x ∈ l, Plain x.2 := by
  induction l with
  | nil => simp [PlainMembers]
  | cons x xs ih => obtain ⟨k, v⟩ := x; simp [PlainMembers, ih]

end JVal

/-! ### heap extension (allocation only) -/

structure HeapExt (h h' : Heap) : Prop where
  cells : ∃ xs, h'.cells = h.cells ++ xs
  arrs : ∃ xs, h'.arrs = h.arrs ++ xs
  objs : ∃ xs, h'.objs = h.objs ++ xs

namespace HeapExt

theorem refl (h : Heap) : HeapExt h h := ⟨⟨#[], by simp⟩, ⟨#[], by simp⟩, ⟨#[], by simp⟩⟩

theorem trans {a b c : Heap} (h1 : HeapExt a b) (h2 : HeapExt b c) : HeapExt a c := by
  obtain ⟨⟨x1, e1⟩, ⟨y1, f1⟩, ⟨z1, g1⟩⟩ := h1
  obtain ⟨⟨x2, e2⟩, ⟨y2, f2⟩, ⟨z2, g2⟩⟩ := h2
  exact ⟨⟨x1 ++ x2, by rw [e2, e1, Array.append_assoc]⟩, ⟨y1 ++ y2, by rw [f2, f1, Array.append_assoc]⟩,
    ⟨z1 ++ z2, by rw [g2, g1, Array.append_assoc]⟩⟩

theorem cells_size {h h' : Heap} (e : HeapExt h h') : h.cells.size ≤ h'.cells.size := by
  obtain ⟨xs, e⟩ := e.cells; rw [e, Array.size_append]; omega
theorem arrs_size {h h' : Heap} (e : HeapExt h h') : h.arrs.size ≤ h'.arrs.size := by
  obtain ⟨xs, e⟩ := e.arrs; rw [e, Array.size_append]; omega
theorem objs_size {h h' : Heap} (e : HeapExt h h') : h.objs.size ≤ h'.objs.size := by
  obtain ⟨xs, e⟩ := e.objs; rw [e, Array.size_append]; omega

theorem get_eq {h h' : Heap} (e : HeapExt h h') (c : CellId) (hc : c < h.cells.size) :
    h'.get c = h.get c := by
  obtain ⟨xs, e⟩ := e.cells
  simp only [Heap.get, e, Array.getD_eq_getD_getElem?]
  rw [Array.getElem?_append_left hc]

theorem arr_eq {h h' : Heap} (e : HeapExt h h') (a : ArrId) (ha : a < h.arrs.size) :
    h'.arr a = h.arr a := by
  obtain ⟨xs, e⟩ := e.arrs
  simp only [Heap.arr, e, Array.getD_eq_getD_getElem?]
  rw [Array.getElem?_append_left ha]

theorem obj_eq {h h' : Heap} (e : HeapExt h h') (o : ObjId) (ho : o < h.objs.size) :
    h'.obj o = h.obj o := by
  obtain ⟨xs, e⟩ := e.objs
  simp only [Heap.obj, e, Array.getD_eq_getD_getElem?]
  rw [Array.getElem?_append_left ho]

theorem alloc (h : Heap) (v : Val) : HeapExt h (h.alloc v).2 :=
  ⟨⟨#[v], by simp [Heap.alloc]⟩, ⟨#[], by simp [Heap.alloc]⟩, ⟨#[], by simp [Heap.alloc]⟩⟩
theorem allocArr (h : Heap) (x : Array CellId) : HeapExt h (h.allocArr x).2 :=
  ⟨⟨#[], by simp [Heap.allocArr]⟩, ⟨#[x], by simp [Heap.allocArr]⟩, ⟨#[], by simp [Heap.allocArr]⟩⟩
theorem allocObj (h : Heap) (x : List (Bytes × CellId)) : HeapExt h (h.allocObj x).2 :=
  ⟨⟨#[], by simp [Heap.allocObj]⟩, ⟨#[], by simp [Heap.allocObj]⟩, ⟨#[x], by simp [Heap.allocObj]⟩⟩

end HeapExt

/-! ### a value of the heap represents a JSON tree, with freshness bounds

  `ReprB h na no v j`: `v` is the root of a tree-shaped copy of `j` in `h` in which every array
  has an id `< na` and every object an id `< no`, and the containers below a container have ids
  smaller than its own (children are allocated first). -/

inductive ReprB (h : Heap) : Nat → Nat → Val → JVal → Prop
  | null (na no : Nat) : ReprB h na no (.nil none) .null
  | bool (na no : Nat) (b : Bool) : ReprB h na no (.bool b) (.bool b)
  | str (na no : Nat) (s : Bytes) : ReprB h na no (.str s none) (.str s)
  | num (na no : Nat) (lit : Bytes) : ReprB h na no (.num ((F64.parse lit).getD F64.zero)) (.num lit)
  | arr (na no : Nat) (a : Nat) (Z : List (CellId × JVal)) (hna : a < na) (ha : a < h.arrs.size)
      (harr : h.arr a = (Z.map Prod.fst).toArray) (hlt : ∀ z ∈ Z, z.1 < h.cells.size)
      (hrec : ∀ z ∈ Z, ReprB h a no (h.get z.1) z.2) : ReprB h na no (.arr a) (.arr (Z.map Prod.snd))
  | obj (na no : Nat) (o : Nat) (Z : List (Bytes × (CellId × JVal))) (hno : o < no) (ho : o < h.objs.size)
      (hobj : h.obj o = Z.map (fun z => (z.1, z.2.1))) (hlt : ∀ z ∈ Z, z.2.1 < h.cells.size)
      (hrec : ∀ z ∈ Z, ReprB h na o (h.get z.2.1) z.2.2) :
      ReprB h na no (.obj o) (.obj (Z.map fun z => (z.1, z.2.2)))

theorem ReprB.lift {h : Heap} {na no : Nat} {v : Val} {j : JVal} (r : ReprB h na no v j) :
    ∀ (h' : Heap) (na' no' : Nat), HeapExt h h' → na ≤ na' → no ≤ no' → ReprB h' na' no' v j := by
  induction r with
  | null | bool | str | num => intros; constructor
  | arr na no a Z hna ha harr hlt _ ih =>
    intro h' na' no' e h1 h2
    refine .arr na' no' a Z (by omega) (by have := e.arrs_size; omega) ?_ ?_ ?_
    · rw [e.arr_eq a ha, harr]
    · intro z hz; exact Nat.lt_of_lt_of_le (hlt z hz) e.cells_size
    · intro z hz
      rw [e.get_eq _ (hlt z hz)]
      exact ih z hz h' a no' e (Nat.le_refl _) h2
  | obj na no o Z hno ho hobj hlt _ ih =>
    intro h' na' no' e h1 h2
    refine .obj na' no' o Z (by omega) (by have := e.objs_size; omega) ?_ ?_ ?_
    · rw [e.obj_eq o ho, hobj]
    · intro z hz; exact Nat.lt_of_lt_of_le (hlt z hz) e.cells_size
    · intro z hz
      rw [e.get_eq _ (hlt z hz)]
      exact ih z hz h' na' o e h1 (Nat.le_refl _)

theorem uniform_fuel {α : Type} (Z : List α) (P : α → Nat → Prop)
    (mono : ∀ z n m, n ≤ m → P z n → P z m) (hz : ∀ z ∈ Z, ∃ n, P z n) : ∃ N, ∀ z ∈ Z, P z N := by
  induction Z with
  | nil => exact ⟨0, by simp⟩
  | cons x xs ih =>
    obtain ⟨n1, h1⟩ := hz x (by simp)
    obtain ⟨n2, h2⟩ := ih (fun z hz' => hz z (by simp [hz']))
    refine ⟨max n1 n2, ?_⟩
    intro z hz'
    rcases List.mem_cons.1 hz' with rfl | hz'
    · exact mono _ _ _ (Nat.le_max_left _ _) h1
    · exact mono _ _ _ (Nat.le_max_right _ _) (h2 z hz')

theorem toJVal_ok_mono (h : Heap) (path : List Cont) (check : Bool) (v : Val) (j : JVal) (n m : Nat)
    (hnm : n ≤ m) (e : toJVal h n path check v = .ok j) : toJVal h m path check v = .ok j := by
  rw [toJVal_fuel_mono h n m hnm path check v (by simp [e]), e]

/-- reading back a fresh tree: the conversion succeeds with the normalised tree, under any
    ancestor path made of containers outside the tree's id bounds -/
theorem toJVal_of_reprB {h : Heap} {na no : Nat} {v : Val} {j : JVal} (r : ReprB h na no v j) :
    j.Plain → ∀ (path : List Cont) (check : Bool), (∀ x, Cont.a x ∈ path → na ≤ x) →
      (∀ y, Cont.o y ∈ path → no ≤ y) → ∃ n, toJVal h n path check v = .ok j.norm := by
  induction r with
  | null => intro _ path check _ _; exact ⟨1, by simp [toJVal, onPath, Val.cont?, JVal.norm]⟩
  | bool => intro _ path check _ _; exact ⟨1, by simp [toJVal, onPath, Val.cont?, JVal.norm]⟩
  | str => intro _ path check _ _; exact ⟨1, by simp [toJVal, onPath, Val.cont?, JVal.norm]⟩
  | num na no lit =>
    intro hpl path check _ _
    simp only [JVal.Plain] at hpl
    refine ⟨1, ?_⟩
    cases hx : ((F64.parse lit).getD F64.zero).jsonFormat with
    | none => exact absurd hx hpl
    | some l => simp [toJVal, onPath, Val.cont?, JVal.norm, hx]
  | arr na no a Z hna ha harr hlt _ ih =>
    intro hpl path check hpa hpo
    simp only [JVal.Plain, JVal.plainList_iff] at hpl
    have hp : (check && path.contains (.a a)) = false := by
      have : Cont.a a ∉ path := fun hm => by have := hpa a hm; omega
      simp [this]
    have hch : ∀ z ∈ Z, ∃ n, toJVal h n (path ++ [.a a]) true (h.get z.1) = .ok z.2.norm := by
      intro z hz
      refine ih z hz (hpl z.2 (List.mem_map.2 ⟨z, hz, rfl⟩)) _ true ?_ ?_
      · intro x hx
        rcases List.mem_append.1 hx with hx | hx
        · have := hpa x hx; omega
        · simp at hx; subst hx; exact Nat.le_refl _
      · intro y hy
        rcases List.mem_append.1 hy with hy | hy
        · exact hpo y hy
        · simp at hy
    obtain ⟨N, hN⟩ := uniform_fuel Z
      (fun z n => toJVal h n (path ++ [.a a]) true (h.get z.1) = .ok z.2.norm)
      (fun z n m hnm e => toJVal_ok_mono h _ _ _ _ n m hnm e) hch
    refine ⟨N + 1, ?_⟩
    rw [toJVal_arr_unfold h N path check a hp, harr]
    have : GoValRes.sequence ((Z.map Prod.fst).toArray.toList.map fun c =>
        toJVal h N (path ++ [.a a]) true (h.get c)) = .ok (Z.map fun z => z.2.norm) := by
      rw [sequence_eq_ok]
      simp only [List.map_map]
      apply List.map_congr_left
      intro z hz
      exact hN z hz
    rw [this]
    simp [GoValRes.map, JVal.norm, JVal.normList_eq]
  | obj na no o Z hno ho hobj hlt _ ih =>
    intro hpl path check hpa hpo
    simp only [JVal.Plain, JVal.plainMembers_iff] at hpl
    have hp : (check && path.contains (.o o)) = false := by
      have : Cont.o o ∉ path := fun hm => by have := hpo o hm; omega
      simp [this]
    have hch : ∀ z ∈ Z, ∃ n, toJVal h n (path ++ [.o o]) true (h.get z.2.1) = .ok z.2.2.norm := by
      intro z hz
      refine ih z hz (hpl.2 (z.1, z.2.2) (List.mem_map.2 ⟨z, hz, rfl⟩)) _ true ?_ ?_
      · intro x hx
        rcases List.mem_append.1 hx with hx | hx
        · exact hpa x hx
        · simp at hx
      · intro y hy
        rcases List.mem_append.1 hy with hy | hy
        · have := hpo y hy; omega
        · simp at hy; subst hy; exact Nat.le_refl _
    obtain ⟨N, hN⟩ := uniform_fuel Z
      (fun z n => toJVal h n (path ++ [.o o]) true (h.get z.2.1) = .ok z.2.2.norm)
      (fun z n m hnm e => toJVal_ok_mono h _ _ _ _ n m hnm e) hch
    refine ⟨N + 1, ?_⟩
    rw [toJVal_obj_unfold h N path check o hp, hobj, sortByKey_eq_sortK,
      sortK_map (fun z : Bytes × (CellId × JVal) => (z.1, z.2.1)) (fun _ => rfl)]
    have : GoValRes.sequence (((sortK Z).map fun z => (z.1, z.2.1)).map fun kv =>
        (toJVal h N (path ++ [.o o]) true (h.get kv.2)).map (fun j => (kv.1, j)))
        = .ok ((sortK Z).map fun z => (z.1, z.2.2.norm)) := by
      rw [sequence_eq_ok]
      simp only [List.map_map]
      apply List.map_congr_left
      intro z hz
      have hz' : z ∈ Z := (sortK_perm Z).mem_iff.1 hz
      simp [hN z hz', GoValRes.map]
    rw [this]
    simp only [GoValRes.map, JVal.norm, JVal.normMembers_eq, List.map_map]
    rw [← sortK_map (fun z : Bytes × (CellId × JVal) => (z.1, z.2.2.norm)) (fun _ => rfl)]
    rfl

/-! ### `objInsert` of fresh keys appends -/

theorem objInsert_fresh (m : Members) (k : Bytes) (c : CellId) (hk : ∀ x ∈ m, x.1 ≠ k) :
    objInsert m k c = m ++ [(k, c)] := by
  induction m with
  | nil => rfl
  | cons x xs ih =>
    obtain ⟨k0, c0⟩ := x
    have h0 : (k0 == k) = false := by simpa using hk (k0, c0) (by simp)
    simp only [objInsert, h0, Bool.false_eq_true, ↓reduceIte, List.cons_append]
    rw [ih (fun y hy => hk y (by simp [hy]))]

theorem foldl_objInsert_distinct (l acc : Members) (hd : DistinctKeys (acc ++ l)) :
    l.foldl (fun m kc => objInsert m kc.1 kc.2) acc = acc ++ l := by
  induction l generalizing acc with
  | nil => simp
  | cons x xs ih =>
    have hx : ∀ y ∈ acc, y.1 ≠ x.1 := by
      intro y hy
      have := List.pairwise_append.1 hd
      exact this.2.2 y hy x (by simp)
    simp only [List.foldl_cons]
    rw [objInsert_fresh acc x.1 x.2 hx]
    have hd' : DistinctKeys ((acc ++ [x]) ++ xs) := by simpa [DistinctKeys] using hd
    rw [ih _ hd']; simp

/-! ### what `newValueJson` builds -/

/-- cell `c` of state `s` holds a fresh copy of `j` -/
def GoodCell (s : St) (c : CellId) (j : JVal) : Prop :=
  c < s.heap.cells.size ∧ ReprB s.heap s.heap.arrs.size s.heap.objs.size (s.heap.get c) j

theorem GoodCell.lift {s s' : St} {c : CellId} {j : JVal} (g : GoodCell s c j)
    (e : HeapExt s.heap s'.heap) : GoodCell s' c j :=
  ⟨Nat.lt_of_lt_of_le g.1 e.cells_size, by
    rw [e.get_eq c g.1]; exact g.2.lift _ _ _ e e.arrs_size e.objs_size⟩

theorem EM.bind_ok {α β : Type} (m : EM α) (k : α → EM β) (s s1 : St) (r : β) :
    (m >>= k) s = .ok r s1 ↔ ∃ a sa, m s = .ok a sa ∧ k a sa = .ok r s1 := by
  show EM.bind m k s = _ ↔ _
  simp only [EM.bind]
  cases m s with
  | oof => simp
  | err x sx => simp
  | ok a sa =>
    constructor
    · intro h; exact ⟨a, sa, rfl, h⟩
    · rintro ⟨a', sa', h1, h2⟩
      cases h1; exact h2

/-- `newValueJson j; newCell`: the step shared by the item and member loops -/
theorem newCell_good (s sa : St) (v : Val) (j : JVal) (hext : HeapExt s.heap sa.heap)
    (hrep : ReprB sa.heap sa.heap.arrs.size sa.heap.objs.size v j) (c : CellId) (s1 : St)
    (e : newCell v sa = .ok c s1) : HeapExt s.heap s1.heap ∧ GoodCell s1 c j := by
  simp only [newCell, Heap.alloc, Res.ok.injEq] at e
  obtain ⟨rfl, rfl⟩ := e
  have he2 : HeapExt sa.heap { sa.heap with cells := sa.heap.cells.push v } := HeapExt.alloc sa.heap v
  refine ⟨hext.trans he2, ?_, ?_⟩
  · simp
  · have : Heap.get { sa.heap with cells := sa.heap.cells.push v } sa.heap.cells.size = v := by
      simp [Heap.get]
    simp only [this]
    exact hrep.lift _ _ _ he2 (Nat.le_refl _) (Nat.le_refl _)

mutual
/-- what `newValueJson` builds: it only allocates, and the result is a fresh tree copy of `j` -/
theorem newValueJson_spec : ∀ (j : JVal) (s : St) (v : Val) (s' : St), j.Plain →
    newValueJson j s = .ok v s' →
    HeapExt s.heap s'.heap ∧ ReprB s'.heap s'.heap.arrs.size s'.heap.objs.size v j
  | .null, s, v, s', _, e => by
    simp only [newValueJson, pure, EM.pure, Res.ok.injEq] at e
    obtain ⟨rfl, rfl⟩ := e; exact ⟨HeapExt.refl _, .null _ _⟩
  | .bool b, s, v, s', _, e => by
    simp only [newValueJson, pure, EM.pure, Res.ok.injEq] at e
    obtain ⟨rfl, rfl⟩ := e; exact ⟨HeapExt.refl _, .bool _ _ _⟩
  | .str x, s, v, s', _, e => by
    simp only [newValueJson, pure, EM.pure, Res.ok.injEq] at e
    obtain ⟨rfl, rfl⟩ := e; exact ⟨HeapExt.refl _, .str _ _ _⟩
  | .num lit, s, v, s', _, e => by
    simp only [newValueJson, pure, EM.pure, Res.ok.injEq] at e
    obtain ⟨rfl, rfl⟩ := e; exact ⟨HeapExt.refl _, .num _ _ _⟩
  | .arr items, s, v, s', hpl, e => by
    simp only [JVal.Plain, JVal.plainList_iff] at hpl
    rw [newValueJson, EM.bind_ok] at e
    obtain ⟨cells, s1, hm, e⟩ := e
    obtain ⟨e1, Z, rfl, rfl, gz⟩ := newValueItems_spec items s s1 cells hpl hm
    simp only [bind, EM.bind, getHeap, Heap.allocArr, setHeap, pure, EM.pure, Res.ok.injEq] at e
    obtain ⟨rfl, rfl⟩ := e
    have e2 : HeapExt s1.heap { s1.heap with arrs := s1.heap.arrs.push (Z.map Prod.fst).toArray } :=
      HeapExt.allocArr s1.heap _
    refine ⟨e1.trans e2, ?_⟩
    refine .arr _ _ s1.heap.arrs.size Z (by simp) (by simp) (by simp [Heap.arr]) ?_ ?_
    · intro z hz; exact (gz z hz).1
    · intro z hz
      have := (gz z hz).2.lift _ s1.heap.arrs.size s1.heap.objs.size e2 (Nat.le_refl _) (Nat.le_refl _)
      rw [e2.get_eq _ (gz z hz).1]
      exact this
  | .obj members, s, v, s', hpl, e => by
    simp only [JVal.Plain, JVal.plainMembers_iff] at hpl
    rw [newValueJson, EM.bind_ok] at e
    obtain ⟨cells, s1, hm, e⟩ := e
    obtain ⟨e1, Z, rfl, rfl, gz⟩ := newValueMembers_spec members s s1 cells hpl.2 hm
    have hd : DistinctKeys ([] ++ Z.map (fun z => (z.1, z.2.1))) := by
      have := hpl.1
      simp only [List.pairwise_map] at this
      simpa [DistinctKeys, List.pairwise_map] using this
    rw [foldl_objInsert_distinct _ _ hd] at e
    simp only [bind, EM.bind, getHeap, Heap.allocObj, setHeap, pure, EM.pure, Res.ok.injEq,
      List.nil_append] at e
    obtain ⟨rfl, rfl⟩ := e
    have e2 : HeapExt s1.heap { s1.heap with objs := s1.heap.objs.push (Z.map fun z => (z.1, z.2.1)) } :=
      HeapExt.allocObj s1.heap _
    refine ⟨e1.trans e2, ?_⟩
    refine .obj _ _ s1.heap.objs.size Z (by simp) (by simp) (by simp [Heap.obj]) ?_ ?_
    · intro z hz; exact (gz z hz).1
    · intro z hz
      have := (gz z hz).2.lift _ s1.heap.arrs.size s1.heap.objs.size e2 (Nat.le_refl _) (Nat.le_refl _)
      rw [e2.get_eq _ (gz z hz).1]
      exact this
theorem newValueItems_spec : ∀ (items : List JVal) (s s1 : St) (cells : List CellId),
    (∀ it ∈ items, it.Plain) → newValueItems items s = .ok cells s1 →
    HeapExt s.heap s1.heap ∧ ∃ Z : List (CellId × JVal), cells = Z.map Prod.fst ∧
      items = Z.map Prod.snd ∧ ∀ z ∈ Z, GoodCell s1 z.1 z.2
  | [], s, s1, cells, _, e => by
    simp only [newValueItems, pure, EM.pure, Res.ok.injEq] at e
    obtain ⟨rfl, rfl⟩ := e
    exact ⟨HeapExt.refl _, [], rfl, rfl, by simp⟩
  | j :: js, s, s1, cells, hpl, e => by
    rw [newValueItems, EM.bind_ok] at e
    obtain ⟨v, sv, h0, e⟩ := e
    rw [EM.bind_ok] at e
    obtain ⟨c, sc, h1, e⟩ := e
    rw [EM.bind_ok] at e
    obtain ⟨cs, sb, h2, e⟩ := e
    have e' : Res.ok (c :: cs) sb = Res.ok cells s1 := e
    cases e'
    obtain ⟨hext, hrep⟩ := newValueJson_spec j s v sv (hpl j (by simp)) h0
    obtain ⟨e1, g1⟩ := newCell_good s sv v j hext hrep c sc h1
    obtain ⟨e2, Z, rfl, rfl, gz⟩ := newValueItems_spec js sc _ cs (fun x hx => hpl x (by simp [hx])) h2
    refine ⟨e1.trans e2, (c, j) :: Z, rfl, rfl, ?_⟩
    intro z hz
    rcases List.mem_cons.1 hz with rfl | hz
    · exact g1.lift e2
    · exact gz z hz
theorem newValueMembers_spec : ∀ (members : List (Bytes × JVal)) (s s1 : St)
    (cells : List (Bytes × CellId)), (∀ kv ∈ members, kv.2.Plain) →
    newValueMembers members s = .ok cells s1 →
    HeapExt s.heap s1.heap ∧ ∃ Z : List (Bytes × (CellId × JVal)),
      cells = Z.map (fun z => (z.1, z.2.1)) ∧ members = Z.map (fun z => (z.1, z.2.2)) ∧
      ∀ z ∈ Z, GoodCell s1 z.2.1 z.2.2
  | [], s, s1, cells, _, e => by
    simp only [newValueMembers, pure, EM.pure, Res.ok.injEq] at e
    obtain ⟨rfl, rfl⟩ := e
    exact ⟨HeapExt.refl _, [], rfl, rfl, by simp⟩
  | (k, j) :: ms, s, s1, cells, hpl, e => by
    rw [newValueMembers, EM.bind_ok] at e
    obtain ⟨v, sv, h0, e⟩ := e
    rw [EM.bind_ok] at e
    obtain ⟨c, sc, h1, e⟩ := e
    rw [EM.bind_ok] at e
    obtain ⟨cs, sb, h2, e⟩ := e
    have e' : Res.ok ((k, c) :: cs) sb = Res.ok cells s1 := e
    cases e'
    obtain ⟨hext, hrep⟩ := newValueJson_spec j s v sv (hpl (k, j) (by simp)) h0
    obtain ⟨e1, g1⟩ := newCell_good s sv v j hext hrep c sc h1
    obtain ⟨e2, Z, rfl, hrest, gz⟩ :=
      newValueMembers_spec ms sc _ cs (fun x hx => hpl x (by simp [hx])) h2
    refine ⟨e1.trans e2, (k, (c, j)) :: Z, by simp, by simp [hrest], ?_⟩
    intro z hz
    rcases List.mem_cons.1 hz with rfl | hz
    · exact g1.lift e2
    · exact gz z hz
end

/-- the round trip: a tree built by `newValueJson` converts back to its normal form -/
theorem newValueJson_toJValTop (j : JVal) (hj : j.Plain) (s s' : St) (v : Val)
    (e : newValueJson j s = .ok v s') : toJValTop s'.heap v = .ok j.norm := by
  obtain ⟨_, hrep⟩ := newValueJson_spec j s v s' hj e
  obtain ⟨m, hm⟩ := toJVal_of_reprB hrep hj [] false (by simp) (by simp)
  exact toJValTop_of_fuel _ m v _ hm

/-! ### `newValueJson` always succeeds (it is total: no fuel, no error path) -/

mutual
theorem newValueJson_succeeds : ∀ (j : JVal) (s : St), ∃ v s', newValueJson j s = .ok v s'
  | .null, s => ⟨_, _, rfl⟩
  | .bool _, s => ⟨_, _, rfl⟩
  | .str _, s => ⟨_, _, rfl⟩
  | .num _, s => ⟨_, _, rfl⟩
  | .arr items, s => by
    obtain ⟨cells, s1, hm⟩ := newValueItems_succeeds items s
    rw [newValueJson]
    exact ⟨_, _, (EM.bind_ok _ _ _ _ _).2 ⟨cells, s1, hm, rfl⟩⟩
  | .obj members, s => by
    obtain ⟨cells, s1, hm⟩ := newValueMembers_succeeds members s
    rw [newValueJson]
    exact ⟨_, _, (EM.bind_ok _ _ _ _ _).2 ⟨cells, s1, hm, rfl⟩⟩
theorem newValueItems_succeeds : ∀ (items : List JVal) (s : St),
    ∃ cells s1, newValueItems items s = .ok cells s1
  | [], s => ⟨_, _, rfl⟩
  | j :: js, s => by
    obtain ⟨v, sv, h0⟩ := newValueJson_succeeds j s
    obtain ⟨cs, sb, h2⟩ := newValueItems_succeeds js { sv with heap := (sv.heap.alloc v).2 }
    rw [newValueItems]
    refine ⟨_, _, (EM.bind_ok _ _ _ _ _).2 ⟨v, sv, h0, (EM.bind_ok _ _ _ _ _).2
      ⟨_, _, rfl, (EM.bind_ok _ _ _ _ _).2 ⟨cs, sb, h2, rfl⟩⟩⟩⟩
theorem newValueMembers_succeeds : ∀ (members : List (Bytes × JVal)) (s : St),
    ∃ cells s1, newValueMembers members s = .ok cells s1
  | [], s => ⟨_, _, rfl⟩
  | (k, j) :: ms, s => by
    obtain ⟨v, sv, h0⟩ := newValueJson_succeeds j s
    obtain ⟨cs, sb, h2⟩ := newValueMembers_succeeds ms { sv with heap := (sv.heap.alloc v).2 }
    rw [newValueMembers]
    refine ⟨_, _, (EM.bind_ok _ _ _ _ _).2 ⟨v, sv, h0, (EM.bind_ok _ _ _ _ _).2
      ⟨_, _, rfl, (EM.bind_ok _ _ _ _ _).2 ⟨cs, sb, h2, rfl⟩⟩⟩⟩
end

end Jqawk
