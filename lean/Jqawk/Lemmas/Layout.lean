/-
  The lexer as a token source, up to positions: lexing depends on the absolute offset only
  through the positions it reports (`sameRest_isSimE`), newline skipping never runs out of
  fuel, and horizontal trivia in front of a token only shifts positions.
-/
import Jqawk.Lemmas.Lexer
import Jqawk.Lemmas.Erase

namespace Jqawk
namespace Lexer

/-- two lexer states with the same unread text (offsets and `tokenStart` may differ) -/
def SameRest (s s' : LexState) : Prop := s.rest = s'.rest

abbrev ShiftRel := PM.AnsRegexE SameRest

theorem ite_P2 {β : Type} {P : β → β → Prop} (c : Prop) [Decidable c] (a e a' e' : β)
    (ha : c → P a a') (he : ¬c → P e e') : P (if c then a else e) (if c then a' else e') := by
  split
  · exact ha ‹_›
  · exact he ‹_›

theorem shiftRel_ok {t t' : Token} {s s' : LexState} (h1 : t.tag = t'.tag) (h2 : t.text = t'.text)
    (h3 : s.rest = s'.rest) : ShiftRel (.ok (t, s)) (.ok (t', s')) :=
  ⟨(erase_token_eq_iff _ _).mpr ⟨h1, h2⟩, h3⟩

theorem identifier_shift (pre : Bytes) (p p' : Nat) (r : Bytes) :
    ShiftRel (.ok (identifier pre p r)) (.ok (identifier pre p' r)) := by
  rw [identifier_eq, identifier_eq]
  cases keyword (pre ++ (spanB isIdentB r).1) <;> exact shiftRel_ok rfl rfl rfl

theorem number_shift (p p' : Nat) (r : Bytes) :
    ShiftRel (.ok (number p r)) (.ok (number p' r)) := by
  rw [number_eq, number_eq]
  split
  · split <;> exact shiftRel_ok rfl rfl rfl
  · exact shiftRel_ok rfl rfl rfl

theorem string_shift (q : UInt8) (p p' : Nat) (r : Bytes) :
    ShiftRel (string q p r) (string q p' r) := by
  unfold string
  cases scanTo q r with
  | none => exact rfl
  | some br => exact shiftRel_ok rfl rfl rfl

/-- the dispatch depends on the offset only through reported positions -/
theorem lexAt_shift (c : UInt8) (cs : Bytes) (p p' : Nat) :
    ShiftRel (lexAt c cs p) (lexAt c cs p') := by
  unfold lexAt
  dsimp only
  refine ite_P2 _ _ _ _ _ (fun _ => shiftRel_ok rfl rfl rfl) (fun _ => ?_)
  refine ite_P2 _ _ _ _ _ (fun _ => identifier_shift _ _ _ _) (fun _ => ?_)
  refine ite_P2 _ _ _ _ _ (fun _ => number_shift _ _ _) (fun _ => ?_)
  refine ite_P2 _ _ _ _ _ (fun _ => identifier_shift _ _ _ _) (fun _ => ?_)
  iterate 12 refine ite_P2 _ _ _ _ _ (fun _ => shiftRel_ok rfl rfl rfl) (fun _ => ?_)
  iterate 10
    refine ite_P2 _ _ _ _ _ (fun _ => ?_) (fun _ => ?_)
    · split <;> first | exact shiftRel_ok rfl rfl rfl | exact rfl
  refine ite_P2 _ _ _ _ _ (fun _ => string_shift _ _ _ _) (fun _ => rfl)

theorem skipWs_fst_shift (fuel : Nat) (r : Bytes) (p p' : Nat) :
    (skipWs fuel r p).1 = (skipWs fuel r p').1 := by
  induction fuel generalizing r p p' with
  | zero => rfl
  | succ fuel ih =>
    cases r with
    | nil => rfl
    | cons c cs =>
      rw [skipWs_succ_cons, skipWs_succ_cons]
      split
      · exact ih _ _ _
      · split
        · have : (skipComment cs (p + 1)).1 = (skipComment cs (p' + 1)).1 := by
            generalize p + 1 = q; generalize p' + 1 = q'
            induction cs generalizing q q' with
            | nil => rfl
            | cons d ds ihc =>
              simp only [skipComment]
              split
              · rfl
              · exact ihc _ _
          rw [this]; exact ih _ _ _
        · rfl

/-- `Lexer.next` depends on the offset and `tokenStart` only through reported positions -/
theorem next_shift (s s' : LexState) (h : SameRest s s') : ShiftRel (next s) (next s') := by
  rw [next_eq, next_eq]
  unfold SameRest at h
  have hw := skipWs_fst_shift (s.rest.length + 1) s.rest s.pos s'.pos
  rw [← h]
  generalize skipWs (s.rest.length + 1) s.rest s.pos = x at hw
  generalize skipWs (s.rest.length + 1) s.rest s'.pos = x' at hw
  obtain ⟨r, q⟩ := x
  obtain ⟨r', q'⟩ := x'
  dsimp only at hw
  subst hw
  cases r with
  | nil => exact shiftRel_ok rfl rfl rfl
  | cons c cs => exact lexAt_shift c cs q q'

theorem regex_shift (s s' : LexState) (h : SameRest s s') : ShiftRel (regex s) (regex s') := by
  unfold regex
  unfold SameRest at h
  rw [← h]
  cases scanTo 47 s.rest with
  | none => exact rfl
  | some br => exact shiftRel_ok rfl rfl rfl

theorem nextNN_shift (fuel : Nat) (s s' : LexState) (nl : Bool) (h : SameRest s s') :
    PM.AnsNextE SameRest (nextNN fuel s nl) (nextNN fuel s' nl) := by
  induction fuel generalizing s s' nl with
  | zero => exact rfl
  | succ fuel ih =>
    have hn := next_shift s s' h
    simp only [nextNN]
    cases h₁ : next s with
    | error e₁ =>
      cases h₂ : next s' with
      | error e₂ => rw [h₁, h₂] at hn; exact hn
      | ok r₂ => rw [h₁, h₂] at hn; exact hn.elim
    | ok r₁ =>
      obtain ⟨t₁, s₁⟩ := r₁
      cases h₂ : next s' with
      | error e₂ => rw [h₁, h₂] at hn; exact hn.elim
      | ok r₂ =>
        obtain ⟨t₂, s₂⟩ := r₂
        rw [h₁, h₂] at hn
        obtain ⟨ht, hs⟩ := hn
        have htag : t₁.tag = t₂.tag := ((erase_token_eq_iff _ _).mp ht).1
        dsimp only
        rw [htag]
        split
        · exact ih _ _ _ hs
        · exact ⟨ht, rfl, hs⟩

/-- a successful non-EOF `next` consumes at least one byte -/
theorem next_progress (s : LexState) (t : Token) (s' : LexState) (h : next s = .ok (t, s'))
    (ht : t.tag ≠ .eof) : s'.rest.length < s.rest.length := by
  obtain ⟨ws, r, h1, _, h3⟩ := next_cases s
  rw [h3] at h
  cases r with
  | nil => cases h; exact absurd rfl ht
  | cons c cs =>
    obtain ⟨tok, hne, h4, _⟩ := (lexAt_res c cs _).consumed h
    have : 0 < tok.length := List.length_pos_iff.mpr hne
    rw [h1, h4]; simp; omega

/-- newline skipping never runs out of fuel: any fuel above the length of the unread text gives
    the same answer, and that answer is not the out-of-fuel error of the model -/
theorem nextNN_fuel (f1 f2 : Nat) (s : LexState) (nl : Bool) (h1 : s.rest.length < f1)
    (h2 : s.rest.length < f2) : nextNN f1 s nl = nextNN f2 s nl := by
  induction f1 generalizing f2 s nl with
  | zero => omega
  | succ f1 ih =>
    cases f2 with
    | zero => omega
    | succ f2 =>
      simp only [nextNN]
      cases hn : next s with
      | error e => rfl
      | ok r =>
        obtain ⟨t, s'⟩ := r
        dsimp only
        split
        · rename_i htag
          have := next_progress s t s' hn (by intro e; rw [e] at htag; cases htag)
          exact ih _ _ _ (by omega) (by omega)
        · rfl

/-- horizontal trivia in front of the unread text changes nothing but positions in what the
    parser's `advance` receives (for any sufficient amounts of fuel) -/
theorem nextNN_trivia {t rest : Bytes} (ht : Trivia t rest) (p ts : Nat) (nl : Bool) :
    nextNN ((t ++ rest).length + 1) ⟨t ++ rest, p, ts⟩ nl
      = nextNN (rest.length + 1) ⟨rest, p + t.length, ts⟩ nl := by
  have hf : nextNN ((t ++ rest).length + 1) ⟨rest, p + t.length, ts⟩ nl
      = nextNN (rest.length + 1) ⟨rest, p + t.length, ts⟩ nl :=
    nextNN_fuel _ _ _ _ (by simp; omega) (by simp)
  rw [← hf]
  simp only [nextNN]
  have hskip : next ⟨t ++ rest, p, ts⟩ = next ⟨rest, p + t.length, ts⟩ := by
    rw [next_eq, next_eq]
    dsimp only
    rw [skipWs_trivia_gen ht _ (rest.length + 1) p (Nat.lt_succ_self _) (Nat.lt_succ_self _)]
  rw [hskip]

end Lexer

/-- C13: the lexer, as the parser's token source, depends on absolute offsets only through the
    positions it reports: "same unread text" is a simulation up to positions. -/
theorem sameRest_isSimE : PM.IsSimE lexerSrc lexerSrc Lexer.SameRest where
  next := fun s s' h => by
    show PM.AnsNextE _ (Lexer.nextNN (s.rest.length + 1) s false)
      (Lexer.nextNN (s'.rest.length + 1) s' false)
    have h' : s.rest = s'.rest := h
    rw [← h']
    exact Lexer.nextNN_shift _ s s' false h
  regex := fun s s' h => Lexer.regex_shift s s' h

end Jqawk
