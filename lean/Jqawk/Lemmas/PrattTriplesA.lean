/-
  C06, finite clause: the triple tables for five first operators (split so that the files check in parallel;
  each `decide +kernel` evaluates the parser on 225 token lists).
-/
import Jqawk.Lemmas.PrattFinite

namespace Jqawk.C06

theorem triples_multiply : TriplesFor .multiply := by decide +kernel
theorem triples_divide : TriplesFor .divide := by decide +kernel
theorem triples_percent : TriplesFor .percent := by decide +kernel
theorem triples_plus : TriplesFor .plus := by decide +kernel
theorem triples_minus : TriplesFor .minus := by decide +kernel

end Jqawk.C06
