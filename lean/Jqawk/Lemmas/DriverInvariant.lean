/-
  The fault-counter discipline lifted to the rule driver and the whole run (C11): a run that
  ends successfully never raised a runtime fault; a run that ends in a runtime error raised
  exactly one, and printed nothing after it.
-/
import Jqawk.Lemmas.Invariant
import Jqawk.Model.Driver

set_option linter.unusedVariables false

namespace Jqawk

/-- output only appended -/
def OutExt (s s' : St) : Prop := ∃ c, s'.out = c ++ s.out

theorem OutExt.refl (s : St) : OutExt s s := ⟨[], rfl⟩
theorem OutExt.trans {a b c : St} (h1 : OutExt a b) (h2 : OutExt b c) : OutExt a c := by
  obtain ⟨c1, o1⟩ := h1; obtain ⟨c2, o2⟩ := h2
  exact ⟨c2 ++ c1, by rw [o2, o1, List.append_assoc]⟩

/-- the driver-level invariant on a result (the driver legitimately changes `root`/`ruleRoot`) -/
def QD {α : Type} (s : St) : Res α → Prop
  | .ok _ s' => OutExt s s' ∧ s'.faults = s.faults
  | .err (.runtime _ _) s' => OutExt s s' ∧ s'.faults = s.faults + 1 ∧ s'.faultOut = s'.out.length
  | .err (.sig _) s' => OutExt s s' ∧ s'.faults = s.faults
  | .err (.panic _) s' => OutExt s s'
  | .err (.unmodelled _) s' => OutExt s s'
  | .oof => True

theorem QD_of_Q {α : Type} {s : St} {r : Res α} (h : Q s r) : QD s r := by
  cases r with
  | ok a s' => exact ⟨h.1.out, h.2⟩
  | err e s' =>
    cases e with
    | runtime p m => exact ⟨h.1.out, h.2.1, h.2.2⟩
    | sig g => exact ⟨h.1.out, h.2⟩
    | panic m => exact h.out
    | unmodelled w => exact h.out
  | oof => trivial

theorem QD.trans {α : Type} {s s1 : St} {r : Res α} (ho : OutExt s s1) (hf : s1.faults = s.faults)
    (h : QD s1 r) : QD s r := by
  cases r with
  | ok a s' => exact ⟨ho.trans h.1, h.2.trans hf⟩
  | err e s' =>
    cases e with
    | runtime p m => exact ⟨ho.trans h.1, by rw [h.2.1, hf], h.2.2⟩
    | sig g => exact ⟨ho.trans h.1, h.2.trans hf⟩
    | panic m => exact ho.trans h
    | unmodelled w => exact ho.trans h
  | oof => trivial

def SafeD {α : Type} (m : EM α) : Prop := ∀ s, QD s (m s)

theorem SafeD.of_safe {α : Type} {m : EM α} (h : Safe m) : SafeD m := fun s => QD_of_Q (h s)

theorem SafeD.pure {α : Type} (a : α) : SafeD (Pure.pure a : EM α) :=
  fun s => ⟨OutExt.refl s, rfl⟩

theorem SafeD.bind {α β : Type} {m : EM α} {f : α → EM β} (hm : SafeD m) (hf : ∀ a, SafeD (f a)) :
    SafeD (m >>= f) := by
  intro s
  show QD s (EM.bind m f s)
  unfold EM.bind
  have h := hm s
  cases hr : m s with
  | ok a s1 => rw [hr] at h; exact QD.trans h.1 h.2 (hf a s1)
  | err e s1 => rw [hr] at h; cases e <;> exact h
  | oof => trivial

/-- any state update that leaves output and fault counters alone -/
theorem SafeD.modifySt (f : St → St) (hout : ∀ s, (f s).out = s.out) (hf : ∀ s, (f s).faults = s.faults) :
    SafeD (Jqawk.modifySt f) :=
  fun s => ⟨⟨[], by simp [hout]⟩, hf s⟩

theorem SafeD.catchSig {α : Type} {m : EM α} (g : Sig) (d : α) (hm : SafeD m) :
    SafeD (Jqawk.catchSig g d m) := by
  intro s
  unfold Jqawk.catchSig
  have h := hm s
  cases hr : m s with
  | ok a s1 => rw [hr] at h; exact h
  | err e s1 =>
    rw [hr] at h
    cases e with
    | sig g' => dsimp only; split <;> exact h
    | runtime p m => exact h
    | panic m => exact h
    | unmodelled m => exact h
  | oof => trivial

theorem SafeD.ruleFlow {m : EM Unit} (hm : SafeD m) : SafeD (Jqawk.ruleFlow m) := by
  intro s
  unfold Jqawk.ruleFlow
  have h := hm s
  cases hr : m s with
  | ok a s1 => rw [hr] at h; exact h
  | err e s1 =>
    rw [hr] at h
    cases e with
    | sig g => cases g <;> exact h
    | runtime p m => exact h
    | panic m => exact h
    | unmodelled m => exact h
  | oof => trivial

theorem SafeD.catchExit {m : EM Unit} (hm : SafeD m) : SafeD (Jqawk.catchExit m) := by
  intro s
  unfold Jqawk.catchExit
  have h := hm s
  cases hr : m s with
  | ok a s1 => rw [hr] at h; exact h
  | err e s1 =>
    rw [hr] at h
    cases e with
    | sig g => cases g <;> exact h
    | runtime p m => exact h
    | panic m => exact h
    | unmodelled m => exact h
  | oof => trivial

variable (prog : Program)

theorem SafeD.evalRules (rules : List Rule) : SafeD (Jqawk.evalRules prog rules) := by
  induction rules with
  | nil => exact SafeD.pure ()
  | cons rule rest ih =>
    unfold Jqawk.evalRules
    have hstmt : SafeD (evalStmt prog evalFuel rule.body) := SafeD.of_safe ((allSafe prog evalFuel).stmt _)
    refine SafeD.bind ?_ (fun r => ?_)
    · split
      · exact SafeD.pure _
      · refine SafeD.catchSig _ _ (SafeD.bind (SafeD.of_safe ((allSafe prog evalFuel).expr _))
          (fun c => SafeD.bind (SafeD.of_safe (Safe.readCell _)) (fun v => SafeD.pure _)))
    · split
      · exact SafeD.pure _
      · split
        · exact ih
        · refine SafeD.bind (SafeD.catchSig _ _ (SafeD.bind hstmt (fun _ => SafeD.pure _))) (fun more => ?_)
          split
          · exact ih
          · exact SafeD.pure _

theorem SafeD.setLocal (name : Bytes) (c : CellId) : SafeD (Jqawk.setLocal name c) :=
  SafeD.of_safe (Safe.setLocal name c)

theorem SafeD.evalElems (rules : List Rule) (items : List CellId) (i : Nat) :
    SafeD (Jqawk.evalElems prog rules items i) := by
  induction items generalizing i with
  | nil => exact SafeD.pure ()
  | cons item rest ih =>
    unfold Jqawk.evalElems
    exact SafeD.bind (SafeD.modifySt _ (fun _ => rfl) (fun _ => rfl)) (fun _ =>
      SafeD.bind (SafeD.of_safe (Safe.newCell _)) (fun ic =>
        SafeD.bind (SafeD.setLocal _ _) (fun _ =>
          SafeD.bind (SafeD.evalRules prog rules) (fun _ => ih (i + 1)))))

theorem SafeD.evalPatternRules (rules : List Rule) : SafeD (Jqawk.evalPatternRules prog rules) := by
  unfold Jqawk.evalPatternRules
  refine SafeD.bind (SafeD.of_safe Safe.getSt) (fun s => ?_)
  split
  · exact SafeD.pure _
  · split
    · exact SafeD.evalElems prog rules _ _
    · exact SafeD.bind (SafeD.modifySt _ (fun _ => rfl) (fun _ => rfl)) (fun _ => SafeD.evalRules prog rules)

theorem SafeD.evalSpecialRules (mkRoot : EM CellId) (hmk : SafeD mkRoot) (rules : List Rule) :
    SafeD (Jqawk.evalSpecialRules prog mkRoot rules) := by
  induction rules with
  | nil => exact SafeD.pure _
  | cons rule rest ih =>
    unfold Jqawk.evalSpecialRules
    refine SafeD.bind hmk (fun c => SafeD.bind (SafeD.modifySt _ (fun _ => rfl) (fun _ => rfl)) (fun _ =>
      SafeD.bind (SafeD.ruleFlow (SafeD.of_safe ((allSafe prog evalFuel).stmt _))) (fun fl => ?_)))
    split
    · exact SafeD.pure _
    · exact ih

theorem SafeD.processRoot (c : CellId) : SafeD (Jqawk.processRoot prog c) := by
  unfold Jqawk.processRoot
  refine SafeD.bind (SafeD.of_safe (Safe.readCell _)) (fun rv =>
    SafeD.bind (SafeD.evalSpecialRules prog _ (SafeD.pure _) _) (fun fl => ?_))
  split
  · exact SafeD.pure _
  · refine SafeD.bind (SafeD.modifySt _ (fun _ => rfl) (fun _ => rfl)) (fun _ =>
      SafeD.bind (SafeD.catchExit (SafeD.evalPatternRules prog _)) (fun fl2 => ?_))
    split
    · exact SafeD.pure _
    · exact SafeD.evalSpecialRules prog _ (SafeD.of_safe (Safe.newCell _)) _

theorem SafeD.processRoots (cs : List CellId) : SafeD (Jqawk.processRoots prog cs) := by
  induction cs with
  | nil => exact SafeD.pure _
  | cons c rest ih =>
    unfold Jqawk.processRoots
    refine SafeD.bind (SafeD.processRoot prog c) (fun fl => ?_)
    split
    · exact SafeD.pure _
    · exact ih

mutual
theorem SafeD.newValueJson : ∀ j, SafeD (Jqawk.newValueJson j)
  | .null => by unfold Jqawk.newValueJson; exact SafeD.pure _
  | .bool b => by unfold Jqawk.newValueJson; exact SafeD.pure _
  | .num lit => by unfold Jqawk.newValueJson; exact SafeD.pure _
  | .str s => by unfold Jqawk.newValueJson; exact SafeD.pure _
  | .arr items => by
    unfold Jqawk.newValueJson
    exact SafeD.bind (SafeD.newValueItems items) (fun cells => SafeD.bind (SafeD.of_safe (Safe.allocArrM _))
      (fun _ => SafeD.pure _))
  | .obj members => by
    unfold Jqawk.newValueJson
    exact SafeD.bind (SafeD.newValueMembers members) (fun cells => SafeD.bind (SafeD.of_safe (Safe.allocObjM _))
      (fun _ => SafeD.pure _))
theorem SafeD.newValueItems : ∀ js, SafeD (Jqawk.newValueItems js)
  | [] => by unfold Jqawk.newValueItems; exact SafeD.pure _
  | j :: js => by
    unfold Jqawk.newValueItems
    exact SafeD.bind (SafeD.newValueJson j) (fun v => SafeD.bind (SafeD.of_safe (Safe.newCell v))
      (fun c => SafeD.bind (SafeD.newValueItems js) (fun cs => SafeD.pure _)))
theorem SafeD.newValueMembers : ∀ ms, SafeD (Jqawk.newValueMembers ms)
  | [] => by unfold Jqawk.newValueMembers; exact SafeD.pure _
  | (k, j) :: ms => by
    unfold Jqawk.newValueMembers
    exact SafeD.bind (SafeD.newValueJson j) (fun v => SafeD.bind (SafeD.of_safe (Safe.newCell v))
      (fun c => SafeD.bind (SafeD.newValueMembers ms) (fun cs => SafeD.pure _)))
end

/-- the fault discipline on what a file / the input loop reports, relative to the start state -/
def faultsOK (s : St) (o : Outcome) (s' : St) : Prop :=
  match o with
  | .runtimeErr _ _ _ => s'.faults = s.faults + 1 ∧ s'.faultOut = s'.out.length
  | .ok | .jsonErr _ | .syntaxErr _ _ | .sentinel _ => s'.faults = s.faults
  | _ => True

def GoodStep (s : St) : StepRes → Prop
  | .done s' => OutExt s s' ∧ s'.faults = s.faults
  | .finished o s' => OutExt s s' ∧ faultsOK s o s'

theorem faultsOK_errOutcome (src : Bytes) {s s' : St} {e : Err} {α : Type}
    (h : QD s (.err e s' : Res α)) : OutExt s s' ∧ faultsOK s (errOutcome src e) s' := by
  cases e with
  | runtime p m => exact ⟨h.1, h.2.1, h.2.2⟩
  | sig g => exact ⟨h.1, h.2⟩
  | panic m => exact ⟨h, trivial⟩
  | unmodelled w => exact ⟨h, trivial⟩

/-- one selector evaluation: output appended; faults per the discipline -/
theorem evalSelector_good (tbl : RuleTable) (sel : Bytes) (rootValue : JVal) (s : St) :
    (∀ o s', evalSelector tbl sel rootValue s = .inl (o, s') → OutExt s s' ∧ faultsOK s o s') ∧
    (∀ x s', evalSelector tbl sel rootValue s = .inr (x, s') → OutExt s s' ∧ s'.faults = s.faults) := by
  unfold evalSelector
  split
  · constructor
    · intro o s' h; simp only [Sum.inl.injEq, Prod.mk.injEq] at h; obtain ⟨rfl, rfl⟩ := h
      exact ⟨OutExt.refl s, rfl⟩
    · intro x s' h; cases h
  · constructor
    · intro o s' h; simp only [Sum.inl.injEq, Prod.mk.injEq] at h; obtain ⟨rfl, rfl⟩ := h
      exact ⟨OutExt.refl s, trivial⟩
    · intro x s' h; cases h
  · rename_i expr hp
    have hrun : SafeD (selectorRun rootValue expr) := by
      unfold selectorRun
      refine SafeD.bind (SafeD.newValueJson _) (fun v => SafeD.bind (SafeD.of_safe (Safe.newCell _)) (fun rc =>
        SafeD.bind (SafeD.modifySt _ (fun _ => rfl) (fun _ => rfl)) (fun _ => SafeD.bind
          (SafeD.of_safe ((allSafe Program.empty evalFuel).expr _))
          (fun cell => SafeD.bind (SafeD.of_safe (Safe.newCell _)) (fun root =>
            SafeD.bind (SafeD.of_safe (Safe.copyValue _ _)) (fun r => ?_))))))
      split
      · exact SafeD.of_safe (Safe.throwRt _ _)
      · exact SafeD.pure _
    dsimp only
    have h0 := hrun (newEvaluator Program.empty s.heap s.out s.faults)
    have hout0 : (newEvaluator Program.empty s.heap s.out s.faults).out = s.out := rfl
    have hf0 : (newEvaluator Program.empty s.heap s.out s.faults).faults = s.faults := rfl
    have ext : ∀ s1 : St, OutExt (newEvaluator Program.empty s.heap s.out s.faults) s1 →
        OutExt s { s with heap := s1.heap, out := s1.out, faults := s1.faults, faultOut := s1.faultOut,
                          maxDepth := max s.maxDepth s1.maxDepth } := by
      intro s1 ⟨c, hc⟩; exact ⟨c, by simpa [hout0] using hc⟩
    split
    all_goals (rename_i hr; rw [hr] at h0)
    all_goals constructor
    all_goals intro a s' h
    all_goals (first
      | (cases h; done)
      | (simp only [Sum.inl.injEq, Sum.inr.injEq, Prod.mk.injEq] at h
         obtain ⟨rfl, rfl⟩ := h
         first
           | exact ⟨ext _ h0.1, by simpa [hf0] using h0.2⟩
           | exact ⟨ext _ h0.1, by simpa [faultsOK, hf0] using h0.2⟩
           | exact ⟨ext _ h0.1, ⟨by simpa [hf0] using h0.2.1, h0.2.2⟩⟩
           | exact ⟨ext _ h0, trivial⟩
           | exact ⟨OutExt.refl s, trivial⟩))

def GoodRoots (s : St) : Roots → Prop
  | .cells _ s' => OutExt s s' ∧ s'.faults = s.faults
  | .exit s' => OutExt s s' ∧ s'.faults = s.faults
  | .stop o s' => OutExt s s' ∧ faultsOK s o s'

theorem goodRoots_trans {s s1 : St} {r : Roots} (h1 : OutExt s s1 ∧ s1.faults = s.faults)
    (h2 : GoodRoots s1 r) : GoodRoots s r := by
  cases r with
  | cells cs s' => exact ⟨h1.1.trans h2.1, h2.2.trans h1.2⟩
  | exit s' => exact ⟨h1.1.trans h2.1, h2.2.trans h1.2⟩
  | stop o s' =>
    refine ⟨h1.1.trans h2.1, ?_⟩
    have := h2.2
    cases o <;> simp_all [faultsOK]

theorem evalSelectors_good (tbl : RuleTable) (rootValue : JVal) (sels : List Bytes) (acc : List CellId)
    (s : St) : GoodRoots s (evalSelectors tbl rootValue sels acc s) := by
  induction sels generalizing acc s with
  | nil => exact ⟨OutExt.refl s, rfl⟩
  | cons sel rest ih =>
    unfold evalSelectors
    have hg := evalSelector_good tbl sel rootValue s
    cases he : evalSelector tbl sel rootValue s with
    | inl p =>
      obtain ⟨o, s1⟩ := p
      exact hg.1 o s1 he
    | inr p =>
      obtain ⟨x, s1⟩ := p
      have h1 := hg.2 x s1 he
      cases x with
      | ok c => exact goodRoots_trans h1 (ih (c :: acc) s1)
      | error g =>
        cases g with
        | exit => exact h1
        | cont => exact goodRoots_trans h1 (ih acc s1)
        | brk => exact goodRoots_trans h1 (ih acc s1)
        | ret => exact goodRoots_trans h1 (ih acc s1)
        | next => exact goodRoots_trans h1 (ih acc s1)

theorem goodStep_trans {s s1 : St} {r : StepRes} (h1 : OutExt s s1 ∧ s1.faults = s.faults)
    (h2 : GoodStep s1 r) : GoodStep s r := by
  cases r with
  | done s' => exact ⟨h1.1.trans h2.1, h2.2.trans h1.2⟩
  | finished o s' =>
    refine ⟨h1.1.trans h2.1, ?_⟩
    have := h2.2
    cases o <;> simp_all [faultsOK]

variable (prog : Program)

theorem processFile_good (src : Bytes) (tbl : RuleTable) (sels : List Bytes) (file : InputFile) :
    ∀ (fuel : Nat) (data : Bytes) (s : St), GoodStep s (processFile prog src tbl sels file fuel data s) := by
  intro fuel
  induction fuel with
  | zero => intro data s; exact ⟨OutExt.refl s, trivial⟩
  | succ fuel ih =>
    intro data s
    unfold processFile
    cases hd : Json.decodeOne numOk data file.tail with
    | eof => exact ⟨OutExt.refl s, rfl⟩
    | error => exact ⟨OutExt.refl s, rfl⟩
    | needMore => exact ⟨OutExt.refl s, rfl⟩
    | value v rest =>
      dsimp only
      have hset : SafeD (do
          let c ← newCell (.str file.name none)
          setGlobal b!"$file" c : EM Unit) := by
        refine SafeD.bind (SafeD.of_safe (Safe.newCell _)) (fun c => ?_)
        intro t; exact ⟨OutExt.refl _, rfl⟩
      have hs := hset s
      cases hsf : (do
          let c ← newCell (.str file.name none)
          setGlobal b!"$file" c : EM Unit) s with
      | err e s1 => rw [hsf] at hs; exact faultsOK_errOutcome src hs
      | oof => exact ⟨OutExt.refl s, trivial⟩
      | ok u s1 =>
        rw [hsf] at hs
        dsimp only
        have hroots : GoodRoots s1 (if sels.isEmpty then
            match (do let val ← newValueJson v; newCell val : EM CellId) s1 with
            | .ok c s2 => Roots.cells [c] s2
            | .err e s2 => Roots.stop (errOutcome src e) s2
            | .oof => Roots.stop Outcome.oof s1
          else evalSelectors tbl v sels [] s1) := by
          split
          · have hnv : SafeD (do let val ← newValueJson v; newCell val : EM CellId) :=
              SafeD.bind (SafeD.newValueJson v) (fun val => SafeD.of_safe (Safe.newCell val))
            have h := hnv s1
            cases hr : (do let val ← newValueJson v; newCell val : EM CellId) s1 with
            | ok c s2 => rw [hr] at h; exact h
            | err e s2 => rw [hr] at h; exact faultsOK_errOutcome src h
            | oof => exact ⟨OutExt.refl s1, trivial⟩
          · exact evalSelectors_good tbl v sels [] s1
        revert hroots
        generalize (if sels.isEmpty then
            match (do let val ← newValueJson v; newCell val : EM CellId) s1 with
            | .ok c s2 => Roots.cells [c] s2
            | .err e s2 => Roots.stop (errOutcome src e) s2
            | .oof => Roots.stop Outcome.oof s1
          else evalSelectors tbl v sels [] s1) = roots
        intro hroots
        cases roots with
        | stop o s2 => exact goodStep_trans hs hroots
        | exit s2 => exact goodStep_trans hs ⟨hroots.1, hroots.2⟩
        | cells cs s2 =>
          dsimp only
          have hp := SafeD.processRoots prog cs s2
          have h12 : OutExt s s2 ∧ s2.faults = s.faults := ⟨hs.1.trans hroots.1, hroots.2.trans hs.2⟩
          cases hpr : processRoots prog cs s2 with
          | ok fl s3 =>
            rw [hpr] at hp
            cases fl with
            | exit => exact goodStep_trans h12 ⟨hp.1, hp.2⟩
            | continue_ => exact goodStep_trans ⟨h12.1.trans hp.1, hp.2.trans h12.2⟩ (ih rest s3)
          | err e s3 => rw [hpr] at hp; exact goodStep_trans h12 (faultsOK_errOutcome src hp)
          | oof => exact goodStep_trans h12 ⟨OutExt.refl s2, trivial⟩

theorem processFiles_good (src : Bytes) (tbl : RuleTable) (sels : List Bytes) :
    ∀ (files : List InputFile) (s : St), GoodStep s (processFiles prog src tbl sels files s) := by
  intro files
  induction files with
  | nil => intro s; exact ⟨OutExt.refl s, rfl⟩
  | cons f rest ih =>
    intro s
    unfold processFiles
    have h := processFile_good prog src tbl sels f (f.data.length + 2) f.data s
    cases hpf : processFile prog src tbl sels f (f.data.length + 2) f.data s with
    | done s1 => rw [hpf] at h; exact goodStep_trans h (ih s1)
    | finished o s1 => rw [hpf] at h; exact h

/-- what a whole run guarantees about the ghost fault counter, relative to state `s` -/
def GoodRun (s : St) (r : RunResult) : Prop :=
  ∀ st, r.st = some st → OutExt s st ∧ faultsOK s r.outcome st

theorem goodRun_finish {s s' : St} {o : Outcome} (h : OutExt s s' ∧ faultsOK s o s') :
    GoodRun s (finishRun o s') := by
  intro st hst
  simp only [finishRun, Option.some.injEq] at hst
  subst hst; exact h

theorem goodRun_oof (s : St) : GoodRun s ⟨.oof, [], none⟩ := by
  intro st hst; cases hst

theorem faultsOK_trans {s s1 s2 : St} {o : Outcome} (hf : s1.faults = s.faults)
    (h : faultsOK s1 o s2) : faultsOK s o s2 := by
  cases o <;> simp_all [faultsOK]

theorem goodRun_trans {s s1 : St} {r : RunResult} (h1 : OutExt s s1 ∧ s1.faults = s.faults)
    (h2 : GoodRun s1 r) : GoodRun s r := by
  intro st hst
  have := h2 st hst
  exact ⟨h1.1.trans this.1, faultsOK_trans h1.2 this.2⟩

theorem runEnd_good (src : Bytes) (s2 : St) : GoodRun s2 (runEnd prog src s2) := by
  unfold runEnd
  have he := SafeD.evalSpecialRules prog (newCell (.nil none)) (SafeD.of_safe (Safe.newCell _))
    (rulesOf prog .end_) s2
  cases her : evalSpecialRules prog (newCell (.nil none)) (rulesOf prog .end_) s2 with
  | err e s3 => rw [her] at he; exact goodRun_finish (faultsOK_errOutcome src he)
  | oof => exact goodRun_oof s2
  | ok fl s3 => rw [her] at he; exact goodRun_finish ⟨he.1, he.2⟩

theorem runFiles_good (src : Bytes) (tbl : RuleTable) (sels : List Bytes) (files : List InputFile)
    (s1 : St) : GoodRun s1 (runFiles prog src tbl sels files s1) := by
  unfold runFiles
  have hf := processFiles_good prog src tbl sels files s1
  cases hpf : processFiles prog src tbl sels files s1 with
  | finished o s2 => rw [hpf] at hf; exact goodRun_finish hf
  | done s2 => rw [hpf] at hf; exact goodRun_trans hf (runEnd_good prog src s2)

theorem runProgram_good (src : Bytes) (tbl : RuleTable) (sels : List Bytes) (files : List InputFile) :
    GoodRun (newEvaluator prog Heap.empty [] 0) (runProgram prog src tbl sels files) := by
  unfold runProgram
  have hb := SafeD.evalSpecialRules prog (newCell (.nil none)) (SafeD.of_safe (Safe.newCell _))
    (rulesOf prog .begin_) (newEvaluator prog Heap.empty [] 0)
  cases hbr : evalSpecialRules prog (newCell (.nil none)) (rulesOf prog .begin_)
      (newEvaluator prog Heap.empty [] 0) with
  | err e s1 => rw [hbr] at hb; exact goodRun_finish (faultsOK_errOutcome src hb)
  | oof => exact goodRun_oof _
  | ok fl s1 =>
    rw [hbr] at hb
    cases fl with
    | exit => exact goodRun_finish ⟨hb.1, hb.2⟩
    | continue_ => exact goodRun_trans hb (runFiles_good prog src tbl sels files s1)

end Jqawk
