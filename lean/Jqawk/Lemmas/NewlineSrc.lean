/-
  C13, newline insertion: from program trees to runs.  `Nl.IsNlSim`: a relation between the
  states of two token sources, indexed by the ghost state, such that related states answer with
  the same tokens and newline flags related by `Nl.FlagOK`.  `Nl.run_nlsim`: then a successful
  left run is matched by a successful right run.  The flagged token list source `flagSrc` and the
  static relation `Nl.NlMore` between two flagged token lists.
-/
import Jqawk.Lemmas.NewlineParser
import Jqawk.Lemmas.PrattSrc

namespace Jqawk
namespace Nl

/-- `Rσ` (indexed by the ghost state) is a newline-insertion simulation from `src₁` to `src₂`:
    whenever the left source answers, the right one answers with the same token, a flag related
    by `FlagOK`, and related successor states; `regex` answers are regex tokens. -/
structure IsNlSim {σ₁ σ₂ : Type} (src₁ : TokSrc σ₁) (src₂ : TokSrc σ₂)
    (Rσ : G → σ₁ → σ₂ → Prop) : Prop where
  next : ∀ g s₁ s₂, Rσ g s₁ s₂ → ∀ t nl s₁', src₁.next s₁ = .ok (t, nl, s₁') →
    ∃ nl' s₂', src₂.next s₂ = .ok (t, nl', s₂') ∧ FlagOK g t nl nl' ∧ Rσ (g.step t) s₁' s₂'
  regex : ∀ g s₁ s₂, Rσ g s₁ s₂ → ∀ t s₁', src₁.regex s₁ = .ok (t, s₁') →
    t.tag = .regex ∧ ∃ s₂', src₂.regex s₂ = .ok (t, s₂') ∧ Rσ (g.step t) s₁' s₂'

/-- related programs run against related sources: a successful left run is matched by a
    successful right run, with leaves related by `Q` -/
theorem run_nlsim {σ₁ σ₂ α β : Type} {src₁ : TokSrc σ₁} {src₂ : TokSrc σ₂}
    {Rσ : G → σ₁ → σ₂ → Prop} (hS : IsNlSim src₁ src₂ Rσ) {Q : G → α → β → Prop} {g : G}
    {m : PM α} {m' : PM β} (h : NSim Q g m m') {s₁ : σ₁} {s₂ : σ₂} (hs : Rσ g s₁ s₂) {a : α}
    (hr : m.runWith src₁ s₁ = .ok a) :
    ∃ g' b, m'.runWith src₂ s₂ = .ok b ∧ Q g' a b := by
  induction h generalizing s₁ s₂ with
  | pure hq =>
    simp only [PM.runWith, ParseRes.ok.injEq] at hr; subst hr
    exact ⟨_, _, rfl, hq⟩
  | failL => cases hr
  | oofL => cases hr
  | next _ ih =>
    rename_i g k k' _
    simp only [PM.runWith] at hr
    cases h₁ : src₁.next s₁ with
    | error e => rw [h₁] at hr; cases hr
    | ok r =>
      obtain ⟨t, nl, s₁'⟩ := r
      rw [h₁] at hr
      obtain ⟨nl', s₂', h₂, hfl, hs'⟩ := hS.next g s₁ s₂ hs t nl s₁' h₁
      obtain ⟨g', b, hb, hq⟩ := ih t nl nl' hfl hs' hr
      exact ⟨g', b, by simp only [PM.runWith, h₂]; exact hb, hq⟩
  | regex _ ih =>
    rename_i g k k' _
    simp only [PM.runWith] at hr
    cases h₁ : src₁.regex s₁ with
    | error e => rw [h₁] at hr; cases hr
    | ok r =>
      obtain ⟨t, s₁'⟩ := r
      rw [h₁] at hr
      obtain ⟨ht, s₂', h₂, hs'⟩ := hS.regex g s₁ s₂ hs t s₁' h₁
      obtain ⟨g', b, hb, hq⟩ := ih t ht hs' hr
      exact ⟨g', b, by simp only [PM.runWith, h₂]; exact hb, hq⟩

/-- the ghost state at the start of a parse (`PS.init` has the zero token as current token) -/
def G.init : G := ⟨.eof, []⟩

/-- newline insertion for the program parser, any two sources: if the left run succeeds, the
    right run succeeds with the same program -/
theorem parseProgram_run {tbl : RuleTable} (hT : TableOK tbl = true) (n : Nat) {σ₁ σ₂ : Type}
    {src₁ : TokSrc σ₁} {src₂ : TokSrc σ₂} {Rσ : G → σ₁ → σ₂ → Prop} (hS : IsNlSim src₁ src₂ Rσ)
    {s₁ : σ₁} {s₂ : σ₂} (hs : Rσ G.init s₁ s₂) {p : Program} {st : PS}
    (hr : (Parser.parseProgram tbl n PS.init).runWith src₁ s₁ = .ok (p, st)) :
    ∃ st', (Parser.parseProgram tbl n PS.init).runWith src₂ s₂ = .ok (p, st') := by
  have h := parseProgram_nl hT n G.init PS.init PS.init (R.same rfl) rfl
  obtain ⟨g', ⟨p', st'⟩, hb, hq⟩ := run_nlsim hS h hs hr
  have : p = p' := hq.2.1
  subst this
  exact ⟨st', hb⟩

theorem parseExpression_run {tbl : RuleTable} (hT : TableOK tbl = true) (n : Nat) {σ₁ σ₂ : Type}
    {src₁ : TokSrc σ₁} {src₂ : TokSrc σ₂} {Rσ : G → σ₁ → σ₂ → Prop} (hS : IsNlSim src₁ src₂ Rσ)
    {s₁ : σ₁} {s₂ : σ₂} (hs : Rσ G.init s₁ s₂) {e : Expr} {st : PS}
    (hr : (Parser.parseExpression tbl n PS.init).runWith src₁ s₁ = .ok (e, st)) :
    ∃ st', (Parser.parseExpression tbl n PS.init).runWith src₂ s₂ = .ok (e, st') := by
  have h := parseExpression_nl hT n G.init PS.init PS.init (R.same rfl) rfl
  obtain ⟨g', ⟨p', st'⟩, hb, hq⟩ := run_nlsim hS h hs hr
  have : e = p' := hq.2.1
  subst this
  exact ⟨st', hb⟩

/-! ### flagged token lists -/

/-- A list of tokens, each with the flag "a newline was skipped before me", as a token source.
    `next` answers with the head (the EOF token, unflagged, when the list is exhausted); `regex`
    answers with the head if it is a regex token (the list then represents a text in which the
    parser asked for a regex at this point) and fails otherwise. -/
def flagSrc : TokSrc (List (Token × Bool)) where
  next := fun ts => match ts with
    | [] => .ok (eofTok, false, [])
    | (t, nl) :: ts => .ok (t, nl, ts)
  regex := fun ts => match ts with
    | [] => .error ⟨0, "regex request at the end of a token list"⟩
    | (t, _) :: ts =>
      if t.tag = .regex then .ok (t, ts) else .error ⟨t.pos, "regex request at a non-regex token"⟩

def flagOKB (g : G) (t : Token) (nl nl' : Bool) : Bool := nl == nl' || (!nl && nl' && Allowed g t)

theorem flagOKB_iff (g : G) (t : Token) (nl nl' : Bool) : flagOKB g t nl nl' = true ↔ FlagOK g t nl nl' := by
  unfold flagOKB FlagOK
  cases nl <;> cases nl' <;> simp

/-- `nlMoreB g ts ts'`: the same tokens, and the flags of `ts'` are those of `ts` except that
    some are raised at positions where `Allowed` permits (ghost state `g` at the head) -/
def nlMoreB : G → List (Token × Bool) → List (Token × Bool) → Bool
  | _, [], [] => true
  | g, (t, nl) :: r, (t', nl') :: r' => t == t' && flagOKB g t nl nl' && nlMoreB (g.step t) r r'
  | _, _, _ => false

def NlMoreAt (g : G) (ts ts' : List (Token × Bool)) : Prop := nlMoreB g ts ts' = true

theorem nlMoreAt_nil (g : G) : NlMoreAt g [] [] := by
  unfold NlMoreAt nlMoreB; rfl

theorem nlMoreAt_cons {g : G} {t t' : Token} {nl nl' : Bool} {r r' : List (Token × Bool)}
    (h : NlMoreAt g ((t, nl) :: r) ((t', nl') :: r')) :
    t' = t ∧ FlagOK g t nl nl' ∧ NlMoreAt (g.step t) r r' := by
  unfold NlMoreAt at h; rw [nlMoreB] at h
  simp only [Bool.and_eq_true, beq_iff_eq, flagOKB_iff] at h
  exact ⟨h.1.1.symm, h.1.2, h.2⟩

theorem flagSrc_isNlSim : IsNlSim flagSrc flagSrc NlMoreAt where
  next := by
    intro g ts ts' h t nl s₁' h₁
    cases ts with
    | nil =>
      cases ts' with
      | nil =>
        simp only [flagSrc, Except.ok.injEq, Prod.mk.injEq] at h₁
        obtain ⟨rfl, rfl, rfl⟩ := h₁
        exact ⟨false, [], rfl, .inl rfl, nlMoreAt_nil _⟩
      | cons x r' => obtain ⟨t', nl'⟩ := x; simp [NlMoreAt, nlMoreB] at h
    | cons x r =>
      obtain ⟨t₀, nl₀⟩ := x
      cases ts' with
      | nil => simp [NlMoreAt, nlMoreB] at h
      | cons x' r' =>
        obtain ⟨t', nl'⟩ := x'
        simp only [flagSrc, Except.ok.injEq, Prod.mk.injEq] at h₁
        obtain ⟨rfl, rfl, rfl⟩ := h₁
        obtain ⟨rfl, hfl, hr⟩ := nlMoreAt_cons h
        exact ⟨nl', r', rfl, hfl, hr⟩
  regex := by
    intro g ts ts' h t s₁' h₁
    cases ts with
    | nil => simp [flagSrc] at h₁
    | cons x r =>
      obtain ⟨t₀, nl₀⟩ := x
      cases ts' with
      | nil => simp [NlMoreAt, nlMoreB] at h
      | cons x' r' =>
        obtain ⟨t', nl'⟩ := x'
        obtain ⟨rfl, hfl, hr⟩ := nlMoreAt_cons h
        simp only [flagSrc] at h₁
        split at h₁
        · rename_i htag
          simp only [Except.ok.injEq, Prod.mk.injEq] at h₁
          obtain ⟨rfl, rfl⟩ := h₁
          refine ⟨htag, r', ?_, hr⟩
          simp only [flagSrc, htag, ↓reduceIte]
        · cases h₁

/-- the program parser on a flagged token list (result without the final parser state) -/
def parseFlags (tbl : RuleTable) (n : Nat) (ts : List (Token × Bool)) : ParseRes Program :=
  match (Parser.parseProgram tbl n PS.init).runWith flagSrc ts with
  | .ok (p, _) => .ok p
  | .syntaxErr e => .syntaxErr e
  | .oof => .oof

theorem parseFlags_ok_iff {tbl : RuleTable} {n : Nat} {ts : List (Token × Bool)} {p : Program} :
    parseFlags tbl n ts = .ok p ↔
      ∃ st, (Parser.parseProgram tbl n PS.init).runWith flagSrc ts = .ok (p, st) := by
  unfold parseFlags
  constructor
  · intro h
    split at h
    · rename_i p' st heq; cases h; exact ⟨st, heq⟩
    · cases h
    · cases h
  · rintro ⟨st, h⟩; rw [h]

/-- newline insertion on flagged token lists -/
theorem parseFlags_nlMore {tbl : RuleTable} (hT : TableOK tbl = true) (n : Nat)
    {ts ts' : List (Token × Bool)} (h : NlMoreAt G.init ts ts') {p : Program}
    (hr : parseFlags tbl n ts = .ok p) : parseFlags tbl n ts' = .ok p := by
  obtain ⟨st, hr⟩ := parseFlags_ok_iff.mp hr
  obtain ⟨st', h'⟩ := parseProgram_run hT n flagSrc_isNlSim h hr
  exact parseFlags_ok_iff.mpr ⟨st', h'⟩

end Nl
end Jqawk
