/-
  C06: token positions do not matter to `parseToks` (from the parametricity theorem of
  Lemmas/Param.lean), so results proved for position-0 renderings hold for every token list with
  the same tags and texts.
-/
import Jqawk.Lemmas.Param
import Jqawk.Lemmas.PrattSrc
import Jqawk.Lemmas.PrattMain

namespace Jqawk

theorem tokSrc_isSimE :
    PM.IsSimE tokSrc tokSrc (fun a b : List Token => erase a = erase b) where
  next := by
    intro a b h
    cases a with
    | nil =>
      cases b with
      | nil => exact ⟨rfl, rfl, rfl⟩
      | cons t ts => simp at h
    | cons t ts =>
      cases b with
      | nil => simp at h
      | cons u us =>
        simp only [erase_cons, List.cons.injEq] at h
        exact ⟨h.1, rfl, h.2⟩
  regex := by
    intro a b _
    exact rfl

/-- token lists equal up to positions parse alike up to positions -/
theorem parseToks_sim (ts₁ ts₂ : List Token) (h : erase ts₁ = erase ts₂) :
    ParseRes.Sim (parseToks ts₁) (parseToks ts₂) := by
  have hlen : ts₁.length = ts₂.length := by
    have := congrArg List.length h
    simpa [erase] using this
  have hsim := parseExpression_sim expectedRuleTable (toksFuel ts₁) (toksFuel ts₂)
    (by unfold toksFuel; omega) PS.init PS.init rfl
  have := PM.run_sim tokSrc_isSimE hsim ts₁ ts₂ h
  unfold parseToks
  cases h₁ : PM.runWith tokSrc (Parser.parseExpression expectedRuleTable (toksFuel ts₁) PS.init) ts₁ <;>
    cases h₂ : PM.runWith tokSrc (Parser.parseExpression expectedRuleTable (toksFuel ts₂) PS.init) ts₂ <;>
    rw [h₁, h₂] at this <;> cases this
  · rename_i a b hab
    obtain ⟨a1, a2⟩ := a; obtain ⟨b1, b2⟩ := b
    simp only [erase_pair, Prod.mk.injEq] at hab
    exact .ok hab.1
  · rename_i hmsg; exact .syntaxErr hmsg
  · exact .oofL
  · exact .oofL
  · exact .oofL

/-- if a token list parses to `e`, every token list equal to it up to positions parses to the
    same tree up to positions -/
theorem parseToks_ok_of_erase (ts₁ ts₂ : List Token) (e : Expr) (h : erase ts₁ = erase ts₂)
    (hp : parseToks ts₂ = .ok e) : ∃ e', parseToks ts₁ = .ok e' ∧ e'.erase = e.erase := by
  have := parseToks_sim ts₂ ts₁ h.symm
  rw [hp] at this
  cases h₁ : parseToks ts₁ <;> rw [h₁] at this <;> cases this
  rename_i e' hab
  exact ⟨e', rfl, hab.symm⟩

/-- erasing positions twice is erasing once -/
theorem Token.erase_erase (t : Token) : t.erase.erase = t.erase := rfl

open Grammar in
/-- the trees of the specification carry position 0 everywhere -/
theorem toExpr_erase (e : PE) : (toExpr e).erase = toExpr e := by
  induction e using Pratt.PE.induct with
  | ident n => rfl
  | dollar => rfl
  | lit l => cases l <;> rfl
  | bin op l r hl hr => simp only [toExpr, Expr.erase, hl, hr]; rfl
  | un op e he => simp only [toExpr, Expr.erase, he]; rfl
  | preInc op e he => simp only [toExpr, Expr.erase, he]; rfl
  | postf op e he => simp only [toExpr, Expr.erase, he]; rfl
  | isType e ty he => cases ty <;> (simp only [toExpr, Expr.erase, he]; rfl)
  | member e n he => simp only [toExpr, Expr.erase, he]; rfl
  | index e i he hi => simp only [toExpr, Expr.erase, he, hi]; rfl
  | call f args hf hargs =>
    have : eraseExprs (toExprs args) = toExprs args := by
      induction args with
      | nil => rfl
      | cons a as ih =>
        simp only [toExprs, eraseExprs, hargs a (by simp), ih fun b hb => hargs b (by simp [hb])]
    simp only [toExpr, Expr.erase, hf, this]
  | arr items hitems =>
    have : eraseExprs (toExprs items) = toExprs items := by
      induction items with
      | nil => rfl
      | cons a as ih =>
        simp only [toExprs, eraseExprs, hitems a (by simp), ih fun b hb => hitems b (by simp [hb])]
    simp only [toExpr, Expr.erase, this]; rfl
  | obj items hitems =>
    have : eraseKVs (toKVs items) = toKVs items := by
      induction items with
      | nil => rfl
      | cons a as ih =>
        obtain ⟨k, e⟩ := a
        simp only [toKVs, eraseKVs, hitems (k, e) (by simp), ih fun b hb => hitems b (by simp [hb])]
    simp only [toExpr, Expr.erase, this]; rfl
  | assign op t v ht hv => cases op <;> (simp only [toExpr, AsgOp.binTag, Expr.erase, ht, hv]; rfl)

end Jqawk
