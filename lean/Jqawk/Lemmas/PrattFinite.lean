/-
  C06, finite clause: vocabulary for the pair/triple tables (atoms, operator tokens, the documented
  grouping as a tiny reference function) and the enumeration of `Tag`.
-/
import Jqawk.Lemmas.PrattSrc

namespace Jqawk.C06
open Jqawk

/-- every constructor of `Tag` (the type has no `Fintype`-style instance in core) -/
def allTags : List Tag := [
  .eof, .error, .ident, .str, .regex, .num,
  .begin_, .end_, .beginFile, .endFile, .print, .function, .return_, .if_, .else_, .for_,
  .while_, .in_, .match_, .break_, .continue_, .next, .newline, .exit, .null, .is,
  .true_, .false_,
  .lcurly, .rcurly, .lsquare, .rsquare, .lparen, .rparen, .lessThan, .greaterThan, .dollar,
  .comma, .dot, .equal, .equalEqual, .bangEqual, .lessEqual, .greaterEqual, .colon, .semiColon,
  .plus, .minus, .multiply, .divide, .plusEqual, .minusEqual, .multiplyEqual, .divideEqual,
  .tilde, .bangTilde, .ampAmp, .pipePipe, .arrow, .bang, .plusPlus, .minusMinus, .percent]

theorem mem_allTags (t : Tag) : t ∈ allTags := by cases t <;> decide

/-- a statement about all tags follows from its check on the list of all tags -/
theorem forall_tag {P : Tag → Prop} (h : ∀ t ∈ allTags, P t) (t : Tag) : P t := h t (mem_allTags t)

/-- the 15 binary operators whose right operand is an expression
    (`is` takes a type name and is treated separately) -/
def ops : List Tag :=
  [.multiply, .divide, .percent, .plus, .minus, .equalEqual, .bangEqual, .lessThan, .lessEqual,
   .greaterThan, .greaterEqual, .tilde, .bangTilde, .ampAmp, .pipePipe]

/-- the assignment operators -/
def assignOps : List Tag := [.equal, .plusEqual, .minusEqual, .multiplyEqual, .divideEqual]

/-- precedence of a token tag in the rule table the parser is driven by -/
def prec (t : Tag) : Nat := (lookupRule expectedRuleTable t).prec

/-- an operator token; `pos` tells occurrences of the same operator apart -/
def op (t : Tag) (pos : Nat) : Token := ⟨t, pos, []⟩

/-- identifier tokens (the atoms `a b c d` are distinct identifiers at positions 0 2 4 6) -/
def idTok (name : Bytes) (pos : Nat) : Token := ⟨.ident, pos, name⟩
def ta : Token := idTok b!"a" 0
def tb : Token := idTok b!"b" 2
def tc : Token := idTok b!"c" 4
def td : Token := idTok b!"d" 6
def ea : Expr := .ident ta
def eb : Expr := .ident tb
def ec : Expr := .ident tc
def ed : Expr := .ident td

/-- `x o y` as the parser builds it -/
def bin (o : Token) (x y : Expr) : Expr := .binary x y o

/-- documented grouping of `x o₁ y o₂ z`: the tighter operator groups first, equal levels group
    left to right -/
def group2 (x y z : Expr) (o₁ o₂ : Token) : Expr :=
  if prec o₁.tag ≥ prec o₂.tag then bin o₂ (bin o₁ x y) z else bin o₁ x (bin o₂ y z)

/-- documented grouping of `a o₁ b o₂ c o₃ d` (`ea … ed` are the atoms as expressions): the root
    is the rightmost operator of the lowest level; both sides group by the same rule -/
def group3 (o₁ o₂ o₃ : Token) : Expr :=
  let m := min (prec o₁.tag) (min (prec o₂.tag) (prec o₃.tag))
  if prec o₃.tag = m then bin o₃ (group2 ea eb ec o₁ o₂) ed
  else if prec o₂.tag = m then bin o₂ (bin o₁ ea eb) (bin o₃ ec ed)
  else bin o₁ ea (group2 eb ec ed o₂ o₃)

/-- the parse of a token list, dumped (`none` for an error or out of fuel) -/
def parseDump (ts : List Token) : Option Bytes := (parseToks ts).dump

/-- the pair table for a first operator -/
def PairsFor (o₁ : Tag) : Prop :=
  ∀ o₂ ∈ ops, parseDump [ta, op o₁ 1, tb, op o₂ 3, tc] = some (dumpExpr (group2 ea eb ec (op o₁ 1) (op o₂ 3)))

/-- the triple table for a first operator -/
def TriplesFor (o₁ : Tag) : Prop :=
  ∀ o₂ ∈ ops, ∀ o₃ ∈ ops,
    parseDump [ta, op o₁ 1, tb, op o₂ 3, tc, op o₃ 5, td]
      = some (dumpExpr (group3 (op o₁ 1) (op o₂ 3) (op o₃ 5)))

instance (o : Tag) : Decidable (PairsFor o) := by unfold PairsFor; infer_instance
instance (o : Tag) : Decidable (TriplesFor o) := by unfold TriplesFor; infer_instance

end Jqawk.C06
