/-
  `-r E` versus `BEGINFILE { $ = E }` (C14), part 10: one decoded value.  The selector
  (`evalSelector`: nested evaluator, conversion of the value, `E`, a fresh root cell) against the
  conversion followed by the rule `$ = E` in the main evaluator: same outcome, and afterwards the
  two main evaluators are related again, the root of the one corresponding to `$` of the other.
-/
import Jqawk.Lemmas.SelectorJunction
import Jqawk.Lemmas.SelectorPlain
import Jqawk.Lemmas.SelectorBiDriver

set_option linter.unusedVariables false
set_option linter.unusedSimpArgs false

namespace Jqawk
namespace Sel

/-- what run B does with a decoded value up to the end of the rule `$ = E` -/
def ruleStep (progB : Program) (T : SelTok) (E : Expr) (v : JVal) : EM (CellId × Val × Flow) := do
  let val ← newValueJson v
  let c ← newCell val
  modifySt fun s => { s with ruleRoot := some c }
  let fl ← ruleFlow (evalStmt progB evalFuel (ruleBody T E))
  pure (c, val, fl)

/-- an error of the selector against the same error of the rule: same class, same message (the
    position refers to the selector text in one case, to the program text in the other) -/
def OutErr (sel : Bytes) : Outcome → Err → Prop
  | .runtimeErr s _ m, .runtime _ m' => s = sel ∧ m = m'
  | .panic m, .panic m' => m = m'
  | .unmodelled m, .unmodelled m' => m = m'
  | _, _ => False

inductive JRel (prog progB : Program) (sel : Bytes) :
    ((Outcome × St) ⊕ (Except Sig CellId × St)) → Res (CellId × Val × Flow) → Prop
  | oofB (a : (Outcome × St) ⊕ (Except Sig CellId × St)) : JRel prog progB sel a .oof
  | oofA (s : St) (b : Res (CellId × Val × Flow)) : JRel prog progB sel (.inl (.oof, s)) b
  | ok (r c : CellId) (vb : Val) (sA' sB' : St) (K' : Ctx) (wf : K'.WF) (h0 : K'.a0 = 0) (h0' : K'.o0 = 0)
      (hA : K'.progA = prog) (hB : K'.progB = progB) (hs : SR (mainX K') sA' sB')
      (hlen : sB'.frames.length = 1) (hc : CellR K' sB'.heap.cells.size r c) :
      JRel prog progB sel (.inr (.ok r, sA')) (.ok (c, vb, .continue_) sB')
  | err (oA : Outcome) (e : Err) (sA' sB' : St) (ho : OutErr sel oA e) (hout : sA'.out = sB'.out) :
      JRel prog progB sel (.inl (oA, sA')) (.err e sB')

/-! ### the nested evaluator of a selector -/

theorem newEvaluator_empty_heap (h : Heap) (out : List Bytes) (faults : Nat) :
    (newEvaluator Program.empty h out faults).heap =
      (((h.alloc (.native .printf none none)).2.alloc (.native .json none none)).2.alloc
          (.native .num none none)).2 := rfl

structure NestedOK (h : Heap) (out : List Bytes) (faults : Nat) (s0 : St) : Prop where
  arrs : s0.heap.arrs = h.arrs
  objs : s0.heap.objs = h.objs
  size : s0.heap.cells.size = h.cells.size + 3
  pres : HeapPreserved h s0.heap
  flen : s0.frames.length = 1
  out : s0.out = out
  faults : s0.faults = faults
  bp : lookupFrames s0.frames b!"printf" = some h.cells.size
  bj : lookupFrames s0.frames b!"json" = some (h.cells.size + 1)
  bn : lookupFrames s0.frames b!"num" = some (h.cells.size + 2)
  c0 : s0.heap.get h.cells.size = .native .printf none none
  c1 : s0.heap.get (h.cells.size + 1) = .native .json none none
  c2 : s0.heap.get (h.cells.size + 2) = .native .num none none

theorem newEvaluator_empty_ok (h : Heap) (out : List Bytes) (faults : Nat) :
    NestedOK h out faults (newEvaluator Program.empty h out faults) := by
  refine ⟨rfl, rfl, ?_, ?_, rfl, rfl, rfl, ?_, ?_, ?_, ?_, ?_, ?_⟩
  · rw [newEvaluator_empty_heap, size_alloc, size_alloc, size_alloc]
  · rw [newEvaluator_empty_heap]
    exact ((HeapPreserved.alloc _ _).trans (HeapPreserved.alloc _ _)).trans (HeapPreserved.alloc _ _)
  · rfl
  · show some ((h.alloc (.native .printf none none)).2.cells.size) = _
    rw [size_alloc]
  · show some (((h.alloc (.native .printf none none)).2.alloc (.native .json none none)).2.cells.size) = _
    rw [size_alloc, size_alloc]
  · rw [newEvaluator_empty_heap, get_alloc, get_alloc, get_alloc, size_alloc, size_alloc]
    have e1 : ¬ h.cells.size = h.cells.size + 1 + 1 := by omega
    have e2 : ¬ h.cells.size = h.cells.size + 1 := by omega
    simp only [e1, e2, ↓reduceIte]
  · rw [newEvaluator_empty_heap, get_alloc, get_alloc, size_alloc, size_alloc]
    have e1 : ¬ h.cells.size + 1 = h.cells.size + 1 + 1 := by omega
    simp only [e1, ↓reduceIte]
  · rw [newEvaluator_empty_heap, get_alloc, size_alloc, size_alloc]
    simp only [↓reduceIte]

theorem getIdentifier_dollar (prog : Program) (t : Token) (ht : t.tag = .dollar) (s : St) (c : CellId)
    (hr : s.ruleRoot = some c) : getIdentifier prog t s = .ok c s := by
  simp only [getIdentifier, ht, beq_self_eq_true, ↓reduceIte, bind, EM.bind, getSt, hr, pure, EM.pure]


/-- the nested evaluator after the conversion: root and `$` are the fresh cell -/
def stAd (sAv : St) (vA : Val) : St :=
  { sAv with heap := (sAv.heap.alloc vA).2, root := some sAv.heap.cells.size,
             ruleRoot := some sAv.heap.cells.size }

/-- the main evaluator of run B after the conversion: `$` is the fresh cell -/
def stBd (sBv : St) (vB : Val) : St :=
  { sBv with heap := (sBv.heap.alloc vB).2, ruleRoot := some sBv.heap.cells.size }

/-- the part of `selectorRun` after the conversion -/
def selAfter (E : Expr) : EM CellId := do
  let cell ← evalExpr Program.empty evalFuel E
  let root ← newCell .unknown
  match (← copyValue cell root) with
  | .error m => throwRt E.token.pos m
  | .ok c => pure c

theorem selectorRun_eq (v : JVal) (E : Expr) (s0 : St) (vA : Val) (sAv : St)
    (e1 : newValueJson v s0 = .ok vA sAv) :
    selectorRun v E s0 = selAfter E (stAd sAv vA) := by
  simp only [selectorRun, selAfter, bind, EM.bind, e1, Jqawk.newCell, modifySt]
  rfl

/-- the part of `ruleStep` after the conversion -/
def ruleAfter (progB : Program) (T : SelTok) (E : Expr) (val : Val) (c : CellId) : EM (CellId × Val × Flow) := do
  let fl ← ruleFlow (do
    let right ← evalExpr progB 999995 E
    let _ ← evalAssignment T.dtok.pos c right
    pure ())
  pure (c, val, fl)

theorem ruleStep_eq (progB : Program) (T : SelTok) (E : Expr) (v : JVal) (sB : St) (vB : Val) (sBv : St)
    (e1 : newValueJson v sB = .ok vB sBv) :
    ruleStep progB T E v sB = ruleAfter progB T E vB sBv.heap.cells.size (stBd sBv vB) := by
  have hf : evalFuel = 999994 + 6 := rfl
  simp only [ruleStep, ruleAfter, bind, EM.bind, e1, Jqawk.newCell, modifySt, hf, ruleBody_eval]
  simp only [Jqawk.ruleFlow, bind, EM.bind]
  rw [getIdentifier_dollar progB T.dtok T.hd _ sBv.heap.cells.size rfl]
  rfl

theorem selAfter_ok (E : Expr) (s : St) (x : CellId) (se : St)
    (h : evalExpr Program.empty evalFuel E s = .ok x se) :
    selAfter E s =
      match copyVal ((se.heap.alloc .unknown).2.get x) with
      | .ok w => .ok se.heap.cells.size { se with heap := (se.heap.alloc .unknown).2.set se.heap.cells.size w }
      | .error m => throwRt E.token.pos m { se with heap := (se.heap.alloc .unknown).2 } := by
  simp only [selAfter, bind, EM.bind, h, Jqawk.newCell, copyValue, readCell, writeCell, pure, EM.pure]
  cases copyVal ((se.heap.alloc .unknown).2.get x) <;> rfl

theorem selAfter_err (E : Expr) (s : St) (e : Err) (se : St)
    (h : evalExpr Program.empty evalFuel E s = .err e se) : selAfter E s = .err e se := by
  simp only [selAfter, bind, EM.bind, h]

theorem selAfter_oof (E : Expr) (s : St)
    (h : evalExpr Program.empty evalFuel E s = .oof) : selAfter E s = .oof := by
  simp only [selAfter, bind, EM.bind, h]

theorem evalAssignment_plain (pos : Nat) (l r : CellId) (s : St) (h : needsCreate (s.heap.get l) = false) :
    evalAssignment pos l r s =
      match copyVal (s.heap.get r) with
      | .ok w => .ok l { s with heap := s.heap.set l w }
      | .error m => throwRt pos m s := by
  rw [evalAssignment_eq]
  simp only [bind, EM.bind, readCell, h, Bool.false_eq_true, ↓reduceIte, pure, EM.pure, copyValue, writeCell]
  cases copyVal (s.heap.get r) <;> rfl

theorem ruleAfter_ok (progB : Program) (T : SelTok) (E : Expr) (val : Val) (c : CellId) (s : St) (x : CellId) (se : St)
    (h : evalExpr progB 999995 E s = .ok x se) (hn : needsCreate (se.heap.get c) = false) :
    ruleAfter progB T E val c s =
      match copyVal (se.heap.get x) with
      | .ok w => .ok (c, val, .continue_) { se with heap := se.heap.set c w }
      | .error m => throwRt T.dtok.pos m se := by
  simp only [ruleAfter, Jqawk.ruleFlow, bind, EM.bind, h, evalAssignment_plain _ _ _ _ hn]
  cases copyVal (se.heap.get x) <;> rfl

theorem ruleAfter_oof (progB : Program) (T : SelTok) (E : Expr) (val : Val) (c : CellId) (s : St)
    (h : evalExpr progB 999995 E s = .oof) : ruleAfter progB T E val c s = .oof := by
  simp only [ruleAfter, Jqawk.ruleFlow, bind, EM.bind, h]

theorem ruleAfter_err (progB : Program) (T : SelTok) (E : Expr) (val : Val) (c : CellId) (s : St) (e : Err) (se : St)
    (h : evalExpr progB 999995 E s = .err e se) (hsig : ∀ g, e ≠ .sig g) :
    ruleAfter progB T E val c s = .err e se := by
  simp only [ruleAfter, Jqawk.ruleFlow, bind, EM.bind, h]
  cases e with
  | sig g => exact absurd rfl (hsig g)
  | _ => rfl

theorem needsCreate_plain {v : Val} (h : Val.plain v) : needsCreate v = false := by
  cases v with
  | str s sp => simp only [Val.plain] at h; subst h; rfl
  | nil sp => simp only [Val.plain] at h; subst h; rfl
  | native f b sp => simp only [Val.plain] at h; obtain ⟨rfl, rfl⟩ := h; rfl
  | _ => rfl

/-- how `evalSelector` reports the end of the nested run -/
theorem evalSelector_eq (tbl : RuleTable) (sel : Bytes) (E : Expr) (hp : parseExpressionSrc tbl sel = .ok E)
    (v : JVal) (s : St) :
    evalSelector tbl sel v s =
      (let back (s1 : St) : St :=
        { s with heap := s1.heap, out := s1.out, faults := s1.faults, faultOut := s1.faultOut,
                 maxDepth := max s.maxDepth s1.maxDepth }
       match selectorRun v E (newEvaluator Program.empty s.heap s.out s.faults) with
       | .ok c s1 => .inr (.ok c, back s1)
       | .err (.sig .exit) s1 => .inr (.error .exit, back s1)
       | .err (.sig .next) s1 => .inr (.error .next, back s1)
       | .err (.sig g) s1 => .inl (.sentinel g, back s1)
       | .err (.runtime pos msg) s1 => .inl (.runtimeErr sel pos msg, back s1)
       | .err (.panic m) s1 => .inl (.panic m, back s1)
       | .err (.unmodelled w) s1 => .inl (.unmodelled w, back s1)
       | .oof => .inl (.oof, s)) := by
  unfold evalSelector
  rw [hp]
  rfl

/-! ### the region invariant of the nested evaluator -/

def maxFn : List Val → Nat
  | [] => 0
  | .fn i :: rest => max (i + 1) (maxFn rest)
  | _ :: rest => maxFn rest

theorem lt_maxFn {l : List Val} {i : Nat} (h : Val.fn i ∈ l) : i < maxFn l := by
  induction l with
  | nil => cases h
  | cons v rest ih =>
    rcases List.mem_cons.mp h with e | e
    · subst e; simp only [maxFn]; omega
    · have := ih e
      cases v <;> simp only [maxFn] <;> omega

/-- any heap satisfies the heap part of the region invariant for the region "everything allocated
    from now on", with a bound on the function indices it contains -/
theorem heapOK_sel (h : Heap) :
    HeapOK ⟨h.cells.size, h.arrs.size, h.objs.size, 0, maxFn h.cells.toList⟩ h := by
  refine ⟨Nat.le_refl _, Nat.le_refl _, Nat.le_refl _, ?_, ?_, ?_, ?_⟩
  · intro c
    by_cases hc : c < h.cells.size
    · have : h.get c = h.cells[c] := by
        simp [Heap.get, Array.getD_eq_getD_getElem?, hc]
      cases hv : h.get c with
      | fn i =>
        show i < maxFn h.cells.toList
        apply lt_maxFn
        rw [← hv, this]
        exact Array.getElem_mem_toList hc
      | _ => trivial
    · have : h.get c = .unknown := by
        simp only [Heap.get, Array.getD_eq_getD_getElem?, Array.getElem?_eq_none (Nat.le_of_not_lt hc),
          Option.getD_none]
      rw [this]; trivial
  · intro c hc
    have hc' : h.cells.size ≤ c := hc
    have : h.get c = .unknown := by
      simp only [Heap.get, Array.getD_eq_getD_getElem?, Array.getElem?_eq_none hc', Option.getD_none]
    rw [this]; trivial
  · intro a ha c hc
    have ha' : h.arrs.size ≤ a := ha
    rw [arr_oob h a ha'] at hc; simp at hc
  · intro o ho kc hkc
    have ho' : h.objs.size ≤ o := ho
    rw [obj_oob h o ho'] at hkc; cases hkc

/-- the region of the nested evaluator of a selector started on heap `h` -/
def Pn (h : Heap) : Region := ⟨h.cells.size, h.arrs.size, h.objs.size, 0, maxFn h.cells.toList⟩

theorem nested_invK (h : Heap) (out : List Bytes) (faults : Nat) (v : JVal) (vA : Val) (sAv : St)
    (e : newValueJson v (newEvaluator Program.empty h out faults) = .ok vA sAv) :
    InvK (Pn h) (KSet (Pn h)) (stAd sAv vA) := by
  have i0 : InvK (Pn h) KAny (newEvaluator Program.empty h out faults) :=
    newEvaluator_inv (P := Pn h) Program.empty (Nat.zero_le _) (Nat.zero_le _) (heapOK_sel h) out faults
  have i1 := NP.newValueJson (P := Pn h) (K := KAny) v _ i0
  unfold NPat at i1
  rw [e] at i1
  have i2 := NP.newCell (P := Pn h) (K := KAny) i1.2 sAv i1.1
  exact ⟨⟨i2.1.heap, i2.1.frames, i2.1.ret⟩, ⟨sAv.heap.cells.size, rfl, i2.2⟩⟩

/-- the builtins of the main evaluator are what `NewEvaluator` made them (run B, when the
    selector may call them) -/
def BInv (progB : Program) (s : St) : Prop :=
  ∃ h0, InvB (P3 progB) h0 b0m KAny s ∧ h0.get 0 = .native .printf none none ∧
    h0.get 1 = .native .json none none ∧ h0.get 2 = .native .num none none

structure BI (s : St) : Prop where
  bp : lookupFrames s.frames b!"printf" = some 0
  bj : lookupFrames s.frames b!"json" = some 1
  bn : lookupFrames s.frames b!"num" = some 2
  c0 : s.heap.get 0 = .native .printf none none
  c1 : s.heap.get 1 = .native .json none none
  c2 : s.heap.get 2 = .native .num none none
  sz : 3 ≤ s.heap.cells.size

theorem lookupFrames_single (f : Frame) (k : Bytes) : lookupFrames [f] k = botLookup [f] k := by
  simp only [lookupFrames, botLookup, List.getLast?_singleton]
  cases objLookup f.locals k <;> rfl

theorem BInv.bi {progB : Program} {s : St} (h : BInv progB s) (hlen : s.frames.length = 1) : BI s := by
  obtain ⟨h0, inv, e0, e1, e2⟩ := h
  obtain ⟨f, hf⟩ : ∃ f, s.frames = [f] := by
    cases hfr : s.frames with
    | nil => rw [hfr] at hlen; cases hlen
    | cons f fs =>
      cases fs with
      | nil => exact ⟨f, rfl⟩
      | cons g gs => rw [hfr] at hlen; simp at hlen
  have hb := inv.frames.bot
  rw [hf] at hb
  refine ⟨?_, ?_, ?_, ?_, ?_, ?_, inv.heap.nle⟩
  · rw [hf, lookupFrames_single, hb _ (by decide)]; rfl
  · rw [hf, lookupFrames_single, hb _ (by decide)]; rfl
  · rw [hf, lookupFrames_single, hb _ (by decide)]; rfl
  · rw [inv.heap.keep 0 (show 0 < 3 by decide), e0]
  · rw [inv.heap.keep 1 (show 1 < 3 by decide), e1]
  · rw [inv.heap.keep 2 (show 2 < 3 by decide), e2]

theorem renV_native_plain {σ : Nat → Nat} {v : Val} {f : Native} (h : renV σ v = .native f none none) :
    v = .native f none none := by
  cases v with
  | native g b sp =>
    cases b <;> cases sp <;> simp_all [renV, renSpec]
  | str s sp => cases sp <;> simp [renV, renSpec] at h
  | nil sp => cases sp <;> simp [renV, renSpec] at h
  | _ => simp [renV] at h

theorem junction (prog : Program) (T : SelTok) (E : Expr) (ub : Bool)
    (hE : selX (fun k => ub && isB k) E = true)
    (hwfE : E.wfB = true) (tbl : RuleTable) (sel : Bytes)
    (hparse : parseExpressionSrc tbl sel = .ok E) (v : JVal) {K : Ctx} (wf : K.WF) (h0 : K.a0 = 0)
    (h0' : K.o0 = 0) (hKA : K.progA = prog) (hKB : K.progB = withSel prog T E) {sA sB : St}
    (hs : SR (mainX K) sA sB) (hlen : sB.frames.length = 1)
    (hub : ub = true → BInv (withSel prog T E) sB ∧ (withSel prog T E).wfB = true ∧
      okProg (withSel prog T E) = true ∧ okE E = true) :
    JRel prog (withSel prog T E) sel (evalSelector tbl sel v sA) (ruleStep (withSel prog T E) T E v sB) := by
  have hbi : ub = true → BI sB := fun h => (hub h).1.bi hlen
  have hnest := newEvaluator_empty_ok sA.heap sA.out sA.faults
  have hnv := nested_invK sA.heap sA.out sA.faults v
  generalize hs0 : newEvaluator Program.empty sA.heap sA.out sA.faults = s0 at hnest hnv
  -- the context of the first phase
  have hm : K.m ≤ sB.heap.cells.size := hs.heap.mle
  have hszc : sA.heap.cells.size = sB.heap.cells.size + K.d := hs.heap.szc
  have wf1 := K1_wf wf sA.heap sB.heap hm (withSel prog T E) ub hszc (fun h => (hbi h).sz)
  have xwf1 : (X1 (K1 K sA.heap sB.heap (withSel prog T E) ub) s0.frames sB.frames (fun k => ub && isB k)).WF := by
    refine ⟨wf1, ?_, .inr (fun name h => ?_)⟩
    · show s0.frames.length = sB.frames.length
      rw [hnest.flen, hlen]
    · have h' : (ub && isB name) = true := h
      simp only [Bool.and_eq_true] at h'
      have hu := h'.1
      have b := hbi hu
      subst hu
      have hn := h'.2
      simp only [isB, Bool.or_eq_true, beq_iff_eq] at hn
      have live : ∀ i, i < 3 → LiveC (K1 K sA.heap sB.heap (withSel prog T E) true) sB.heap.cells.size i :=
        fun i hi => ⟨.inr ⟨rfl, hi⟩, Nat.lt_of_lt_of_le hi b.sz⟩
      rcases hn with (rfl | rfl) | rfl
      · exact ⟨_, _, hnest.bp, b.bp, (K1_σ_bi (i := 0) b.sz (by decide)).symm, live 0 (by decide)⟩
      · exact ⟨_, _, hnest.bj, b.bj, (K1_σ_bi (i := 1) b.sz (by decide)).symm, live 1 (by decide)⟩
      · exact ⟨_, _, hnest.bn, b.bn, (K1_σ_bi (i := 2) b.sz (by decide)).symm, live 2 (by decide)⟩
  -- the nested evaluator and the main evaluator of run B are related in that context
  have hsr0 : SR (X1 (K1 K sA.heap sB.heap (withSel prog T E) ub) s0.frames sB.frames (fun k => ub && isB k)) s0 sB := by
    refine ⟨⟨?_, Nat.le_refl _, ?_, Nat.le_refl _, ?_, Nat.le_refl _, ?_, ?_, ?_, ?_⟩, ?_, (fun h => by cases h),
      (fun h => by cases h), ?_, ?_⟩
    · show s0.heap.cells.size = sB.heap.cells.size + (K.d + 3)
      rw [hnest.size, hszc]; omega
    · rw [hnest.arrs]; exact hs.heap.sza
    · rw [hnest.objs]; exact hs.heap.szo
    · intro i hi
      rcases hi.1 with h1 | ⟨hu, h3⟩
      · exact absurd hi.2 (Nat.not_lt.mpr h1)
      · have b := hbi hu
        subst hu
        show ValR _ _ (s0.heap.get ((K1 K sA.heap sB.heap (withSel prog T E) true).σ i)) _
        rw [K1_σ_bi b.sz h3]
        have natR : ∀ (f : Native), ValR (K1 K sA.heap sB.heap (withSel prog T E) true) sB.heap.cells.size
            (.native f none none) (.native f none none) := fun f => ⟨rfl, trivial, trivial⟩
        rcases lt3 i h3 with rfl | rfl | rfl
        · rw [show sA.heap.cells.size + 0 = sA.heap.cells.size from rfl, hnest.c0, b.c0]; exact natR _
        · rw [hnest.c1, b.c1]; exact natR _
        · rw [hnest.c2, b.c2]; exact natR _
    · intro k hk
      have hk' : sB.heap.arrs.size ≤ k := hk
      rw [arr_oob _ k hk', arr_oob _ k (by rw [hnest.arrs, hs.heap.sza]; exact hk')]
      exact ArrR.empty _ _
    · intro k hk
      have hk' : sB.heap.objs.size ≤ k := hk
      rw [obj_oob _ k hk', obj_oob _ k (by rw [hnest.objs, hs.heap.szo]; exact hk')]
      exact MemR.nil _
    · -- nothing has been touched yet
      refine ⟨Nat.le_refl _, ?_, ?_, Nat.le_refl _, ?_, Nat.le_refl _, fun _ _ _ => rfl, ?_, fun _ _ => rfl, ?_,
        fun _ _ => rfl, ?_⟩
      · show sA.heap.cells.size ≤ s0.heap.cells.size
        rw [hnest.size]; exact Nat.le_add_right _ _
      · show sB.heap.arrs.size ≤ s0.heap.arrs.size
        rw [hnest.arrs, hs.heap.sza]; exact Nat.le_refl _
      · show sB.heap.objs.size ≤ s0.heap.objs.size
        rw [hnest.objs, hs.heap.szo]; exact Nat.le_refl _
      · intro j hj _
        exact hnest.pres.get j hj
      · intro k hk
        have hk' : k < sB.heap.arrs.size := hk
        exact hnest.pres.arr k (by rw [hs.heap.sza]; exact hk')
      · intro k hk
        have hk' : k < sB.heap.objs.size := hk
        exact hnest.pres.obj k (by rw [hs.heap.szo]; exact hk')
    · exact ⟨[], [], rfl, rfl, F2.nil, fun h => by cases h⟩
    · rw [hnest.out]; exact hs.out
    · rw [hnest.faults]; exact hs.faults
  -- the conversion of the decoded value, in both runs
  obtain ⟨vA, sAv, eA1, cA1, plA⟩ := conv_ok v s0
  obtain ⟨vB, sBv, eB1, cB1, plB⟩ := conv_ok v sB
  have r1 := sim_newValueJson xwf1 v sB.heap.cells.size s0 sB hsr0 (Nat.le_refl _)
  rw [eA1, eB1] at r1
  obtain ⟨hw1, hv1, hsr1⟩ := r1
  -- the root cell / the `$` cell
  have r2 := SimW.newCell xwf1 hv1 (Nat.le_refl _) sAv sBv hsr1 (Nat.le_refl _)
  obtain ⟨hw2, hc2, hsr2⟩ := r2
  have hszv : sAv.heap.cells.size = sBv.heap.cells.size + (K.d + 3) := hsr1.heap.szc
  have hs0sz : s0.heap.cells.size = sB.heap.cells.size + (K.d + 3) := by rw [hnest.size, hszc]; omega
  -- `$` is set in both runs
  have hsrd : SR (X1 (K1 K sA.heap sB.heap (withSel prog T E) ub) s0.frames sB.frames (fun k => ub && isB k)).withD
      (stAd sAv vA) (stBd sBv vB) :=
    SR.addD ⟨hsr2.heap, hsr2.frames, (fun h => by cases h), (fun h => by cases h), hsr2.out, hsr2.faults⟩ hc2
  have g1 : GoodX (X1 (K1 K sA.heap sB.heap (withSel prog T E) ub) s0.frames sB.frames (fun k => ub && isB k)).withD :=
    ⟨WF_withD xwf1, fun i f hf _ => by
      have : (Program.empty.functions[i]? : Option FuncDef) = some f := hf
      simp [Program.empty] at this⟩
  have hids : idsE true (fun k => ub && isB k) E = true := selX_ids _ E hE
  -- the nested evaluator: region invariant, members of its containers are plain
  have hinvA : InvK (Pn sA.heap) (KSet (Pn sA.heap)) (stAd sAv vA) := hnv vA sAv eA1
  have hmphA : MPH (Pn sA.heap) sAv.heap.cells.size (stAd sAv vA).heap := by
    have hck : ∀ x, x < sAv.heap.cells.size → (sAv.heap.alloc vA).2.get x = sAv.heap.get x := by
      intro x hx
      rw [get_alloc]; simp only [Nat.ne_of_lt hx, ↓reduceIte]
    have key : ∀ y, (K1 K sA.heap sB.heap (withSel prog T E) ub).D y → y < sBv.heap.cells.size →
        PC sAv.heap.cells.size (sAv.heap.alloc vA).2 ((K1 K sA.heap sB.heap (withSel prog T E) ub).σ y) := by
      intro y yd y2
      by_cases hb : ub = true ∧ y < 3
      · -- a builtin cell of the nested evaluator
        obtain ⟨hu, y3⟩ := hb
        have b := hbi hu
        subst hu
        rw [K1_σ_bi b.sz y3]
        have hle0 : s0.heap.cells.size ≤ sAv.heap.cells.size := cA1.pres.cells
        have hlt0 : sA.heap.cells.size + y < s0.heap.cells.size := by
          rw [hnest.size]; exact Nat.add_lt_add_left y3 _
        have hlt : sA.heap.cells.size + y < sAv.heap.cells.size := Nat.lt_of_lt_of_le hlt0 hle0
        refine ⟨Nat.ne_of_lt hlt, by rw [size_alloc]; exact Nat.lt_succ_of_lt hlt, ?_⟩
        rw [hck _ hlt, cA1.pres.get _ hlt0]
        rcases lt3 y y3 with rfl | rfl | rfl
        · rw [show sA.heap.cells.size + 0 = sA.heap.cells.size from rfl, hnest.c0]; exact ⟨rfl, rfl⟩
        · rw [hnest.c1]; exact ⟨rfl, rfl⟩
        · rw [hnest.c2]; exact ⟨rfl, rfl⟩
      have y1 : sB.heap.cells.size ≤ y := by
        rcases yd with h | h
        · exact h
        · exact absurd h hb
      have hn : ¬ y < sB.heap.cells.size := Nat.not_lt.mpr y1
      have e : (K1 K sA.heap sB.heap (withSel prog T E) ub).σ y = y + (K.d + 3) := by simp only [K1, hn, ↓reduceIte]
      rw [e]
      have hlt : y + (K.d + 3) < sAv.heap.cells.size := by rw [hszv]; exact Nat.add_lt_add_right y2 _
      refine ⟨Nat.ne_of_lt hlt, by rw [size_alloc]; exact Nat.lt_succ_of_lt hlt, ?_⟩
      rw [hck _ hlt]
      exact cA1.plain _ (by rw [hs0sz]; exact Nat.add_le_add_right y1 _) hlt
    refine ⟨by show _ < (sAv.heap.alloc vA).2.cells.size; rw [size_alloc]; exact Nat.lt_succ_self _, ?_, ?_⟩
    · intro k hk x hx
      have hk' : sB.heap.arrs.size ≤ k := by
        have : sA.heap.arrs.size ≤ k := hk
        rw [hs.heap.sza] at this; exact this
      have har := hsr1.heap.arrs k hk'
      have hx' : x ∈ (sAv.heap.arr k).toList := hx
      rw [har.1, Array.toList_map] at hx'
      obtain ⟨y, hy, rfl⟩ := List.mem_map.mp hx'
      have hl := har.2 y hy
      exact key y hl.1 hl.2
    · intro k hk kc hkc
      have hk' : sB.heap.objs.size ≤ k := by
        have : sA.heap.objs.size ≤ k := hk
        rw [hs.heap.szo] at this; exact this
      have hob := hsr1.heap.objs k hk'
      have hkc' : kc ∈ sAv.heap.obj k := hkc
      rw [hob.1] at hkc'
      obtain ⟨y, hy, rfl⟩ := List.mem_map.mp hkc'
      have hl := hob.2 y hy
      exact key y.2 hl.1 hl.2
  -- run B: the invariant that keeps the builtins intact
  have hinvBd : ub = true → ∃ h0, InvB (P3 (withSel prog T E)) h0 b0m (KSet (P3 (withSel prog T E))) (stBd sBv vB) ∧
      ∀ i, i < 3 → sB.heap.get i = h0.get i := by
    intro hu
    obtain ⟨⟨h0, inv, _, _, _⟩, _, _, _⟩ := hub hu
    have i1 := BP.newValueJson (P := P3 (withSel prog T E)) (h0 := h0) (b0 := b0m) (K := KAny) v sB inv
    unfold BPat at i1
    rw [eB1] at i1
    have i2 := i1.1.heap.alloc i1.2
    exact ⟨h0, ⟨i2.1, i1.1.frames, i1.1.ret, i1.1.root, ⟨sBv.heap.cells.size, rfl, i2.2⟩⟩, inv.heap.keep⟩
  have eqA := selectorRun_eq v E s0 vA sAv eA1
  have eqB := ruleStep_eq (withSel prog T E) T E v sB vB sBv eB1
  have hszd : (stBd sBv vB).heap.cells.size = sBv.heap.cells.size + 1 := size_alloc _ _
  have hgetcA : (stAd sAv vA).heap.get sAv.heap.cells.size = vA := by
    show (sAv.heap.alloc vA).2.get sAv.heap.cells.size = vA
    rw [get_alloc]; simp
  have hszdA : (stAd sAv vA).heap.cells.size = sAv.heap.cells.size + 1 := size_alloc _ _
  have hfrBd : (stBd sBv vB).frames = sBv.frames := rfl
  have hrootBd : (stBd sBv vB).root = sBv.root := rfl
  revert hsrd hinvA hmphA hinvBd eqA eqB hszd hgetcA hszdA hfrBd hrootBd
  generalize stAd sAv vA = sAd
  generalize stBd sBv vB = sBd
  intro hsrd hinvA hmphA hinvBd eqA eqB hszd hgetcA hszdA hfrBd hrootBd
  have rE : RR _ (CellR (K1 K sA.heap sB.heap (withSel prog T E) ub))
      sBd.heap.cells.size (evalExpr Program.empty evalFuel E sAd) (evalExpr (withSel prog T E) 999995 E sBd) :=
    (allSim evalFuel 999995).expr g1 sBd.heap.cells.size E hids sAd sBd hsrd (Nat.le_refl _)
  have plA' := (allPl (P := Pn sA.heap) (rc := sAv.heap.cells.size) rfl (fun k => ub && isB k) evalFuel).expr E sAd hE hwfE
    hinvA hmphA
  have sfB := (allSafe (withSel prog T E) 999995).expr E sBd
  rw [evalSelector_eq tbl sel E hparse, hs0, eqA, eqB]
  revert rE plA' sfB
  generalize hEA : evalExpr Program.empty evalFuel E sAd = resA
  generalize hEB : evalExpr (withSel prog T E) 999995 E sBd = resB
  intro rE plA' sfB
  cases resA with
  | oof => rw [selAfter_oof E _ hEA]; exact JRel.oofA _ _
  | err eA sAe =>
    cases resB with
    | oof => rw [ruleAfter_oof _ T E _ _ _ hEB]; exact JRel.oofB _
    | ok xB sBe => exact rE.elim
    | err eB sBe =>
      obtain ⟨_, rfl, hsrE, _⟩ := rE
      rw [selAfter_err E _ _ _ hEA, ruleAfter_err _ T E _ _ _ _ _ hEB plA']
      cases eA with
      | sig g => exact absurd rfl (plA' g)
      | runtime pos msg => exact JRel.err _ _ _ _ ⟨rfl, rfl⟩ hsrE.out
      | panic m => exact JRel.err _ _ _ _ rfl hsrE.out
      | unmodelled m => exact JRel.err _ _ _ _ rfl hsrE.out
  | ok xA sAe =>
    cases resB with
    | oof => rw [ruleAfter_oof _ T E _ _ _ hEB]; exact JRel.oofB _
    | err eB sBe => exact rE.elim
    | ok xB sBe =>
      obtain ⟨hwE, hcx, hsrE⟩ := rE
      obtain ⟨ckA, mphE, _⟩ := plA'
      have hK1e : HR (K1 K sA.heap sB.heap (withSel prog T E) ub) sAe.heap sBe.heap := hsrE.heap
      have hszE : sAe.heap.cells.size = sBe.heap.cells.size + (K.d + 3) := hK1e.szc
      -- sizes
      have hc1 : sB.heap.cells.size ≤ sBv.heap.cells.size := cB1.pres.cells
      have hc2' : sBv.heap.cells.size < sBe.heap.cells.size := by omega
      have hσc : (K1 K sA.heap sB.heap (withSel prog T E) ub).σ sBv.heap.cells.size = sAv.heap.cells.size := by
        have hn : ¬ sBv.heap.cells.size < sB.heap.cells.size := Nat.not_lt.mpr hc1
        simp only [K1, hn, ↓reduceIte]; omega
      -- `$` of run B holds a plain value, which needs no creation
      have hcellc := hK1e.cells sBv.heap.cells.size ⟨.inl hc1, hc2'⟩
      rw [hσc, ckA.2 _ (by omega), hgetcA] at hcellc
      have hplc : Val.plain (sBe.heap.get sBv.heap.cells.size) := by
        apply plain_of_renV (σ := (K1 K sA.heap sB.heap (withSel prog T E) ub).σ)
        rw [← hcellc.1]; exact plA
      have hn : needsCreate (sBe.heap.get sBv.heap.cells.size) = false := needsCreate_plain hplc
      -- the value to copy
      have hxB : xB < sBe.heap.cells.size := hcx.2.2
      have hxA : xA < sAe.heap.cells.size := by
        rw [hcx.1, hszE]; exact wf1.σ_lt hxB hK1e.mle
      have hvx := hK1e.get hcx (Nat.le_refl _)
      have hgetxA : (sAe.heap.alloc .unknown).2.get xA = sAe.heap.get xA := by
        rw [get_alloc]; simp only [Nat.ne_of_lt hxA, ↓reduceIte]
      rw [selAfter_ok E _ _ _ hEA, ruleAfter_ok _ T E _ _ _ _ _ hEB hn, hgetxA, hvx.1, copyVal_renV]
      cases hcv : copyVal (sBe.heap.get xB) with
      | error m =>
        exact JRel.err _ _ _ _ ⟨rfl, rfl⟩ hsrE.out
      | ok w =>
        have hwp : Val.plain w := copyVal_plain hcv
        -- the members of the containers of run B: those of run A, renamed
        have hmemA : ∀ k, sB.heap.arrs.size ≤ k → ∀ x ∈ (sBe.heap.arr k).toList,
            x ≠ sBv.heap.cells.size ∧ Val.plain (sBe.heap.get x) := by
          intro k hk x hx
          have har := hK1e.arrs k hk
          have hl := har.2 x hx
          have hxA' : (K1 K sA.heap sB.heap (withSel prog T E) ub).σ x ∈ (sAe.heap.arr k).toList := by
            rw [har.1, Array.toList_map]; exact List.mem_map_of_mem hx
          have hpc := mphE.arrs k (by show sA.heap.arrs.size ≤ k; rw [hs.heap.sza]; exact hk) _ hxA'
          refine ⟨fun e => hpc.1 (by rw [e]; exact hσc), ?_⟩
          apply plain_of_renV (σ := (K1 K sA.heap sB.heap (withSel prog T E) ub).σ)
          rw [← (hK1e.cells x hl).1]; exact hpc.2.2
        have hmemO : ∀ k, sB.heap.objs.size ≤ k → ∀ kc ∈ sBe.heap.obj k,
            kc.2 ≠ sBv.heap.cells.size ∧ Val.plain (sBe.heap.get kc.2) := by
          intro k hk kc hkc
          have hob := hK1e.objs k hk
          have hl := hob.2 kc hkc
          have hxA' : (kc.1, (K1 K sA.heap sB.heap (withSel prog T E) ub).σ kc.2) ∈ sAe.heap.obj k := by
            rw [hob.1]; exact List.mem_map_of_mem (f := fun kc => (kc.1, (K1 K sA.heap sB.heap (withSel prog T E) ub).σ kc.2)) hkc
          have hpc := mphE.objs k (by show sA.heap.objs.size ≤ k; rw [hs.heap.szo]; exact hk) _ hxA'
          refine ⟨fun e => hpc.1 (by show (K1 K sA.heap sB.heap (withSel prog T E) ub).σ kc.2 = _; rw [e]; exact hσc), ?_⟩
          apply plain_of_renV (σ := (K1 K sA.heap sB.heap (withSel prog T E) ub).σ)
          rw [← (hK1e.cells kc.2 hl).1]; exact hpc.2.2
        have hfun : prog.functions = (withSel prog T E).functions := rfl
        -- the builtins of run B, and the members of its containers, after the expression
        have hinvBe : ub = true → ∃ h0, InvB (P3 (withSel prog T E)) h0 b0m (KSet (P3 (withSel prog T E))) sBe ∧
            ∀ i, i < 3 → sB.heap.get i = h0.get i := by
          intro hu
          obtain ⟨h0, inv, hk⟩ := hinvBd hu
          obtain ⟨_, hwfP, hokP, hokE⟩ := hub hu
          have i3 := (allBP (P3 (withSel prog T E)) h0 b0m (withSel prog T E) (Nat.le_refl _)
            (Program.wfB_functions hwfP) (okProg_functions hokP) 999995).expr E hwfE hokE sBd inv
          unfold BPat at i3
          rw [hEB] at i3
          exact ⟨h0, i3.1, hk⟩
        have hbiB : ub = true → ∀ i, i < 3 → sBe.heap.get i = sB.heap.get i := by
          intro hu i hi
          obtain ⟨h0, inv, hk⟩ := hinvBe hu
          rw [inv.heap.keep i hi, hk i hi]
        have hbiA : ub = true → ∀ k, sB.heap.arrs.size ≤ k → ∀ x ∈ (sBe.heap.arr k).toList, 3 ≤ x := by
          intro hu k _ x hx
          obtain ⟨h0, inv, _⟩ := hinvBe hu
          exact inv.heap.arrs k (Nat.zero_le _) x hx
        have hbiO : ub = true → ∀ k, sB.heap.objs.size ≤ k → ∀ kc ∈ sBe.heap.obj k, 3 ≤ kc.2 := by
          intro hu k _ kc hkc
          obtain ⟨h0, inv, _⟩ := hinvBe hu
          exact inv.heap.objs k (Nat.zero_le _) kc hkc
        have hheap := junction_heap wf h0 h0' prog (withSel prog T E) hKA hKB hfun hs.heap ub hK1e
          sBv.heap.cells.size hc1 hc2' hmemA hmemO hbiB hbiA hbiO w hwp
        have wf2 := K2_wf wf (rA := sAe.heap.cells.size) (fun i => Val.plain (sBe.heap.get i)) hm hc1 hc2' hszE
          prog (withSel prog T E)
        -- frames and root of run B are those of before
        have hkeep : Keeps sBd sBe := sfB.1
        have hfrE : sBe.frames = sB.frames := by
          obtain ⟨mfA, mfB, eA, eB, hf2, _⟩ := hsrE.frames
          have hl1 : sBe.frames.length = sBd.frames.length := hkeep.frames.length
          have hl2 : sBd.frames = sB.frames := by rw [hfrBd, cB1.rest]
          have eB' : sBe.frames = mfB ++ sB.frames := eB
          rw [eB', hl2, List.length_append] at hl1
          have : mfB = [] := List.eq_nil_of_length_eq_zero (by omega)
          rw [eB', this]; rfl
        have hrootE : sBe.root = sB.root := by
          rw [hkeep.root, hrootBd, cB1.rest]
        -- old live things keep their relation in the new context
        have tr : Trans K (K2 K sB.heap.cells.size sBv.heap.cells.size sBe.heap.cells.size sAe.heap.cells.size
            (fun i => Val.plain (sBe.heap.get i)) prog (withSel prog T E)) sB.heap.cells.size sBe.heap.cells.size := by
          refine ⟨?_, fun _ _ => Nat.zero_le _, fun _ _ => Nat.zero_le _, fun i _ => rfl⟩
          intro x hx
          have hx2 : x < sB.heap.cells.size := hx.2
          refine ⟨by simp only [K2, hx2, ↓reduceIte], ?_,
            Nat.lt_of_lt_of_le hx2 (Nat.le_trans hc1 (Nat.le_of_lt hc2'))⟩
          show (if x < sB.heap.cells.size then K.D x else _)
          simp only [hx2, ↓reduceIte]
          exact hx.1
        refine JRel.ok _ _ _ _ _ _ wf2 rfl rfl rfl rfl ?_ ?_ ?_
        · -- the states
          refine ⟨hheap, ?_, (fun h => by cases h), ?_, ?_, ?_⟩
          · obtain ⟨mfA, mfB, eA, eB, hf2, hin⟩ := hs.frames
            refine ⟨mfA, mfB, eA, ?_, ?_, hin⟩
            · show sBe.frames = _
              rw [hfrE]; exact eB
            · show F2 (FrameR _ (sBe.heap.set sBv.heap.cells.size w).cells.size) mfA mfB
              rw [Heap.size_set]
              exact tr.frames hf2
          · intro _
            show OptCellR _ (sBe.heap.set sBv.heap.cells.size w).cells.size sA.root sBe.root
            rw [Heap.size_set, hrootE]
            exact tr.optCellR (hs.root rfl)
          · show sAe.out = sBe.out
            exact hsrE.out
          · show sAe.faults = sBe.faults
            exact hsrE.faults
        · show sBe.frames.length = 1
          rw [hfrE]; exact hlen
        · show CellR _ (sBe.heap.set sBv.heap.cells.size w).cells.size sAe.heap.cells.size sBv.heap.cells.size
          rw [Heap.size_set]
          have hnot : ¬ sBv.heap.cells.size < sB.heap.cells.size := Nat.not_lt.mpr hc1
          refine ⟨?_, ?_, hc2'⟩
          · simp only [K2, hnot, ↓reduceIte]
          · show (if sBv.heap.cells.size < sB.heap.cells.size then _ else _)
            simp only [hnot, ↓reduceIte]
            exact fun _ => hplc

end Sel
end Jqawk
