/-
  Copy versus share (C09, third sentence): "Scalars are copied on assignment, argument passing
  and insertion into containers, whereas arrays and objects are shared, so a mutation made
  through one reference is visible through every other reference."

  * argument passing: `bindParams` (closed form, fresh cells), `evalExprList … true` (every
    argument value is stored through `copyValue` into a fresh cell);
  * insertion into containers: array literal, object literal, `push`;
  * sharing: assignment of an array/object value stores the same id; a store through one
    reference is seen through the other.
-/
import Jqawk.Lemmas.AssignFrame

set_option linter.unusedVariables false

namespace Jqawk

/-! ## (1a) parameter binding -/

/-- the values the parameters receive: by position, missing → null, surplus ignored -/
def paramVals : List Bytes → List Val → List Val
  | [], _ => []
  | _ :: ps, [] => .nil none :: paramVals ps []
  | _ :: ps, a :: as => a :: paramVals ps as

/-- the locals after binding the parameters, in order, to the consecutive cells `base, base+1, …` -/
def bindLocals : List (Bytes × CellId) → List Bytes → CellId → List (Bytes × CellId)
  | m, [], _ => m
  | m, p :: ps, base => bindLocals (objInsert m p base) ps (base + 1)

theorem paramVals_length (ps : List Bytes) (args : List Val) : (paramVals ps args).length = ps.length := by
  induction ps generalizing args with
  | nil => rfl
  | cons p ps ih => cases args <;> simp [paramVals, ih]

theorem paramVals_getElem? (ps : List Bytes) (args : List Val) (j : Nat) (hj : j < ps.length) :
    (paramVals ps args)[j]? = some (args.getD j (.nil none)) := by
  induction ps generalizing args j with
  | nil => simp at hj
  | cons p ps ih =>
    cases args with
    | nil =>
      cases j with
      | zero => simp [paramVals]
      | succ j =>
        have := ih [] j (by simpa using hj)
        simpa [paramVals] using this
    | cons a as =>
      cases j with
      | zero => simp [paramVals]
      | succ j =>
        have := ih as j (by simpa using hj)
        simpa [paramVals] using this

theorem Heap.allocMany_nil (h : Heap) : h.allocMany [] = h := by
  cases h; simp [Heap.allocMany]

theorem Heap.alloc_allocMany (h : Heap) (v : Val) (vs : List Val) :
    (h.alloc v).2.allocMany vs = h.allocMany (v :: vs) := by
  simp only [Heap.alloc, Heap.allocMany]
  congr 1
  apply Array.toList_inj.mp
  simp

/-- **closed form of `bindParams`**: one fresh cell per parameter, consecutively, holding the
    argument value (null for a missing argument); the names are bound in the innermost frame in
    order (so for a repeated name the last occurrence wins); nothing else changes. -/
theorem bindParams_eq (ps : List Bytes) (args : List Val) (s : St) (f : Frame) (fs : List Frame)
    (hf : s.frames = f :: fs) :
    bindParams ps args s = .ok () { s with
      heap := s.heap.allocMany (paramVals ps args),
      frames := { f with locals := bindLocals f.locals ps s.heap.cells.size } :: fs } := by
  induction ps generalizing args s f with
  | nil =>
    simp only [bindParams, pure, EM.pure, paramVals, Heap.allocMany_nil, bindLocals]
    rw [← hf]
  | cons p ps ih =>
    cases args with
    | nil =>
      simp only [bindParams, bind, EM.bind, newCell, setLocal, hf]
      rw [ih [] _ { f with locals := objInsert f.locals p s.heap.cells.size } rfl]
      simp only [paramVals, bindLocals, Heap.alloc_allocMany]
      simp [Heap.alloc]
    | cons a as =>
      simp only [bindParams, bind, EM.bind, newCell, setLocal, hf]
      rw [ih as _ { f with locals := objInsert f.locals p s.heap.cells.size } rfl]
      simp only [paramVals, bindLocals, Heap.alloc_allocMany]
      simp [Heap.alloc]

/-- without a frame `bindParams` panics as soon as there is a parameter (never happens: a call
    pushes a frame first) -/
theorem bindParams_noframe (p : Bytes) (ps : List Bytes) (args : List Val) (s : St)
    (hf : s.frames = []) : ∃ s', bindParams (p :: ps) args s = .err (.panic "no frame") s' := by
  cases args <;> simp [bindParams, bind, EM.bind, newCell, setLocal, hf]

theorem objLookup_bindLocals_notin (ps : List Bytes) (m : List (Bytes × CellId)) (base : CellId)
    (name : Bytes) (hn : name ∉ ps) : objLookup (bindLocals m ps base) name = objLookup m name := by
  induction ps generalizing m base with
  | nil => rfl
  | cons p ps ih =>
    simp only [List.mem_cons, not_or] at hn
    simp only [bindLocals]
    rw [ih _ _ hn.2, objLookup_objInsert]
    have : p ≠ name := fun e => hn.1 e.symm
    simp [this]

/-- the name at position `j` — if it does not occur again later — is bound to the `j`-th fresh
    cell -/
theorem objLookup_bindLocals_last (ps : List Bytes) (m : List (Bytes × CellId)) (base : CellId)
    (j : Nat) (p : Bytes) (hj : ps[j]? = some p) (hlast : ∀ j', j < j' → ps[j']? ≠ some p) :
    objLookup (bindLocals m ps base) p = some (base + j) := by
  induction ps generalizing m base j with
  | nil => simp at hj
  | cons q ps ih =>
    cases j with
    | zero =>
      simp only [List.getElem?_cons_zero, Option.some.injEq] at hj
      subst hj
      have hn : q ∉ ps := by
        intro hmem
        obtain ⟨i, hi, e⟩ := List.getElem_of_mem hmem
        exact hlast (i + 1) (Nat.succ_pos i) (by simp [hi, e])
      simp only [bindLocals]
      rw [objLookup_bindLocals_notin _ _ _ _ hn, objLookup_objInsert]
      simp
    | succ j =>
      simp only [List.getElem?_cons_succ] at hj
      simp only [bindLocals]
      rw [ih _ (base + 1) j hj (fun j' hlt => by
        have := hlast (j' + 1) (Nat.succ_lt_succ hlt)
        simpa using this)]
      rw [Nat.add_assoc, Nat.add_comm 1 j]

/-- every parameter name is bound to one of the fresh cells -/
theorem objLookup_bindLocals_mem (ps : List Bytes) (m : List (Bytes × CellId)) (base : CellId)
    (p : Bytes) (hp : p ∈ ps) :
    ∃ j, j < ps.length ∧ ps[j]? = some p ∧ objLookup (bindLocals m ps base) p = some (base + j) := by
  induction ps generalizing m base with
  | nil => simp at hp
  | cons q ps ih =>
    by_cases hin : p ∈ ps
    · obtain ⟨j, hj, hjp, hl⟩ := ih (objInsert m q base) (base + 1) hin
      refine ⟨j + 1, by simpa using hj, by simpa using hjp, ?_⟩
      simp only [bindLocals]
      rw [hl, Nat.add_assoc, Nat.add_comm 1 j]
    · have : p = q := by
        rcases List.mem_cons.mp hp with h | h
        · exact h
        · exact absurd h hin
      subst this
      refine ⟨0, by simp, by simp, ?_⟩
      simp only [bindLocals]
      rw [objLookup_bindLocals_notin _ _ _ _ hin, objLookup_objInsert]
      simp

/-- **`bindParams`, what a caller can rely on** (any state with a frame): it succeeds; the heap
    only grows by `ps.length` cells (every old cell, array and object is unchanged); the `j`-th
    new cell holds the `j`-th argument value, or null if there are fewer arguments; in the
    innermost frame every name that is not a parameter keeps its binding, and the parameter at
    position `j` is bound to the `j`-th new cell — for a name that occurs several times in the
    parameter list, the LAST occurrence wins (`hlast`); in any case every parameter name is bound
    to one of the new cells.  Outer frames, output, roots are untouched. -/
theorem bindParams_spec (ps : List Bytes) (args : List Val) (s : St) (f : Frame) (fs : List Frame)
    (hf : s.frames = f :: fs) :
    ∃ s' f', bindParams ps args s = .ok () s' ∧
      HeapPreserved s.heap s'.heap ∧
      s'.heap.cells.size = s.heap.cells.size + ps.length ∧
      s'.heap.arrs = s.heap.arrs ∧ s'.heap.objs = s.heap.objs ∧
      (∀ j, j < ps.length → s'.heap.get (s.heap.cells.size + j) = args.getD j (.nil none)) ∧
      s'.frames = f' :: fs ∧ f'.name = f.name ∧
      (∀ name, name ∉ ps → objLookup f'.locals name = objLookup f.locals name) ∧
      (∀ j p, ps[j]? = some p → (∀ j', j < j' → ps[j']? ≠ some p) →
        objLookup f'.locals p = some (s.heap.cells.size + j)) ∧
      (∀ p, p ∈ ps → ∃ j, j < ps.length ∧ ps[j]? = some p ∧
        objLookup f'.locals p = some (s.heap.cells.size + j)) ∧
      s'.out = s.out ∧ s'.root = s.root ∧ s'.ruleRoot = s.ruleRoot ∧ s'.returnVal = s.returnVal := by
  refine ⟨_, _, bindParams_eq ps args s f fs hf, HeapPreserved.allocMany _ _, ?_, rfl, rfl, ?_, rfl, rfl,
    fun name hn => objLookup_bindLocals_notin _ _ _ _ hn,
    fun j p hj hl => objLookup_bindLocals_last _ _ _ j p hj hl,
    fun p hp => objLookup_bindLocals_mem _ _ _ p hp, rfl, rfl, rfl, rfl⟩
  · simp [Heap.allocMany, paramVals_length]
  · intro j hj
    have hj' : j < (paramVals ps args).length := by rw [paramVals_length]; exact hj
    have h1 := Heap.get_allocMany_new s.heap (paramVals ps args) j hj'
    have h2 := paramVals_getElem? ps args j hj
    rw [List.getElem?_eq_getElem hj'] at h2
    simp only [Option.some.injEq] at h2
    exact h1.trans h2

/-! ## (1b) the argument values of a call are copies -/

/-- a value that `copyValue` produces never stands for a missing member -/
theorem copyVal_not_speculative (v w : Val) (h : copyVal v = .ok w) : w.speculative = false := by
  cases v <;> simp [copyVal] at h <;> subst h <;> rfl

/-- `c` was allocated between `h` and `h'` and holds a copy (`copyVal` of some value: a scalar in
    a fresh payload without remembered parent, or the shared id of an array/object) -/
def FreshCopy (h h' : Heap) (c : CellId) : Prop :=
  h.cells.size ≤ c ∧ c < h'.cells.size ∧ ∃ v, copyVal v = .ok (h'.get c)

theorem FreshCopy.mono {h0 h h' h'' : Heap} {c : CellId} (fc : FreshCopy h h' c)
    (h0h : h0.cells.size ≤ h.cells.size) (p : HeapPreserved h' h'') : FreshCopy h0 h'' c := by
  obtain ⟨a, b, v, hv⟩ := fc
  refine ⟨Nat.le_trans h0h a, Nat.lt_of_lt_of_le b p.cells, v, ?_⟩
  rw [p.get c b]; exact hv

theorem FreshCopy.not_speculative {h h' : Heap} {c : CellId} (fc : FreshCopy h h' c) :
    (h'.get c).speculative = false := by
  obtain ⟨_, _, v, hv⟩ := fc
  exact copyVal_not_speculative _ _ hv

/-- the state after `NewCell(x)` followed by a successful `copyValue(v, cell)` -/
def copiedSt (s : St) (x w : Val) : St :=
  { s with heap := (s.heap.alloc x).2.set s.heap.cells.size w }

/-- one step of `evalExprList … true` (inversion): the element is evaluated, its value is copied
    into a fresh cell — the next free cell id — and the rest is evaluated from there.  (The value
    copied is the one the element's result cell `v` holds; it is read after the fresh cell was
    allocated, which makes a difference only if `v` is not an allocated cell.) -/
theorem evalExprList_copy_cons (prog : Program) (n : Nat) (e : Expr) (rest : List Expr) (s s' : St)
    (cs : List CellId) (h : evalExprList prog (n + 1) (e :: rest) true s = .ok cs s') :
    ∃ v s1 w cs', evalExpr prog n e s = .ok v s1 ∧
      copyVal ((s1.heap.alloc (.str [] none)).2.get v) = .ok w ∧
      cs = s1.heap.cells.size :: cs' ∧
      evalExprList prog n rest true (copiedSt s1 (.str [] none) w) = .ok cs' s' := by
  unfold evalExprList at h
  simp only [bind, EM.bind, ↓reduceIte] at h
  cases h1 : evalExpr prog n e s with
  | oof => rw [h1] at h; cases h
  | err er s1 => rw [h1] at h; cases h
  | ok v s1 =>
    rw [h1] at h
    have hfst : (s1.heap.alloc (.str [] none)).1 = s1.heap.cells.size := rfl
    cases hc : copyVal ((s1.heap.alloc (.str [] none)).2.get v) with
    | error m =>
      simp only [newCell, copyValue, bind, EM.bind, readCell, hc, pure, EM.pure, throwRt] at h
      cases h
    | ok w =>
      simp only [newCell, copyValue, bind, EM.bind, readCell, hc, writeCell, pure, EM.pure, hfst] at h
      cases h2 : evalExprList prog n rest true (copiedSt s1 (.str [] none) w) with
      | oof => simp only [copiedSt] at h2; rw [h2] at h; cases h
      | err er s2 => simp only [copiedSt] at h2; rw [h2] at h; cases h
      | ok cs' s2 =>
        simp only [copiedSt] at h2; rw [h2] at h
        simp only [Res.ok.injEq] at h
        obtain ⟨rfl, rfl⟩ := h
        exact ⟨v, s1, w, cs', rfl, hc, rfl, h2⟩

theorem copiedSt_preserved (s : St) (x w : Val) : HeapPreserved s.heap (copiedSt s x w).heap :=
  HeapPreserved.alloc_set s.heap x w

theorem copiedSt_size (s : St) (x w : Val) : (copiedSt s x w).heap.cells.size = s.heap.cells.size + 1 := by
  simp only [copiedSt]; rw [Heap.size_set, Heap.size_alloc]

theorem copiedSt_get (s : St) (x w : Val) : (copiedSt s x w).heap.get s.heap.cells.size = w := by
  simp only [copiedSt]
  exact Heap.get_set_same' _ _ _ (by rw [Heap.size_alloc]; exact Nat.lt_succ_self _)

theorem copiedSt_inv {k : Bool} (s : St) (x w : Val) (i : Inv k s.heap) : Inv k (copiedSt s x w).heap :=
  i.same_objs rfl (copiedSt_preserved s x w).cells

/-- the freshly allocated cell of `copiedSt` holds a copy -/
theorem copiedSt_freshCopy (s : St) (x w v : Val) (hc : copyVal v = .ok w) :
    FreshCopy s.heap (copiedSt s x w).heap s.heap.cells.size :=
  ⟨Nat.le_refl _, by rw [copiedSt_size]; exact Nat.lt_succ_self _, v, by rw [copiedSt_get]; exact hc⟩

/-- **the argument cells of a call (and the element cells of an array literal) are fresh cells
    holding copies**: `evalExprList … true` on read-only element expressions (`k = false`: no
    calls, any program; `k = true`: method calls with literal non-mutating names, function bodies
    read-only, object members in range) changes no existing cell, array or object, yields one
    cell per expression, every one of them allocated during this evaluation and holding a copy;
    the cells are pairwise distinct (increasing). -/
theorem evalExprList_copy_fresh (prog : Program) (k : Bool) (hfn : k = true → prog.FnsRO) :
    ∀ (es : List Expr) (n : Nat) (s s' : St) (cs : List CellId),
      roEs k es = true → Inv k s.heap → evalExprList prog n es true s = .ok cs s' →
      HeapPreserved s.heap s'.heap ∧ Inv k s'.heap ∧ cs.length = es.length ∧
      (∀ c, c ∈ cs → FreshCopy s.heap s'.heap c) ∧ cs.Pairwise (fun a b => a < b) := by
  intro es
  induction es with
  | nil =>
    intro n s s' cs _ i h
    cases n with
    | zero => unfold evalExprList at h; cases h
    | succ n =>
      unfold evalExprList at h
      simp only [pure, EM.pure, Res.ok.injEq] at h
      obtain ⟨rfl, rfl⟩ := h
      exact ⟨HeapPreserved.refl _, i, rfl, (fun c hc => nomatch hc), List.Pairwise.nil⟩
  | cons e rest ih =>
    intro n s s' cs hro i h
    simp only [roEs, Bool.and_eq_true] at hro
    cases n with
    | zero => unfold evalExprList at h; cases h
    | succ n =>
      obtain ⟨v, s1, w, cs', h1, hc, rfl, h2⟩ := evalExprList_copy_cons prog n e rest s s' cs h
      have q1 := (allRO prog k hfn n).expr true e hro.1 s
      rw [h1] at q1
      obtain ⟨r1, i1⟩ := q1 i
      obtain ⟨p2, i2, hlen, hfresh, hpw⟩ :=
        ih n (copiedSt s1 (.str [] none) w) s' cs' hro.2 (copiedSt_inv s1 _ w i1) h2
      have p01 : HeapPreserved s.heap (copiedSt s1 (.str [] none) w).heap :=
        r1.heap.trans (copiedSt_preserved s1 _ w)
      refine ⟨p01.trans p2, i2, by simp [hlen], ?_, ?_⟩
      · intro c hcm
        rcases List.mem_cons.mp hcm with rfl | hcm
        · exact (copiedSt_freshCopy s1 (.str [] none) w _ hc).mono r1.heap.cells p2
        · exact (hfresh c hcm).mono p01.cells (HeapPreserved.refl _)
      · refine List.Pairwise.cons ?_ hpw
        intro c hcm
        have := (hfresh c hcm).1
        rw [copiedSt_size] at this
        exact this

/-! ## (2a) array literal -/

/-- the heap after building an array from the cells `cs` and a cell referring to it -/
def arrLitHeap (h : Heap) (cs : List CellId) : Heap :=
  ((h.allocArr cs.toArray).2.alloc (.arr h.arrs.size)).2

/-- an array literal (inversion): the items are evaluated by `evalExprList … true` (copies in
    fresh cells), then a new array holding exactly these cells and a new cell referring to it
    are allocated -/
theorem evalExpr_arr_inv (prog : Program) (n : Nat) (t : Token) (items : List Expr) (s s' : St)
    (c : CellId) (h : evalExpr prog (n + 1) (.arr t items) s = .ok c s') :
    ∃ cs s1, evalExprList prog n items true s = .ok cs s1 ∧ c = s1.heap.cells.size ∧
      s' = { s1 with heap := arrLitHeap s1.heap cs } := by
  unfold evalExpr at h
  simp only [bind, EM.bind] at h
  cases h1 : evalExprList prog n items true s with
  | oof => rw [h1] at h; cases h
  | err er s1 => rw [h1] at h; cases h
  | ok cs s1 =>
    rw [h1] at h
    simp only [allocArrM, newCell, Heap.allocArr, Heap.alloc, Res.ok.injEq] at h
    obtain ⟨rfl, rfl⟩ := h
    exact ⟨cs, s1, rfl, rfl, rfl⟩

theorem arrLitHeap_spec (h : Heap) (cs : List CellId) :
    HeapPreserved h (arrLitHeap h cs) ∧
    (arrLitHeap h cs).get h.cells.size = .arr h.arrs.size ∧
    (arrLitHeap h cs).arr h.arrs.size = cs.toArray ∧
    (arrLitHeap h cs).cells.size = h.cells.size + 1 ∧
    (arrLitHeap h cs).arrs.size = h.arrs.size + 1 ∧
    (arrLitHeap h cs).objs = h.objs := by
  refine ⟨(HeapPreserved.allocArr h _).trans (HeapPreserved.alloc _ _), ?_, ?_, ?_, ?_, rfl⟩
  · exact Heap.get_push_new _ _
  · simp [arrLitHeap, Heap.allocArr, Heap.alloc, Heap.arr, Array.getD_eq_getD_getElem?]
  · simp [arrLitHeap, Heap.allocArr, Heap.alloc]
  · simp [arrLitHeap, Heap.allocArr, Heap.alloc]

/-! ## (2b) object literal -/

/-- one step of `evalObjItems` (inversion): the member expression is evaluated, its value is
    copied into a fresh cell (the next free cell id), that cell becomes the member -/
theorem evalObjItems_cons (prog : Program) (n pos : Nat) (key : Bytes) (e : Expr)
    (rest : List (Bytes × Expr)) (acc m : List (Bytes × CellId)) (s s' : St)
    (h : evalObjItems prog (n + 1) pos ((key, e) :: rest) acc s = .ok m s') :
    ∃ v s1 w, evalExpr prog n e s = .ok v s1 ∧
      copyVal ((s1.heap.alloc .unknown).2.get v) = .ok w ∧
      evalObjItems prog n pos rest (objInsert acc key s1.heap.cells.size) (copiedSt s1 .unknown w) = .ok m s' := by
  unfold evalObjItems at h
  simp only [bind, EM.bind] at h
  cases h1 : evalExpr prog n e s with
  | oof => rw [h1] at h; cases h
  | err er s1 => rw [h1] at h; cases h
  | ok v s1 =>
    rw [h1] at h
    have hfst : (s1.heap.alloc .unknown).1 = s1.heap.cells.size := rfl
    cases hc : copyVal ((s1.heap.alloc .unknown).2.get v) with
    | error m =>
      simp only [newCell, copyValue, bind, EM.bind, readCell, hc, pure, EM.pure, throwRt] at h
      cases h
    | ok w =>
      simp only [newCell, copyValue, bind, EM.bind, readCell, hc, writeCell, pure, EM.pure, hfst] at h
      exact ⟨v, s1, w, rfl, hc, h⟩

/-- **the members of an object literal are fresh cells holding copies**: every member of the
    result is either a member of the accumulator under a key that does not occur in the literal
    (`acc = []` at the top), or a cell allocated during this evaluation holding a copy; every key
    of the literal is present; no existing cell, array or object changes. -/
theorem evalObjItems_copy_fresh (prog : Program) (k : Bool) (hfn : k = true → prog.FnsRO) :
    ∀ (items : List (Bytes × Expr)) (n pos : Nat) (acc m : List (Bytes × CellId)) (s s' : St),
      roKVs k items = true → Inv k s.heap → evalObjItems prog n pos items acc s = .ok m s' →
      HeapPreserved s.heap s'.heap ∧ Inv k s'.heap ∧
      (∀ key c, objLookup m key = some c →
        (key ∈ items.map (·.1) ∧ FreshCopy s.heap s'.heap c) ∨
        (key ∉ items.map (·.1) ∧ objLookup acc key = some c)) ∧
      (∀ key, key ∈ items.map (·.1) ∨ (objLookup acc key).isSome = true →
        (objLookup m key).isSome = true) := by
  intro items
  induction items with
  | nil =>
    intro n pos acc m s s' _ i h
    cases n with
    | zero => unfold evalObjItems at h; cases h
    | succ n =>
      unfold evalObjItems at h
      simp only [pure, EM.pure, Res.ok.injEq] at h
      obtain ⟨rfl, rfl⟩ := h
      refine ⟨HeapPreserved.refl _, i, fun key c hl => .inr ⟨by simp, hl⟩, ?_⟩
      intro key hk
      rcases hk with hk | hk
      · simp at hk
      · exact hk
  | cons kv rest ih =>
    intro n pos acc m s s' hro i h
    obtain ⟨key0, e⟩ := kv
    simp only [roKVs, Bool.and_eq_true] at hro
    cases n with
    | zero => unfold evalObjItems at h; cases h
    | succ n =>
      obtain ⟨v, s1, w, h1, hc, h2⟩ := evalObjItems_cons prog n pos key0 e rest acc m s s' h
      have q1 := (allRO prog k hfn n).expr true e hro.1 s
      rw [h1] at q1
      obtain ⟨r1, i1⟩ := q1 i
      obtain ⟨p2, i2, hmem, hkeys⟩ :=
        ih n pos _ m (copiedSt s1 .unknown w) s' hro.2 (copiedSt_inv s1 _ w i1) h2
      have p01 : HeapPreserved s.heap (copiedSt s1 .unknown w).heap :=
        r1.heap.trans (copiedSt_preserved s1 _ w)
      refine ⟨p01.trans p2, i2, ?_, ?_⟩
      · intro key c hl
        rcases hmem key c hl with ⟨hin, hf⟩ | ⟨hnin, hacc⟩
        · exact .inl ⟨by simp only [List.map_cons, List.mem_cons]; exact .inr hin,
            hf.mono p01.cells (HeapPreserved.refl _)⟩
        · rw [objLookup_objInsert] at hacc
          split at hacc
          · rename_i heq
            cases hacc
            exact .inl ⟨by simp [heq],
              (copiedSt_freshCopy s1 .unknown w _ hc).mono r1.heap.cells p2⟩
          · rename_i hne
            refine .inr ⟨?_, hacc⟩
            simp only [List.map_cons, List.mem_cons, not_or]
            exact ⟨fun e => hne e.symm, hnin⟩
      · intro key hk
        apply hkeys key
        rw [objLookup_objInsert]
        by_cases heq : key0 = key
        · right; simp [heq]
        · rcases hk with hk | hk
          · simp only [List.map_cons, List.mem_cons] at hk
            rcases hk with hk | hk
            · exact absurd hk.symm heq
            · exact .inl hk
          · right; simp [heq, hk]

/-- the heap after building an object from the members `m` and a cell referring to it -/
def objLitHeap (h : Heap) (m : List (Bytes × CellId)) : Heap :=
  ((h.allocObj m).2.alloc (.obj h.objs.size)).2

/-- an object literal (inversion) -/
theorem evalExpr_obj_inv (prog : Program) (n : Nat) (t : Token) (items : List (Bytes × Expr)) (s s' : St)
    (c : CellId) (h : evalExpr prog (n + 1) (.obj t items) s = .ok c s') :
    ∃ m s1, evalObjItems prog n t.pos items [] s = .ok m s1 ∧ c = s1.heap.cells.size ∧
      s' = { s1 with heap := objLitHeap s1.heap m } := by
  unfold evalExpr at h
  simp only [bind, EM.bind] at h
  cases h1 : evalObjItems prog n t.pos items [] s with
  | oof => rw [h1] at h; cases h
  | err er s1 => rw [h1] at h; cases h
  | ok m s1 =>
    rw [h1] at h
    simp only [allocObjM, newCell, Heap.allocObj, Heap.alloc, Res.ok.injEq] at h
    obtain ⟨rfl, rfl⟩ := h
    exact ⟨m, s1, rfl, rfl, rfl⟩

theorem objLitHeap_spec (h : Heap) (m : List (Bytes × CellId)) :
    HeapPreserved h (objLitHeap h m) ∧
    (objLitHeap h m).get h.cells.size = .obj h.objs.size ∧
    (objLitHeap h m).obj h.objs.size = m ∧
    (objLitHeap h m).cells.size = h.cells.size + 1 ∧
    (objLitHeap h m).objs.size = h.objs.size + 1 ∧
    (objLitHeap h m).arrs = h.arrs := by
  refine ⟨(HeapPreserved.allocObj h _).trans (HeapPreserved.alloc _ _), ?_, ?_, ?_, ?_, rfl⟩
  · exact Heap.get_push_new _ _
  · simp [objLitHeap, Heap.allocObj, Heap.alloc, Heap.obj, Array.getD_eq_getD_getElem?]
  · simp [objLitHeap, Heap.allocObj, Heap.alloc]
  · simp [objLitHeap, Heap.allocObj, Heap.alloc]

/-! ## (2c) push -/

/-- **`a.push(v)`**: the array gets exactly one new last cell, the next free cell id, holding
    `v` itself; its earlier cells stay; every old cell keeps its value; every other array and
    every object is unchanged.  (No copy is made here: the argument value `v` of the call was
    already copied into a fresh argument cell by `evalExprList … true`, and `callFunction`
    passes the value of that cell.) -/
theorem pushHeap_spec (h : Heap) (a : ArrId) (v : Val) :
    (pushHeap h a v).cells.size = h.cells.size + 1 ∧
    (pushHeap h a v).get h.cells.size = v ∧
    (∀ c, c < h.cells.size → (pushHeap h a v).get c = h.get c) ∧
    (a < h.arrs.size → (pushHeap h a v).arr a = (h.arr a).push h.cells.size) ∧
    (∀ b, b ≠ a → (pushHeap h a v).arr b = h.arr b) ∧
    (pushHeap h a v).arrs.size = h.arrs.size ∧
    (pushHeap h a v).objs = h.objs := by
  refine ⟨by simp [pushHeap], ?_, ?_, ?_, ?_, by simp [pushHeap], rfl⟩
  · rw [pushHeap_eq, Heap.get_setArr]; exact Heap.get_push_new h v
  · intro c hc; rw [pushHeap_eq, Heap.get_setArr]; exact Heap.get_push_old h v c hc
  · intro ha; rw [pushHeap_eq]; exact Heap.arr_setArr_same _ _ _ (by simpa using ha)
  · intro b hb; rw [pushHeap_eq, Heap.arr_setArr_other _ _ _ _ hb]; rfl

/-- the elements before the pushed one are the same cells -/
theorem pushHeap_prefix (h : Heap) (a : ArrId) (v : Val) (ha : a < h.arrs.size) (i : Nat)
    (hi : i < (h.arr a).size) : ((pushHeap h a v).arr a).getD i 0 = (h.arr a).getD i 0 := by
  rw [(pushHeap_spec h a v).2.2.2.1 ha]
  simp [Array.getD_eq_getD_getElem?, Array.getElem?_push, Nat.ne_of_lt hi, hi]

/-- `push` changes no cell that existed: everything it does to cells is one allocation -/
theorem pushHeap_preservedExcept (h : Heap) (a : ArrId) (v : Val) :
    (∀ c, c < h.cells.size → (pushHeap h a v).get c = h.get c) ∧
    (∀ b, b ≠ a → (pushHeap h a v).arr b = h.arr b) ∧
    (∀ o, (pushHeap h a v).obj o = h.obj o) :=
  ⟨(pushHeap_spec h a v).2.2.1, (pushHeap_spec h a v).2.2.2.2.1, fun _ => rfl⟩

/-- the list of values after `push`, when the array's cells are allocated (the `arrs` part of
    `Heap.WF` for this one array) -/
theorem absArr_pushHeap_same' (h : Heap) (a : ArrId) (v : Val) (ha : a < h.arrs.size)
    (hcs : ∀ c, c ∈ (h.arr a).toList → c < h.cells.size) :
    absArr (pushHeap h a v) a = absArr h a ++ [v] := by
  rw [pushHeap_eq]
  simp only [absArr]
  rw [Heap.arr_setArr_same _ _ _ (by simpa using ha)]
  simp only [Array.toList_push, List.map_append, List.map_cons, List.map_nil, Heap.get_setArr_fun]
  rw [Heap.get_push_new, map_get_push_old h v _ hcs]

/-- the call of a bound `push` at the level of `callFunction`: callee cell holding the method
    `push` bound to a cell `b` that holds the array `a`, one argument cell: the value of the
    argument cell is pushed; the result is a fresh cell referring to the same array -/
theorem callFunction_push (prog : Program) (n pos : Nat) (fc argc b : CellId) (sp : Option SpecRef)
    (a : ArrId) (s : St) (hf : s.heap.get fc = .native .arrPush (some b) sp)
    (hb : s.heap.get b = .arr a) :
    callFunction prog (n + 1) pos fc [argc] s =
      .ok (s.heap.cells.size + 1)
        { s with heap := ((pushHeap s.heap a (s.heap.get argc)).alloc (.arr a)).2 } := by
  unfold callFunction
  simp only [bind, EM.bind, readCell, getHeap, hf, Option.map_some, hb, List.map_cons, List.map_nil,
    callNative_arrPush, newCell]
  simp [Heap.alloc, pushHeap]

/-! ## (1c) a store into a fresh cell cannot change anything that existed before -/

/-- if `h` is `h0` plus allocations, and `h'` differs from `h` (on what existed in `h`) at most in
    the cell `c`, and `c` did not exist in `h0`, then `h'` is `h0` plus allocations -/
theorem HeapPreservedExcept.of_fresh {h0 h h' : Heap} {c : CellId} (p : HeapPreserved h0 h)
    (e : HeapPreservedExcept c h h') (hc : h0.cells.size ≤ c) : HeapPreserved h0 h' := by
  refine ⟨Nat.le_trans p.cells e.cells, Nat.le_trans p.arrs e.arrs, Nat.le_trans p.objs e.objs, ?_, ?_, ?_⟩
  · intro d hd
    rw [e.get d (Nat.ne_of_lt (Nat.lt_of_lt_of_le hd hc)) (Nat.lt_of_lt_of_le hd p.cells), p.get d hd]
  · intro a ha
    rw [e.arr a (Nat.lt_of_lt_of_le ha p.arrs), p.arr a ha]
  · intro o ho
    rw [e.obj o (Nat.lt_of_lt_of_le ho p.objs), p.obj o ho]

/-! ## (3) sharing -/

/-- arrays and objects: the values that are shared by reference -/
def Val.isContainer : Val → Bool
  | .arr _ | .obj _ => true
  | _ => false

theorem copyVal_container (v : Val) (h : v.isContainer = true) : copyVal v = .ok v := by
  cases v <;> simp [Val.isContainer] at h <;> rfl

/-- a plain assignment (target not a stand-in for a missing member) touches the target cell and
    nothing else, whichever way it ends -/
theorem evalAssignment_plain_local (pos : Nat) (y z : CellId) (s : St)
    (hy : (s.heap.get y).speculative = false) :
    (∀ c s', evalAssignment pos y z s = .ok c s' →
      c = y ∧ s'.heap.arrs = s.heap.arrs ∧ s'.heap.objs = s.heap.objs ∧
      (∀ d, d ≠ y → s'.heap.get d = s.heap.get d) ∧ s'.frames = s.frames) ∧
    (∀ e s', evalAssignment pos y z s = .err e s' → s'.heap = s.heap ∧ s'.frames = s.frames) ∧
    evalAssignment pos y z s ≠ .oof := by
  rw [evalAssignment_plain pos y z s hy]
  cases copyVal (s.heap.get z) with
  | ok w =>
    dsimp only
    refine ⟨?_, (fun e s' h => by cases h), (fun h => by cases h)⟩
    intro c s' h
    simp only [Res.ok.injEq] at h
    obtain ⟨rfl, rfl⟩ := h
    exact ⟨rfl, rfl, rfl, fun d hd => Heap.get_set_ne' _ _ _ _ hd, rfl⟩
  | error m =>
    dsimp only
    refine ⟨(fun c s' h => by cases h), ?_, (fun h => by cases h)⟩
    intro e s' h
    simp only [throwRt, Res.err.injEq] at h
    obtain ⟨_, rfl⟩ := h
    exact ⟨rfl, rfl⟩

/-! ## (1c, syntactic class) functions that assign only to their own parameters -/

/-- the target of an allowed assignment: a bare identifier (not `$`) naming a parameter -/
def isParamTarget (ps : List Bytes) : Expr → Bool
  | .ident t => !(t.tag == .dollar) && ps.contains t.text
  | _ => false

mutual
/-- `e.roP ps`: like `Expr.readOnly false` (no `++`/`--`, no call), except that assignments
    `p = e'` to a bare identifier `p ∈ ps` are allowed (also nested in operands, array items and
    the right-hand sides of such assignments; not inside object literals and `match` bodies,
    which must be read-only) -/
def Expr.roP (ps : List Bytes) : Expr → Bool
  | .lit _ => true
  | .ident _ => true
  | .arr _ items => roPEs ps items
  | .obj _ items => roKVs false items
  | .unary e op _ => !(op.tag == .plusPlus) && !(op.tag == .minusMinus) && Expr.roP ps e
  | .binary l r op =>
    (if op.tag == .equal then isParamTarget ps l else Expr.roP ps l) && Expr.roP ps r
  | .call _ _ => false
  | .match_ _ v cases => Expr.roP ps v && roCases false cases
def roPEs (ps : List Bytes) : List Expr → Bool
  | [] => true
  | e :: es => Expr.roP ps e && roPEs ps es
end

mutual
/-- statements over `Expr.roP` expressions; `for … in` is excluded as in `Stmt.readOnly` -/
def Stmt.roP (ps : List Bytes) : Stmt → Bool
  | .block _ body => roPSs ps body
  | .print _ args => roPEs ps args
  | .expr e => Expr.roP ps e
  | .ret none => true
  | .ret (some e) => Expr.roP ps e
  | .brk _ => true
  | .cont _ => true
  | .next _ => true
  | .exit _ => true
  | .if_ c b none => Expr.roP ps c && Stmt.roP ps b
  | .if_ c b (some e) => Expr.roP ps c && Stmt.roP ps b && Stmt.roP ps e
  | .while_ c b => Expr.roP ps c && Stmt.roP ps b
  | .for_ pre c post b => Expr.roP ps pre && Expr.roP ps c && Expr.roP ps post && Stmt.roP ps b
  | .forIn _ _ _ _ => false
def roPSs (ps : List Bytes) : List Stmt → Bool
  | [] => true
  | s :: ss => Stmt.roP ps s && roPSs ps ss
end

/-- what an evaluation in the class guarantees: the heap only grows; every cell below the mark
    `N` (the caller's cells), every array and every object is unchanged; a cell that does not
    stand for a missing member keeps that property; bindings and roots are preserved -/
structure RelP (N : Nat) (s s' : St) : Prop where
  cells : s.heap.cells.size ≤ s'.heap.cells.size
  arrs : s.heap.arrs.size ≤ s'.heap.arrs.size
  objs : s.heap.objs.size ≤ s'.heap.objs.size
  get : ∀ c, c < N → c < s.heap.cells.size → s'.heap.get c = s.heap.get c
  arr : ∀ a, a < s.heap.arrs.size → s'.heap.arr a = s.heap.arr a
  obj : ∀ o, o < s.heap.objs.size → s'.heap.obj o = s.heap.obj o
  nspec : ∀ c, c < s.heap.cells.size → (s.heap.get c).speculative = false →
    (s'.heap.get c).speculative = false
  frames : FramesPreserved s.frames s'.frames
  root : s'.root = s.root
  ruleRoot : s'.ruleRoot = s.ruleRoot

theorem RelP.refl (N : Nat) (s : St) : RelP N s s :=
  ⟨Nat.le_refl _, Nat.le_refl _, Nat.le_refl _, fun _ _ _ => rfl, fun _ _ => rfl, fun _ _ => rfl,
   fun _ _ h => h, fun _ _ h => h, rfl, rfl⟩

theorem RelP.trans {N : Nat} {a b c : St} (h1 : RelP N a b) (h2 : RelP N b c) : RelP N a c := by
  refine ⟨Nat.le_trans h1.cells h2.cells, Nat.le_trans h1.arrs h2.arrs, Nat.le_trans h1.objs h2.objs,
    ?_, ?_, ?_, ?_, fun n x hx => h2.frames n x (h1.frames n x hx), h2.root.trans h1.root,
    h2.ruleRoot.trans h1.ruleRoot⟩
  · intro x hN hx
    rw [h2.get x hN (Nat.lt_of_lt_of_le hx h1.cells), h1.get x hN hx]
  · intro x hx
    rw [h2.arr x (Nat.lt_of_lt_of_le hx h1.arrs), h1.arr x hx]
  · intro x hx
    rw [h2.obj x (Nat.lt_of_lt_of_le hx h1.objs), h1.obj x hx]
  · intro x hx hs
    exact h2.nspec x (Nat.lt_of_lt_of_le hx h1.cells) (h1.nspec x hx hs)

theorem RelP.of_rel {N : Nat} {s s' : St} (r : Rel true s s') : RelP N s s' :=
  ⟨r.heap.cells, r.heap.arrs, r.heap.objs, fun c _ hc => r.heap.get c hc, r.heap.arr, r.heap.obj,
   fun c hc hs => by rw [r.heap.get c hc]; exact hs, r.frames rfl, r.root, r.ruleRoot⟩

/-- the frame invariant: every parameter name is bound (dynamic lookup) to an allocated cell at
    or above the mark that does not stand for a missing member -/
def PInv (N : Nat) (ps : List Bytes) (s : St) : Prop :=
  ∀ p, p ∈ ps → ∃ c, lookupFrames s.frames p = some c ∧ N ≤ c ∧ c < s.heap.cells.size ∧
    (s.heap.get c).speculative = false

theorem PInv.step {N : Nat} {ps : List Bytes} {s s' : St} (h : PInv N ps s) (r : RelP N s s') :
    PInv N ps s' := by
  intro p hp
  obtain ⟨c, h1, h2, h3, h4⟩ := h p hp
  exact ⟨c, r.frames p c h1, h2, Nat.lt_of_lt_of_le h3 r.cells, r.nspec c h3 h4⟩

def QRP {α : Type} (N : Nat) (s : St) : Res α → Prop
  | .ok _ s' => RelP N s s'
  | .err _ s' => RelP N s s'
  | .oof => True

theorem QRP.trans {α : Type} {N : Nat} {s s1 : St} {r : Res α} (hg : RelP N s s1) (h : QRP N s1 r) :
    QRP N s r := by
  cases r with
  | ok a s' => exact hg.trans h
  | err e s' => exact hg.trans h
  | oof => trivial

def PresP {α : Type} (N : Nat) (ps : List Bytes) (m : EM α) : Prop :=
  ∀ s, PInv N ps s → QRP N s (m s)

theorem inv_false (h : Heap) : Inv false h := fun e => by cases e

namespace PresP

variable {N : Nat} {ps : List Bytes}

theorem of_pres {α : Type} {m : EM α} (h : Pres false true m) : PresP N ps m := by
  intro s _
  have hq := h s
  cases hr : m s with
  | ok a s' => rw [hr] at hq; exact RelP.of_rel (hq (inv_false _)).1
  | err e s' => rw [hr] at hq; exact RelP.of_rel (hq (inv_false _)).1
  | oof => trivial

theorem bind {α β : Type} {m : EM α} {f : α → EM β} (hm : PresP N ps m) (hf : ∀ a, PresP N ps (f a)) :
    PresP N ps (m >>= f) := by
  intro s hP
  show QRP N s (EM.bind m f s)
  unfold EM.bind
  have h := hm s hP
  cases hr : m s with
  | ok a s1 => rw [hr] at h; exact QRP.trans h (hf a s1 (hP.step h))
  | err e s1 => rw [hr] at h; exact h
  | oof => trivial

theorem loopIter {body kk : EM Unit} (hb : PresP N ps body) (hk : PresP N ps kk) :
    PresP N ps (Jqawk.loopIter body kk) := by
  intro s hP
  unfold Jqawk.loopIter
  have h := hb s hP
  cases hr : body s with
  | ok a s1 => rw [hr] at h; exact QRP.trans h (hk s1 (hP.step h))
  | err e s1 =>
    rw [hr] at h
    cases e with
    | sig g =>
      cases g with
      | brk => exact h
      | cont => exact QRP.trans h (hk s1 (hP.step h))
      | ret => exact h
      | next => exact h
      | exit => exact h
    | runtime p m => exact h
    | panic m => exact h
    | unmodelled m => exact h
  | oof => trivial

theorem catchReturn {body : EM Unit} (hb : PresP N ps body) : PresP N ps (Jqawk.catchReturn body) := by
  intro s hP
  unfold Jqawk.catchReturn
  have h := hb s hP
  cases hr : body s with
  | ok a s1 => rw [hr] at h; exact h
  | err e s1 =>
    rw [hr] at h
    cases e with
    | sig g => cases g <;> exact h
    | runtime p m => exact h
    | panic m => exact h
    | unmodelled m => exact h
  | oof => trivial

/-- **the allowed assignment** `p = e` for a parameter `p`: the identifier evaluates to the
    parameter's cell (at or above the mark), the right-hand side is evaluated (in the class), and
    the store writes that one cell with a copy -/
theorem assignParam (prog : Program) (n pos : Nat) (t : Token) {m : EM CellId}
    (ht : (t.tag == Tag.dollar) = false) (hp : t.text ∈ ps) (hm : PresP N ps m) :
    PresP N ps (evalExpr prog n (.ident t) >>= fun left => m >>= fun right =>
      evalAssignment pos left right) := by
  intro s hP
  cases n with
  | zero =>
    have h0 : evalExpr prog 0 (.ident t) s = .oof := by unfold evalExpr; rfl
    simp only [Bind.bind, EM.bind, h0]
    trivial
  | succ n =>
    obtain ⟨c, hl, hN, hlt, hns⟩ := hP t.text hp
    have h1 := evalExpr_ident_bound prog n t s c ht hl
    simp only [Bind.bind, EM.bind, h1]
    have h := hm s hP
    cases hr : m s with
    | oof => trivial
    | err e s2 => rw [hr] at h; exact h
    | ok right s2 =>
      rw [hr] at h
      dsimp only
      have hlt2 : c < s2.heap.cells.size := Nat.lt_of_lt_of_le hlt h.cells
      have hns2 : (s2.heap.get c).speculative = false := h.nspec c hlt hns
      rw [evalAssignment_plain pos c right s2 hns2]
      cases hcv : copyVal (s2.heap.get right) with
      | error msg =>
        refine QRP.trans h ?_
        exact ⟨Nat.le_refl _, Nat.le_refl _, Nat.le_refl _, fun _ _ _ => rfl, fun _ _ => rfl,
          fun _ _ => rfl, fun _ _ h => h, fun _ _ h => h, rfl, rfl⟩
      | ok w =>
        refine QRP.trans h ?_
        refine ⟨by rw [Heap.size_set]; exact Nat.le_refl _, Nat.le_refl _, Nat.le_refl _, ?_,
          fun _ _ => rfl, fun _ _ => rfl, ?_, fun _ _ h => h, rfl, rfl⟩
        · intro d hd _
          exact Heap.get_set_ne' _ _ _ _ (Nat.ne_of_lt (Nat.lt_of_lt_of_le hd hN))
        · intro d hd hs
          by_cases e : d = c
          · subst e
            show ((s2.heap.set d w).get d).speculative = false
            rw [Heap.get_set_same' _ _ _ hd]
            exact copyVal_not_speculative _ _ hcv
          · show ((s2.heap.set c w).get d).speculative = false
            rw [Heap.get_set_ne' _ _ _ _ e]; exact hs

end PresP

structure AllP (prog : Program) (N : Nat) (ps : List Bytes) (n : Nat) : Prop where
  expr : ∀ e, Expr.roP ps e = true → PresP N ps (evalExpr prog n e)
  exprList : ∀ es c, roPEs ps es = true → PresP N ps (evalExprList prog n es c)
  unary : ∀ e op p, (op.tag == Tag.plusPlus) = false → (op.tag == Tag.minusMinus) = false →
    Expr.roP ps e = true → PresP N ps (evalUnary prog n e op p)
  binary : ∀ l r op,
    ((if op.tag == Tag.equal then isParamTarget ps l else Expr.roP ps l) && Expr.roP ps r) = true →
    PresP N ps (evalBinary prog n l r op)
  stmt : ∀ st, Stmt.roP ps st = true → PresP N ps (evalStmt prog n st)
  block : ∀ sts, roPSs ps sts = true → PresP N ps (evalBlock prog n sts)
  whileL : ∀ c b, Expr.roP ps c = true → Stmt.roP ps b = true → PresP N ps (whileLoop prog n c b)
  forL : ∀ c p b, Expr.roP ps c = true → Expr.roP ps p = true → Stmt.roP ps b = true →
    PresP N ps (forLoop prog n c p b)

macro "presP_ih" ih:term : tactic => `(tactic| with_reducible_and_instances first
  | exact ($ih).expr _ (by assumption)
  | exact ($ih).exprList _ _ (by assumption)
  | exact ($ih).unary _ _ _ (by assumption) (by assumption) (by assumption)
  | exact ($ih).binary _ _ _ (by assumption)
  | exact ($ih).stmt _ (by assumption)
  | exact ($ih).block _ (by assumption)
  | exact ($ih).whileL _ _ (by assumption) (by assumption)
  | exact ($ih).forL _ _ _ (by assumption) (by assumption) (by assumption))

/-- decompose a goal `PresP N ps (…)`: induction hypotheses of the class, whole tails that are
    read-only in the sense of Lemmas/ReadOnly.lean (`all` = `allRO prog false … n`), binds -/
macro "presP_ind" ih:term "," all:term : tactic => `(tactic| repeat' (first
  | presP_ih $ih
  | (apply PresP.of_pres; pres_ind $all; done)
  | (with_reducible_and_instances first
      | apply PresP.loopIter
      | apply PresP.bind
      | intro _
      | split
      | dsimp only)))

theorem allP_zero (prog : Program) (N : Nat) (ps : List Bytes) : AllP prog N ps 0 := by
  constructor
  all_goals
    intros
    apply PresP.of_pres
    first
      | (unfold evalExpr; exact Pres.oof)
      | (unfold evalExprList; exact Pres.oof)
      | (unfold evalUnary; exact Pres.oof)
      | (unfold evalBinary; exact Pres.oof)
      | (unfold evalStmt; exact Pres.oof)
      | (unfold evalBlock; exact Pres.oof)
      | (unfold whileLoop; exact Pres.oof)
      | (unfold forLoop; exact Pres.oof)

theorem allP_succ (prog : Program) (N : Nat) (ps : List Bytes) (n : Nat)
    (ih : AllP prog N ps n) : AllP prog N ps (n + 1) := by
  have all := allRO prog false (fun h => by cases h) n
  have all' := allRO prog false (fun h => by cases h) (n + 1)
  constructor
  · -- evalExpr
    intro e he
    cases e with
    | lit t => exact PresP.of_pres (all'.expr true _ (readOnly_lit _ _))
    | ident t => exact PresP.of_pres (all'.expr true _ (readOnly_ident _ _))
    | obj t items =>
      simp only [Expr.roP] at he
      exact PresP.of_pres (all'.expr true _ (by simp only [Expr.readOnly]; exact he))
    | call f args => simp [Expr.roP] at he
    | arr t items =>
      simp only [Expr.roP] at he
      unfold evalExpr
      dsimp only
      presP_ind ih, all
    | unary e op p =>
      simp only [Expr.roP, Bool.and_eq_true, Bool.not_eq_true'] at he
      obtain ⟨⟨h1, h2⟩, h3⟩ := he
      unfold evalExpr
      dsimp only
      presP_ind ih, all
    | binary l r op =>
      simp only [Expr.roP] at he
      unfold evalExpr
      dsimp only
      presP_ind ih, all
    | match_ t v cases =>
      simp only [Expr.roP, Bool.and_eq_true] at he
      obtain ⟨h1, h2⟩ := he
      unfold evalExpr
      dsimp only
      presP_ind ih, all
  · -- evalExprList
    intro es c h
    cases es with
    | nil => unfold evalExprList; exact PresP.of_pres (Pres.pure _)
    | cons e rest =>
      simp only [roPEs, Bool.and_eq_true] at h
      obtain ⟨h1, h2⟩ := h
      unfold evalExprList
      presP_ind ih, all
  · -- evalUnary
    intro e op p h1 h2 h3
    unfold evalUnary
    refine PresP.bind (ih.expr e h3) (fun val => ?_)
    apply PresP.of_pres
    refine Pres.bind (Pres.readCell _) (fun v => ?_)
    split
    · pres_auto
    · pres_auto
    · pres_auto
    · rename_i heq; rw [heq] at h1; cases h1
    · rename_i heq; rw [heq] at h2; cases h2
    · pres_auto
  · -- evalBinary
    intro l r op h
    unfold evalBinary
    by_cases hop : op.tag = Tag.equal
    · -- an assignment: the target is a parameter
      simp only [hop, beq_self_eq_true, ↓reduceIte, Bool.and_eq_true] at h
      obtain ⟨hl, hr⟩ := h
      cases l with
      | ident t =>
        simp only [isParamTarget, Bool.and_eq_true, Bool.not_eq_true', List.contains_iff_mem] at hl
        simp only [hop]
        exact PresP.assignParam prog n _ t hl.1 hl.2 (ih.expr r hr)
      | _ => simp [isParamTarget] at hl
    · have hne : (op.tag == Tag.equal) = false := by simpa using hop
      simp only [hne, Bool.false_eq_true, ↓reduceIte, Bool.and_eq_true] at h
      obtain ⟨hl, hr⟩ := h
      refine PresP.bind (ih.expr l hl) (fun left => ?_)
      split
      · presP_ind ih, all
      · presP_ind ih, all
      · presP_ind ih, all
      · refine PresP.bind (ih.expr r hr) (fun right => ?_)
        apply PresP.of_pres
        split
        · pres_ind all
        · pres_ind all
        · rename_i heq; exact absurd heq hop
        · pres_ind all
  · -- evalStmt
    intro st h
    unfold evalStmt
    cases st with
    | block t body => simp only [Stmt.roP] at h; dsimp only; presP_ind ih, all
    | print t args => simp only [Stmt.roP] at h; dsimp only; presP_ind ih, all
    | expr e => simp only [Stmt.roP] at h; dsimp only; presP_ind ih, all
    | ret e =>
      cases e with
      | none => dsimp only; presP_ind ih, all
      | some e => simp only [Stmt.roP] at h; dsimp only; presP_ind ih, all
    | brk t => exact PresP.of_pres (Pres.throwSig _)
    | cont t => exact PresP.of_pres (Pres.throwSig _)
    | next t => exact PresP.of_pres (Pres.throwSig _)
    | exit t => exact PresP.of_pres (Pres.throwSig _)
    | if_ c b els =>
      cases els with
      | none =>
        simp only [Stmt.roP, Bool.and_eq_true] at h
        obtain ⟨h1, h2⟩ := h
        dsimp only; presP_ind ih, all
      | some eb =>
        simp only [Stmt.roP, Bool.and_eq_true] at h
        obtain ⟨⟨h1, h2⟩, h3⟩ := h
        dsimp only; presP_ind ih, all
    | while_ c b =>
      simp only [Stmt.roP, Bool.and_eq_true] at h
      obtain ⟨h1, h2⟩ := h
      dsimp only; presP_ind ih, all
    | for_ pre c post b =>
      simp only [Stmt.roP, Bool.and_eq_true] at h
      obtain ⟨⟨⟨h0, h1⟩, h2⟩, h3⟩ := h
      dsimp only; presP_ind ih, all
    | forIn id idx iter b => simp [Stmt.roP] at h
  · -- evalBlock
    intro sts h
    cases sts with
    | nil => unfold evalBlock; exact PresP.of_pres (Pres.pure _)
    | cons st rest =>
      simp only [roPSs, Bool.and_eq_true] at h
      obtain ⟨h1, h2⟩ := h
      unfold evalBlock; presP_ind ih, all
  · -- whileLoop
    intro c b hc hb
    unfold whileLoop
    presP_ind ih, all
  · -- forLoop
    intro c p b hc hp hb
    unfold forLoop
    presP_ind ih, all

theorem allP (prog : Program) (N : Nat) (ps : List Bytes) : ∀ n, AllP prog N ps n
  | 0 => allP_zero prog N ps
  | n + 1 => allP_succ prog N ps n (allP prog N ps n)

/-- `callFunction` on a user function below the depth limit: push a frame, bind the parameters
    to the values of the argument cells, run the body, wrap the result, restore the frames -/
theorem callFunction_fn_eq (prog : Program) (n pos : Nat) (fc : CellId) (argCells : List CellId)
    (s : St) (i : Nat) (f : FuncDef) (hv : s.heap.get fc = .fn i) (hf : prog.functions[i]? = some f)
    (hd : ¬ s.frames.length > callDepthLimit) :
    callFunction prog (n + 1) pos fc argCells s =
      withFrames s.frames (bindParams f.args (argCells.map s.heap.get) >>= fun _ =>
          catchReturn (evalStmt prog n f.body) >>= fun rv => newCell rv)
        { s with frames := ⟨f.ident.text, []⟩ :: s.frames,
                 maxDepth := max s.maxDepth (s.frames.length + 1) } := by
  unfold callFunction
  simp only [bind, EM.bind, readCell, getHeap, hv, hf, getSt, pushFrame, hd, ↓reduceIte]

theorem callFunction_fn_deep (prog : Program) (n pos : Nat) (fc : CellId) (argCells : List CellId)
    (s : St) (i : Nat) (f : FuncDef) (hv : s.heap.get fc = .fn i) (hf : prog.functions[i]? = some f)
    (hd : s.frames.length > callDepthLimit) :
    callFunction prog (n + 1) pos fc argCells s = throwRt pos "call depth limit exceeded" s := by
  unfold callFunction
  simp only [bind, EM.bind, readCell, getHeap, hv, hf, getSt, pushFrame, hd, ↓reduceIte]

theorem getD_not_speculative (args : List Val) (j : Nat)
    (h : ∀ a, a ∈ args → a.speculative = false) : (args.getD j (.nil none)).speculative = false := by
  rw [List.getD_eq_getElem?_getD]
  cases hj : args[j]? with
  | none => rfl
  | some a => exact h a (List.mem_of_getElem? hj)

/-- **a user function that assigns only to its own parameters cannot change anything of its
    caller**: if the body of `f` is in the class `Stmt.roP f.args` (read-only without calls,
    except for assignments `p = e` to a bare identifier `p` that is one of `f`'s parameters),
    then calling `f` — with argument cells whose values are not stand-ins for missing members,
    which holds for every argument list built by a call expression — leaves every cell, array
    and object that existed at the call unchanged, and every variable binding and root as they
    were, whichever way the call ends (the invariant `QR false true` of Lemmas/ReadOnly.lean). -/
theorem callFunction_paramOnly (prog : Program) (n pos : Nat) (fc : CellId) (argCells : List CellId)
    (s : St) (i : Nat) (f : FuncDef) (hv : s.heap.get fc = .fn i) (hf : prog.functions[i]? = some f)
    (hbody : Stmt.roP f.args f.body = true)
    (hargs : ∀ c, c ∈ argCells → (s.heap.get c).speculative = false) :
    QR false true s (callFunction prog (n + 1) pos fc argCells s) := by
  by_cases hd : s.frames.length > callDepthLimit
  · rw [callFunction_fn_deep prog n pos fc argCells s i f hv hf hd]
    exact Pres.throwRt pos _ s
  · rw [callFunction_fn_eq prog n pos fc argCells s i f hv hf hd]
    obtain ⟨s1, f', hb, hp01, hsz, harrs, hobjs, hvals, hfr, _, _, _, hmem, _, hroot, hrr, _⟩ :=
      bindParams_spec f.args (argCells.map s.heap.get)
        { s with frames := ⟨f.ident.text, []⟩ :: s.frames,
                 maxDepth := max s.maxDepth (s.frames.length + 1) } ⟨f.ident.text, []⟩ s.frames rfl
    have hPinv : PInv s.heap.cells.size f.args s1 := by
      intro p hp
      obtain ⟨j, hj, _, hl⟩ := hmem p hp
      refine ⟨s.heap.cells.size + j, ?_, Nat.le_add_right _ _, ?_, ?_⟩
      · rw [hfr]; simp only [lookupFrames, hl]
      · rw [hsz]; exact Nat.add_lt_add_left hj _
      · rw [hvals j hj]
        apply getD_not_speculative
        intro a ha
        obtain ⟨c, hc, rfl⟩ := List.mem_map.mp ha
        exact hargs c hc
    have hP : PresP s.heap.cells.size f.args
        (catchReturn (evalStmt prog n f.body) >>= fun rv => newCell rv) :=
      PresP.bind (PresP.catchReturn ((allP prog s.heap.cells.size f.args n).stmt f.body hbody))
        (fun rv => PresP.of_pres (Pres.newCell rv))
    have hq := hP s1 hPinv
    have fix : ∀ s2 : St, RelP s.heap.cells.size s1 s2 →
        Good false true s { s2 with frames := s.frames } := by
      intro s2 r _
      refine ⟨⟨⟨Nat.le_trans hp01.cells r.cells, Nat.le_trans hp01.arrs r.arrs,
        Nat.le_trans hp01.objs r.objs, ?_, ?_, ?_⟩, fun _ _ _ h => h, r.root.trans hroot,
        r.ruleRoot.trans hrr⟩, inv_false _⟩
      · intro c hc
        show s2.heap.get c = s.heap.get c
        rw [r.get c hc (Nat.lt_of_lt_of_le hc hp01.cells)]; exact hp01.get c hc
      · intro a ha
        show s2.heap.arr a = s.heap.arr a
        rw [r.arr a (Nat.lt_of_lt_of_le ha hp01.arrs)]; exact hp01.arr a ha
      · intro o ho
        show s2.heap.obj o = s.heap.obj o
        rw [r.obj o (Nat.lt_of_lt_of_le ho hp01.objs)]; exact hp01.obj o ho
    unfold withFrames
    have e : (bindParams f.args (argCells.map s.heap.get) >>= fun _ =>
          catchReturn (evalStmt prog n f.body) >>= fun rv => newCell rv)
        { s with frames := ⟨f.ident.text, []⟩ :: s.frames,
                 maxDepth := max s.maxDepth (s.frames.length + 1) } =
        (catchReturn (evalStmt prog n f.body) >>= fun rv => newCell rv) s1 := by
      show EM.bind _ _ _ = _
      unfold EM.bind
      rw [hb]
    rw [e]
    cases hr : (catchReturn (evalStmt prog n f.body) >>= fun rv => newCell rv) s1 with
    | ok a s2 => rw [hr] at hq; exact fix s2 hq
    | err er s2 => rw [hr] at hq; exact fix s2 hq
    | oof => trivial

end Jqawk
