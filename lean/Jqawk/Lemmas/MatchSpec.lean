/-
  C19: the evaluator's `match` is the specification `Spec/Match.lean`, fuel-free.

  * layer lemmas: `evalCaseMatch` vs `firstAlt`, `evalArrayCaseMatch` / `matchElems` vs the array
    clause of `patMatches` / `elemsMatch`, `evalMatchCases` vs `selectAndRun`, each in both
    directions of the order `⊑` ("out of fuel, or the same result and state");
  * `evalMatch_sound`: the evaluator at fuel `n + 1` is below the specification with the
    evaluator at any fuel `m ≥ n` as primitive;
  * `evalMatch_complete`: a result of the specification (primitives at fuel `m`) that is not
    "out of fuel" is the evaluator's result at every fuel `≥ m + matchFuel cases + 1`.
-/
import Jqawk.Spec.Match
import Jqawk.Lemmas.LoopsEval

set_option linter.unusedVariables false
set_option linter.unusedSimpArgs false

namespace Jqawk.MatchSpec
open Jqawk Jqawk.Spec

variable (prog : Program)

/-! ### small facts about `⊑` and the monad -/

theorem bind_option_eta {β : Type} (m : EM (Option β)) :
    (do match (← m) with
        | some b => pure (some b)
        | none => pure none) = m := by
  funext s
  simp only [bind, EM.bind, pure, EM.pure]
  cases m s with
  | ok a s1 => cases a <;> rfl
  | err e s1 => rfl
  | oof => rfl

theorem evalExpr_zero (e : Expr) : evalExpr prog 0 e = oof := by unfold evalExpr; rfl

/-- evaluating a literal does not depend on the fuel (as long as there is some) -/
theorem evalExpr_lit_fuel (k k' : Nat) (t : Token) :
    evalExpr prog (k + 1) (.lit t) = evalExpr prog (k' + 1) (.lit t) := by
  simp only [evalExpr]

theorem evalLit_le (m k : Nat) (t : Token) :
    EMLe (evalExpr prog m (.lit t)) (evalExpr prog (k + 1) (.lit t)) := by
  cases m with
  | zero => rw [evalExpr_zero]; exact EMLe.oofL _
  | succ m => rw [evalExpr_lit_fuel prog m k]; exact EMLe.refl _

/-! ### the specification, unfolded one step -/

theorem firstAlt_nil (ev : Expr → EM CellId) (c : CellId) : firstAlt ev c [] = pure none := rfl

theorem firstAlt_cons (ev : Expr → EM CellId) (c : CellId) (p : Expr) (rest : List Expr) :
    firstAlt ev c (p :: rest) = (do
      match (← patMatches ev p c) with
      | some b => pure (some b)
      | none => firstAlt ev c rest) := rfl

/-- a single alternative: the pattern itself -/
theorem firstAlt_singleton (ev : Expr → EM CellId) (c : CellId) (p : Expr) :
    firstAlt ev c [p] = patMatches ev p c := by
  funext s
  simp only [firstAlt, bind, EM.bind, pure, EM.pure]
  cases patMatches ev p c s with
  | ok a s1 => cases a <;> rfl
  | err e s1 => rfl
  | oof => rfl

theorem elemsMatch_cons (ev : Expr → EM CellId) (p : Expr) (ps : List Expr) (c : CellId)
    (cs : List CellId) (acc : Bindings) :
    elemsMatch ev (p :: ps) (c :: cs) acc = (do
      match (← patMatches ev p c) with
      | none => pure none
      | some nb => elemsMatch ev ps cs (mergeBindings acc nb)) := by
  rw [elemsMatch]; rfl

theorem elemsMatch_nil_left (ev : Expr → EM CellId) (cs : List CellId) (acc : Bindings) :
    elemsMatch ev [] cs acc = pure (some acc) := by
  rw [elemsMatch]; intros; contradiction

theorem elemsMatch_nil_right (ev : Expr → EM CellId) (ps : List Expr) (acc : Bindings) :
    elemsMatch ev ps [] acc = pure (some acc) := by
  rw [elemsMatch]; intros; contradiction

theorem patMatches_lit (ev : Expr → EM CellId) (t : Token) (c : CellId) :
    patMatches ev (.lit t) c = (do
      let lc ← ev (.lit t)
      match litMatches (← readCell c) (← readCell lc) with
      | .error m => throwRt t.pos m
      | .ok true => pure (some [])
      | .ok false => pure none) := by
  rw [patMatches]; rfl

theorem patMatches_ident (ev : Expr → EM CellId) (t : Token) (c : CellId) :
    patMatches ev (.ident t) c = pure (some [(t.text, c)]) := by
  rw [patMatches]

theorem patMatches_arr (ev : Expr → EM CellId) (t : Token) (items : List Expr) (c : CellId) :
    patMatches ev (.arr t items) c = (do
      match (← readCell c) with
      | .arr a =>
        let cells := ((← getHeap).arr a).toList
        if cells.length != items.length then pure none
        else elemsMatch ev items cells []
      | _ => pure none) := by
  rw [patMatches]; rfl

/-- every other pattern form: the runtime error, at the pattern's token -/
theorem patMatches_unsupported (ev : Expr → EM CellId) (p : Expr) (c : CellId)
    (h1 : ∀ t, p ≠ .lit t) (h2 : ∀ t, p ≠ .ident t) (h3 : ∀ t items, p ≠ .arr t items) :
    patMatches ev p c = throwRt p.token.pos "not supported in match expressions" := by
  rw [patMatches]
  · intro t h; exact h1 t h
  · intro t h; exact h2 t h
  · intro t items h; exact h3 t items h

theorem firstMatch_nil (ev : Expr → EM CellId) (c : CellId) : firstMatch ev c [] = pure none := rfl

theorem firstMatch_cons (ev : Expr → EM CellId) (c : CellId) (pats : List Expr) (body : Stmt)
    (rest : List MatchCase) :
    firstMatch ev c (.mk pats body :: rest) = (do
      match (← firstAlt ev c pats) with
      | some b => pure (some (body, b))
      | none => firstMatch ev c rest) := rfl

theorem selectAndRun_nil (evE : Expr → EM CellId) (evS : Stmt → EM Unit) (pos : Nat) (c : CellId) :
    selectAndRun evE evS pos c [] = newCell (.nil none) := rfl

/-- the case loop of the specification: try the alternatives of the first case; if one matches
    run this case's body, otherwise go on with the remaining cases -/
theorem selectAndRun_cons (evE : Expr → EM CellId) (evS : Stmt → EM Unit) (pos : Nat) (c : CellId)
    (pats : List Expr) (body : Stmt) (rest : List MatchCase) :
    selectAndRun evE evS pos c (.mk pats body :: rest) = (do
      match (← firstAlt evE c pats) with
      | some b => runCase evE evS pos body b
      | none => selectAndRun evE evS pos c rest) := by
  funext s
  simp only [selectAndRun, firstMatch_cons, bind, EM.bind, pure, EM.pure]
  cases firstAlt evE c pats s with
  | ok a s1 => cases a <;> rfl
  | err e s1 => rfl
  | oof => rfl

/-! ### the evaluator, unfolded one step: one alternative -/

/-- one pattern at fuel `k`, as `evalCaseMatch` inlines it -/
def patAt (k : Nat) (p : Expr) (c : CellId) : EM (Option Bindings) :=
  match p with
  | .arr _ items => evalArrayCaseMatch prog k c items
  | p => patMatches (evalExpr prog k) p c

theorem evalCaseMatch_nil (k : Nat) (c : CellId) : evalCaseMatch prog (k + 1) c [] = pure none := by
  rw [evalCaseMatch]

theorem evalCaseMatch_cons (k : Nat) (c : CellId) (p : Expr) (rest : List Expr) :
    evalCaseMatch prog (k + 1) c (p :: rest) = (do
      match (← patAt prog k p c) with
      | some b => pure (some b)
      | none => evalCaseMatch prog k c rest) := by
  cases p with
  | lit t =>
    funext s
    simp only [evalCaseMatch, patAt, patMatches_lit, litMatches, bind, EM.bind, pure, EM.pure,
      readCell, Expr.token]
    cases evalExpr prog k (.lit t) s with
    | ok lc s1 =>
      dsimp only
      by_cases hu : (s1.heap.get c).kind == Kind.unknown
      · simp only [hu, ↓reduceIte]; rfl
      · simp only [hu, Bool.false_eq_true, ↓reduceIte]
        cases (s1.heap.get c).compare (s1.heap.get lc) with
        | error m => rfl
        | ok x =>
          dsimp only
          by_cases hx : x == 0
          · simp only [hx, ↓reduceIte]; rfl
          · simp only [hx, Bool.false_eq_true, ↓reduceIte]; rfl
    | err e s1 => rfl
    | oof => rfl
  | ident t =>
    funext s
    simp only [evalCaseMatch, patAt, patMatches_ident, bind, EM.bind, pure, EM.pure]
  | arr t items =>
    funext s
    simp only [evalCaseMatch, patAt, bind, EM.bind, pure, EM.pure]
    cases evalArrayCaseMatch prog k c items s with
    | ok a s1 => cases a <;> rfl
    | err e s1 => rfl
    | oof => rfl
  | obj t items =>
    funext s
    simp only [evalCaseMatch, patAt, bind, EM.bind, pure, EM.pure]
    rw [patMatches_unsupported _ _ _ (by simp) (by simp) (by simp)]; rfl
  | unary e op b =>
    funext s
    simp only [evalCaseMatch, patAt, bind, EM.bind, pure, EM.pure]
    rw [patMatches_unsupported _ _ _ (by simp) (by simp) (by simp)]; rfl
  | binary l r op =>
    funext s
    simp only [evalCaseMatch, patAt, bind, EM.bind, pure, EM.pure]
    rw [patMatches_unsupported _ _ _ (by simp) (by simp) (by simp)]; rfl
  | call f args =>
    funext s
    simp only [evalCaseMatch, patAt, bind, EM.bind, pure, EM.pure]
    rw [patMatches_unsupported _ _ _ (by simp) (by simp) (by simp)]; rfl
  | match_ t v cs =>
    funext s
    simp only [evalCaseMatch, patAt, bind, EM.bind, pure, EM.pure]
    rw [patMatches_unsupported _ _ _ (by simp) (by simp) (by simp)]; rfl

theorem evalArrayCaseMatch_succ (k : Nat) (c : CellId) (items : List Expr) :
    evalArrayCaseMatch prog (k + 1) c items = (do
      match (← readCell c) with
      | .arr a =>
        let cells := ((← getHeap).arr a).toList
        if cells.length != items.length then pure none
        else matchElems prog k cells items []
      | _ => pure none) := by
  rw [evalArrayCaseMatch]; rfl

theorem matchElems_cons (k : Nat) (c : CellId) (cs : List CellId) (p : Expr) (ps : List Expr)
    (acc : Bindings) :
    matchElems prog (k + 1) (c :: cs) (p :: ps) acc = (do
      match (← evalCaseMatch prog k c [p]) with
      | none => pure none
      | some nb => matchElems prog k cs ps (mergeBindings acc nb)) := by
  rw [matchElems]; rfl

theorem matchElems_nil_left (k : Nat) (ps : List Expr) (acc : Bindings) :
    matchElems prog (k + 1) [] ps acc = pure (some acc) := by
  rw [matchElems]

theorem matchElems_nil_right (k : Nat) (cs : List CellId) (acc : Bindings) :
    matchElems prog (k + 1) cs [] acc = pure (some acc) := by
  cases cs <;> rw [matchElems]

theorem evalCaseMatch_zero (c : CellId) (ps : List Expr) : evalCaseMatch prog 0 c ps = oof := by
  unfold evalCaseMatch; rfl
theorem evalArrayCaseMatch_zero (c : CellId) (ps : List Expr) :
    evalArrayCaseMatch prog 0 c ps = oof := by
  unfold evalArrayCaseMatch; rfl
theorem matchElems_zero (cs : List CellId) (ps : List Expr) (acc : Bindings) :
    matchElems prog 0 cs ps acc = oof := by
  unfold matchElems; rfl
theorem evalMatchCases_zero (pos : Nat) (c : CellId) (cs : List MatchCase) :
    evalMatchCases prog 0 pos c cs = oof := by
  unfold evalMatchCases; rfl

/-! ### soundness of the pattern layers: evaluator ⊑ specification -/

/-- the three pattern functions of the evaluator at fuel `k` are below the matcher with the
    evaluator at fuel `m` as literal evaluator -/
structure PatSound (m k : Nat) : Prop where
  alts : ∀ c pats, EMLe (evalCaseMatch prog k c pats) (firstAlt (evalExpr prog m) c pats)
  arr : ∀ c t items, EMLe (evalArrayCaseMatch prog k c items)
    (patMatches (evalExpr prog m) (.arr t items) c)
  elems : ∀ cs ps acc, EMLe (matchElems prog k cs ps acc) (elemsMatch (evalExpr prog m) ps cs acc)

theorem patAt_sound (m k : Nat) (hk : k ≤ m) (ih : PatSound prog m k) (p : Expr) (c : CellId) :
    EMLe (patAt prog k p c) (patMatches (evalExpr prog m) p c) := by
  cases p with
  | lit t =>
    simp only [patAt, patMatches_lit]
    exact EMLe.bind (evalExpr_le prog _ hk) (fun _ => EMLe.refl _)
  | arr t items => exact ih.arr c t items
  | ident t => simp only [patAt, patMatches_ident]; exact EMLe.refl _
  | obj t items =>
    simp only [patAt]
    rw [patMatches_unsupported _ _ _ (by simp) (by simp) (by simp),
      patMatches_unsupported _ _ _ (by simp) (by simp) (by simp)]
    exact EMLe.refl _
  | unary e op b =>
    simp only [patAt]
    rw [patMatches_unsupported _ _ _ (by simp) (by simp) (by simp),
      patMatches_unsupported _ _ _ (by simp) (by simp) (by simp)]
    exact EMLe.refl _
  | binary l r op =>
    simp only [patAt]
    rw [patMatches_unsupported _ _ _ (by simp) (by simp) (by simp),
      patMatches_unsupported _ _ _ (by simp) (by simp) (by simp)]
    exact EMLe.refl _
  | call f args =>
    simp only [patAt]
    rw [patMatches_unsupported _ _ _ (by simp) (by simp) (by simp),
      patMatches_unsupported _ _ _ (by simp) (by simp) (by simp)]
    exact EMLe.refl _
  | match_ t v cs =>
    simp only [patAt]
    rw [patMatches_unsupported _ _ _ (by simp) (by simp) (by simp),
      patMatches_unsupported _ _ _ (by simp) (by simp) (by simp)]
    exact EMLe.refl _

theorem patSound (m : Nat) : ∀ k, k ≤ m → PatSound prog m k
  | 0, _ => by
    constructor <;> intros
    · rw [evalCaseMatch_zero]; exact EMLe.oofL _
    · rw [evalArrayCaseMatch_zero]; exact EMLe.oofL _
    · rw [matchElems_zero]; exact EMLe.oofL _
  | k + 1, hk => by
    have ih := patSound m k (by omega)
    constructor
    · intro c pats
      cases pats with
      | nil => rw [evalCaseMatch_nil, firstAlt_nil]; exact EMLe.refl _
      | cons p rest =>
        rw [evalCaseMatch_cons, firstAlt_cons]
        refine EMLe.bind (patAt_sound prog m k (by omega) ih p c) (fun r => ?_)
        cases r with
        | none => exact ih.alts c rest
        | some b => exact EMLe.refl _
    · intro c t items
      rw [evalArrayCaseMatch_succ, patMatches_arr]
      refine EMLe.bind (EMLe.refl _) (fun v => ?_)
      cases v <;> try exact EMLe.refl _
      refine EMLe.bind (EMLe.refl _) (fun h => ?_)
      dsimp only
      split
      · exact EMLe.refl _
      · exact ih.elems _ _ _
    · intro cs ps acc
      cases cs with
      | nil => rw [matchElems_nil_left, elemsMatch_nil_right]; exact EMLe.refl _
      | cons c cs =>
        cases ps with
        | nil => rw [matchElems_nil_right, elemsMatch_nil_left]; exact EMLe.refl _
        | cons p ps =>
          rw [matchElems_cons, elemsMatch_cons]
          refine EMLe.bind ?_ (fun r => ?_)
          · rw [← firstAlt_singleton]; exact ih.alts c [p]
          · cases r with
            | none => exact EMLe.refl _
            | some nb => exact ih.elems _ _ _

/-- **alternatives, soundness**: `evalCaseMatch` at fuel `k` ⊑ `firstAlt` (literals at fuel `m ≥ k`) -/
theorem evalCaseMatch_le_spec {k m : Nat} (hk : k ≤ m) (c : CellId) (pats : List Expr) :
    EMLe (evalCaseMatch prog k c pats) (firstAlt (evalExpr prog m) c pats) :=
  (patSound prog m k hk).alts c pats

/-- **array patterns, soundness** -/
theorem evalArrayCaseMatch_le_spec {k m : Nat} (hk : k ≤ m) (c : CellId) (t : Token)
    (items : List Expr) :
    EMLe (evalArrayCaseMatch prog k c items) (patMatches (evalExpr prog m) (.arr t items) c) :=
  (patSound prog m k hk).arr c t items

theorem matchElems_le_spec {k m : Nat} (hk : k ≤ m) (cs : List CellId) (ps : List Expr)
    (acc : Bindings) :
    EMLe (matchElems prog k cs ps acc) (elemsMatch (evalExpr prog m) ps cs acc) :=
  (patSound prog m k hk).elems cs ps acc

/-! ### completeness of the pattern layers: specification ⊑ evaluator at sufficient fuel -/

mutual
/-- fuel that suffices to match against a pattern (its size, roughly) -/
def patFuel : Expr → Nat
  | .arr _ items => elemsFuel items + 2
  | _ => 1
def elemsFuel : List Expr → Nat
  | [] => 1
  | p :: ps => patFuel p + elemsFuel ps + 2
end

/-- fuel that suffices for the alternatives of one case -/
def altsFuel : List Expr → Nat
  | [] => 1
  | p :: ps => patFuel p + altsFuel ps + 1

/-- fuel that suffices to select among the cases: their number plus the sizes of all patterns
    (the bodies come on top: `evalMatch_complete`) -/
def matchFuel : List MatchCase → Nat
  | [] => 1
  | .mk pats _ :: rest => altsFuel pats + matchFuel rest + 1

theorem patFuel_pos (p : Expr) : 1 ≤ patFuel p := by cases p <;> simp [patFuel]
theorem elemsFuel_pos (ps : List Expr) : 1 ≤ elemsFuel ps := by cases ps <;> simp [elemsFuel]
theorem altsFuel_pos (ps : List Expr) : 1 ≤ altsFuel ps := by cases ps <;> simp [altsFuel]
theorem matchFuel_pos (cs : List MatchCase) : 1 ≤ matchFuel cs := by
  cases cs with
  | nil => simp [matchFuel]
  | cons c cs => cases c; simp [matchFuel]

structure PatComplete (m k : Nat) : Prop where
  alts : ∀ c pats, altsFuel pats ≤ k →
    EMLe (firstAlt (evalExpr prog m) c pats) (evalCaseMatch prog k c pats)
  arr : ∀ c t items, elemsFuel items + 1 ≤ k →
    EMLe (patMatches (evalExpr prog m) (.arr t items) c) (evalArrayCaseMatch prog k c items)
  elems : ∀ cs ps acc, elemsFuel ps ≤ k →
    EMLe (elemsMatch (evalExpr prog m) ps cs acc) (matchElems prog k cs ps acc)

theorem patAt_complete (m k : Nat) (ih : PatComplete prog m k) (p : Expr) (c : CellId)
    (hk : patFuel p ≤ k) :
    EMLe (patMatches (evalExpr prog m) p c) (patAt prog k p c) := by
  cases p with
  | lit t =>
    obtain ⟨k', rfl⟩ : ∃ k', k = k' + 1 := ⟨k - 1, by simp [patFuel] at hk; omega⟩
    simp only [patAt, patMatches_lit]
    exact EMLe.bind (evalLit_le prog m k' t) (fun _ => EMLe.refl _)
  | arr t items => exact ih.arr c t items (by simp only [patFuel] at hk; omega)
  | ident t => simp only [patAt, patMatches_ident]; exact EMLe.refl _
  | obj t items =>
    simp only [patAt]
    rw [patMatches_unsupported _ _ _ (by simp) (by simp) (by simp),
      patMatches_unsupported _ _ _ (by simp) (by simp) (by simp)]
    exact EMLe.refl _
  | unary e op b =>
    simp only [patAt]
    rw [patMatches_unsupported _ _ _ (by simp) (by simp) (by simp),
      patMatches_unsupported _ _ _ (by simp) (by simp) (by simp)]
    exact EMLe.refl _
  | binary l r op =>
    simp only [patAt]
    rw [patMatches_unsupported _ _ _ (by simp) (by simp) (by simp),
      patMatches_unsupported _ _ _ (by simp) (by simp) (by simp)]
    exact EMLe.refl _
  | call f args =>
    simp only [patAt]
    rw [patMatches_unsupported _ _ _ (by simp) (by simp) (by simp),
      patMatches_unsupported _ _ _ (by simp) (by simp) (by simp)]
    exact EMLe.refl _
  | match_ t v cs =>
    simp only [patAt]
    rw [patMatches_unsupported _ _ _ (by simp) (by simp) (by simp),
      patMatches_unsupported _ _ _ (by simp) (by simp) (by simp)]
    exact EMLe.refl _

theorem patComplete (m : Nat) : ∀ k, PatComplete prog m k
  | 0 => by
    constructor
    · intro c pats h; have := altsFuel_pos pats; omega
    · intro c t items h; omega
    · intro cs ps acc h; have := elemsFuel_pos ps; omega
  | k + 1 => by
    have ih := patComplete m k
    constructor
    · intro c pats h
      cases pats with
      | nil => rw [evalCaseMatch_nil, firstAlt_nil]; exact EMLe.refl _
      | cons p rest =>
        simp only [altsFuel] at h
        have h1 := altsFuel_pos rest
        have h2 := patFuel_pos p
        rw [evalCaseMatch_cons, firstAlt_cons]
        refine EMLe.bind (patAt_complete prog m k ih p c (by omega)) (fun r => ?_)
        cases r with
        | none => exact ih.alts c rest (by omega)
        | some b => exact EMLe.refl _
    · intro c t items h
      rw [evalArrayCaseMatch_succ, patMatches_arr]
      refine EMLe.bind (EMLe.refl _) (fun v => ?_)
      cases v <;> try exact EMLe.refl _
      refine EMLe.bind (EMLe.refl _) (fun hp => ?_)
      dsimp only
      split
      · exact EMLe.refl _
      · exact ih.elems _ _ _ (by omega)
    · intro cs ps acc h
      cases cs with
      | nil => rw [matchElems_nil_left, elemsMatch_nil_right]; exact EMLe.refl _
      | cons c cs =>
        cases ps with
        | nil => rw [matchElems_nil_right, elemsMatch_nil_left]; exact EMLe.refl _
        | cons p ps =>
          simp only [elemsFuel] at h
          have h1 := elemsFuel_pos ps
          have h2 := patFuel_pos p
          rw [matchElems_cons, elemsMatch_cons]
          refine EMLe.bind ?_ (fun r => ?_)
          · rw [← firstAlt_singleton]
            exact ih.alts c [p] (by simp only [altsFuel]; omega)
          · cases r with
            | none => exact EMLe.refl _
            | some nb => exact ih.elems _ _ _ (by omega)

/-- **alternatives, completeness**: `firstAlt` (literals at any fuel `m`) ⊑ `evalCaseMatch` at
    every fuel `k ≥ altsFuel pats` -/
theorem spec_le_evalCaseMatch (m : Nat) {k : Nat} (c : CellId) (pats : List Expr)
    (hk : altsFuel pats ≤ k) :
    EMLe (firstAlt (evalExpr prog m) c pats) (evalCaseMatch prog k c pats) :=
  (patComplete prog m k).alts c pats hk

theorem spec_le_evalArrayCaseMatch (m : Nat) {k : Nat} (c : CellId) (t : Token) (items : List Expr)
    (hk : elemsFuel items + 1 ≤ k) :
    EMLe (patMatches (evalExpr prog m) (.arr t items) c) (evalArrayCaseMatch prog k c items) :=
  (patComplete prog m k).arr c t items hk

theorem spec_le_matchElems (m : Nat) {k : Nat} (cs : List CellId) (ps : List Expr) (acc : Bindings)
    (hk : elemsFuel ps ≤ k) :
    EMLe (elemsMatch (evalExpr prog m) ps cs acc) (matchElems prog k cs ps acc) :=
  (patComplete prog m k).elems cs ps acc hk

/-! ### the case loop -/

theorem evalMatchCases_nil (k pos : Nat) (c : CellId) :
    evalMatchCases prog (k + 1) pos c [] = newCell (.nil none) := by
  rw [evalMatchCases]

/-- one step of the evaluator's case loop, with the body part named: `runCase` -/
theorem evalMatchCases_cons (k pos : Nat) (c : CellId) (pats : List Expr) (body : Stmt)
    (rest : List MatchCase) :
    evalMatchCases prog (k + 1) pos c (.mk pats body :: rest) = (do
      match (← evalCaseMatch prog k c pats) with
      | some b => runCase (evalExpr prog k) (evalStmt prog k) pos body b
      | none => evalMatchCases prog k pos c rest) := by
  funext s
  cases body <;>
  · rw [evalMatchCases]
    · simp only [bind, EM.bind]
      cases evalCaseMatch prog k c pats s with
      | ok a s1 => cases a <;> rfl
      | err e s1 => rfl
      | oof => rfl
    all_goals (intro be hbe; cases hbe)

/-- the body of a case is monotone in how expressions and statements run -/
theorem runCase_mono {evE evE' : Expr → EM CellId} {evS evS' : Stmt → EM Unit}
    (hE : ∀ e, EMLe (evE e) (evE' e)) (hS : ∀ st, EMLe (evS st) (evS' st)) (pos : Nat) (body : Stmt)
    (b : Bindings) : EMLe (runCase evE evS pos body b) (runCase evE' evS' pos body b) := by
  unfold runCase
  refine EMLe.bind (EMLe.refl _) (fun s0 => EMLe.bind (EMLe.refl _) (fun r => ?_))
  cases r with
  | error msg => exact EMLe.refl _
  | ok u =>
    refine EMLe.withFrames _ (EMLe.bind (EMLe.refl _) (fun _ => ?_))
    cases body <;> first
      | exact hE _
      | exact EMLe.bind (hS _) (fun _ => EMLe.refl _)

/-- **the case loop, soundness**: `evalMatchCases` at fuel `k` ⊑ `selectAndRun` with the evaluator
    at any fuel `m ≥ k` as primitive -/
theorem evalMatchCases_le_spec {m : Nat} (pos : Nat) (c : CellId) :
    ∀ (k : Nat) (cases : List MatchCase), k ≤ m →
      EMLe (evalMatchCases prog k pos c cases)
        (selectAndRun (evalExpr prog m) (evalStmt prog m) pos c cases)
  | 0, cases, _ => by rw [evalMatchCases_zero]; exact EMLe.oofL _
  | k + 1, [], _ => by rw [evalMatchCases_nil, selectAndRun_nil]; exact EMLe.refl _
  | k + 1, .mk pats body :: rest, hk => by
    rw [evalMatchCases_cons, selectAndRun_cons]
    refine EMLe.bind (evalCaseMatch_le_spec prog (by omega) c pats) (fun r => ?_)
    cases r with
    | none => exact evalMatchCases_le_spec pos c k rest (by omega)
    | some b =>
      exact runCase_mono (fun e => evalExpr_le prog e (by omega))
        (fun st => evalStmt_le prog st (by omega)) pos body b

/-- **the case loop, completeness**: `selectAndRun` with primitives at fuel `m` ⊑ `evalMatchCases`
    at every fuel `k ≥ m + matchFuel cases` -/
theorem spec_le_evalMatchCases (m pos : Nat) (c : CellId) :
    ∀ (cases : List MatchCase) (k : Nat), m + matchFuel cases ≤ k →
      EMLe (selectAndRun (evalExpr prog m) (evalStmt prog m) pos c cases)
        (evalMatchCases prog k pos c cases)
  | [], k, hk => by
    obtain ⟨k', rfl⟩ : ∃ k', k = k' + 1 := ⟨k - 1, by simp only [matchFuel] at hk; omega⟩
    rw [evalMatchCases_nil, selectAndRun_nil]; exact EMLe.refl _
  | .mk pats body :: rest, k, hk => by
    simp only [matchFuel] at hk
    obtain ⟨k', rfl⟩ : ∃ k', k = k' + 1 := ⟨k - 1, by omega⟩
    have h1 := matchFuel_pos rest
    have h2 := altsFuel_pos pats
    rw [evalMatchCases_cons, selectAndRun_cons]
    refine EMLe.bind (spec_le_evalCaseMatch prog m c pats (by omega)) (fun r => ?_)
    cases r with
    | none => exact spec_le_evalMatchCases m pos c rest k' (by omega)
    | some b =>
      exact runCase_mono (fun e => evalExpr_le prog e (by omega))
        (fun st => evalStmt_le prog st (by omega)) pos body b

/-! ### the whole expression -/

theorem evalExpr_match (n : Nat) (t : Token) (v : Expr) (cases : List MatchCase) :
    evalExpr prog (n + 1) (.match_ t v cases) = (do
      let c ← evalExpr prog n v
      evalMatchCases prog n t.pos c cases) := by
  rw [evalExpr]

/-- **Soundness (exact)**: whenever the evaluator does not run out of fuel on a `match`
    expression, its result — value, error or signal, and final state — is the specification's,
    with the evaluator at any fuel `m ≥ n` as primitive. -/
theorem evalMatch_sound {n m : Nat} (h : n ≤ m) (t : Token) (v : Expr) (cases : List MatchCase) :
    EMLe (evalExpr prog (n + 1) (.match_ t v cases))
      (matchSpec (evalExpr prog m) (evalStmt prog m) t v cases) := by
  rw [evalExpr_match]
  unfold matchSpec
  exact EMLe.bind (evalExpr_le prog v h) (fun c => evalMatchCases_le_spec prog t.pos c n cases h)

/-- the equation form -/
theorem evalMatch_sound_eq {n m : Nat} (h : n ≤ m) (t : Token) (v : Expr) (cases : List MatchCase)
    (s : St) (r : Res CellId) (he : evalExpr prog (n + 1) (.match_ t v cases) s = r)
    (hr : r ≠ .oof) : matchSpec (evalExpr prog m) (evalStmt prog m) t v cases s = r := by
  rw [(evalMatch_sound prog h t v cases).eq_of_ne_oof (by rw [he]; exact hr), he]

/-- the specification with primitives at fuel `m` ⊑ the evaluator at every sufficient fuel -/
theorem spec_le_evalMatch (m : Nat) (t : Token) (v : Expr) (cases : List MatchCase) {N : Nat}
    (hN : m + matchFuel cases + 1 ≤ N) :
    EMLe (matchSpec (evalExpr prog m) (evalStmt prog m) t v cases)
      (evalExpr prog N (.match_ t v cases)) := by
  obtain ⟨n, rfl⟩ : ∃ n, N = n + 1 := ⟨N - 1, by omega⟩
  rw [evalExpr_match]
  unfold matchSpec
  exact EMLe.bind (evalExpr_le prog v (by omega))
    (fun c => spec_le_evalMatchCases prog m t.pos c cases n (by omega))

/-- **Completeness**: a result of the specification (evaluator at fuel `m` as primitive) that
    is not "out of fuel" is the evaluator's result at every fuel
    `N ≥ m + matchFuel cases + 1` (number of cases + sizes of the patterns). -/
theorem evalMatch_complete (m : Nat) (t : Token) (v : Expr) (cases : List MatchCase) (s : St)
    (r : Res CellId) (h : matchSpec (evalExpr prog m) (evalStmt prog m) t v cases s = r)
    (hr : r ≠ .oof) {N : Nat} (hN : m + matchFuel cases + 1 ≤ N) :
    evalExpr prog N (.match_ t v cases) s = r := by
  rw [(spec_le_evalMatch prog m t v cases hN).eq_of_ne_oof (by rw [h]; exact hr), h]

/-! ### the specification is monotone in its primitives -/

theorem patMatches_mono_aux {ev ev' : Expr → EM CellId} (h : ∀ t, EMLe (ev (.lit t)) (ev' (.lit t))) :
    ∀ k, (∀ p c, patFuel p ≤ k → EMLe (patMatches ev p c) (patMatches ev' p c)) ∧
      (∀ ps cs acc, elemsFuel ps ≤ k → EMLe (elemsMatch ev ps cs acc) (elemsMatch ev' ps cs acc))
  | 0 => ⟨fun p c hk => by have := patFuel_pos p; omega,
          fun ps cs acc hk => by have := elemsFuel_pos ps; omega⟩
  | k + 1 => by
    obtain ⟨ihp, ihe⟩ := patMatches_mono_aux h k
    constructor
    · intro p c hk
      cases p with
      | lit t =>
        simp only [patMatches_lit]
        exact EMLe.bind (h t) (fun _ => EMLe.refl _)
      | ident t => simp only [patMatches_ident]; exact EMLe.refl _
      | arr t items =>
        simp only [patFuel] at hk
        rw [patMatches_arr, patMatches_arr]
        refine EMLe.bind (EMLe.refl _) (fun v => ?_)
        cases v <;> try exact EMLe.refl _
        refine EMLe.bind (EMLe.refl _) (fun hp => ?_)
        dsimp only
        split
        · exact EMLe.refl _
        · exact ihe _ _ _ (by omega)
      | obj t items =>
        rw [patMatches_unsupported _ _ _ (by simp) (by simp) (by simp),
          patMatches_unsupported _ _ _ (by simp) (by simp) (by simp)]
        exact EMLe.refl _
      | unary e op b =>
        rw [patMatches_unsupported _ _ _ (by simp) (by simp) (by simp),
          patMatches_unsupported _ _ _ (by simp) (by simp) (by simp)]
        exact EMLe.refl _
      | binary l r op =>
        rw [patMatches_unsupported _ _ _ (by simp) (by simp) (by simp),
          patMatches_unsupported _ _ _ (by simp) (by simp) (by simp)]
        exact EMLe.refl _
      | call f args =>
        rw [patMatches_unsupported _ _ _ (by simp) (by simp) (by simp),
          patMatches_unsupported _ _ _ (by simp) (by simp) (by simp)]
        exact EMLe.refl _
      | match_ t v cs =>
        rw [patMatches_unsupported _ _ _ (by simp) (by simp) (by simp),
          patMatches_unsupported _ _ _ (by simp) (by simp) (by simp)]
        exact EMLe.refl _
    · intro ps cs acc hk
      cases ps with
      | nil => rw [elemsMatch_nil_left, elemsMatch_nil_left]; exact EMLe.refl _
      | cons p ps =>
        cases cs with
        | nil => rw [elemsMatch_nil_right, elemsMatch_nil_right]; exact EMLe.refl _
        | cons c cs =>
          simp only [elemsFuel] at hk
          rw [elemsMatch_cons, elemsMatch_cons]
          refine EMLe.bind (ihp p c (by omega)) (fun r => ?_)
          cases r with
          | none => exact EMLe.refl _
          | some nb => exact ihe _ _ _ (by omega)

theorem patMatches_mono {ev ev' : Expr → EM CellId} (h : ∀ t, EMLe (ev (.lit t)) (ev' (.lit t)))
    (p : Expr) (c : CellId) : EMLe (patMatches ev p c) (patMatches ev' p c) :=
  (patMatches_mono_aux h (patFuel p)).1 p c (Nat.le_refl _)

theorem firstAlt_mono {ev ev' : Expr → EM CellId} (h : ∀ t, EMLe (ev (.lit t)) (ev' (.lit t)))
    (c : CellId) : ∀ pats, EMLe (firstAlt ev c pats) (firstAlt ev' c pats)
  | [] => EMLe.refl _
  | p :: rest => by
    rw [firstAlt_cons, firstAlt_cons]
    refine EMLe.bind (patMatches_mono h p c) (fun r => ?_)
    cases r with
    | none => exact firstAlt_mono h c rest
    | some b => exact EMLe.refl _

theorem selectAndRun_mono {evE evE' : Expr → EM CellId} {evS evS' : Stmt → EM Unit}
    (hE : ∀ e, EMLe (evE e) (evE' e)) (hS : ∀ st, EMLe (evS st) (evS' st)) (pos : Nat) (c : CellId) :
    ∀ cases, EMLe (selectAndRun evE evS pos c cases) (selectAndRun evE' evS' pos c cases)
  | [] => EMLe.refl _
  | .mk pats body :: rest => by
    rw [selectAndRun_cons, selectAndRun_cons]
    refine EMLe.bind (firstAlt_mono (fun t => hE _) c pats) (fun r => ?_)
    cases r with
    | none => exact selectAndRun_mono hE hS pos c rest
    | some b => exact runCase_mono hE hS pos body b

/-- the specification is monotone in its primitives -/
theorem matchSpec_mono {evE evE' : Expr → EM CellId} {evS evS' : Stmt → EM Unit}
    (hE : ∀ e, EMLe (evE e) (evE' e)) (hS : ∀ st, EMLe (evS st) (evS' st)) (t : Token) (v : Expr)
    (cases : List MatchCase) : EMLe (matchSpec evE evS t v cases) (matchSpec evE' evS' t v cases) := by
  unfold matchSpec
  exact EMLe.bind (hE v) (fun c => selectAndRun_mono hE hS t.pos c cases)

/-- hence the specification does not depend on the fuel of its primitives either -/
theorem matchSpec_fuel_irrelevant {m m' : Nat} (hm : m ≤ m') (t : Token) (v : Expr)
    (cases : List MatchCase) :
    EMLe (matchSpec (evalExpr prog m) (evalStmt prog m) t v cases)
      (matchSpec (evalExpr prog m') (evalStmt prog m') t v cases) :=
  matchSpec_mono (fun e => evalExpr_le prog e hm) (fun st => evalStmt_le prog st hm) t v cases

/-! ### order: what precedes decides -/

/-- the alternatives `pre ++ post`: `post` is consulted only if no alternative of `pre` matches
    (and none faults) -/
theorem firstAlt_append (ev : Expr → EM CellId) (c : CellId) (pre post : List Expr) (s : St) :
    firstAlt ev c (pre ++ post) s =
      (match firstAlt ev c pre s with
       | .ok none s1 => firstAlt ev c post s1
       | .ok (some b) s1 => .ok (some b) s1
       | .err e s1 => .err e s1
       | .oof => .oof) := by
  induction pre generalizing s with
  | nil => rfl
  | cons p pre ih =>
    simp only [List.cons_append, firstAlt_cons, bind, EM.bind]
    cases patMatches ev p c s with
    | ok a s1 =>
      cases a with
      | none => exact ih s1
      | some b => rfl
    | err e s1 => rfl
    | oof => rfl

/-- the cases `pre ++ post`: `post` is consulted only if no case of `pre` is selected -/
theorem firstMatch_append (ev : Expr → EM CellId) (c : CellId) (pre post : List MatchCase) (s : St) :
    firstMatch ev c (pre ++ post) s =
      (match firstMatch ev c pre s with
       | .ok none s1 => firstMatch ev c post s1
       | .ok (some sel) s1 => .ok (some sel) s1
       | .err e s1 => .err e s1
       | .oof => .oof) := by
  induction pre generalizing s with
  | nil => rfl
  | cons cs pre ih =>
    obtain ⟨pats, body⟩ := cs
    simp only [List.cons_append, firstMatch_cons, bind, EM.bind]
    cases firstAlt ev c pats s with
    | ok a s1 =>
      cases a with
      | none => exact ih s1
      | some b => rfl
    | err e s1 => rfl
    | oof => rfl

theorem selectAndRun_apply (evE : Expr → EM CellId) (evS : Stmt → EM Unit) (pos : Nat) (c : CellId)
    (cases : List MatchCase) (s : St) :
    selectAndRun evE evS pos c cases s =
      (match firstMatch evE c cases s with
       | .ok none s1 => newCell (.nil none) s1
       | .ok (some sel) s1 => runCase evE evS pos sel.1 sel.2 s1
       | .err e s1 => .err e s1
       | .oof => .oof) := by
  simp only [selectAndRun, bind, EM.bind]
  cases firstMatch evE c cases s with
  | ok a s1 =>
    cases a with
    | none => rfl
    | some sel => rfl
  | err e s1 => rfl
  | oof => rfl

theorem selectAndRun_append (evE : Expr → EM CellId) (evS : Stmt → EM Unit) (pos : Nat) (c : CellId)
    (pre post : List MatchCase) (s : St) :
    selectAndRun evE evS pos c (pre ++ post) s =
      (match firstMatch evE c pre s with
       | .ok none s1 => selectAndRun evE evS pos c post s1
       | .ok (some sel) s1 => runCase evE evS pos sel.1 sel.2 s1
       | .err e s1 => .err e s1
       | .oof => .oof) := by
  rw [selectAndRun_apply, firstMatch_append]
  cases firstMatch evE c pre s with
  | ok a s1 =>
    cases a with
    | none => exact (selectAndRun_apply evE evS pos c post s1).symm
    | some sel => rfl
  | err e s1 => rfl
  | oof => rfl

/-! ### the body frame -/

/-- `runCase`, unfolded on a state below the depth limit -/
theorem runCase_apply (evE : Expr → EM CellId) (evS : Stmt → EM Unit) (pos : Nat) (body : Stmt)
    (b : Bindings) (s : St) (hd : s.frames.length ≤ callDepthLimit) :
    runCase evE evS pos body b s =
      withFrames s.frames (do
        bindAll b
        match body with
        | .expr be => evE be
        | _ => do evS body; newCell (.nil none))
        { s with frames := ⟨b!"<match>", []⟩ :: s.frames,
                 maxDepth := max s.maxDepth (s.frames.length + 1) } := by
  have hd' : ¬ s.frames.length > callDepthLimit := by omega
  simp only [runCase, bind, EM.bind, getSt, pushFrame, hd', ↓reduceIte]
  rfl

/-- … and at the depth limit: the runtime error, at the position of `match` -/
theorem runCase_too_deep (evE : Expr → EM CellId) (evS : Stmt → EM Unit) (pos : Nat) (body : Stmt)
    (b : Bindings) (s : St) (hd : s.frames.length > callDepthLimit) :
    runCase evE evS pos body b s = throwRt pos "call depth limit exceeded" s := by
  simp only [runCase, bind, EM.bind, getSt, pushFrame, hd, ↓reduceIte]

/-- the state in which an evaluation ended (none: out of fuel) -/
def endState {α : Type} : Res α → Option St
  | .ok _ s => some s
  | .err _ s => some s
  | .oof => none

theorem withFrames_frames {α : Type} (saved : List Frame) (m : EM α) (s0 s' : St)
    (h : endState (withFrames saved m s0) = some s') : s'.frames = saved := by
  unfold withFrames at h
  cases hm : m s0 <;> rw [hm] at h <;> simp [endState] at h <;> subst h <;> rfl

/-- however the body of the selected case ends, the frame stack afterwards is EXACTLY the one
    before: the frame holding the bindings is gone -/
theorem runCase_frames (evE : Expr → EM CellId) (evS : Stmt → EM Unit) (pos : Nat) (body : Stmt)
    (b : Bindings) (s s' : St) (h : endState (runCase evE evS pos body b s) = some s') :
    s'.frames = s.frames := by
  by_cases hd : s.frames.length > callDepthLimit
  · rw [runCase_too_deep _ _ _ _ _ _ hd] at h
    simp [throwRt, endState] at h
    subst h; rfl
  · rw [runCase_apply _ _ _ _ _ _ (by omega)] at h
    exact withFrames_frames _ _ _ _ h

/-- binding all bindings stores them, in order, in the innermost frame -/
theorem bindAll_eq (b : Bindings) (s : St) (f : Frame) (fs : List Frame) (hf : s.frames = f :: fs) :
    bindAll b s = .ok () { s with frames := { f with locals := mergeBindings f.locals b } :: fs } := by
  induction b generalizing s f with
  | nil =>
    simp only [bindAll, mergeBindings, List.foldl_nil, pure, EM.pure]
    rw [← hf]
  | cons kv rest ih =>
    obtain ⟨k, c⟩ := kv
    simp only [bindAll, bind, EM.bind, setLocal, hf]
    rw [ih _ { f with locals := objInsert f.locals k c } rfl]
    rfl

/-- the state in which the body of the selected case starts: a frame `<match>` whose locals
    are exactly the bindings, on top of the unchanged stack -/
theorem runCase_body_state (evE : Expr → EM CellId) (evS : Stmt → EM Unit) (pos : Nat) (body : Stmt)
    (b : Bindings) (s : St) (hd : s.frames.length ≤ callDepthLimit) :
    runCase evE evS pos body b s =
      withFrames s.frames
        (match body with
         | .expr be => evE be
         | _ => do evS body; newCell (.nil none))
        { s with frames := ⟨b!"<match>", mergeBindings [] b⟩ :: s.frames,
                 maxDepth := max s.maxDepth (s.frames.length + 1) } := by
  rw [runCase_apply evE evS pos body b s hd]
  simp only [withFrames, bind, EM.bind]
  rw [bindAll_eq b _ ⟨b!"<match>", []⟩ s.frames rfl]

end Jqawk.MatchSpec
