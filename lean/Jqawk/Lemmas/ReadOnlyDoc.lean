/-
  Read-only evaluation and the rendered document (C09): if the heap is preserved in the sense
  of `HeapPreserved`, the JSON rendering of every value whose document lies in the old heap is
  unchanged.
-/
import Jqawk.Lemmas.ReadOnly
import Jqawk.Lemmas.Reach
import Jqawk.Lemmas.NewValue

set_option linter.unusedVariables false

namespace Jqawk

/-- the document rooted at `v0` lies in the heap: every array / object in it is allocated and so
    is every cell they refer to (no dangling ids; implied by any reasonable well-formedness of
    the heap, true for everything loaded from JSON: `newValueJson_docAllocated`) -/
structure DocAllocated (h : Heap) (v0 : Val) : Prop where
  arr : ∀ a, RootReach h v0 (.arr a) → a < h.arrs.size ∧ ∀ c ∈ (h.arr a).toList, c < h.cells.size
  obj : ∀ o, RootReach h v0 (.obj o) → o < h.objs.size ∧ ∀ kv ∈ h.obj o, kv.2 < h.cells.size

theorem mem_sortByKey {l : List (Bytes × CellId)} {kv : Bytes × CellId} (h : kv ∈ sortByKey l) : kv ∈ l := by
  rw [sortByKey_eq_sortK] at h
  exact (sortK_perm l).mem_iff.mp h

theorem toJVal_preserved {h h' : Heap} (p : HeapPreserved h h') {v0 : Val} (hs : DocAllocated h v0) :
    ∀ (n : Nat) (path : List Cont) (check : Bool) (v : Val), RootReach h v0 v →
      toJVal h' n path check v = toJVal h n path check v := by
  intro n
  induction n with
  | zero => intro path check v _; rfl
  | succ n ih =>
    intro path check v hr
    by_cases hon : (check && onPath path v) = true
    · rw [toJVal.eq_def, toJVal.eq_def h]; simp [hon]
    · have hon' : (check && onPath path v) = false := by simpa using hon
      cases v with
      | arr a =>
        have hp : (check && path.contains (.a a)) = false := by simpa [onPath_arr] using hon'
        rw [toJVal_arr_unfold h' n path check a hp, toJVal_arr_unfold h n path check a hp,
          p.arr a (hs.arr a hr).1]
        congr 2
        apply List.map_congr_left
        intro c hc
        have hch : RootReach h v0 (h.get c) := hr.child rfl (Child.arr a c hc)
        rw [p.get c ((hs.arr a hr).2 c hc)]
        exact ih _ _ _ hch
      | obj o =>
        have hp : (check && path.contains (.o o)) = false := by simpa [onPath_obj] using hon'
        rw [toJVal_obj_unfold h' n path check o hp, toJVal_obj_unfold h n path check o hp,
          p.obj o (hs.obj o hr).1]
        congr 2
        apply List.map_congr_left
        intro kv hkv
        have hmem := mem_sortByKey hkv
        have hch : RootReach h v0 (h.get kv.2) := hr.child rfl (Child.obj o kv hmem)
        rw [p.get kv.2 ((hs.obj o hr).2 kv hmem)]
        rw [ih _ _ _ hch]
      | _ => rw [toJVal.eq_def, toJVal.eq_def h]

/-- the JSON form (`ToGoValue`, what `json()` and the output use) of such a value is the same
    in the new heap -/
theorem toJValTop_preserved {h h' : Heap} (p : HeapPreserved h h') {v : Val} (hs : DocAllocated h v) :
    toJValTop h' v = toJValTop h v := by
  unfold toJValTop
  have hne : toJVal h (renderFuel h) [] false v ≠ .oof :=
    toJVal_ne_oof_gen h _ [] false v (PathOk.nil h) (Or.inr (by cases v <;> rfl))
      (by simp [renderFuel, Heap.nconts])
  have e1 := toJVal_preserved p hs (renderFuel h) [] false v (Or.inl rfl)
  have hle : renderFuel h ≤ renderFuel h' := by
    have := p.arrs; have := p.objs
    simp only [renderFuel]; omega
  rw [toJVal_fuel_mono h' (renderFuel h) (renderFuel h') hle [] false v (by rw [e1]; exact hne), e1]

/-- … in particular for the value of an allocated cell, which itself is unchanged -/
theorem toJValTop_cell_preserved {h h' : Heap} (p : HeapPreserved h h') (c : CellId)
    (hc : c < h.cells.size) (hs : DocAllocated h (h.get c)) :
    h'.get c = h.get c ∧ toJValTop h' (h'.get c) = toJValTop h (h.get c) := by
  have e : h'.get c = h.get c := p.get c hc
  exact ⟨e, by rw [e]; exact toJValTop_preserved p hs⟩

/-- a set of values closed under "element / member of" that contains `v0` contains the whole
    document of `v0` -/
theorem rootReach_closed (h : Heap) (v0 : Val) (S : Val → Prop) (h0 : S v0)
    (hstep : ∀ v d w, S v → v.cont? = some d → Child h d w → S w) :
    ∀ v, RootReach h v0 v → S v := by
  have hreach : ∀ c d, Reach h c d → (∃ v, S v ∧ v.cont? = some c) → ∃ v, S v ∧ v.cont? = some d := by
    intro c d r
    induction r with
    | step hv hd =>
      rintro ⟨u, hu, hc⟩
      exact ⟨_, hstep u _ _ hu hc hv, hd⟩
    | trans _ _ ih1 ih2 => intro hc; exact ih2 (ih1 hc)
  intro v hv
  rcases hv with rfl | ⟨d, hd, hr⟩
  · exact h0
  · rcases hr with hc | ⟨e, hre, hc⟩
    · exact hstep v0 d v h0 hd hc
    · obtain ⟨u, hu, hue⟩ := hreach d e hre ⟨v0, h0, hd⟩
      exact hstep u e v hu hue hc

theorem DocAllocated.of_closed (h : Heap) (v0 : Val) (S : Val → Prop) (h0 : S v0)
    (hstep : ∀ v d w, S v → v.cont? = some d → Child h d w → S w)
    (harr : ∀ a, S (.arr a) → a < h.arrs.size ∧ ∀ c ∈ (h.arr a).toList, c < h.cells.size)
    (hobj : ∀ o, S (.obj o) → o < h.objs.size ∧ ∀ kv ∈ h.obj o, kv.2 < h.cells.size) :
    DocAllocated h v0 :=
  ⟨fun a hv => harr a (rootReach_closed h v0 S h0 hstep _ hv),
   fun o hv => hobj o (rootReach_closed h v0 S h0 hstep _ hv)⟩

/-- a tree-shaped copy of a JSON value (what `newValueJson` builds) lies in the heap -/
theorem ReprB.docAllocated {h : Heap} {na no : Nat} {v : Val} {j : JVal} (r : ReprB h na no v j) :
    DocAllocated h v := by
  apply DocAllocated.of_closed h v (fun v => ∃ na no j, ReprB h na no v j) ⟨na, no, j, r⟩
  · rintro v d w ⟨na, no, j, hv⟩ hd hw
    cases hv with
    | null | bool | str | num => cases hd
    | arr na no a Z hna ha harr hlt hrec =>
      cases hd
      cases hw with
      | arr a c hc =>
        rw [harr] at hc
        simp only [List.mem_map] at hc
        obtain ⟨z, hz, rfl⟩ := hc
        exact ⟨_, _, _, hrec z hz⟩
    | obj na no o Z hno ho hobj hlt hrec =>
      cases hd
      cases hw with
      | obj o kv hkv =>
        rw [hobj] at hkv
        simp only [List.mem_map] at hkv
        obtain ⟨z, hz, rfl⟩ := hkv
        exact ⟨_, _, _, hrec z hz⟩
  · rintro a ⟨na, no, j, hv⟩
    cases hv with
    | arr na no a Z hna ha harr hlt hrec =>
      refine ⟨ha, ?_⟩
      intro c hc
      rw [harr] at hc
      simp only [List.mem_map] at hc
      obtain ⟨z, hz, rfl⟩ := hc
      exact hlt z hz
  · rintro o ⟨na, no, j, hv⟩
    cases hv with
    | obj na no o Z hno ho hobj hlt hrec =>
      refine ⟨ho, ?_⟩
      intro kv hkv
      rw [hobj] at hkv
      simp only [List.mem_map] at hkv
      obtain ⟨z, hz, rfl⟩ := hkv
      exact hlt z hz

/-- every document loaded from (plain) JSON lies in the heap -/
theorem newValueJson_docAllocated (j : JVal) (hj : j.Plain) (s s' : St) (v : Val)
    (e : newValueJson j s = .ok v s') : DocAllocated s'.heap v :=
  (newValueJson_spec j s v s' hj e).2.docAllocated

end Jqawk
