/-
  Provenance of positions at the level of the rule driver and of a whole run (C12): every
  runtime error a run reports carries the offset of a token of the parsed program (reported with
  the program text), or of a token of a parsed selector expression (reported with that selector's
  text); every syntax error a run reports is a syntax error of the program text or of a selector.
-/
import Jqawk.Lemmas.ProvenanceEval
import Jqawk.Lemmas.ProvenanceParser

set_option linter.unusedVariables false

namespace Jqawk

theorem RuleOK.body_false {G : Nat → Prop} {r : Rule} (h : RuleOK G false r) :
    TokOK G (r.body.tokens false) := by
  rcases h.2 with h | h
  · exact h
  · rw [h]; simp [Stmt.tokens, tokensEs]

theorem ProgOK.fnTok {G : Nat → Prop} {prog : Program} (h : ProgOK G false prog) : prog.FnTok G :=
  fun f hf => (h.2 f hf).2

/-- the tokens the evaluator can blame carry offsets in `G` -/
theorem ProgOK.blame {G : Nat → Prop} {prog : Program} (h : ProgOK G false prog) :
    TokOK G prog.blameTokens := by
  intro t ht
  simp only [Program.blameTokens, List.mem_append, List.mem_flatMap] at ht
  rcases ht with ⟨r, hr, ht⟩ | ⟨f, hf, ht⟩
  · have hr' := h.1 r hr
    simp only [Rule.tokens, List.mem_append] at ht
    rcases ht with ht | ht
    · cases hp : r.pattern with
      | none => rw [hp] at ht; cases ht
      | some e => rw [hp] at ht; exact hr'.1 e hp t ht
    · exact hr'.body_false t ht
  · have hf' := h.2 f hf
    simp only [FuncDef.tokens, List.mem_cons] at ht
    rcases ht with rfl | ht
    · exact hf'.1
    · exact hf'.2 t ht

/-- every token of the program is the zero token or carries an offset in `G` -/
theorem ProgOK.all {G : Nat → Prop} {prog : Program} (h : ProgOK G true prog) :
    ∀ t ∈ prog.tokens, t = Token.zero ∨ G t.pos := by
  intro t ht
  simp only [Program.tokens, List.mem_append, List.mem_flatMap] at ht
  rcases ht with ⟨r, hr, ht⟩ | ⟨f, hf, ht⟩
  · have hr' := h.1 r hr
    simp only [Rule.tokens, List.mem_append] at ht
    rcases ht with ht | ht
    · cases hp : r.pattern with
      | none => rw [hp] at ht; cases ht
      | some e => rw [hp] at ht; exact .inr (hr'.1 e hp t ht)
    · rcases hr'.2 with hb | hb
      · exact .inr (hb t ht)
      · rw [hb] at ht
        simp [Stmt.tokens, tokensEs, kwTok] at ht
        exact .inl ht
  · have hf' := h.2 f hf
    simp only [FuncDef.tokens, List.mem_cons] at ht
    rcases ht with rfl | ht
    · exact .inr hf'.1
    · exact .inr (hf'.2 t ht)

/-- conversely: the tokens of a program satisfy the predicate "is the offset of one of them" -/
theorem progOK_self (prog : Program) :
    ProgOK (fun p => ∃ t ∈ prog.blameTokens, t.pos = p) false prog := by
  refine ⟨fun r hr => ⟨fun e he t ht => ⟨t, ?_, rfl⟩, .inl fun t ht => ⟨t, ?_, rfl⟩⟩,
    fun f hf => ⟨⟨f.ident, ?_, rfl⟩, fun t ht => ⟨t, ?_, rfl⟩⟩⟩
  · simp only [Program.blameTokens, List.mem_append, List.mem_flatMap]
    exact .inl ⟨r, hr, by simp [Rule.tokens, he, ht]⟩
  · simp only [Program.blameTokens, List.mem_append, List.mem_flatMap]
    exact .inl ⟨r, hr, by simp [Rule.tokens, ht]⟩
  · simp only [Program.blameTokens, List.mem_append, List.mem_flatMap]
    exact .inr ⟨f, hf, by simp [FuncDef.tokens]⟩
  · simp only [Program.blameTokens, List.mem_append, List.mem_flatMap]
    exact .inr ⟨f, hf, by simp [FuncDef.tokens, ht]⟩

theorem ProgOK.mono {G G' : Nat → Prop} {kw : Bool} {prog : Program} (h : ProgOK G kw prog)
    (hg : ∀ p, G p → G' p) : ProgOK G' kw prog :=
  ⟨fun r hr => ⟨fun e he => (h.1 r hr).1 e he |>.mono hg,
      (h.1 r hr).2.imp (fun hb => hb.mono hg) id⟩,
   fun f hf => ⟨hg _ (h.2 f hf).1, (h.2 f hf).2.mono hg⟩⟩

namespace RtPos
variable {G : Nat → Prop}

theorem ruleFlow {m : EM Unit} (h : RtPos G m) : RtPos G (Jqawk.ruleFlow m) := by
  intro s pos msg s' he
  unfold Jqawk.ruleFlow at he
  cases hr : m s with
  | ok a s1 => rw [hr] at he; cases he
  | err e s1 =>
    rw [hr] at he
    cases e with
    | sig g' => cases g' <;> cases he
    | runtime p m' =>
      simp only [Res.err.injEq, Err.runtime.injEq] at he
      exact he.1.1 ▸ h s p m' s1 (by rw [hr])
    | panic m => cases he
    | unmodelled m => cases he
  | oof => rw [hr] at he; cases he

theorem catchExit {m : EM Unit} (h : RtPos G m) : RtPos G (Jqawk.catchExit m) := by
  intro s pos msg s' he
  unfold Jqawk.catchExit at he
  cases hr : m s with
  | ok a s1 => rw [hr] at he; cases he
  | err e s1 =>
    rw [hr] at he
    cases e with
    | sig g' => cases g' <;> cases he
    | runtime p m' =>
      simp only [Res.err.injEq, Err.runtime.injEq] at he
      exact he.1.1 ▸ h s p m' s1 (by rw [hr])
    | panic m => cases he
    | unmodelled m => cases he
  | oof => rw [hr] at he; cases he

variable (prog : Program) (hp : ProgOK G false prog)
include hp

theorem evalRules (rules : List Rule) (hsub : ∀ r ∈ rules, r ∈ prog.rules) :
    RtPos G (Jqawk.evalRules prog rules) := by
  induction rules with
  | nil => exact RtPos.pure ()
  | cons rule rest ih =>
    have hrest : ∀ r ∈ rest, r ∈ prog.rules := fun r hr => hsub r (List.mem_cons_of_mem _ hr)
    have hrule := hp.1 rule (hsub rule (List.mem_cons_self ..))
    have hall := allRt G prog hp.fnTok evalFuel
    unfold Jqawk.evalRules
    refine RtPos.bind ?_ (fun r => ?_)
    · split
      · exact RtPos.pure _
      · rename_i p hpat
        exact RtPos.catchSig _ _ (RtPos.bind (hall.expr _ (hrule.1 p hpat))
          (fun c => RtPos.bind (RtPos.readCell _) (fun v => RtPos.pure _)))
    · split
      · exact RtPos.pure _
      · split
        · exact ih hrest
        · refine RtPos.bind (RtPos.catchSig _ _ (RtPos.bind (hall.stmt _ hrule.body_false)
            (fun _ => RtPos.pure _))) (fun more => ?_)
          split
          · exact ih hrest
          · exact RtPos.pure _

theorem evalElems (rules : List Rule) (hsub : ∀ r ∈ rules, r ∈ prog.rules) (items : List CellId)
    (i : Nat) : RtPos G (Jqawk.evalElems prog rules items i) := by
  induction items generalizing i with
  | nil => exact RtPos.pure ()
  | cons item rest ih =>
    unfold Jqawk.evalElems
    exact RtPos.bind (RtPos.modifySt _) (fun _ => RtPos.bind (RtPos.newCell _) (fun ic =>
      RtPos.bind (RtPos.setLocal _ _) (fun _ =>
        RtPos.bind (RtPos.evalRules prog hp rules hsub) (fun _ => ih (i + 1)))))

theorem evalPatternRules (rules : List Rule) (hsub : ∀ r ∈ rules, r ∈ prog.rules) :
    RtPos G (Jqawk.evalPatternRules prog rules) := by
  unfold Jqawk.evalPatternRules
  refine RtPos.bind RtPos.getSt (fun s => ?_)
  split
  · exact RtPos.pure _
  · split
    · exact RtPos.evalElems prog hp rules hsub _ _
    · exact RtPos.bind (RtPos.modifySt _) (fun _ => RtPos.evalRules prog hp rules hsub)

theorem evalSpecialRules (mkRoot : EM CellId) (hmk : RtPos G mkRoot) (rules : List Rule)
    (hsub : ∀ r ∈ rules, r ∈ prog.rules) :
    RtPos G (Jqawk.evalSpecialRules prog mkRoot rules) := by
  induction rules with
  | nil => exact RtPos.pure _
  | cons rule rest ih =>
    have hrest : ∀ r ∈ rest, r ∈ prog.rules := fun r hr => hsub r (List.mem_cons_of_mem _ hr)
    have hrule := hp.1 rule (hsub rule (List.mem_cons_self ..))
    have hall := allRt G prog hp.fnTok evalFuel
    unfold Jqawk.evalSpecialRules
    refine RtPos.bind hmk (fun c => RtPos.bind (RtPos.modifySt _) (fun _ =>
      RtPos.bind (RtPos.ruleFlow (hall.stmt _ hrule.body_false)) (fun fl => ?_)))
    split
    · exact RtPos.pure _
    · exact ih hrest

omit hp in
theorem rulesOf_sub (k : RuleKind) : ∀ r ∈ rulesOf prog k, r ∈ prog.rules := by
  intro r hr
  unfold rulesOf at hr
  exact (List.mem_filter.mp hr).1

theorem processRoot (c : CellId) : RtPos G (Jqawk.processRoot prog c) := by
  unfold Jqawk.processRoot
  refine RtPos.bind (RtPos.readCell _) (fun rv => RtPos.bind
    (RtPos.evalSpecialRules prog hp _ (RtPos.pure _) _ (rulesOf_sub prog _)) (fun fl => ?_))
  split
  · exact RtPos.pure _
  · refine RtPos.bind (RtPos.modifySt _) (fun _ => RtPos.bind
      (RtPos.catchExit (RtPos.evalPatternRules prog hp _ (rulesOf_sub prog _))) (fun fl2 => ?_))
    split
    · exact RtPos.pure _
    · exact RtPos.evalSpecialRules prog hp _ (RtPos.newCell _) _ (rulesOf_sub prog _)

theorem processRoots (cs : List CellId) : RtPos G (Jqawk.processRoots prog cs) := by
  induction cs with
  | nil => exact RtPos.pure _
  | cons c rest ih =>
    unfold Jqawk.processRoots
    refine RtPos.bind (RtPos.processRoot prog hp c) (fun fl => ?_)
    split
    · exact RtPos.pure _
    · exact ih

end RtPos

mutual
theorem RtPos.newValueJson {G : Nat → Prop} : ∀ j, RtPos G (Jqawk.newValueJson j)
  | .null => by unfold Jqawk.newValueJson; exact RtPos.pure _
  | .bool b => by unfold Jqawk.newValueJson; exact RtPos.pure _
  | .num lit => by unfold Jqawk.newValueJson; exact RtPos.pure _
  | .str s => by unfold Jqawk.newValueJson; exact RtPos.pure _
  | .arr items => by
    unfold Jqawk.newValueJson
    exact RtPos.bind (RtPos.newValueItems items) (fun cells => RtPos.bind (RtPos.allocArrM _)
      (fun _ => RtPos.pure _))
  | .obj members => by
    unfold Jqawk.newValueJson
    exact RtPos.bind (RtPos.newValueMembers members) (fun cells => RtPos.bind (RtPos.allocObjM _)
      (fun _ => RtPos.pure _))
theorem RtPos.newValueItems {G : Nat → Prop} : ∀ js, RtPos G (Jqawk.newValueItems js)
  | [] => by unfold Jqawk.newValueItems; exact RtPos.pure _
  | j :: js => by
    unfold Jqawk.newValueItems
    exact RtPos.bind (RtPos.newValueJson j) (fun v => RtPos.bind (RtPos.newCell v)
      (fun c => RtPos.bind (RtPos.newValueItems js) (fun cs => RtPos.pure _)))
theorem RtPos.newValueMembers {G : Nat → Prop} : ∀ ms, RtPos G (Jqawk.newValueMembers ms)
  | [] => by unfold Jqawk.newValueMembers; exact RtPos.pure _
  | (k, j) :: ms => by
    unfold Jqawk.newValueMembers
    exact RtPos.bind (RtPos.newValueJson j) (fun v => RtPos.bind (RtPos.newCell v)
      (fun c => RtPos.bind (RtPos.newValueMembers ms) (fun cs => RtPos.pure _)))
end

/-- the nested evaluator of a selector blames tokens of the selector expression only -/
theorem RtPos.selectorRun {G : Nat → Prop} (rootValue : JVal) (expr : Expr)
    (he : TokOK G (expr.tokens false)) : RtPos G (Jqawk.selectorRun rootValue expr) := by
  unfold Jqawk.selectorRun
  have hall := allRt G Program.empty (by intro f hf; cases hf) evalFuel
  refine RtPos.bind (RtPos.newValueJson _) (fun v => RtPos.bind (RtPos.newCell _) (fun rc =>
    RtPos.bind (RtPos.modifySt _) (fun _ => RtPos.bind (hall.expr _ he) (fun cell =>
      RtPos.bind (RtPos.newCell _) (fun root => RtPos.bind (RtPos.copyValue _ _) (fun r => ?_))))))
  split
  · exact RtPos.throwRt he.token _
  · exact RtPos.pure _

/-! ### the whole run -/

/-- what a run may report about positions: a runtime or syntax error refers to the program text
    or to a selector text, and carries a good position (`Gs text`) / is a good error (`Es text`)
    of that text -/
def OutcomeOK (Gs : Bytes → Nat → Prop) (Es : Bytes → SynErr → Prop) (src : Bytes)
    (sels : List Bytes) : Outcome → Prop
  | .runtimeErr s pos _ => (s = src ∨ s ∈ sels) ∧ Gs s pos
  | .syntaxErr s e => (s = src ∨ s ∈ sels) ∧ Es s e
  | _ => True

section run
variable {Gs : Bytes → Nat → Prop} {Es : Bytes → SynErr → Prop} {tbl : RuleTable}
  {src : Bytes} {sels : List Bytes}

theorem outcomeOK_errOutcome {e : Err} (h : ∀ pos msg, e = .runtime pos msg → Gs src pos) :
    OutcomeOK Gs Es src sels (errOutcome src e) := by
  cases e with
  | runtime pos msg => exact ⟨.inl rfl, h pos msg rfl⟩
  | sig g => trivial
  | panic m => trivial
  | unmodelled w => trivial

theorem RtPos.outcome {α : Type} {m : EM α} (hm : RtPos (Gs src) m) {s : St} {e : Err} {s' : St}
    (h : m s = .err e s') : OutcomeOK Gs Es src sels (errOutcome src e) :=
  outcomeOK_errOutcome (fun pos msg he => hm s pos msg s' (by rw [h, he]))

/-- what the parser must establish for the selectors -/
structure SelsOK (Gs : Bytes → Nat → Prop) (Es : Bytes → SynErr → Prop) (tbl : RuleTable)
    (sels : List Bytes) : Prop where
  ok : ∀ sel ∈ sels, ∀ e, parseExpressionSrc tbl sel = .ok e → TokOK (Gs sel) (e.tokens false)
  err : ∀ sel ∈ sels, ∀ e, parseExpressionSrc tbl sel = .syntaxErr e → Es sel e

theorem evalSelector_ok (hs : SelsOK Gs Es tbl sels) (sel : Bytes) (hsel : sel ∈ sels)
    (rootValue : JVal) (s : St) (o : Outcome) (s' : St)
    (h : evalSelector tbl sel rootValue s = .inl (o, s')) : OutcomeOK Gs Es src sels o := by
  unfold evalSelector at h
  split at h
  · rename_i e hp
    simp only [Sum.inl.injEq, Prod.mk.injEq] at h
    obtain ⟨rfl, rfl⟩ := h
    exact ⟨.inr hsel, hs.err sel hsel e hp⟩
  · simp only [Sum.inl.injEq, Prod.mk.injEq] at h
    obtain ⟨rfl, rfl⟩ := h
    trivial
  · rename_i expr hp
    have hrun := RtPos.selectorRun (G := Gs sel) rootValue expr (hs.ok sel hsel expr hp)
    dsimp only at h
    split at h
    all_goals first
      | (cases h; done)
      | (simp only [Sum.inl.injEq, Prod.mk.injEq] at h
         obtain ⟨rfl, rfl⟩ := h
         first
           | trivial
           | (rename_i hr; exact ⟨.inr hsel, hrun _ _ _ _ hr⟩))

def RootsOK (Gs : Bytes → Nat → Prop) (Es : Bytes → SynErr → Prop) (src : Bytes)
    (sels : List Bytes) : Roots → Prop
  | .stop o _ => OutcomeOK Gs Es src sels o
  | _ => True

theorem evalSelectors_ok (hs : SelsOK Gs Es tbl sels) (rootValue : JVal) (rest : List Bytes)
    (hrest : ∀ sel ∈ rest, sel ∈ sels) (acc : List CellId) (s : St) :
    RootsOK Gs Es src sels (evalSelectors tbl rootValue rest acc s) := by
  induction rest generalizing acc s with
  | nil => trivial
  | cons sel rest ih =>
    have hr' : ∀ x ∈ rest, x ∈ sels := fun x hx => hrest x (List.mem_cons_of_mem _ hx)
    unfold evalSelectors
    cases he : evalSelector tbl sel rootValue s with
    | inl p =>
      obtain ⟨o, s1⟩ := p
      exact evalSelector_ok hs sel (hrest sel (List.mem_cons_self ..)) rootValue s o s1 he
    | inr p =>
      obtain ⟨x, s1⟩ := p
      cases x with
      | ok c => exact ih hr' (c :: acc) s1
      | error g =>
        cases g with
        | exit => trivial
        | cont => exact ih hr' acc s1
        | brk => exact ih hr' acc s1
        | ret => exact ih hr' acc s1
        | next => exact ih hr' acc s1

def StepOK (Gs : Bytes → Nat → Prop) (Es : Bytes → SynErr → Prop) (src : Bytes)
    (sels : List Bytes) : StepRes → Prop
  | .done _ => True
  | .finished o _ => OutcomeOK Gs Es src sels o

variable (prog : Program) (hp : ProgOK (Gs src) false prog) (hs : SelsOK Gs Es tbl sels)
include hp hs

theorem processFile_ok (file : InputFile) : ∀ (fuel : Nat) (data : Bytes) (s : St),
    StepOK Gs Es src sels (processFile prog src tbl sels file fuel data s) := by
  intro fuel
  induction fuel with
  | zero => intro data s; trivial
  | succ fuel ih =>
    intro data s
    unfold processFile
    cases hd : Json.decodeOne numOk data file.tail with
    | eof => trivial
    | error => trivial
    | needMore => trivial
    | value v rest =>
      dsimp only
      have hset : RtPos (Gs src) (do
          let c ← newCell (.str file.name none)
          setGlobal b!"$file" c : EM Unit) :=
        RtPos.bind (RtPos.newCell _) (fun c => RtPos.setGlobal _ _)
      cases hsf : (do
          let c ← newCell (.str file.name none)
          setGlobal b!"$file" c : EM Unit) s with
      | err e s1 => exact hset.outcome hsf
      | oof => trivial
      | ok u s1 =>
        dsimp only
        have hroots : RootsOK Gs Es src sels (if sels.isEmpty then
            match (do let val ← newValueJson v; newCell val : EM CellId) s1 with
            | .ok c s2 => Roots.cells [c] s2
            | .err e s2 => Roots.stop (errOutcome src e) s2
            | .oof => Roots.stop Outcome.oof s1
          else evalSelectors tbl v sels [] s1) := by
          split
          · have hnv : RtPos (Gs src) (do let val ← newValueJson v; newCell val : EM CellId) :=
              RtPos.bind (RtPos.newValueJson v) (fun val => RtPos.newCell _)
            cases hr : (do let val ← newValueJson v; newCell val : EM CellId) s1 with
            | ok c s2 => trivial
            | err e s2 => exact hnv.outcome hr
            | oof => trivial
          · exact evalSelectors_ok hs v sels (fun _ h => h) [] s1
        revert hroots
        generalize (if sels.isEmpty then
            match (do let val ← newValueJson v; newCell val : EM CellId) s1 with
            | .ok c s2 => Roots.cells [c] s2
            | .err e s2 => Roots.stop (errOutcome src e) s2
            | .oof => Roots.stop Outcome.oof s1
          else evalSelectors tbl v sels [] s1) = roots
        intro hroots
        cases roots with
        | stop o s2 => exact hroots
        | exit s2 => trivial
        | cells cs s2 =>
          dsimp only
          have hpr := RtPos.processRoots prog hp cs
          cases hprr : processRoots prog cs s2 with
          | ok fl s3 =>
            cases fl with
            | exit => trivial
            | continue_ => exact ih rest s3
          | err e s3 => exact hpr.outcome hprr
          | oof => trivial

theorem processFiles_ok : ∀ (files : List InputFile) (s : St),
    StepOK Gs Es src sels (processFiles prog src tbl sels files s) := by
  intro files
  induction files with
  | nil => intro s; trivial
  | cons f rest ih =>
    intro s
    unfold processFiles
    have h := processFile_ok prog hp hs f (f.data.length + 2) f.data s
    cases hpf : processFile prog src tbl sels f (f.data.length + 2) f.data s with
    | done s1 => exact ih s1
    | finished o s1 => rw [hpf] at h; exact h

omit hs in
theorem runEnd_ok (s2 : St) : OutcomeOK Gs Es src sels (runEnd prog src s2).outcome := by
  unfold runEnd
  have he := RtPos.evalSpecialRules prog hp (newCell (.nil none)) (RtPos.newCell _)
    (rulesOf prog .end_) (RtPos.rulesOf_sub prog _)
  cases her : evalSpecialRules prog (newCell (.nil none)) (rulesOf prog .end_) s2 with
  | err e s3 => exact he.outcome her
  | oof => trivial
  | ok fl s3 => trivial

theorem runFiles_ok (files : List InputFile) (s1 : St) :
    OutcomeOK Gs Es src sels (runFiles prog src tbl sels files s1).outcome := by
  unfold runFiles
  have hf := processFiles_ok prog hp hs files s1
  cases hpf : processFiles prog src tbl sels files s1 with
  | finished o s2 => rw [hpf] at hf; exact hf
  | done s2 => exact runEnd_ok prog hp s2

/-- a run of a program whose blame tokens carry good offsets reports only good positions -/
theorem runProgram_ok (files : List InputFile) :
    OutcomeOK Gs Es src sels (runProgram prog src tbl sels files).outcome := by
  unfold runProgram
  have hb := RtPos.evalSpecialRules prog hp (newCell (.nil none)) (RtPos.newCell _)
    (rulesOf prog .begin_) (RtPos.rulesOf_sub prog _)
  cases hbr : evalSpecialRules prog (newCell (.nil none)) (rulesOf prog .begin_)
      (newEvaluator prog Heap.empty [] 0) with
  | err e s1 => exact hb.outcome hbr
  | oof => trivial
  | ok fl s1 =>
    cases fl with
    | exit => trivial
    | continue_ => exact runFiles_ok prog hp hs files s1

end run

end Jqawk
