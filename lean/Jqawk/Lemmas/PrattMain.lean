/-
  C06: the Pratt parser inverts the renderings of `Spec/Grammar.lean`, at any depth.
  Main lemma (`RenderOK e`): parsing, in a context of level `p`, a rendering of `e` for a context
  of level `q ≥ p` that is followed by a token `c` which cannot continue `e`, reaches the
  operator loop `infixLoop p` with left operand `toExpr e` and current token `c`.
-/
import Jqawk.Spec.Grammar
import Jqawk.Lemmas.PrattUnfold

namespace Jqawk.Pratt
open Jqawk Jqawk.Grammar Jqawk.Parser

/-! ### levels, right-openness, fuel cost -/

/-- right-openness: the largest precedence a token following `e` (not in parentheses) may have
    without being absorbed by `e`'s last operand (`topLevel`: `e` ends with a closed construct) -/
def R : PE → Nat
  | .bin op _ _ => op.level
  | .un _ _ | .preInc _ _ => 6
  | .assign _ _ _ => 0
  | _ => topLevel

mutual
/-- fuel sufficient to parse a rendering of `e` -/
def cost : PE → Nat
  | .ident _ | .dollar | .lit _ => 1
  | .bin _ l r => cost l + cost r + 8
  | .un _ e => cost e + 8
  | .preInc _ e => cost e + 8
  | .postfix _ e => cost e + 8
  | .isType e _ => cost e + 8
  | .member e _ => cost e + 8
  | .index e i => cost e + cost i + 8
  | .call f args => cost f + costs args + 8
  | .arr items => costs items + 8
  | .obj items => costsKV items + 8
  | .assign _ t v => cost t + cost v + 8
def costs : List PE → Nat
  | [] => 0
  | e :: es => cost e + 4 + costs es
def costsKV : List (ObjKey × PE) → Nat
  | [] => 0
  | (_, e) :: r => cost e + 4 + costsKV r
end

theorem BinOp.level_range (op : BinOp) : 2 ≤ op.level ∧ op.level ≤ 5 := by cases op <;> decide

theorem level_ge (e : PE) : 1 ≤ e.level := by
  cases e <;> simp [PE.level, topLevel]
  exact Nat.le_trans (by decide) (BinOp.level_range _).1

theorem level_le (e : PE) : e.level ≤ 10 := by
  cases e <;> simp [PE.level, topLevel]
  exact Nat.le_trans (BinOp.level_range _).2 (by decide)

theorem R_spec (e : PE) :
    e.level ≤ R e ∨ (e.level = 7 ∧ R e = 6) ∨ (e.level = 1 ∧ R e = 0) := by
  cases e <;> simp [PE.level, R, topLevel]

theorem R_target (e : PE) (h : 8 ≤ e.level) : R e = 10 := by
  cases e <;> simp [PE.level, R, topLevel] at h ⊢
  have := (BinOp.level_range ‹_›).2; omega

theorem lv_cases (force : Bool) (n : Nat) : lv force n = n ∨ lv force n = 10 := by
  cases force <;> simp [lv, topLevel]

theorem precT_bin (op : BinOp) : precT op.tag = op.level := by cases op <;> rfl
theorem inf_bin (op : BinOp) : (lookupRule T op.tag).inf = some .binary := by cases op <;> rfl

theorem exists_cons (xs : List Token) (c : Token) (more : List Token) :
    ∃ t ts', xs ++ c :: more = t :: ts' := by
  cases xs with
  | nil => exact ⟨c, more, rfl⟩
  | cons x xs => exact ⟨x, xs ++ c :: more, rfl⟩

/-! ### the main lemma -/

/-- parsing a rendering of `e` for a level-`q` context, in a context of level `p ≤ q` -/
def RenderOK (e : PE) : Prop :=
  e.wf = true → ∀ (pol : PE → Bool) (q p : Nat) (c : Token) (more : List Token) (s : PS) (ts : List Token) (F : Nat),
    s.cur :: ts = render pol q e ++ c :: more → p ≤ q → (e.level < q ∨ precT c.tag ≤ R e) →
    cost e + 3 ≤ F →
    ∃ F' s', s'.cur = c ∧ F ≤ F' + cost e + 2 ∧
      run (expressionWithPrec T F p) s ts = run (infixLoop T F' p (toExpr e)) s' more

/-- the same for the rendering without parentheses around the whole -/
def BodyOK (e : PE) : Prop :=
  e.wf = true → ∀ (pol : PE → Bool) (p : Nat) (c : Token) (more : List Token) (s : PS) (ts : List Token) (F : Nat),
    s.cur :: ts = body pol e ++ c :: more → p ≤ e.level → precT c.tag ≤ R e →
    cost e + 1 ≤ F →
    ∃ F' s', s'.cur = c ∧ F ≤ F' + cost e ∧
      run (expressionWithPrec T F p) s ts = run (infixLoop T F' p (toExpr e)) s' more

theorem render_of_body (e : PE) (hb : BodyOK e) : RenderOK e := by
  intro hwf pol q p c more s ts F hs hp hc hF
  replace hb := hb hwf
  unfold render wrapAt at hs
  split at hs
  · -- parenthesised
    simp only [paren, List.cons_append, List.nil_append, List.append_assoc, List.cons.injEq] at hs
    obtain ⟨hcur, hts⟩ := hs
    obtain ⟨t, ts', hcons⟩ := exists_cons (body pol e) (opTok .rparen) (c :: more)
    rw [hcons] at hts
    obtain ⟨n, rfl⟩ : ∃ n, F = n + 2 := ⟨F - 2, by omega⟩
    subst hts
    rw [expr_group n p s t ts' (by rw [hcur]; rfl)]
    obtain ⟨F1, s1, hs1, hF1, e1⟩ := hb pol 1 (opTok .rparen) (c :: more) (adv s t) ts' n
      (by simpa using hcons.symm) (level_ge e) (Nat.zero_le _) (by omega)
    rw [show Prec.assign = 1 from rfl, e1]
    obtain ⟨k, rfl⟩ : ∃ k, F1 = k + 1 := ⟨F1 - 1, by omega⟩
    rw [loop_stop k 1 _ s1 _ (by rw [hs1]; decide)]
    simp only [ParseRes.bind_ok]
    rw [run_consume_cons _ _ _ _ (by rw [hs1]; rfl)]
    simp only [ParseRes.bind_ok]
    exact ⟨n + 1, adv s1 c, rfl, by omega, rfl⟩
  · rename_i hlev
    have hc' : precT c.tag ≤ R e := by
      rcases hc with h | h
      · exact absurd h hlev
      · exact h
    obtain ⟨F', s', h1, h2, h3⟩ := hb pol p c more s ts F hs (by omega) hc' (by omega)
    exact ⟨F', s', h1, by omega, h3⟩

theorem body_ident (n : Bytes) : BodyOK (.ident n) := by
  intro _ pol p c more s ts F hs _ _ hF
  simp only [body, List.cons_append, List.nil_append, List.cons.injEq] at hs
  obtain ⟨hcur, rfl⟩ := hs
  obtain ⟨k, rfl⟩ : ∃ k, F = k + 2 := ⟨F - 2, by simp only [cost] at hF; omega⟩
  rw [expr_ident k p s c more (by rw [hcur]; exact Or.inl rfl)]
  exact ⟨k + 1, adv s c, rfl, by simp only [cost]; omega, by rw [hcur]; rfl⟩

theorem body_dollar : BodyOK .dollar := by
  intro _ pol p c more s ts F hs _ _ hF
  simp only [body, List.cons_append, List.nil_append, List.cons.injEq] at hs
  obtain ⟨hcur, rfl⟩ := hs
  obtain ⟨k, rfl⟩ : ∃ k, F = k + 2 := ⟨F - 2, by simp only [cost] at hF; omega⟩
  rw [expr_ident k p s c more (by rw [hcur]; exact Or.inr rfl)]
  exact ⟨k + 1, adv s c, rfl, by simp only [cost]; omega, by rw [hcur]; rfl⟩

theorem body_lit (l : Lit) : BodyOK (.lit l) := by
  intro _ pol p c more s ts F hs _ _ hF
  simp only [body, List.cons_append, List.nil_append, List.cons.injEq] at hs
  obtain ⟨hcur, rfl⟩ := hs
  obtain ⟨k, rfl⟩ : ∃ k, F = k + 2 := ⟨F - 2, by simp only [cost] at hF; omega⟩
  rw [expr_lit k p s c more (by rw [hcur]; cases l <;> simp [Lit.tok, opTok])]
  exact ⟨k + 1, adv s c, rfl, by simp only [cost]; omega, by rw [hcur]; rfl⟩

theorem body_bin (op : BinOp) (l r : PE) (hl : RenderOK l) (hr : RenderOK r) :
    BodyOK (.bin op l r) := by
  intro hwf pol p c more s ts F hs hp hc hF
  simp only [PE.wf, Bool.and_eq_true] at hwf
  replace hl := hl hwf.1
  replace hr := hr hwf.2
  simp only [PE.level, R, cost] at hp hc hF
  have hrange := BinOp.level_range op
  have hbody : body pol (.bin op l r) = render pol (lv (pol l) op.level) l ++ [opTok op.tag]
      ++ render pol (lv (pol r) (op.level + 1)) r := by simp only [body, render]
  rw [hbody] at hs
  simp only [List.append_assoc, List.cons_append, List.nil_append] at hs
  -- the left operand
  obtain ⟨F1, s1, hs1, hF1, e1⟩ := hl pol (lv (pol l) op.level) p (opTok op.tag) _ s ts F hs
    (by have := lv_cases (pol l) op.level; omega)
    (by have := lv_cases (pol l) op.level; have := R_spec l; have := level_le l
        show _ ∨ precT op.tag ≤ _; rw [precT_bin]; omega)
    (by omega)
  rw [e1]
  -- the operator
  obtain ⟨t, ts', hcons⟩ := exists_cons (render pol (lv (pol r) (op.level + 1)) r) c more
  rw [hcons]
  obtain ⟨n, rfl⟩ : ∃ n, F1 = n + 2 := ⟨F1 - 2, by omega⟩
  have hp1 : precT s1.cur.tag = op.level := by rw [hs1]; exact precT_bin op
  rw [loop_binary n p _ s1 t ts' (by rw [hp1]; exact hp) (by rw [hs1]; exact inf_bin op)]
  -- the right operand, one level up
  obtain ⟨F2, s2, hs2, hF2, e2⟩ := hr pol (lv (pol r) (op.level + 1)) (precT s1.cur.tag + 1) c more
    (adv s1 t) ts' n (by simpa using hcons.symm)
    (by rw [hp1]; have := lv_cases (pol r) (op.level + 1); omega)
    (by have := lv_cases (pol r) (op.level + 1); have := R_spec r; have := level_le r; omega)
    (by omega)
  rw [e2]
  obtain ⟨k, rfl⟩ : ∃ k, F2 = k + 1 := ⟨F2 - 1, by omega⟩
  rw [loop_stop k _ _ s2 _ (by rw [hs2, hp1]; omega)]
  simp only [ParseRes.bind_ok]
  refine ⟨n + 1, s2, hs2, by simp only [cost]; omega, ?_⟩
  rw [hs1]; simp only [toExpr]

theorem pre_un (op : UnOp) : (lookupRule T op.tag).pre = some .unary := by cases op <;> rfl
theorem pre_inc (op : IncOp) : (lookupRule T op.tag).pre = some .unary := by cases op <;> rfl
theorem inf_inc (op : IncOp) : (lookupRule T op.tag).inf = some .postfixOp := by cases op <;> rfl
theorem precT_inc (op : IncOp) : precT op.tag = 6 := by cases op <;> rfl
theorem precT_asg (op : AsgOp) : precT op.tag = 1 := by cases op <;> rfl
theorem inf_asg (op : AsgOp) : (lookupRule T op.tag).inf = some .assign := by cases op <;> rfl

theorem assignable_target (t : PE) (h : t.isTarget = true) : assignable (toExpr t) = true := by
  cases t <;> simp [PE.isTarget] at h <;> simp [toExpr, assignable, opTok]

theorem body_un (op : UnOp) (e : PE) (he : RenderOK e) : BodyOK (.un op e) := by
  intro hwf pol p c more s ts F hs hp hc hF
  simp only [PE.wf] at hwf
  replace he := he hwf
  simp only [PE.level, R, cost] at hp hc hF
  have hbody : body pol (.un op e) = [opTok op.tag] ++ render pol (lv (pol e) 7) e := by
    simp only [body, render]
  rw [hbody] at hs
  simp only [List.cons_append, List.nil_append, List.cons.injEq] at hs
  obtain ⟨hcur, hts⟩ := hs
  obtain ⟨t, ts', hcons⟩ := exists_cons (render pol (lv (pol e) 7) e) c more
  rw [hcons] at hts; subst hts
  obtain ⟨n, rfl⟩ : ∃ n, F = n + 2 := ⟨F - 2, by omega⟩
  rw [expr_unary n p s t ts' (by rw [hcur]; exact pre_un op)]
  obtain ⟨F1, s1, hs1, hF1, e1⟩ := he pol (lv (pol e) 7) 7 c more (adv s t) ts' n
    (by simpa using hcons.symm) (by have := lv_cases (pol e) 7; omega)
    (by have := lv_cases (pol e) 7; have := R_spec e; have := level_le e; omega) (by omega)
  rw [show Prec.unary = 7 from rfl, e1]
  obtain ⟨k, rfl⟩ : ∃ k, F1 = k + 1 := ⟨F1 - 1, by omega⟩
  rw [loop_stop k 7 _ s1 _ (by rw [hs1]; omega)]
  simp only [ParseRes.bind_ok]
  have hno : (s.cur.tag == Tag.plusPlus || s.cur.tag == Tag.minusMinus) = false := by
    rw [hcur]; cases op <;> rfl
  simp only [hno, Bool.false_and, Bool.false_eq_true, if_false]
  exact ⟨n + 1, s1, hs1, by simp only [cost]; omega, by rw [hcur]; simp only [toExpr]⟩

theorem body_preInc (op : IncOp) (e : PE) (he : RenderOK e) : BodyOK (.preInc op e) := by
  intro hwf pol p c more s ts F hs hp hc hF
  simp only [PE.wf, Bool.and_eq_true] at hwf
  replace he := he hwf.2
  simp only [PE.level, R, cost] at hp hc hF
  have hbody : body pol (.preInc op e) = [opTok op.tag] ++ render pol (lv (pol e) 7) e := by
    simp only [body, render]
  rw [hbody] at hs
  simp only [List.cons_append, List.nil_append, List.cons.injEq] at hs
  obtain ⟨hcur, hts⟩ := hs
  obtain ⟨t, ts', hcons⟩ := exists_cons (render pol (lv (pol e) 7) e) c more
  rw [hcons] at hts; subst hts
  obtain ⟨n, rfl⟩ : ∃ n, F = n + 2 := ⟨F - 2, by omega⟩
  rw [expr_unary n p s t ts' (by rw [hcur]; exact pre_inc op)]
  obtain ⟨F1, s1, hs1, hF1, e1⟩ := he pol (lv (pol e) 7) 7 c more (adv s t) ts' n
    (by simpa using hcons.symm) (by have := lv_cases (pol e) 7; omega)
    (by have := lv_cases (pol e) 7; have := R_spec e; have := level_le e; omega) (by omega)
  rw [show Prec.unary = 7 from rfl, e1]
  obtain ⟨k, rfl⟩ : ∃ k, F1 = k + 1 := ⟨F1 - 1, by omega⟩
  rw [loop_stop k 7 _ s1 _ (by rw [hs1]; omega)]
  simp only [ParseRes.bind_ok, assignable_target e hwf.1, Bool.not_true, Bool.and_false,
    Bool.false_eq_true, if_false]
  exact ⟨n + 1, s1, hs1, by simp only [cost]; omega, by rw [hcur]; simp only [toExpr]⟩

theorem body_postfix (op : IncOp) (e : PE) (he : RenderOK e) : BodyOK (.postfix op e) := by
  intro hwf pol p c more s ts F hs hp hc hF
  simp only [PE.wf, Bool.and_eq_true] at hwf
  replace he := he hwf.2
  simp only [PE.level, R, cost] at hp hc hF
  have hbody : body pol (.postfix op e) = render pol (lv (pol e) 8) e ++ [opTok op.tag] := by
    simp only [body, render]
  rw [hbody] at hs
  simp only [List.append_assoc, List.cons_append, List.nil_append] at hs
  obtain ⟨F1, s1, hs1, hF1, e1⟩ := he pol (lv (pol e) 8) p (opTok op.tag) _ s ts F hs
    (by have := lv_cases (pol e) 8; omega)
    (by have := lv_cases (pol e) 8; have := level_le e
        by_cases h : e.level < lv (pol e) 8
        · exact Or.inl h
        · right; rw [R_target e (by omega)]; show precT op.tag ≤ 10; rw [precT_inc]; omega)
    (by omega)
  rw [e1]
  obtain ⟨n, rfl⟩ : ∃ n, F1 = n + 2 := ⟨F1 - 2, by omega⟩
  rw [loop_postfix n p _ s1 c more (by rw [hs1]; show p ≤ precT op.tag; rw [precT_inc]; exact hp)
    (by rw [hs1]; exact inf_inc op) (assignable_target e hwf.1)]
  exact ⟨n + 1, adv s1 c, rfl, by simp only [cost]; omega, by rw [hs1]; simp only [toExpr]⟩

theorem body_isType (e : PE) (ty : TypeName) (he : RenderOK e) : BodyOK (.isType e ty) := by
  intro hwf pol p c more s ts F hs hp hc hF
  simp only [PE.wf] at hwf
  replace he := he hwf
  simp only [PE.level, R, cost] at hp hc hF
  have hbody : body pol (.isType e ty) = render pol (lv (pol e) 3) e ++ [opTok .is, ty.tok] := by
    simp only [body, render]
  rw [hbody] at hs
  simp only [List.append_assoc, List.cons_append, List.nil_append] at hs
  obtain ⟨F1, s1, hs1, hF1, e1⟩ := he pol (lv (pol e) 3) p (opTok .is) _ s ts F hs
    (by have := lv_cases (pol e) 3; omega)
    (by have := lv_cases (pol e) 3; have := R_spec e; have := level_le e
        show _ ∨ precT Tag.is ≤ _; rw [show precT Tag.is = 3 from rfl]; omega)
    (by omega)
  rw [e1]
  obtain ⟨n, rfl⟩ : ∃ n, F1 = n + 2 := ⟨F1 - 2, by omega⟩
  rw [loop_is n p _ s1 ty.tok c more (by rw [hs1]; exact hp) (by rw [hs1]; rfl)
    (by cases ty <;> simp [TypeName.tok, identTok, opTok])]
  exact ⟨n + 1, adv (adv s1 ty.tok) c, rfl, by simp only [cost]; omega,
    by rw [hs1]; simp only [toExpr]⟩

theorem body_member (e : PE) (name : Bytes) (he : RenderOK e) : BodyOK (.member e name) := by
  intro hwf pol p c more s ts F hs hp hc hF
  simp only [PE.wf] at hwf
  replace he := he hwf
  simp only [PE.level, R, cost] at hp hc hF
  have hbody : body pol (.member e name)
      = render pol (lv (pol e) 8) e ++ [opTok .dot, identTok name] := by simp only [body, render]
  rw [hbody] at hs
  simp only [List.append_assoc, List.cons_append, List.nil_append] at hs
  obtain ⟨F1, s1, hs1, hF1, e1⟩ := he pol (lv (pol e) 8) p (opTok .dot) _ s ts F hs
    (by have := lv_cases (pol e) 8; omega)
    (by have := lv_cases (pol e) 8; have := level_le e
        by_cases h : e.level < lv (pol e) 8
        · exact Or.inl h
        · right; rw [R_target e (by omega)]; decide)
    (by omega)
  rw [e1]
  obtain ⟨n, rfl⟩ : ∃ n, F1 = n + 2 := ⟨F1 - 2, by omega⟩
  rw [loop_member n p _ s1 (identTok name) c more (by rw [hs1]; exact hp) (by rw [hs1]; rfl) rfl]
  exact ⟨n + 1, adv (adv s1 (identTok name)) c, rfl, by simp only [cost]; omega,
    by rw [hs1]; simp only [toExpr]⟩

theorem body_index (e i : PE) (he : RenderOK e) (hi : RenderOK i) : BodyOK (.index e i) := by
  intro hwf pol p c more s ts F hs hp hc hF
  simp only [PE.wf, Bool.and_eq_true] at hwf
  replace he := he hwf.1
  replace hi := hi hwf.2
  simp only [PE.level, R, cost] at hp hc hF
  have hbody : body pol (.index e i) = render pol (lv (pol e) 8) e ++ [opTok .lsquare]
      ++ render pol (lv (pol i) 1) i ++ [opTok .rsquare] := by simp only [body, render]
  rw [hbody] at hs
  simp only [List.append_assoc, List.cons_append, List.nil_append] at hs
  obtain ⟨F1, s1, hs1, hF1, e1⟩ := he pol (lv (pol e) 8) p (opTok .lsquare) _ s ts F hs
    (by have := lv_cases (pol e) 8; omega)
    (by have := lv_cases (pol e) 8; have := level_le e
        by_cases h : e.level < lv (pol e) 8
        · exact Or.inl h
        · right; rw [R_target e (by omega)]; decide)
    (by omega)
  rw [e1]
  obtain ⟨t, ts', hcons⟩ := exists_cons (render pol (lv (pol i) 1) i) (opTok .rsquare) (c :: more)
  rw [hcons]
  obtain ⟨n, rfl⟩ : ∃ n, F1 = n + 2 := ⟨F1 - 2, by omega⟩
  rw [loop_index n p _ s1 t ts' (by rw [hs1]; exact Nat.le_trans hp (by decide)) (by rw [hs1]; rfl)]
  obtain ⟨F2, s2, hs2, hF2, e2⟩ := hi pol (lv (pol i) 1) 1 (opTok .rsquare) (c :: more)
    (adv s1 t) ts' n (by simpa using hcons.symm)
    (by have := lv_cases (pol i) 1; omega) (Or.inr (Nat.zero_le _)) (by omega)
  rw [show Prec.assign = 1 from rfl, e2]
  obtain ⟨k, rfl⟩ : ∃ k, F2 = k + 1 := ⟨F2 - 1, by omega⟩
  rw [loop_stop k 1 _ s2 _ (by rw [hs2]; decide)]
  simp only [ParseRes.bind_ok]
  rw [run_consume_cons _ _ _ _ (by rw [hs2]; rfl)]
  simp only [ParseRes.bind_ok]
  exact ⟨n + 1, adv s2 c, rfl, by simp only [cost]; omega, by rw [hs1]; simp only [toExpr]⟩

theorem body_assign (op : AsgOp) (t v : PE) (ht : RenderOK t) (hv : RenderOK v) :
    BodyOK (.assign op t v) := by
  intro hwf pol p c more s ts F hs hp hc hF
  simp only [PE.wf, Bool.and_eq_true] at hwf
  replace ht := ht hwf.1.2
  replace hv := hv hwf.2
  simp only [PE.level, R, cost] at hp hc hF
  have hbody : body pol (.assign op t v) = render pol (lv (pol t) 8) t ++ [opTok op.tag]
      ++ render pol (lv (pol v) 1) v := by simp only [body, render]
  rw [hbody] at hs
  simp only [List.append_assoc, List.cons_append, List.nil_append] at hs
  obtain ⟨F1, s1, hs1, hF1, e1⟩ := ht pol (lv (pol t) 8) p (opTok op.tag) _ s ts F hs
    (by have := lv_cases (pol t) 8; omega)
    (by have := lv_cases (pol t) 8; have := level_le t
        by_cases h : t.level < lv (pol t) 8
        · exact Or.inl h
        · right; rw [R_target t (by omega)]; show precT op.tag ≤ 10; rw [precT_asg]; omega)
    (by omega)
  rw [e1]
  obtain ⟨tk, ts', hcons⟩ := exists_cons (render pol (lv (pol v) 1) v) c more
  rw [hcons]
  obtain ⟨n, rfl⟩ : ∃ n, F1 = n + 2 := ⟨F1 - 2, by omega⟩
  have hp1 : precT s1.cur.tag = 1 := by rw [hs1]; exact precT_asg op
  rw [loop_assign n p _ s1 tk ts' (by rw [hp1]; exact hp) (by rw [hs1]; exact inf_asg op)
    (assignable_target t hwf.1.1)]
  obtain ⟨F2, s2, hs2, hF2, e2⟩ := hv pol (lv (pol v) 1) (precT s1.cur.tag) c more
    (adv s1 tk) ts' n (by simpa using hcons.symm)
    (by rw [hp1]; have := lv_cases (pol v) 1; omega) (Or.inr (by omega)) (by omega)
  rw [e2]
  obtain ⟨k, rfl⟩ : ∃ k, F2 = k + 1 := ⟨F2 - 1, by omega⟩
  rw [loop_stop k _ _ s2 _ (by rw [hs2, hp1]; omega)]
  simp only [ParseRes.bind_ok]
  refine ⟨n + 1, s2, hs2, by simp only [cost]; omega, ?_⟩
  rw [hs1]
  cases op <;> rfl

/-! ### argument lists -/

/-- the first token of a rendering is neither EOF nor `)` -/
def HeadOK (e : PE) : Prop :=
  ∀ (pol : PE → Bool) (q : Nat), ∃ hd tl, render pol q e = hd :: tl ∧ hd.tag ≠ .eof ∧ hd.tag ≠ .rparen ∧ hd.tag ≠ .rsquare

theorem headOK_of_body (e : PE)
    (h : ∀ pol, ∃ hd tl, body pol e = hd :: tl ∧ hd.tag ≠ .eof ∧ hd.tag ≠ .rparen ∧ hd.tag ≠ .rsquare) : HeadOK e := by
  intro pol q
  unfold render wrapAt
  split
  · exact ⟨opTok .lparen, _, rfl, by decide, by decide, by decide⟩
  · exact h pol

theorem headOK_of_first (e first : PE) (q : Nat) (hf : HeadOK first)
    (h : ∀ pol, ∃ rest, body pol e = render pol (lv (pol first) q) first ++ rest) : HeadOK e := by
  apply headOK_of_body
  intro pol
  obtain ⟨hd, tl, h1, h2⟩ := hf pol (lv (pol first) q)
  obtain ⟨rest, h⟩ := h pol
  exact ⟨hd, tl ++ rest, by rw [h, h1]; rfl, h2⟩

/-- parsing the arguments of a call up to and including the closing parenthesis -/
theorem args_ok (endTag : Tag) (hend : endTag = .rparen ∨ endTag = .rsquare) (es : List PE)
    (hes : ∀ e ∈ es, RenderOK e ∧ HeadOK e) (hwf : wfs es = true) :
    ∀ (pol : PE → Bool) (acc : List Expr) (c : Token) (more : List Token) (s : PS) (ts : List Token)
      (F : Nat),
      s.cur :: ts = bodyArgs pol es ++ opTok endTag :: c :: more → costs es + 2 ≤ F →
      ∃ s', s'.cur = c ∧
        run (exprList T F endTag acc) s ts = .ok ((acc.reverse ++ toExprs es, s'), more) := by
  have hendTok : (opTok endTag).tag = endTag := rfl
  induction es with
  | nil =>
    intro pol acc c more s ts F hs hF
    simp only [bodyArgs, List.nil_append, List.cons.injEq] at hs
    obtain ⟨hcur, rfl⟩ := hs
    obtain ⟨n, rfl⟩ : ∃ n, F = n + 1 := ⟨F - 1, by omega⟩
    rw [exprList_end n _ acc s c more (by rw [hcur]; rfl)]
    exact ⟨adv s c, rfl, by simp [toExprs]⟩
  | cons e es ih =>
    intro pol acc c more s ts F hs hF
    simp only [wfs, Bool.and_eq_true] at hwf
    simp only [costs] at hF
    obtain ⟨hre, hhe⟩ := hes e (by simp)
    replace hre := hre hwf.1
    have ih := ih (fun a ha => hes a (by simp [ha])) hwf.2
    have hbody : bodyArgs pol (e :: es) = render pol (lv (pol e) 1) e ++ bodyArgsTail pol es := by
      simp only [bodyArgs, render]
    rw [hbody] at hs
    obtain ⟨n, rfl⟩ : ∃ n, F = n + 1 := ⟨F - 1, by omega⟩
    obtain ⟨hd, tl, hrd, hd1, hd2, hd3⟩ := hhe pol (lv (pol e) 1)
    have hdE : hd.tag ≠ endTag := by rcases hend with rfl | rfl <;> assumption
    have hcur : s.cur = hd := by rw [hrd] at hs; simp only [List.cons_append, List.cons.injEq] at hs; exact hs.1
    rw [exprList_arg n _ acc s ts (by rw [hcur]; exact hd1) (by rw [hcur]; exact hdE)]
    cases es with
    | nil =>
      simp only [bodyArgsTail, List.append_nil] at hs
      have hprec : precT (opTok endTag).tag = 0 := by rcases hend with rfl | rfl <;> rfl
      obtain ⟨F1, s1, hs1, hF1, e1⟩ := hre pol (lv (pol e) 1) 1 (opTok endTag) (c :: more) s ts n hs
        (by have := lv_cases (pol e) 1; omega) (Or.inr (by rw [hprec]; exact Nat.zero_le _)) (by omega)
      rw [show Prec.assign = 1 from rfl, e1]
      obtain ⟨k, rfl⟩ : ∃ k, F1 = k + 1 := ⟨F1 - 1, by omega⟩
      rw [loop_stop k 1 _ s1 _ (by rw [hs1]; rcases hend with rfl | rfl <;> decide)]
      simp only [ParseRes.bind_ok]
      rw [if_neg (by rw [hs1]; rcases hend with rfl | rfl <;> decide)]
      rw [run_consume_cons _ _ _ _ (by rw [hs1]; rfl)]
      simp only [ParseRes.bind_ok]
      exact ⟨adv s1 c, rfl, by simp [toExprs]⟩
    | cons e2 es2 =>
      have htail : bodyArgsTail pol (e2 :: es2) = opTok .comma :: bodyArgs pol (e2 :: es2) := by
        simp only [bodyArgsTail, bodyArgs, List.cons_append, List.nil_append]
      rw [htail] at hs
      simp only [List.append_assoc, List.cons_append] at hs
      obtain ⟨F1, s1, hs1, hF1, e1⟩ := hre pol (lv (pol e) 1) 1 (opTok .comma) _ s ts n hs
        (by have := lv_cases (pol e) 1; omega) (Or.inr (Nat.zero_le _)) (by omega)
      rw [show Prec.assign = 1 from rfl, e1]
      obtain ⟨k, rfl⟩ : ∃ k, F1 = k + 1 := ⟨F1 - 1, by omega⟩
      rw [loop_stop k 1 _ s1 _ (by rw [hs1]; decide)]
      simp only [ParseRes.bind_ok]
      rw [if_pos (by rw [hs1]; rfl)]
      obtain ⟨t, ts', hcons⟩ := exists_cons (bodyArgs pol (e2 :: es2)) (opTok endTag) (c :: more)
      rw [hcons, run_consume_cons _ _ _ _ (by rw [hs1]; rfl)]
      simp only [ParseRes.bind_ok]
      obtain ⟨s2, hs2, e2'⟩ := ih pol (toExpr e :: acc) c more (adv s1 t) ts' n
        (by simpa using hcons.symm) (by omega)
      rw [e2']
      exact ⟨s2, hs2, by simp [toExprs]⟩

theorem body_call (f : PE) (args : List PE) (hf : RenderOK f)
    (hargs : ∀ a ∈ args, RenderOK a ∧ HeadOK a) : BodyOK (.call f args) := by
  intro hwf pol p c more s ts F hs hp hc hF
  simp only [PE.wf, Bool.and_eq_true] at hwf
  replace hf := hf hwf.1
  simp only [PE.level, R, cost] at hp hc hF
  have hbody : body pol (.call f args) = render pol (lv (pol f) 8) f ++ [opTok .lparen]
      ++ bodyArgs pol args ++ [opTok .rparen] := by simp only [body, render]
  rw [hbody] at hs
  simp only [List.append_assoc, List.cons_append, List.nil_append] at hs
  obtain ⟨F1, s1, hs1, hF1, e1⟩ := hf pol (lv (pol f) 8) p (opTok .lparen) _ s ts F hs
    (by have := lv_cases (pol f) 8; omega)
    (by have := lv_cases (pol f) 8; have := level_le f
        by_cases h : f.level < lv (pol f) 8
        · exact Or.inl h
        · right; rw [R_target f (by omega)]; decide)
    (by omega)
  rw [e1]
  obtain ⟨t, ts', hcons⟩ := exists_cons (bodyArgs pol args) (opTok .rparen) (c :: more)
  rw [hcons]
  obtain ⟨n, rfl⟩ : ∃ n, F1 = n + 2 := ⟨F1 - 2, by omega⟩
  rw [loop_call n p _ s1 t ts' (by rw [hs1]; exact Nat.le_trans hp (by decide)) (by rw [hs1]; rfl)]
  obtain ⟨s2, hs2, e2⟩ := args_ok .rparen (Or.inl rfl) args hargs hwf.2 pol [] c more (adv s1 t) ts' n
    (by simpa using hcons.symm) (by omega)
  rw [e2]
  simp only [ParseRes.bind_ok, List.reverse_nil, List.nil_append]
  exact ⟨n + 1, s2, hs2, by simp only [cost]; omega, by simp only [toExpr]⟩

theorem body_arr (items : List PE) (hitems : ∀ a ∈ items, RenderOK a ∧ HeadOK a) :
    BodyOK (.arr items) := by
  intro hwf pol p c more s ts F hs hp hc hF
  simp only [PE.wf] at hwf
  simp only [cost] at hF
  simp only [body, List.append_assoc, List.cons_append, List.nil_append, List.cons.injEq] at hs
  obtain ⟨hcur, hts⟩ := hs
  obtain ⟨t, ts', hcons⟩ := exists_cons (bodyArgs pol items) (opTok .rsquare) (c :: more)
  rw [hcons] at hts; subst hts
  obtain ⟨n, rfl⟩ : ∃ n, F = n + 2 := ⟨F - 2, by omega⟩
  rw [expr_array n p s t ts' (by rw [hcur]; rfl)]
  obtain ⟨s2, hs2, e2⟩ := args_ok .rsquare (Or.inr rfl) items hitems hwf pol [] c more (adv s t) ts' n
    (by simpa using hcons.symm) (by omega)
  rw [e2]
  simp only [ParseRes.bind_ok, List.reverse_nil, List.nil_append]
  exact ⟨n + 1, s2, hs2, by simp only [cost]; omega, by rw [hcur]; simp only [toExpr]⟩

/-- parsing the entries of an object literal up to (not including) the closing brace -/
theorem kvs_ok (items : List (ObjKey × PE)) (hes : ∀ kv ∈ items, RenderOK kv.2)
    (hwf : wfKVs items = true) :
    ∀ (pol : PE → Bool) (acc : List (Bytes × Expr)) (c : Token) (more : List Token) (s : PS)
      (ts : List Token) (F : Nat),
      s.cur :: ts = bodyKVs pol items ++ opTok .rcurly :: c :: more → costsKV items + 2 ≤ F →
      ∃ s', s'.cur = opTok .rcurly ∧
        run (objectLoop T F acc) s ts = .ok ((acc.reverse ++ toKVs items, s'), c :: more) := by
  induction items with
  | nil =>
    intro pol acc c more s ts F hs hF
    simp only [bodyKVs, List.nil_append, List.cons.injEq] at hs
    obtain ⟨hcur, rfl⟩ := hs
    obtain ⟨n, rfl⟩ : ∃ n, F = n + 1 := ⟨F - 1, by omega⟩
    rw [objectLoop_end n acc s _ (by rw [hcur]; rfl)]
    exact ⟨s, hcur, by simp [toKVs]⟩
  | cons kv rest ih =>
    obtain ⟨k, e⟩ := kv
    intro pol acc c more s ts F hs hF
    simp only [wfKVs, Bool.and_eq_true] at hwf
    simp only [costsKV] at hF
    have hre : RenderOK e := hes (k, e) (by simp)
    replace hre := hre hwf.1
    have ih := ih (fun a ha => hes a (by simp [ha])) hwf.2
    have hbody : bodyKVs pol ((k, e) :: rest)
        = k.tok :: opTok .colon :: (render pol (lv (pol e) 1) e ++ bodyKVsTail pol rest) := by
      simp only [bodyKVs, render, List.cons_append, List.nil_append]
    rw [hbody] at hs
    simp only [List.cons_append, List.cons.injEq] at hs
    obtain ⟨hcur, hts⟩ := hs
    obtain ⟨n, rfl⟩ : ∃ n, F = n + 1 := ⟨F - 1, by omega⟩
    have hk : s.cur.tag = .str ∨ s.cur.tag = .ident := by
      rw [hcur]; cases k
      · exact Or.inr rfl
      · exact Or.inl rfl
    have htext : s.cur.text = k.text := by rw [hcur]; cases k <;> rfl
    cases rest with
    | nil =>
      simp only [bodyKVsTail, List.append_nil] at hts
      obtain ⟨t2, ts', hcons⟩ := exists_cons (render pol (lv (pol e) 1) e) (opTok .rcurly) (c :: more)
      rw [hcons] at hts; subst hts
      rw [objectLoop_item n acc s _ t2 ts' hk rfl]
      obtain ⟨F1, s1, hs1, hF1, e1⟩ := hre pol (lv (pol e) 1) 1 (opTok .rcurly) (c :: more)
        (adv (adv s (opTok .colon)) t2) ts' n (by simpa using hcons.symm)
        (by have := lv_cases (pol e) 1; omega) (Or.inr (Nat.zero_le _)) (by omega)
      rw [show Prec.assign = 1 from rfl, e1]
      obtain ⟨k', rfl⟩ : ∃ k', F1 = k' + 1 := ⟨F1 - 1, by omega⟩
      rw [loop_stop k' 1 _ s1 _ (by rw [hs1]; decide)]
      simp only [ParseRes.bind_ok]
      rw [if_neg (by rw [hs1]; decide)]
      simp only [ParseRes.bind_ok]
      obtain ⟨s2, hs2, e2⟩ := ih pol ((s.cur.text, toExpr e) :: acc) c more s1 (c :: more) n
        (by rw [hs1]; rfl) (by simp only [costsKV]; omega)
      rw [e2]
      exact ⟨s2, hs2, by simp [toKVs, htext]⟩
    | cons kv2 rest2 =>
      obtain ⟨k2, e2v⟩ := kv2
      have htail : bodyKVsTail pol ((k2, e2v) :: rest2)
          = opTok .comma :: bodyKVs pol ((k2, e2v) :: rest2) := by
        simp only [bodyKVsTail, bodyKVs, List.cons_append, List.nil_append]
      rw [htail] at hts
      obtain ⟨t2, ts', hcons⟩ := exists_cons (render pol (lv (pol e) 1) e) (opTok .comma)
        (bodyKVs pol ((k2, e2v) :: rest2) ++ opTok .rcurly :: c :: more)
      have hts' : ts = opTok .colon :: t2 :: ts' := by
        rw [hts]; simp only [List.append_assoc, List.cons_append] at hcons ⊢; rw [hcons]
      subst hts'
      rw [objectLoop_item n acc s _ t2 ts' hk rfl]
      obtain ⟨F1, s1, hs1, hF1, e1⟩ := hre pol (lv (pol e) 1) 1 (opTok .comma) _
        (adv (adv s (opTok .colon)) t2) ts' n (by simpa using hcons.symm)
        (by have := lv_cases (pol e) 1; omega) (Or.inr (Nat.zero_le _)) (by omega)
      rw [show Prec.assign = 1 from rfl, e1]
      obtain ⟨k', rfl⟩ : ∃ k', F1 = k' + 1 := ⟨F1 - 1, by omega⟩
      rw [loop_stop k' 1 _ s1 _ (by rw [hs1]; decide)]
      simp only [ParseRes.bind_ok]
      rw [if_pos (by rw [hs1]; rfl)]
      obtain ⟨t3, ts3, hcons3⟩ := exists_cons (bodyKVs pol ((k2, e2v) :: rest2)) (opTok .rcurly)
        (c :: more)
      rw [hcons3, run_consume_cons _ _ _ _ (by rw [hs1]; rfl)]
      simp only [ParseRes.bind_ok]
      obtain ⟨s2, hs2, e2⟩ := ih pol ((s.cur.text, toExpr e) :: acc) c more (adv s1 t3) ts3 n
        (by simpa using hcons3.symm) (by omega)
      rw [e2]
      exact ⟨s2, hs2, by simp [toKVs, htext]⟩

theorem body_obj (items : List (ObjKey × PE)) (hitems : ∀ kv ∈ items, RenderOK kv.2) :
    BodyOK (.obj items) := by
  intro hwf pol p c more s ts F hs hp hc hF
  simp only [PE.wf] at hwf
  simp only [cost] at hF
  simp only [body, List.append_assoc, List.cons_append, List.nil_append, List.cons.injEq] at hs
  obtain ⟨hcur, hts⟩ := hs
  obtain ⟨t, ts', hcons⟩ := exists_cons (bodyKVs pol items) (opTok .rcurly) (c :: more)
  rw [hcons] at hts; subst hts
  obtain ⟨n, rfl⟩ : ∃ n, F = n + 2 := ⟨F - 2, by omega⟩
  rw [expr_object n p s t ts' (by rw [hcur]; rfl)]
  obtain ⟨s2, hs2, e2⟩ := kvs_ok items hitems hwf pol [] c more (adv s t) ts' n
    (by simpa using hcons.symm) (by omega)
  rw [e2]
  simp only [ParseRes.bind_ok, List.reverse_nil, List.nil_append]
  rw [run_consume_cons _ _ _ _ (by rw [hs2]; rfl)]
  simp only [ParseRes.bind_ok]
  exact ⟨n + 1, adv s2 c, rfl, by simp only [cost]; omega, by rw [hcur]; simp only [toExpr]⟩

/-! ### structural induction over `PE` (a nested inductive type) -/

theorem PE.induct {P : PE → Prop}
    (ident : ∀ n, P (.ident n)) (dollar : P .dollar) (lit : ∀ l, P (.lit l))
    (bin : ∀ op l r, P l → P r → P (.bin op l r))
    (un : ∀ op e, P e → P (.un op e))
    (preInc : ∀ op e, P e → P (.preInc op e))
    (postf : ∀ op e, P e → P (.postfix op e))
    (isType : ∀ e ty, P e → P (.isType e ty))
    (member : ∀ e n, P e → P (.member e n))
    (index : ∀ e i, P e → P i → P (.index e i))
    (call : ∀ f args, P f → (∀ a ∈ args, P a) → P (.call f args))
    (arr : ∀ items, (∀ a ∈ items, P a) → P (.arr items))
    (obj : ∀ items, (∀ kv ∈ items, P kv.2) → P (.obj items))
    (assign : ∀ op t v, P t → P v → P (.assign op t v)) : ∀ e, P e :=
  fun e => PE.rec (motive_1 := P) (motive_2 := fun es => ∀ a ∈ es, P a)
    (motive_3 := fun l => ∀ kv ∈ l, P kv.2) (motive_4 := fun kv => P kv.2)
    ident dollar lit bin un preInc postf isType member index call arr obj assign
    (by intro a ha; cases ha)
    (by intro hd tl h1 h2 a ha
        rcases List.mem_cons.mp ha with rfl | h
        · exact h1
        · exact h2 a h)
    (by intro a ha; cases ha)
    (by intro hd tl h1 h2 a ha
        rcases List.mem_cons.mp ha with rfl | h
        · exact h1
        · exact h2 a h)
    (by intro k e h; exact h) e

theorem headOK (e : PE) : HeadOK e := by
  induction e using PE.induct with
  | ident n => exact headOK_of_body _ fun pol => ⟨identTok n, [], rfl, by simp [identTok], by simp [identTok], by simp [identTok]⟩
  | dollar => exact headOK_of_body _ fun pol => ⟨opTok .dollar, [], rfl, by decide, by decide, by decide⟩
  | lit l =>
    refine headOK_of_body _ fun pol => ⟨l.tok, [], rfl, ?_, ?_, ?_⟩ <;>
      cases l <;> simp [Lit.tok, opTok]
  | bin op l r hl _ => exact headOK_of_first _ l op.level hl fun pol => ⟨_, by simp only [body, render, List.append_assoc]; rfl⟩
  | un op e _ =>
    refine headOK_of_body _ fun pol => ⟨opTok op.tag, _, by simp only [body]; rfl, ?_, ?_, ?_⟩ <;>
      cases op <;> simp [opTok, UnOp.tag]
  | preInc op e _ =>
    refine headOK_of_body _ fun pol => ⟨opTok op.tag, _, by simp only [body]; rfl, ?_, ?_, ?_⟩ <;>
      cases op <;> simp [opTok, IncOp.tag]
  | postf op e he => exact headOK_of_first _ e 8 he fun pol => ⟨_, by simp only [body, render]; rfl⟩
  | isType e ty he => exact headOK_of_first _ e 3 he fun pol => ⟨_, by simp only [body, render]; rfl⟩
  | member e n he => exact headOK_of_first _ e 8 he fun pol => ⟨_, by simp only [body, render]; rfl⟩
  | index e i he _ => exact headOK_of_first _ e 8 he fun pol => ⟨_, by simp only [body, render, List.append_assoc]; rfl⟩
  | arr items _ =>
    exact headOK_of_body _ fun pol => ⟨opTok .lsquare, _, by simp only [body]; rfl, by decide, by decide, by decide⟩
  | obj items _ =>
    exact headOK_of_body _ fun pol => ⟨opTok .lcurly, _, by simp only [body]; rfl, by decide, by decide, by decide⟩
  | call f args hf _ => exact headOK_of_first _ f 8 hf fun pol => ⟨_, by simp only [body, render, List.append_assoc]; rfl⟩
  | assign op t v ht _ => exact headOK_of_first _ t 8 ht fun pol => ⟨_, by simp only [body, render, List.append_assoc]; rfl⟩

/-- the main lemma, for every expression -/
theorem renderOK (e : PE) : RenderOK e := by
  induction e using PE.induct with
  | ident n => exact render_of_body _ (body_ident n)
  | dollar => exact render_of_body _ body_dollar
  | lit l => exact render_of_body _ (body_lit l)
  | bin op l r hl hr => exact render_of_body _ (body_bin op l r hl hr)
  | un op e he => exact render_of_body _ (body_un op e he)
  | preInc op e he => exact render_of_body _ (body_preInc op e he)
  | postf op e he => exact render_of_body _ (body_postfix op e he)
  | isType e ty he => exact render_of_body _ (body_isType e ty he)
  | member e n he => exact render_of_body _ (body_member e n he)
  | index e i he hi => exact render_of_body _ (body_index e i he hi)
  | call f args hf hargs =>
    exact render_of_body _ (body_call f args hf fun a ha => ⟨hargs a ha, headOK a⟩)
  | arr items hitems =>
    exact render_of_body _ (body_arr items fun a ha => ⟨hitems a ha, headOK a⟩)
  | obj items hitems => exact render_of_body _ (body_obj items hitems)
  | assign op t v ht hv => exact render_of_body _ (body_assign op t v ht hv)

/-! ### fuel: `toksFuel` is enough -/

theorem wrapAt_len (q l : Nat) (ts : List Token) : ts.length ≤ (wrapAt q l ts).length := by
  unfold wrapAt paren; split <;> simp <;> omega

theorem costs_len (pol : PE → Bool) (es : List PE)
    (h : ∀ a ∈ es, ∀ pol, cost a + 7 ≤ 8 * (body pol a).length) :
    costs es ≤ 8 * (bodyArgsTail pol es).length ∧ costs es ≤ 8 * (bodyArgs pol es).length := by
  induction es with
  | nil => simp [costs]
  | cons e es ih =>
    have ih := (ih fun a ha => h a (by simp [ha])).1
    have he := h e (by simp) pol
    have hw := wrapAt_len (lv (pol e) 1) e.level (body pol e)
    simp only [costs, bodyArgsTail, bodyArgs, List.length_append, List.length_cons, List.length_nil]
    omega

theorem costsKV_len (pol : PE → Bool) (items : List (ObjKey × PE))
    (h : ∀ kv ∈ items, ∀ pol, cost kv.2 + 7 ≤ 8 * (body pol kv.2).length) :
    costsKV items ≤ 8 * (bodyKVsTail pol items).length ∧ costsKV items ≤ 8 * (bodyKVs pol items).length := by
  induction items with
  | nil => simp [costsKV]
  | cons kv r ih =>
    obtain ⟨k, e⟩ := kv
    have ih := (ih fun a ha => h a (by simp [ha])).1
    have he : cost e + 7 ≤ 8 * (body pol e).length := h (k, e) (by simp) pol
    have hw := wrapAt_len (lv (pol e) 1) e.level (body pol e)
    simp only [costsKV, bodyKVsTail, bodyKVs, List.length_append, List.length_cons, List.length_nil]
    omega

theorem cost_len (e : PE) : ∀ pol, cost e + 7 ≤ 8 * (body pol e).length := by
  induction e using PE.induct with
  | ident n => intro pol; simp [cost, body]
  | dollar => intro pol; simp [cost, body]
  | lit l => intro pol; simp [cost, body]
  | bin op l r hl hr =>
    intro pol
    have := hl pol; have := hr pol
    have := wrapAt_len (lv (pol l) op.level) l.level (body pol l)
    have := wrapAt_len (lv (pol r) (op.level + 1)) r.level (body pol r)
    simp only [cost, body, List.length_append, List.length_cons, List.length_nil]; omega
  | un op e he =>
    intro pol
    have := he pol
    have := wrapAt_len (lv (pol e) 7) e.level (body pol e)
    simp only [cost, body, List.length_append, List.length_cons, List.length_nil]; omega
  | preInc op e he =>
    intro pol
    have := he pol
    have := wrapAt_len (lv (pol e) 7) e.level (body pol e)
    simp only [cost, body, List.length_append, List.length_cons, List.length_nil]; omega
  | postf op e he =>
    intro pol
    have := he pol
    have := wrapAt_len (lv (pol e) 8) e.level (body pol e)
    simp only [cost, body, List.length_append, List.length_cons, List.length_nil]; omega
  | isType e ty he =>
    intro pol
    have := he pol
    have := wrapAt_len (lv (pol e) 3) e.level (body pol e)
    simp only [cost, body, List.length_append, List.length_cons, List.length_nil]; omega
  | member e n he =>
    intro pol
    have := he pol
    have := wrapAt_len (lv (pol e) 8) e.level (body pol e)
    simp only [cost, body, List.length_append, List.length_cons, List.length_nil]; omega
  | index e i he hi =>
    intro pol
    have := he pol; have := hi pol
    have := wrapAt_len (lv (pol e) 8) e.level (body pol e)
    have := wrapAt_len (lv (pol i) 1) i.level (body pol i)
    simp only [cost, body, List.length_append, List.length_cons, List.length_nil]; omega
  | call f args hf hargs =>
    intro pol
    have := hf pol
    have := wrapAt_len (lv (pol f) 8) f.level (body pol f)
    have := (costs_len pol args hargs).2
    simp only [cost, body, List.length_append, List.length_cons, List.length_nil]; omega
  | arr items hitems =>
    intro pol
    have := (costs_len pol items hitems).2
    simp only [cost, body, List.length_append, List.length_cons, List.length_nil]; omega
  | obj items hitems =>
    intro pol
    have := (costsKV_len pol items hitems).2
    simp only [cost, body, List.length_append, List.length_cons, List.length_nil]; omega
  | assign op t v ht hv =>
    intro pol
    have := ht pol; have := hv pol
    have := wrapAt_len (lv (pol t) 8) t.level (body pol t)
    have := wrapAt_len (lv (pol v) 1) v.level (body pol v)
    simp only [cost, body, List.length_append, List.length_cons, List.length_nil]; omega

/-! ### the whole parse -/

/-- `ParseExpression()` on a rendering followed by the EOF token, with enough fuel -/
theorem parseExpression_render (e : PE) (hwf : e.wf = true) (pol : PE → Bool) (q : Nat) (hq : 1 ≤ q)
    (F : Nat) (hF : cost e + 4 ≤ F) :
    ∃ s', run (parseExpression T F) PS.init (render pol q e ++ [eofTok])
      = .ok ((toExpr e, s'), []) := by
  obtain ⟨t, ts', hcons⟩ := exists_cons (render pol q e) eofTok []
  rw [hcons]
  unfold parseExpression
  simp only [run_bind, run_advance_cons, ParseRes.bind_ok]
  obtain ⟨F1, s1, hs1, hF1, e1⟩ := renderOK e hwf pol q 1 eofTok [] (adv PS.init t) ts' F
    (by simpa using hcons.symm) hq (Or.inr (Nat.zero_le _)) (by omega)
  rw [show Prec.assign = 1 from rfl, e1]
  obtain ⟨k, rfl⟩ : ∃ k, F1 = k + 1 := ⟨F1 - 1, by omega⟩
  rw [loop_stop k 1 _ s1 _ (by rw [hs1]; decide)]
  simp only [ParseRes.bind_ok]
  rw [run_consume_nil _ _ (by rw [hs1]; rfl)]
  exact ⟨_, rfl⟩

/-- the parser inverts every rendering (any level `q ≥ 1`, minimal, full, or any redundant parenthesisation) -/
theorem parseToks_render (e : PE) (hwf : e.wf = true) (pol : PE → Bool) (q : Nat) (hq : 1 ≤ q) :
    parseToks (render pol q e) = .ok (toExpr e) := by
  have hF : cost e + 4 ≤ toksFuel (render pol q e) := by
    have := cost_len e pol
    have := wrapAt_len q e.level (body pol e)
    unfold toksFuel render; omega
  obtain ⟨s', h⟩ := parseExpression_render e hwf pol q hq _ hF
  unfold parseToks
  rw [PM.runWith_tokSrc, ← PM.runL_append_eof]
  unfold run at h
  rw [h]; rfl

/-! ### rendering equations (for reading off concrete token lists) -/

theorem wrapAt_ge (q lev : Nat) (ts : List Token) (h : q ≤ lev) : wrapAt q lev ts = ts := by
  unfold wrapAt; rw [if_neg (by omega)]

theorem wrapAt_lt (q lev : Nat) (ts : List Token) (h : lev < q) : wrapAt q lev ts = paren ts := by
  unfold wrapAt; rw [if_pos h]

theorem renderMin_bin (q : Nat) (op : BinOp) (l r : PE) :
    renderMin q (.bin op l r) = wrapAt q op.level
      (renderMin op.level l ++ [opTok op.tag] ++ renderMin (op.level + 1) r) := by
  simp only [renderMin, render, body, lv]; rfl

theorem renderMin_assign (q : Nat) (op : AsgOp) (t v : PE) :
    renderMin q (.assign op t v) = wrapAt q 1
      (renderMin 8 t ++ [opTok op.tag] ++ renderMin 1 v) := by
  simp only [renderMin, render, body, lv]; rfl

theorem renderMin_ident (q : Nat) (n : Bytes) (hq : q ≤ 10) : renderMin q (.ident n) = [identTok n] := by
  simp only [renderMin, render, body]; exact wrapAt_ge _ _ _ hq

end Jqawk.Pratt
