import Jqawk.Lemmas.JsonBytesTree
/-!
  Every number literal in a tree the decoder returns satisfies `NumLit` (it is grammatical and
  `numOk` accepted it — otherwise the decoder answers with an error): an invariant of the scanner.
-/
namespace Jqawk.JsonBytes
open Jqawk Jqawk.Json

/-- the number automaton run over some bytes -/
def numPath : Step → Bytes → Option Step
  | st, [] => some st
  | st, c :: cs => match numNext st c with | some st' => numPath st' cs | none => none

theorem numPath_snoc : ∀ (ds : Bytes) (st st' st'' : Step) (c : UInt8), numPath st ds = some st' →
    numNext st' c = some st'' → numPath st (ds ++ [c]) = some st'' := by
  intro ds
  induction ds with
  | nil => intro st st' st'' c h1 h2; simp only [numPath] at h1; cases h1; simp [numPath, h2]
  | cons x xs ih =>
    intro st st' st'' c h1 h2
    simp only [numPath, List.cons_append] at h1 ⊢
    cases hx : numNext st x with
    | none => simp [hx] at h1
    | some sn => simp only [hx] at h1 ⊢; exact ih sn st' st'' c h1 h2

theorem numAccepts_of_path : ∀ (ds : Bytes) (st st' : Step), numPath st ds = some st' → canEnd st' = true →
    numAccepts st ds = true := by
  intro ds
  induction ds with
  | nil => intro st st' h1 h2; simp only [numPath] at h1; cases h1; simpa [numAccepts] using h2
  | cons x xs ih =>
    intro st st' h1 h2
    simp only [numPath, numAccepts] at h1 ⊢
    cases hx : numNext st x with
    | none => simp [hx] at h1
    | some sn => simp only [hx] at h1 ⊢; exact ih sn st' h1 h2

theorem numLit_mono {g g' : Bytes → Bool} (h : ∀ l, g l = true → g' l = true) (lit : Bytes)
    (hl : NumLit g lit) : NumLit g' lit := by
  rw [numLit_iff] at hl ⊢
  exact ⟨hl.1, h lit hl.2⟩

mutual
theorem numsOK_mono {g g' : Bytes → Bool} (h : ∀ l, g l = true → g' l = true) :
    ∀ (j : JVal), NumsOK g j → NumsOK g' j
  | .null, _ => trivial
  | .bool _, _ => trivial
  | .str _, _ => trivial
  | .num lit, hl => numLit_mono h lit hl
  | .arr xs, hl => numsOKList_mono h xs hl
  | .obj ms, hl => numsOKMembers_mono h ms hl
theorem numsOKList_mono {g g' : Bytes → Bool} (h : ∀ l, g l = true → g' l = true) :
    ∀ (xs : List JVal), NumsOKList g xs → NumsOKList g' xs
  | [], _ => trivial
  | x :: xs, hl => ⟨numsOK_mono h x hl.1, numsOKList_mono h xs hl.2⟩
theorem numsOKMembers_mono {g g' : Bytes → Bool} (h : ∀ l, g l = true → g' l = true) :
    ∀ (ms : List (Bytes × JVal)), NumsOKMembers g ms → NumsOKMembers g' ms
  | [], _ => trivial
  | (_, v) :: ms, hl => ⟨numsOK_mono h v hl.1, numsOKMembers_mono h ms hl.2⟩
end

theorem numsOKList_iff (g : Bytes → Bool) (l : List JVal) : NumsOKList g l ↔ ∀ v ∈ l, NumsOK g v := by
  induction l with
  | nil => simp [NumsOKList]
  | cons x xs ih => simp [NumsOKList, ih]

theorem numsOKMembers_iff (g : Bytes → Bool) (l : List (Bytes × JVal)) :
    NumsOKMembers g l ↔ ∀ kv ∈ l, NumsOK g kv.2 := by
  induction l with
  | nil => simp [NumsOKMembers]
  | cons x xs ih => obtain ⟨k, v⟩ := x; simp [NumsOKMembers, ih]

def FrameN (g : Bytes → Bool) : Frame → Prop
  | .arr acc => ∀ v ∈ acc, NumsOK g v
  | .obj ms _ _ => ∀ kv ∈ ms, NumsOK g kv.2

def StepN (g : Bytes → Bool) : Step → Prop
  | .endTop v => NumsOK g v
  | .lit _ v => NumsOK g v
  | _ => True

/-- in a number state the literal read so far is a path of the number automaton -/
def NumProg (st : Step) (lit : Bytes) : Prop :=
  isNum st = true → ∃ b ds, lit.reverse = b :: ds ∧ (b == 0x2D || isDigit b) = true ∧
    numPath (firstNum b) ds = some st

structure StN (g : Bytes → Bool) (s : St) : Prop where
  stk : ∀ fr ∈ s.stack, FrameN g fr
  stp : StepN g s.step
  prog : NumProg s.step s.lit

/-- the outcome keeps the invariant and the `bad` flag `b` -/
def OutS (g : Bytes → Bool) (b : Bool) : Out → Prop
  | .cont s => StN g s ∧ s.bad = b
  | .done v bad _ => NumsOK g v ∧ bad = b
  | .err => True

theorem deliver_n (g : Bytes → Bool) (s : St) (v : JVal) (hs : ∀ fr ∈ s.stack, FrameN g fr) (hv : NumsOK g v) :
    StN g (deliver s v) ∧ (deliver s v).bad = s.bad := by
  unfold deliver
  split
  · rename_i h; exact ⟨⟨by simp [h], hv, fun hn => by simp [isNum] at hn⟩, rfl⟩
  · rename_i acc fs h
    rw [h] at hs
    refine ⟨⟨?_, trivial, fun hn => by simp [isNum] at hn⟩, rfl⟩
    intro fr hfr
    rcases List.mem_cons.1 hfr with rfl | hfr
    · intro w hw
      rcases List.mem_cons.1 hw with rfl | hw
      · exact hv
      · exact hs (.arr acc) (by simp) w hw
    · exact hs fr (by simp [hfr])
  · rename_i ms k fs h
    rw [h] at hs
    refine ⟨⟨?_, trivial, fun hn => by simp [isNum] at hn⟩, rfl⟩
    intro fr hfr
    rcases List.mem_cons.1 hfr with rfl | hfr
    · exact hs (.obj ms k false) (by simp)
    · exact hs fr (by simp [hfr])
  · rename_i ms k fs h
    rw [h] at hs
    refine ⟨⟨?_, trivial, fun hn => by simp [isNum] at hn⟩, rfl⟩
    intro fr hfr
    rcases List.mem_cons.1 hfr with rfl | hfr
    · intro kv hkv
      rcases mem_insertMember hkv with rfl | hkv
      · exact hv
      · exact hs (.obj ms k true) (by simp) kv hkv
    · exact hs fr (by simp [hfr])

theorem pop_n (g : Bytes → Bool) (s : St) (fs : List Frame) (v : JVal) (hfs : ∀ fr ∈ fs, FrameN g fr)
    (hv : NumsOK g v) : OutS g s.bad (pop s fs v) := by
  unfold pop
  split
  · exact ⟨hv, rfl⟩
  · exact deliver_n g _ v hfs hv

theorem endValue_n (g : Bytes → Bool) (s : St) (c : UInt8) (hs : ∀ fr ∈ s.stack, FrameN g fr) :
    OutS g s.bad (endValue s c) := by
  unfold endValue
  split
  · exact ⟨⟨hs, trivial, fun hn => by simp [isNum] at hn⟩, rfl⟩
  · split
    · trivial
    · rename_i ms k fs h
      rw [h] at hs
      split
      · refine ⟨⟨?_, trivial, fun hn => by simp [isNum] at hn⟩, rfl⟩
        intro fr hfr
        rcases List.mem_cons.1 hfr with rfl | hfr
        · exact hs (.obj ms k false) (by simp)
        · exact hs fr (by simp [hfr])
      · trivial
    · rename_i ms k fs h
      rw [h] at hs
      split
      · refine ⟨⟨?_, trivial, fun hn => by simp [isNum] at hn⟩, rfl⟩
        intro fr hfr
        rcases List.mem_cons.1 hfr with rfl | hfr
        · exact hs (.obj ms k true) (by simp)
        · exact hs fr (by simp [hfr])
      · split
        · exact pop_n g s fs (.obj ms) (fun fr hfr => hs fr (by simp [hfr]))
            ((numsOKMembers_iff g ms).2 (hs (.obj ms k true) (by simp)))
        · trivial
    · rename_i acc fs h
      rw [h] at hs
      split
      · exact ⟨⟨by rw [h]; exact hs, trivial, fun hn => by simp [isNum] at hn⟩, rfl⟩
      · split
        · exact pop_n g s fs (.arr acc.reverse) (fun fr hfr => hs fr (by simp [hfr]))
            ((numsOKList_iff g _).2 fun w hw => hs (.arr acc) (by simp) w (by simpa using hw))
        · trivial

theorem more_n (g : Bytes → Bool) (s : St) (c : UInt8) (next : Step) (hs : ∀ fr ∈ s.stack, FrameN g fr)
    (hn : StepN g next) (hnn : isNum next = false) : OutS g s.bad (more s c next) :=
  ⟨⟨hs, hn, fun h => by simp only at h; rw [hnn] at h; cases h⟩, rfl⟩

theorem afterValue_n (g : Bytes → Bool) (s : St) (c : UInt8) (hs : StN g s) : OutS g s.bad (afterValue s c) := by
  unfold afterValue
  split
  · rename_i v h; have := hs.stp; rw [h] at this; exact ⟨this, rfl⟩
  · exact endValue_n g s c hs.stk

theorem push_n (g : Bytes → Bool) (s : St) (fr : Frame) (next : Step) (hs : ∀ fr ∈ s.stack, FrameN g fr)
    (hfr : FrameN g fr) (hn : StepN g next) (hnn : isNum next = false) : OutS g s.bad (push s fr next) := by
  unfold push
  split
  · refine ⟨⟨?_, hn, fun h => by simp only at h; rw [hnn] at h; cases h⟩, rfl⟩
    intro fr' h
    rcases List.mem_cons.1 h with rfl | h
    · exact hfr
    · exact hs fr' h
  · trivial

theorem beginValue_n (g : Bytes → Bool) (s : St) (c : UInt8) (h : StN g s) :
    OutS g s.bad (beginValue s c) := by
  have hs := h.stk
  unfold beginValue
  split
  · exact ⟨h, rfl⟩
  split
  · exact push_n g s _ _ hs (by simp [FrameN]) trivial rfl
  split
  · exact push_n g s _ _ hs (by simp [FrameN]) trivial rfl
  split
  · exact ⟨⟨hs, trivial, fun hn => by simp [isNum] at hn⟩, rfl⟩
  split
  · rename_i h2D
    refine ⟨⟨hs, trivial, fun _ => ⟨c, [], by simp, by simp [h2D], ?_⟩⟩, rfl⟩
    simp [numPath, firstNum, h2D]
  split
  · rename_i h2D h30
    simp only [beq_iff_eq] at h30
    subst h30
    exact ⟨⟨hs, trivial, fun _ => ⟨0x30, [], by simp, by decide, rfl⟩⟩, rfl⟩
  split
  · exact ⟨⟨hs, trivial, fun hn => by simp [isNum] at hn⟩, rfl⟩
  split
  · exact ⟨⟨hs, trivial, fun hn => by simp [isNum] at hn⟩, rfl⟩
  split
  · exact ⟨⟨hs, trivial, fun hn => by simp [isNum] at hn⟩, rfl⟩
  split
  · rename_i h2D h30 _ _ _ hdig
    refine ⟨⟨hs, trivial, fun _ => ⟨c, [], by simp, by simp [hdig], ?_⟩⟩, rfl⟩
    simp [numPath, firstNum, h2D, h30]
  · trivial

theorem beginString_n (g : Bytes → Bool) (s : St) (c : UInt8) (h : StN g s) : OutS g s.bad (beginString s c) := by
  unfold beginString
  repeat' split
  · exact ⟨h, rfl⟩
  · exact ⟨⟨h.stk, trivial, fun hn => by simp [isNum] at hn⟩, rfl⟩
  · trivial

theorem frameN_mono {g g' : Bytes → Bool} (h : ∀ l, g l = true → g' l = true) (fr : Frame)
    (hf : FrameN g fr) : FrameN g' fr := by
  cases fr with
  | arr acc => exact fun v hv => numsOK_mono h v (hf v hv)
  | obj ms k b => exact fun kv hkv => numsOK_mono h kv.2 (hf kv hkv)

/-- the invariant: every number so far is grammatical, and accepted by `f` unless `bad` is set -/
def Inv (f : Bytes → Bool) (s : St) : Prop := StN (fun lit => s.bad || f lit) s

def OutI (f : Bytes → Bool) : Out → Prop
  | .cont s => Inv f s
  | .done v bad _ => NumsOK (fun lit => bad || f lit) v
  | .err => True

theorem outS_outI (f : Bytes → Bool) (b : Bool) (out : Out) (h : OutS (fun lit => b || f lit) b out) :
    OutI f out := by
  cases out with
  | cont s' => obtain ⟨h1, h2⟩ := h; simp only [OutI, Inv]; rw [h2]; exact h1
  | done v bad c => obtain ⟨h1, h2⟩ := h; simp only [OutI]; rw [h2]; exact h1
  | err => trivial

theorem endNumber_inv (f : Bytes → Bool) (s : St) (c : UInt8) (h : Inv f s) (hn : isNum s.step = true)
    (hce : canEnd s.step = true) : OutI f (endNumber f s c) := by
  unfold endNumber
  have hmono : ∀ l, (s.bad || f l) = true → ((s.bad || !f s.lit.reverse) || f l) = true := by
    intro l hl; cases hb : s.bad <;> simp_all
  have hs' : ∀ fr ∈ s.stack, FrameN (fun lit => (s.bad || !f s.lit.reverse) || f lit) fr :=
    fun fr hfr => frameN_mono hmono fr (h.stk fr hfr)
  have hv : NumsOK (fun lit => (s.bad || !f s.lit.reverse) || f lit) (.num s.lit.reverse) := by
    simp only [NumsOK]
    rw [numLit_iff]
    obtain ⟨b, ds, hl, hb, hp⟩ := h.prog hn
    constructor
    · rw [hl]; simp only [numGrammar, hb, Bool.true_and]
      exact numAccepts_of_path ds _ _ hp hce
    · cases f s.lit.reverse <;> simp
  obtain ⟨h1, h2⟩ := deliver_n _ { s with lit := [], bad := s.bad || !f s.lit.reverse } (.num s.lit.reverse) hs' hv
  have := afterValue_n _ _ c h1
  rw [h2] at this
  exact outS_outI f _ _ this

theorem stepN_of_isNum (g : Bytes → Bool) (st : Step) (h : isNum st = true) : StepN g st := by
  cases st <;> first | trivial | (simp [isNum] at h)

theorem step_inv (f : Bytes → Bool) (s : St) (c : UInt8) (h : Inv f s) : OutI f (step f s c) := by
  by_cases hn : isNum s.step = true
  · obtain ⟨st, stk, dp, lit, bad⟩ := s
    simp only at hn
    rw [step_num f st hn]
    cases hnx : numNext st c with
    | some st' =>
      simp only
      refine ⟨h.stk, stepN_of_isNum _ st' (numNext_isNum hnx), fun _ => ?_⟩
      obtain ⟨b, ds, hl, hb, hp⟩ := h.prog hn
      simp only at hl
      exact ⟨b, ds ++ [c], by simp [hl], hb, numPath_snoc ds _ st st' c hp hnx⟩
    | none =>
      simp only
      cases hce : canEnd st with
      | true => simp only [if_true]; exact endNumber_inv f _ c h hn hce
      | false => simp [OutI]
  · have hs := h.stk
    unfold step
    split
    · exact outS_outI f _ _ (beginValue_n _ s c h)
    · split
      · exact h
      · split
        · exact outS_outI f _ _ (endValue_n _ s c hs)
        · exact outS_outI f _ _ (beginValue_n _ s c h)
    · split
      · exact h
      · split
        · split
          · rename_i ms k b fs hstk
            refine outS_outI f s.bad _ (endValue_n _ { s with stack := .obj ms k true :: fs } c ?_)
            intro fr hfr
            rw [hstk] at hs
            rcases List.mem_cons.1 hfr with rfl | hfr
            · exact hs (.obj ms k b) (by simp)
            · exact hs fr (by simp [hfr])
          · trivial
        · exact outS_outI f _ _ (beginString_n _ s c h)
    · exact outS_outI f _ _ (beginString_n _ s c h)
    · exact outS_outI f _ _ (endValue_n _ s c hs)
    · rename_i v hv; have := h.stp; rw [hv] at this; exact this
    · repeat' split
      · exact outS_outI f s.bad _ (deliver_n _ { s with lit := [] } _ hs trivial)
      · exact outS_outI f _ _ (more_n _ s c _ hs trivial rfl)
      · trivial
      · exact outS_outI f _ _ (more_n _ s c _ hs trivial rfl)
    · repeat' split
      · exact outS_outI f _ _ (more_n _ s c _ hs trivial rfl)
      · exact outS_outI f _ _ (more_n _ s c _ hs trivial rfl)
      · trivial
    · split
      · refine outS_outI f _ _ (more_n _ s c _ hs ?_ ?_)
        · split <;> trivial
        · split <;> rfl
      · trivial
    case h_18 rest v hv =>
      have hst := h.stp
      rw [hv] at hst
      split
      · trivial
      · split
        · exact outS_outI f s.bad _ (deliver_n _ s v hs hst)
        · trivial
      · split
        · exact ⟨hs, hst, fun hn' => by simp [isNum] at hn'⟩
        · trivial
    all_goals (rename_i hst; rw [hst] at hn; simp [isNum] at hn)

theorem run_inv (f : Bytes → Bool) (t : Tail) : ∀ (inp : Bytes) (s : St) (v : JVal) (rest : Bytes), Inv f s →
    run f s inp t = .value v rest → NumsOK f v := by
  intro inp
  induction inp with
  | nil =>
    intro s v rest hs h
    cases t with
    | more => simp [run] at h
    | ioerr => simp [run] at h
    | eof =>
      simp only [run] at h
      have hok := step_inv f s 0x20 hs
      cases hst : step f s 0x20 with
      | cont s' => simp [hst] at h
      | err => simp [hst] at h
      | done w bad consumed =>
        rw [hst] at h hok
        cases bad with
        | true => simp at h
        | false =>
          simp only [DecodeRes.value.injEq] at h
          rw [← h.1]
          exact numsOK_mono (fun l hl => by simpa using hl) w hok
  | cons c cs ih =>
    intro s v rest hs h
    simp only [run] at h
    have hok := step_inv f s c hs
    cases hst : step f s c with
    | cont s' => rw [hst] at h hok; exact ih s' v rest hok h
    | err => simp [hst] at h
    | done w bad consumed =>
      rw [hst] at h hok
      cases bad with
      | true => simp at h
      | false =>
        simp only [Bool.false_eq_true, if_false, DecodeRes.value.injEq] at h
        rw [← h.1]
        exact numsOK_mono (fun l hl => by simpa using hl) w hok

/-- every number literal in a document the decoder returns is read back as itself (`NumLit`): it
    matches the number grammar and `numOk` accepted it -/
theorem decodeOne_numsOK (f : Bytes → Bool) (inp : Bytes) (t : Tail) (v : JVal) (rest : Bytes)
    (h : decodeOne f inp t = .value v rest) : NumsOK f v := by
  unfold decodeOne at h
  split at h
  · cases h
  · cases h
  · cases h
  · exact run_inv f _ _ St.init v rest
      ⟨by simp [St.init], trivial, fun hn => by simp [St.init, isNum] at hn⟩ h

end Jqawk.JsonBytes
