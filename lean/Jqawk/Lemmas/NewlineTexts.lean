/-
  C13, newline insertion for program texts without a `/` byte (no regex literal can be requested,
  so the token sequence of a text does not depend on the parser): the lexer from a text is
  similar up to positions to the list source over the text's flagged token list (`lexFlags`).
-/
import Jqawk.Lemmas.NewlineTokens
import Jqawk.Lemmas.NewlineLayout

namespace Jqawk
namespace Nl
open Lexer

/-- like `flagSrc`, but every `regex` request fails the way the lexer fails on a text without
    a `/` -/
def flagSrcNR : TokSrc (List (Token × Bool)) where
  next := fun ts => match ts with
    | [] => .ok (eofTok, false, [])
    | (t, nl) :: ts => .ok (t, nl, ts)
  regex := fun _ => .error ⟨0, "unexpected EOF while reading regex"⟩

theorem flagSrcNR_isNlSim : IsNlSim flagSrcNR flagSrcNR NlMoreAt where
  next := by
    intro g ts ts' h t nl s₁' h₁
    cases ts with
    | nil =>
      cases ts' with
      | nil =>
        simp only [flagSrcNR, Except.ok.injEq, Prod.mk.injEq] at h₁
        obtain ⟨rfl, rfl, rfl⟩ := h₁
        exact ⟨false, [], rfl, .inl rfl, nlMoreAt_nil _⟩
      | cons x r' => obtain ⟨t', nl'⟩ := x; simp [NlMoreAt, nlMoreB] at h
    | cons x r =>
      obtain ⟨t₀, nl₀⟩ := x
      cases ts' with
      | nil => simp [NlMoreAt, nlMoreB] at h
      | cons x' r' =>
        obtain ⟨t', nl'⟩ := x'
        simp only [flagSrcNR, Except.ok.injEq, Prod.mk.injEq] at h₁
        obtain ⟨rfl, rfl, rfl⟩ := h₁
        obtain ⟨rfl, hfl, hr⟩ := nlMoreAt_cons h
        exact ⟨nl', r', rfl, hfl, hr⟩
  regex := by
    intro g ts ts' h t s₁' h₁
    simp [flagSrcNR] at h₁

theorem next_suffix (s : LexState) (t : Token) (s' : LexState) (h : next s = .ok (t, s')) :
    ∃ pre, s.rest = pre ++ s'.rest := by
  obtain ⟨ws, r, h1, _, h3⟩ := next_cases s
  rw [h3] at h
  cases r with
  | nil => cases h; exact ⟨s.rest, by simp⟩
  | cons c cs =>
    obtain ⟨tok, _, h4, _⟩ := (lexAt_res c cs _).consumed h
    exact ⟨ws ++ tok, by rw [h1, h4, List.append_assoc]⟩

theorem next_eof_rest (s : LexState) (t : Token) (s' : LexState) (h : next s = .ok (t, s'))
    (ht : t.tag = .eof) : s'.rest = [] := by
  obtain ⟨ws, r, h1, _, h3⟩ := next_cases s
  rw [h3] at h
  cases r with
  | nil => cases h; rfl
  | cons c cs => exact absurd ht ((lexAt_res c cs _).ne_eof h)

theorem nextNN_suffix (f : Nat) (s : LexState) (nl₀ : Bool) (t : Token) (nl : Bool) (s' : LexState)
    (h : nextNN f s nl₀ = .ok (t, nl, s')) :
    (∃ pre, s.rest = pre ++ s'.rest) ∧ (t.tag = .eof → s'.rest = []) := by
  induction f generalizing s nl₀ with
  | zero => cases h
  | succ f ih =>
    simp only [nextNN] at h
    cases hn : next s with
    | error e => rw [hn] at h; cases h
    | ok r =>
      obtain ⟨t₁, s₁⟩ := r
      rw [hn] at h
      dsimp only at h
      obtain ⟨pre₁, hp₁⟩ := next_suffix s t₁ s₁ hn
      split at h
      · obtain ⟨⟨pre₂, hp₂⟩, he⟩ := ih _ _ h
        exact ⟨⟨pre₁ ++ pre₂, by rw [hp₁, hp₂, List.append_assoc]⟩, he⟩
      · simp only [Except.ok.injEq, Prod.mk.injEq] at h
        obtain ⟨rfl, _, rfl⟩ := h
        exact ⟨⟨pre₁, hp₁⟩, fun ht => next_eof_rest s _ _ hn ht⟩

theorem regex_no_slash (s : LexState) (h : (47 : UInt8) ∉ s.rest) :
    regex s = .error ⟨s.tokenStart, "unexpected EOF while reading regex"⟩ := by
  unfold regex
  rw [(scanTo_none_iff 47 s.rest).mpr h]

/-- the lexer state `s` (no `/` ahead) and the flagged token list `ts` of its unread text -/
def LexRel (s : LexState) (ts : List (Token × Bool)) : Prop :=
  (47 : UInt8) ∉ s.rest ∧ ((∃ fuel, lexFlags fuel s = some ts) ∨ (s.rest = [] ∧ ts = []))

theorem erase_erase (t : Token) : erase (Token.erase t) = erase t := rfl

theorem lexRel_isSimE : PM.IsSimE lexerSrc flagSrcNR LexRel where
  next := by
    rintro s ts ⟨h47, h | ⟨hr, rfl⟩⟩
    · obtain ⟨fuel, hl⟩ := h
      cases fuel with
      | zero => cases hl
      | succ fuel =>
        rw [lexFlags] at hl
        show PM.AnsNextE _ (nextNN (s.rest.length + 1) s false) _
        cases hn : nextNN (s.rest.length + 1) s false with
        | error e => rw [hn] at hl; cases hl
        | ok r =>
          obtain ⟨t, nl, s'⟩ := r
          rw [hn] at hl
          dsimp only at hl
          obtain ⟨⟨pre, hpre⟩, heof⟩ := nextNN_suffix _ _ _ _ _ _ hn
          have h47' : (47 : UInt8) ∉ s'.rest := fun hm => h47 (by rw [hpre]; simp [hm])
          split at hl
          · rename_i ht
            simp only [Option.some.injEq] at hl
            subst hl
            exact ⟨(erase_erase t).symm, rfl, h47', .inr ⟨heof (by simpa using ht), rfl⟩⟩
          · cases hr : lexFlags fuel s' with
            | none => rw [hr] at hl; cases hl
            | some r =>
              rw [hr] at hl
              simp only [Option.some.injEq] at hl
              subst hl
              exact ⟨(erase_erase t).symm, rfl, h47', .inl ⟨fuel, hr⟩⟩
    · show PM.AnsNextE _ (nextNN (s.rest.length + 1) s false) _
      rw [hr]
      have : next s = .ok (⟨.eof, s.tokenStart, []⟩, ⟨[], s.pos, s.tokenStart⟩) := by
        rw [next_eq]; simp [hr, skipWs]
      simp only [List.length_nil, nextNN, this]
      exact ⟨rfl, rfl, by simp, .inr ⟨rfl, rfl⟩⟩
  regex := by
    rintro s ts ⟨h47, _⟩
    show PM.AnsRegexE _ (regex s) _
    rw [regex_no_slash s h47]
    exact rfl

/-- the program parser on a flagged token list, `regex` requests failing -/
def parseFlagsNR (tbl : RuleTable) (n : Nat) (ts : List (Token × Bool)) : ParseRes Program :=
  match (Parser.parseProgram tbl n PS.init).runWith flagSrcNR ts with
  | .ok (p, _) => .ok p
  | .syntaxErr e => .syntaxErr e
  | .oof => .oof

end Nl
end Jqawk
