/-
  `Unshared` / `ElemsPlain` as invariants of evaluation (C15): definitions and the heap-level steps.

  The invariant `Inv h` is `Heap.WF`, `Unshared`, `ElemsPlain` and `MembersPlain` (object members
  are plain too: needed because `for (v, k in obj)` copies a member's raw value into the index
  variable, whose cell may be an array element).  Between two states of one evaluation the relation
  `Trans h h'` holds: the heap only grows, a cell holding a plain value keeps holding plain values,
  and no cell that existed in `h` becomes an array element in `h'` unless it was one in `h`.
-/
import Jqawk.Lemmas.IndexWrite

set_option linter.unusedVariables false
set_option linter.unusedSimpArgs false

namespace Jqawk.HeapInv
open Jqawk Jqawk.IndexWrite

/-- every member of every object is plain -/
def MembersPlain (h : Heap) : Prop := ∀ o k c, (k, c) ∈ h.obj o → Plain (h.get c)

/-- the heap invariant -/
structure Inv (h : Heap) : Prop where
  wf : h.WF
  un : Unshared h
  ep : ElemsPlain h
  mp : MembersPlain h

/-- what holds in every end state, also after a runtime error -/
def Weak (h : Heap) : Prop := h.WF ∧ Unshared h

theorem Inv.weak {h : Heap} (i : Inv h) : Weak h := ⟨i.wf, i.un⟩

/-- `c` is not an element of any array -/
def NotElem (h : Heap) (c : CellId) : Prop := ∀ b, c ∉ (h.arr b).toList

/-- what relates two states of one evaluation -/
structure Trans (h h' : Heap) : Prop where
  size : h.cells.size ≤ h'.cells.size
  plain : ∀ c : Nat, c < h.cells.size → Plain (h.get c) → Plain (h'.get c)
  elems : ∀ b (c : Nat), c ∈ (h'.arr b).toList → c < h.cells.size → ∃ b', c ∈ (h.arr b').toList

theorem Trans.refl (h : Heap) : Trans h h := ⟨Nat.le_refl _, fun _ _ p => p, fun b c hc _ => ⟨b, hc⟩⟩

theorem Trans.trans {a b c : Heap} (h1 : Trans a b) (h2 : Trans b c) : Trans a c :=
  ⟨Nat.le_trans h1.size h2.size,
   fun d hd p => h2.plain d (Nat.lt_of_lt_of_le hd h1.size) (h1.plain d hd p),
   fun x d hd hlt => by
     obtain ⟨b', hb'⟩ := h2.elems x d hd (Nat.lt_of_lt_of_le hlt h1.size)
     exact h1.elems b' d hb' hlt⟩

theorem Trans.notElem {h h' : Heap} (t : Trans h h') {c : Nat} (hc : c < h.cells.size)
    (ne : NotElem h c) : NotElem h' c := fun b hb => by
  obtain ⟨b', hb'⟩ := t.elems b c hb hc
  exact ne b' hb'

theorem plain_unknown : Plain .unknown := ⟨rfl, fun _ _ _ h => by cases h⟩
theorem plain_nilNone : Plain (.nil none) := ⟨rfl, fun _ _ _ h => by cases h⟩
theorem plain_num (x : F64) : Plain (.num x) := ⟨rfl, fun _ _ _ h => by cases h⟩
theorem plain_bool (x : Bool) : Plain (.bool x) := ⟨rfl, fun _ _ _ h => by cases h⟩
theorem plain_strNone (x : Bytes) : Plain (.str x none) := ⟨rfl, fun _ _ _ h => by cases h⟩
theorem plain_arr (x : ArrId) : Plain (.arr x) := ⟨rfl, fun _ _ _ h => by cases h⟩
theorem plain_obj (x : ObjId) : Plain (.obj x) := ⟨rfl, fun _ _ _ h => by cases h⟩

/-- a cell outside the heap reads as `unknown` -/
theorem get_oob (h : Heap) (c : Nat) (hc : h.cells.size ≤ c) : h.get c = .unknown := by
  simp [Heap.get, Array.getD_eq_getD_getElem?, Array.getElem?_eq_none hc]

/-! ### the empty heap -/

theorem inv_empty : Inv Heap.empty :=
  ⟨Heap.WF.empty,
   fun a b i j hi _ _ => by simp [Heap.empty, Heap.arr] at hi,
   fun a c hc => by simp [Heap.empty, Heap.arr] at hc,
   fun o k c hc => by simp [Heap.empty, Heap.obj] at hc⟩

/-! ### allocation of a cell (any value) -/

theorem get_alloc_old (h : Heap) (v : Val) (c : Nat) (hc : c < h.cells.size) :
    (h.alloc v).2.get c = h.get c := Heap.get_push_old h v c hc

theorem get_alloc_new (h : Heap) (v : Val) : (h.alloc v).2.get h.cells.size = v := Heap.get_push_new h v

theorem size_alloc (h : Heap) (v : Val) : (h.alloc v).2.cells.size = h.cells.size + 1 := by
  simp [Heap.alloc]

theorem inv_alloc {h : Heap} (i : Inv h) (v : Val) : Inv (h.alloc v).2 :=
  ⟨wf_alloc h i.wf v, unshared_alloc h i.un v, elemsPlain_alloc h i.wf i.ep v,
   fun o k c hc => by
     have : (h.alloc v).2.get c = h.get c := Heap.get_push_old h v c (i.wf.objs o k c hc)
     rw [this]; exact i.mp o k c hc⟩

theorem trans_alloc (h : Heap) (v : Val) : Trans h (h.alloc v).2 :=
  ⟨by rw [size_alloc]; exact Nat.le_succ _,
   fun c hc p => by rw [get_alloc_old h v c hc]; exact p,
   fun b c hc _ => ⟨b, hc⟩⟩

/-! ### writing a plain value into a cell -/

theorem get_set (h : Heap) (c d : Nat) (w : Val) :
    (h.set d w).get c = if c = d ∧ d < h.cells.size then w else h.get c := by
  by_cases e : c = d
  · subst e
    by_cases hd : c < h.cells.size
    · simp only [hd, and_self, ↓reduceIte]; exact Heap.get_set_same' h c w hd
    · simp only [hd, and_false, ↓reduceIte]
      rw [get_oob h c (Nat.le_of_not_lt hd), get_oob]
      rw [Heap.size_set]; exact Nat.le_of_not_lt hd
  · simp only [e, false_and, ↓reduceIte]; exact Heap.get_set_ne' h c d w e

theorem plain_get_set {h : Heap} {c d : Nat} {w : Val} (hw : Plain w) (hp : Plain (h.get c)) :
    Plain ((h.set d w).get c) := by
  rw [get_set]; split
  · exact hw
  · exact hp

theorem inv_set {h : Heap} (i : Inv h) (d : Nat) {w : Val} (hw : Plain w) : Inv (h.set d w) :=
  ⟨Heap.WF.set' i.wf d w, i.un,
   fun a c hc => plain_get_set hw (i.ep a c hc),
   fun o k c hc => plain_get_set hw (i.mp o k c hc)⟩

/-- writing ANY value into a cell that is neither an array element nor an object member -/
theorem inv_set_notElem {h : Heap} (i : Inv h) (d : Nat) (w : Val) (ne : NotElem h d)
    (nm : ∀ o k, (k, d) ∉ h.obj o) : Inv (h.set d w) :=
  ⟨Heap.WF.set' i.wf d w, i.un,
   fun a c hc => by
     rw [get_set]; split
     · next e => exact absurd (e.1 ▸ hc) (ne a)
     · exact i.ep a c hc,
   fun o k c hc => by
     rw [get_set]; split
     · next e => exact absurd (e.1 ▸ hc) (nm o k)
     · exact i.mp o k c hc⟩

theorem trans_set (h : Heap) (d : Nat) {w : Val} (hw : Plain w) : Trans h (h.set d w) :=
  ⟨by rw [Heap.size_set]; exact Nat.le_refl _,
   fun c _ p => plain_get_set hw p,
   fun b c hc _ => ⟨b, hc⟩⟩

theorem set_set (h : Heap) (d : Nat) (v w : Val) : (h.set d v).set d w = h.set d w := by
  simp [Heap.set, Array.setIfInBounds_setIfInBounds]

/-- writing any value into a cell keeps the weak invariant -/
theorem weak_set {h : Heap} (k : Weak h) (d : Nat) (w : Val) : Weak (h.set d w) :=
  ⟨Heap.WF.set' k.1 d w, k.2⟩

/-- and the weak invariant does not depend on what a cell holds -/
theorem weak_of_set {h : Heap} {d : Nat} {w : Val} (k : Weak (h.set d w)) : Weak h :=
  ⟨⟨fun a c hc => by have := k.1.arrs a c hc; rwa [Heap.size_set] at this,
    fun o x c hc => by have := k.1.objs o x c hc; rwa [Heap.size_set] at this⟩, k.2⟩

/-! ### a new array of cells that are nobody's elements -/

theorem arr_allocArr_new (h : Heap) (items : Array CellId) :
    (h.allocArr items).2.arr h.arrs.size = items := by
  simp [Heap.allocArr, Heap.arr, Array.getD_eq_getD_getElem?]

theorem arr_allocArr_old (h : Heap) (items : Array CellId) (b : Nat) (hb : b ≠ h.arrs.size) :
    (h.allocArr items).2.arr b = h.arr b := by
  simp only [Heap.allocArr, Heap.arr, Array.getD_eq_getD_getElem?]
  rw [Array.getElem?_push]
  simp [hb]

theorem arr_oob (h : Heap) (b : Nat) (hb : h.arrs.size ≤ b) : h.arr b = #[] := by
  simp [Heap.arr, Array.getD_eq_getD_getElem?, Array.getElem?_eq_none hb]

theorem getD_mem_of_lt (xs : Array CellId) (i : Nat) (hi : i < xs.size) : xs.getD i 0 ∈ xs.toList := by
  simp only [Array.getD_eq_getD_getElem?, Array.getElem?_eq_getElem hi, Option.getD_some]
  exact Array.mem_toList_iff.mpr (Array.getElem_mem hi)

theorem inv_allocArr {h : Heap} (i : Inv h) (cells : List CellId) (nd : cells.Nodup)
    (hc : ∀ c ∈ cells, c < h.cells.size ∧ Plain (h.get c) ∧ NotElem h c) :
    Inv (h.allocArr cells.toArray).2 := by
  have hget : ∀ c, (h.allocArr cells.toArray).2.get c = h.get c := fun _ => rfl
  have hobj : ∀ o, (h.allocArr cells.toArray).2.obj o = h.obj o := fun _ => rfl
  have hsz : (h.allocArr cells.toArray).2.cells.size = h.cells.size := rfl
  refine ⟨⟨?_, ?_⟩, ?_, ?_, ?_⟩
  · intro a c hca
    by_cases ha : a = h.arrs.size
    · subst ha; rw [arr_allocArr_new] at hca
      exact (hc c (by simpa using hca)).1
    · rw [arr_allocArr_old h _ a ha] at hca; exact i.wf.arrs a c hca
  · intro o k c hco; exact i.wf.objs o k c hco
  · intro a b x y hx hy e
    by_cases ha : a = h.arrs.size <;> by_cases hb : b = h.arrs.size
    · subst ha; subst hb
      refine ⟨rfl, ?_⟩
      rw [arr_allocArr_new] at hx hy e
      have hx' : x < cells.length := by simpa using hx
      have hy' : y < cells.length := by simpa using hy
      simp only [Array.getD_eq_getD_getElem?, List.getElem?_toArray, List.getElem?_eq_getElem hx',
        List.getElem?_eq_getElem hy', Option.getD_some] at e
      exact (List.getElem_inj nd).mp e
    · subst ha
      rw [arr_allocArr_new] at hx e
      rw [arr_allocArr_old h _ b hb] at hy e
      have m1 : cells.toArray.getD x 0 ∈ cells := by
        have := getD_mem_of_lt cells.toArray x hx; simpa using this
      rw [e] at m1
      exact absurd (getD_mem_of_lt _ y hy) ((hc _ m1).2.2 b)
    · subst hb
      rw [arr_allocArr_new] at hy e
      rw [arr_allocArr_old h _ a ha] at hx e
      have m1 : cells.toArray.getD y 0 ∈ cells := by
        have := getD_mem_of_lt cells.toArray y hy; simpa using this
      rw [← e] at m1
      exact absurd (getD_mem_of_lt _ x hx) ((hc _ m1).2.2 a)
    · rw [arr_allocArr_old h _ a ha] at hx e
      rw [arr_allocArr_old h _ b hb] at hy e
      exact i.un a b x y hx hy e
  · intro a c hca
    rw [hget]
    by_cases ha : a = h.arrs.size
    · subst ha; rw [arr_allocArr_new] at hca
      exact (hc c (by simpa using hca)).2.1
    · rw [arr_allocArr_old h _ a ha] at hca; exact i.ep a c hca
  · intro o k c hco; rw [hget]; exact i.mp o k c hco

/-- relative to an earlier heap `h0` in which none of the cells existed -/
theorem trans_allocArr {h0 h : Heap} (t : Trans h0 h) (cells : List CellId)
    (hc : ∀ c ∈ cells, h0.cells.size ≤ c) : Trans h0 (h.allocArr cells.toArray).2 :=
  ⟨t.size, t.plain, fun b c hcb hlt => by
    by_cases hb : b = h.arrs.size
    · subst hb; rw [arr_allocArr_new] at hcb
      have := hc c (by simpa using hcb)
      exact absurd hlt (Nat.not_lt.mpr this)
    · rw [arr_allocArr_old h _ b hb] at hcb; exact t.elems b c hcb hlt⟩

/-! ### a new object of plain members -/

theorem obj_allocObj_new (h : Heap) (m : List (Bytes × CellId)) :
    (h.allocObj m).2.obj h.objs.size = m := by
  simp [Heap.allocObj, Heap.obj, Array.getD_eq_getD_getElem?]

theorem obj_allocObj_old (h : Heap) (m : List (Bytes × CellId)) (o : Nat) (ho : o ≠ h.objs.size) :
    (h.allocObj m).2.obj o = h.obj o := by
  simp only [Heap.allocObj, Heap.obj, Array.getD_eq_getD_getElem?]
  rw [Array.getElem?_push]
  simp [ho]

theorem inv_allocObj {h : Heap} (i : Inv h) (m : List (Bytes × CellId))
    (hm : ∀ kc ∈ m, kc.2 < h.cells.size ∧ Plain (h.get kc.2)) : Inv (h.allocObj m).2 := by
  refine ⟨⟨fun a c hc => i.wf.arrs a c hc, ?_⟩, i.un, i.ep, ?_⟩
  · intro o k c hc
    by_cases ho : o = h.objs.size
    · subst ho; rw [obj_allocObj_new] at hc; exact (hm _ hc).1
    · rw [obj_allocObj_old h m o ho] at hc; exact i.wf.objs o k c hc
  · intro o k c hc
    show Plain (h.get c)
    by_cases ho : o = h.objs.size
    · subst ho; rw [obj_allocObj_new] at hc; exact (hm _ hc).2
    · rw [obj_allocObj_old h m o ho] at hc; exact i.mp o k c hc

theorem trans_allocObj (h : Heap) (m : List (Bytes × CellId)) : Trans h (h.allocObj m).2 :=
  ⟨Nat.le_refl _, fun _ _ p => p, fun b c hc _ => ⟨b, hc⟩⟩

theorem mem_objInsert {m : List (Bytes × CellId)} {k : Bytes} {c : CellId} {kc : Bytes × CellId}
    (h : kc ∈ objInsert m k c) : kc ∈ m ∨ kc.2 = c := by
  induction m with
  | nil => simp [objInsert] at h; right; rw [h]
  | cons x rest ih =>
    obtain ⟨k0, c0⟩ := x
    simp only [objInsert] at h
    split at h
    · rcases List.mem_cons.mp h with h | h
      · right; rw [h]
      · left; exact List.mem_cons_of_mem _ h
    · rcases List.mem_cons.mp h with h | h
      · left; rw [h]; exact List.mem_cons_self
      · rcases ih h with h | h
        · left; exact List.mem_cons_of_mem _ h
        · right; exact h

/-! ### the result predicate and the Hoare-style judgement -/

/-- on a normal result or a control signal (break/continue/return/next/exit — evaluation goes on
    after these) the invariant holds again and the state is `Trans`-related to the start; after a
    runtime error, panic or unmodelled construct (evaluation stops) only the weak invariant is
    claimed (`ElemsPlain` can fail there) -/
def Post {α : Type} (R : α → Heap → Prop) (h : Heap) : Res α → Prop
  | .ok a s' => Inv s'.heap ∧ Trans h s'.heap ∧ R a s'.heap
  | .err (.sig _) s' => Inv s'.heap ∧ Trans h s'.heap
  | .err _ s' => Weak s'.heap
  | .oof => True

/-- `m`, started in a state whose heap satisfies `P` and the invariant, ends as `Post` says -/
def HT {α : Type} (P : Heap → Prop) (m : EM α) (R : Heap → α → Heap → Prop) : Prop :=
  ∀ s, Inv s.heap → P s.heap → Post (R s.heap) s.heap (m s)

/-- no precondition, no claim about the value -/
def Good {α : Type} (m : EM α) : Prop := HT (fun _ => True) m (fun _ _ _ => True)

theorem Good.of_HT {α : Type} {m : EM α} {R : Heap → α → Heap → Prop}
    (h : HT (fun _ => True) m R) : Good m := by
  intro s i _
  have := h s i trivial
  cases hr : m s with
  | ok a s' => rw [hr] at this; exact ⟨this.1, this.2.1, trivial⟩
  | err e s' => rw [hr] at this; cases e <;> exact this
  | oof => trivial

theorem Post.mono {α : Type} {R R' : α → Heap → Prop} {h : Heap} {r : Res α}
    (hr : Post R h r) (imp : ∀ a h', Inv h' → Trans h h' → R a h' → R' a h') : Post R' h r := by
  cases r with
  | ok a s' => exact ⟨hr.1, hr.2.1, imp a _ hr.1 hr.2.1 hr.2.2⟩
  | err e s' => cases e <;> exact hr
  | oof => trivial

theorem Post.trans {α : Type} {R : α → Heap → Prop} {h h1 : Heap} {r : Res α} (t : Trans h h1)
    (hr : Post R h1 r) : Post R h r := by
  cases r with
  | ok a s' => exact ⟨hr.1, t.trans hr.2.1, hr.2.2⟩
  | err e s' =>
    cases e with
    | sig g => exact ⟨hr.1, t.trans hr.2⟩
    | runtime p m => exact hr
    | panic m => exact hr
    | unmodelled w => exact hr
  | oof => trivial

/-- sequencing with full information: the continuation is run from a state that satisfies the
    invariant, is `Trans`-related to the start and satisfies the first computation's claim -/
theorem HT.bind {α β : Type} {P : Heap → Prop} {m : EM α} {f : α → EM β}
    {R1 : Heap → α → Heap → Prop} {R : Heap → β → Heap → Prop}
    (hm : HT P m R1)
    (hf : ∀ (s : St) (a : α) (s1 : St), Inv s.heap → P s.heap → Inv s1.heap → Trans s.heap s1.heap →
      R1 s.heap a s1.heap → Post (R s.heap) s.heap (f a s1)) :
    HT P (m >>= f) R := by
  intro s i p
  show Post _ _ (EM.bind m f s)
  unfold EM.bind
  have h := hm s i p
  cases hr : m s with
  | ok a s1 => rw [hr] at h; exact hf s a s1 i p h.1 h.2.1 h.2.2
  | err e s1 => rw [hr] at h; cases e <;> exact h
  | oof => trivial

namespace Good

theorem bind {α β : Type} {m : EM α} {f : α → EM β} (hm : Good m) (hf : ∀ a, Good (f a)) :
    Good (m >>= f) :=
  HT.bind hm (fun s a s1 i _ i1 t _ => Post.trans t (hf a s1 i1 trivial))

/-- a computation that never changes the heap -/
theorem of_heap_eq {α : Type} (m : EM α)
    (h : ∀ s, match m s with
      | .ok _ s' => s'.heap = s.heap
      | .err _ s' => s'.heap = s.heap
      | .oof => True) : Good m := by
  intro s i _
  have := h s
  cases hr : m s with
  | ok a s' => rw [hr] at this; simp only at this; exact ⟨by rw [this]; exact i, by rw [this]; exact Trans.refl _, trivial⟩
  | err e s' =>
    rw [hr] at this; simp only at this
    cases e with
    | sig g => exact ⟨by rw [this]; exact i, by rw [this]; exact Trans.refl _⟩
    | runtime p m => show Weak s'.heap; rw [this]; exact i.weak
    | panic m => show Weak s'.heap; rw [this]; exact i.weak
    | unmodelled w => show Weak s'.heap; rw [this]; exact i.weak
  | oof => trivial

theorem pure {α : Type} (a : α) : Good (Pure.pure a : EM α) := of_heap_eq _ (fun _ => rfl)
theorem oof {α : Type} : Good (Jqawk.oof : EM α) := fun _ _ _ => trivial
theorem getSt : Good Jqawk.getSt := of_heap_eq _ (fun _ => rfl)
theorem getHeap : Good Jqawk.getHeap := of_heap_eq _ (fun _ => rfl)
theorem readCell (c : CellId) : Good (Jqawk.readCell c) := of_heap_eq _ (fun _ => rfl)
theorem throwSig {α : Type} (g : Sig) : Good (Jqawk.throwSig g : EM α) := of_heap_eq _ (fun _ => rfl)
theorem throwPanic {α : Type} (m : String) : Good (Jqawk.throwPanic m : EM α) := fun _ i _ => i.weak
theorem throwUnmodelled {α : Type} (m : String) : Good (Jqawk.throwUnmodelled m : EM α) :=
  fun _ i _ => i.weak
theorem throwRt {α : Type} (p : Nat) (m : String) : Good (Jqawk.throwRt p m : EM α) := fun _ i _ => i.weak
theorem liftExcept {α : Type} (p : Nat) (e : Except String α) : Good (Jqawk.liftExcept p e) := by
  cases e with
  | ok a => exact pure a
  | error m => exact throwRt p m
theorem emit (b : Bytes) : Good (Jqawk.emit b) := of_heap_eq _ (fun _ => rfl)
theorem setReturnVal (c : Option CellId) :
    Good (Jqawk.modifySt fun s => { s with returnVal := c }) := of_heap_eq _ (fun _ => rfl)

theorem newCell (v : Val) : Good (Jqawk.newCell v) :=
  fun s i _ => ⟨inv_alloc i v, trans_alloc _ v, trivial⟩

/-- writing a plain value -/
theorem writeCell (c : CellId) (v : Val) (hv : Plain v) : Good (Jqawk.writeCell c v) :=
  fun s i _ => ⟨inv_set i c hv, trans_set _ c hv, trivial⟩

theorem allocObjEmpty : Good (Jqawk.allocObjM []) :=
  fun s i _ => ⟨inv_allocObj i [] (fun _ h => by cases h), trans_allocObj _ _, trivial⟩

theorem allocArrEmpty : Good (Jqawk.allocArrM #[]) :=
  fun s i _ => ⟨inv_allocArr i [] List.nodup_nil (fun _ h => by cases h),
    trans_allocArr (Trans.refl _) [] (fun _ h => by cases h), trivial⟩

theorem setLocal (name : Bytes) (c : CellId) : Good (Jqawk.setLocal name c) := by
  apply of_heap_eq
  intro s
  unfold Jqawk.setLocal
  cases s.frames <;> rfl

end Good

end Jqawk.HeapInv
