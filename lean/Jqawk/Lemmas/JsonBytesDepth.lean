import Jqawk.Lemmas.JsonBytesTree
/-!
  Every tree the decoder builds has nesting depth at most `maxNestingDepth` (10000): an invariant
  of the scanner state machine (`pushParseState` refuses to go deeper).
-/
namespace Jqawk.JsonBytes
open Jqawk Jqawk.Json

theorem depthList_le_iff (l : List JVal) (m : Nat) : depthList l ≤ m ↔ ∀ v ∈ l, depth v ≤ m := by
  induction l with
  | nil => simp [depthList]
  | cons x xs ih => simp [depthList, Nat.max_le, ih]

theorem depthMembers_le_iff (l : List (Bytes × JVal)) (m : Nat) :
    depthMembers l ≤ m ↔ ∀ kv ∈ l, depth kv.2 ≤ m := by
  induction l with
  | nil => simp [depthMembers]
  | cons x xs ih => obtain ⟨k, v⟩ := x; simp [depthMembers, Nat.max_le, ih]

/-- all values collected in a frame have depth at most `m` -/
def FrameD (m : Nat) : Frame → Prop
  | .arr acc => ∀ v ∈ acc, depth v ≤ m
  | .obj ms _ _ => ∀ kv ∈ ms, depth kv.2 ≤ m

/-- the frame with `n` frames below it holds values of depth ≤ 10000 - (n + 1) -/
def StackD : List Frame → Prop
  | [] => True
  | fr :: fs => FrameD (maxNestingDepth - (fs.length + 1)) fr ∧ StackD fs

def StepD : Step → Prop
  | .endTop v => depth v ≤ maxNestingDepth
  | .lit _ v => depth v = 0
  | _ => True

structure StD (s : St) : Prop where
  dep : s.depth = s.stack.length
  len : s.stack.length ≤ maxNestingDepth
  stk : StackD s.stack
  stp : StepD s.step

def OutD : Out → Prop
  | .cont s => StD s
  | .done v _ _ => depth v ≤ maxNestingDepth
  | .err => True

theorem deliver_d (s : St) (v : JVal) (hd : s.depth = s.stack.length) (hl : s.stack.length ≤ maxNestingDepth)
    (hs : StackD s.stack) (hv : depth v + s.stack.length ≤ maxNestingDepth) : StD (deliver s v) := by
  unfold deliver
  split
  · rename_i h
    exact ⟨by simpa [h] using hd, by simp [h], by simp [h, StackD], by simp only [StepD]; omega⟩
  · rename_i acc fs h
    rw [h] at hs hv hl hd
    simp only [StackD, FrameD, List.length_cons] at hs hv hl hd
    refine ⟨by simpa using hd, by simpa using hl, ⟨?_, hs.2⟩, trivial⟩
    intro w hw
    rcases List.mem_cons.1 hw with rfl | hw
    · omega
    · exact hs.1 w hw
  · rename_i ms k fs h
    rw [h] at hs hv hl hd
    simp only [StackD, FrameD, List.length_cons] at hs hv hl hd
    exact ⟨by simpa using hd, by simpa using hl, ⟨hs.1, hs.2⟩, trivial⟩
  · rename_i ms k fs h
    rw [h] at hs hv hl hd
    simp only [StackD, FrameD, List.length_cons] at hs hv hl hd
    refine ⟨by simpa using hd, by simpa using hl, ⟨?_, hs.2⟩, trivial⟩
    intro kv hkv
    rcases mem_insertMember hkv with rfl | hkv
    · simp only; omega
    · exact hs.1 kv hkv

/-- closing a bracket: `s.stack = fr :: fs`, the composite `v` built from `fr` -/
theorem pop_d (s : St) (fs : List Frame) (v : JVal) (hd : s.depth = fs.length + 1)
    (hl : fs.length + 1 ≤ maxNestingDepth) (hfs : StackD fs) (hv : depth v + fs.length ≤ maxNestingDepth) :
    OutD (pop s fs v) := by
  unfold pop
  split
  · simp only [OutD]; simp only [List.length_nil] at hv; omega
  · exact deliver_d _ v (by simp [hd]) (by simp only; omega) hfs hv

theorem endValue_d (s : St) (c : UInt8) (hd : s.depth = s.stack.length)
    (hl : s.stack.length ≤ maxNestingDepth) (hs : StackD s.stack) : OutD (endValue s c) := by
  unfold endValue
  split
  · exact ⟨hd, hl, hs, trivial⟩
  · split
    · trivial
    · rename_i ms k fs h
      split
      · rw [h] at hd hl hs
        exact ⟨by simpa using hd, by simpa using hl, hs, trivial⟩
      · trivial
    · rename_i ms k fs h
      rw [h] at hd hl hs
      simp only [List.length_cons] at hd hl
      split
      · exact ⟨by simpa using hd, by simpa using hl, hs, trivial⟩
      · split
        · simp only [StackD, FrameD] at hs
          have : depthMembers ms ≤ maxNestingDepth - (fs.length + 1) := (depthMembers_le_iff _ _).2 hs.1
          exact pop_d s fs (.obj ms) hd hl hs.2 (by simp only [depth]; omega)
        · trivial
    · rename_i acc fs h
      rw [h] at hd hl hs
      simp only [List.length_cons] at hd hl
      split
      · exact ⟨by simpa [h] using hd, by simpa [h] using hl, by rw [h]; exact hs, trivial⟩
      · split
        · simp only [StackD, FrameD] at hs
          have : depthList acc.reverse ≤ maxNestingDepth - (fs.length + 1) :=
            (depthList_le_iff _ _).2 fun w hw => hs.1 w (by simpa using hw)
          exact pop_d s fs (.arr acc.reverse) hd hl hs.2 (by simp only [depth]; omega)
        · trivial

theorem more_d (s : St) (c : UInt8) (next : Step) (h : StD s) (hn : StepD next) : OutD (more s c next) :=
  ⟨h.dep, h.len, h.stk, hn⟩

theorem afterValue_d (s : St) (c : UInt8) (hs : StD s) : OutD (afterValue s c) := by
  unfold afterValue
  split
  · rename_i v h; have := hs.stp; rw [h] at this; exact this
  · exact endValue_d s c hs.dep hs.len hs.stk

theorem endNumber_d (f : Bytes → Bool) (s : St) (c : UInt8) (h : StD s) : OutD (endNumber f s c) := by
  unfold endNumber
  exact afterValue_d _ c (deliver_d _ _ h.dep h.len h.stk (by simp only [depth]; have := h.len; omega))

theorem push_d (s : St) (fr : Frame) (next : Step) (h : StD s) (hfr : ∀ m, FrameD m fr)
    (hn : StepD next) : OutD (push s fr next) := by
  unfold push
  split
  · rename_i hle
    have := h.dep
    exact ⟨by simp [h.dep], by simp only [List.length_cons]; omega, ⟨hfr _, h.stk⟩, hn⟩
  · trivial

theorem beginValue_d (s : St) (c : UInt8) (h : StD s) : OutD (beginValue s c) := by
  unfold beginValue
  repeat' split
  · exact h
  · exact push_d s _ _ h (fun m => by simp [FrameD]) trivial
  · exact push_d s _ _ h (fun m => by simp [FrameD]) trivial
  all_goals first | exact ⟨h.dep, h.len, h.stk, trivial⟩ | exact ⟨h.dep, h.len, h.stk, rfl⟩ | trivial

theorem beginString_d (s : St) (c : UInt8) (h : StD s) : OutD (beginString s c) := by
  unfold beginString
  repeat' split
  · exact h
  · exact ⟨h.dep, h.len, h.stk, trivial⟩
  · trivial

theorem step_d (f : Bytes → Bool) (s : St) (c : UInt8) (h : StD s) : OutD (step f s c) := by
  unfold step
  split
  · exact beginValue_d s c h
  · split
    · exact h
    · split
      · exact endValue_d s c h.dep h.len h.stk
      · exact beginValue_d s c h
  · split
    · exact h
    · split
      · split
        · rename_i ms k b fs hstk
          obtain ⟨hd, hl, hs, _⟩ := h
          rw [hstk] at hd hl hs
          exact endValue_d _ c (by simpa using hd) (by simpa using hl) hs
        · trivial
      · exact beginString_d s c h
  · exact beginString_d s c h
  · exact endValue_d s c h.dep h.len h.stk
  · rename_i v hv; have := h.stp; rw [hv] at this; exact this
  · repeat' split
    · exact deliver_d _ _ h.dep h.len h.stk (by simp only [depth]; have := h.len; omega)
    · exact more_d s c _ h trivial
    · trivial
    · exact more_d s c _ h trivial
  · repeat' split
    · exact more_d s c _ h trivial
    · exact more_d s c _ h trivial
    · trivial
  · split
    · refine more_d s c _ h ?_
      split <;> trivial
    · trivial
  · repeat' split
    all_goals first | exact more_d s c _ h trivial | trivial
  case h_18 rest v hv =>
    have hst := h.stp
    rw [hv] at hst
    simp only [StepD] at hst
    split
    · trivial
    · split
      · exact deliver_d _ _ h.dep h.len h.stk (by rw [hst]; have := h.len; omega)
      · trivial
    · split
      · exact ⟨h.dep, h.len, h.stk, hst⟩
      · trivial
  all_goals
    (try unfold state0)
    (try unfold stateESign)
    repeat' split
    all_goals first | exact more_d s c _ h trivial | exact endNumber_d f s c h | trivial

theorem run_d (f : Bytes → Bool) (t : Tail) : ∀ (inp : Bytes) (s : St) (v : JVal) (rest : Bytes), StD s →
    run f s inp t = .value v rest → depth v ≤ maxNestingDepth := by
  intro inp
  induction inp with
  | nil =>
    intro s v rest hs h
    cases t with
    | more => simp [run] at h
    | ioerr => simp [run] at h
    | eof =>
      simp only [run] at h
      have hok := step_d f s 0x20 hs
      cases hst : step f s 0x20 with
      | cont s' => simp [hst] at h
      | err => simp [hst] at h
      | done w bad consumed =>
        rw [hst] at h hok
        cases bad with
        | true => simp at h
        | false =>
          simp only [DecodeRes.value.injEq] at h
          rw [← h.1]; exact hok
  | cons c cs ih =>
    intro s v rest hs h
    simp only [run] at h
    have hok := step_d f s c hs
    cases hst : step f s c with
    | cont s' => rw [hst] at h hok; exact ih s' v rest hok h
    | err => simp [hst] at h
    | done w bad consumed =>
      rw [hst] at h hok
      cases bad with
      | true => simp at h
      | false =>
        simp only [Bool.false_eq_true, if_false, DecodeRes.value.injEq] at h
        rw [← h.1]; exact hok

/-- every document the decoder returns has nesting depth at most 10000 -/
theorem decodeOne_depth (f : Bytes → Bool) (inp : Bytes) (t : Tail) (v : JVal) (rest : Bytes)
    (h : decodeOne f inp t = .value v rest) : depth v ≤ maxNestingDepth := by
  unfold decodeOne at h
  split at h
  · cases h
  · cases h
  · cases h
  · exact run_d f _ _ St.init v rest ⟨rfl, by simp [St.init], by simp [St.init, StackD], trivial⟩ h

end Jqawk.JsonBytes
