/-
  Selector expressions that allocate no container (C14): built from `$`, literals, member / index
  steps, unary and binary operators other than assignment and `++`/`--`, and `match` whose case
  bodies are expressions of the same kind.  Evaluating such an expression only allocates cells:
  every existing cell, array and object is unchanged and no array or object is created.
-/
import Jqawk.Lemmas.SelectorEval
import Jqawk.Lemmas.Invariant

set_option linter.unusedVariables false
set_option linter.unusedSimpArgs false

namespace Jqawk
namespace Sel

mutual
def selE : Expr → Bool
  | .lit _ => true
  | .ident t => t.tag == .dollar
  | .unary e op _ => !(op.tag == .plusPlus) && !(op.tag == .minusMinus) && selE e
  | .binary l r op => !(op.tag == .equal) && selE l && (op.tag == .is || selE r)
  | .match_ _ v cases => selE v && selCases cases
  | .arr _ _ => false
  | .obj _ _ => false
  | .call _ _ => false
def selCases : List MatchCase → Bool
  | [] => true
  | (.mk _ body) :: cs => selBody body && selCases cs
def selBody : Stmt → Bool
  | .expr be => selE be
  | _ => false
end

mutual
theorem selE_ids : ∀ e : Expr, selE e = true → idsE true (fun _ => false) e = true
  | .lit _, _ => rfl
  | .ident t, h => by simp only [selE] at h; simp [idsE, h]
  | .unary e op p, h => by
    simp only [selE, Bool.and_eq_true] at h
    rw [idsE]; exact selE_ids e h.2
  | .binary l r op, h => by
    simp only [selE, Bool.and_eq_true, Bool.or_eq_true] at h
    rw [idsE, selE_ids l h.1.2]
    rcases h.2 with h2 | h2
    · simp [h2]
    · simp [selE_ids r h2]
  | .match_ t v cases, h => by
    simp only [selE, Bool.and_eq_true] at h
    rw [idsE, selE_ids v h.1, selCases_ids cases h.2]; rfl
  | .arr _ _, h => by simp [selE] at h
  | .obj _ _, h => by simp [selE] at h
  | .call _ _, h => by simp [selE] at h
theorem selCases_ids : ∀ cs : List MatchCase, selCases cs = true → idsCases true (fun _ => false) cs = true
  | [], _ => rfl
  | (.mk pats body) :: cs, h => by
    simp only [selCases, Bool.and_eq_true] at h
    rw [idsCases, selCases_ids cs h.2]
    cases body with
    | expr be =>
      simp only [selBody] at h
      rw [idsS, selE_ids be h.1]; rfl
    | _ => simp [selBody] at h
end

/-! ### only cells are allocated -/

structure NAR (s s' : St) : Prop where
  heap : HeapPreserved s.heap s'.heap
  arrs : s'.heap.arrs = s.heap.arrs
  objs : s'.heap.objs = s.heap.objs

theorem NAR.refl (s : St) : NAR s s := ⟨HeapPreserved.refl _, rfl, rfl⟩
theorem NAR.trans {a b c : St} (h1 : NAR a b) (h2 : NAR b c) : NAR a c :=
  ⟨h1.heap.trans h2.heap, h2.arrs.trans h1.arrs, h2.objs.trans h1.objs⟩

def NAres {α : Type} (s : St) : Res α → Prop
  | .ok _ s' => NAR s s'
  | .err e s' => NAR s s' ∧ ∀ g, e ≠ .sig g
  | .oof => True

def NA {α : Type} (m : EM α) : Prop := ∀ s, NAres s (m s)

theorem NAres.trans {α : Type} {s s1 : St} {r : Res α} (h1 : NAR s s1) (h : NAres s1 r) : NAres s r := by
  cases r with
  | ok a s' => exact h1.trans h
  | err e s' => exact ⟨h1.trans h.1, h.2⟩
  | oof => trivial

namespace NA

theorem pure {α : Type} (a : α) : NA (Pure.pure a : EM α) := fun s => NAR.refl s

theorem bind {α β : Type} {m : EM α} {f : α → EM β} (hm : NA m) (hf : ∀ a, NA (f a)) : NA (m >>= f) := by
  intro s
  show NAres s (EM.bind m f s)
  unfold EM.bind
  have h := hm s
  cases hr : m s with
  | ok a s1 => rw [hr] at h; exact NAres.trans h (hf a s1)
  | err e s1 => rw [hr] at h; exact h
  | oof => trivial

theorem oof {α : Type} : NA (Jqawk.oof : EM α) := fun _ => trivial
theorem getSt : NA Jqawk.getSt := fun s => NAR.refl s
theorem getHeap : NA Jqawk.getHeap := fun s => NAR.refl s
theorem readCell (c : CellId) : NA (Jqawk.readCell c) := fun s => NAR.refl s
theorem throwRt {α : Type} (p : Nat) (m : String) : NA (Jqawk.throwRt p m : EM α) :=
  fun s => ⟨⟨HeapPreserved.refl _, rfl, rfl⟩, fun g h => by cases h⟩
theorem throwPanic {α : Type} (m : String) : NA (Jqawk.throwPanic m : EM α) :=
  fun s => ⟨NAR.refl s, fun g h => by cases h⟩
theorem throwUnmodelled {α : Type} (m : String) : NA (Jqawk.throwUnmodelled m : EM α) :=
  fun s => ⟨NAR.refl s, fun g h => by cases h⟩
theorem newCell (v : Val) : NA (Jqawk.newCell v) := fun s => ⟨HeapPreserved.alloc s.heap v, rfl, rfl⟩

theorem setLocal (name : Bytes) (c : CellId) : NA (Jqawk.setLocal name c) := by
  intro s
  unfold Jqawk.setLocal
  cases s.frames with
  | nil => exact ⟨NAR.refl s, fun g h => by cases h⟩
  | cons f fs => exact ⟨HeapPreserved.refl _, rfl, rfl⟩

theorem bindAll (l : List (Bytes × CellId)) : NA (Jqawk.bindAll l) := by
  induction l with
  | nil => exact pure ()
  | cons kv rest ih =>
    obtain ⟨key, c⟩ := kv
    exact bind (setLocal key c) (fun _ => ih)

theorem getVariable (name : Bytes) : NA (Jqawk.getVariable name) := by
  unfold Jqawk.getVariable
  refine bind getSt (fun s => ?_)
  split
  · exact pure _
  · split
    · exact pure _
    · exact bind (newCell _) (fun c => bind (setLocal _ _) (fun _ => pure _))

theorem getIdentifier (prog : Program) (t : Token) : NA (Jqawk.getIdentifier prog t) := by
  unfold Jqawk.getIdentifier
  split
  · refine bind getSt (fun s => ?_)
    split
    · exact pure _
    · exact throwRt _ _
  · refine bind (getVariable _) (fun r => ?_)
    split
    · exact pure _
    · exact throwRt _ _

theorem memberStep (pos : Nat) (l r : CellId) : NA (Jqawk.memberStep pos l r) := by
  rw [memberStep_eq]
  refine bind (readCell _) (fun rv => bind (readCell _) (fun lv => ?_))
  split
  · exact newCell _
  · refine bind getHeap (fun h => ?_)
    split
    · exact throwRt _ _
    · rename_i mem _
      cases mem with
      | cell c =>
        simp only [memberFound]
        split
        · exact newCell _
        · exact pure _
      | char c x => cases c <;> exact newCell _
      | method f => exact newCell _
      | missing => exact newCell _

theorem framed {α : Type} (name : Bytes) (pos : Nat) (body : EM α) (hb : NA body) :
    NA (do
      let saved := (← Jqawk.getSt).frames
      match (← Jqawk.pushFrame name) with
      | .error m => Jqawk.throwRt pos m
      | .ok () => Jqawk.withFrames saved body) := by
  intro s
  by_cases hd : s.frames.length > callDepthLimit
  · simp only [Bind.bind, EM.bind, Jqawk.getSt, Jqawk.pushFrame, hd, ↓reduceIte]
    exact throwRt pos _ s
  · simp only [Bind.bind, EM.bind, Jqawk.getSt, Jqawk.pushFrame, hd, ↓reduceIte, Jqawk.withFrames]
    have h := hb { s with frames := ⟨name, []⟩ :: s.frames, maxDepth := max s.maxDepth (s.frames.length + 1) }
    revert h
    generalize body _ = r
    intro h
    cases r with
    | ok a s1 => exact ⟨h.heap, h.arrs, h.objs⟩
    | err e s1 => exact ⟨⟨h.1.heap, h.1.arrs, h.1.objs⟩, h.2⟩
    | oof => trivial

end NA

structure AllNA (prog : Program) (n : Nat) : Prop where
  expr : ∀ e, selE e = true → NA (evalExpr prog n e)
  matchCases : ∀ pos v cs, selCases cs = true → NA (evalMatchCases prog n pos v cs)
  caseMatch : ∀ v ps, NA (evalCaseMatch prog n v ps)
  arrayCaseMatch : ∀ v ps, NA (evalArrayCaseMatch prog n v ps)
  matchElems : ∀ cs ps acc, NA (Jqawk.matchElems prog n cs ps acc)
  unary : ∀ e op p, (op.tag == Tag.plusPlus) = false → (op.tag == Tag.minusMinus) = false → selE e = true →
    NA (evalUnary prog n e op p)
  binary : ∀ l r op, (op.tag == Tag.equal) = false → selE l = true → (op.tag == Tag.is || selE r) = true →
    NA (evalBinary prog n l r op)

theorem allNA_zero (prog : Program) : AllNA prog 0 := by
  constructor
  all_goals
    intros
    first
      | (unfold evalExpr; exact NA.oof)
      | (unfold evalMatchCases; exact NA.oof)
      | (unfold evalCaseMatch; exact NA.oof)
      | (unfold evalArrayCaseMatch; exact NA.oof)
      | (unfold Jqawk.matchElems; exact NA.oof)
      | (unfold evalUnary; exact NA.oof)
      | (unfold evalBinary; exact NA.oof)

theorem allNA_succ (prog : Program) (n : Nat) (ih : AllNA prog n) : AllNA prog (n + 1) := by
  constructor
  · -- expr
    intro e he
    unfold evalExpr
    cases e with
    | lit t =>
      dsimp only
      split
      all_goals first
        | exact NA.newCell _
        | exact NA.throwPanic _
        | (split <;> first | exact NA.throwRt _ _ | exact NA.newCell _)
    | ident t => exact NA.getIdentifier prog t
    | unary inner op p =>
      simp only [selE, Bool.and_eq_true, Bool.not_eq_true'] at he
      exact ih.unary inner op p he.1.1 he.1.2 he.2
    | binary l r op =>
      simp only [selE, Bool.and_eq_true, Bool.not_eq_true'] at he
      exact ih.binary l r op he.1.1 he.1.2 he.2
    | match_ t v cases =>
      simp only [selE, Bool.and_eq_true] at he
      dsimp only
      exact NA.bind (ih.expr v he.1) (fun value => ih.matchCases _ value cases he.2)
    | arr _ _ => simp [selE] at he
    | obj _ _ => simp [selE] at he
    | call _ _ => simp [selE] at he
  · -- matchCases
    intro pos v cs h
    cases cs with
    | nil => unfold evalMatchCases; exact NA.newCell _
    | cons c rest =>
      obtain ⟨pats, body⟩ := c
      simp only [selCases, Bool.and_eq_true] at h
      unfold evalMatchCases
      refine NA.bind (ih.caseMatch v pats) (fun r => ?_)
      cases r with
      | none => exact ih.matchCases pos v rest h.2
      | some bindings =>
        dsimp only
        apply NA.framed
        refine NA.bind (NA.bindAll _) (fun _ => ?_)
        cases body with
        | expr be => exact ih.expr be (by simpa [selBody] using h.1)
        | _ => simp [selBody] at h
  · -- caseMatch
    intro v ps
    cases ps with
    | nil => unfold evalCaseMatch; exact NA.pure _
    | cons p rest =>
      unfold evalCaseMatch
      cases p with
      | lit t =>
        dsimp only
        refine NA.bind (ih.expr (.lit t) rfl) (fun cv => NA.bind (NA.readCell _) (fun a => NA.bind (NA.readCell _) (fun b => ?_)))
        split
        · exact ih.caseMatch v rest
        · split
          · exact NA.throwRt _ _
          · split
            · exact NA.pure _
            · exact ih.caseMatch v rest
      | arr t items =>
        dsimp only
        refine NA.bind (ih.arrayCaseMatch v items) (fun r => ?_)
        split
        · exact NA.pure _
        · exact ih.caseMatch v rest
      | ident t => exact NA.pure _
      | _ => exact NA.throwRt _ _
  · -- arrayCaseMatch
    intro v ps
    unfold evalArrayCaseMatch
    refine NA.bind (NA.readCell _) (fun rv => ?_)
    split
    · refine NA.bind NA.getHeap (fun h => ?_)
      dsimp only
      split
      · exact NA.pure _
      · exact ih.matchElems _ _ _
    · exact NA.pure _
  · -- matchElems
    intro cs ps acc
    cases cs with
    | nil => unfold Jqawk.matchElems; exact NA.pure _
    | cons c cs =>
      cases ps with
      | nil => unfold Jqawk.matchElems; exact NA.pure _
      | cons p ps =>
        unfold Jqawk.matchElems
        refine NA.bind (ih.caseMatch c [p]) (fun r => ?_)
        split
        · exact NA.pure _
        · exact ih.matchElems _ _ _
  · -- unary
    intro e op p h1 h2 h3
    unfold evalUnary
    refine NA.bind (ih.expr e h3) (fun val => NA.bind (NA.readCell _) (fun v => ?_))
    split
    · exact NA.newCell _
    · exact NA.newCell _
    · exact NA.newCell _
    · rename_i heq; rw [heq] at h1; cases h1
    · rename_i heq; rw [heq] at h2; cases h2
    · exact NA.throwRt _ _
  · -- binary
    intro l r op h1 h2 h3
    unfold evalBinary
    refine NA.bind (ih.expr l h2) (fun left => ?_)
    have truthyCell : ∀ c : CellId, NA (do newCell (.bool (← Jqawk.readCell c).truthy)) :=
      fun c => NA.bind (NA.readCell c) (fun v => NA.newCell _)
    split
    · rename_i htag
      have hr' : selE r = true := by simpa [htag] using h3
      refine NA.bind (NA.readCell _) (fun v => ?_)
      split
      · exact NA.bind (ih.expr r hr') (fun right => truthyCell right)
      · exact NA.newCell _
    · rename_i htag
      have hr' : selE r = true := by simpa [htag] using h3
      refine NA.bind (NA.readCell _) (fun v => ?_)
      split
      · exact NA.newCell _
      · exact NA.bind (ih.expr r hr') (fun right => truthyCell right)
    · split
      · exact NA.bind (NA.readCell _) (fun v => NA.newCell _)
      · exact NA.throwRt _ _
    · rename_i hn1 hn2 hn3
      have hr' : selE r = true := by
        cases hb : (op.tag == Tag.is) with
        | true => exact absurd (by simpa using hb) hn3
        | false => simpa [hb] using h3
      refine NA.bind (ih.expr r hr') (fun right => ?_)
      split
      · exact NA.memberStep _ _ _
      · exact NA.memberStep _ _ _
      · rename_i heq; rw [heq] at h1; cases h1
      · split
        · refine NA.bind (NA.readCell _) (fun a => NA.bind (NA.readCell _) (fun b => ?_))
          split
          · exact NA.newCell _
          · exact NA.throwRt _ _
          · exact NA.throwUnmodelled _
        · exact NA.throwRt _ _

/-- **evaluating a container-free selector expression only allocates cells** -/
theorem allNA (prog : Program) : ∀ n, AllNA prog n
  | 0 => allNA_zero prog
  | n + 1 => allNA_succ prog n (allNA prog n)

end Sel
end Jqawk
