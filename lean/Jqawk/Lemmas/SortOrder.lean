/-
  Lemmas for C15: the two orders `sort` uses are total preorders.
-/
import Jqawk.Model.Natives
set_option linter.unusedSimpArgs false

namespace Jqawk
open Jqawk

/-! ### `f64Le`: `cmp.Compare(x, y) ≤ 0`, NaN smallest -/

theorem f64Le_total (x y : F64) : (f64Le x y || f64Le y x) = true := by
  simp only [f64Le, F64.le]
  cases x.isNaN <;> cases y.isNaN <;> simp
  omega

theorem f64Le_trans (x y z : F64) (h1 : f64Le x y = true) (h2 : f64Le y z = true) :
    f64Le x z = true := by
  simp only [f64Le, F64.le] at *
  cases hx : x.isNaN <;> cases hy : y.isNaN <;> cases hz : z.isNaN <;> simp_all
  omega

/-! ### `Bytes.le`: bytewise lexicographic -/

theorem Bytes.cmp_self (a : Bytes) : Bytes.cmp a a = .eq := by
  induction a with
  | nil => rfl
  | cons x a ih => simp [Bytes.cmp, ih]

theorem Bytes.cmp_gt_iff_lt (a b : Bytes) : Bytes.cmp a b = .gt ↔ Bytes.cmp b a = .lt := by
  induction a generalizing b with
  | nil => cases b <;> simp [Bytes.cmp]
  | cons x a ih =>
    cases b with
    | nil => simp [Bytes.cmp]
    | cons y b =>
      simp only [Bytes.cmp]
      by_cases h1 : x < y
      · have h2 : ¬ y < x := by simp only [UInt8.lt_iff_toNat_lt] at *; omega
        have h3 : y > x := h1
        simp [h1, h2, h3]
      · by_cases h2 : y < x
        · have h3 : x > y := h2
          simp [h1, h2, h3]
        · have h3 : ¬ x > y := h2
          have h4 : ¬ y > x := h1
          simp [h1, h2, h3, h4, ih]

theorem Bytes.le_total_sortOrder (a b : Bytes) : (Bytes.le a b || Bytes.le b a) = true := by
  simp only [Bytes.le, Bool.or_eq_true, bne_iff_ne, ne_eq]
  by_cases h : Bytes.cmp a b = .gt
  · right
    rw [(Bytes.cmp_gt_iff_lt a b).mp h]; simp
  · exact .inl h

theorem Bytes.cmp_trans_not_gt (a b c : Bytes) (h1 : Bytes.cmp a b ≠ .gt) (h2 : Bytes.cmp b c ≠ .gt) :
    Bytes.cmp a c ≠ .gt := by
  induction a generalizing b c with
  | nil => cases c <;> simp [Bytes.cmp]
  | cons x a ih =>
    cases b with
    | nil => simp [Bytes.cmp] at h1
    | cons y b =>
      cases c with
      | nil => simp [Bytes.cmp] at h2
      | cons z c =>
        simp only [Bytes.cmp] at h1 h2 ⊢
        by_cases hxy : x < y
        · by_cases hyz : y < z
          · have : x < z := by simp only [UInt8.lt_iff_toNat_lt] at *; omega
            simp [this]
          · have hyz' : ¬ y > z := by
              intro hgt; have : z < y := hgt; simp [hyz, this] at h2
            have : x < z := by
              have e : ¬ z < y := hyz'
              simp only [UInt8.lt_iff_toNat_lt] at *; omega
            simp [this]
        · have hxy' : ¬ x > y := by
            intro hgt; have : y < x := hgt; simp [hxy, this] at h1
          have exy : x = y := by
            have e : ¬ y < x := hxy'
            apply UInt8.toNat_inj.mp
            simp only [UInt8.lt_iff_toNat_lt] at *; omega
          subst exy
          simp only [hxy, ↓reduceIte, hxy'] at h1
          by_cases hyz : x < z
          · simp [hyz]
          · have hyz' : ¬ x > z := by
              intro hgt; have : z < x := hgt; simp [hyz, this] at h2
            simp only [hyz, ↓reduceIte, hyz'] at h2 ⊢
            exact ih b c h1 h2

theorem Bytes.le_trans (a b c : Bytes) (h1 : Bytes.le a b = true) (h2 : Bytes.le b c = true) :
    Bytes.le a c = true := by
  simp only [Bytes.le, bne_iff_ne, ne_eq] at *
  exact Bytes.cmp_trans_not_gt a b c h1 h2

end Jqawk
